"""C26 harness: drive the real Metadata / TokenMap on a described ring, an executable transcription of the property's
oracle (Cassandra's placement, written from memory of SimpleStrategy / NetworkTopologyStrategy.calculateNaturalEndpoints),
ring enumerators/generators and Gallina literal printers.

A *ring description* is JSON-able:
  layout : [[dc, rack], ...]   one entry per host id 0..H-1 (small ints)
  ring   : [[token, host], ...]  distinct integer tokens (any order; the driver sorts)
A *strategy description* is ['simple', '<rf string>'] or ['nts', {'<dc>': '<rf string>', ...}]  (rf string 'N' or 'N/T');
in histories also ['local'] and ['unknown', '<class name>'] (no placement known to the driver: not judged, but cached).
"""
import itertools

PARTITIONERS = {
    'murmur3': 'org.apache.cassandra.dht.Murmur3Partitioner',
    'random': 'org.apache.cassandra.dht.RandomPartitioner',
    'bytes': 'org.apache.cassandra.dht.ByteOrderedPartitioner',
}
BYTES_WIDTH = 9   # tokens of the ByteOrderedPartitioner are rendered as fixed-width big-endian hex of (token + 2**64)


# ------------------------------------------------------------------ independent parse of a replication factor string
def full_replicas(rfs):
    """'N' -> N ; 'N/T' -> N - T (the driver places full replicas only; reading fixed in docs/C26.md)"""
    s = str(rfs)
    if '/' in s:
        a, t = s.split('/')
        return int(a) - int(t)
    return int(s)


# ------------------------------------------------------------------ the real implementation
class Impl(object):
    def __init__(self, layout, ring, partitioner='murmur3', dict_order=None):
        from cassandra.metadata import Metadata
        from cassandra.pool import Host
        from cassandra.connection import DefaultEndPoint
        from cassandra.policies import SimpleConvictionPolicy
        self.partitioner = partitioner
        self.hosts = []
        self.ids = {}
        for i, (dc, rack) in enumerate(layout):
            h = Host(DefaultEndPoint('10.0.%d.%d' % (i // 200, i % 200 + 1)), SimpleConvictionPolicy)
            h.set_location_info('dc%d' % dc, 'r%d' % rack)
            self.hosts.append(h)
            self.ids[h] = i
        self.meta = Metadata()
        self.nks = 0
        self.rebuild(ring, dict_order)

    def token_string(self, t):
        if self.partitioner == 'bytes':
            return '%0*x' % (2 * BYTES_WIDTH, t + 2 ** 64)
        return str(t)

    def token_obj(self, t):
        tc = self.meta.token_map.token_class
        return tc.from_string(self.token_string(t))

    def rebuild(self, ring, dict_order=None):
        order = list(dict_order) if dict_order is not None else sorted(set(h for _, h in ring))
        tm = {}
        for h in order:
            tm[self.hosts[h]] = [self.token_string(t) for t, hh in ring if hh == h]
        self.meta.rebuild_token_map(PARTITIONERS[self.partitioner], tm)

    def set_keyspace(self, name, strat):
        """create or replace the keyspace metadata; returns the driver's ReplicationStrategy object"""
        ks = keyspace_meta(name, strat)
        existed = name in self.meta.keyspaces
        self.meta.keyspaces[name] = ks
        if existed:
            self.meta._keyspace_updated(name)
        else:
            self.meta._keyspace_added(name)
        return ks.replication_strategy

    def new_keyspace(self, strat):
        self.nks += 1
        name = 'ks%d' % self.nks
        return name, self.set_keyspace(name, strat)

    def replicas(self, ks, t):
        """TokenMap.get_replicas for token t -> host ids (list, order and repetitions preserved)"""
        return [self.ids[h] for h in self.meta.token_map.get_replicas(ks, self.token_obj(t))]

    def replicas_for_key(self, ks, key):
        """Metadata.get_replicas(keyspace, key): the public entry point (key -> token by the driver)"""
        return [self.ids[h] for h in self.meta.get_replicas(ks, key)]

    def parsed_rf(self, strategy_obj, strat):
        if strat[0] == 'simple':
            return strategy_obj.replication_factor
        return dict((k[2:], v) for k, v in strategy_obj.dc_replication_factors.items())


class _FakeSchemaParser(object):
    """what Metadata._rebuild_all needs from a schema parser: the list of all keyspaces (full schema refresh)"""
    def __init__(self, metas):
        self.metas = metas

    def get_all_keyspaces(self):
        return list(self.metas)


def keyspace_meta(name, strat):
    from cassandra.metadata import KeyspaceMetadata
    if strat[0] == 'simple':
        return KeyspaceMetadata(name, True, 'SimpleStrategy', {'replication_factor': strat[1]})
    if strat[0] == 'local':
        return KeyspaceMetadata(name, True, 'org.apache.cassandra.locator.LocalStrategy', {})
    if strat[0] == 'unknown':      # a strategy class the driver has no placement for: it caches an EMPTY replica map
        return KeyspaceMetadata(name, True, strat[1], {'k': 'v'})
    return KeyspaceMetadata(name, True, 'NetworkTopologyStrategy', dict(('dc%s' % d, v) for d, v in strat[1].items()))


def placed(strat):
    """does the statement say anything about these settings (SimpleStrategy / NetworkTopologyStrategy only)"""
    return strat is not None and strat[0] in ('simple', 'nts')


def play_history(layout, ring, history, queries, ks='ks'):
    """Drive ONE keyspace through the real code paths the driver takes when schema / topology events arrive, querying
    TokenMap.get_replicas after every step.  Yields (index, op, current ring, current strategy or None, [(token, replicas)]).
    ops: ['query'] | ['update_keyspace', strat] (Metadata._update_keyspace: CREATE or ALTER event) | ['drop_keyspace']
       | ['rebuild_all', strat] (Metadata._rebuild_all: full schema refresh) | ['assign_and_notify', strat] (keyspaces[ks]=...; _keyspace_updated)
       | ['rebuild_ring', ring2] (Metadata.rebuild_token_map) | ['rebuild_keyspace'] | ['remove_keyspace'] (TokenMap methods: cache refresh / eviction)"""
    impl = Impl(layout, ring)
    m = impl.meta
    cur_ring, cur = [list(e) for e in ring], None
    for i, op in enumerate(history):
        k = op[0]
        if k == 'update_keyspace':
            m._update_keyspace(keyspace_meta(ks, op[1]))
            cur = op[1]
        elif k == 'drop_keyspace':
            m._drop_keyspace(ks)
            cur = None
        elif k == 'rebuild_all':
            m._rebuild_all(_FakeSchemaParser([keyspace_meta('other', ['simple', '1']), keyspace_meta(ks, op[1])]))
            cur = op[1]
        elif k == 'assign_and_notify':
            impl.set_keyspace(ks, op[1])
            cur = op[1]
        elif k == 'rebuild_ring':
            cur_ring = [list(e) for e in op[1]]
            impl.rebuild(cur_ring)
        elif k == 'rebuild_keyspace':
            m.token_map.rebuild_keyspace(ks, build_if_absent=False)
        elif k == 'remove_keyspace':
            m.token_map.remove_keyspace(ks)      # eviction only: the keyspace still exists, the next lookup rebuilds
        elif k != 'query':
            raise ValueError(op)
        yield i, op, cur_ring, cur, [(t, impl.replicas(ks, t)) for t in queries]


# ------------------------------------------------------------------ key -> token, independently of the driver
_M = (1 << 64) - 1


def partitioner_hash(key):
    """org.apache.cassandra.utils.MurmurHash.hash3_x64_128(key, 0, len, 0)[0] as a signed long (transcribed from memory)"""
    def rotl(x, r):
        return ((x << r) | (x >> (64 - r))) & _M

    def fmix(k):
        k ^= k >> 33
        k = (k * 0xff51afd7ed558ccd) & _M
        k ^= k >> 33
        k = (k * 0xc4ceb9fe1a85ec53) & _M
        k ^= k >> 33
        return k

    def sx(b):                      # (long) of a Java byte: sign-extended
        return (b - 256 if b >= 128 else b) & _M
    c1, c2 = 0x87c37b91114253d5, 0x4cf5ad432745937f
    n, h1, h2 = len(key), 0, 0
    for i in range(n // 16):
        k1 = int.from_bytes(key[16 * i:16 * i + 8], 'little')
        k2 = int.from_bytes(key[16 * i + 8:16 * i + 16], 'little')
        k1 = rotl((k1 * c1) & _M, 31) * c2 & _M
        h1 = ((rotl(h1 ^ k1, 27) + h2) & _M) * 5 + 0x52dce729 & _M
        k2 = rotl((k2 * c2) & _M, 33) * c1 & _M
        h2 = ((rotl(h2 ^ k2, 31) + h1) & _M) * 5 + 0x38495ab5 & _M
    t = key[16 * (n // 16):]
    k1 = k2 = 0
    for i in range(8, len(t)):
        k2 ^= (sx(t[i]) << (8 * (i - 8))) & _M
    if len(t) > 8:
        h2 ^= rotl((k2 * c2) & _M, 33) * c1 & _M
    for i in range(min(len(t), 8)):
        k1 ^= (sx(t[i]) << (8 * i)) & _M
    if len(t) > 0:
        h1 ^= rotl((k1 * c1) & _M, 31) * c2 & _M
    h1 ^= n
    h2 ^= n
    h1 = (h1 + h2) & _M
    h2 = (h2 + h1) & _M
    h1, h2 = fmix(h1), fmix(h2)
    h1 = (h1 + h2) & _M
    return h1 - (1 << 64) if h1 >= (1 << 63) else h1


def partitioner_token(key):
    """Murmur3Partitioner.getToken: normalize(hash): Long.MIN_VALUE -> Long.MAX_VALUE"""
    h = partitioner_hash(key)
    return (1 << 63) - 1 if h == -(1 << 63) else h


# 16-byte keys with chosen raw hashes (one murmur3 block is invertible): Long.MIN_VALUE (x2), MIN_VALUE+1, MAX_VALUE
BOUNDARY_KEYS = [bytes.fromhex(x) for x in ('ee961629b0b5ad1d319e18e83892dbed', 'dfe76f52023fad4c82b861c2c65c7a6b',
                                            '0d68d15960efee13f50aaac4a49090e1', '1aaebd2d9c3a9d7e66513b2c91fcf940')]


# ------------------------------------------------------------------ concurrency: lock audit and a forced interleaving
def audit_rebuild_lock(src):
    """TokenMap.rebuild_keyspace must do ALL its work on tokens_to_hosts_by_ks / _metadata.keyspaces inside `with self._rebuild_lock`
    (the atomic regions of Model/RingCache.v).  Returns a list of problems."""
    import ast
    probs = []
    cls = [n for n in ast.parse(src).body if isinstance(n, ast.ClassDef) and n.name == 'TokenMap']
    if not cls:
        return ['class TokenMap not found']
    fn = [n for n in cls[0].body if isinstance(n, ast.FunctionDef) and n.name == 'rebuild_keyspace']
    if not fn:
        return ['TokenMap.rebuild_keyspace not found']
    body = [st for st in fn[0].body if not (isinstance(st, ast.Expr) and isinstance(st.value, ast.Constant))]

    def is_lock(w):
        return any(isinstance(i.context_expr, ast.Attribute) and i.context_expr.attr == '_rebuild_lock' for i in w.items)
    for st in body:
        if isinstance(st, ast.With) and is_lock(st):
            continue
        for n in ast.walk(st):
            if isinstance(n, ast.Attribute) and n.attr in ('tokens_to_hosts_by_ks', 'keyspaces', '_metadata'):
                probs.append('rebuild_keyspace touches self.%s outside `with self._rebuild_lock` (line %d)' % (n.attr, n.lineno))
            if isinstance(n, ast.Return):
                probs.append('rebuild_keyspace returns before taking _rebuild_lock (line %d)' % n.lineno)
    if not any(isinstance(st, ast.With) and is_lock(st) for st in body):
        probs.append('rebuild_keyspace does not take self._rebuild_lock')
    init = [n for n in cls[0].body if isinstance(n, ast.FunctionDef) and n.name == '__init__']
    if not init or '_rebuild_lock' not in ast.dump(init[0]):
        probs.append('TokenMap.__init__ does not create _rebuild_lock')
    return sorted(set(probs))


class _SpyLock(object):
    """wraps TokenMap._rebuild_lock: tells when another thread is about to block on it"""
    def __init__(self, real, contended):
        self.real, self.contended = real, contended

    def __enter__(self):
        if not self.real.acquire(False):
            self.contended.set()
            self.real.acquire()
        return self

    def __exit__(self, *a):
        self.real.release()


def race_alter_during_first_build(layout, ring, old, new, queries, ks='ks'):
    """Witness of C26_cache_unlocked_refuted on the real code: thread Q (first lookup) is parked inside make_token_replica_map,
    i.e. after it read the OLD settings and before it publishes; thread E delivers the ALTER through Metadata._update_keyspace.
    Q resumes when E has finished or is blocked on _rebuild_lock.  Returns the replicas served afterwards."""
    import threading
    impl = Impl(layout, ring)
    m = impl.meta
    m._update_keyspace(keyspace_meta(ks, old))
    tm = m.token_map
    contended, built, edone = threading.Event(), threading.Event(), threading.Event()
    tm._rebuild_lock = _SpyLock(tm._rebuild_lock, contended)
    strat = m.keyspaces[ks].replication_strategy
    orig = strat.make_token_replica_map
    qthread = []

    def parked(token_to_host_owner, ring_):
        res = orig(token_to_host_owner, ring_)
        if threading.current_thread() in qthread and not built.is_set():
            built.set()
            for _ in range(200):                 # until E is done or waits for the lock we hold (20 s cap)
                if edone.wait(0.1) or contended.is_set():
                    break
        return res
    strat.make_token_replica_map = parked
    errs = []

    def q():
        try:
            impl.replicas(ks, queries[0])
        except Exception as e:      # noqa
            errs.append(repr(e))

    def e():
        built.wait(20.0)
        try:
            m._update_keyspace(keyspace_meta(ks, new))
        except Exception as ex:     # noqa
            errs.append(repr(ex))
        edone.set()
    tq, te = threading.Thread(target=q), threading.Thread(target=e)
    qthread.append(tq)
    tq.start(); te.start()
    tq.join(60.0); te.join(60.0)
    if tq.is_alive() or te.is_alive():
        errs.append('threads hung')
    return [(t, impl.replicas(ks, t)) for t in queries], errs, contended.is_set()


# ------------------------------------------------------------------ the oracle: Cassandra's placement
def ring_iterator(ring, t):
    """hosts once around the sorted ring, starting at the first token >= t (wrapping to the first token)"""
    srt = sorted(ring)
    k = 0
    for i, (tok, _) in enumerate(srt):
        if tok >= t:
            k = i
            break
    else:
        k = 0
    return [h for _, h in srt[k:] + srt[:k]]


def spec_simple(ring, rf, t):
    eps = []
    for ep in ring_iterator(ring, t):
        if not len(eps) < rf:
            break
        if ep not in eps:
            eps.append(ep)
    return eps


def spec_nts(layout, ring, rfs, t):
    """rfs: {dc(int): rf(int)}.  Classic calculateNaturalEndpoints: seen racks + ordered set of skipped endpoints."""
    nodes, racks = {}, {}
    for _, h in ring:
        dc, rk = layout[h]
        nodes.setdefault(dc, set()).add(h)
        racks.setdefault(dc, set()).add(rk)
    replicas = []                      # LinkedHashSet
    dc_reps = dict((dc, set()) for dc in rfs)
    seen = dict((dc, set()) for dc in rfs)
    skipped = dict((dc, []) for dc in rfs)   # LinkedHashSet

    def sufficient(dc):
        return len(dc_reps[dc]) >= min(len(nodes.get(dc, ())), rfs[dc])

    def add(dc, ep):
        dc_reps[dc].add(ep)
        if ep not in replicas:
            replicas.append(ep)

    for ep in ring_iterator(ring, t):
        if all(sufficient(dc) for dc in rfs):
            break
        dc, rk = layout[ep]
        if dc not in rfs or sufficient(dc):
            continue
        if len(seen[dc]) == len(racks[dc]):
            add(dc, ep)
        elif rk in seen[dc]:
            if ep not in skipped[dc]:
                skipped[dc].append(ep)
        else:
            add(dc, ep)
            seen[dc].add(rk)
            if len(seen[dc]) == len(racks[dc]):
                for s in skipped[dc]:
                    if sufficient(dc):
                        break
                    add(dc, s)
    return replicas


def spec_replicas(layout, ring, strat, t):
    if strat[0] == 'simple':
        return spec_simple(ring, full_replicas(strat[1]), t)
    return spec_nts(layout, ring, dict((int(d), full_replicas(v)) for d, v in strat[1].items()), t)


def judge(layout, ring, strat, t, got):
    """None if `got` is what the property demands, else (key, text)."""
    want = spec_replicas(layout, ring, strat, t)
    name = 'SimpleStrategy' if strat[0] == 'simple' else 'NetworkTopologyStrategy'
    if set(got) == set(want) and len(set(got)) == len(got):
        return None
    if len(set(got)) == len(got):
        # right replicas of a different ring position: token-range lookup (bisect/wrap) is off
        for tok, _ in ring:
            if tok != t and set(spec_replicas(layout, ring, strat, tok)) == set(got):
                return ('TokenMap.get_replicas.wrong-range',
                        'replicas for token %d are those of the range ending at %d: got %r, Cassandra places %r' % (t, tok, got, sorted(want)))
        return (name + '.wrong-set', 'replicas %r for token %d, Cassandra places %r' % (got, t, sorted(want)))
    if set(got) == set(want):
        return (name + '.duplicate-replica', 'replica list %r for token %d repeats a host (set is right)' % (got, t))
    return (name + '.duplicate-replica.wrong-set',
            'replica list %r for token %d repeats a host and is not the set %r Cassandra places' % (got, t, sorted(want)))


# ------------------------------------------------------------------ enumeration of small rings
def rgs(length, max_sym, max_count):
    """restricted-growth strings: host sequences around the ring up to renaming of hosts"""
    out = []

    def rec(pref, nsym, counts):
        if len(pref) == length:
            out.append(tuple(pref))
            return
        for s in range(min(nsym + 1, max_sym)):
            c = counts[s] if s < nsym else 0
            if c >= max_count:
                continue
            if s < nsym:
                counts[s] += 1
                rec(pref + [s], nsym, counts)
                counts[s] -= 1
            else:
                rec(pref + [s], nsym + 1, counts + [1])
    rec([], 0, [])
    return out


def layouts(nhosts, ndcs, nracks):
    """assignments host -> (dc, rack), up to renaming of dcs and of racks inside a dc (first-occurrence order)"""
    out = []
    for dcs in itertools.product(range(ndcs), repeat=nhosts):
        seen = []
        ok = True
        for d in dcs:
            if d not in seen:
                if d != len(seen):
                    ok = False
                    break
                seen.append(d)
        if not ok:
            continue
        for rks in itertools.product(range(nracks), repeat=nhosts):
            per = {}
            ok = True
            for d, r in zip(dcs, rks):
                s = per.setdefault(d, [])
                if r not in s:
                    if r != len(s):
                        ok = False
                        break
                    s.append(r)
            if ok:
                out.append([[d, r] for d, r in zip(dcs, rks)])
    return out


def strategies(layout, seq, ndcs, extra_dc=True):
    """all SimpleStrategy RFs 0..H+1 and all NTS RF vectors 0..nodes(dc)+1 per dc; a dc absent from the ring is configured too"""
    hosts = sorted(set(seq))
    out = [['simple', str(r)] for r in range(len(hosts) + 2)]
    nodes = {}
    for h in hosts:
        nodes[layout[h][0]] = nodes.get(layout[h][0], 0) + 1
    dcs = list(range(ndcs))
    ranges = []
    for d in dcs:
        n = nodes.get(d, 0)
        ranges.append(list(range(n + 2)) if n else [0, 2])
    for combo in itertools.product(*ranges):
        cfg = {}
        for d, r in zip(dcs, combo):
            if r == 0 and (d + sum(combo)) % 2 == 0:
                continue                    # rf 0 is expressed both as an absent dc and as '0'
            cfg[str(d)] = str(r)
        out.append(['nts', cfg])
    return out


# ------------------------------------------------------------------ Gallina literals
def z(v):
    return '(%d)' % v if v < 0 else '%d' % v


def zlist(l):
    return '[' + ';'.join(z(x) for x in l) + ']'


def g_layout(layout):
    return '(topo_of [' + ';'.join('(%d,(%d,%d))' % (i, d, r) for i, (d, r) in enumerate(layout)) + '])'


def g_ring(ring):
    return '[' + ';'.join('(%s,%d)' % (z(t), h) for t, h in sorted(ring)) + ']'


def g_strategy(strat, short=False):
    """(model strategy, spec placement) -- both receive the number of FULL replicas"""
    if strat[0] == 'simple':
        r = full_replicas(strat[1])
        return ('(sS %s)' % z(r)) if short else '(Simple %s, SimpleStrategy %s)' % (z(r), z(r))
    cfg = '[' + ';'.join('(%s,%s)' % (z(int(d)), z(full_replicas(v))) for d, v in strat[1].items()) + ']'
    return ('(sN %s)' % cfg) if short else '(NTS %s, NetworkTopologyStrategy %s)' % (cfg, cfg)


def g_obs(obs):
    return '[' + ';'.join('(%s,%s)' % (z(t), zlist(got)) for t, got in obs) + ']'


def g_code(obs):
    # the observed replica lists of one strategy as ONE integer: base-16 digits, host+1, 0 closes a list (cheap to parse)
    digits = []
    for _, got in obs:
        for h in got:
            assert 0 <= h < 15
            digits.append(h + 1)
        digits.append(0)
    n = 0
    for i, d in enumerate(digits):
        n |= d << (4 * i)
    return '(%d,%d)' % (len(digits), n)


PRELUDE = r'''
Fixpoint dec_obs (fuel : nat) (n : Z) (cur : list Z) (acc : list (list Z)) : list (list Z) :=
  match fuel with
  | O => rev acc
  | S f => let d := n mod 16 in let n' := n / 16 in
           if d =? 0 then dec_obs f n' [] (rev cur :: acc) else dec_obs f n' ((d - 1) :: cur) acc
  end.
Definition decode (c : Z * Z) : list (list Z) := dec_obs (Z.to_nat (fst c)) (snd c) [] [].
Definition sS (r : Z) : strategy * placement := (Simple r, SimpleStrategy r).
Definition sN (c : list (Z * Z)) : strategy * placement := (NTS c, NetworkTopologyStrategy c).
Definition case_t : Type := topo_t * ring_t * list Z * list ((strategy * placement) * (Z * Z)).
Definition obs_model (dd : bool) (loc : topo_t) (ring : ring_t) (s : strategy) (o : Z * list Z) : bool :=
  list_eqb (get_replicas (replica_map dd loc s ring) (map fst ring) (fst o)) (snd o).
Definition obs_spec (loc : topo_t) (ring : ring_t) (p : placement) (o : Z * list Z) : bool :=
  nodupb (snd o) && set_eqb (snd o) (natural_endpoints loc p ring (fst o)).
Definition chk_with (f : topo_t -> ring_t -> strategy * placement -> Z * list Z -> bool) (c : case_t) : bool :=
  let '(loc, ring, qs, l) := c in
  forallb (fun e => let got := decode (snd e) in
                    Nat.eqb (List.length got) (List.length qs) && forallb (f loc ring (fst e)) (combine qs got)) l.
Definition chk_model (dd : bool) : case_t -> bool := chk_with (fun loc ring sp o => obs_model dd loc ring (fst sp) o).
Definition chk_spec : case_t -> bool := chk_with (fun loc ring sp o => obs_spec loc ring (snd sp) o).
Definition chk_both (dd : bool) (c : case_t) : bool := chk_model dd c && chk_spec c.
(* by key: h = the RAW partitioner hash of the key (computed outside the driver); model and spec each normalise it themselves *)
Definition chk_key (c : topo_t * ring_t * (strategy * placement) * list (Z * list Z)) : bool :=
  let '(loc, ring, sp, l) := c in
  forallb (fun o => list_eqb (driver_replicas_for_hash loc (fst sp) ring (fst o)) (snd o) && nodupb (snd o) &&
                    set_eqb (snd o) (natural_endpoints_for_hash loc (snd sp) ring (fst o))) l.
'''


def g_case(layout, ring, per_strategy):
    # per_strategy: [(strat, [(t, got), ...]), ...]  -- every strategy observed at the same tokens, in the same order
    qs = [t for t, _ in per_strategy[0][1]] if per_strategy else []
    for _, o in per_strategy:
        assert [t for t, _ in o] == qs
    return '(%s, %s, %s, [%s])' % (g_layout(layout), g_ring(ring), zlist(qs),
                                   ';'.join('(%s,%s)' % (g_strategy(s, True), g_code(o)) for s, o in per_strategy))
