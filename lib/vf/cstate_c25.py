"""C25: generators, encoding of implementation snapshots for the Coq model, and the Python oracle of the statement
(applied to the IMPLEMENTATION's observable behaviour only)."""
import collections
from vf.cstate_harness import Harness

KIND = {'up': 0, 'down': 1, 'add': 2, 'remove': 3}
INIT = {'absent': 0, 'up': 1, 'ign': 2}
OUT = {'ok': 'OOk', 'fail': 'OFail', 'auth': 'OAuth'}


def gen_cfg(rng):
    nh = rng.randint(1, 3)
    return {'nhosts': nh, 'hosts': [rng.choice(['up', 'up', 'absent', 'absent', 'ign']) for _ in range(nh)],
            'nsess': rng.choice([0, 1, 1, 2, 2]), 'sched': rng.choice([None, None, 1, 2])}


def encode_task(t):
    if t[0] == 'down':
        return 1000 + 100 * t[1] + 10 * t[2] + t[3]
    if t[0] == 'addpool':
        return 2000 + 100 * t[1] + 10 * t[2] + t[3]
    if t[0] == 'poolshut':
        return 3000 + 100 * t[1] + 10 * t[2]
    return 9999


def encode(cfg, snap):
    out = []
    for h in snap['hosts']:
        if h['present'] == 0:
            out.append(0)
        else:
            out += [h['present'], h['is_up'], h['reg'], h['reg_cancelled'], h['handling']] + list(h['pools'])
    out.append(-1)
    out += [encode_task(t) for t in snap['queue']]
    out.append(-2)
    out += [t[1] if t[0] == 'recon' else 9999 for t in snap['timers']]
    out.append(-6)
    out += list(snap['probes'])
    out.append(-3)
    out += [10 * h + c for (h, c) in snap['recons']]
    out.append(-4)
    for (aud, kind, h) in snap['log']:
        if aud == 'A':
            out.append(300 + h)
        else:
            out.append((100 if aud == 'L' else 200) + 10 * KIND[kind] + h)
    return out


def zl(v):
    return '(%d)' % v if v < 0 else '%d' % v


def coq_ev(ev):
    k = ev[0]
    if k in ('fail', 'sdown', 'sup', 'add', 'rem'):
        return '%s %d' % ({'fail': 'EFail', 'sdown': 'EStatusDown', 'sup': 'EStatusUp', 'add': 'EAdd', 'rem': 'ERemove'}[k], ev[1])
    if k == 'setign':
        return 'ESetIgn %d %s' % (ev[1], 'true' if ev[2] else 'false')
    if k == 'pstart':
        return 'EProbeStart %d' % ev[1]
    if k == 'pfinish':
        return 'EProbeFinish %d %s' % (ev[1], OUT[ev[2]])
    return '%s %d %s' % ('EReconnect' if k == 'recon' else 'ERun', ev[1], OUT[ev[2]])


def coq_case(cfg, evs, encs):
    kinds = '[' + '; '.join('%d%%nat' % INIT[x] for x in cfg['hosts']) + ']'
    sched = 'None' if cfg['sched'] is None else '(Some %d%%nat)' % cfg['sched']
    es = '[' + '; '.join(coq_ev(e) for e in evs) + ']'
    exp = '[' + '; '.join('[' + '; '.join(zl(v) for v in e) + ']' for e in encs) + ']'
    return 'corr %s %d%%nat %s %s %s' % (kinds, cfg['nsess'], sched, es, exp)


class Oracle(object):
    """The statement of C25 (readings of DESIGN 4.0) evaluated on the implementation, step by step."""

    def __init__(self, cfg, H):
        self.cfg, self.H = cfg, H
        self.stopped = set()
        self.fired = None
        self.natt = len(H.attempts)
        self.pool_auth = False
        self.prev = H.snapshot()

    def before(self, ev):
        H = self.H
        if ev[0] == 'recon' and H.applicable(ev):
            self.fired = H.timer_desc(H.scheduler.timers[ev[1]])[1]
        elif ev[0] == 'pfinish' and H.applicable(ev):
            self.fired = H.recons.index(H.probes[ev[1]]['handler'])
        else:
            self.fired = None
        self.fired_host_removed = (self.fired is not None and H.removed[H.hid(H.recons[self.fired].host)])
        if ev[0] == 'run' and H.applicable(ev) and H.task_desc(H.executor.queue[ev[1]])[0] == 'addpool' and ev[2] == 'auth':
            self.pool_auth = True

    def after(self, ev, snap):
        """returns [(key, message, theorem)]"""
        cfg, H = self.cfg, self.H
        out = []
        neps = cfg['nhosts']
        ign = [(h % neps) in H.ignored for h in range(len(snap['hosts']))]      # the policy's CURRENT answer
        timers = [t[1] for t in snap['timers'] if t[0] == 'recon'] + list(snap['probes'])     # scheduled or attempt in flight
        if self.fired is not None and self.fired_host_removed:
            hid = snap['recons'][self.fired][0]
            acted = [n for n in snap['log'] if n[0] in ('L', 'P') and n[2] == hid and n[1] in ('up', 'add')]
            hs, ph = snap['hosts'][hid], self.prev['hosts'][hid]
            if acted or (hs['is_up'] == 1 and ph.get('is_up') != 1) or (hs['handling'] and not ph.get('handling')):
                out.append(('removed-host-reconnected', 'a reconnector of removed host %d completed and marked it up / notified %r' % (hid, acted),
                            'C25_removed_never_reconnected'))
        if self.fired is not None and ev[2] in ('fail', 'auth'):
            rid = self.fired
            if rid not in timers and not snap['recons'][rid][1]:
                self.stopped.add(rid)       # schedule exhausted or authentication failure
        quiet = not snap['queue']
        for h in range(len(snap['hosts'])):
            hs = snap['hosts'][h]
            if hs['present'] == 0:
                continue
            act = [r for r, (rh, c) in enumerate(snap['recons']) if rh == h and not c and r in timers]
            if len(act) > 1:
                out.append(('two-live-reconnectors', 'host %d has two live reconnectors %r' % (h, act), 'C25_single_reconnector'))
            if hs['present'] == 1 and hs['is_up'] == 1 and hs['reg'] >= 0 and not hs['reg_cancelled'] and hs['reg'] in timers:
                cls = 'concurrent-up-and-add' if self.overlap(h) else 'other'
                out.append(('up-with-live-reconnector.' + cls, 'host %d is marked up but its reconnector %d is still registered and live' % (h, hs['reg']),
                            'C25_up_clears_reconnector'))
            if hs['present'] == 2 and (act or hs['reg'] >= 0):
                out.append(('removed-host-has-reconnector', 'removed host %d has a live/registered reconnector' % h, 'C25_removed_never_reconnected'))
            # the two liveness clauses are read for hosts whose distance is fixed (the statement's events are failures, status and
            # topology events; the driver only learns of a changed distance at the next of those)
            fixed = (h % neps) not in H.ign_changed
            if fixed and quiet and hs['present'] == 1 and hs['is_up'] == 0 and not ign[h] and not self.pool_auth:
                r = hs['reg']
                bad = None
                if r < 0:
                    bad = 'no reconnector'
                elif hs['reg_cancelled']:
                    bad = 'its registered reconnector is cancelled'
                elif r not in timers and r not in self.stopped:
                    bad = 'its registered reconnector is neither scheduled nor stopped by exhaustion/auth failure'
                if bad:
                    cls = 'discounted-down' if h in H.discounted_nonup else 'other'
                    out.append(('down-without-reconnector.' + cls, 'host %d is down, executor idle, and has %s' % (h, bad), 'C25_down_has_reconnector'))
            if fixed and quiet and hs['present'] == 1 and hs['is_up'] == 1 and not ign[h] and any(p == 0 for p in hs['pools']):
                cls = 'concurrent-up-and-add' if self.overlap(h) else 'other'
                out.append(('up-without-pool.' + cls, 'host %d is up, executor idle, pools per session %r' % (h, hs['pools']), 'C25_up_has_pools'))
            pu = self.prev['hosts'][h].get('is_up') if self.prev['hosts'][h]['present'] else None
            if hs['is_up'] == 1 and pu != 1:
                n = sum(1 for (a, k, hh) in snap['log'] if a == 'L' and k in ('up', 'add') and hh == h)
                if n != 1:
                    out.append(('marked-up.listeners-notified-%d-times' % n, 'host %d marked up by %r with %d listener notifications' % (h, ev, n),
                                'C25_up_once_per_transition'))
        for (hid, kind, o, removed) in H.attempts[self.natt:]:
            if removed and ev[0] in ('recon', 'pstart'):
                out.append(('removed-host-reconnect-attempt', 'reconnector connected to removed host %d' % hid, 'C25_removed_never_reconnected'))
        self.natt = len(H.attempts)
        self.track_overlap(ev, snap)
        self.prev = snap
        return out

    # the class of the open finding C25-2: on_up handling and on_add handling of the same host in flight together
    def track_overlap(self, ev, snap):
        if not hasattr(self, '_ov'):
            self._ov = set()
        for h in range(len(snap['hosts'])):
            hs = snap['hosts'][h]
            if hs['present'] and hs['handling'] and any(t[0] == 'addpool' and t[1] == h and t[3] == 1 for t in snap['queue']):
                self._ov.add(h)

    def overlap(self, h):
        return h in getattr(self, '_ov', set())


def run_history(cfg, evs, want_oracle=True):
    """Drive the real driver through evs. Returns (encodings per step, findings [(key,msg,thm,prefix)], snapshots)."""
    H = Harness(cfg)
    try:
        orc = Oracle(cfg, H)
        encs, finds, snaps = [], [], []
        for i, ev in enumerate(evs):
            orc.before(ev)
            snap = H.step(ev)
            encs.append(encode(cfg, snap))
            snaps.append(snap)
            for (k, m, t) in orc.after(ev, snap):
                finds.append((k, m, t, i + 1))
        return encs, finds, snaps
    finally:
        H.close()


def gen_history(rng, cfg, n, illegal=0.05):
    """Walk the enabled events of the (implementation = model) state; a small fraction of illegal events."""
    H = Harness(cfg)
    try:
        evs = []
        for i in range(n):
            en = H.enabled()
            if rng.random() < illegal:
                ev = rng.choice([('sup', rng.randrange(cfg['nhosts'])), ('sdown', rng.randrange(cfg['nhosts'])), ('fail', rng.randrange(cfg['nhosts'])),
                                 ('rem', rng.randrange(cfg['nhosts'])), ('run', rng.randrange(6), 'ok'), ('recon', rng.randrange(4), 'ok')])
                if ev[0] == 'add' or (ev[0] in ('sup', 'sdown', 'fail', 'rem') and H.hosts[ev[1]] is None and False):
                    continue
            else:
                if not en:
                    break
                runs = [e for e in en if e[0] in ('run', 'recon')]
                ev = rng.choice(runs) if runs and rng.random() < 0.55 else rng.choice(en)
            H.step(ev)
            evs.append(ev)
        return evs
    finally:
        H.close()


def gen_and_run(rng, cfg, n, illegal=0.05):
    """gen_history and run_history in one pass over one harness (same results, half the cost)."""
    H = Harness(cfg)
    try:
        orc = Oracle(cfg, H)
        evs, encs, finds, snaps = [], [], [], []
        for i in range(n):
            if rng.random() < illegal:
                ev = rng.choice([('sup', rng.randrange(cfg['nhosts'])), ('sdown', rng.randrange(cfg['nhosts'])), ('fail', rng.randrange(cfg['nhosts'])),
                                 ('rem', rng.randrange(cfg['nhosts'])), ('run', rng.randrange(6), 'ok'), ('recon', rng.randrange(4), 'ok')])
            else:
                en = H.enabled()
                if not en:
                    break
                runs = [e for e in en if e[0] in ('run', 'recon')]
                ev = rng.choice(runs) if runs and rng.random() < 0.55 else rng.choice(en)
            orc.before(ev)
            snap = H.step(ev)
            evs.append(ev)
            encs.append(encode(cfg, snap))
            snaps.append(snap)
            for (k, m, t) in orc.after(ev, snap):
                finds.append((k, m, t, len(evs)))
        return evs, encs, finds, snaps
    finally:
        H.close()


def enum_scope(cfg, prefix, depth, kinds=('run', 'recon', 'pstart', 'pfinish')):
    """Every history prefix ++ w where w ranges over ALL sequences of <= depth enabled executor/scheduler events
    (any queue index = any executor order, every outcome).  Returns the maximal histories (each run step by step)."""
    out = []
    frontier = [list(prefix)]
    for d in range(depth):
        nxt = []
        for evs in frontier:
            H = Harness(cfg)
            try:
                for e in evs:
                    H.step(e)
                en = [e for e in H.enabled() if e[0] in kinds]
            finally:
                H.close()
            if not en:
                out.append(evs)
            for e in en:
                nxt.append(evs + [e])
        frontier = nxt
    return out + frontier


def directed_split():
    """a reconnection attempt in flight while another event is delivered, then the attempt succeeds / fails"""
    hs = []
    for ns in (1, 2):
        cfg = {'nhosts': 1, 'hosts': ['up'], 'nsess': ns, 'sched': None}
        for x in (('rem', 0), ('sup', 0), ('sdown', 0), ('fail', 0)):
            for o in ('ok', 'fail'):
                hs.append((cfg, [('fail', 0), ('run', 0, 'ok'), ('pstart', 0), x, ('pfinish', 0, o)] + [('run', 0, 'ok')] * (2 * ns)))
        cfg2 = {'nhosts': 1, 'hosts': ['absent'], 'nsess': ns, 'sched': None}     # is_host_addition reconnector
        pre = [('add', 0), ('run', 0, 'fail'), ('run', ns - 1, 'ok')]
        for x in (('rem', 0), ('sup', 0)):
            hs.append((cfg2, pre + [('pstart', 0), x, ('pfinish', 0, 'ok')] + [('run', 0, 'ok')] * (2 * ns)))
    return hs
