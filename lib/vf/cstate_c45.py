"""C45: harness operations, encoding and oracle.  A REAL Cluster / Session (real __init__, inline executor during
construction only) / HostConnection / ControlConnection / reconnection handlers with fake connections, a manual
executor and a manual scheduler (vf.cstate_harness)."""
import concurrent.futures as cf
from vf.cstate_harness import Harness, HookLock, _CURRENT

MODE = {'idle': 0, 'busy': 1, 'lost': 2}


def _harness_wait(fs, timeout=None, return_when=cf.ALL_COMPLETED):
    """stands for concurrent.futures.wait inside cassandra.cluster: the waiting thread blocks while the executor's worker
    threads go on -- with the manual executor that means: run the queued tasks that are being waited for, oldest first."""
    H = _CURRENT[0]
    fs = set(fs)
    while H is not None:
        pending = [f for f in fs if not f.done()]
        if not pending or (return_when == cf.FIRST_COMPLETED and len(pending) < len(fs)):
            break
        idx = next((i for i, t in enumerate(H.executor.queue) if t[0] in pending), None)
        if idx is None:
            break
        H.executor.run(idx)
    return cf.wait(fs, timeout=0, return_when=return_when)


class NeverConvict(object):
    """conviction policy for C45: a lost connection does not convict the host (C25 covers conviction), so the pool
    replaces its connection instead of shutting itself down"""

    def __init__(self, host):
        self.host = host

    def add_failure(self, exc):
        return False

    def reset(self):
        pass


class H45(Harness):
    def __init__(self, nhosts):
        Harness.__init__(self, {'nhosts': nhosts, 'hosts': ['up'] * nhosts, 'nsess': 0, 'sched': None}, real_control=True)
        c = self.cluster
        self.cl.wait_futures = _harness_wait
        for h in self.hosts[:nhosts]:
            h.conviction_policy = NeverConvict(h)
        # control connection: real connect() (first host of the plan)
        c.control_connection.connect()
        # one real Session built by its real __init__: pool creation tasks run inline during construction only
        self.executor.inline = True
        try:
            s = self.cl.Session(c, c.metadata.all_hosts())
        finally:
            self.executor.inline = False
        c.sessions.add(s)
        self.sessions.append(s)
        self.session = s
        self.req_timers = []
        self.attempts0 = len(self.attempts)
        self.pool_ids = {}
        self._number_pools()
        H = self

        class Pools(dict):
            """Session._pools: numbers every pool at the moment it is installed"""

            def __setitem__(self, k, v):
                if id(v) not in H.pool_ids:
                    H.pool_ids[id(v)] = (len(H.pool_ids), v)
                dict.__setitem__(self, k, v)
        s._pools = Pools(s._pools)

    def _number_pools(self):
        for h in self.hosts[:self.cfg['nhosts']]:
            p = self.session._pools.get(h)
            if p is not None and id(p) not in self.pool_ids:
                self.pool_ids[id(p)] = (len(self.pool_ids), p)       # keep p alive: ids are not reused

    def pool_id(self, p):
        return self.pool_ids[id(p)][0] if id(p) in self.pool_ids else 99

    # ------------------------------------------------------------------ observation
    def task45(self, item):
        f, fn, args, kwargs = item
        name = getattr(fn, '__name__', '')
        if name == 'run_add_or_renew_pool':
            cv = dict(zip(fn.__code__.co_freevars, [c.cell_contents for c in fn.__closure__]))
            return ('addpool', self.hid(cv['host']), int(f in self.session._initial_connect_futures))
        if name == '_replace':
            conn = args[0]
            mode = 'lost' if not conn.orphaned_threshold_reached else ('busy' if conn.in_flight != len(conn.orphaned_request_ids) else 'idle')
            return ('replace', self.hid(fn.__self__.host), self.pool_id(fn.__self__), conn.cid, mode)
        if name == '_reconnect':
            return ('ccreconnect',)
        return ('other', name)

    def timer45(self, t):
        fn = t[0]
        o = getattr(fn, '__self__', None)
        if o in self.recons:
            return ('recon', self.hid(o.host))
        if o is not None and o.__class__.__name__ == '_ControlReconnectionHandler':
            return ('ctl',)
        return ('other', getattr(fn, '__name__', '?'))

    def snap45(self):
        c = self.cluster
        self._number_pools()
        pools = []
        for i, h in enumerate(self.hosts[:self.cfg['nhosts']]):
            p = self.session._pools.get(h)
            if p is None:
                pools.append(None)
            else:
                pools.append({'pid': self.pool_id(p), 'conn': p._connection.cid if p._connection is not None else -1,
                              'shut': int(bool(p.is_shutdown)), 'repl': int(bool(p._is_replacing)),
                              'trash': sorted((x.cid for x in p._trash), reverse=True)})
        cc = c.control_connection
        return {'nconn': len(self.conns), 'attempts': len(self.attempts) - self.attempts0, 'closed': sorted(x.cid for x in self.conns if x.is_closed),
                'cl_down': int(bool(c.is_shutdown)), 'sess_down': int(bool(self.session.is_shutdown)),
                'cc_down': int(bool(cc._is_shutdown)), 'sched_down': int(bool(self.scheduler.is_shutdown)),
                'pools': pools, 'cc_conn': cc._connection.cid if cc._connection is not None else -1,
                'queue': [self.task45(t) for t in self.executor.queue],
                'timers': [self.timer45(t) for t in self.scheduler.timers]}

    # ------------------------------------------------------------------ operations
    def pool_of(self, h):
        return self.session._pools.get(self.hosts[h])

    def enabled45(self):
        ops = []
        for h in range(self.cfg['nhosts']):
            ops.append(('pooltask', h, 0))
            if not self.session.is_shutdown:
                ops.append(('pooltask', h, 1))
            p = self.pool_of(h)
            if p is not None and p._connection is not None and not p.is_shutdown:
                if not p._is_replacing:
                    ops += [('replace', h, 0), ('replace', h, 1)]
                ops.append(('connlost', h))
            if p is not None and any(not x.is_closed for x in p._trash):
                ops.append(('trashdone', h))
            ops.append(('startrecon', h))
        ops += [('ccreconnect',), ('clshutdown',), ('sessshutdown',), ('submit',), ('request',)]
        descs = [self.task45(t) for t in self.executor.queue]
        for k, d in enumerate(descs):
            kind = d[0]
            for o in ('ok', 'err'):
                for dm in (0, 1, 2, 3):
                    if o == 'err' and dm and kind != 'ccreconnect':
                        continue            # a shutdown during a FAILING connect is modelled for the control connection only
                    if dm == 2 and (o == 'err' or kind not in ('replace', 'addpool')):
                        continue            # 2: shutdown right before the locked check+install region
                    if dm == 3 and (o == 'err' or kind != 'ccreconnect'):
                        continue            # 3: shutdown after _try_connect's own check, before _set_new_connection
                    ops.append(('run', k, o, dm))
            if kind == 'addpool':
                rest = descs[:k] + descs[k + 1:]
                for j, dj in enumerate(rest):
                    if dj[0] == 'addpool':
                        ops.append(('nested', k, j))
        if not self.scheduler.is_shutdown:
            for k, t in enumerate(self.scheduler.timers):
                for o in ('ok', 'err'):
                    for dm in (0, 1):
                        if o == 'err' and dm and self.timer45(t)[0] != 'ctl':
                            continue
                        ops.append(('fire', k, o, dm))
        return ops

    def step45(self, op):
        c = self.cluster
        kind = op[0]
        out = 'nothing'
        if kind == 'pooltask':
            f = self.session.add_or_renew_pool(self.hosts[op[1]], False)
            if f is not None and len(op) > 2 and op[2]:
                self.session._initial_connect_futures.add(f)      # an initial pool creation that has not started yet
            out = 'accepted' if f is not None else 'refused'
        elif kind == 'replace':
            p = self.pool_of(op[1])
            if p is not None and p._connection is not None and not p._is_replacing and not p.is_shutdown:
                conn = p._connection
                conn.orphaned_threshold_reached = True       # what borrow_connection reacts to
                conn.in_flight = 1 if (len(op) > 2 and op[2]) else 0           # busy: a request that is not orphaned is still in flight
                p._is_replacing = True
                f = self.session.submit(p._replace, conn)
                out = 'accepted' if f is not None else 'refused'
        elif kind == 'connlost':
            p = self.pool_of(op[1])
            if p is not None and p._connection is not None and not p.is_shutdown:
                conn = p._connection
                conn.is_defunct = True
                conn.close()
                n = len(self.executor.queue)
                was = p._is_replacing
                p.return_connection(conn, stream_was_orphaned=True)
                if not was:
                    out = 'accepted' if len(self.executor.queue) > n else 'refused'
        elif kind == 'trashdone':
            p = self.pool_of(op[1])
            if p is not None and p._trash:
                conn = max(p._trash, key=lambda x: x.cid)
                if not conn.is_closed:
                    p.return_connection(conn)                # its last request completes (in_flight 1 -> 0)
        elif kind == 'ccreconnect':
            n = len(self.executor.queue)
            c.control_connection.reconnect()
            out = 'accepted' if len(self.executor.queue) > n else 'refused'
        elif kind == 'startrecon':
            n = len(self.scheduler.timers)
            c._start_reconnector(self.hosts[op[1]], False)
            out = 'accepted' if len(self.scheduler.timers) > n else 'refused'
        elif kind == 'clshutdown':
            c.shutdown()
        elif kind == 'sessshutdown':
            self.session.shutdown()
        elif kind == 'submit':
            f = self.session.submit(lambda: None)
            if f is None:
                out = 'refused'
            else:
                self.executor.queue.pop()      # a no-op task: drop it, only the acceptance is observed
                out = 'accepted'
        elif kind == 'request':
            out = self.request()
        elif kind == 'nested':
            q = self.executor.queue
            if op[1] < len(q) and self.task45(q[op[1]])[0] == 'addpool':
                rest = q[:op[1]] + q[op[1] + 1:]
                if op[2] < len(rest) and self.task45(rest[op[2]])[0] == 'addpool':
                    inner = rest[op[2]]
                    for h in range(self.cfg['nhosts']):
                        self.outcome[h] = 'ok'
                    sess = self.session
                    orig = sess._lock

                    def other_thread():
                        # another executor thread runs a second pool creation to completion in the window between
                        # this creation's connect and its locked install
                        sess._lock = orig
                        try:
                            self.executor.run(self.executor.queue.index(inner))
                        finally:
                            pass
                    sess._lock = HookLock(orig, 0, other_thread)
                    try:
                        self.executor.run(op[1])
                    finally:
                        sess._lock = orig
        elif kind in ('run', 'fire'):
            seq = self.executor.queue if kind == 'run' else self.scheduler.timers
            if op[1] < len(seq) and not (kind == 'fire' and self.scheduler.is_shutdown):
                for h in range(self.cfg['nhosts']):
                    self.outcome[h] = 'ok' if op[2] == 'ok' else 'err'
                restore = None
                if op[3] == 1:
                    self.after_connect = c.shutdown          # the cluster is shut down while the connect is in progress
                elif op[3] == 3:
                    self.after_handshake = c.shutdown        # ... after _try_connect's own check (during the metadata refresh)
                elif op[3] == 2 and kind == 'run':
                    # forced interleaving: the shutdown lands after the connect, right before the lock that guards the
                    # "shut down meanwhile?" test + install of the new connection / pool
                    f, fn, args, kwargs = self.executor.queue[op[1]]
                    d = self.task45(self.executor.queue[op[1]])
                    if d[0] == 'replace':
                        pool = fn.__self__
                        orig = pool._lock
                        pool._lock = HookLock(orig, 1, c.shutdown)      # 1st acquisition = the entry check of _replace
                        restore = lambda: setattr(pool, '_lock', orig)
                    elif d[0] == 'addpool':
                        sess = self.session
                        orig = sess._lock
                        sess._lock = HookLock(orig, 0, c.shutdown)
                        restore = lambda: setattr(sess, '_lock', orig)
                try:
                    if kind == 'run':
                        self.executor.run(op[1])
                    else:
                        fn, args, kwargs = self.scheduler.timers.pop(op[1])
                        try:
                            fn(*args, **kwargs)
                        except Exception:
                            pass
                finally:
                    self.after_connect = None
                    self.after_handshake = None
                    if restore is not None:
                        restore()
        else:
            raise ValueError(op)
        # cancelled futures never run: they are gone from the executor's point of view
        self.executor.queue[:] = [t for t in self.executor.queue if not t[0].cancelled()]
        return out, self.snap45()

    def request(self):
        """A new request through the real Session.execute_async; returns how it ended right away."""
        s = self.session
        sent0 = sum(len(getattr(cn, 'sent', ())) for cn in self.conns)
        try:
            rf = s.execute_async('SELECT 1', timeout=10.0)
        except Exception as e:
            return 'raised:' + type(e).__name__
        if rf._final_exception is not None:
            return 'refused' if type(rf._final_exception).__name__ == 'NoHostAvailable' else 'failed:' + type(rf._final_exception).__name__
        sent1 = sum(len(getattr(cn, 'sent', ())) for cn in self.conns)
        return 'sent' if sent1 > sent0 else 'pending'


# ---------------------------------------------------------------------- encoding / generation / oracle
OUTC = {'refused': 0, 'accepted': 1, 'nothing': 2, 'sent': 1}


def enc_task(t):
    if t[0] == 'addpool':
        return 100 + 10 * t[1] + t[2]
    if t[0] == 'replace':
        return 100000 + 10000 * t[1] + 1000 * MODE[t[4]] + 100 * t[2] + t[3]
    if t[0] == 'ccreconnect':
        return 300
    return 9999


def encode45(snap, out):
    e = [snap['nconn'], snap['attempts'], snap['cl_down'], snap['sess_down'], snap['cc_down'], snap['sched_down'], snap['cc_conn'], -1]
    e += snap['closed'] + [-2]
    for p in snap['pools']:
        e += [-9] if p is None else [p['pid'], p['conn'], p['shut'], p['repl'], -8] + p['trash'] + [-7]
    e.append(-3)
    e += [enc_task(t) for t in snap['queue']]
    e.append(-4)
    for t in snap['timers']:
        e.append(10 + t[1] if t[0] == 'recon' else 20 if t[0] == 'ctl' else 9999)
    e += [-5, OUTC.get(out, 7)]
    return e


def coq_op(op):
    k = op[0]
    b = lambda x: 'true' if x else 'false'
    if k == 'pooltask':
        return 'OPoolTask %d %s' % (op[1], b(op[2] if len(op) > 2 else 0))
    if k == 'replace':
        return 'OReplace %d %s' % (op[1], b(op[2] if len(op) > 2 else 0))
    if k in ('connlost', 'trashdone', 'startrecon'):
        return '%s %d' % ({'connlost': 'OConnLost', 'trashdone': 'OTrashDone', 'startrecon': 'OStartRecon'}[k], op[1])
    if k == 'nested':
        return 'ORunNested %d %d' % (op[1], op[2])
    if k in ('run', 'fire'):
        return '%s %d %s %s' % ('ORun' if k == 'run' else 'OFire', op[1], 'Ok' if op[2] == 'ok' else 'Err', b(op[3]))
    return {'ccreconnect': 'OCCReconnect', 'clshutdown': 'OClusterShutdown', 'sessshutdown': 'OSessionShutdown', 'submit': 'OSubmit', 'request': 'ORequest'}[k]


def zl(v):
    return '(%d)' % v if v < 0 else '%d' % v


def coq_case45(n, ops, encs):
    return 'corr45 %d%%nat [%s] [%s]' % (n, '; '.join(coq_op(o) for o in ops), '; '.join('[' + '; '.join(zl(v) for v in e) + ']' for e in encs))


def oracle45(H, op, out, snap, mem):
    """The statement of C45 on the implementation.  mem: dict carried along the history."""
    finds = []
    if snap['cl_down']:
        open_ = [c for c in range(snap['nconn']) if c not in snap['closed']]
        if open_:
            finds.append(('open-after-cluster-shutdown', 'connections %r still open after Cluster.shutdown' % open_, 'C45_all_closed'))
    elif snap['sess_down']:
        open_ = [c for c in range(snap['nconn']) if c not in snap['closed'] and c != snap['cc_conn']]
        if open_:
            finds.append(('open-after-session-shutdown', 'session connections %r still open after Session.shutdown' % open_, 'C45_all_closed'))
    n0 = mem.get('natt', 0)
    started = H.attempt_after_shutdown[n0:]
    mem['natt'] = len(H.attempt_after_shutdown)
    # a task that was already queued may make ONE attempt after the shutdown (it then sees the flag); any further attempt
    # of the same step, and any attempt made by the shutdown call itself, that starts after the shutdown flag was set is a
    # new connection attempt started after shutdown
    first_ok = {'run': 1, 'fire': 1, 'nested': 2}.get(op[0], 0)
    late = [i for i, after in enumerate(started) if after and i >= first_ok]
    if late:
        finds.append(('attempt-started-after-shutdown', '%d connection attempt(s) were started after the shutdown by %r (attempts of this step: %r)'
                      % (len(late), op, started), 'C45_no_new_connections'))
    prev = mem.get('prev')
    if prev is not None and prev['cl_down']:
        if len(snap['queue']) > len(prev['queue']) or len(snap['timers']) > len(prev['timers']):
            finds.append(('new-work-after-shutdown', 'a task or timer was accepted after Cluster.shutdown by %r' % (op,), 'C45_no_new_connections'))
        if snap['nconn'] > prev['nconn'] and op[0] not in ('run', 'nested'):
            finds.append(('new-connection-after-shutdown', 'a connection was opened after Cluster.shutdown by %r' % (op,), 'C45_no_new_connections'))
    if prev is not None and prev['sess_down'] and op[0] in ('submit', 'request', 'pooltask') and out != 'refused':
        finds.append(('not-refused.' + op[0], '%s after Session.shutdown ended as %r instead of being refused' % (op[0], out), 'C45_requests_refused'))
    # outside shutdown: a pool that lost its place in Session._pools must not keep connections open (nobody will close them)
    held = set([snap['cc_conn']])
    for p in snap['pools']:
        if p is not None:
            held.add(p['conn'])
            held.update(p['trash'])
    orphan = [c for c in range(snap['nconn']) if c not in snap['closed'] and c not in held]
    if orphan and not snap['cl_down'] and not snap['sess_down']:
        finds.append(('connection-without-owner', 'connections %r are open but belong to no pool of the session and not to the control connection '
                      '(no shutdown will ever close them)' % orphan, 'C45_all_closed'))
    mem['prev'] = snap
    return finds


def gen_and_run45(rng, nhosts, n, script=None):
    H = H45(nhosts)
    try:
        ops, encs, finds = [], [], []
        mem = {'prev': H.snap45(), 'natt': len(H.attempt_after_shutdown)}
        shut_at = rng.randrange(1, n) if script is None else None
        for i in range(n if script is None else len(script)):
            if script is not None:
                op = tuple(script[i])
            else:
                en = H.enabled45()
                sd = H.session.is_shutdown
                en = [o for o in en if not (o[0] == 'request' and not sd)]
                en = [o for o in en if not (o[0] == 'run' and H.task45(H.executor.queue[o[1]])[0] == 'addpool' and o[2] == 'err')]
                en = [o for o in en if not (o[0] in ('run', 'fire') and o[3] and H.cluster.is_shutdown)]
                if i == shut_at and not H.cluster.is_shutdown:
                    op = rng.choice([('clshutdown',), ('clshutdown',), ('sessshutdown',)])
                else:
                    runs = [o for o in en if o[0] in ('run', 'fire', 'nested')]
                    subs = [o for o in en if o[0] not in ('run', 'fire', 'nested', 'clshutdown', 'sessshutdown')]
                    r = rng.random()
                    op = rng.choice(runs) if runs and r < 0.45 else rng.choice(subs) if r < 0.93 else rng.choice([('clshutdown',), ('sessshutdown',)])
            out, snap = H.step45(op)
            ops.append(op)
            encs.append(encode45(snap, out))
            for (k, m, t) in oracle45(H, op, out, snap, mem):
                finds.append((k, m, t, len(ops)))
        return ops, encs, finds
    finally:
        H.close()
