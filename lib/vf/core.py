"""Shared machinery of every check: regenerate -> prove -> correspond -> decide -> evidence."""
import fcntl, hashlib, json, os, random, re, shutil, subprocess, sys, tempfile, time, traceback

VERIF = os.path.dirname(os.path.dirname(os.path.dirname(os.path.abspath(__file__))))
REPO = os.environ.get('VERIF_REPO', '/repo')
COQ = os.path.join(VERIF, 'coq')
JOBS = int(os.environ.get('VERIF_JOBS', '16'))

FORBIDDEN = re.compile(r'\b(Admitted|admit|Axiom|Axioms|Parameter|Parameters|Conjecture|Conjectures|'
                       r'Admit\s+Obligations|bypass_check|give_up)\b|Unset\s+Guard\s+Checking|'
                       r'Unset\s+Positivity\s+Checking|Unset\s+Universe\s+Checking|type-in-type|'
                       r'impredicative-set|Guard\s+Checking|native_compute')
TOPLEVEL_HYP = re.compile(r'^\s*(Variable|Variables|Hypothesis|Hypotheses|Context)\b')

ALLOWED_AXIOMS = {
    # standard-library axioms that may appear (each is named in the evidence of the property using it)
    'FunctionalExtensionality.functional_extensionality_dep', 'functional_extensionality_dep',
    'Eqdep.Eq_rect_eq.eq_rect_eq', 'eq_rect_eq', 'JMeq.JMeq_eq', 'JMeq_eq',
    'Classical_Prop.classic', 'classic', 'ProofIrrelevance.proof_irrelevance', 'proof_irrelevance',
    'PropExtensionality.propositional_extensionality', 'propositional_extensionality',
}


def sh(cmd, timeout=None, cwd=None, env=None, inp=None):
    p = subprocess.run(cmd, shell=isinstance(cmd, str), cwd=cwd, env=env, input=inp,
                       stdout=subprocess.PIPE, stderr=subprocess.STDOUT, timeout=timeout, text=True)
    return p.returncode, p.stdout


class BuildLock(object):
    def __enter__(self):
        self.f = open(os.path.join(VERIF, '.build.lock'), 'w')
        fcntl.flock(self.f, fcntl.LOCK_EX)
        return self

    def __exit__(self, *a):
        fcntl.flock(self.f, fcntl.LOCK_UN)
        self.f.close()


def write_if_changed(path, text):
    try:
        with open(path) as f:
            if f.read() == text:
                return False
    except IOError:
        pass
    os.makedirs(os.path.dirname(path), exist_ok=True)
    tmp = path + '.tmp%d' % os.getpid()
    with open(tmp, 'w') as f:
        f.write(text)
    os.replace(tmp, path)
    return True


def all_v_files():
    out = []
    for d in ('Base', 'Model', 'Gen', 'Proofs', 'Props'):
        p = os.path.join(COQ, d)
        if os.path.isdir(p):
            for fn in sorted(os.listdir(p)):
                if fn.endswith('.v') and not fn.startswith('.'):
                    out.append('%s/%s' % (d, fn))
    return out


def ensure_makefile():
    """(Re)create coq/Makefile when the set of .v files changed."""
    files = all_v_files()
    stamp = os.path.join(COQ, '.filelist')
    text = '\n'.join(files) + '\n'
    if write_if_changed(stamp, text) or not os.path.exists(os.path.join(COQ, 'Makefile')):
        rc, out = sh(['coq_makefile', '-f', '_CoqProject', '-o', 'Makefile'] + files, cwd=COQ, timeout=120)
        if rc != 0:
            raise RuntimeError('coq_makefile failed: ' + out)


def scan_forbidden(relfiles):
    """Forbidden vernacular in the development (DESIGN 3.2).  Comments are stripped first."""
    bad = []
    for rel in relfiles:
        p = os.path.join(COQ, rel)
        if not os.path.exists(p):
            continue
        src = strip_comments(open(p).read())
        depth = 0
        for ln, line in enumerate(src.split('\n'), 1):
            if FORBIDDEN.search(line):
                bad.append('%s:%d: %s' % (rel, ln, line.strip()[:80]))
            if re.match(r'^\s*Section\b', line):
                depth += 1
            elif re.match(r'^\s*End\b', line) and depth > 0:
                depth -= 1
            elif depth == 0 and TOPLEVEL_HYP.match(line):
                bad.append('%s:%d: %s outside a Section' % (rel, ln, line.strip()[:60]))
    return bad


def strip_comments(s):
    out, i, depth = [], 0, 0
    while i < len(s):
        if s.startswith('(*', i):
            depth += 1
            i += 2
        elif s.startswith('*)', i) and depth:
            depth -= 1
            i += 2
        else:
            if depth == 0:
                out.append(s[i])
            elif s[i] == '\n':
                out.append('\n')
            i += 1
    return ''.join(out)


def coq_deps(rel):
    """Transitive .v dependencies (inside the project) of coq/<rel>, via coqdep."""
    rc, out = sh(['coqdep', '-f', '_CoqProject'] + all_v_files(), cwd=COQ, timeout=120)
    deps = {}
    for line in out.split('\n'):
        if ':' not in line:
            continue
        lhs, rhs = line.split(':', 1)
        tgt = [t for t in lhs.split() if t.endswith('.vo')]
        if not tgt:
            continue
        deps[tgt[0][:-1]] = [d[:-1] for d in rhs.split() if d.endswith('.vo')]
    seen, todo = [], [rel]
    while todo:
        x = todo.pop()
        if x in seen:
            continue
        seen.append(x)
        todo.extend(deps.get(x, []))
    return seen


class Finding(object):
    def __init__(self, key, what, case=None, expected=None, actual=None, model=None, kind='input', theorem=None):
        self.key, self.what, self.case, self.expected, self.actual, self.model = key, what, case, expected, actual, model
        self.kind, self.theorem = kind, theorem


class Ctx(object):
    def __init__(self, pid, tier, seed, replay=None):
        self.pid, self.tier, self.seed = pid, tier, seed
        self.replay_path = replay
        self.rng = random.Random(seed)
        self.t0 = time.time()
        self.obligations = 0
        self.discharged = 0
        self.theorems = []
        self.axioms = []
        self.checker_cmds = []
        self.trusted = ['Coq 8.16.1 kernel (coqc, vm_compute; no native_compute)']
        self.assumptions = []
        self.proof_broken = []      # (theorem/file, excerpt)
        self.corr_broken = []       # Finding (model != impl, property holds on impl at that input)
        self.violations = []        # Finding (property fails on impl)
        self.evaluations = 0
        self.nontrivial = set()
        self.samples = []
        self.dist = {}
        self.rule = ''
        self.exhaustive = None
        self.extra = {}
        self.scratch = tempfile.mkdtemp(prefix='verif-%s-' % pid, dir='/var/tmp')
        self.known = load_findings(pid)
        self.known_hit = {}
        self.translated = []

    # ------------------------------------------------------------------ bookkeeping
    def count(self, bucket, key, n=1):
        d = self.dist.setdefault(bucket, {})
        d[key] = d.get(key, 0) + n

    def case(self, canon, nontrivial=True, sample=None):
        """Record one evaluated case.  canon: hashable/JSON-able canonical form."""
        self.evaluations += 1
        if nontrivial:
            h = hashlib.sha1(json.dumps(canon, sort_keys=True, default=str).encode()).hexdigest()[:16]
            self.nontrivial.add(h)
        if len(self.samples) < 5 and (sample is not None or self.evaluations % 97 == 1):
            self.samples.append(sample if sample is not None else canon)

    def trust(self, *items):
        for i in items:
            if i not in self.trusted:
                self.trusted.append(i)

    def assume(self, *items):
        for i in items:
            if i not in self.assumptions:
                self.assumptions.append(i)

    # ------------------------------------------------------------------ (T) regenerate
    def generate(self, relname, text_fn):
        """Regenerate coq/Gen/<relname> from the working tree; text_fn() -> text, may raise Unsupported."""
        from . import py2coq
        path = os.path.join(COQ, 'Gen', relname)
        self.trust('py2coq translator (verif/lib/vf/py2coq.py): semantics of the Python subset, DESIGN 2.2')
        try:
            text = text_fn()
        except py2coq.Unsupported as e:
            self.proof_broken.append(('translate:' + relname, 'translator failed closed: %s' % e))
            return False
        except (SyntaxError, OSError) as e:
            self.proof_broken.append(('translate:' + relname, 'cannot read source: %s' % e))
            return False
        with BuildLock():
            write_if_changed(path, text)
        self.translated.append(relname)
        return True

    # ------------------------------------------------------------------ prove
    def prove(self, props_rel, timeout=900):
        """Build coq/<props_rel> (e.g. Props/C23.v) and everything it depends on; parse assumptions."""
        vo = props_rel[:-2] + '.vo'
        src = open(os.path.join(COQ, props_rel)).read()
        thms = re.findall(r'^\s*(?:Theorem|Corollary)\s+(\w+)', strip_comments(src), re.M)
        self.theorems = thms
        self.obligations = len(thms)
        cmd = 'make -C coq -j%d %s' % (JOBS, vo)
        self.checker_cmds.append('timeout %d %s   (full .vo build; Props file always rebuilt)' % (timeout, cmd))
        with BuildLock():
            ensure_makefile()
            deps = coq_deps(props_rel)
            bad = scan_forbidden(deps)
            if bad:
                self.proof_broken.append(('forbidden-vernacular', '; '.join(bad[:5])))
                return False
            for ext in ('.vo', '.glob', '.vok', '.vos'):
                try:
                    os.remove(os.path.join(COQ, props_rel[:-2] + ext))
                except OSError:
                    pass
            try:
                rc, out = sh(['timeout', str(timeout), 'make', '-C', COQ, '-j%d' % JOBS, vo], timeout=timeout + 30)
            except subprocess.TimeoutExpired:
                rc, out = 124, 'make timed out'
        self.extra['proof_files'] = deps
        if rc != 0:
            m = re.search(r'File "([^"]+)", line (\d+)[\s\S]{0,1500}', out)
            excerpt = (m.group(0) if m else out[-1500:])
            which = m.group(1) if m else props_rel
            self.proof_broken.append((which, excerpt[:1500]))
            self.discharged = 0
            return False
        # Print Assumptions output of the Props file
        closed = len(re.findall(r'Closed under the global context', out))
        axioms = []
        for blk in re.findall(r'Axioms:\n((?:.+\n?)+?)(?=\n\S|\Z|COQC|make)', out):
            for m in re.finditer(r'^(\S+)\s*:', blk, re.M):
                axioms.append(m.group(1))
        self.axioms = sorted(set(axioms))
        notallowed = [a for a in self.axioms if a not in ALLOWED_AXIOMS and a.split('.')[-1] not in ALLOWED_AXIOMS]
        n_pa = len(re.findall(r'^\s*Print\s+Assumptions\s+(\w+)', strip_comments(src), re.M))
        self.extra['print_assumptions'] = {'checked': n_pa, 'closed_under_global_context': closed,
                                           'axioms': self.axioms}
        if n_pa < len(thms):
            self.proof_broken.append((props_rel, 'Print Assumptions missing for some theorems (%d < %d)' % (n_pa, len(thms))))
            return False
        if notallowed:
            self.proof_broken.append((props_rel, 'axioms outside the allowed list: %s' % notallowed))
            return False
        self.discharged = len(thms)
        if self.axioms:
            self.trust('axioms (Print Assumptions): ' + ', '.join(self.axioms))
        else:
            self.trust('axioms (Print Assumptions): none -- every theorem closed under the global context')
        return True

    def coqchk(self, props_rel, timeout=1500):
        lib = 'Verif.' + props_rel[:-2].replace('/', '.')
        cmd = ['timeout', str(timeout), 'coqchk', '-silent', '-o', '-Q', '.', 'Verif', lib]
        self.checker_cmds.append('cd coq && ' + ' '.join(cmd))
        try:
            rc, out = sh(cmd, cwd=COQ, timeout=timeout + 30)
        except subprocess.TimeoutExpired:
            rc, out = 124, 'timeout'
        self.extra['coqchk'] = {'rc': rc, 'tail': out[-1200:]}
        if rc != 0:
            self.proof_broken.append(('coqchk:' + props_rel, out[-800:]))
            return False
        return True

    # ------------------------------------------------------------------ run the model inside Coq
    def ensure_built(self, requires, timeout=1800):
        """make the .vo of every module a generated cases file imports (they need not be in the Props cone)."""
        by_base = {os.path.basename(f)[:-2]: f for f in all_v_files()}
        targets = [by_base[r][:-2] + '.vo' for r in requires if r in by_base]
        missing = [r for r in requires if r not in by_base]
        if missing:
            raise RuntimeError('modules not found in coq/: %r' % missing)
        key = tuple(sorted(targets))
        if getattr(self, '_built', None) is None:
            self._built = set()
        if key in self._built:
            return
        with BuildLock():
            ensure_makefile()
            rc, out = sh(['timeout', str(timeout), 'make', '-C', COQ, '-j%d' % JOBS] + targets, timeout=timeout + 30)
        if rc != 0:
            raise RuntimeError('cannot build modules required by the correspondence: ' + out[-1500:])
        self._built.add(key)

    def coq_filter(self, requires, check_fn, cases, shard=400, timeout=3000, prelude=''):
        """cases: list of Gallina terms c such that `check_fn c : bool`.  Returns indices where the
        model (evaluated by vm_compute inside coqc) answers false.  Sharded over JOBS processes."""
        if not cases:
            return []
        self.ensure_built(requires)
        self.trust('correspondence harness: generated cases.v evaluated with vm_compute by coqc')
        shards = [cases[i:i + shard] for i in range(0, len(cases), shard)]
        files = []
        for si, sc in enumerate(shards):
            p = os.path.join(self.scratch, 'cases_%s_%d.v' % (self.pid, si))
            with open(p, 'w') as f:
                f.write('From Coq Require Import ZArith List Bool String Ascii.\n')
                for r in requires:
                    f.write('From Verif Require Import %s.\n' % r)
                f.write('Import ListNotations.\nLocal Open Scope Z_scope.\nSet Printing Width 1000000.\nSet Printing Depth 1000000.\n')
                f.write(prelude + '\n')
                f.write('Fixpoint bad_idx_ {A} (f : A -> bool) (i : nat) (l : list A) : list nat :=\n'
                        '  match l with [] => [] | c :: l\' => if f c then bad_idx_ f (S i) l\' else i :: bad_idx_ f (S i) l\' end.\n')
                f.write('Definition cases_ := [\n' + ';\n'.join(sc) + '\n].\n')
                f.write('Eval vm_compute in (bad_idx_ (%s) 0%%nat cases_).\n' % check_fn)
            files.append(p)
        procs = []
        results = [None] * len(files)
        pending = list(enumerate(files))
        running = []
        bad = []
        while pending or running:
            while pending and len(running) < JOBS:
                i, p = pending.pop(0)
                pr = subprocess.Popen('ulimit -s unlimited 2>/dev/null; exec timeout %d coqc -Q %s Verif %s' % (timeout, COQ, p),
                                      shell=True, stdout=subprocess.PIPE, stderr=subprocess.STDOUT, text=True,
                                      cwd=self.scratch)
                running.append((i, pr))
            i, pr = running.pop(0)
            out, _ = pr.communicate()
            if pr.returncode != 0 and 'Error' not in out:
                # killed without a Coq error (overloaded machine / OOM): retry this shard once, alone
                rc2, out = sh('ulimit -s unlimited 2>/dev/null; exec timeout %d coqc -Q %s Verif %s' % (timeout, COQ, files[i]),
                              cwd=self.scratch)
                pr.returncode = rc2
            if pr.returncode != 0:
                raise RuntimeError('coqc failed on generated cases (harness bug or model does not build):\n' + out[-2000:])
            m = re.search(r'=\s*\[([^\]]*)\]\s*:\s*list nat', out.replace('\n', ' '))
            if not m:
                raise RuntimeError('cannot parse coqc output: ' + out[-500:])
            for tok in re.findall(r'\d+', m.group(1)):
                bad.append(i * shard + int(tok))
        return sorted(bad)

    def coq_eval(self, requires, exprs, timeout=300, prelude=''):
        """Evaluate Gallina expressions; returns the raw printed results (for replays/debugging)."""
        self.ensure_built(requires)
        p = os.path.join(self.scratch, 'eval_%s_%d.v' % (self.pid, random.randrange(10**9)))
        with open(p, 'w') as f:
            f.write('From Coq Require Import ZArith List Bool String Ascii.\n')
            for r in requires:
                f.write('From Verif Require Import %s.\n' % r)
            f.write('Import ListNotations.\nLocal Open Scope Z_scope.\nSet Printing Width 1000000.\nSet Printing Depth 1000000.\n' + prelude + '\n')
            for e in exprs:
                f.write('Eval vm_compute in (%s).\n' % e)
        rc, out = sh('ulimit -s unlimited 2>/dev/null; exec timeout %d coqc -Q %s Verif %s' % (timeout, COQ, p), cwd=self.scratch)
        if rc != 0:
            raise RuntimeError('coqc failed: ' + out[-2000:])
        parts = re.split(r'^\s*=\s', out, flags=re.M)[1:]
        res = []
        for part in parts:
            part = part.strip()
            # drop the trailing ": type"
            idx = part.rfind('\n     : ')
            if idx < 0:
                idx = part.rfind(' : ')
            res.append(part[:idx].strip() if idx >= 0 else part)
        return res

    # ------------------------------------------------------------------ findings
    def violation(self, key, what, **kw):
        """The property fails on the implementation at a concrete case."""
        self.violations.append(Finding(key, what, **kw))

    def disagreement(self, key, what, **kw):
        """Model and implementation differ but no property failure was exhibited at that case."""
        self.corr_broken.append(Finding(key, what, **kw))

    # ------------------------------------------------------------------ decide + evidence
    def finish(self):
        lines = []
        exit_code = 0
        n_viol = 0
        reported = set()
        known_printed = set()

        def replay_file(f, suffix=None):
            body = {'property': self.pid, 'tier': self.tier, 'seed': self.seed, 'kind': f.kind, 'key': f.key,
                    'what': f.what, 'case': f.case, 'expected': f.expected, 'actual': f.actual, 'model': f.model,
                    'theorem': f.theorem,
                    'how_to_run': 'bin/check %s --replay <this file>' % self.pid}
            h = suffix or hashlib.sha1(json.dumps([f.key, f.case], sort_keys=True, default=str).encode()).hexdigest()[:12]
            rel = 'replays/%s-%s.json' % (self.pid, h)
            os.makedirs(os.path.join(VERIF, 'replays'), exist_ok=True)
            with open(os.path.join(VERIF, rel), 'w') as fh:
                json.dump(body, fh, indent=1, default=str)
            return rel

        for f in self.violations:
            k = match_known(self.known, f)
            if k is not None:
                self.known_hit[k['id']] = self.known_hit.get(k['id'], 0) + 1
                continue
            if f.key in reported:
                continue
            reported.add(f.key)
            n_viol += 1
            rel = replay_file(f)
            lines.append('VIOLATION property=%s replay=%s' % (self.pid, rel))
            lines.append('  %s' % f.what)
            exit_code = 1
        for k in self.known:
            if k.get('status') == 'open':
                # printed on every run of the unchanged tree (whether or not this run's sample hit it)
                lines.append('KNOWN-FINDING: property=%s %s' % (self.pid, k['what']))
        if (self.proof_broken or self.corr_broken) and exit_code == 0:
            # proof obligation / correspondence broken and the search found no failing input
            f = Finding('unproved', 'proof obligation or correspondence no longer checks', kind='unproved',
                        theorem=[x[0] for x in self.proof_broken] + [c.key for c in self.corr_broken[:5]],
                        case=None,
                        actual=[x[1] for x in self.proof_broken][:3] + [
                            {'case': c.case, 'impl': c.actual, 'model': c.model, 'what': c.what} for c in self.corr_broken[:5]])
            rel = replay_file(f, 'unproved')
            n_viol += 1
            lines.append('VIOLATION property=%s replay=%s no-failing-input-found' % (self.pid, rel))
            for x in self.proof_broken[:3]:
                lines.append('  broken obligation: %s: %s' % (x[0], x[1][:300].replace('\n', ' | ')))
            for c in self.corr_broken[:3]:
                lines.append('  correspondence differs: %s' % c.what[:300])
            exit_code = 1
        elif (self.proof_broken or self.corr_broken):
            for x in self.proof_broken[:3]:
                lines.append('  (also) broken obligation: %s: %s' % (x[0], x[1][:300].replace('\n', ' | ')))
            for c in self.corr_broken[:3]:
                lines.append('  (also) correspondence differs: %s' % c.what[:300])
        cov = {
            'obligations': self.obligations, 'discharged': self.discharged if not self.proof_broken else min(self.discharged, max(0, self.obligations - 1)),
            'checker_cmd': ' && '.join(self.checker_cmds) or 'none',
            'trusted_base': self.trusted,
            'theorems': self.theorems,
            'evaluations': self.evaluations, 'distinct_nontrivial': len(self.nontrivial),
            'rule': self.rule, 'samples': self.samples[:5] or ['(no correspondence cases in this run)'],
            'input_distribution': self.dist,
            'translated_from_source': self.translated,
            'known_findings_matched': self.known_hit,
            'proof_broken': [x[0] for x in self.proof_broken],
            'correspondence_disagreements': len(self.corr_broken),
        }
        if self.exhaustive is not None:
            cov['exhaustive'] = self.exhaustive
        cov.update(self.extra)
        ev = {'property_id': self.pid, 'tier': self.tier, 'seed': self.seed, 'level': 'proof', 'coverage': cov,
              'assumptions': self.assumptions, 'wall_s': round(time.time() - self.t0, 2), 'violations': n_viol}
        evdir = os.environ.get('VERIF_EVIDENCE_DIR') or os.path.join(VERIF, 'evidence')
        os.makedirs(evdir, exist_ok=True)
        with open(os.path.join(evdir, '%s.json' % self.pid), 'w') as fh:
            json.dump(ev, fh, indent=1, default=str)
        for l in lines:
            print(l)
        print('%s tier=%s seed=%d obligations=%d discharged=%d cases=%d nontrivial=%d known=%s wall=%.1fs -> %s'
              % (self.pid, self.tier, self.seed, self.obligations, cov['discharged'], self.evaluations,
                 len(self.nontrivial), dict(self.known_hit), time.time() - self.t0, 'FAIL' if exit_code else 'ok'))
        shutil.rmtree(self.scratch, ignore_errors=True)
        return exit_code


def load_findings(pid):
    """findings/<pid>.json is the per-property source; known_findings.json is their concatenation
    (bin/mkmanifest).  Never written at run time."""
    p = os.path.join(VERIF, 'findings', pid + '.json')
    if not os.path.exists(p):
        return []
    with open(p) as f:
        allf = json.load(f)
    return [k for k in allf if k.get('property') == pid]


def match_known(known, f):
    """An open known finding suppresses only failures whose key is listed in its match.keys (exact) or
    starts with one of match.key_prefixes."""
    for k in known:
        if k.get('status') != 'open':
            continue
        m = k.get('match', {})
        if f.key in m.get('keys', []):
            return k
        for pre in m.get('key_prefixes', []):
            if f.key.startswith(pre):
                return k
    return None
