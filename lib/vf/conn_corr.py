"""History generation (walking the enabled operations), Gallina encoding of check points, and the Python oracles of
C09 / C10 evaluated on the REAL objects' snapshots."""
import itertools, json
from vf import conn_impl


# ---------------------------------------------------------------------------------------------- Gallina encoding
def zl(l):
    return '[' + '; '.join('%d' % x if x >= 0 else '(%d)' % x for x in l) + ']'


def b(x):
    return 'true' if x else 'false'


def chk_expr(sn):
    ev = '[' + '; '.join(zl(e) for e in sn['events']) + ']'
    return ('(fun s => obs_eqb s %s %d %s %s %s %s %s %s %s %s && codes_eqb (log_codes s) %s)'
            % (zl(sn['free']), sn['highest'], zl(sn['reqs']), zl(sn['orphans']),
               ('%d' % sn['in_flight']) if sn['in_flight'] >= 0 else '(%d)' % sn['in_flight'],
               b(sn['thr']), b(sn['defunct']), b(sn['closed']), b(sn['msg']), zl(sn['cps']), ev))


def zi(x):
    return '%d' % x if x >= 0 else '(%d)' % x


def pt_expr(ops, sn, nseen):
    ev = '[' + '; '.join(zl(e) for e in sn['events'][nseen:]) + ']'
    return ('(mkpt [%s] %s %s %s %s %s %s %s %s %s %s %s)'
            % ('; '.join(ops), zl(sn['free']), zi(sn['highest']), zl(sn['reqs']), zl(sn['orphans']), zi(sn['in_flight']),
               b(sn['thr']), b(sn['defunct']), b(sn['closed']), b(sn['msg']), zl(sn['cps']), ev))


def case_expr(h, upto=None):
    pts, nseen = [], 0
    for ops, sn in (h.points if upto is None else h.points[:upto]):
        pts.append(pt_expr(ops, sn, nseen))
        nseen = len(sn['events'])
    return 'check_pts %s [] [%s]' % (h.model_init(), ';\n '.join(pts))


def first_bad_point_exprs(h):
    """for diagnosis: one boolean per prefix"""
    return [case_expr(h, k) for k in range(1, len(h.points) + 1)]


def all_ops(h):
    return [o for ops, _ in h.points for o in ops]


# ---------------------------------------------------------------------------------------------- running
def run_history(cfg, actions):
    h = conn_impl.Harness(**cfg)
    try:
        h.run(actions)
    except Exception as e:            # an exception escaping the real code is itself recorded
        import traceback
        h.problems.append('exception escaped: %r %s' % (e, traceback.format_exc()[-600:]))
        h.checkpoint()
    return h


# ---------------------------------------------------------------------------------------------- oracles (statement, on the implementation)
def oracle_c09(h, cfg_maxid):
    """Returns list of (key, what, point_index).  Demands exactly the statement of C09 on the snapshots."""
    out = []
    for k, (ops, sn) in enumerate(h.points):
        ids = sn['free'] + sn['reqs'] + sn['orphans'] + sn['held'] + sn['cps']
        dup = sorted(set(x for x in ids if ids.count(x) > 1))
        if dup:
            where = []
            for x in dup:
                w = [n for n in ('free', 'reqs', 'orphans', 'held', 'cps') if x in sn[n]]
                where.append('%d in %s' % (x, '+'.join(w)))
            out.append(('duplicate-id.' + '+'.join(sorted(set(n for x in dup for n in ('free', 'reqs', 'orphans', 'held', 'cps') if x in sn[n]))),
                        'stream id present twice: ' + ', '.join(where), k))
            break
        if any(x < 0 or x > cfg_maxid for x in ids) or sn['highest'] > cfg_maxid:
            out.append(('id-beyond-max', 'stream id beyond max_request_id=%d: %r' % (cfg_maxid, ids), k))
            break
    for e in (h.points[-1][1]['events'] if h.points else []):
        if e[0] == 8 and not (0 <= e[1] <= cfg_maxid):
            out.append(('id-beyond-max', 'handed out id %d > %d' % (e[1], cfg_maxid), len(h.points) - 1))
    for w in h.wfr_results:
        if 'error' in w:
            out.append(('wait_for_responses.failed', 'wait_for_responses raised %s' % w['error'], len(h.points) - 1))
        elif w['streams_of_results'] != w['sent']:
            out.append(('wait_for_responses.misrouted-result', 'wait_for_responses sent its messages on streams %r but returned, in message order, the responses '
                        'that arrived on streams %r: a message got another message\'s response' % (w['sent'], w['streams_of_results']), len(h.points) - 1))
    for (r, i, tok) in h.foreign_drops:
        out.append(('timeout-dropped-foreign-request', 'the client timeout of request %r removed the handler of request %r, which is outstanding on stream %d '
                    '(stale ResponseFuture._req_id), and orphaned its stream: the response to %r will be discarded' % (r, tok, i, tok), len(h.points) - 1))
    for (i, tok, expect) in h.misrouted:
        out.append(('misrouted', 'response for request %r on stream %d delivered to callback %r' % (expect, i, tok), len(h.points) - 1))
    return out


def quiescent(h):
    """every sent request answered, nothing borrowed and unsent, every unit handed back, connection alive"""
    c = h.conn
    return (not h.wire and not h.held and h.owed == 0 and not h.pending_tasks() and not c.is_defunct and not c.is_closed
            and not c.orphaned_request_ids and not c._continuous_paging_sessions and not h.nonbenign)


def oracle_quiescent(h):
    out = []
    for k, q in h.quiescent_points:
        sn = h.points[k][1] if k < len(h.points) else None
        if sn is None:
            continue
        if sn['in_flight'] != 0 or sorted(sn['free']) != list(range(sn['highest'] + 1)):
            out.append(('not-quiescent.' + ('timeout-response-race' if h.race_exercised else q), 'all sent requests answered but in_flight=%d free=%r highest=%d (after %s)'
                        % (sn['in_flight'], sn['free'], sn['highest'], q), k))
            break
    return out


# ---------------------------------------------------------------------------------------------- generation
class Gen(object):
    """Online generator: chooses the next action from what is enabled on the real object, executes it, records it."""

    def __init__(self, rng, cfg, nreq, profile):
        self.rng, self.cfg, self.nreq, self.profile = rng, cfg, nreq, profile
        self.h = conn_impl.Harness(**cfg)
        self.actions = []
        self.tok = 0

    def fresh(self):
        self.tok += 1
        return self.tok

    def nested_choice(self, where, depth=0):
        """a short list of other actors' steps to run at an unlocked point"""
        rng, h, p = self.rng, self.h, self.profile
        out = []
        if where == 'in_cb':
            if rng.random() < 0.9:
                out.append({'a': 'return'})
            if p.get('cp') and rng.random() < 0.15:
                out.insert(0, {'a': 'cp_new', 'sess': 100 + self.fresh()})
            if p.get('reprep') and rng.random() < p['reprep'] and self.tok < self.nreq + 3:
                out.append({'a': 'reprepare', 'r2': self.fresh()})
        if depth == 0 and rng.random() < p.get('nest', 0.25):
            k = rng.random()
            if k < 0.35 and self.tok < self.nreq:
                out.append({'a': 'query', 'r': self.fresh(), 'in_cb': [{'a': 'return'}]})
            elif k < 0.6:
                sent = [t for t, d in h.tokens.items() if d.get('id') is not None]
                if sent:
                    out.append({'a': 'timeout', 'r': rng.choice(sent)})
            elif k < 0.8 and where in ('after_pop', 'after_check') and h.wire and p.get('race'):
                out.append({'a': 'respond', 'i': rng.choice(h.wire)[0], 'd': 'DOk', 'no_nest': True})
            elif k < 0.9 and p.get('fail'):
                out.append({'a': rng.choice(['defunct', 'close'])})
        return out

    def step(self):
        rng, h, p = self.rng, self.h, self.profile
        c = h.conn
        choices = []
        if self.tok < self.nreq:
            choices += [('query', 4), ('borrow', 1)]
            if p.get('setks'):
                choices.append(('set_keyspace', 1))
            if p.get('hb'):
                choices.append(('hb_send', 1))
        if h.held:
            choices.append(('send', 3))
        if h.wire or c._continuous_paging_sessions:
            choices.append(('respond', 6))
        sent = [t for t, d in h.tokens.items() if d.get('id') is not None and d.get('kind') in ('query', 'manual')]
        if sent:
            choices.append(('timeout', 2))
        if [t for t in h.owed_tokens if h.tokens.get(t, {}).get('kind') != 'prepare']:
            choices.append(('return', 3))
        if h.pending_tasks():
            choices.append(('run_tasks', 3))
        if p.get('fail'):
            choices.append(('fail', p['fail']))
        if p.get('busy'):
            choices.append(('writable', 1))
        if not choices:
            return False
        names, weights = zip(*choices)
        a = rng.choices(names, weights)[0]
        if a == 'query':
            act = {'a': 'query', 'r': self.fresh(), 'in_cb': self.nested_choice('in_cb'),
                   'after_check': self.nested_choice('after_check')}
            if rng.random() < p.get('fastreply', 0.15):
                # the node's answer is processed by the event thread as soon as the message is pushed,
                # before the sending thread has executed the rest of send_msg
                act['at_push'] = [{'a': 'respond_tok', 'r': act['r']}]
        elif a == 'borrow':
            act = {'a': 'borrow', 'r': self.fresh()}
        elif a == 'send':
            act = {'a': 'send', 'r': rng.choice(sorted(h.held)), 'in_cb': self.nested_choice('in_cb'),
                   'after_check': self.nested_choice('after_check')}
        elif a == 'set_keyspace':
            act = {'a': 'set_keyspace', 'r': self.fresh(), 'in_cb': self.nested_choice('in_cb')}
        elif a == 'hb_send':
            act = {'a': 'hb_send', 'r': self.fresh(), 'in_cb': [{'a': 'return'}]}
        elif a == 'respond':
            streams = sorted(set([w[0] for w in h.wire] + list(c._continuous_paging_sessions.keys())))
            i = rng.choice(streams)
            if i in c._continuous_paging_sessions:
                d = rng.choice(['CpPage', 'CpPage', 'CpLast'])
            else:
                d = rng.choices(['DOk', 'DErr', 'DFail', 'DProto'], [10, 2, p.get('fail', 0), p.get('fail', 0)])[0]
            act = {'a': 'respond', 'i': i, 'd': d, 'begun': self.nested_choice('begun', depth=0 if rng.random() < 0.3 else 1)}
            for n in act['begun']:
                n['no_nest'] = True
        elif a == 'timeout':
            act = {'a': 'timeout', 'r': rng.choice(sent), 'live': (rng.random() > p.get('nopool', 0.0)),
                   'after_pop': self.nested_choice('after_pop')}
        elif a == 'return':
            act = {'a': 'return', 'r': rng.choice(sorted(t for t in h.owed_tokens if h.tokens.get(t, {}).get('kind') != 'prepare'))}
        elif a == 'run_tasks':
            act = {'a': 'run_tasks'}
        elif a == 'fail':
            act = {'a': rng.choice(['defunct', 'close']), 'after_flag': self.nested_choice('after_flag', depth=1)}
        else:
            act = {'a': 'set_writable', 'b': rng.random() < 0.5}
        self.run1(act)
        return True

    def run1(self, act):
        h = self.h
        self.actions.append(act)
        h.do(act)
        h.checkpoint()
        if act['a'] in ('defunct', 'close') or (act['a'] == 'timeout' and not act.get('live', True)) or act.get('d') in ('DFail', 'DProto'):
            h.nonbenign = True
        if h.points and quiescent(h):
            h.quiescent_points.append((len(h.points) - 1, act['a']))

    def drain(self):
        """answer everything still on the wire, send/return what is held (so that quiescence is reached)"""
        h = self.h
        for _ in range(40):
            if h.conn.is_defunct or h.conn.is_closed:
                break
            if h.held and h.pool_has_conn():
                act = {'a': 'send', 'r': sorted(h.held)[0], 'in_cb': [{'a': 'return'}]}
            elif h.wire:
                act = {'a': 'respond', 'i': h.wire[0][0], 'd': 'DOk'}
            elif h.conn._continuous_paging_sessions:
                act = {'a': 'respond', 'i': sorted(h.conn._continuous_paging_sessions)[0], 'd': 'CpLast'}
            elif h.pending_tasks():
                act = {'a': 'run_tasks'}
            elif [t for t in h.owed_tokens if h.tokens.get(t, {}).get('kind') != 'prepare']:
                act = {'a': 'return', 'r': sorted(t for t in h.owed_tokens if h.tokens.get(t, {}).get('kind') != 'prepare')[0]}
            else:
                break
            self.run1(act)


def generate(rng, cfg, nreq, profile, steps):
    g = Gen(rng, cfg, nreq, profile)
    try:
        for _ in range(steps):
            if not g.step():
                break
        if profile.get('drain', True):
            g.drain()
    except Exception as e:
        import traceback
        g.h.problems.append('exception escaped: %r %s' % (e, traceback.format_exc()[-800:]))
        g.h.checkpoint()
    return g.h, g.actions
