(* Lemmas about the list / set / bucket helpers of Model/LBP.v *)
From Coq Require Import ZArith List Bool Lia Permutation.
From Verif Require Import LBP.
Import ListNotations.
Local Open Scope Z_scope.

Lemma mem_In : forall x l, mem x l = true <-> In x l.
Proof.
  intros x l. unfold mem. rewrite existsb_exists. split.
  - intros [y [Hy He]]. apply Z.eqb_eq in He. subst. exact Hy.
  - intros H. exists x. split; [exact H | apply Z.eqb_refl].
Qed.

Lemma mem_false : forall x l, mem x l = false <-> ~ In x l.
Proof.
  intros x l. split.
  - intros H Hin. apply mem_In in Hin. congruence.
  - intros H. destruct (mem x l) eqn:E; auto. exfalso. apply H. apply mem_In. exact E.
Qed.

Lemma nodup_app : forall (A : Type) (l1 l2 : list A),
  NoDup l1 -> NoDup l2 -> (forall x, In x l1 -> In x l2 -> False) -> NoDup (l1 ++ l2).
Proof.
  induction l1 as [|a l1 IH]; intros l2 H1 H2 Hd; simpl; [exact H2|].
  inversion H1; subst. constructor.
  - rewrite in_app_iff. intros [H|H]; [tauto|]. apply (Hd a); simpl; auto.
  - apply IH; auto. intros x Hx1 Hx2. apply (Hd x); simpl; auto.
Qed.

Lemma nodup_filter : forall (A : Type) (f : A -> bool) (l : list A), NoDup l -> NoDup (filter f l).
Proof.
  induction l as [|a l IH]; intros H; simpl; [constructor|].
  inversion H; subst. destruct (f a); auto. constructor; auto.
  rewrite filter_In. tauto.
Qed.

Lemma In_remove_host : forall h x l, In x (remove_host h l) <-> In x l /\ x <> h.
Proof.
  intros. unfold remove_host. rewrite filter_In. rewrite negb_true_iff, Z.eqb_neq. tauto.
Qed.

Lemma nodup_remove_host : forall h l, NoDup l -> NoDup (remove_host h l).
Proof. intros. apply nodup_filter. assumption. Qed.

Lemma In_dedupe : forall x l, In x (dedupe l) <-> In x l.
Proof.
  induction l as [|a l IH]; simpl; [tauto|].
  rewrite In_remove_host, IH. destruct (Z.eq_dec a x); [subst; tauto|]. split; intros; [tauto|].
  destruct H; [tauto|]. right. split; auto.
Qed.

Lemma nodup_dedupe : forall l, NoDup (dedupe l).
Proof.
  induction l as [|a l IH]; simpl; constructor.
  - rewrite In_remove_host. tauto.
  - apply nodup_remove_host. exact IH.
Qed.

Lemma In_set_order : forall ord xs x, In x (set_order ord xs) <-> In x xs.
Proof.
  intros. unfold set_order. rewrite In_dedupe, in_app_iff, filter_In, mem_In. tauto.
Qed.

Lemma nodup_set_order : forall ord xs, NoDup (set_order ord xs).
Proof. intros. apply nodup_dedupe. Qed.

Lemma In_add_host : forall h l x, In x (add_host h l) <-> x = h \/ In x l.
Proof.
  intros. unfold add_host. destruct (mem h l) eqn:E.
  - apply mem_In in E. split; [tauto|]. intros [->|]; auto.
  - rewrite in_app_iff. simpl. split; intros; [|]; intuition.
Qed.

Lemma nodup_add_host : forall h l, NoDup l -> NoDup (add_host h l).
Proof.
  intros. unfold add_host. destruct (mem h l) eqn:E; auto.
  apply mem_false in E. apply nodup_app; auto.
  - constructor; [simpl; tauto | constructor].
  - intros x H1 [<-|[]]. tauto.
Qed.

Lemma rotate_perm : forall (A : Type) k (l : list A), Permutation (rotate k l) l.
Proof.
  intros. unfold rotate. rewrite <- (firstn_skipn k l) at 3. apply Permutation_app_comm.
Qed.

Lemma In_rotate : forall (A : Type) k (l : list A) x, In x (rotate k l) <-> In x l.
Proof.
  intros. split; apply Permutation_in; [apply rotate_perm | apply Permutation_sym, rotate_perm].
Qed.

Lemma nodup_rotate : forall (A : Type) k (l : list A), NoDup l -> NoDup (rotate k l).
Proof. intros. eapply Permutation_NoDup; [apply Permutation_sym, rotate_perm | assumption]. Qed.

Lemma In_firstn : forall (A : Type) n (l : list A) x, In x (firstn n l) -> In x l.
Proof. intros. rewrite <- (firstn_skipn n l). apply in_or_app. left. assumption. Qed.

Lemma nodup_firstn : forall (A : Type) n (l : list A), NoDup l -> NoDup (firstn n l).
Proof.
  intros A n l. revert n. induction l as [|a l IH]; intros n H; destruct n; simpl; try constructor.
  - inversion H; subst. intro Hin. apply In_firstn in Hin. tauto.
  - inversion H; subst. auto.
Qed.

Lemma In_take_used : forall (A : Type) u (l : list A) x, In x (take_used u l) -> In x l.
Proof. intros A u l x. unfold take_used. apply In_firstn. Qed.

Lemma nodup_take_used : forall (A : Type) u (l : list A), NoDup l -> NoDup (take_used u l).
Proof. intros. unfold take_used. apply nodup_firstn. assumption. Qed.

Lemma take_used_zero : forall (A : Type) (l : list A), take_used 0 l = [].
Proof.
  intros. unfold take_used. simpl.
  replace (Z.max 0 (Z.min (Z.of_nat (length l)) 0)) with 0 by lia. reflexivity.
Qed.

Lemma length_take_used : forall (A : Type) u (l : list A), 0 <= u -> (length (take_used u l) <= Z.to_nat u)%nat.
Proof.
  intros. unfold take_used. rewrite firstn_length.
  destruct (u <? 0) eqn:E; [apply Z.ltb_lt in E; lia|]. lia.
Qed.

(* ------------------------------------------------------------------ association lists *)
Lemma aget_aset : forall m h v x, aget (aset m h v) x = if h =? x then v else aget m x.
Proof. reflexivity. Qed.

(* ------------------------------------------------------------------ buckets *)
Lemma bhas_In : forall b d, bhas b d = true <-> In d (map fst b).
Proof.
  induction b as [|[k l] b IH]; intros d; simpl; [split; [discriminate | tauto]|].
  rewrite orb_true_iff, IH, Z.eqb_eq. tauto.
Qed.

Lemma bget_nokey : forall b d, ~ In d (map fst b) -> bget b d = [].
Proof.
  induction b as [|[k l] b IH]; intros d H; simpl in *; auto.
  destruct (Z.eqb_spec k d); [tauto|]. apply IH. tauto.
Qed.

Lemma bget_In : forall b d l, NoDup (map fst b) -> In (d, l) b -> bget b d = l.
Proof.
  induction b as [|[k l0] b IH]; intros d l HK Hin; simpl in *; [tauto|].
  inversion HK; subst. destruct Hin as [E|Hin].
  - inversion E; subst. rewrite Z.eqb_refl. reflexivity.
  - destruct (Z.eqb_spec k d); [subst|auto]. exfalso. apply H1. apply (in_map fst) in Hin. exact Hin.
Qed.

Lemma bget_nonempty_In : forall b d, bget b d <> [] -> In (d, bget b d) b.
Proof.
  induction b as [|[k l] b IH]; intros d H; simpl in *; [congruence|].
  destruct (Z.eqb_spec k d); [subst; auto|]. right. auto.
Qed.

Lemma bget_breplace : forall b d l d', In d (map fst b) ->
  bget (breplace b d l) d' = if d' =? d then l else bget b d'.
Proof.
  induction b as [|[k l0] b IH]; intros d l d' H; simpl in *; [tauto|].
  destruct (Z.eqb_spec k d).
  - subst. simpl. destruct (Z.eqb_spec d d'); [subst; rewrite Z.eqb_refl; reflexivity|].
    destruct (Z.eqb_spec d' d); [congruence|reflexivity].
  - simpl. destruct H as [H|H]; [congruence|]. destruct (Z.eqb_spec k d').
    + subst. destruct (Z.eqb_spec d' d); [congruence|reflexivity].
    + apply IH. exact H.
Qed.

Lemma bget_app_new : forall b d l d', ~ In d (map fst b) ->
  bget (b ++ [(d, l)]) d' = if d' =? d then l else bget b d'.
Proof.
  induction b as [|[k l0] b IH]; intros d l d' H; simpl in *.
  - rewrite (Z.eqb_sym d d'). destruct (d' =? d); reflexivity.
  - destruct (Z.eqb_spec k d').
    + subst. destruct (Z.eqb_spec d' d); [subst; tauto|reflexivity].
    + apply IH. tauto.
Qed.

Lemma bget_bset : forall b d l d', bget (bset b d l) d' = if d' =? d then l else bget b d'.
Proof.
  intros. unfold bset. destruct (bhas b d) eqn:E.
  - apply bget_breplace. apply bhas_In. exact E.
  - apply bget_app_new. rewrite <- bhas_In. congruence.
Qed.

Lemma bget_bdel : forall b d d', bget (bdel b d) d' = if d' =? d then [] else bget b d'.
Proof.
  induction b as [|[k l] b IH]; intros d d'; simpl.
  - destruct (d' =? d); reflexivity.
  - destruct (Z.eqb_spec k d); simpl.
    + subst. rewrite IH. destruct (Z.eqb_spec d d'); [subst; rewrite Z.eqb_refl; reflexivity|reflexivity].
    + destruct (Z.eqb_spec k d').
      * subst. destruct (Z.eqb_spec d' d); [congruence|reflexivity].
      * apply IH.
Qed.

Lemma keys_breplace : forall b d l, map fst (breplace b d l) = map fst b.
Proof.
  induction b as [|[k l0] b IH]; intros; simpl; auto.
  destruct (k =? d); simpl; [reflexivity|]. f_equal. apply IH.
Qed.

Lemma keys_bset : forall b d l, NoDup (map fst b) -> NoDup (map fst (bset b d l)).
Proof.
  intros. unfold bset. destruct (bhas b d) eqn:E.
  - rewrite keys_breplace. assumption.
  - rewrite map_app. simpl. apply nodup_app; auto.
    + constructor; [simpl; tauto|constructor].
    + intros x H1 [<-|[]]. apply bhas_In in H1. congruence.
Qed.

Lemma In_keys_bdel : forall b d k, In k (map fst (bdel b d)) -> In k (map fst b).
Proof.
  intros b d k. unfold bdel. rewrite !in_map_iff. intros [x [E H]]. apply filter_In in H. exists x. tauto.
Qed.

Lemma keys_bdel : forall b d, NoDup (map fst b) -> NoDup (map fst (bdel b d)).
Proof.
  induction b as [|[k l] b IH]; intros d H; simpl; [constructor|].
  inversion H; subst. destruct (k =? d); simpl; auto.
  constructor; auto. intro Hin. apply In_keys_bdel in Hin. tauto.
Qed.

(* ------------------------------------------------------------------ groupby *)
Lemma groupby_keys : forall key l k g x, In (k, g) (groupby key l) -> In x g -> key x = k.
Proof.
  induction l as [|a l IH]; intros k g x Hin Hx; simpl in *; [tauto|].
  destruct (groupby key l) as [|[k0 g0] gs] eqn:E.
  - destruct Hin as [Hin|[]]. inversion Hin; subst. destruct Hx as [<-|[]]. reflexivity.
  - destruct (Z.eqb_spec (key a) k0).
    + destruct Hin as [Hin|Hin].
      * inversion Hin; subst. destruct Hx as [<-|Hx]; [reflexivity|]. apply (IH (key a) g0); simpl; auto.
      * apply (IH k g); simpl; auto.
    + destruct Hin as [Hin|Hin].
      * inversion Hin; subst. destruct Hx as [<-|[]]. reflexivity.
      * apply (IH k g); auto.
Qed.

Lemma groupby_members : forall key l x,
  existsb (fun kg => mem x (snd kg)) (groupby key l) = mem x l.
Proof.
  induction l as [|a l IH]; intros x; simpl; [reflexivity|].
  rewrite <- IH. destruct (groupby key l) as [|[k0 g0] gs]; simpl.
  - rewrite orb_false_r. reflexivity.
  - destruct (key a =? k0); simpl.
    + rewrite orb_assoc. reflexivity.
    + rewrite orb_false_r. reflexivity.
Qed.

Lemma filter_all : forall (A : Type) (f : A -> bool) (l : list A), (forall x, In x l -> f x = true) -> filter f l = l.
Proof.
  induction l as [|a l IH]; intros H; simpl; auto.
  rewrite (H a) by (simpl; auto). f_equal. apply IH. intros x Hx. apply H. simpl. auto.
Qed.

Lemma filter_none : forall (A : Type) (f : A -> bool) (l : list A), (forall x, In x l -> f x = false) -> filter f l = [].
Proof.
  induction l as [|a l IH]; intros H; simpl; auto.
  rewrite (H a) by (simpl; auto). apply IH. intros x Hx. apply H. simpl. auto.
Qed.
