(* C44: one heartbeat on one connection, as a composition of Conn steps. *)
From Coq Require Import ZArith List Bool Lia.
From Verif Require Import Conn Conn_lemmas Conn_inv.
Import ListNotations.
Local Open Scope Z_scope.

Lemma lookup_app_none {A} i (l : list (Z * A)) v : lookup i l = None -> lookup i (l ++ [(i, v)]) = Some v.
Proof.
  induction l as [|[k w] l IH]; cbn [lookup app]; intros E.
  - rewrite Z.eqb_refl. reflexivity.
  - destruct (i =? k); [discriminate|]. exact (IH E).
Qed.

Lemma rmk_app_none {A} i (l : list (Z * A)) v : lookup i l = None -> rmk i (l ++ [(i, v)]) = l.
Proof.
  induction l as [|[k w] l IH]; cbn [lookup app rmk]; intros E.
  - rewrite Z.eqb_refl. reflexivity.
  - destruct (i =? k); [discriminate|]. rewrite (IH E). reflexivity.
Qed.

Lemma rmk_none {A} i (l : list (Z * A)) : lookup i l = None -> rmk i l = l.
Proof.
  induction l as [|[k w] l IH]; cbn [lookup rmk]; intros E; [reflexivity|].
  destruct (i =? k); [discriminate|]. rewrite (IH E). reflexivity.
Qed.

(* a successful heartbeat: HeartbeatFuture.__init__, the SUPPORTED reply processed by process_msg, run()'s locked
   in_flight -= 1 and reset_idle *)
Definition hb_ok (i cb : Z) : list op := [HbSend cb; RecvBegin i; RecvPop i DOk; RecvEnd; HbDone].

(* a failed / unanswered heartbeat: run() calls connection.defunct(exc) then owner.return_connection(connection) *)
Definition hb_failed : list op := [DefunctFlag; Close; ErrCp; ErrSwap; OwnerReturn].

