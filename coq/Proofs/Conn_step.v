(* Every step of Model/Conn.v preserves the bookkeeping invariant (as long as no response overtook a timeout). *)
From Coq Require Import ZArith List Bool Lia.
From Verif Require Import Conn Conn_lemmas Conn_inv.
Import ListNotations.
Local Open Scope Z_scope.

Ltac units_goal := unfold units in *; proj; try match goal with CU : cur _ = _ |- _ => rewrite CU in * end; rewrite ?zlen_cons, ?zlen_nil, ?zlen_app in *; cbn [unit_tags unit_tag cur_unit] in *.
Ltac same T U H := split; proj; [exact T | first [exact U | units_goal; lia] | exact H].

Lemma take_ids_good k : forall d s, GoodD d s ->
  GoodD (d + fst (take_ids k s)) (snd (take_ids k s)) /\ 0 <= fst (take_ids k s) <= Z.of_nat k
  /\ raced (snd (take_ids k s)) = raced s /\ in_flight (snd (take_ids k s)) = in_flight s
  /\ max_id (snd (take_ids k s)) = max_id s
  /\ owed (snd (take_ids k s)) = owed s /\ ks_pending (snd (take_ids k s)) = ks_pending s
  /\ spurious (snd (take_ids k s)) = spurious s /\ leaked (snd (take_ids k s)) = leaked s.
Proof.
  induction k as [|k IH]; intros d s G.
  - cbn [take_ids fst snd]. replace (d + 0) with d by lia. split; [exact G|]. cbn. repeat split; auto; lia.
  - cbn [take_ids]. pose proof (get_id_good _ _ G) as [A [B [C D]]].
    assert (X : owed (snd (get_id s)) = owed s /\ ks_pending (snd (get_id s)) = ks_pending s
                /\ spurious (snd (get_id s)) = spurious s /\ leaked (snd (get_id s)) = leaked s).
    { unfold get_id. destruct (free s); [destruct (highest s + 1 <=? max_id s)|]; proj; auto. }
    destruct X as [X1 [X2 [X3 X4]]].
    destruct (get_id s) as [[i|] s1]; cbn [fst snd] in *.
    + destruct A as [A _]. specialize (IH _ _ A). destruct (take_ids k s1) as [n s2]. cbn [fst snd] in *.
      destruct IH as [I1 [I2 [I3 [I4 [I5 [I6 [I7 [I8 I9]]]]]]]].
      replace (d + (n + 1)) with (d + 1 + n) by lia. split; [exact I1|]. repeat split; auto; try lia; congruence.
    + replace (d + 0) with d by lia. split; [exact A|]. repeat split; auto; lia.
Qed.

Lemma retag_units i g t t' : lookup i g = Some t -> cnt i (keys g) = 1 ->
  unit_tags ((i, t') :: rmk i g) = unit_tags g - unit_tag t + unit_tag t'.
Proof. intros L C. cbn [unit_tags]. rewrite (unit_tags_rmk_one _ _ _ L C). lia. Qed.

Section Step.
Variable s : state.
Hypothesis G : Good s.
Ltac start := pose proof (g_tot _ G) as T; pose proof (g_units _ G) as U; pose proof (g_hi _ G) as H.

Lemma good_borrow : Good (step s Borrow).
Proof.
  start. unfold step. destruct (negb (thr_reached s && closed s) && (in_flight s <? max_id s)); [|same T U H].
  set (s1 := set_inf (in_flight s + 1) s).
  assert (G1 : GoodD (-1) s1) by (split; unfold s1; proj; [exact T | unfold units in *; proj; lia | exact H]).
  pose proof (get_id_good _ _ G1) as [A _]. destruct (get_id s1) as [[i|] s2].
  - destruct A as [[T2 U2 H2] _]. split; auto. lia.
  - destruct A as [T2 U2 H2]. split; proj; auto; unfold units in *; proj; lia.
Qed.

Lemma good_waitids n : Good (step s (WaitIds n)).
Proof.
  start. unfold step. set (k := Z.max 0 (Z.min n (max_id s - in_flight s + 1))).
  assert (G0 : GoodD 0 s) by (apply goodD0; exact G).
  pose proof (take_ids_good (Z.to_nat k) _ _ G0) as [A [B [_ [D [_ [E1 [E2 [E3 E4]]]]]]]].
  destruct (take_ids (Z.to_nat k) s) as [taken s1]. cbn [fst snd] in *. destruct A as [T2 U2 H2].
  destruct (Z.ltb_spec taken k).
  - split; proj; auto; unfold units in *; proj; lia.
  - assert (taken = k) by lia. subst taken. split; proj; auto; unfold units in *; proj; lia.
Qed.

Lemma good_sendcheck i : Good (step s (SendCheck i)).
Proof.
  start. unfold step. destruct (lookup i (ghost s)) as [[]|] eqn:L; try exact G.
  destruct (in_ghost _ _ _ G L) as [C1 [C2 [C3 [C4 [C5 C6]]]]].
  destruct (send_verdict s) as [|[]|]; (split; proj; [tot_goal T| units_goal; rewrite (unit_tags_rmk_one _ _ _ L C1); cbn [unit_tag]; lia | exact H]).
Qed.

Lemma good_idrelease i : Good (step s (IdRelease i)).
Proof.
  start. unfold step. destruct (lookup i (ghost s)) as [[]|] eqn:L; try exact G.
  destruct (in_ghost _ _ _ G L) as [C1 [C2 [C3 [C4 [C5 C6]]]]].
  split; proj; [tot_goal T | units_goal; rewrite (unit_tags_rmk_one _ _ _ L C1); cbn [unit_tag]; lia | exact H].
Qed.

Lemma good_register i cb : lookup i (ghost s) = Some TChecked -> Good (register i cb s).
Proof.
  start. intros L. destruct (in_ghost _ _ _ G L) as [C1 [C2 [C3 [C4 [C5 C6]]]]].
  split; proj; [tot_goal T | | exact H].
  units_goal. rewrite (rmk_id _ _ C3). rewrite (unit_tags_rmk_one _ _ _ L C1). cbn [unit_tag]. lia.
Qed.

Lemma good_sendreg i cb : Good (step s (SendReg i cb)).
Proof.
  start. unfold step. destruct (lookup i (ghost s)) as [[]|] eqn:L; try exact G. apply good_register; exact L.
Qed.

Lemma good_returnconn : Good (step s ReturnConn).
Proof.
  start. unfold step. destruct (0 <? owed s); [|exact G]. split; proj; [exact T | units_goal; lia | exact H].
Qed.

Lemma good_recvbegin i : Good (step s (RecvBegin i)).
Proof.
  start. unfold step. destruct (cur s) eqn:CU; [exact G|]. destruct (lookup i (cps s)); [same T U H|].
  destruct (lookup i (wire s)); [|exact G]. proj.
  destruct (mem i (orphans s)) eqn:M; [|same T U H].
  destruct (in_orph _ _ G M) as [C1 [C2 [C3 [C4 [C5 C6]]]]].
  split; proj; [tot_goal T | | exact H].
  units_goal. rewrite (zlen_rm_one _ _ C1). rewrite (rmk_id _ _ C3). lia.
Qed.

Lemma good_recvpop i d : raced (step s (RecvPop i d)) = false -> Good (step s (RecvPop i d)).
Proof.
  start. unfold step. destruct (cur s) as [[[j r] []]|] eqn:CU; try (intros; exact G).
  - destruct (Z.eqb_spec i j); cbn [negb]; [subst j|intros; exact G].
    destruct (lookup i (reqs s)) as [cb|] eqn:L.
    + intros _. destruct (in_reqs _ _ _ G L) as [C1 [C2 [C3 [C4 [C5 C6]]]]].
      destruct d; (split; proj; [tot_goal T | units_goal; rewrite (zlen_rmk_one _ _ C1), (rmk_id _ _ C3); lia | exact H]).
    + destruct (lookup i (ghost s)) as [t|] eqn:LG.
      * destruct (in_ghost _ _ _ G LG) as [C1 [C2 [C3 [C4 [C5 C6]]]]].
        destruct t; cbn [unit_tag Z.eqb Pos.eqb]; proj; intros R; try discriminate R;
          (split; proj; [tot_goal T | units_goal; rewrite (unit_tags_rmk_one _ _ _ LG C1); cbn [unit_tag]; lia | exact H]).
      * proj. intros R. discriminate R.
  - destruct (Z.eqb_spec i j); cbn [negb]; [subst j|intros; exact G].
    destruct (lookup i (cps s)) as [[sess rel]|] eqn:L; intros _; [|same T U H].
    destruct (in_cps _ _ _ G L) as [C1 [C2 [C3 [C4 [C5 C6]]]]].
    split; proj; [tot_goal T | first [exact U | units_goal; lia] | exact H].
Qed.

Lemma good_recvdeliver : Good (step s RecvDeliver).
Proof.
  start. unfold step. destruct (cur s) as [[[j r] []]|] eqn:CU; try exact G.
  split; proj; [exact T | units_goal; lia | exact H].
Qed.

Lemma good_cpnew se : Good (step s (CpNew se)).
Proof.
  start. unfold step. destruct (cur s) as [[[i r] []]|] eqn:CU; try exact G.
  destruct (lookup i (cps s)) eqn:L; [exact G|].
  destruct (lookup i (ghost s)) as [[]|] eqn:LG; try exact G.
  destruct (in_ghost _ _ _ G LG) as [C1 [C2 [C3 [C4 [C5 C6]]]]].
  split; proj; [tot_goal T | units_goal; rewrite (unit_tags_rmk_one _ _ _ LG C1); cbn [unit_tag]; lia | exact H].
Qed.

Lemma good_recvend : raced (step s RecvEnd) = false -> Good (step s RecvEnd).
Proof.
  start. unfold step. destruct (cur s) as [[[i r] []]|] eqn:CU; try (intros; exact G).
  destruct (lookup i (cps s)) as [[se []]|] eqn:L.
  - intros _. destruct (in_cps _ _ _ G L) as [C1 [C2 [C3 [C4 [C5 C6]]]]].
    split; proj; [tot_goal T | first [exact U | units_goal; lia] | exact H].
  - intros _. same T U H.
  - destruct (lookup i (ghost s)) as [[]|] eqn:LG; proj; intros R; try discriminate R.
    destruct (in_ghost _ _ _ G LG) as [C1 [C2 [C3 [C4 [C5 C6]]]]].
    split; proj; [tot_goal T | units_goal; rewrite (unit_tags_rmk_one _ _ _ LG C1); cbn [unit_tag]; lia | exact H].
Qed.

Lemma good_timeoutpop i live : Good (step s (TimeoutPop i live)).
Proof.
  start. unfold step. destruct (lookup i (reqs s)) as [cb|] eqn:L; [|same T U H].
  destruct (in_reqs _ _ _ G L) as [C1 [C2 [C3 [C4 [C5 C6]]]]].
  split; proj; [tot_goal T | | exact H].
  units_goal. rewrite (zlen_rmk_one _ _ C1), (rmk_id _ _ C3). destruct live; cbn [unit_tag]; lia.
Qed.

Lemma good_timeoutorphan i : Good (step s (TimeoutOrphan i)).
Proof.
  start. unfold step. destruct (lookup i (ghost s)) as [[]|] eqn:L; try exact G.
  destruct (in_ghost _ _ _ G L) as [C1 [C2 [C3 [C4 [C5 C6]]]]].
  split; proj; [tot_goal T | | exact H].
  units_goal. rewrite (rm_id _ _ C4). rewrite (unit_tags_rmk_one _ _ _ L C1); cbn [unit_tag]; lia.
Qed.

Lemma good_flags d c w m : Good (set_flags d c w m s).
Proof. start. same T U H. Qed.

Lemma good_errcp : Good (step s ErrCp).
Proof.
  start. unfold step.
  assert (X : forall (l : list (Z * (Z * bool))) s0, Good s0 -> Good (fold_right (fun c acc => ev (ECpError (fst (snd c))) acc) s0 l)).
  { induction l as [|c l IH]; intros s0 G0; cbn [fold_right]; [exact G0|].
    specialize (IH _ G0). destruct IH as [A B C]. split; proj; [exact A | exact B | exact C]. }
  apply X. split; proj; [| exact U | exact H].
  intros x. pose proof (T x) as Tx. unfold tot in *. proj.
  replace (keys (map (fun c : Z * (Z * bool) => (fst c, (fst (snd c), true))) (cps s))) with (keys (cps s)); [exact Tx|].
  unfold keys. rewrite map_map. reflexivity.
Qed.

Lemma good_errswap : Good (step s ErrSwap).
Proof.
  start. unfold step, err_swap. split; proj; [| | exact H].
  - intros x. pose proof (T x) as Tx. unfold tot in *. proj. rewrite keys_app, cnt_app, keys_nil. cbn [cnt].
    replace (keys (map (fun c : Z * Z => (fst c, TLost)) (reqs s))) with (keys (reqs s)); [lia|].
    unfold keys. rewrite map_map. reflexivity.
  - units_goal.
    assert (L1 : zlen (match reqs s with [] => [] | (_, cb) :: rest => cb :: rev (map snd rest) end) = zlen (reqs s)).
    { destruct (reqs s) as [|[k v] rest]; [reflexivity|]. unfold zlen. cbn [length]. rewrite rev_length, map_length. reflexivity. }
    rewrite L1.
    assert (L2 : forall (l : list (Z * Z)) g, unit_tags (map (fun c => (fst c, TLost)) l ++ g) = unit_tags g).
    { induction l as [|[k v] l IH]; intros g; cbn [map app unit_tags fst unit_tag]; [reflexivity|]. rewrite IH. lia. }
    rewrite L2. lia.
Qed.

Lemma good_errcall : Good (step s ErrCall).
Proof.
  start. unfold step. destruct (erroring s) as [|cb rest] eqn:E; [exact G|].
  split; proj; [exact T | units_goal; rewrite E in U; rewrite zlen_cons in U; lia | exact H].
Qed.

Lemma good_hbsend cb : Good (step s (HbSend cb)).
Proof.
  start. unfold step. destruct (in_flight s <? max_id s); [|same T U H].
  set (s1 := set_inf (in_flight s + 1) s).
  assert (G1 : GoodD (-1) s1) by (split; unfold s1; proj; [exact T | unfold units in *; proj; lia | exact H]).
  pose proof (get_id_good _ _ G1) as [A _]. destruct (get_id s1) as [[i|] s2].
  - destruct A as [[T2 U2 H2] L].
    assert (G2 : GoodD 0 s2) by (split; auto; lia). apply goodD0 in G2. clear T2 U2 H2.
    destruct (in_ghost _ _ _ G2 L) as [C1 [C2 [C3 [C4 [C5 C6]]]]].
    pose proof (g_tot _ G2) as T2. pose proof (g_units _ G2) as U2. pose proof (g_hi _ G2) as H2.
    destruct (send_verdict s2) as [|[]|];
      (split; proj; [tot_goal T2 | units_goal; rewrite ?(rmk_id _ _ C3); rewrite (unit_tags_rmk_one _ _ _ L C1); cbn [unit_tag]; lia | exact H2]).
  - destruct A as [T2 U2 H2]. split; proj; auto; unfold units in *; proj; lia.
Qed.

Lemma good_hbdone : Good (step s HbDone).
Proof.
  start. unfold step. destruct (0 <? owed s); [|exact G]. split; proj; [exact T | units_goal; lia | exact H].
Qed.

Lemma good_ownerreturn : Good (step s OwnerReturn).
Proof. start. unfold step. split; proj; [exact T | units_goal; lia | exact H]. Qed.

Lemma good_setkslock : Good (step s SetKsLock).
Proof.
  start. unfold step. destruct (in_flight s <? max_id s); [|exact G]. split; proj; [exact T | units_goal; lia | exact H].
Qed.

Lemma good_setksgetid : Good (step s SetKsGetId).
Proof.
  start. unfold step. destruct (0 <? ks_pending s); [|exact G].
  set (s1 := set_units (owed s) (ks_pending s - 1) (leaked s) (spurious s) s).
  assert (G1 : GoodD (-1) s1) by (split; unfold s1; proj; [exact T | unfold units in *; proj; lia | exact H]).
  pose proof (get_id_good _ _ G1) as [A _]. destruct (get_id s1) as [[i|] s2].
  - destruct A as [[T2 U2 H2] _]. split; auto. lia.
  - destruct A as [T2 U2 H2]. split; proj; auto; unfold units in *; proj; lia.
Qed.

Lemma raced_mono o : raced (step s o) = false -> raced s = false.
Proof.
  assert (GI : forall s0, raced (snd (get_id s0)) = raced s0).
  { intros s0. unfold get_id. destruct (free s0); [destruct (highest s0 + 1 <=? max_id s0)|]; reflexivity. }
  assert (TI : forall k s0, raced (snd (take_ids k s0)) = raced s0).
  { induction k as [|k IH]; intros s0; cbn [take_ids]; [reflexivity|]. specialize (GI s0).
    destruct (get_id s0) as [[i|] s1]; cbn [fst snd] in *; [|exact GI].
    specialize (IH s1). destruct (take_ids k s1) as [n s2]. cbn [snd] in *. congruence. }
  destruct o; unfold step.
  - destruct (negb (thr_reached s && closed s) && (in_flight s <? max_id s)); [|auto].
    pose proof (GI (set_inf (in_flight s + 1) s)) as X. destruct (get_id (set_inf (in_flight s + 1) s)) as [[i|] s2]; proj; cbn [snd] in *; proj; congruence.
  - pose proof (TI (Z.to_nat (Z.max 0 (Z.min n (max_id s - in_flight s + 1)))) s) as X.
    destruct (take_ids _ s) as [t s1]. cbn [snd] in X. destruct (t <? _); proj; congruence.
  - destruct (lookup i (ghost s)) as [[]|]; auto. destruct (send_verdict s) as [|[]|]; proj; auto.
  - destruct (lookup i (ghost s)) as [[]|]; proj; auto.
  - destruct (lookup i (ghost s)) as [[]|]; proj; auto.
  - destruct (0 <? owed s); proj; auto.
  - destruct (cur s); auto. destruct (lookup i (cps s)); proj; auto. destruct (lookup i (wire s)); auto. proj.
    destruct (mem i (orphans s)); proj; auto.
  - destruct (cur s) as [[[j r] []]|]; auto.
    + destruct (negb (i =? j)); auto. destruct (lookup i (reqs s)).
      * destruct d; proj; auto.
      * destruct (lookup i (ghost s)) as [[]|]; proj; intros X; try discriminate X; auto.
    + destruct (negb (i =? j)); auto. destruct (lookup i (cps s)) as [[]|]; proj; auto.
  - destruct (cur s) as [[[j r] []]|]; proj; auto.
  - destruct (cur s) as [[[j r] []]|]; auto. destruct (lookup j (cps s)); auto. destruct (lookup j (ghost s)) as [[]|]; proj; auto.
  - destruct (cur s) as [[[j r] []]|]; auto. destruct (lookup j (cps s)) as [[? []]|]; proj; auto.
    destruct (lookup j (ghost s)) as [[]|]; proj; intros X; try discriminate X; auto.
  - destruct (lookup i (reqs s)); proj; auto.
  - destruct (lookup i (ghost s)) as [[]|]; proj; auto.
  - destruct (defunct s || closed s); proj; auto.
  - destruct (closed s); proj; auto.
  - induction (cps s) as [|c l IH] at 2; cbn [fold_right]; proj; auto.
  - unfold err_swap. proj. auto.
  - destruct (erroring s); proj; auto.
  - destruct (in_flight s <? max_id s); proj; auto.
    pose proof (GI (set_inf (in_flight s + 1) s)) as X. destruct (get_id (set_inf (in_flight s + 1) s)) as [[i|] s2]; cbn [snd] in *.
    + destruct (send_verdict s2) as [|[]|]; proj; congruence.
    + proj. congruence.
  - destruct (0 <? owed s); proj; auto.
  - proj. auto.
  - proj. auto.
  - destruct (in_flight s <? max_id s); proj; auto.
  - destruct (0 <? ks_pending s); auto.
    pose proof (GI (set_units (owed s) (ks_pending s - 1) (leaked s) (spurious s) s)) as X.
    destruct (get_id _) as [[i|] s2]; proj; cbn [snd] in *; proj; congruence.
  - proj. auto.
  - proj. auto.
  - destruct (defunct s); [auto|]. unfold err_swap. proj. auto.
Qed.

Lemma step_good o : raced (step s o) = false -> Good (step s o).
Proof.
  intros R. destruct o.
  - apply good_borrow.
  - apply good_waitids.
  - apply good_sendcheck.
  - apply good_sendreg.
  - apply good_idrelease.
  - apply good_returnconn.
  - apply good_recvbegin.
  - apply good_recvpop; exact R.
  - apply good_recvdeliver.
  - apply good_cpnew.
  - apply good_recvend; exact R.
  - apply good_timeoutpop.
  - apply good_timeoutorphan.
  - unfold step. destruct (defunct s || closed s); [exact G|apply good_flags].
  - unfold step. destruct (closed s); [exact G|apply good_flags].
  - apply good_errcp.
  - apply good_errswap.
  - apply good_errcall.
  - apply good_hbsend.
  - apply good_hbdone.
  - unfold step. apply good_flags.
  - apply good_ownerreturn.
  - apply good_setkslock.
  - apply good_setksgetid.
  - unfold step. apply good_flags.
  - unfold step. apply good_flags.
  - unfold step. destruct (defunct s); [exact G|]. exact good_errswap.
Qed.
End Step.

Theorem run_good : forall ops s, Good s -> raced (run s ops) = false -> Good (run s ops) /\ raced s = false.
Proof.
  induction ops as [|o ops IH]; intros s G R; cbn [run fold_left] in *.
  - split; [exact G|exact R].
  - destruct (raced (step s o)) eqn:R1.
    + exfalso. assert (X : forall ops s0, raced s0 = true -> raced (fold_left step ops s0) = true).
      { induction ops0 as [|o0 ops0 IH0]; intros s0 E; cbn [fold_left]; [exact E|]. apply IH0.
        destruct (raced (step s0 o0)) eqn:Y; [reflexivity|]. apply raced_mono in Y. congruence. }
      unfold run in R. rewrite (X _ _ R1) in R. discriminate.
    + pose proof (step_good s G o R1) as G1. destruct (IH _ G1 R) as [A _]. split; [exact A|].
      exact (raced_mono s o R1).
Qed.
