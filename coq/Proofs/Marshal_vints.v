(* Laws of the GENERATED vints_pack / vints_unpack (sequences of zig-zag vints; Gen/MarshalGen.v) against
   Model/VIntCoding.v, for all lists of integers. *)
From Coq Require Import ZArith List Bool Lia ZifyBool.
From Verif Require Import PyBase JavaBigInteger VIntCoding MarshalGen BytesBE Marshal_vint.
Import ListNotations.
Local Open Scope Z_scope.

(* ================================================================== zig-zag outside int64 overflows 64 bits *)
Lemma testbit_true_ge v i : 0 <= v -> 0 <= i -> Z.testbit v i = true -> 2 ^ i <= v.
Proof.
  intros Hv Hi Hb. destruct (Z_le_dec (2 ^ i) v) as [|Hlt]; [assumption|exfalso].
  destruct (Z.eq_dec v 0) as [->|Hn]; [rewrite Z.bits_0 in Hb; discriminate|].
  assert (Z.log2 v < i) by (apply Z.log2_lt_pow2; lia).
  rewrite Z.bits_above_log2 in Hb by lia. discriminate.
Qed.

Lemma lxor_ge_top A B : 0 < A -> 0 <= B -> B < 2 ^ Z.log2 A -> 2 ^ Z.log2 A <= Z.lxor A B.
Proof.
  intros HA HB Hlt. pose proof (Z.log2_nonneg A) as HL.
  apply testbit_true_ge; [apply Z.lxor_nonneg; lia|assumption|].
  rewrite Z.lxor_spec. rewrite Z.bit_log2 by assumption.
  destruct (Z.eq_dec B 0) as [->|Hn]; [rewrite Z.bits_0; reflexivity|].
  assert (Z.log2 B < Z.log2 A) by (apply Z.log2_lt_pow2; lia).
  rewrite (Z.bits_above_log2 B) by lia. reflexivity.
Qed.

Ltac Zify.zify_post_hook ::= Z.to_euclidean_division_equations.
Lemma div_lnot x : x / 2 ^ 63 = Z.lnot ((- x - 1) / 2 ^ 63).
Proof. unfold Z.lnot. lia. Qed.
Lemma div_le_self y : 0 <= y -> y / 2 ^ 63 <= y.
Proof. intros. lia. Qed.
Ltac Zify.zify_post_hook ::= idtac.

Lemma zigzag_out_of_range x : ~ in_int64 x -> 2 ^ 64 <= encode_zig_zag x.
Proof.
  unfold in_int64, encode_zig_zag. intros Hx.
  rewrite Z.shiftl_mul_pow2 by lia. change (2 ^ 1) with 2. rewrite Z.shiftr_div_pow2 by lia.
  destruct (Z_le_dec (2 ^ 63) x) as [Hpos|Hneg].
  - replace (x * 2) with (2 * x) by lia.
    assert (HL : Z.log2 (2 * x) = Z.succ (Z.log2 x)) by (apply Z.log2_double; lia).
    assert (H64 : 64 <= Z.log2 (2 * x)) by (apply Z.log2_le_pow2; lia).
    pose proof (Z.log2_spec x ltac:(lia)) as Hs. pose proof (div_le_self x ltac:(lia)) as Hd.
    assert (Hq : 0 <= x / 2 ^ 63) by (apply Z.div_pos; lia).
    pose proof (lxor_ge_top (2 * x) (x / 2 ^ 63) ltac:(lia) Hq ltac:(rewrite HL; lia)) as Hge.
    pose proof (pow2_le 64 (Z.log2 (2 * x)) ltac:(lia)). lia.
  - set (y := - x - 1). assert (Hy : 2 ^ 63 <= y) by (unfold y; lia).
    rewrite (div_lnot x). fold y.
    replace (x * 2) with (Z.lnot (2 * y + 1)) by (unfold Z.lnot, y; lia).
    rewrite Z.lxor_lnot_lnot.
    assert (HL : Z.log2 (2 * y + 1) = Z.succ (Z.log2 y)) by (apply Z.log2_succ_double; lia).
    assert (H64 : 64 <= Z.log2 (2 * y + 1)) by (apply Z.log2_le_pow2; lia).
    pose proof (Z.log2_spec y ltac:(lia)) as Hs. pose proof (div_le_self y ltac:(lia)) as Hd.
    assert (Hq : 0 <= y / 2 ^ 63) by (apply Z.div_pos; lia).
    pose proof (lxor_ge_top (2 * y + 1) (y / 2 ^ 63) ltac:(lia) Hq ltac:(rewrite HL; lia)) as Hge.
    pose proof (pow2_le 64 (Z.log2 (2 * y + 1)) ltac:(lia)). lia.
Qed.

(* ================================================================== vints_pack *)
Lemma vints_pack_step x xs vals acc : in_int64 x ->
  vints_pack_loop1 (x :: xs) vals acc = vints_pack_loop1 xs vals (acc ++ rev (vint_bytes x)).
Proof.
  intros Hx. destruct (zigzag_roundtrip_spec x Hx) as (Henc & Hu & _).
  cbn [vints_pack_loop1]. cbv zeta. unfold vint_bytes. rewrite Henc in *. set (u := zigzag_encode x) in *.
  unfold in_uint64 in Hu.
  destruct (u <? 128) eqn:E.
  - rewrite py_byte_check_ok by lia. cbn [bind]. f_equal. f_equal.
    unfold uvint_bytes, vint_first_byte. cbv zeta. rewrite vint_extra_small by lia. change (Z.to_nat 0) with 0%nat.
    cbn [be_bytes rev app]. change (8 * 0) with 0. rewrite Z.shiftr_0_r. unfold vint_prefix. change (256 - 2 ^ (8 - 0)) with 0. reflexivity.
  - destruct (vint_extra_char u ltac:(lia)) as (n & Hn & Hn8 & Hlt & Hge).
    pose proof (vint_extra_big u n ltac:(lia) Hn) as Hn0.
    destruct (more_in_range u n ltac:(lia) Hn8 ltac:(lia) Hlt Hge) as [Hmore Hstop].
    rewrite py_bit_length_nbits. rewrite !(Z.abs_eq u) by lia.
    pose proof (vints_loop_run n (S (Z.to_nat (Z.log2 u + 2))) vals x 0 (nbits u) acc u
                  ltac:(pose proof (log2_fuel u ltac:(lia)); lia) ltac:(lia) Hmore Hstop) as Hrun.
    replace (nbits u - 8 * 0) with (nbits u) in Hrun by lia. change (Z.min (0 + 1) 8) with (0 + 1) in Hrun.
    rewrite Hrun. cbn [bind].
    destruct (0 + Z.of_nat n >? 8) eqn:E8; [lia|].
    replace (8 - (0 + Z.of_nat n)) with (8 - Z.of_nat n) by lia.
    destruct (first_byte_assembly u n Hu Hn Hn8 Hlt) as [Hfb Hrange]. cbv zeta in Hfb, Hrange.
    rewrite py_byte_check_ok by exact Hrange. cbn [bind]. rewrite Hfb.
    f_equal. unfold uvint_bytes. rewrite Hn, Nat2Z.id. cbn [rev]. rewrite app_assoc. reflexivity.
Qed.

Lemma vints_pack_bad_step x xs vals acc : ~ in_int64 x -> vints_pack_loop1 (x :: xs) vals acc = Raise.
Proof.
  intros Hx. pose proof (zigzag_out_of_range x Hx) as Hv.
  cbn [vints_pack_loop1]. cbv zeta. set (v := encode_zig_zag x) in *.
  destruct (v <? 128) eqn:E; [lia|].
  destruct (more_too_big v Hv) as (Hmore & Hstop & Hm8 & Hmn). cbv zeta in *.
  set (m := Z.to_nat ((nbits v + 7) / 8)) in *.
  rewrite py_bit_length_nbits. rewrite !(Z.abs_eq v) by lia.
  pose proof (vints_loop_run m (S (Z.to_nat (Z.log2 v + 2))) vals x 0 (nbits v) acc v
                ltac:(apply nbits_fuel; lia) ltac:(lia) Hmore Hstop) as Hrun.
  replace (nbits v - 8 * 0) with (nbits v) in Hrun by lia. change (Z.min (0 + 1) 8) with (0 + 1) in Hrun.
  rewrite Hrun. cbn [bind].
  destruct (0 + Z.of_nat m >? 8) eqn:E8; [reflexivity|lia].
Qed.

Lemma in_int64_dec x : {in_int64 x} + {~ in_int64 x}.
Proof. unfold in_int64. destruct (Z_le_dec (- 2 ^ 63) x); destruct (Z_lt_dec x (2 ^ 63)); (left; lia) || (right; lia). Qed.

Lemma in_int64b_spec x : in_int64b x = true <-> in_int64 x.
Proof. unfold in_int64b, in_int64. lia. Qed.

Lemma vints_pack_loop_spec : forall xs vals acc,
  vints_pack_loop1 xs vals acc =
  if forallb in_int64b xs then Ok (acc ++ concat (map (fun x => rev (vint_bytes x)) xs)) else Raise.
Proof.
  induction xs as [|x xs IH]; intros vals acc.
  - cbn. rewrite app_nil_r. reflexivity.
  - cbn [forallb map concat]. destruct (in_int64b x) eqn:E.
    + rewrite vints_pack_step by (apply in_int64b_spec; exact E). rewrite IH. cbn [andb].
      destruct (forallb in_int64b xs); [|reflexivity]. rewrite app_assoc. reflexivity.
    + cbn [andb]. apply vints_pack_bad_step. intros Hc. apply in_int64b_spec in Hc. congruence.
Qed.

Lemma rev_concat_rev {A} (f : Z -> list A) l : rev (concat (map (fun x => rev (f x)) (rev l))) = concat (map f l).
Proof.
  induction l as [|a l IH]; [reflexivity|]. cbn [rev map concat].
  rewrite map_app, concat_app, rev_app_distr. cbn [map concat]. rewrite app_nil_r, rev_involutive, IH. reflexivity.
Qed.

Lemma vints_encode_concat vals : vints_encode vals =
  if forallb in_int64b vals then Some (concat (map vint_bytes vals)) else None.
Proof.
  induction vals as [|x vals IH]; [reflexivity|]. cbn [vints_encode forallb map concat].
  destruct (in_int64b x); [|reflexivity]. rewrite IH. cbn [andb]. destruct (forallb in_int64b vals); reflexivity.
Qed.

Lemma forallb_rev {A} (f : A -> bool) l : forallb f (rev l) = forallb f l.
Proof.
  induction l as [|a l IH]; [reflexivity|]. cbn [rev forallb]. rewrite forallb_app, IH. cbn [forallb].
  rewrite andb_true_r. apply andb_comm.
Qed.

(* the generated packer IS the spec encoder, on every list of integers (Raise exactly where the spec has no encoding) *)
Theorem vints_pack_matches_spec vals : res_to_option (vints_pack vals) = vints_encode vals.
Proof.
  unfold vints_pack. cbv zeta. rewrite map_id. rewrite vints_pack_loop_spec, forallb_rev, vints_encode_concat.
  destruct (forallb in_int64b vals); [|reflexivity]. cbn [bind app res_to_option]. rewrite rev_concat_rev. reflexivity.
Qed.

Theorem vints_pack_spec vals : Forall in_int64 vals -> vints_pack vals = Ok (concat (map vint_bytes vals)).
Proof.
  intros H. unfold vints_pack. cbv zeta. rewrite map_id. rewrite vints_pack_loop_spec, forallb_rev.
  replace (forallb in_int64b vals) with true.
  - cbn [bind app]. rewrite rev_concat_rev. reflexivity.
  - symmetry. apply forallb_forall. intros x Hx. apply in_int64b_spec. rewrite Forall_forall in H. auto.
Qed.

Theorem vints_pack_rejects vals : ~ Forall in_int64 vals -> vints_pack vals = Raise.
Proof.
  intros H. unfold vints_pack. cbv zeta. rewrite map_id. rewrite vints_pack_loop_spec, forallb_rev.
  destruct (forallb in_int64b vals) eqn:E; [|reflexivity]. exfalso. apply H.
  rewrite forallb_forall in E. apply Forall_forall. intros x Hx. apply in_int64b_spec. auto.
Qed.

(* ================================================================== vints_unpack *)
Lemma vints_unpack_inner : forall payload pre post values fb ne acc fuel, Forall is_byte payload ->
  (length payload < fuel)%nat -> pre <> [] ->
  vints_unpack_loop2 fuel (pre ++ payload ++ post) values fb ne
      (Z.of_nat (length pre) - 1 + Z.of_nat (length payload)) (Z.of_nat (length pre) - 1) acc
  = Ok (Z.of_nat (length pre) - 1 + Z.of_nat (length payload), fold_left (fun a b => a * 256 + b) payload acc).
Proof.
  induction payload as [|x payload IH]; intros pre post values fb ne acc fuel Hb Hf Hpre;
    (destruct fuel as [|fuel]; [lia|]); cbn [vints_unpack_loop2].
  - cbn [length fold_left]. replace (Z.of_nat (length pre) - 1 + Z.of_nat 0) with (Z.of_nat (length pre) - 1) by lia.
    rewrite Z.ltb_irrefl. reflexivity.
  - inversion Hb as [|? ? Hx Hb']; subst. cbn [length] in *.
    destruct (Z.of_nat (length pre) - 1 <? Z.of_nat (length pre) - 1 + Z.of_nat (S (length payload))) eqn:E; [|lia].
    replace (Z.of_nat (length pre) - 1 + 1) with (Z.of_nat (length pre)) by lia.
    cbn [app]. rewrite py_index_app_mid. cbn [bind]. rewrite shl8_lor_byte by exact Hx. cbn [fold_left].
    specialize (IH (pre ++ [x]) post values fb ne (acc * 256 + x) fuel Hb' ltac:(lia)
                   ltac:(intros Hc; apply app_eq_nil in Hc; destruct Hc; discriminate)).
    rewrite <- app_assoc in IH. cbn [app] in IH. rewrite app_length in IH. cbn [length] in IH.
    replace (Z.of_nat (length pre + 1) - 1 + Z.of_nat (length payload))
      with (Z.of_nat (length pre) - 1 + Z.of_nat (S (length payload))) in IH by lia.
    replace (Z.of_nat (length pre + 1) - 1) with (Z.of_nat (length pre)) in IH by lia.
    exact IH.
Qed.

Lemma concat_length_ge vals : (length vals <= length (concat (map vint_bytes vals)))%nat.
Proof.
  induction vals as [|x vals IH]; [apply le_n|]. cbn [map concat length]. rewrite app_length.
  unfold vint_bytes at 1. rewrite uvint_bytes_length. lia.
Qed.

Lemma vints_unpack_outer : forall vals pre acc fuel, Forall in_int64 vals -> (length vals < fuel)%nat ->
  vints_unpack_loop1 fuel (pre ++ concat (map vint_bytes vals)) (Z.of_nat (length pre)) acc
  = Ok (Z.of_nat (length (pre ++ concat (map vint_bytes vals))), acc ++ vals).
Proof.
  induction vals as [|x vals IH]; intros pre acc fuel Hv Hf; (destruct fuel as [|fuel]; [lia|]);
    cbn [vints_unpack_loop1].
  - cbn [map concat]. rewrite !app_nil_r. rewrite Z.ltb_irrefl. reflexivity.
  - inversion Hv as [|? ? Hx Hv']; subst. cbn [map concat length] in *.
    destruct (zigzag_roundtrip_spec x Hx) as (Henc & Hu & Hdec & _).
    assert (Hvb : vint_bytes x = uvint_bytes (encode_zig_zag x)) by (unfold vint_bytes; rewrite Henc; reflexivity).
    rewrite !Hvb. set (u := encode_zig_zag x) in *. unfold in_uint64 in Hu.
    set (rest := concat (map vint_bytes vals)).
    assert (Hlen : Z.of_nat (length pre) < Z.of_nat (length (pre ++ uvint_bytes u ++ rest))).
    { rewrite !app_length, uvint_bytes_length. lia. }
    destruct (Z.of_nat (length pre) <? Z.of_nat (length (pre ++ uvint_bytes u ++ rest))) eqn:E; [|lia].
    destruct (vint_extra_char u ltac:(lia)) as (n & Hn & Hn8 & Hlt & Hge).
    assert (Hidx : py_index (pre ++ uvint_bytes u ++ rest) (Z.of_nat (length pre)) = Ok (vint_first_byte u)).
    { unfold uvint_bytes. cbn [app]. apply py_index_app_mid. }
    rewrite Hidx. cbn [bind]. cbv zeta.
    destruct (Z_lt_dec u 128) as [Hsmall|Hbig].
    + assert (Hfb : vint_first_byte u = u).
      { unfold vint_first_byte. cbv zeta. rewrite vint_extra_small by lia. change (8 * 0) with 0. rewrite Z.shiftr_0_r. reflexivity. }
      rewrite Hfb, land_128 by lia. destruct (u <? 128) eqn:E1; [|lia]. cbn [Z.eqb].
      rewrite Hdec.
      assert (Hub : uvint_bytes u = [u]).
      { unfold uvint_bytes. rewrite Hfb, vint_extra_small by lia. reflexivity. }
      rewrite Hub. cbn [app].
      specialize (IH (pre ++ [u]) (acc ++ [x]) fuel Hv' ltac:(lia)).
      rewrite <- !app_assoc in IH. cbn [app] in IH. rewrite app_length in IH. cbn [length] in IH.
      replace (Z.of_nat (length pre) + 1) with (Z.of_nat (length pre + 1)) by lia. exact IH.
    + pose proof (vint_extra_big u n ltac:(lia) Hn) as Hn0.
      destruct (first_byte_decode u n Hu Hn Hn8 Hn0 Hlt) as (Hfb & Hne & Hrv0). cbv zeta in Hfb, Hne, Hrv0.
      rewrite land_128 by lia. destruct (vint_first_byte u <? 128) eqn:E1; [lia|].
      rewrite Hne, Hrv0.
      pose proof (vints_unpack_inner (be_bytes n u) (pre ++ [vint_first_byte u]) rest acc (vint_first_byte u) (Z.of_nat n)
                    (Z.shiftr u (8 * Z.of_nat n)) 9%nat (be_bytes_bytes n u)
                    ltac:(rewrite be_bytes_length; lia)
                    ltac:(intros Hc; apply app_eq_nil in Hc; destruct Hc; discriminate)) as Hin.
      rewrite be_bytes_length, app_length in Hin. cbn [length] in Hin. rewrite <- app_assoc in Hin. cbn [app] in Hin.
      replace (Z.of_nat (length pre + 1) - 1 + Z.of_nat n) with (Z.of_nat (length pre) + Z.of_nat n) in Hin by lia.
      replace (Z.of_nat (length pre + 1) - 1) with (Z.of_nat (length pre)) in Hin by lia.
      unfold uvint_bytes. rewrite Hn, Nat2Z.id. cbn [app]. rewrite Hin. cbn [bind].
      rewrite be_fold_bytes. rewrite Z.shiftr_div_pow2 by lia.
      assert (Hval : u / 2 ^ (8 * Z.of_nat n) * 2 ^ (8 * Z.of_nat n) + u mod 2 ^ (8 * Z.of_nat n) = u).
      { pose proof (Z.div_mod u (2 ^ (8 * Z.of_nat n)) ltac:(pose proof (pow2_pos (8 * Z.of_nat n)); lia)). lia. }
      rewrite Hval, Hdec.
      specialize (IH (pre ++ vint_first_byte u :: be_bytes n u) (acc ++ [x]) fuel Hv' ltac:(lia)).
      rewrite <- !app_assoc in IH. cbn [app] in IH. rewrite app_length in IH. cbn [length] in IH.
      rewrite be_bytes_length in IH.
      replace (Z.of_nat (length pre) + Z.of_nat n + 1) with (Z.of_nat (length pre + S n)) by lia. exact IH.
Qed.

Theorem vints_unpack_spec vals : Forall in_int64 vals -> vints_unpack (concat (map vint_bytes vals)) = Ok vals.
Proof.
  intros Hv. unfold vints_unpack. cbv zeta.
  pose proof (vints_unpack_outer vals [] [] (S (length (concat (map vint_bytes vals)))) Hv
                ltac:(pose proof (concat_length_ge vals); lia)) as H.
  cbn [app length] in H. change (Z.of_nat 0) with 0 in H. rewrite H. reflexivity.
Qed.

(* ================================================================== the spec's own decoder on the image *)
Lemma vints_decode_fuel_spec : forall vals fuel, Forall in_int64 vals ->
  (length (concat (map vint_bytes vals)) <= fuel)%nat ->
  vints_decode_fuel fuel (concat (map vint_bytes vals)) = Some vals.
Proof.
  induction vals as [|x vals IH]; intros fuel Hv Hf; [destruct fuel; reflexivity|].
  inversion Hv as [|? ? Hx Hv']; subst. cbn [map concat] in *.
  destruct (zigzag_roundtrip_spec x Hx) as (Henc & Hu & _ & Hdec). rewrite Henc in Hu. unfold in_uint64 in Hu.
  unfold vint_bytes at 1 in Hf. unfold vint_bytes at 1. set (u := zigzag_encode x) in *.
  set (rest := concat (map vint_bytes vals)) in *.
  rewrite app_length, uvint_bytes_length in Hf.
  destruct fuel as [|fuel]; [lia|].
  assert (Hshape : exists b0 tl, uvint_bytes u ++ rest = b0 :: tl) by (unfold uvint_bytes; cbn [app]; eauto).
  destruct Hshape as (b0 & tl & Hshape).
  cbn [vints_decode_fuel]. rewrite Hshape. rewrite <- Hshape.
  rewrite (uvint_decode_roundtrip u rest) by exact Hu.
  assert (Hskip : skipn (Z.to_nat (vint_extra u + 1)) (uvint_bytes u ++ rest) = rest).
  { replace (Z.to_nat (vint_extra u + 1)) with (length (uvint_bytes u)).
    - rewrite skipn_app, skipn_all, Nat.sub_diag. reflexivity.
    - rewrite uvint_bytes_length. destruct (vint_extra_char u ltac:(lia)) as (n & Hn & _). lia. }
  rewrite Hskip. rewrite (IH fuel Hv' ltac:(lia)). rewrite Hdec. reflexivity.
Qed.

(* ================================================================== (c) the vints theorem *)
Theorem vints_roundtrip_spec : forall vals, Forall in_int64 vals ->
  exists bs, vints_pack vals = Ok bs /\ vints_encode vals = Some bs /\ Forall is_byte bs /\
             vints_unpack bs = Ok vals /\ vints_decode bs = Some vals.
Proof.
  intros vals Hv. exists (concat (map vint_bytes vals)).
  pose proof (vints_pack_spec vals Hv) as Hp.
  pose proof (vints_pack_matches_spec vals) as Hm. rewrite Hp in Hm. cbn [res_to_option] in Hm.
  split; [exact Hp|]. split; [symmetry; exact Hm|]. split.
  - apply Forall_concat. apply Forall_map. rewrite Forall_forall in *. intros x Hx. unfold vint_bytes.
    apply uvint_bytes_bytes. destruct (zigzag_roundtrip_spec x (Hv x Hx)) as (Henc & Hu & _). rewrite <- Henc. exact Hu.
  - split; [apply vints_unpack_spec; exact Hv|].
    unfold vints_decode. apply vints_decode_fuel_spec; [exact Hv|lia].
Qed.
