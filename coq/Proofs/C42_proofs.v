(* Lemmas for C42 (node-list refresh).  Model: Model/NodeList.v *)
From Coq Require Import ZArith List Bool Lia.
From Verif Require Import NodeList.
Import ListNotations.
Local Open Scope Z_scope.

Definition keys (hs : hosts) : list endpoint := map fst hs.

(* ------------------------------------------------------------------ endpoints *)
Lemma ep_eqb_eq : forall a b, ep_eqb a b = true <-> a = b.
Proof.
  intros [a1 a2] [b1 b2]. unfold ep_eqb. simpl. rewrite andb_true_iff, !Z.eqb_eq. split.
  - intros [-> ->]. reflexivity.
  - intros H. injection H as -> ->. split; reflexivity.
Qed.

Lemma ep_eqb_refl : forall a, ep_eqb a a = true.
Proof. intros a. apply ep_eqb_eq. reflexivity. Qed.

Lemma ep_eqb_neq : forall a b, ep_eqb a b = false <-> a <> b.
Proof.
  intros a b. split.
  - intros H E. apply ep_eqb_eq in E. congruence.
  - intros H. destruct (ep_eqb a b) eqn:E; [|reflexivity]. apply ep_eqb_eq in E. contradiction.
Qed.

Lemma mem_In : forall e l, mem e l = true <-> In e l.
Proof.
  intros e l. unfold mem. rewrite existsb_exists. split.
  - intros [x [Hx He]]. apply ep_eqb_eq in He. subst. exact Hx.
  - intros H. exists e. split; [exact H|apply ep_eqb_refl].
Qed.

Lemma mem_false : forall e l, mem e l = false <-> ~ In e l.
Proof.
  intros e l. split.
  - intros H Hin. apply mem_In in Hin. congruence.
  - intros H. destruct (mem e l) eqn:E; [|reflexivity]. apply mem_In in E. contradiction.
Qed.

(* ------------------------------------------------------------------ accept: the valid, distinct rows *)
Definition row_for (c : config) (rows : list row) (e : endpoint) : Prop :=
  exists r, In r rows /\ valid c r = true /\ ep_of c r = e.

Lemma accept_keys : forall c rows found e,
  In e (map fst (accept c found rows)) <-> ~ In e found /\ row_for c rows e.
Proof.
  intros c rows. induction rows as [|r rest IH]; intros found e; simpl.
  - split; [intros []|]. intros [_ [r [[] _]]].
  - destruct (valid c r) eqn:Ev.
    + destruct (mem (ep_of c r) found) eqn:Em.
      * rewrite IH. apply mem_In in Em. split.
        -- intros [Hn [r' [Hin [Hv He]]]]. split; [exact Hn|]. exists r'. split; [right; exact Hin|split; assumption].
        -- intros [Hn [r' [[Heq|Hin] [Hv He]]]].
           ++ subst r'. subst e. contradiction.
           ++ split; [exact Hn|]. exists r'. split; [exact Hin|split; assumption].
      * apply mem_false in Em. simpl. rewrite IH. split.
        -- intros [He|[Hn [r' [Hin [Hv He]]]]].
           ++ subst e. split; [exact Em|]. exists r. split; [left; reflexivity|split; [exact Ev|reflexivity]].
           ++ split; [intro H; apply Hn; right; exact H|]. exists r'. split; [right; exact Hin|split; assumption].
        -- intros [Hn [r' [[Heq|Hin] [Hv He]]]].
           ++ subst r'. left. exact He.
           ++ destruct (ep_eqb (ep_of c r) e) eqn:Ee.
              ** apply ep_eqb_eq in Ee. left. exact Ee.
              ** apply ep_eqb_neq in Ee. right. split.
                 --- intros [H|H]; [exact (Ee H)|exact (Hn H)].
                 --- exists r'. split; [exact Hin|split; assumption].
    + rewrite IH. split.
      * intros [Hn [r' [Hin [Hv He]]]]. split; [exact Hn|]. exists r'. split; [right; exact Hin|split; assumption].
      * intros [Hn [r' [[Heq|Hin] [Hv He]]]].
        -- subst r'. congruence.
        -- split; [exact Hn|]. exists r'. split; [exact Hin|split; assumption].
Qed.

Lemma accept_NoDup : forall c rows found, NoDup (map fst (accept c found rows)).
Proof.
  intros c rows. induction rows as [|r rest IH]; intros found; simpl; [constructor|].
  destruct (valid c r); [|apply IH].
  destruct (mem (ep_of c r) found); [apply IH|]. simpl. constructor; [|apply IH].
  intro H. apply accept_keys in H. destruct H as [H _]. apply H. left. reflexivity.
Qed.

Lemma accept_rows : forall c rows found e r, In (e, r) (accept c found rows) -> In r rows /\ valid c r = true /\ ep_of c r = e.
Proof.
  intros c rows. induction rows as [|r0 rest IH]; intros found e r H; simpl in H; [destruct H|].
  destruct (valid c r0) eqn:Ev.
  - destruct (mem (ep_of c r0) found).
    + destruct (IH _ _ _ H) as [H1 H2]. split; [right; exact H1|exact H2].
    + destruct H as [H|H].
      * injection H as <- <-. split; [left; reflexivity|split; [exact Ev|reflexivity]].
      * destruct (IH _ _ _ H) as [H1 H2]. split; [right; exact H1|exact H2].
  - destruct (IH _ _ _ H) as [H1 H2]. split; [right; exact H1|exact H2].
Qed.

(* ------------------------------------------------------------------ find / replace / filter on hosts *)
Lemma find_None : forall e hs, find e hs = None <-> ~ In e (keys hs).
Proof.
  intros e hs. induction hs as [|[e' h] r IH]; simpl.
  - split; [intros _ []|reflexivity].
  - destruct (ep_eqb e e') eqn:E.
    + apply ep_eqb_eq in E. subst. split; [discriminate|]. intros H. exfalso. apply H. left. reflexivity.
    + apply ep_eqb_neq in E. rewrite IH. split.
      * intros H [H1|H1]; [apply E; symmetry; exact H1|exact (H H1)].
      * intros H H1. apply H. right. exact H1.
Qed.

Lemma find_Some_In : forall e hs h, find e hs = Some h -> In e (keys hs).
Proof.
  intros e hs h H. destruct (mem e (keys hs)) eqn:E; [apply mem_In; exact E|].
  apply mem_false in E. apply find_None in E. congruence.
Qed.

Lemma In_find_Some : forall e hs, In e (keys hs) -> exists h, find e hs = Some h.
Proof.
  intros e hs H. destruct (find e hs) as [h|] eqn:E; [exists h; reflexivity|].
  apply find_None in E. contradiction.
Qed.

Lemma replace_keys : forall e h hs, keys (replace e h hs) = keys hs.
Proof.
  intros e h hs. induction hs as [|[e' h'] r IH]; simpl; [reflexivity|].
  destruct (ep_eqb e e'); simpl; [reflexivity|]. f_equal. exact IH.
Qed.

Lemma find_replace_same : forall e h hs, In e (keys hs) -> find e (replace e h hs) = Some h.
Proof.
  intros e h hs. induction hs as [|[e' h'] r IH]; simpl; [intros []|].
  intros H. destruct (ep_eqb e e') eqn:E; simpl; rewrite E; [reflexivity|].
  apply IH. destruct H as [H|H]; [|exact H]. apply ep_eqb_neq in E. exfalso. apply E. symmetry. exact H.
Qed.

Lemma find_replace_other : forall e e' h hs, e <> e' -> find e (replace e' h hs) = find e hs.
Proof.
  intros e e' h hs Hne. induction hs as [|[e2 h2] r IH]; simpl; [reflexivity|].
  destruct (ep_eqb e' e2) eqn:E; simpl.
  - apply ep_eqb_eq in E. subst e2. apply ep_eqb_neq in Hne. rewrite Hne. reflexivity.
  - destruct (ep_eqb e e2); [reflexivity|exact IH].
Qed.

Lemma find_app_other : forall e e' h hs, e <> e' -> find e (hs ++ [(e', h)]) = find e hs.
Proof.
  intros e e' h hs Hne. induction hs as [|[e2 h2] r IH]; simpl.
  - apply ep_eqb_neq in Hne. rewrite Hne. reflexivity.
  - destruct (ep_eqb e e2); [reflexivity|exact IH].
Qed.

Lemma keys_filter : forall (p : endpoint -> bool) hs,
  keys (filter (fun eh : endpoint * host => p (fst eh)) hs) = filter p (keys hs).
Proof.
  intros p hs. induction hs as [|[e h] r IH]; simpl; [reflexivity|].
  destruct (p e); simpl; [f_equal|]; exact IH.
Qed.

Lemma find_filter : forall (p : endpoint -> bool) e hs,
  find e (filter (fun eh : endpoint * host => p (fst eh)) hs) = if p e then find e hs else None.
Proof.
  intros p e hs. induction hs as [|[e' h] r IH]; simpl; [destruct (p e); reflexivity|].
  destruct (p e') eqn:Ep; simpl.
  - destruct (ep_eqb e e') eqn:E.
    + apply ep_eqb_eq in E. subst. rewrite Ep. reflexivity.
    + exact IH.
  - destruct (ep_eqb e e') eqn:E.
    + apply ep_eqb_eq in E. subst. rewrite Ep in IH. rewrite Ep. exact IH.
    + exact IH.
Qed.

(* ------------------------------------------------------------------ projections of the notification list *)
Definition listener_adds (evs : list event) : list endpoint :=
  flat_map (fun x => match x with EListenerAdd e _ _ => [e] | _ => [] end) evs.
Definition policy_adds (evs : list event) : list endpoint :=
  flat_map (fun x => match x with ELbpAdd e _ _ => [e] | _ => [] end) evs.
Definition listener_removes (evs : list event) : list endpoint :=
  flat_map (fun x => match x with EListenerRemove e => [e] | _ => [] end) evs.
Definition policy_removes (evs : list event) : list endpoint :=
  flat_map (fun x => match x with ELbpRemove e => [e] | _ => [] end) evs.

(* all four projections at once: (listener adds, policy adds, listener removes, policy removes) *)
Definition proj4 (evs : list event) := (listener_adds evs, policy_adds evs, listener_removes evs, policy_removes evs).

Lemma proj4_app : forall a b, proj4 (a ++ b) =
  (listener_adds a ++ listener_adds b, policy_adds a ++ policy_adds b,
   listener_removes a ++ listener_removes b, policy_removes a ++ policy_removes b).
Proof.
  intros a b. unfold proj4, listener_adds, policy_adds, listener_removes, policy_removes.
  rewrite !flat_map_app. reflexivity.
Qed.

Lemma update_location_proj : forall e h dc rack, proj4 (fst (update_location e h dc rack)) = ([], [], [], []).
Proof. intros. unfold update_location. destruct (same_location h dc rack); reflexivity. Qed.

(* ------------------------------------------------------------------ apply_rows *)
Definition fresh (hs : hosts) (e : endpoint) : bool := negb (mem e (keys hs)).

Lemma apply_row_keys : forall hs e r,
  keys (fst (fst (apply_row hs (e, r)))) = keys hs ++ (if fresh hs e then [e] else []).
Proof.
  intros hs e r. unfold apply_row, fresh. destruct (find e hs) as [h|] eqn:Ef.
  - apply find_Some_In in Ef. apply mem_In in Ef. rewrite Ef. simpl.
    destruct (update_location e h (r_dc r) (r_rack r)). simpl. rewrite replace_keys, app_nil_r. reflexivity.
  - apply find_None in Ef. apply mem_false in Ef. rewrite Ef. simpl. unfold keys. rewrite map_app. reflexivity.
Qed.

Lemma apply_row_proj : forall hs e r, proj4 (snd (fst (apply_row hs (e, r)))) =
  ((if fresh hs e then [e] else []), (if fresh hs e then [e] else []), [], []).
Proof.
  intros hs e r. unfold apply_row, fresh. destruct (find e hs) as [h|] eqn:Ef.
  - apply find_Some_In in Ef. apply mem_In in Ef. rewrite Ef. simpl.
    pose proof (update_location_proj e h (r_dc r) (r_rack r)) as Hp.
    destruct (update_location e h (r_dc r) (r_rack r)) as [ev ch]. simpl in *. exact Hp.
  - apply find_None in Ef. apply mem_false in Ef. rewrite Ef. reflexivity.
Qed.

Lemma apply_row_flag_fresh : forall hs e r, fresh hs e = true -> snd (apply_row hs (e, r)) = true.
Proof.
  intros hs e r H. unfold fresh in H. apply negb_true_iff in H. apply mem_false in H. apply find_None in H.
  unfold apply_row. rewrite H. reflexivity.
Qed.

Lemma apply_rows_cons : forall hs er rest,
  apply_rows hs (er :: rest) =
  (fst (fst (apply_rows (fst (fst (apply_row hs er))) rest)),
   snd (fst (apply_row hs er)) ++ snd (fst (apply_rows (fst (fst (apply_row hs er))) rest)),
   snd (apply_row hs er) || snd (apply_rows (fst (fst (apply_row hs er))) rest)).
Proof.
  intros hs er rest. simpl. destruct (apply_row hs er) as [[hs1 ev1] b1]. simpl.
  destruct (apply_rows hs1 rest) as [[hs2 ev2] b2]. reflexivity.
Qed.

Lemma fresh_after_row : forall hs e r e', e' <> e -> fresh (fst (fst (apply_row hs (e, r)))) e' = fresh hs e'.
Proof.
  intros hs e r e' Hne. unfold fresh. f_equal. rewrite apply_row_keys.
  destruct (mem e' (keys hs)) eqn:E1.
  - apply mem_In. apply in_or_app. left. apply mem_In. exact E1.
  - apply mem_false. apply mem_false in E1. intro H. apply in_app_or in H. destruct H as [H|H]; [exact (E1 H)|].
    destruct (fresh hs e); [destruct H as [H|[]]; exact (Hne (eq_sym H))|destruct H].
Qed.

(* the hosts after all accepted rows: old keys, then the fresh endpoints in row order *)
Lemma apply_rows_keys : forall ers hs, NoDup (map fst ers) ->
  keys (fst (fst (apply_rows hs ers))) = keys hs ++ filter (fresh hs) (map fst ers).
Proof.
  intros ers. induction ers as [|[e r] rest IH]; intros hs Hnd.
  - simpl. rewrite app_nil_r. reflexivity.
  - rewrite apply_rows_cons. cbn [fst snd]. inversion Hnd as [|x l Hx Hl]; subst.
    assert (Hext : filter (fresh (fst (fst (apply_row hs (e, r))))) (map fst rest) = filter (fresh hs) (map fst rest)).
    { apply filter_ext_in. intros e' Hin. apply fresh_after_row. intro Heq. subst e'. exact (Hx Hin). }
    rewrite IH by exact Hl. rewrite Hext. rewrite apply_row_keys. cbn [map filter fst].
    rewrite <- app_assoc. f_equal. destruct (fresh hs e); reflexivity.
Qed.

Lemma apply_rows_proj : forall ers hs, NoDup (map fst ers) ->
  proj4 (snd (fst (apply_rows hs ers))) = (filter (fresh hs) (map fst ers), filter (fresh hs) (map fst ers), [], []).
Proof.
  intros ers. induction ers as [|[e r] rest IH]; intros hs Hnd.
  - reflexivity.
  - rewrite apply_rows_cons. cbn [fst snd]. inversion Hnd as [|x l Hx Hl]; subst.
    rewrite proj4_app.
    pose proof (apply_row_proj hs e r) as H1. pose proof (IH (fst (fst (apply_row hs (e, r)))) Hl) as H2.
    pose proof (fun e' => fresh_after_row hs e r e') as Hfr.
    remember (apply_row hs (e, r)) as ar eqn:Har. clear Har.
    unfold proj4 in H1. injection H1 as H1a H1b H1c H1d.
    unfold proj4 in H2. injection H2 as H2a H2b H2c H2d.
    assert (Hext : filter (fresh (fst (fst ar))) (map fst rest) = filter (fresh hs) (map fst rest)).
    { apply filter_ext_in. intros e' Hin. apply Hfr. intro Heq. subst e'. exact (Hx Hin). }
    rewrite H1a, H1b, H1c, H1d, H2a, H2b, H2c, H2d. rewrite Hext. cbn [map filter fst]. destruct (fresh hs e); reflexivity.
Qed.

Lemma apply_rows_flag_fresh : forall ers hs e, NoDup (map fst ers) -> In e (map fst ers) -> fresh hs e = true ->
  snd (apply_rows hs ers) = true.
Proof.
  intros ers. induction ers as [|[e0 r] rest IH]; intros hs e Hnd Hin Hf; [destruct Hin|].
  rewrite apply_rows_cons. cbn [fst snd]. inversion Hnd as [|x l Hx Hl]; subst. simpl in Hin. destruct Hin as [Hin|Hin].
  - subst e0. rewrite (apply_row_flag_fresh hs e r Hf). reflexivity.
  - rewrite (IH _ e Hl Hin); [apply orb_true_r|].
    rewrite fresh_after_row; [exact Hf|]. intro Heq. subst e0. exact (Hx Hin).
Qed.

Lemma apply_row_find_other : forall hs e r e', e' <> e -> find e' (fst (fst (apply_row hs (e, r)))) = find e' hs.
Proof.
  intros hs e r e' Hne. unfold apply_row. destruct (find e hs) as [h|].
  - destruct (update_location e h (r_dc r) (r_rack r)). simpl. apply find_replace_other. exact Hne.
  - simpl. apply find_app_other. exact Hne.
Qed.

Lemma apply_rows_find_other : forall ers hs e', ~ In e' (map fst ers) -> find e' (fst (fst (apply_rows hs ers))) = find e' hs.
Proof.
  intros ers. induction ers as [|[e r] rest IH]; intros hs e' Hn; [reflexivity|].
  rewrite apply_rows_cons. cbn [fst snd]. rewrite IH.
  - apply apply_row_find_other. intro H. apply Hn. left. symmetry. exact H.
  - intro H. apply Hn. right. exact H.
Qed.

(* location changes of a host that was already known reach the policy: on_down at the old place, then on_up at the new *)
Definition moved (e : endpoint) (h h' : host) (evs : list event) : Prop :=
  same_location h (h_dc h') (h_rack h') = false ->
  exists a b, evs = a ++ [ELbpDown e (h_dc h) (h_rack h); ELbpUp e (h_dc h') (h_rack h')] ++ b.

Lemma apply_rows_moved : forall ers hs e h h', NoDup (map fst ers) ->
  find e hs = Some h -> find e (fst (fst (apply_rows hs ers))) = Some h' ->
  moved e h h' (snd (fst (apply_rows hs ers))).
Proof.
  intros ers. induction ers as [|[e0 r] rest IH]; intros hs e h h' Hnd Hf Hf'.
  - simpl in Hf'. rewrite Hf in Hf'. injection Hf' as <-. intros Hm. exfalso.
    unfold same_location in Hm. destruct (h_dc h), (h_rack h); simpl in Hm; rewrite ?Z.eqb_refl in Hm; discriminate Hm.
  - rewrite apply_rows_cons in *. cbn [fst snd] in *. inversion Hnd as [|x l Hx Hl]; subst.
    destruct (ep_eqb e e0) eqn:Ee.
    + apply ep_eqb_eq in Ee. subst e0.
      rewrite apply_rows_find_other in Hf' by exact Hx.
      unfold apply_row in *. rewrite Hf in *.
      intros Hm. unfold update_location in *.
      destruct (same_location h (r_dc r) (r_rack r)) eqn:Es; simpl in *.
      * rewrite find_replace_same in Hf' by (apply find_Some_In in Hf; exact Hf). injection Hf' as <-. simpl in Hm. congruence.
      * rewrite find_replace_same in Hf' by (apply find_Some_In in Hf; exact Hf). injection Hf' as <-. simpl.
        exists [], (snd (fst (apply_rows (replace e {| h_dc := r_dc r; h_rack := r_rack r; h_host_id := r_host_id r |} hs) rest))).
        reflexivity.
    + apply ep_eqb_neq in Ee.
      assert (Hf1 : find e (fst (fst (apply_row hs (e0, r)))) = Some h) by (rewrite apply_row_find_other; assumption).
      intros Hm. destruct (IH _ e h h' Hl Hf1 Hf' Hm) as [a [b Hab]].
      exists (snd (fst (apply_row hs (e0, r))) ++ a), b. rewrite Hab. rewrite <- app_assoc. reflexivity.
Qed.

(* ------------------------------------------------------------------ removal *)
Lemma removal_proj : forall c found hs,
  proj4 (removal_events c found hs) =
  ([], [], filter (fun e => negb (keep c found e)) (keys hs), filter (fun e => negb (keep c found e)) (keys hs)).
Proof.
  intros c found hs. induction hs as [|[e h] r IH]; [reflexivity|].
  unfold removal_events in *. simpl flat_map. rewrite proj4_app. unfold proj4 in IH. injection IH as I1 I2 I3 I4.
  rewrite I1, I2, I3, I4. simpl. destruct (keep c found e); reflexivity.
Qed.

Lemma filter_len_le : forall {A} (p : A -> bool) l, (length (filter p l) <= length l)%nat.
Proof. intros A p l. induction l as [|y r IH]; simpl; [lia|]. destruct (p y); simpl; lia. Qed.

Lemma filter_length_lt : forall {A} (p : A -> bool) l x, In x l -> p x = false -> (length (filter p l) < length l)%nat.
Proof.
  intros A p l. induction l as [|y r IH]; intros x Hin Hp; [destruct Hin|]. simpl.
  pose proof (filter_len_le p r) as Hle.
  destruct Hin as [Hin|Hin].
  - subst y. rewrite Hp. lia.
  - specialize (IH x Hin Hp). destruct (p y); simpl; lia.
Qed.

(* ------------------------------------------------------------------ the refresh *)
Definition Inv (c : config) (st : state) : Prop :=
  NoDup (keys (st_hosts st)) /\ In (control c) (keys (st_hosts st)).

Definition acc_keys (c : config) (st : state) (sn : snapshot) : list endpoint := map fst (accepted c st sn).

Lemma local_keys : forall c st sn, keys (lr_hosts (local_part c st sn)) = keys (st_hosts st).
Proof.
  intros c st sn. unfold local_part. destruct (sn_local sn) as [l|]; [|reflexivity].
  destruct (find (control c) (st_hosts st)); [|reflexivity]. simpl. apply replace_keys.
Qed.

Lemma local_found : forall c st sn e, In e (lr_found (local_part c st sn)) -> e = control c.
Proof.
  intros c st sn e. unfold local_part. destruct (sn_local sn) as [l|]; [|intros []].
  destruct (find (control c) (st_hosts st)); simpl; intros [H|[]]; symmetry; exact H.
Qed.

Lemma local_proj : forall c st sn, proj4 (lr_events (local_part c st sn)) = ([], [], [], []).
Proof.
  intros c st sn. unfold local_part. destruct (sn_local sn) as [l|]; [|reflexivity].
  destruct (find (control c) (st_hosts st)); [|reflexivity]. simpl. apply update_location_proj.
Qed.

Lemma fresh_local : forall c st sn e, fresh (lr_hosts (local_part c st sn)) e = negb (mem e (keys (st_hosts st))).
Proof. intros. unfold fresh. rewrite local_keys. reflexivity. Qed.

Lemma acc_NoDup : forall c st sn, NoDup (acc_keys c st sn).
Proof. intros. apply accept_NoDup. Qed.

Lemma acc_keys_spec : forall c st sn e,
  In e (acc_keys c st sn) <-> ~ In e (lr_found (local_part c st sn)) /\ row_for c (sn_peers sn) e.
Proof. intros. apply accept_keys. Qed.

Definition new_keys (c : config) (st : state) (sn : snapshot) : list endpoint :=
  filter (fresh (lr_hosts (local_part c st sn))) (acc_keys c st sn).

Lemma mid_keys : forall c st sn, keys (hosts_mid c st sn) = keys (st_hosts st) ++ new_keys c st sn.
Proof.
  intros c st sn. unfold hosts_mid, peers_part. rewrite apply_rows_keys by apply accept_NoDup.
  rewrite local_keys. reflexivity.
Qed.

Lemma In_new_keys : forall c st sn e, In e (new_keys c st sn) <-> ~ In e (keys (st_hosts st)) /\ In e (acc_keys c st sn).
Proof.
  intros c st sn e. unfold new_keys. rewrite filter_In, fresh_local, negb_true_iff, mem_false. tauto.
Qed.

Lemma keep_true : forall c found e, keep c found e = true <-> e = control c \/ In e found.
Proof. intros c found e. unfold keep. rewrite orb_true_iff, ep_eqb_eq, mem_In. tauto. Qed.

Lemma after_keys : forall c st sn,
  keys (hosts_after c st sn) = filter (keep c (found_all c st sn)) (keys (hosts_mid c st sn)).
Proof. intros. unfold hosts_after. apply keys_filter. Qed.

Lemma In_after : forall c st sn e, In e (keys (hosts_after c st sn)) <->
  (In e (keys (st_hosts st)) \/ In e (new_keys c st sn)) /\
  (e = control c \/ In e (lr_found (local_part c st sn)) \/ In e (acc_keys c st sn)).
Proof.
  intros c st sn e. rewrite after_keys, filter_In, mid_keys, in_app_iff, keep_true.
  unfold found_all. rewrite in_app_iff. fold (acc_keys c st sn). tauto.
Qed.

(* C42_exact *)
Lemma exact_hosts : forall c st sn, In (control c) (keys (st_hosts st)) -> forall e,
  In e (keys (hosts_after c st sn)) <-> e = control c \/ row_for c (sn_peers sn) e.
Proof.
  intros c st sn Hc e. rewrite In_after. split.
  - intros [_ [H|[H|H]]].
    + left. exact H.
    + left. exact (local_found _ _ _ _ H).
    + right. apply acc_keys_spec in H. exact (proj2 H).
  - intros H. destruct (ep_eqb e (control c)) eqn:Ee.
    + apply ep_eqb_eq in Ee. subst e. split; [left; exact Hc|left; reflexivity].
    + apply ep_eqb_neq in Ee. destruct H as [H|H]; [contradiction|].
      assert (Ha : In e (acc_keys c st sn)).
      { apply acc_keys_spec. split; [|exact H]. intro Hf. apply Ee. exact (local_found _ _ _ _ Hf). }
      split; [|right; right; exact Ha].
      destruct (mem e (keys (st_hosts st))) eqn:Em.
      * left. apply mem_In. exact Em.
      * right. apply In_new_keys. split; [apply mem_false; exact Em|exact Ha].
Qed.

Lemma NoDup_app_disjoint : forall {A} (a b : list A), NoDup a -> NoDup b -> (forall x, In x a -> ~ In x b) -> NoDup (a ++ b).
Proof.
  intros A a b Ha Hb Hd. induction Ha as [|x a Hx Ha IH]; simpl; [exact Hb|].
  constructor.
  - intro H. apply in_app_or in H. destruct H as [H|H]; [exact (Hx H)|]. apply (Hd x); [left; reflexivity|exact H].
  - apply IH. intros y Hy. apply Hd. right. exact Hy.
Qed.

Lemma NoDup_filter' : forall {A} (p : A -> bool) l, NoDup l -> NoDup (filter p l).
Proof.
  intros A p l H. induction H as [|x l Hx Hl IH]; simpl; [constructor|].
  destruct (p x); [|exact IH]. constructor; [|exact IH]. intro Hin. apply filter_In in Hin. exact (Hx (proj1 Hin)).
Qed.

Lemma mid_NoDup : forall c st sn, NoDup (keys (st_hosts st)) -> NoDup (keys (hosts_mid c st sn)).
Proof.
  intros c st sn H. rewrite mid_keys. apply NoDup_app_disjoint; [exact H|apply NoDup_filter'; apply acc_NoDup|].
  intros x Hx Hn. apply In_new_keys in Hn. exact (proj1 Hn Hx).
Qed.

Lemma after_NoDup : forall c st sn, NoDup (keys (st_hosts st)) -> NoDup (keys (hosts_after c st sn)).
Proof. intros c st sn H. rewrite after_keys. apply NoDup_filter'. apply mid_NoDup. exact H. Qed.

Lemma refresh_hosts : forall c f st sn, st_hosts (fst (refresh c f st sn)) = hosts_after c st sn.
Proof. intros. unfold refresh. destruct (lr_part (local_part c st sn) && should_rebuild c f st sn); reflexivity. Qed.

Definition rebuilt (c : config) (f : bool) (st : state) (sn : snapshot) : bool :=
  lr_part (local_part c st sn) && should_rebuild c f st sn.

Lemma refresh_events : forall c f st sn, snd (refresh c f st sn) =
  notifications c st sn ++ (if rebuilt c f st sn then [ERebuild (snapshot_tokens c st sn)] else []).
Proof.
  intros. unfold refresh, rebuilt. destruct (lr_part (local_part c st sn) && should_rebuild c f st sn); simpl;
    [reflexivity|rewrite app_nil_r; reflexivity].
Qed.

Lemma refresh_tokens : forall c f st sn, st_tokens (fst (refresh c f st sn)) =
  if rebuilt c f st sn then Some (snapshot_tokens c st sn) else st_tokens st.
Proof. intros. unfold refresh, rebuilt. destruct (lr_part (local_part c st sn) && should_rebuild c f st sn); reflexivity. Qed.

Lemma Inv_refresh : forall c f st sn, Inv c st -> Inv c (fst (refresh c f st sn)).
Proof.
  intros c f st sn [Hn Hc]. unfold Inv. rewrite refresh_hosts. split; [apply after_NoDup; exact Hn|].
  apply exact_hosts; [exact Hc|left; reflexivity].
Qed.

Lemma Inv_final : forall c steps st, Inv c st -> Inv c (final c st steps).
Proof.
  intros c steps. induction steps as [|[f sn] rest IH]; intros st H; simpl; [exact H|].
  apply IH. apply Inv_refresh. exact H.
Qed.

(* ------------------------------------------------------------------ notifications: added once, removed once *)
Definition gone_keys (c : config) (st : state) (sn : snapshot) : list endpoint :=
  filter (fun e => negb (keep c (found_all c st sn) e)) (keys (hosts_mid c st sn)).

Lemma refresh_proj4 : forall c f st sn, proj4 (snd (refresh c f st sn)) =
  (new_keys c st sn, new_keys c st sn, gone_keys c st sn, gone_keys c st sn).
Proof.
  intros c f st sn. rewrite refresh_events. unfold notifications.
  pose proof (local_proj c st sn) as H1. unfold proj4 in H1. injection H1 as H1a H1b H1c H1d.
  pose proof (apply_rows_proj (accepted c st sn) (lr_hosts (local_part c st sn)) (accept_NoDup _ _ _)) as H2.
  unfold proj4 in H2. injection H2 as H2a H2b H2c H2d.
  pose proof (removal_proj c (found_all c st sn) (hosts_mid c st sn)) as H3.
  unfold proj4 in H3. injection H3 as H3a H3b H3c H3d.
  unfold peers_part, proj4. unfold listener_adds, policy_adds, listener_removes, policy_removes in *.
  rewrite !flat_map_app. rewrite H1a, H1b, H1c, H1d, H2a, H2b, H2c, H2d, H3a, H3b, H3c, H3d.
  unfold new_keys, gone_keys, acc_keys, accepted.
  destruct (rebuilt c f st sn); simpl; rewrite ?app_nil_r; reflexivity.
Qed.

Lemma In_new_iff : forall c st sn e, In e (new_keys c st sn) <->
  ~ In e (keys (st_hosts st)) /\ In e (keys (hosts_after c st sn)).
Proof.
  intros c st sn e. rewrite In_after, In_new_keys. split.
  - intros [Hn Ha]. split; [exact Hn|]. split; [right; split; assumption|right; right; exact Ha].
  - intros [Hn [[H|H] _]]; [contradiction|]. exact H.
Qed.

Lemma In_gone_iff : forall c st sn e, In e (gone_keys c st sn) <->
  In e (keys (st_hosts st)) /\ ~ In e (keys (hosts_after c st sn)).
Proof.
  intros c st sn e. unfold gone_keys. rewrite filter_In, negb_true_iff, after_keys, filter_In.
  rewrite mid_keys, in_app_iff. split.
  - intros [Hm Hk]. split.
    + destruct Hm as [Hm|Hm]; [exact Hm|]. exfalso. apply In_new_keys in Hm. destruct Hm as [_ Ha].
      assert (Hk' : keep c (found_all c st sn) e = true).
      { apply keep_true. right. unfold found_all. apply in_or_app. right. exact Ha. }
      congruence.
    + intros [_ Hk']. congruence.
  - intros [Ho Hn]. split; [left; exact Ho|].
    destruct (keep c (found_all c st sn) e) eqn:Ek; [|reflexivity]. exfalso. apply Hn. split; [left; exact Ho|reflexivity].
Qed.

Lemma new_NoDup : forall c st sn, NoDup (new_keys c st sn).
Proof. intros. apply NoDup_filter'. apply acc_NoDup. Qed.

Lemma gone_NoDup : forall c st sn, NoDup (keys (st_hosts st)) -> NoDup (gone_keys c st sn).
Proof. intros c st sn H. apply NoDup_filter'. apply mid_NoDup. exact H. Qed.

(* ------------------------------------------------------------------ location changes *)
Lemma find_after : forall c st sn e h, find e (hosts_after c st sn) = Some h -> find e (hosts_mid c st sn) = Some h.
Proof.
  intros c st sn e h H. unfold hosts_after in H.
  rewrite (find_filter (keep c (found_all c st sn)) e (hosts_mid c st sn)) in H.
  destruct (keep c (found_all c st sn) e); [exact H|discriminate H].
Qed.

Lemma same_location_refl : forall h, same_location h (h_dc h) (h_rack h) = true.
Proof.
  intros h. unfold same_location. destruct (h_dc h), (h_rack h); simpl; rewrite ?Z.eqb_refl; reflexivity.
Qed.

Lemma location_reaches_policy : forall c f st sn e h h',
  find e (st_hosts st) = Some h -> find e (st_hosts (fst (refresh c f st sn))) = Some h' ->
  moved e h h' (snd (refresh c f st sn)).
Proof.
  intros c f st sn e h h' Hf Hf'. rewrite refresh_hosts in Hf'. apply find_after in Hf'.
  rewrite refresh_events. unfold notifications. unfold hosts_mid, peers_part in Hf'.
  intros Hm.
  assert (Hcase : (exists l h0, sn_local sn = Some l /\ e = control c /\ find (control c) (st_hosts st) = Some h0) \/
                  (find e (lr_hosts (local_part c st sn)) = Some h)).
  { unfold local_part. destruct (sn_local sn) as [l|]; [|right; exact Hf].
    destruct (find (control c) (st_hosts st)) as [h0|] eqn:Ec; [|right; exact Hf].
    destruct (ep_eqb e (control c)) eqn:Ee.
    - apply ep_eqb_eq in Ee. left. exists l, h0. repeat split; assumption.
    - apply ep_eqb_neq in Ee. right. simpl. rewrite find_replace_other by exact Ee. exact Hf. }
  destruct Hcase as [[l [h0 [Hl [He Hc]]]]|Hlp].
  - subst e. rewrite Hc in Hf. injection Hf as ->.
    assert (Hnot : ~ In (control c) (map fst (accepted c st sn))).
    { intro H. apply accept_keys in H. apply (proj1 H). unfold local_part. rewrite Hl, Hc. left. reflexivity. }
    rewrite apply_rows_find_other in Hf' by exact Hnot.
    unfold local_part in Hf'. rewrite Hl, Hc in Hf'. simpl in Hf'.
    rewrite find_replace_same in Hf' by (apply find_Some_In in Hc; exact Hc). injection Hf' as <-. simpl in Hm.
    unfold local_part. rewrite Hl, Hc. simpl. unfold update_location. rewrite Hm. simpl.
    eexists [], _. reflexivity.
  - destruct (apply_rows_moved (accepted c st sn) _ e h h' (accept_NoDup _ _ _) Hlp Hf' Hm) as [a [b Hab]].
    unfold peers_part. rewrite Hab.
    exists (lr_events (local_part c st sn) ++ a). eexists. rewrite <- !app_assoc. reflexivity.
Qed.

(* ------------------------------------------------------------------ token map *)
Lemma removed_iff : forall c st sn, some_removed c st sn = true <-> exists e, In e (gone_keys c st sn).
Proof.
  intros c st sn. unfold some_removed. rewrite negb_true_iff, Nat.eqb_neq. split.
  - intros Hne. destruct (gone_keys c st sn) as [|e r] eqn:Eg; [|exists e; left; reflexivity]. exfalso. apply Hne.
    unfold hosts_after.
    assert (Hall : forall eh, In eh (hosts_mid c st sn) -> keep c (found_all c st sn) (fst eh) = true).
    { intros [e h] Hin. simpl. destruct (keep c (found_all c st sn) e) eqn:Ek; [reflexivity|]. exfalso.
      assert (Hg : In e (gone_keys c st sn)).
      { unfold gone_keys. apply filter_In. split; [apply in_map_iff; exists (e, h); split; [reflexivity|exact Hin]|]. rewrite Ek. reflexivity. }
      rewrite Eg in Hg. destruct Hg. }
    clear Eg Hne. induction (hosts_mid c st sn) as [|x l IH]; [reflexivity|]. simpl.
    rewrite (Hall x (or_introl eq_refl)). simpl. f_equal. apply IH. intros eh Hin. apply Hall. right. exact Hin.
  - intros [e Hg]. unfold gone_keys in Hg. apply filter_In in Hg. destruct Hg as [Hin Hk]. apply negb_true_iff in Hk.
    apply in_map_iff in Hin. destruct Hin as [[e' h] [He Hin]]. simpl in He. subst e'.
    pose proof (filter_length_lt (fun eh : endpoint * host => keep c (found_all c st sn) (fst eh)) (hosts_mid c st sn) (e, h) Hin Hk) as Hlt.
    unfold hosts_after. lia.
Qed.

(* membership changed (a host appeared or vanished) and the local row names a partitioner -> the token map is rebuilt
   from what the snapshot says *)
Lemma membership_change_rebuilds : forall c f st sn e,
  lr_part (local_part c st sn) = true ->
  (In e (keys (st_hosts st)) /\ ~ In e (keys (hosts_after c st sn))) \/
  (~ In e (keys (st_hosts st)) /\ In e (keys (hosts_after c st sn))) ->
  rebuilt c f st sn = true.
Proof.
  intros c f st sn e Hp H. unfold rebuilt, should_rebuild. rewrite Hp. simpl. destruct H as [H|H].
  - assert (Hr : some_removed c st sn = true) by (apply removed_iff; exists e; apply In_gone_iff; exact H).
    rewrite Hr. rewrite !orb_true_r. reflexivity.
  - apply In_new_iff in H. apply In_new_keys in H. destruct H as [Hn Ha].
    assert (Hb : snd (peers_part c st sn) = true).
    { unfold peers_part. apply (apply_rows_flag_fresh _ _ e (accept_NoDup _ _ _) Ha).
      rewrite fresh_local. apply negb_true_iff. apply mem_false. exact Hn. }
    rewrite Hb. rewrite orb_true_r. reflexivity.
Qed.

(* what makes the peers loop ask for a rebuild: a new host, or a known peer whose datacenter / rack changed *)
Definition row_triggers (hs : hosts) (er : endpoint * row) : Prop :=
  find (fst er) hs = None \/
  exists h, find (fst er) hs = Some h /\ same_location h (r_dc (snd er)) (r_rack (snd er)) = false.

Lemma apply_row_flag_iff : forall hs e r, snd (apply_row hs (e, r)) = true <-> row_triggers hs (e, r).
Proof.
  intros hs e r. unfold apply_row, row_triggers. simpl. destruct (find e hs) as [h|].
  - unfold update_location. destruct (same_location h (r_dc r) (r_rack r)) eqn:Es; simpl.
    + split; [discriminate|]. intros [H|[h0 [H1 H2]]]; [discriminate H|]. injection H1 as <-. congruence.
    + split; [|reflexivity]. intros _. right. exists h. split; [reflexivity|exact Es].
  - split; [intros _; left; reflexivity|reflexivity].
Qed.

Lemma apply_rows_flag_iff : forall ers hs, NoDup (map fst ers) ->
  (snd (apply_rows hs ers) = true <-> exists er, In er ers /\ row_triggers hs er).
Proof.
  intros ers. induction ers as [|[e0 r0] rest IH]; intros hs Hnd.
  - simpl. split; [discriminate|]. intros [er [[] _]].
  - rewrite apply_rows_cons. cbn [fst snd]. inversion Hnd as [|x l Hx Hl]; subst.
    rewrite orb_true_iff, apply_row_flag_iff, (IH _ Hl).
    assert (Hsame : forall er, In er rest -> (row_triggers (fst (fst (apply_row hs (e0, r0)))) er <-> row_triggers hs er)).
    { intros [e r] Hin. unfold row_triggers. cbn [fst snd].
      assert (Hne : e <> e0). { intro Heq. subst e. apply Hx. apply in_map_iff. exists (e0, r). split; [reflexivity|exact Hin]. }
      rewrite (apply_row_find_other hs e0 r0 e Hne). tauto. }
    split.
    + intros [H|[er [Hin Ht]]]; [exists (e0, r0); split; [left; reflexivity|exact H]|].
      exists er. split; [right; exact Hin|apply Hsame; assumption].
    + intros [er [[Heq|Hin] Ht]]; [subst er; left; exact Ht|]. right. exists er. split; [exact Hin|apply Hsame; assumption].
Qed.

Lemma rebuilt_iff : forall c f st sn, rebuilt c f st sn = true <->
  lr_part (local_part c st sn) = true /\
  (f = true \/ st_partitioner st = false \/
   (exists er, In er (accepted c st sn) /\ row_triggers (lr_hosts (local_part c st sn)) er) \/
   (exists e, In e (keys (st_hosts st)) /\ ~ In e (keys (hosts_after c st sn)))).
Proof.
  intros c f st sn. unfold rebuilt, should_rebuild. rewrite andb_true_iff, !orb_true_iff, negb_true_iff.
  unfold peers_part. rewrite (apply_rows_flag_iff (accepted c st sn) (lr_hosts (local_part c st sn)) (accept_NoDup _ _ _)), removed_iff.
  split; intros [Hp H]; (split; [exact Hp|]).
  - destruct H as [[[H|H]|H]|[e H]]; [left; exact H|right; left; exact H|right; right; left; exact H|].
    right; right; right. exists e. apply In_gone_iff. exact H.
  - destruct H as [H|[H|[H|[e H]]]]; [left; left; left; exact H|left; left; right; exact H|left; right; exact H|].
    right. exists e. apply In_gone_iff. exact H.
Qed.

(* the token map mirrors the snapshot after the refresh, unless ONLY tokens changed *)
Lemma tokens_mirror_partial : forall c f st sn, lr_part (local_part c st sn) = true ->
  st_tokens st = Some (snapshot_tokens c st sn) \/ f = true \/ st_partitioner st = false \/
  (exists e, (In e (keys (st_hosts st)) /\ ~ In e (keys (hosts_after c st sn))) \/
             (~ In e (keys (st_hosts st)) /\ In e (keys (hosts_after c st sn)))) ->
  st_tokens (fst (refresh c f st sn)) = Some (snapshot_tokens c st sn).
Proof.
  intros c f st sn Hp H. rewrite refresh_tokens. destruct (rebuilt c f st sn) eqn:Er; [reflexivity|].
  destruct H as [H|[H|[H|[e H]]]]; [exact H| | |].
  - exfalso. unfold rebuilt, should_rebuild in Er. rewrite Hp, H in Er. discriminate Er.
  - exfalso. unfold rebuilt, should_rebuild in Er. rewrite Hp, H in Er. simpl in Er. rewrite orb_true_r in Er. discriminate Er.
  - exfalso. rewrite (membership_change_rebuilds c f st sn e Hp H) in Er. discriminate Er.
Qed.

Lemma valid_spec : forall c r, valid c r = true <->
  rpc_address r <> None /\ r_host_id r <> None /\ r_dc r <> None /\ r_rack r <> None /\
  (token_meta c = true -> exists t ts, r_tokens r = Some (t :: ts)).
Proof.
  intros c r. unfold valid. rewrite !andb_true_iff, orb_true_iff, negb_true_iff. unfold is_some, nonempty.
  destruct (rpc_address r), (r_host_id r), (r_dc r), (r_rack r), (token_meta c), (r_tokens r) as [[|t ts]|];
    split; intros H; repeat split; try congruence; try tauto;
    try (intros _; eexists; eexists; reflexivity);
    try (destruct H as [[[[? ?] ?] ?] [?|?]]; congruence);
    try (destruct H as [? [? [? [? H]]]]; try congruence; destruct (H eq_refl) as [? [? ?]]; congruence);
    try (right; reflexivity); try (left; reflexivity).
Qed.

(* ================================================================== live control connection: nested refreshes *)
Definition st0 : state := Build_state [] false None.
Definition Kof (c : config) (sn : snapshot) : endpoint -> bool := keep c (found_all c st0 sn).
Definition Aof (c : config) (sn : snapshot) : list endpoint := acc_keys c st0 sn.
Definition nofuel (evs : list event) : Prop :=
  forallb (fun x => match x with EOutOfFuel => false | _ => true end) evs = true.

Lemma lr_found_indep : forall c st st' sn, lr_found (local_part c st sn) = lr_found (local_part c st' sn).
Proof.
  intros c st st' sn. unfold local_part. destruct (sn_local sn); [|reflexivity].
  destruct (find (control c) (st_hosts st)), (find (control c) (st_hosts st')); reflexivity.
Qed.

Lemma accepted_indep : forall c st st' sn, accepted c st sn = accepted c st' sn.
Proof. intros. unfold accepted. rewrite (lr_found_indep c st st' sn). reflexivity. Qed.

Lemma K_indep : forall c st sn, keep c (found_all c st sn) = Kof c sn.
Proof.
  intros c st sn. unfold Kof, found_all. rewrite (lr_found_indep c st st0 sn), (accepted_indep c st st0 sn). reflexivity.
Qed.

Lemma A_indep : forall c st sn, acc_keys c st sn = Aof c sn.
Proof. intros. unfold Aof, acc_keys. rewrite (accepted_indep c st st0 sn). reflexivity. Qed.

Lemma A_kept : forall c sn e, In e (Aof c sn) -> Kof c sn e = true.
Proof.
  intros c sn e H. unfold Kof. apply keep_true. right. unfold found_all. apply in_or_app. right. exact H.
Qed.

Lemma filter_false_nil : forall {A} (p : A -> bool) l, (forall x, In x l -> p x = false) -> filter p l = [].
Proof.
  intros A p l H. induction l as [|x r IH]; [reflexivity|]. simpl. rewrite (H x (or_introl eq_refl)).
  apply IH. intros y Hy. apply H. right. exact Hy.
Qed.

Lemma filter_true_id : forall {A} (p : A -> bool) l, (forall x, In x l -> p x = true) -> filter p l = l.
Proof.
  intros A p l H. induction l as [|x r IH]; [reflexivity|]. simpl. rewrite (H x (or_introl eq_refl)). f_equal.
  apply IH. intros y Hy. apply H. right. exact Hy.
Qed.

(* a state that already holds every accepted endpoint gains no host from the peers loop *)
Lemma mid_keys_closed : forall c st sn, (forall e, In e (Aof c sn) -> In e (keys (st_hosts st))) ->
  keys (hosts_mid c st sn) = keys (st_hosts st).
Proof.
  intros c st sn H. rewrite mid_keys. unfold new_keys. rewrite filter_false_nil; [apply app_nil_r|].
  intros e He. rewrite fresh_local. apply negb_false_iff. apply mem_In. apply H. rewrite <- (A_indep c st sn). exact He.
Qed.

Lemma remove_host_keys : forall e hs, keys (remove_host e hs) = filter (fun x => negb (ep_eqb x e)) (keys hs).
Proof. intros e hs. unfold remove_host. apply (keys_filter (fun x => negb (ep_eqb x e))). Qed.

Lemma In_remove_host : forall e hs x, In x (keys (remove_host e hs)) <-> In x (keys hs) /\ x <> e.
Proof.
  intros e hs x. rewrite remove_host_keys, filter_In, negb_true_iff, ep_eqb_neq. tauto.
Qed.

Lemma nofuel_app : forall a b, nofuel (a ++ b) <-> nofuel a /\ nofuel b.
Proof. intros a b. unfold nofuel. rewrite forallb_app, andb_true_iff. tauto. Qed.

Lemma nofuel_local : forall c st sn, nofuel (lr_events (local_part c st sn)).
Proof.
  intros c st sn. unfold local_part. destruct (sn_local sn); [|reflexivity].
  destruct (find (control c) (st_hosts st)); [|reflexivity]. simpl. unfold update_location.
  destruct (same_location _ _ _); reflexivity.
Qed.

Lemma nofuel_apply_rows : forall ers hs, nofuel (snd (fst (apply_rows hs ers))).
Proof.
  intros ers. induction ers as [|[e r] rest IH]; intros hs; [reflexivity|].
  rewrite apply_rows_cons. cbn [fst snd]. apply nofuel_app. split; [|apply IH].
  unfold apply_row. destruct (find e hs) as [h|]; [|reflexivity].
  unfold update_location. destruct (same_location h (r_dc r) (r_rack r)); reflexivity.
Qed.

Definition R (evs : list event) : list endpoint := listener_removes evs.

Lemma R_app : forall a b, R (a ++ b) = R a ++ R b.
Proof. intros. unfold R, listener_removes. apply flat_map_app. Qed.

Lemma R_local : forall c st sn, R (lr_events (local_part c st sn)) = [].
Proof. intros. pose proof (local_proj c st sn) as H. unfold proj4 in H. injection H as _ _ H _. exact H. Qed.

Lemma R_peers : forall c st sn, R (snd (fst (peers_part c st sn))) = [].
Proof.
  intros. unfold peers_part.
  pose proof (apply_rows_proj (accepted c st sn) (lr_hosts (local_part c st sn)) (accept_NoDup _ _ _)) as H.
  unfold proj4 in H. injection H as _ _ H _. exact H.
Qed.

(* what one (nested or outer) refresh guarantees, as used by the loop *)
Definition good (c : config) (sn : snapshot) (H : list endpoint) (r : state * list event) : Prop :=
  keys (st_hosts (fst r)) = filter (Kof c sn) H /\ NoDup (R (snd r)) /\
  (forall e, In e (R (snd r)) <-> In e H /\ Kof c sn e = false) /\ nofuel (snd r).

Lemma loop_spec : forall c sn (rec : state -> state * list event) n,
  (forall st, NoDup (keys (st_hosts st)) -> (forall e, In e (Aof c sn) -> In e (keys (st_hosts st))) ->
              (length (st_hosts st) < n)%nat -> good c sn (keys (st_hosts st)) (rec st)) ->
  forall l s, NoDup (keys (st_hosts s)) -> (forall e, In e (Aof c sn) -> In e (keys (st_hosts s))) ->
    (forall e, In e (keys (st_hosts s)) -> Kof c sn e = false -> In e l) -> (length (st_hosts s) <= n)%nat ->
    good c sn (keys (st_hosts s)) (fst (remove_loop rec (Kof c sn) l s)).
Proof.
  intros c sn rec n Hrec l. induction l as [|e l IH]; intros s Hnd Hacc Hpend Hlen.
  - simpl. unfold good. simpl. split; [|split; [|split]].
    + symmetry. apply filter_true_id. intros x Hx. destruct (Kof c sn x) eqn:Ek; [reflexivity|]. destruct (Hpend x Hx Ek).
    + constructor.
    + intros e. split; [intros []|]. intros [Hx Hk]. exact (Hpend e Hx Hk).
    + reflexivity.
  - simpl. destruct (Kof c sn e) eqn:Ek.
    + apply IH; try assumption. intros x Hx Hk. destruct (Hpend x Hx Hk) as [Heq|Hin]; [subst x; congruence|exact Hin].
    + destruct (mem e (map fst (st_hosts s))) eqn:Em.
      * apply mem_In in Em. fold (keys (st_hosts s)) in Em.
        set (s1 := with_hosts s (remove_host e (st_hosts s))).
        assert (Hnd1 : NoDup (keys (st_hosts s1))).
        { simpl. rewrite remove_host_keys. apply NoDup_filter'. exact Hnd. }
        assert (Hacc1 : forall x, In x (Aof c sn) -> In x (keys (st_hosts s1))).
        { intros x Hx. simpl. apply In_remove_host. split; [apply Hacc; exact Hx|]. intro Heq. subst x.
          rewrite (A_kept c sn e Hx) in Ek. discriminate Ek. }
        assert (Hlen1 : (length (st_hosts s1) < n)%nat).
        { simpl. unfold remove_host.
          destruct (proj1 (in_map_iff fst (st_hosts s) e) Em) as [[e' h] [He Hin]]. simpl in He. subst e'.
          pose proof (filter_length_lt (fun eh : endpoint * host => negb (ep_eqb (fst eh) e)) (st_hosts s) (e, h) Hin) as Hlt.
          simpl in Hlt. rewrite ep_eqb_refl in Hlt. specialize (Hlt eq_refl). lia. }
        destruct (Hrec s1 Hnd1 Hacc1 Hlen1) as [G1 [G2 [G3 G4]]].
        destruct (rec s1) as [s2 ev2] eqn:Er. cbn [fst snd] in G1, G2, G3, G4.
        assert (Hk1 : filter (Kof c sn) (keys (st_hosts s1)) = filter (Kof c sn) (keys (st_hosts s))).
        { simpl. rewrite remove_host_keys. clear -Ek. induction (keys (st_hosts s)) as [|x r IHr]; [reflexivity|]. simpl.
          destruct (ep_eqb x e) eqn:Ex; simpl.
          - apply ep_eqb_eq in Ex. subst x. rewrite Ek. exact IHr.
          - destruct (Kof c sn x); [f_equal|]; exact IHr. }
        assert (Hnd2 : NoDup (keys (st_hosts s2))) by (rewrite G1; apply NoDup_filter'; exact Hnd1).
        assert (Hacc2 : forall x, In x (Aof c sn) -> In x (keys (st_hosts s2))).
        { intros x Hx. rewrite G1. apply filter_In. split; [apply Hacc1; exact Hx|apply A_kept; exact Hx]. }
        assert (Hpend2 : forall x, In x (keys (st_hosts s2)) -> Kof c sn x = false -> In x l).
        { intros x Hx Hk. rewrite G1 in Hx. apply filter_In in Hx. destruct Hx as [_ Hx]. congruence. }
        assert (Hlen2 : (length (st_hosts s2) <= n)%nat).
        { assert (Hl : length (keys (st_hosts s2)) = length (st_hosts s2)) by apply map_length.
          rewrite <- Hl, G1. pose proof (filter_len_le (Kof c sn) (keys (st_hosts s1))) as Hle.
          assert (Hl1 : length (keys (st_hosts s1)) = length (st_hosts s1)) by apply map_length. lia. }
        destruct (IH s2 Hnd2 Hacc2 Hpend2 Hlen2) as [F1 [F2 [F3 F4]]].
        destruct (remove_loop rec (Kof c sn) l s2) as [[s3 ev3] b3]. cbn [fst snd] in *.
        assert (HR3 : R ev3 = []).
        { destruct (R ev3) as [|x r] eqn:E3; [reflexivity|]. exfalso.
          destruct (proj1 (F3 x) (or_introl eq_refl)) as [Hx Hk]. rewrite G1 in Hx. apply filter_In in Hx. destruct Hx as [_ Hx]. congruence. }
        assert (HRall : R (ELbpRemove e :: EListenerRemove e :: ev2 ++ ev3) = e :: R ev2).
        { change (R ([ELbpRemove e; EListenerRemove e] ++ ev2 ++ ev3) = e :: R ev2). rewrite !R_app, HR3, app_nil_r. reflexivity. }
        unfold good. cbn [fst snd]. split; [|split; [|split]].
        -- rewrite F1, G1. rewrite Hk1.
           clear. induction (keys (st_hosts s)) as [|x r IHr]; [reflexivity|]. simpl.
           destruct (Kof c sn x) eqn:Ex; simpl; [rewrite Ex; f_equal|]; exact IHr.
        -- rewrite HRall. constructor; [|exact G2]. intro Hin. apply G3 in Hin. destruct Hin as [Hin _]. simpl in Hin.
           apply In_remove_host in Hin. destruct Hin as [_ Hne]. apply Hne. reflexivity.
        -- intros x. rewrite HRall. simpl. split.
           ++ intros [Heq|Hin]; [subst x; split; [exact Em|exact Ek]|].
              apply G3 in Hin. destruct Hin as [Hin Hk]. simpl in Hin. apply In_remove_host in Hin. split; [exact (proj1 Hin)|exact Hk].
           ++ intros [Hx Hk]. destruct (ep_eqb x e) eqn:Ee.
              ** apply ep_eqb_eq in Ee. left. symmetry. exact Ee.
              ** apply ep_eqb_neq in Ee. right. apply G3. split; [|exact Hk]. simpl. apply In_remove_host. split; assumption.
        -- change (nofuel ([ELbpRemove e; EListenerRemove e] ++ ev2 ++ ev3)). apply nofuel_app. split; [reflexivity|]. apply nofuel_app. split; assumption.
      * apply mem_false in Em. fold (keys (st_hosts s)) in Em.
        assert (Hpend' : forall x, In x (keys (st_hosts s)) -> Kof c sn x = false -> In x l).
        { intros x Hx Hk. destruct (Hpend x Hx Hk) as [Heq|Hin]; [subst x; contradiction|exact Hin]. }
        specialize (IH s Hnd Hacc Hpend' Hlen).
        destruct (remove_loop rec (Kof c sn) l s) as [[s3 ev3] b3]. exact IH.
Qed.

Lemma refresh_live_S : forall n c force st sn, refresh_live (S n) c force st sn =
  let mid := hosts_mid c st sn in
  let '(s2, ev2, removed) :=
    remove_loop (fun s => refresh_live n c true s sn) (keep c (found_all c st sn)) (map fst mid) (with_hosts st mid) in
  let evs := lr_events (local_part c st sn) ++ snd (fst (peers_part c st sn)) ++ ev2 in
  let rebuild := force || negb (st_partitioner st) || snd (peers_part c st sn) || removed in
  if lr_part (local_part c st sn) && rebuild then
    ({| st_hosts := st_hosts s2; st_partitioner := true; st_tokens := Some (snapshot_tokens c st sn) |},
     evs ++ [ERebuild (snapshot_tokens c st sn)])
  else (s2, evs).
Proof. reflexivity. Qed.

Lemma live_spec : forall c sn n f st, NoDup (keys (st_hosts st)) -> (length (hosts_mid c st sn) < n)%nat ->
  good c sn (keys (hosts_mid c st sn)) (refresh_live n c f st sn).
Proof.
  intros c sn n. induction n as [|n IH]; intros f st Hnd Hlen; [lia|].
  rewrite refresh_live_S. cbv zeta. rewrite K_indep.
  assert (Hrec : forall st', NoDup (keys (st_hosts st')) -> (forall e, In e (Aof c sn) -> In e (keys (st_hosts st'))) ->
                 (length (st_hosts st') < n)%nat -> good c sn (keys (st_hosts st')) (refresh_live n c true st' sn)).
  { intros st' Hnd' Hacc' Hlen'. rewrite <- (mid_keys_closed c st' sn Hacc'). apply IH; [exact Hnd'|].
    assert (Hl : length (keys (hosts_mid c st' sn)) = length (hosts_mid c st' sn)) by apply map_length.
    rewrite <- Hl, (mid_keys_closed c st' sn Hacc'). unfold keys. rewrite map_length. exact Hlen'. }
  assert (Hacc : forall e, In e (Aof c sn) -> In e (keys (hosts_mid c st sn))).
  { intros e He. rewrite mid_keys. rewrite <- (A_indep c st sn) in He.
    destruct (mem e (keys (st_hosts st))) eqn:Em.
    - apply in_or_app. left. apply mem_In. exact Em.
    - apply in_or_app. right. apply In_new_keys. split; [apply mem_false; exact Em|exact He]. }
  pose proof (loop_spec c sn (fun s => refresh_live n c true s sn) n Hrec (map fst (hosts_mid c st sn))
                (with_hosts st (hosts_mid c st sn)) (mid_NoDup c st sn Hnd) Hacc (fun e He _ => He)) as Hloop.
  assert (Hle : (length (st_hosts (with_hosts st (hosts_mid c st sn))) <= n)%nat) by (simpl; lia).
  specialize (Hloop Hle). simpl st_hosts in Hloop.
  destruct (remove_loop (fun s => refresh_live n c true s sn) (Kof c sn) (map fst (hosts_mid c st sn))
              (with_hosts st (hosts_mid c st sn))) as [[s2 ev2] removed].
  destruct Hloop as [G1 [G2 [G3 G4]]]. cbn [fst snd] in G1, G2, G3, G4.
  assert (HR : forall tail, R tail = [] -> R (lr_events (local_part c st sn) ++ snd (fst (peers_part c st sn)) ++ ev2 ++ tail) = R ev2).
  { intros tail Ht. rewrite !R_app, R_local, R_peers, Ht, app_nil_r. reflexivity. }
  assert (HF : forall tail, nofuel tail -> nofuel (lr_events (local_part c st sn) ++ snd (fst (peers_part c st sn)) ++ ev2 ++ tail)).
  { intros tail Ht. apply nofuel_app. split; [apply nofuel_local|]. apply nofuel_app. split; [apply nofuel_apply_rows|].
    apply nofuel_app. split; assumption. }
  destruct (lr_part (local_part c st sn) && (f || negb (st_partitioner st) || snd (peers_part c st sn) || removed)).
  - unfold good. cbn [fst snd st_hosts]. rewrite <- !app_assoc.
    rewrite (HR [ERebuild (snapshot_tokens c st sn)] eq_refl).
    split; [exact G1|]. split; [exact G2|]. split; [exact G3|]. apply HF. reflexivity.
  - unfold good. cbn [fst snd].
    assert (E : lr_events (local_part c st sn) ++ snd (fst (peers_part c st sn)) ++ ev2 =
                lr_events (local_part c st sn) ++ snd (fst (peers_part c st sn)) ++ ev2 ++ []) by (rewrite app_nil_r; reflexivity).
    rewrite E, (HR [] eq_refl). split; [exact G1|]. split; [exact G2|]. split; [exact G3|]. apply HF. reflexivity.
Qed.

(* listeners and policies are told about the same removals, in the same order *)
Lemma loop_removes_same : forall (rec : state -> state * list event) K,
  (forall s, policy_removes (snd (rec s)) = listener_removes (snd (rec s))) ->
  forall l s, policy_removes (snd (fst (remove_loop rec K l s))) = listener_removes (snd (fst (remove_loop rec K l s))).
Proof.
  intros rec K Hrec l. induction l as [|e l IH]; intros s; [reflexivity|]. simpl.
  destruct (K e); [apply IH|]. destruct (mem e (map fst (st_hosts s))).
  - pose proof (Hrec (with_hosts s (remove_host e (st_hosts s)))) as H1.
    destruct (rec (with_hosts s (remove_host e (st_hosts s)))) as [s2 ev2]. pose proof (IH s2) as H2.
    destruct (remove_loop rec K l s2) as [[s3 ev3] b3]. cbn [fst snd] in *.
    change (policy_removes ([ELbpRemove e; EListenerRemove e] ++ ev2 ++ ev3) = listener_removes ([ELbpRemove e; EListenerRemove e] ++ ev2 ++ ev3)).
    unfold policy_removes, listener_removes in *. rewrite !flat_map_app, H1, H2. reflexivity.
  - pose proof (IH s) as H2. destruct (remove_loop rec K l s) as [[s3 ev3] b3]. exact H2.
Qed.

Lemma live_removes_same : forall n c f st sn,
  policy_removes (snd (refresh_live n c f st sn)) = listener_removes (snd (refresh_live n c f st sn)).
Proof.
  intros n. induction n as [|n IH]; intros c f st sn; [reflexivity|].
  rewrite refresh_live_S. cbv zeta.
  pose proof (loop_removes_same (fun s => refresh_live n c true s sn) (keep c (found_all c st sn))
                (fun s => IH c true s sn) (map fst (hosts_mid c st sn)) (with_hosts st (hosts_mid c st sn))) as HL.
  destruct (remove_loop (fun s => refresh_live n c true s sn) (keep c (found_all c st sn)) (map fst (hosts_mid c st sn))
              (with_hosts st (hosts_mid c st sn))) as [[s2 ev2] removed]. cbn [fst snd] in HL.
  pose proof (local_proj c st sn) as H1. unfold proj4 in H1. injection H1 as _ _ H1c H1d.
  pose proof (apply_rows_proj (accepted c st sn) (lr_hosts (local_part c st sn)) (accept_NoDup _ _ _)) as H2.
  unfold proj4 in H2. injection H2 as _ _ H2c H2d. fold (peers_part c st sn) in H2c, H2d.
  destruct (lr_part (local_part c st sn) && (f || negb (st_partitioner st) || snd (peers_part c st sn) || removed)); cbn [snd];
    unfold policy_removes, listener_removes in *; rewrite !flat_map_app, H1c, H1d, H2c, H2d, HL; reflexivity.
Qed.

Lemma live_hosts : forall c f st sn, NoDup (keys (st_hosts st)) ->
  keys (st_hosts (fst (refresh_live (live_fuel c st sn) c f st sn))) = keys (hosts_after c st sn).
Proof.
  intros c f st sn Hnd. destruct (live_spec c sn (live_fuel c st sn) f st Hnd) as [G1 _]; [unfold live_fuel; lia|].
  rewrite G1, after_keys, K_indep. reflexivity.
Qed.

Lemma live_removed_once : forall c f st sn, NoDup (keys (st_hosts st)) ->
  let r := refresh_live (live_fuel c st sn) c f st sn in
  policy_removes (snd r) = listener_removes (snd r) /\ NoDup (listener_removes (snd r)) /\
  (forall e, In e (listener_removes (snd r)) <-> In e (keys (st_hosts st)) /\ ~ In e (keys (st_hosts (fst r)))) /\
  nofuel (snd r).
Proof.
  intros c f st sn Hnd r. subst r. split; [apply live_removes_same|].
  rewrite (live_hosts c f st sn Hnd).
  destruct (live_spec c sn (live_fuel c st sn) f st Hnd) as [_ [G2 [G3 G4]]]; [unfold live_fuel; lia|].
  split; [exact G2|]. split; [|exact G4]. intros e. fold (R (snd (refresh_live (live_fuel c st sn) c f st sn))).
  rewrite G3, <- In_gone_iff. unfold gone_keys. rewrite filter_In, negb_true_iff, K_indep. tauto.
Qed.
