(* C35: the container clause analysis computes a correct diff: applying the emitted operations to the previous cell
   gives the new value.  (apply_* = Cassandra's semantics from CqlSem.v; *_analyze = statements.py, Clauses.v) *)
From Coq Require Import ZArith List Bool Lia Setoid.
From Verif Require Import Clauses CqlSem Mapper.
Import ListNotations.
Local Open Scope Z_scope.

Lemma zlist_eqb_eq : forall a b, zlist_eqb a b = true -> a = b.
Proof.
  induction a as [|x a IH]; destruct b as [|y b]; simpl; intros H; try discriminate; auto.
  apply andb_prop in H. destruct H as [H1 H2]. apply Z.eqb_eq in H1. subst. f_equal. auto.
Qed.

Lemma or_none_not_nil : forall (A : Type) (l : list A), or_none l <> Some [].
Proof. destruct l; simpl; discriminate. Qed.

(* ------------------------------------------------------------------ counters *)
Lemma counter_diff : forall f v prev,
  apply_assigns (clause_assigns (CCounter f v prev)) (VInt (counter_prev prev)) = VInt v.
Proof.
  intros f v prev. unfold clause_assigns, apply_assigns. simpl.
  destruct (v - counter_prev prev <? 0) eqn:E; simpl; f_equal.
  - apply Z.ltb_lt in E. lia.
  - apply Z.ltb_ge in E. lia.
Qed.

(* ------------------------------------------------------------------ lists *)
Lemma skipn_skipn' : forall (A : Type) (n m : nat) (l : list A), skipn n (skipn m l) = skipn (m + n) l.
Proof.
  induction m; intros l; simpl; auto.
  destruct l; simpl; [destruct n; auto | apply IHm].
Qed.

Lemma list_search_sound : forall fuel i vl pl pre app,
  list_search fuel i vl pl = Some (pre, app) ->
  exists i', pre = or_none (firstn i' vl) /\ app = or_none (skipn (i' + length pl) vl) /\
             vl = firstn i' vl ++ pl ++ skipn (i' + length pl) vl.
Proof.
  induction fuel as [|fuel IH]; intros i vl pl pre app H; simpl in H; [discriminate|].
  destruct (window_match pl (firstn (length pl) (skipn i vl))) eqn:E.
  - inversion H; subst. exists i. split; auto. split; auto.
    unfold window_match in E. apply andb_prop in E. destruct E as [_ E].
    apply zlist_eqb_eq in E.
    rewrite <- (firstn_skipn i vl) at 1. f_equal.
    rewrite <- (firstn_skipn (length pl) (skipn i vl)) at 1. rewrite <- E. f_equal.
    rewrite skipn_skipn'. auto.
  - eapply IH; eauto.
Qed.

Lemma oz_eq_refl_hd : forall l, l <> [] -> oz_eq (hd_error l) (hd_error l) = true.
Proof. destruct l; [tauto|]. intros _. simpl. apply Z.eqb_refl. Qed.

(* the two endpoint shortcuts are implied by the full comparison: the window test IS list equality (for a non-empty stored list) *)
Lemma window_match_iff : forall pl sub, pl <> [] -> window_match pl sub = zlist_eqb pl sub.
Proof.
  intros pl sub Hne. unfold window_match. destruct (zlist_eqb pl sub) eqn:E; [|apply andb_false_r].
  apply zlist_eqb_eq in E. subst sub. rewrite oz_eq_refl_hd by auto. rewrite oz_eq_refl_hd; auto.
  intro R. apply Hne. rewrite <- (rev_involutive pl). rewrite R. auto.
Qed.

Lemma norm_cons_list : forall x l, norm (VList (x :: l)) = VList (x :: l).
Proof. reflexivity. Qed.

Lemma norm_app_list : forall a b, norm (VList (a ++ b)) = match a ++ b with [] => VNone | l => VList l end.
Proof. intros. destruct (a ++ b); reflexivity. Qed.

Lemma list_diff : forall f vl prev,
  apply_assigns (clause_assigns (CListUpd f (Some vl) None prev)) (norm (olistv prev)) = norm (VList vl).
Proof.
  intros f vl prev. unfold clause_assigns, apply_assigns. cbn [clause_render clause_ctx].
  unfold list_analyze.
  destruct (opt_zlist_eqb (Some vl) prev) eqn:Eq.
  { destruct prev as [pl|]; simpl in Eq; [|discriminate]. apply zlist_eqb_eq in Eq. subst. reflexivity. }
  destruct prev as [pl|]; [|reflexivity].
  destruct (length vl <? length pl)%nat; [reflexivity|].
  destruct (length pl =? 0)%nat eqn:El; [reflexivity|].
  destruct (list_search (length vl - (length pl - 1)) 0 vl pl) as [[pre app]|] eqn:Es; [|reflexivity].
  apply list_search_sound in Es. destruct Es as (i' & Hpre & Happ & Hvl).
  assert (Hpl : pl <> []) by (destruct pl; [discriminate | discriminate]).
  destruct pl as [|p0 pl']; [tauto|].
  remember (firstn i' vl) as A. remember (skipn (i' + length (p0 :: pl')) vl) as B.
  assert (R : norm (VList vl) = norm (VList (A ++ (p0 :: pl') ++ B))) by (rewrite <- Hvl; auto).
  destruct A as [|a0 A']; destruct B as [|b0 B']; simpl in Hpre, Happ; subst pre app.
  - clear R. simpl in Hvl. rewrite app_nil_r in Hvl. subst vl. reflexivity.
  - rewrite R. reflexivity.
  - rewrite R. simpl. rewrite app_nil_r. reflexivity.
  - rewrite R. simpl. rewrite <- app_assoc. reflexivity.
Qed.

(* ------------------------------------------------------------------ sets (as sets: membership) *)
Lemma zmem_In : forall x l, zmem x l = true <-> In x l.
Proof.
  induction l; simpl; [split; [discriminate | tauto]|].
  rewrite orb_true_iff, IHl, Z.eqb_eq. split; intros [H|H]; auto.
Qed.

Lemma zinsert_u_In : forall x y l, In x (zinsert_u y l) <-> x = y \/ In x l.
Proof.
  induction l as [|z l IH]; simpl; [intuition|].
  destruct (y <? z); simpl; [intuition|].
  destruct (y =? z) eqn:E; simpl.
  - apply Z.eqb_eq in E. subst. intuition.
  - rewrite IH. intuition.
Qed.

Lemma set_union_In : forall x b a, In x (set_union a b) <-> In x a \/ In x b.
Proof.
  unfold set_union. induction b as [|y b IH]; intros a; simpl; [intuition|].
  rewrite zinsert_u_In, IH. intuition.
Qed.

Lemma set_diff_In : forall x a b, In x (set_diff a b) <-> In x a /\ ~ In x b.
Proof.
  intros. unfold set_diff. split.
  - intros H. apply filter_In in H. destruct H as [H1 H2]. split; auto. intro Hb. apply zmem_In in Hb. rewrite Hb in H2. discriminate.
  - intros [H1 H2]. apply filter_In. split; auto. destruct (zmem x b) eqn:E; auto. apply zmem_In in E. tauto.
Qed.

Lemma as_set_norm : forall l x, In x (as_set (norm (VSet l))) <-> In x l.
Proof. destruct l; simpl; tauto. Qed.

Lemma plus_set_In : forall f s old x,
  In x (as_set (apply_assign (APlus f (VSet s)) old)) <-> In x (as_set old) \/ In x s.
Proof. intros. cbn [apply_assign]. rewrite as_set_norm, set_union_In. tauto. Qed.

Definition not_map (v : val) : Prop := match v with VMap _ => False | _ => True end.

Lemma norm_set_not_map : forall l, not_map (norm (VSet l)).
Proof. destruct l; simpl; auto. Qed.

Lemma minus_set_In : forall f s old x, not_map old ->
  In x (as_set (apply_assign (AMinus f (VSet s)) old)) <-> In x (as_set old) /\ ~ In x s.
Proof.
  intros f s old x H. destruct old; try (simpl in H; tauto); cbn [apply_assign]; rewrite as_set_norm, set_diff_In; simpl; tauto.
Qed.

Lemma plus_not_map : forall f s old, not_map (apply_assign (APlus f (VSet s)) old).
Proof. intros. cbn [apply_assign]. apply norm_set_not_map. Qed.

Lemma in_dec_z : forall (x : Z) l, In x l \/ ~ In x l.
Proof. intros. destruct (zmem x l) eqn:E; [left; apply zmem_In; auto | right; rewrite <- zmem_In; rewrite E; discriminate]. Qed.

Lemma set_diff_ok : forall f vl prev x,
  In x (as_set (apply_assigns (clause_assigns (CSetUpd f (Some vl) None prev)) (norm (osetv prev)))) <-> In x vl.
Proof.
  intros f vl prev x.
  destruct (opt_zlist_eqb (Some vl) prev) eqn:Eq.
  { destruct prev as [pl|]; simpl in Eq; [|discriminate]. apply zlist_eqb_eq in Eq. subst pl.
    unfold clause_assigns. cbn [clause_render clause_ctx]. unfold set_analyze. simpl opt_zlist_eqb.
    replace (zlist_eqb vl vl) with true by (clear; induction vl; simpl; auto; rewrite Z.eqb_refl; auto).
    simpl. apply as_set_norm. }
  destruct prev as [pl|].
  2: { unfold clause_assigns. cbn [clause_render clause_ctx]. unfold set_analyze. rewrite Eq. simpl. apply as_set_norm. }
  pose proof (set_diff_In x vl pl) as DA. pose proof (set_diff_In x pl vl) as DB.
  destruct (in_dec_z x vl) as [Hv|Hv]; destruct (in_dec_z x pl) as [Hp|Hp];
  destruct (set_diff vl pl) as [|a A] eqn:EA; destruct (set_diff pl vl) as [|b B] eqn:EB;
  match goal with
  | |- context [clause_assigns ?c] =>
    let L := fresh "L" in
    assert (L : exists l, clause_assigns c = l /\
              l = (match set_diff vl pl with [] => [] | s => [APlus f (VSet s)] end) ++
                  (match set_diff pl vl with [] => [] | s => [AMinus f (VSet s)] end))
      by (eexists; split; [reflexivity|]; unfold clause_assigns; cbn [clause_render clause_ctx]; unfold set_analyze;
          rewrite Eq, EA, EB; reflexivity);
    destruct L as (l & -> & ->)
  end; rewrite EA, EB; unfold apply_assigns; cbn [fold_left app osetv];
  pose proof (@in_nil Z x) as N;
  repeat ((rewrite minus_set_In by (apply plus_not_map || apply norm_set_not_map)) || rewrite plus_set_In || rewrite as_set_norm);
  tauto.
Qed.

(* ------------------------------------------------------------------ value managers *)
Lemma zlist_eqb_refl : forall l, zlist_eqb l l = true.
Proof. induction l; simpl; auto. rewrite Z.eqb_refl. auto. Qed.
Lemma zmap_eqb_refl : forall m, zmap_eqb m m = true.
Proof. induction m as [|[k v] m IH]; simpl; auto. rewrite !Z.eqb_refl. auto. Qed.
Lemma val_eqb_refl : forall v, val_eqb v v = true.
Proof. induction v; simpl; auto using Z.eqb_refl, zlist_eqb_refl, zmap_eqb_refl. Qed.

(* Model._set_persisted takes a SNAPSHOT (value semantics = deepcopy): afterwards no column counts as changed, whatever it holds *)
Lemma persisted_unchanged : forall cols c, In c (set_persisted cols) -> vm_changed c = false.
Proof.
  intros cols c H. unfold set_persisted in H. apply in_map_iff in H. destruct H as (c0 & <- & _).
  assert (R : forall k v e, vm_changed {| c_name := c_name c0; c_kind := k; c_part := c_part c0; c_clust := c_clust c0;
                                         c_static := c_static c0; c_val := v; c_prev := v; c_expl := e |} = false).
  { intros k v e. unfold vm_changed. simpl. rewrite val_eqb_refl. destruct e; auto. destruct (is_container k); auto. rewrite andb_false_r. auto. }
  destruct (vm_changed c0) eqn:E; simpl; [apply R|]. destruct (vm_deleted c0); [apply R | auto].
Qed.

(* DMLQuery.update leaves the clustering key out of WHERE only when EVERY column it assigns is static *)
Lemma update_key_choice : forall cols sets key,
  In (CUpdate sets key) (dml_update cols) ->
  let upd := filter (fun c => negb (c_pkey c) && negb (val_eqb (c_val c) VNone) &&
                              (vm_changed c || match c_kind c with KCounterC => true | _ => false end)) cols in
  key = key_kvs cols (forallb c_static upd) /\
  ((exists c, In c upd /\ c_static c = false) -> key = key_kvs cols false).
Proof.
  intros cols sets key H upd. unfold dml_update in H. fold upd in H. apply in_app_or in H. destruct H as [H|H].
  - destruct (flat_map _ upd) eqn:E; [destruct H|]. destruct H as [H|[]]. inversion H; subst. split; auto.
    intros (c & Hc & Hs). replace (forallb c_static upd) with false; auto.
    symmetry. apply not_true_is_false. intro F. rewrite forallb_forall in F. rewrite (F c Hc) in Hs. discriminate.
  - exfalso. unfold delete_null_columns in H. destruct (existsb _ cols); simpl in H; [destruct H as [H|[]]; discriminate | destruct H].
Qed.

(* ------------------------------------------------------------------ BatchQuery: every statement is sent exactly once *)
Lemma bq_fold : forall ops st,
  concat (snd (fold_left bq_step ops st)) ++ fst (fold_left bq_step ops st) = concat (snd st) ++ fst st ++ bq_added ops.
Proof.
  induction ops as [|o ops IH]; intros [q sent]; simpl.
  - rewrite app_nil_r. auto.
  - rewrite IH. destruct o as [s|]; simpl.
    + rewrite <- app_assoc. auto.
    + destruct q; simpl; auto. rewrite concat_app. simpl. rewrite app_nil_r. rewrite <- app_assoc. auto.
Qed.

Lemma bq_once : forall ops, concat (snd (bq_run ops)) ++ fst (bq_run ops) = bq_added ops.
Proof. intros. unfold bq_run. rewrite bq_fold. reflexivity. Qed.
