(* Lemmas for C05 (Model/Stream.v). *)
From Coq Require Import ZArith List Bool Lia.
From Verif Require Import Stream.
Import ListNotations.
Local Open Scope Z_scope.

(* ------------------------------------------------------------------ list facts *)
Lemma byte_at_app : forall buf more i, (i < length buf)%nat -> byte_at (buf ++ more) i = byte_at buf i.
Proof. intros. unfold byte_at. apply app_nth1. assumption. Qed.

Lemma blen_app : forall a b, blen (a ++ b) = blen a + blen b.
Proof. intros. unfold blen. rewrite app_length. lia. Qed.

Lemma blen_nonneg : forall a, 0 <= blen a.
Proof. intros. unfold blen. lia. Qed.

Lemma skipn_app_le : forall (k : nat) (a b : list Z), (k <= length a)%nat -> skipn k (a ++ b) = skipn k a ++ b.
Proof.
  intros. rewrite skipn_app. replace (k - length a)%nat with 0%nat by lia. reflexivity.
Qed.

Lemma firstn_app_le : forall (k : nat) (a b : list Z), (k <= length a)%nat -> firstn k (a ++ b) = firstn k a.
Proof.
  intros. rewrite firstn_app. replace (k - length a)%nat with 0%nat by lia. simpl. apply app_nil_r.
Qed.

Lemma skipn_skipn' : forall (a b : nat) (l : list Z), skipn a (skipn b l) = skipn (b + a) l.
Proof.
  intros a b. induction b as [|b IH]; intros l; simpl; [reflexivity|].
  destruct l; simpl; [apply skipn_nil|apply IH].
Qed.

(* ------------------------------------------------------------------ the header only depends on the first bytes *)
Lemma header_size_cases : forall v, header_size v = 8 \/ header_size v = 9.
Proof. intros. unfold header_size. destruct (3 <=? v); auto. Qed.

Lemma decode_header_app : forall v buf more, header_size v <= blen buf ->
  decode_header v (buf ++ more) = decode_header v buf.
Proof.
  intros v buf more H. unfold decode_header, header_size, blen in *.
  destruct (3 <=? v); unfold be32, be16; repeat rewrite byte_at_app by lia; reflexivity.
Qed.

(* ------------------------------------------------------------------ parse1: facts and prefix stability *)
Lemma parse1_frame_inv : forall buf h body rest, parse1 buf = Frame h body rest ->
  exists v, let hs := header_size v in
    h = decode_header v buf /\ supported v = true /\ 0 <= h_len h /\ hs + h_len h <= blen buf /\
    body = firstn (Z.to_nat (h_len h)) (skipn (Z.to_nat hs) buf) /\
    rest = skipn (Z.to_nat (hs + h_len h)) buf.
Proof.
  intros buf h body rest H. unfold parse1 in H. destruct buf as [|b0 tl]; [discriminate|].
  remember (b0 :: tl) as buf.
  destruct (supported (Z.land b0 127)) eqn:Hs; simpl in H; [|discriminate].
  destruct (blen buf <? header_size (Z.land b0 127)) eqn:H1; [discriminate|].
  destruct (h_len (decode_header (Z.land b0 127) buf) <? 0) eqn:H2; [discriminate|].
  destruct (blen buf <? header_size (Z.land b0 127) + h_len (decode_header (Z.land b0 127) buf)) eqn:H3; [discriminate|].
  inversion H; subst h body rest. exists (Z.land b0 127). cbv zeta.
  repeat split; auto; lia.
Qed.

Lemma parse1_frame_shorter : forall buf h body rest, parse1 buf = Frame h body rest -> (length rest < length buf)%nat.
Proof.
  intros buf h body rest H. apply parse1_frame_inv in H. destruct H as (v & Hh & _ & Hl & Hle & _ & Hr).
  cbv zeta in *. subst rest. rewrite skipn_length. unfold blen in Hle.
  destruct (header_size_cases v); lia.
Qed.

Lemma parse1_frame_body_len : forall buf h body rest, parse1 buf = Frame h body rest -> blen body = h_len h /\ 0 <= h_len h.
Proof.
  intros buf h body rest H. apply parse1_frame_inv in H. destruct H as (v & Hh & _ & Hl & Hle & Hb & _).
  cbv zeta in *. split; [|assumption]. subst body. unfold blen in *. rewrite firstn_length, skipn_length.
  destruct (header_size_cases v); lia.
Qed.

Lemma parse1_frame_split : forall buf h body rest, parse1 buf = Frame h body rest ->
  exists hdr, buf = hdr ++ body ++ rest /\ blen hdr = header_size (h_ver h).
Proof.
  intros buf h body rest H. apply parse1_frame_inv in H. destruct H as (v & Hh & _ & Hl & Hle & Hb & Hr).
  cbv zeta in *. exists (firstn (Z.to_nat (header_size v)) buf).
  assert (Hv : h_ver h = v). { subst h. unfold decode_header. destruct (3 <=? v); reflexivity. }
  split.
  - subst body rest. rewrite <- (firstn_skipn (Z.to_nat (header_size v)) buf) at 1. f_equal.
    rewrite <- (firstn_skipn (Z.to_nat (h_len h)) (skipn (Z.to_nat (header_size v)) buf)) at 1. f_equal.
    rewrite skipn_skipn'. f_equal. destruct (header_size_cases v); lia.
  - rewrite Hv. unfold blen in *. rewrite firstn_length. destruct (header_size_cases v); lia.
Qed.

Lemma parse1_app_bad : forall buf more r, parse1 buf = Bad r -> parse1 (buf ++ more) = Bad r.
Proof.
  intros buf more r H. unfold parse1 in *. destruct buf as [|b0 tl]; [discriminate|].
  change ((b0 :: tl) ++ more) with (b0 :: (tl ++ more)).
  change (b0 :: (tl ++ more)) with ((b0 :: tl) ++ more).
  remember (b0 :: tl) as buf.
  assert (Hm : match buf ++ more with [] => NeedMore | b1 :: _ =>
              if negb (supported (Z.land b1 127)) then Bad R_VERSION
              else let hs := header_size (Z.land b1 127) in
                if blen (buf ++ more) <? hs then NeedMore
                else let h := decode_header (Z.land b1 127) (buf ++ more) in
                  if h_len h <? 0 then Bad R_NEGLEN
                  else if blen (buf ++ more) <? hs + h_len h then NeedMore
                  else Frame h (firstn (Z.to_nat (h_len h)) (skipn (Z.to_nat hs) (buf ++ more))) (skipn (Z.to_nat (hs + h_len h)) (buf ++ more)) end
            = Bad r); [|exact Hm].
  subst buf. change ((b0 :: tl) ++ more) with (b0 :: (tl ++ more)). cbv iota beta.
  change (b0 :: (tl ++ more)) with ((b0 :: tl) ++ more). remember (b0 :: tl) as buf.
  destruct (supported (Z.land b0 127)) eqn:Hs; simpl in *; [|assumption].
  destruct (blen buf <? header_size (Z.land b0 127)) eqn:H1; [discriminate|].
  assert (H1' : blen (buf ++ more) <? header_size (Z.land b0 127) = false).
  { rewrite blen_app. pose proof (blen_nonneg more). lia. }
  rewrite H1'. rewrite decode_header_app by lia.
  destruct (h_len (decode_header (Z.land b0 127) buf) <? 0) eqn:H2; [assumption|].
  destruct (blen buf <? header_size (Z.land b0 127) + h_len (decode_header (Z.land b0 127) buf)); discriminate.
Qed.

Lemma parse1_unfold_cons : forall b0 tl,
  parse1 (b0 :: tl) =
    let buf := b0 :: tl in
    let v := Z.land b0 127 in
    if negb (supported v) then Bad R_VERSION
    else let hs := header_size v in
      if blen buf <? hs then NeedMore
      else let h := decode_header v buf in
        if h_len h <? 0 then Bad R_NEGLEN
        else if blen buf <? hs + h_len h then NeedMore
        else Frame h (firstn (Z.to_nat (h_len h)) (skipn (Z.to_nat hs) buf)) (skipn (Z.to_nat (hs + h_len h)) buf).
Proof. reflexivity. Qed.

Lemma parse1_app_frame : forall buf more h body rest, parse1 buf = Frame h body rest ->
  parse1 (buf ++ more) = Frame h body (rest ++ more).
Proof.
  intros buf more h body rest H. pose proof (parse1_frame_inv _ _ _ _ H) as (v & Hh & Hs & Hl & Hle & Hb & Hr).
  cbv zeta in *. destruct buf as [|b0 tl]; [discriminate|].
  assert (Hv : v = Z.land b0 127).
  { rewrite parse1_unfold_cons in H. cbv zeta in H.
    destruct (negb (supported (Z.land b0 127))); [discriminate|].
    destruct (blen (b0 :: tl) <? header_size (Z.land b0 127)); [discriminate|].
    destruct (h_len (decode_header (Z.land b0 127) (b0 :: tl)) <? 0); [discriminate|].
    destruct (blen (b0 :: tl) <? header_size (Z.land b0 127) + h_len (decode_header (Z.land b0 127) (b0 :: tl))); [discriminate|].
    inversion H. subst h.
    assert (h_ver (decode_header v (b0 :: tl)) = h_ver (decode_header (Z.land b0 127) (b0 :: tl))) by congruence.
    unfold decode_header in H0. destruct (3 <=? v), (3 <=? Z.land b0 127); simpl in H0; assumption. }
  subst v. change ((b0 :: tl) ++ more) with (b0 :: (tl ++ more)). rewrite parse1_unfold_cons. cbv zeta.
  change (b0 :: (tl ++ more)) with ((b0 :: tl) ++ more). remember (b0 :: tl) as buf.
  rewrite Hs. simpl negb. cbv iota.
  pose proof (blen_nonneg more) as Hm. pose proof (header_size_cases (Z.land b0 127)) as Hc.
  assert (E1 : blen (buf ++ more) <? header_size (Z.land b0 127) = false) by (rewrite blen_app; lia).
  rewrite E1. rewrite decode_header_app by lia. rewrite <- Hh.
  assert (E2 : h_len h <? 0 = false) by lia. rewrite E2.
  assert (E3 : blen (buf ++ more) <? header_size (Z.land b0 127) + h_len h = false) by (rewrite blen_app; lia).
  rewrite E3. unfold blen in *.
  rewrite (skipn_app_le (Z.to_nat (header_size (Z.land b0 127)))) by lia.
  rewrite firstn_app_le by (rewrite skipn_length; lia).
  rewrite (skipn_app_le (Z.to_nat (header_size (Z.land b0 127) + h_len h))) by lia.
  subst body rest. reflexivity.
Qed.

(* ------------------------------------------------------------------ the loop: fuel independence *)
Lemma loop_fuel : forall f1 f2 buf, (length buf < f1)%nat -> (length buf < f2)%nat -> parse_loop f1 buf = parse_loop f2 buf.
Proof.
  induction f1 as [|f1 IH]; intros f2 buf H1 H2; [lia|].
  destruct f2 as [|f2]; [lia|]. simpl.
  destruct (parse1 buf) eqn:Hp; try reflexivity.
  pose proof (parse1_frame_shorter _ _ _ _ Hp). rewrite (IH f2 rest) by lia. reflexivity.
Qed.

Lemma parse_all_needmore : forall buf, parse1 buf = NeedMore -> parse_all buf = (Live buf, []).
Proof. intros. unfold parse_all. simpl. rewrite H. reflexivity. Qed.

Lemma parse_all_bad : forall buf r, parse1 buf = Bad r -> parse_all buf = (Dead, [Defunct r]).
Proof. intros. unfold parse_all. simpl. rewrite H. reflexivity. Qed.

Lemma parse_all_frame : forall buf h body rest, parse1 buf = Frame h body rest ->
  parse_all buf = let '(st, evs) := parse_all rest in (st, Deliver h body :: evs).
Proof.
  intros. unfold parse_all at 1. simpl. rewrite H.
  pose proof (parse1_frame_shorter _ _ _ _ H).
  unfold parse_all. rewrite (loop_fuel (length buf) (S (length rest)) rest) by lia. reflexivity.
Qed.

(* a state in which the loop has nothing more to do *)
Definition stable (st : istate) : Prop :=
  match st with Dead => True | Live buf => parse1 buf = NeedMore end.

Lemma loop_stable : forall n buf st evs, (length buf < n)%nat -> parse_loop n buf = (st, evs) -> stable st.
Proof.
  induction n as [|n IH]; intros buf st evs Hn H; [lia|]. simpl in H.
  destruct (parse1 buf) eqn:Hp.
  - inversion H. subst. exact Hp.
  - inversion H. exact I.
  - destruct (parse_loop n rest) as [st' evs'] eqn:Hl. inversion H; subst.
    pose proof (parse1_frame_shorter _ _ _ _ Hp). eapply IH; [|exact Hl]. lia.
Qed.

Lemma parse_all_stable : forall buf st evs, parse_all buf = (st, evs) -> stable st.
Proof. intros. eapply loop_stable; [|exact H]. lia. Qed.

Lemma feed_stable : forall st chunk st' evs, feed st chunk = (st', evs) -> stable st'.
Proof.
  intros [buf|] chunk st' evs H; simpl in H.
  - eapply parse_all_stable; exact H.
  - inversion H. exact I.
Qed.

(* ------------------------------------------------------------------ prefix stability of the whole loop *)
Definition then_feed (r : istate * list ievent) (more : list Z) : istate * list ievent :=
  let '(st, evs) := r in let '(st', evs') := feed st more in (st', evs ++ evs').

Lemma loop_app : forall n buf more, (length buf < n)%nat ->
  parse_all (buf ++ more) = then_feed (parse_loop n buf) more.
Proof.
  induction n as [|n IH]; intros buf more Hn; [lia|]. simpl.
  destruct (parse1 buf) eqn:Hp.
  - simpl. destruct (parse_all (buf ++ more)). reflexivity.
  - simpl. apply parse_all_bad. apply parse1_app_bad. exact Hp.
  - pose proof (parse1_frame_shorter _ _ _ _ Hp).
    rewrite (parse_all_frame _ _ _ _ (parse1_app_frame _ more _ _ _ Hp)).
    rewrite (IH rest more) by lia.
    destruct (parse_loop n rest) as [st evs]. simpl.
    destruct (feed st more) as [st' evs']. reflexivity.
Qed.

Lemma feed_app : forall st a b, feed st (a ++ b) = then_feed (feed st a) b.
Proof.
  intros [buf|] a b; simpl.
  - rewrite app_assoc. apply loop_app. lia.
  - reflexivity.
Qed.

Lemma feed_nil_stable : forall st, stable st -> feed st [] = (st, []).
Proof.
  intros [buf|] H; simpl in *; [|reflexivity]. rewrite app_nil_r. apply parse_all_needmore. exact H.
Qed.

Lemma chunking : forall chunks st, stable st -> run_feed st chunks = feed st (concat chunks).
Proof.
  induction chunks as [|c cs IH]; intros st Hst; simpl.
  - symmetry. apply feed_nil_stable. exact Hst.
  - rewrite feed_app. destruct (feed st c) as [st1 e1] eqn:H1. simpl.
    rewrite (IH st1) by (eapply feed_stable; exact H1). reflexivity.
Qed.

Lemma init_stable : stable init.
Proof. reflexivity. Qed.

(* deliveries only grow when more bytes arrive *)
Lemma prefix_monotone : forall st p q, exists evs', snd (feed st (p ++ q)) = snd (feed st p) ++ evs'.
Proof.
  intros. rewrite feed_app. destruct (feed st p) as [st1 e1]. simpl.
  destruct (feed st1 q) as [st2 e2]. exists e2. reflexivity.
Qed.

(* ------------------------------------------------------------------ never a partial frame *)
Lemma loop_deliver_whole : forall n buf st evs h body, parse_loop n buf = (st, evs) -> In (Deliver h body) evs ->
  blen body = h_len h /\ 0 <= h_len h.
Proof.
  induction n as [|n IH]; intros buf st evs h body H Hin; simpl in H.
  - inversion H; subst. destruct Hin.
  - destruct (parse1 buf) eqn:Hp.
    + inversion H; subst. destruct Hin.
    + inversion H; subst. destruct Hin as [Hin|[]]. discriminate.
    + destruct (parse_loop n rest) as [st' evs'] eqn:Hl. inversion H; subst.
      destruct Hin as [Hin|Hin].
      * inversion Hin; subst. eapply parse1_frame_body_len. exact Hp.
      * eapply IH; eauto.
Qed.

Lemma no_partial : forall st chunk st' evs h body, feed st chunk = (st', evs) -> In (Deliver h body) evs ->
  blen body = h_len h /\ 0 <= h_len h.
Proof.
  intros [buf|] chunk st' evs h body H Hin; simpl in H.
  - eapply loop_deliver_whole; eauto.
  - inversion H; subst. destruct Hin.
Qed.

(* ------------------------------------------------------------------ exact delivery of encoded frames *)
Definition wf_frame (d : Z) (h : header) (body : list Z) : Prop :=
  (d = 0 \/ d = 128) /\ supported (h_ver h) = true /\
  0 <= h_flags h < 256 /\ 0 <= h_op h < 256 /\
  (if 3 <=? h_ver h then -32768 <= h_stream h < 32768 else -128 <= h_stream h < 128) /\
  h_len h = blen body /\ blen body < 2147483648.

Lemma supported_cases : forall v, supported v = true -> v = 66 \/ v = 65 \/ v = 6 \/ v = 5 \/ v = 4 \/ v = 3 \/ v = 2 \/ v = 1.
Proof.
  intros v H. unfold supported, SUPPORTED_VERSIONS in H. simpl in H.
  repeat (apply orb_true_iff in H; destruct H as [H|H]; [apply Z.eqb_eq in H; lia|]). discriminate.
Qed.

Ltac Zify.zify_post_hook ::= Z.to_euclidean_division_equations.

Lemma signed_16 : forall s, -32768 <= s < 32768 -> signed 16 (((s / 256) mod 256) * 256 + s mod 256) = s.
Proof.
  intros. unfold signed. change (2 ^ (16 - 1)) with 32768. change (2 ^ 16) with 65536.
  destruct (((s / 256) mod 256) * 256 + s mod 256 <? 32768) eqn:E; lia.
Qed.

Lemma signed_8 : forall s, -128 <= s < 128 -> signed 8 (s mod 256) = s.
Proof.
  intros. unfold signed. change (2 ^ (8 - 1)) with 128. change (2 ^ 8) with 256.
  destruct (s mod 256 <? 128) eqn:E; lia.
Qed.

Lemma signed_32 : forall l, 0 <= l < 2147483648 ->
  signed 32 (((((l / 16777216) mod 256) * 256 + (l / 65536) mod 256) * 256 + (l / 256) mod 256) * 256 + l mod 256) = l.
Proof.
  intros. unfold signed. change (2 ^ (32 - 1)) with 2147483648. change (2 ^ 32) with 4294967296.
  destruct (_ <? 2147483648) eqn:E; lia.
Qed.

Lemma parse1_enc : forall d h body rest, wf_frame d h body ->
  parse1 (enc_frame d h body ++ rest) = Frame h body rest.
Proof.
  intros d h body rest (Hd & Hs & Hf & Ho & Hst & Hl & Hb).
  assert (Hland : Z.land (d + h_ver h) 127 = h_ver h).
  { destruct (supported_cases _ Hs) as [E|[E|[E|[E|[E|[E|[E|E]]]]]]]; rewrite E; destruct Hd as [Hd|Hd]; rewrite Hd; reflexivity. }
  destruct h as [v f s o l]. simpl in *. subst l.
  pose proof (blen_nonneg body) as Hnn.
  unfold enc_frame. simpl h_ver; simpl h_flags; simpl h_stream; simpl h_op; simpl h_len.
  destruct (3 <=? v) eqn:Hv.
  - simpl app. rewrite parse1_unfold_cons. cbv zeta. rewrite Hland, Hs. simpl negb. cbv iota.
    unfold header_size. rewrite Hv.
    assert (E1 : forall tl : list Z, blen (d + v :: f :: s / 256 mod 256 :: s mod 256 :: o :: blen body / 16777216 mod 256 :: blen body / 65536 mod 256 :: blen body / 256 mod 256 :: blen body mod 256 :: tl) = 9 + blen tl).
    { intros. unfold blen. simpl length. lia. }
    rewrite E1. rewrite blen_app.
    assert (E2 : 9 + (blen body + blen rest) <? 9 = false) by (pose proof (blen_nonneg rest); lia). rewrite E2.
    unfold decode_header. rewrite Hv. unfold be16, be32, byte_at. simpl nth.
    rewrite signed_16 by assumption. rewrite signed_32 by lia. simpl h_len.
    assert (E3 : blen body <? 0 = false) by lia. rewrite E3.
    assert (E4 : 9 + (blen body + blen rest) <? 9 + blen body = false) by (pose proof (blen_nonneg rest); lia). rewrite E4.
    change (Z.to_nat 9) with 9%nat. simpl skipn at 1.
    replace (Z.to_nat (9 + blen body)) with (9 + length body)%nat by (unfold blen; lia).
    simpl skipn. unfold blen. rewrite Nat2Z.id.
    rewrite firstn_app, Nat.sub_diag, firstn_all. simpl. rewrite app_nil_r.
    rewrite skipn_app, skipn_all, Nat.sub_diag. reflexivity.
  - simpl app. rewrite parse1_unfold_cons. cbv zeta. rewrite Hland, Hs. simpl negb. cbv iota.
    unfold header_size. rewrite Hv.
    assert (E1 : forall tl : list Z, blen (d + v :: f :: s mod 256 :: o :: blen body / 16777216 mod 256 :: blen body / 65536 mod 256 :: blen body / 256 mod 256 :: blen body mod 256 :: tl) = 8 + blen tl).
    { intros. unfold blen. simpl length. lia. }
    rewrite E1. rewrite blen_app.
    assert (E2 : 8 + (blen body + blen rest) <? 8 = false) by (pose proof (blen_nonneg rest); lia). rewrite E2.
    unfold decode_header. rewrite Hv. unfold be32, byte_at. simpl nth.
    rewrite signed_8 by assumption. rewrite signed_32 by lia. simpl h_len.
    assert (E3 : blen body <? 0 = false) by lia. rewrite E3.
    assert (E4 : 8 + (blen body + blen rest) <? 8 + blen body = false) by (pose proof (blen_nonneg rest); lia). rewrite E4.
    change (Z.to_nat 8) with 8%nat. simpl skipn at 1.
    replace (Z.to_nat (8 + blen body)) with (8 + length body)%nat by (unfold blen; lia).
    simpl skipn. unfold blen. rewrite Nat2Z.id.
    rewrite firstn_app, Nat.sub_diag, firstn_all. simpl. rewrite app_nil_r.
    rewrite skipn_app, skipn_all, Nat.sub_diag. reflexivity.
Qed.

Definition frame := (Z * header * list Z)%type.
Definition enc (f : frame) : list Z := let '(d, h, b) := f in enc_frame d h b.
Definition wf (f : frame) : Prop := let '(d, h, b) := f in wf_frame d h b.
Definition deliver (f : frame) : ievent := let '(d, h, b) := f in Deliver h b.

Lemma parse_all_frames : forall frames tail, Forall wf frames -> parse1 tail = NeedMore ->
  parse_all (concat (map enc frames) ++ tail) = (Live tail, map deliver frames).
Proof.
  induction frames as [|[[d h] b] fs IH]; intros tail Hwf Ht; simpl.
  - apply parse_all_needmore. exact Ht.
  - inversion Hwf; subst. rewrite <- app_assoc.
    rewrite (parse_all_frame _ _ _ _ (parse1_enc d h b _ H1)).
    rewrite (IH tail H2 Ht). reflexivity.
Qed.

(* ------------------------------------------------------------------ routing *)
Lemma route_handler : forall evs reqs id h b, In (ToHandler id h b) (route reqs evs) ->
  id = h_stream h /\ 0 <= id /\ In (Deliver h b) evs.
Proof.
  induction evs as [|e evs IH]; intros reqs id h b Hin; simpl in Hin; [destruct Hin|].
  destruct e as [h' b'|r].
  - destruct (h_stream h' <? 0) eqn:Hn.
    + destruct Hin as [Hin|Hin]; [discriminate|]. destruct (IH _ _ _ _ Hin) as (A & B & C). auto with datatypes.
    + destruct (mem (h_stream h') reqs).
      * destruct Hin as [Hin|Hin].
        -- inversion Hin; subst. repeat split; auto with datatypes. lia.
        -- destruct (IH _ _ _ _ Hin) as (A & B & C). auto with datatypes.
      * destruct Hin as [Hin|Hin]; [discriminate|]. destruct (IH _ _ _ _ Hin) as (A & B & C). auto with datatypes.
  - destruct Hin as [Hin|[]]. discriminate.
Qed.

Lemma route_watchers : forall evs reqs h b, In (ToWatchers h b) (route reqs evs) ->
  h_stream h < 0 /\ In (Deliver h b) evs.
Proof.
  induction evs as [|e evs IH]; intros reqs h b Hin; simpl in Hin; [destruct Hin|].
  destruct e as [h' b'|r].
  - destruct (h_stream h' <? 0) eqn:Hn.
    + destruct Hin as [Hin|Hin].
      * inversion Hin; subst. split; auto with datatypes. lia.
      * destruct (IH _ _ _ Hin). auto with datatypes.
    + destruct (mem (h_stream h') reqs); (destruct Hin as [Hin|Hin]; [discriminate|]); destruct (IH _ _ _ Hin); auto with datatypes.
  - destruct Hin as [Hin|[]]. discriminate.
Qed.

Definition routed_as (f : frame) : revent :=
  let '(d, h, b) := f in if h_stream h <? 0 then ToWatchers h b else ToHandler (h_stream h) h b.

Definition nonneg_ids (fs : list frame) : list Z :=
  map (fun f : frame => h_stream (snd (fst f))) (filter (fun f : frame => negb (h_stream (snd (fst f)) <? 0)) fs).

Lemma mem_in : forall x l, mem x l = true <-> In x l.
Proof.
  intros. unfold mem. rewrite existsb_exists. split.
  - intros (y & Hy & E). apply Z.eqb_eq in E. subst. assumption.
  - intros H. exists x. split; [assumption|apply Z.eqb_refl].
Qed.

Lemma in_remove1 : forall y x l, y <> x -> In y l -> In y (remove1 x l).
Proof.
  induction l as [|z l IH]; intros Hne Hin; simpl; [assumption|].
  destruct (x =? z) eqn:E.
  - apply Z.eqb_eq in E. subst. destruct Hin; [congruence|assumption].
  - destruct Hin; [left; assumption|right; auto].
Qed.

Lemma route_frames : forall fs reqs, NoDup (nonneg_ids fs) -> (forall i, In i (nonneg_ids fs) -> In i reqs) ->
  route reqs (map deliver fs) = map routed_as fs.
Proof.
  induction fs as [|[[d h] b] fs IH]; intros reqs Hnd Hin; simpl; [reflexivity|].
  unfold nonneg_ids in *. simpl in *.
  destruct (h_stream h <? 0) eqn:Hn; simpl in *.
  - f_equal. apply IH; assumption.
  - inversion Hnd; subst.
    assert (Hm : mem (h_stream h) reqs = true) by (apply mem_in; apply Hin; left; reflexivity).
    rewrite Hm. f_equal. apply IH; [assumption|].
    intros i Hi. apply in_remove1; [|apply Hin; right; assumption].
    intro E. subst i. contradiction.
Qed.

(* ------------------------------------------------------------------ handle_pushed *)
Lemma handle_pushed_all : forall ws, handle_pushed ws = (map fst ws, Returned).
Proof.
  induction ws as [|w ws IH]; [reflexivity|]. simpl. rewrite IH. destruct (call_watcher w); reflexivity.
Qed.
