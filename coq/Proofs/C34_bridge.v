(* Bridge between the hand model of uuid_from_time that the C34 theorems talk about (Model/TimeUUID.v, tied to the
   code by correspondence) and the integer tail of cassandra.util.uuid_from_time REGENERATED from the working tree on
   every run (Gen/UtilTimeGen.v, tie (T)) composed with the hand model of CPython's uuid.UUID(fields, version=1)
   (Model/UuidFields.v, tied to the uuid module by translation validation). *)
From Coq Require Import ZArith List Bool Lia ZifyBool.
Require Verif.Base.PyBase Verif.Gen.UtilTimeGen Verif.Model.UuidFields Verif.Model.TimeUUID Verif.Proofs.BytesBE
        Verif.Proofs.UtilTime_proofs.
Import ListNotations PyBase.
Local Open Scope Z_scope.
Ltac Zify.zify_post_hook ::= Z.to_euclidean_division_equations.

Lemma land_ones_lit x k m : 0 <= k -> m = Z.ones k -> Z.land x m = x mod 2 ^ k.
Proof. intros Hk ->. apply Z.land_ones. exact Hk. Qed.

Lemma lor_hi a m k : 0 <= k -> 0 <= a < 2 ^ k -> Z.lor (m * 2 ^ k) a = m * 2 ^ k + a.
Proof. intros Hk Ha. rewrite Z.lor_comm, BytesBE.lor_disjoint_add by assumption. lia. Qed.

(* the six fields of the hand model, in closed arithmetic form *)
Lemma model_fields : forall us node clock,
  let i := us * 10 + TimeUUID.OFFSET in
  let u := TimeUUID.uuid_from_us us node clock in
  TimeUUID.f_low u = i mod 2 ^ 32 /\ TimeUUID.f_mid u = (i / 2 ^ 32) mod 2 ^ 16 /\
  TimeUUID.f_hiv u = 4096 + (i / 2 ^ 48) mod 2 ^ 12 /\
  TimeUUID.f_csh u = 128 + (clock / 2 ^ 8) mod 2 ^ 6 /\ TimeUUID.f_csl u = clock mod 2 ^ 8 /\ TimeUUID.f_node u = node.
Proof.
  intros us node clock. cbv zeta. unfold TimeUUID.uuid_from_us. cbv zeta.
  cbn [TimeUUID.f_low TimeUUID.f_mid TimeUUID.f_hiv TimeUUID.f_csh TimeUUID.f_csl TimeUUID.f_node].
  rewrite (land_ones_lit _ 32 4294967295), (land_ones_lit _ 16 65535), (land_ones_lit _ 12 4095),
          (land_ones_lit clock 8 255), (land_ones_lit _ 6 63) by (lia || reflexivity).
  rewrite !Z.shiftr_div_pow2 by lia.
  change 4096 with (1 * 2 ^ 12). change 128 with (2 * 2 ^ 6).
  rewrite (lor_hi _ 1 12), (lor_hi _ 2 6) by lia.
  repeat split; reflexivity.
Qed.

(* accepted arguments: the regenerated tail returns fields which uuid.UUID(fields=..., version=1) turns into exactly the
   128-bit integer of the hand model *)
Theorem source_uuid_is_model : forall us node clock, TimeUUID.uuid_accepts node clock = true ->
  exists f, UtilTimeGen.uuid_from_time_tail node clock (us * 10 + TimeUUID.OFFSET) = Ok (f, 1) /\
            UuidFields.py_uuid_int f 1 = Some (TimeUUID.uuid_int (TimeUUID.uuid_from_us us node clock)).
Proof.
  intros us node clock Hacc. unfold TimeUUID.uuid_accepts in Hacc.
  assert (Hc : clock <= 16383) by lia. assert (Hn : 0 <= node < 2 ^ 48) by lia.
  rewrite UtilTime_proofs.uuid_tail_spec. destruct (clock >? 16383) eqn:E; [lia|].
  eexists. split; [reflexivity|].
  destruct (model_fields us node clock) as (Hl & Hm & Hh & Hch & Hcl & Hnd). cbv zeta in *.
  unfold TimeUUID.uuid_int. rewrite Hl, Hm, Hh, Hch, Hcl, Hnd. clear Hl Hm Hh Hch Hcl Hnd.
  set (i := us * 10 + TimeUUID.OFFSET).
  set (tl := i mod 2 ^ 32). set (tm := (i / 2 ^ 32) mod 2 ^ 16). set (thv := (i / 2 ^ 48) mod 2 ^ 12).
  set (x := (clock / 2 ^ 8) mod 2 ^ 6). set (csl := clock mod 2 ^ 8).
  assert (Htl : 0 <= tl < 2 ^ 32) by (unfold tl; lia). assert (Htm : 0 <= tm < 2 ^ 16) by (unfold tm; lia).
  assert (Hthv : 0 <= thv < 2 ^ 12) by (unfold thv; lia). assert (Hx : 0 <= x < 2 ^ 6) by (unfold x; lia).
  assert (Hcsl : 0 <= csl < 2 ^ 8) by (unfold csl; lia).
  assert (Hok : UuidFields.uuid_fields_ok (tl, tm, thv, 128 + x, csl, node) = true) by (unfold UuidFields.uuid_fields_ok; lia).
  unfold UuidFields.py_uuid_int. rewrite Hok. cbn [andb]. change ((1 <=? 1) && (1 <=? 5)) with true. cbv iota. f_equal.
  assert (H1 : thv mod 2 ^ 12 = thv) by (apply Z.mod_small; lia).
  assert (H2 : (128 + x) mod 2 ^ 6 = x).
  { replace (128 + x) with (x + 2 * 2 ^ 6) by lia. rewrite Z.mod_add by lia. apply Z.mod_small. lia. }
  rewrite H1, H2. clearbody tl tm thv x csl. lia.
Qed.

(* rejected arguments: a clock sequence above 14 bits is refused by the regenerated code itself; a node outside 48 bits
   by uuid.UUID *)
Theorem source_uuid_rejects : forall us node clock, TimeUUID.uuid_accepts node clock = false ->
  match UtilTimeGen.uuid_from_time_tail node clock (us * 10 + TimeUUID.OFFSET) with
  | Ok (f, v) => UuidFields.py_uuid_int f v = None
  | Raise => True
  | Fuel => False
  end.
Proof.
  intros us node clock Hrej. unfold TimeUUID.uuid_accepts in Hrej.
  rewrite UtilTime_proofs.uuid_tail_spec. destruct (clock >? 16383) eqn:E; [exact I|].
  unfold UuidFields.py_uuid_int.
  assert (Hn : ~ (0 <= node < 2 ^ 48)) by lia.
  assert (Hok : UuidFields.uuid_fields_ok (((us * 10 + TimeUUID.OFFSET) mod 2 ^ 32), (((us * 10 + TimeUUID.OFFSET) / 2 ^ 32) mod 2 ^ 16),
                 (((us * 10 + TimeUUID.OFFSET) / 2 ^ 48) mod 2 ^ 12), (128 + (clock / 2 ^ 8) mod 2 ^ 6), (clock mod 2 ^ 8), node) = false).
  { unfold UuidFields.uuid_fields_ok. lia. }
  rewrite Hok. reflexivity.
Qed.

Ltac Zify.zify_post_hook ::= idtac.
