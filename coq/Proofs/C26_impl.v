(* C26: structure of the NetworkTopologyStrategy model: the index bookkeeping (token offsets, dc_to_current_index)
   visits exactly the dc's hosts of the ring rotated at k; a row is the concatenation of per-dc passes. *)
From Coq Require Import ZArith List Bool Lia.
From Verif Require Import RingBase Ring C26_lists.
Import ListNotations.
Local Open Scope Z_scope.

Section Impl.
  Variable loc : topo_t.
  Variable rfs : list (Z * Z).
  Variable hs : list Z.

  Definition in_dc (d h : Z) : bool := dc_of loc h =? d.
  Definition cnt (d : Z) (k : nat) : nat := length (filter (in_dc d) (firstn k hs)).

  (* ---------------- offsets *)
  Lemma offsets_length : forall d l b, length (offsets_from loc d b l) = length (filter (in_dc d) l).
  Proof.
    induction l as [|h t IH]; intros b; cbn [offsets_from filter]; [reflexivity|].
    unfold in_dc at 1. destruct (dc_of loc h =? d); cbn [length]; rewrite IH; reflexivity.
  Qed.

  Lemma offsets_app : forall d l1 l2 b,
    offsets_from loc d b (l1 ++ l2) = offsets_from loc d b l1 ++ offsets_from loc d (b + length l1) l2.
  Proof.
    induction l1 as [|h t IH]; intros l2 b; cbn [app offsets_from length].
    - rewrite Nat.add_0_r. reflexivity.
    - rewrite IH. replace (S b + length t)%nat with (b + S (length t))%nat by lia.
      destruct (dc_of loc h =? d); reflexivity.
  Qed.

  Lemma offsets_range : forall d l b o, In o (offsets_from loc d b l) -> (b <= o < b + length l)%nat.
  Proof.
    induction l as [|h t IH]; intros b o Hin; cbn [offsets_from length] in *; [contradiction|].
    destruct (dc_of loc h =? d).
    - destruct Hin as [Hin|Hin]; [lia|]. apply IH in Hin. lia.
    - apply IH in Hin. lia.
  Qed.

  Lemma offsets_nth : forall d l pre post,
    map (fun o => nth o (pre ++ l ++ post) 0) (offsets_from loc d (length pre) l) = filter (in_dc d) l.
  Proof.
    induction l as [|h t IH]; intros pre post; cbn [offsets_from filter]; [reflexivity|].
    assert (Hrec : map (fun o => nth o (pre ++ (h :: t) ++ post) 0) (offsets_from loc d (S (length pre)) t) = filter (in_dc d) t).
    { specialize (IH (pre ++ [h]) post). rewrite app_length in IH. cbn [length] in IH.
      rewrite Nat.add_1_r in IH. rewrite <- app_assoc in IH. exact IH. }
    unfold in_dc at 1. destruct (dc_of loc h =? d); cbn [map].
    - rewrite Hrec. f_equal. cbn [app]. rewrite nth_middle. reflexivity.
    - exact Hrec.
  Qed.

  Lemma offsets_nth' : forall d l pre post full, full = pre ++ l ++ post ->
    map (fun o => nth o full 0) (offsets_from loc d (length pre) l) = filter (in_dc d) l.
  Proof. intros. subst. apply offsets_nth. Qed.

  Lemma count_while_lt_app : forall A B k, Forall (fun o => (o < k)%nat) A -> (forall o, In o B -> (k <= o)%nat) ->
    count_while_lt (A ++ B) k = length A.
  Proof.
    induction A as [|a A IH]; intros B k HA HB; cbn [app count_while_lt length].
    - destruct B as [|b B]; [reflexivity|]. cbn [count_while_lt].
      replace (Nat.ltb b k) with false; [reflexivity|]. symmetry. apply Nat.ltb_ge. apply HB. left. reflexivity.
    - inversion HA; subst. replace (Nat.ltb a k) with true by (symmetry; apply Nat.ltb_lt; assumption).
      rewrite IH by assumption. reflexivity.
  Qed.

  Lemma rot_app_length : forall {A} (a b : list A), rot (length a) (a ++ b) = b ++ a.
  Proof.
    intros. unfold rot. rewrite skipn_app, firstn_app, skipn_all, firstn_all, Nat.sub_diag. cbn [skipn firstn app].
    rewrite app_nil_r. reflexivity.
  Qed.

  (* the walk around the dc's token offsets = the dc's hosts of the ring rotated at k *)
  Lemma visited_eq : forall d k p, (k <= length hs)%nat -> (p <= cnt d k)%nat ->
    let offs := offsets_from loc d 0 hs in
    advance offs p k = cnt d k /\
    map (fun o => nth o hs 0) (rot (cnt d k) offs) = filter (in_dc d) (rot k hs).
  Proof.
    intros d k p Hk Hp offs.
    set (A := offsets_from loc d 0 (firstn k hs)).
    set (B := offsets_from loc d (0 + length (firstn k hs)) (skipn k hs)).
    assert (Hoffs : offs = A ++ B).
    { unfold offs. rewrite <- (firstn_skipn k hs) at 1. apply offsets_app. }
    assert (HlenA : length A = cnt d k) by (unfold A, cnt; apply offsets_length).
    assert (Hfl : length (firstn k hs) = k) by (rewrite firstn_length; lia).
    split.
    - unfold advance. rewrite Hoffs, skipn_app. replace (p - length A)%nat with O by lia. cbn [skipn].
      rewrite count_while_lt_app.
      + rewrite skipn_length. lia.
      + apply Forall_forall. intros o Ho.
        assert (In o A). { rewrite <- (firstn_skipn p A). apply in_or_app. right. assumption. }
        apply offsets_range in H. lia.
      + intros o Ho. apply offsets_range in Ho. lia.
    - rewrite Hoffs, <- HlenA, rot_app_length, map_app, filter_rot. f_equal.
      + unfold B. cbn [Nat.add]. apply offsets_nth' with (post := []).
        rewrite app_nil_r. symmetry. apply firstn_skipn.
      + unfold A. apply (offsets_nth' d (firstn k hs) [] (skipn k hs)). cbn [app]. symmetry. apply firstn_skipn.
  Qed.

  Lemma filter_firstn_mono : forall (f : Z -> bool) l k, (length (filter f (firstn k l)) <= length (filter f (firstn (S k) l)))%nat.
  Proof.
    induction l as [|h t IH]; intros k.
    - rewrite !firstn_nil. lia.
    - destruct k as [|k].
      + rewrite firstn_O. cbn [filter length]. lia.
      + rewrite !firstn_cons. cbn [filter]. specialize (IH k). destruct (f h); cbn [length]; lia.
  Qed.

  Lemma cnt_mono : forall d k, (cnt d k <= cnt d (S k))%nat.
  Proof. intros. unfold cnt. apply filter_firstn_mono. Qed.

  (* ---------------- one dc's pass, and lifting over the replicas already chosen in other dcs *)
  Definition st0 (reps : list Z) (r : Z) : nst :=
    {| n_replicas := reps; n_remaining := r; n_this_dc := 0; n_skipped := []; n_racks_placed := [] |}.
  Definition dc_step (d : Z) := nts_step true loc (num_racks loc d hs) (num_hosts loc d hs).
  Definition dc_pass (d r : Z) (reps : list Z) (k : nat) : list Z :=
    n_replicas (fold_left (dc_step d) (filter (in_dc d) (rot k hs)) (st0 reps r)).
  Definition lift (R : list Z) (st : nst) : nst :=
    {| n_replicas := R ++ n_replicas st; n_remaining := n_remaining st; n_this_dc := n_this_dc st;
       n_skipped := n_skipped st; n_racks_placed := n_racks_placed st |}.

  Lemma flush_lift : forall sk R X rem,
    nts_flush sk (R ++ X) rem = (R ++ fst (nts_flush sk X rem), snd (nts_flush sk X rem)).
  Proof.
    induction sk as [|s sk IH]; intros R X rem; cbn [nts_flush]; [reflexivity|].
    destruct (rem =? 0); [reflexivity|]. rewrite <- app_assoc. apply IH.
  Qed.

  Lemma step_lift : forall d R st h, (forall x, In x R -> dc_of loc x <> d) -> dc_of loc h = d ->
    dc_step d (lift R st) h = lift R (dc_step d st h).
  Proof.
    intros d R st h HR Hh. unfold dc_step, nts_step. cbn [lift n_replicas n_remaining n_this_dc n_skipped n_racks_placed].
    destruct ((n_remaining st =? 0) || (n_this_dc st =? num_hosts loc d hs)); [reflexivity|].
    rewrite memZ_app. replace (memZ h R) with false.
    2:{ symmetry. apply memZ_false. intro Hin. apply (HR _ Hin). assumption. }
    cbn [orb]. destruct (memZ h (n_replicas st)); [reflexivity|].
    destruct (memZ (rack_of loc h) (n_racks_placed st) && (lenZ (n_racks_placed st) <? num_racks loc d hs)); [reflexivity|].
    destruct (lenZ (set_add (rack_of loc h) (n_racks_placed st)) =? num_racks loc d hs).
    - rewrite <- app_assoc, flush_lift.
      destruct (nts_flush (n_skipped st) (n_replicas st ++ [h]) (n_remaining st - 1)) as [x r]. reflexivity.
    - unfold lift. cbn [n_replicas n_remaining n_this_dc n_skipped n_racks_placed]. rewrite <- app_assoc. reflexivity.
  Qed.

  Lemma fold_lift : forall d R l st, (forall x, In x R -> dc_of loc x <> d) -> Forall (fun h => dc_of loc h = d) l ->
    fold_left (dc_step d) l (lift R st) = lift R (fold_left (dc_step d) l st).
  Proof.
    induction l as [|h l IH]; intros st HR Hl; [reflexivity|]. inversion Hl as [|? ? Hh Hl']. clear Hl.
    cbn [fold_left]. rewrite step_lift by assumption. apply IH; assumption.
  Qed.

  Lemma visited_in_dc : forall d k, Forall (fun h => dc_of loc h = d) (filter (in_dc d) (rot k hs)).
  Proof. intros. apply Forall_forall. intros h Hin. apply filter_In in Hin. destruct Hin as [_ H]. apply Z.eqb_eq. exact H. Qed.

  Lemma dc_pass_lift : forall d r R k, (forall x, In x R -> dc_of loc x <> d) -> dc_pass d r R k = R ++ dc_pass d r [] k.
  Proof.
    intros. unfold dc_pass.
    assert (E : st0 R r = lift R (st0 [] r)) by (unfold lift, st0; cbn; rewrite app_nil_r; reflexivity).
    rewrite E, fold_lift; [reflexivity | assumption | apply visited_in_dc].
  Qed.

  (* ---------------- a row of the replica map, without the index bookkeeping *)
  Definition pure_dc (k : nat) (reps : list Z) (d : Z) : list Z :=
    match dc_rf rfs d with None => reps | Some r => dc_pass d r reps k end.
  Definition pass_of (k : nat) (d : Z) : list Z :=
    match dc_rf rfs d with None => [] | Some r => dc_pass d r [] k end.
  Definition pure_row (k : nat) : list Z := fold_left (pure_dc k) (dc_keys loc hs) [].
  Definition cur_ok (k : nat) (cur : Z -> nat) : Prop := forall d, (cur d <= cnt d k)%nat.

  Lemma nts_dc_pure : forall k cur reps d, (k <= length hs)%nat -> cur_ok k cur ->
    exists cur', nts_dc true loc rfs hs k (cur, reps) d = (cur', pure_dc k reps d) /\ cur_ok k cur'.
  Proof.
    intros k cur reps d Hk Hc. unfold nts_dc, pure_dc. destruct (dc_rf rfs d) as [r|]; [|exists cur; split; [reflexivity|assumption]].
    destruct (visited_eq d k (cur d) Hk (Hc d)) as [Hadv Hvis]. cbv zeta in Hadv, Hvis.
    exists (upd cur d (cnt d k)). split.
    - rewrite Hadv, Hvis. reflexivity.
    - intros d'. unfold upd. destruct (d' =? d) eqn:E; [apply Z.eqb_eq in E; subst; lia | apply Hc].
  Qed.

  Lemma nts_dcs_pure : forall k ds cur reps, (k <= length hs)%nat -> cur_ok k cur ->
    exists cur', fold_left (nts_dc true loc rfs hs k) ds (cur, reps) = (cur', fold_left (pure_dc k) ds reps) /\ cur_ok k cur'.
  Proof.
    induction ds as [|d ds IH]; intros cur reps Hk Hc; cbn [fold_left].
    - exists cur. split; [reflexivity | assumption].
    - destruct (nts_dc_pure k cur reps d Hk Hc) as [cur1 [E1 Hc1]]. rewrite E1. apply IH; assumption.
  Qed.

  Lemma nts_rows_pure : forall m a cur, (a + m <= length hs)%nat -> cur_ok a cur ->
    nts_rows true loc rfs hs (seq a m) cur = map pure_row (seq a m).
  Proof.
    induction m as [|m IH]; intros a cur Hlen Hc; cbn [seq nts_rows map]; [reflexivity|].
    destruct (nts_dcs_pure a (dc_keys loc hs) cur [] ltac:(lia) Hc) as [cur' [E Hc']].
    rewrite E. f_equal. apply IH; [lia|].
    intros d. specialize (Hc' d). pose proof (cnt_mono d a). lia.
  Qed.

  Lemma nts_map_rows : forall ring, hs = map snd ring ->
    nts_map_gen true loc rfs ring = combine (map fst ring) (map pure_row (seq 0 (length ring))).
  Proof.
    intros ring E. unfold nts_map_gen. rewrite <- E. rewrite nts_rows_pure; [reflexivity | | intros d; unfold cnt; cbn; lia].
    rewrite E, map_length. lia.
  Qed.

  (* ---------------- a row is the concatenation of the per-dc passes *)
  Hypothesis pass_of_dc : forall k d h, In h (pass_of k d) -> dc_of loc h = d.

  Lemma pure_dc_lift : forall k R d, (forall x, In x R -> dc_of loc x <> d) -> pure_dc k R d = R ++ pass_of k d.
  Proof.
    intros. unfold pure_dc, pass_of. destruct (dc_rf rfs d); [apply dc_pass_lift; assumption | rewrite app_nil_r; reflexivity].
  Qed.

  Lemma row_concat : forall k ds R, NoDup ds -> (forall x, In x R -> ~ In (dc_of loc x) ds) ->
    fold_left (pure_dc k) ds R = R ++ concat (map (pass_of k) ds).
  Proof.
    induction ds as [|d ds IH]; intros R Hn HR; cbn [fold_left map concat]; [rewrite app_nil_r; reflexivity|].
    inversion Hn as [|? ? Hd Hn']; subst.
    rewrite pure_dc_lift.
    2:{ intros x Hx E. apply (HR x Hx). left. symmetry. exact E. }
    rewrite IH; [rewrite <- app_assoc; reflexivity | assumption |].
    intros x Hx Hin. apply in_app_or in Hx. destruct Hx as [Hx|Hx].
    - apply (HR x Hx). right. assumption.
    - apply pass_of_dc in Hx. subst. contradiction.
  Qed.

  Lemma pure_row_concat : forall k, pure_row k = concat (map (pass_of k) (dc_keys loc hs)).
  Proof.
    intros. unfold pure_row. rewrite row_concat; [reflexivity | apply dedup_NoDup | intros x []].
  Qed.
End Impl.
