(* Lemmas for C39 (Model/Encryption.v). *)
From Coq Require Import ZArith List Bool Lia Arith.
From Verif Require Import Encryption.
Import ListNotations.
Local Open Scope Z_scope.

(* ------------------------------------------------------------------ PKCS7 *)
Lemma pad_len_range : forall x, (1 <= pad_len x <= 16)%nat.
Proof.
  intros x. unfold pad_len. pose proof (Nat.mod_upper_bound (length x) 16). lia.
Qed.

Lemma pad_length : forall x, length (pad x) = (length x + pad_len x)%nat.
Proof. intros x. unfold pad. rewrite app_length, repeat_length. reflexivity. Qed.

Lemma pad_aligned : forall x, (length (pad x) mod 16 = 0)%nat.
Proof.
  intros x. rewrite pad_length. unfold pad_len.
  pose proof (Nat.div_mod (length x) 16 ltac:(lia)) as Hd.
  pose proof (Nat.mod_upper_bound (length x) 16 ltac:(lia)) as Hr.
  replace (length x + (16 - length x mod 16))%nat with ((length x / 16 + 1) * 16)%nat by lia.
  apply Nat.mod_mul. lia.
Qed.

Lemma last_repeat : forall (v : Z) n l d, (1 <= n)%nat -> last (l ++ repeat v n) d = v.
Proof.
  intros v n l d Hn. destruct n as [|n]; [lia|].
  replace (repeat v (S n)) with (repeat v n ++ [v]).
  - rewrite app_assoc. apply last_last.
  - clear. induction n as [|n IH]; [reflexivity|]. cbn [repeat app]. rewrite IH. reflexivity.
Qed.

Lemma forallb_repeat : forall v n, forallb (Z.eqb v) (repeat v n) = true.
Proof. intros v n. induction n as [|n IH]; [reflexivity|]. cbn. rewrite Z.eqb_refl, IH. reflexivity. Qed.

Lemma skipn_len_app : forall {A} (a b : list A), skipn (length a) (a ++ b) = b.
Proof. intros A a b. induction a as [|x a IH]; [reflexivity|exact IH]. Qed.

Lemma firstn_len_app : forall {A} (a b : list A), firstn (length a) (a ++ b) = a.
Proof. intros A a b. induction a as [|x a IH]; [destruct b; reflexivity|cbn; f_equal; exact IH]. Qed.

Lemma unpad_pad : forall x, unpad (pad x) = Some x.
Proof.
  intros x. unfold unpad. pose proof (pad_len_range x) as Hr. pose proof (pad_aligned x) as Ha.
  pose proof (pad_length x) as Hl.
  assert (last (pad x) 0 = Z.of_nat (pad_len x)) as Hlast by (unfold pad; apply last_repeat; lia).
  destruct (Nat.eqb_spec (length (pad x)) 0); [lia|]. rewrite Ha. cbn [Nat.eqb negb orb].
  rewrite Hlast.
  destruct (Z.leb_spec 1 (Z.of_nat (pad_len x))); [|lia].
  destruct (Z.leb_spec (Z.of_nat (pad_len x)) 16); [|lia]. cbn [andb].
  rewrite Nat2Z.id. rewrite Hl. replace (length x + pad_len x - pad_len x)%nat with (length x) by lia.
  unfold pad. rewrite skipn_len_app, forallb_repeat, firstn_len_app. reflexivity.
Qed.

(* ------------------------------------------------------------------ all_some / zip_with *)
Lemma all_some_cons : forall {A} (o : option A) l r, all_some (o :: l) = Some r ->
  exists a r', o = Some a /\ all_some l = Some r' /\ r = a :: r'.
Proof.
  intros A o l r H. cbn [all_some] in H. destruct o as [a|]; [|discriminate].
  destruct (all_some l) as [r'|]; [|discriminate]. inversion H; subst. eauto.
Qed.

Section EncProofs.
  Variable V T : Type.
  Variable ser : T -> V -> option (list Z).
  Variable deser : T -> list Z -> option V.
  Variable enc dec : list Z -> list Z -> list Z -> list Z.
  Hypothesis aes_roundtrip : forall k iv x, (length x mod 16 = 0)%nat -> dec k iv (enc k iv x) = x.
  Hypothesis codec_roundtrip : forall t v b, ser t v = Some b -> deser t b = Some v.

  Lemma decrypt_encrypt : forall k iv x, length iv = 16%nat -> decrypt dec k (encrypt enc k iv x) = Some x.
  Proof.
    intros k iv x Hiv. unfold decrypt, encrypt.
    replace 16%nat with (length iv) at 1 2 by exact Hiv.
    rewrite firstn_len_app, skipn_len_app, aes_roundtrip by apply pad_aligned. apply unpad_pad.
  Qed.

  Lemma cell_roundtrip : forall iv c v w, length iv = 16%nat ->
    bind_cell V T ser enc iv c v = Some w -> decode_val V T deser dec c w = Some v.
  Proof.
    intros iv c v w Hiv H. unfold bind_cell in H. destruct v as [x|].
    - unfold eff_type in H. unfold decode_val. destruct (ce_key c) as [k|].
      + destruct (ser (pol_type c) x) as [b|] eqn:Es; [|discriminate]. inversion H; subst.
        rewrite decrypt_encrypt by assumption. rewrite (codec_roundtrip _ _ _ Es). reflexivity.
      + destruct (ser (meta_type c) x) as [b|] eqn:Es; [|discriminate]. inversion H; subst.
        rewrite (codec_roundtrip _ _ _ Es). reflexivity.
    - inversion H; subst. unfold decode_val. destruct (ce_key c); reflexivity.
  Qed.

  Lemma row_roundtrip : forall iv vals cols w, length iv = 16%nat -> (length vals <= length cols)%nat ->
    bind_row V T ser enc iv cols vals = Some w ->
    decode_row_with V T (decode_val V T deser dec) cols w = Some vals.
  Proof.
    intros iv vals. induction vals as [|v vals IH]; intros cols w Hiv Hlen H; unfold bind_row in H.
    - cbn in H. inversion H; subst. reflexivity.
    - destruct cols as [|c cols]; [cbn in Hlen; lia|]. cbn [zip_with] in H.
      apply all_some_cons in H. destruct H as [cell [w' [Hc [Hr Hw]]]]. subst w.
      unfold decode_row_with. cbn [zip_with all_some]. rewrite (cell_roundtrip _ _ _ _ Hiv Hc).
      fold (decode_row_with V T (decode_val V T deser dec) cols w').
      rewrite (IH cols w' Hiv); [reflexivity|cbn in Hlen; lia|exact Hr].
  Qed.

  Lemma rows_roundtrip : forall iv cols rows wire, length iv = 16%nat ->
    Forall (fun r => length r <= length cols)%nat rows ->
    bind_rows V T ser enc iv cols rows = Some wire ->
    decode_rows V T deser dec cols wire = Some rows.
  Proof.
    intros iv cols rows. induction rows as [|r rows IH]; intros wire Hiv Hall H; unfold bind_rows in H.
    - cbn in H. inversion H; subst. reflexivity.
    - cbn [map] in H. apply all_some_cons in H. destruct H as [w [wire' [Hr [Hrest Hw]]]]. subst wire.
      inversion Hall; subst. unfold decode_rows, decode_rows_with. cbn [map all_some].
      rewrite (row_roundtrip _ _ _ _ Hiv H1 Hr).
      fold (decode_rows_with V T (decode_val V T deser dec) cols wire'). fold (decode_rows V T deser dec cols wire').
      rewrite (IH wire' Hiv H2 Hrest). reflexivity.
  Qed.

  Lemma bind_row_nth : forall iv vals cols w i c v, bind_row V T ser enc iv cols vals = Some w ->
    nth_error cols i = Some c -> nth_error vals i = Some v ->
    exists cell, nth_error w i = Some cell /\ bind_cell V T ser enc iv c v = Some cell.
  Proof.
    intros iv vals. induction vals as [|v0 vals IH]; intros cols w i c v H Hc Hv; [destruct i; discriminate|].
    destruct cols as [|c0 cols]; [destruct i; discriminate|]. unfold bind_row in H. cbn [zip_with] in H.
    apply all_some_cons in H. destruct H as [cell [w' [Hcell [Hr Hw]]]]. subst w.
    destruct i as [|i]; cbn [nth_error] in *.
    - inversion Hc; inversion Hv; subst. eauto.
    - eapply IH; eauto.
  Qed.

  Lemma sent_encrypted : forall iv vals cols w i c k x, bind_row V T ser enc iv cols vals = Some w ->
    nth_error cols i = Some c -> ce_key c = Some k -> nth_error vals i = Some (Some x) ->
    exists b, ser (pol_type c) x = Some b /\ nth_error w i = Some (Some (encrypt enc k iv b)).
  Proof.
    intros iv vals cols w i c k x H Hc Hk Hv. destruct (bind_row_nth _ _ _ _ _ _ _ H Hc Hv) as [cell [Hn Hb]].
    unfold bind_cell, eff_type in Hb. rewrite Hk in Hb. destruct (ser (pol_type c) x) as [b|]; [|discriminate].
    inversion Hb; subst. eauto.
  Qed.

  Lemma null_sent_null : forall iv vals cols w i c, bind_row V T ser enc iv cols vals = Some w ->
    nth_error cols i = Some c -> nth_error vals i = Some None -> nth_error w i = Some None.
  Proof.
    intros iv vals cols w i c H Hc Hv. destruct (bind_row_nth _ _ _ _ _ _ _ H Hc Hv) as [cell [Hn Hb]].
    cbn in Hb. inversion Hb; subst. exact Hn.
  Qed.

  Lemma plain_sent_plain : forall iv vals cols w i c x, bind_row V T ser enc iv cols vals = Some w ->
    nth_error cols i = Some c -> ce_key c = None -> nth_error vals i = Some (Some x) ->
    exists b, ser (meta_type c) x = Some b /\ nth_error w i = Some (Some b).
  Proof.
    intros iv vals cols w i c x H Hc Hk Hv. destruct (bind_row_nth _ _ _ _ _ _ _ H Hc Hv) as [cell [Hn Hb]].
    unfold bind_cell, eff_type in Hb. rewrite Hk in Hb. destruct (ser (meta_type c) x) as [b|]; [|discriminate].
    inversion Hb; subst. eauto.
  Qed.
End EncProofs.

(* ------------------------------------------------------------------ policy lookup per column, policy histories *)
Lemma desc_eqb_eq : forall a b, desc_eqb a b = true <-> a = b.
Proof.
  intros [[a1 a2] a3] [[b1 b2] b3]. unfold desc_eqb. rewrite !andb_true_iff, !Z.eqb_eq. split.
  - intros [[H1 H2] H3]. subst. reflexivity.
  - intros H. inversion H. auto.
Qed.

Section PolicyProofs.
  Variable V T : Type.
  Variable ser : T -> V -> option (list Z).
  Variable deser : T -> list Z -> option V.
  Variable enc dec : list Z -> list Z -> list Z -> list Z.
  Hypothesis aes_roundtrip : forall k iv x, (length x mod 16 = 0)%nat -> dec k iv (enc k iv x) = x.
  Hypothesis codec_roundtrip : forall t v b, ser t v = Some b -> deser t b = Some v.

  Lemma add_column_find : forall (p : policy T) d k t d',
    pol_find T (add_column T p d k t) d' = if desc_eqb d d' then Some (k, t) else pol_find T p d'.
  Proof. intros. reflexivity. Qed.

  (* at ANY policy state: rows written through a prepared statement come back unchanged *)
  Lemma round_transparent : forall (p : policy T) ms iv rows wire, length iv = 16%nat ->
    Forall (fun r => length r <= length ms)%nat rows ->
    bind_rows V T ser enc iv (map (resolve T p) ms) rows = Some wire ->
    snd (pstep V T ser deser enc dec p (PRound V T ms iv rows)) = OutRound V (Some wire) (Some rows).
  Proof.
    intros p ms iv rows wire Hiv Hall Hb. cbn [pstep snd]. rewrite Hb. f_equal.
    apply (rows_roundtrip V T ser deser enc dec aes_roundtrip codec_roundtrip iv _ rows wire Hiv); [|exact Hb].
    rewrite map_length. exact Hall.
  Qed.

  Lemma pstep_round_keeps : forall (p : policy T) ms iv rows, fst (pstep V T ser deser enc dec p (PRound V T ms iv rows)) = p.
  Proof. reflexivity. Qed.

  Lemma pstep_decode_keeps : forall (p : policy T) ms wire, fst (pstep V T ser deser enc dec p (PDecode V T ms wire)) = p.
  Proof. reflexivity. Qed.

  (* each marker is looked up under its OWN (keyspace, table, name) *)
  Lemma sent_by_own_desc : forall (p : policy T) iv vals ms w i m, 
    bind_row V T ser enc iv (map (resolve T p) ms) vals = Some w -> nth_error ms i = Some m ->
    (forall k t x, pol_find T p (m_desc m) = Some (k, t) -> nth_error vals i = Some (Some x) ->
       exists b, ser t x = Some b /\ nth_error w i = Some (Some (encrypt enc k iv b))) /\
    (forall x, pol_find T p (m_desc m) = None -> nth_error vals i = Some (Some x) ->
       exists b, ser (m_type m) x = Some b /\ nth_error w i = Some (Some b)).
  Proof.
    intros p iv vals ms w i m Hb Hm. pose proof (map_nth_error (resolve T p) i ms Hm) as Hc. split.
    - intros k t x Hf Hv.
      destruct (sent_encrypted V T ser enc iv vals _ w i (resolve T p m) k x Hb Hc) as [b [Hs Hn]]; auto.
      + unfold resolve. rewrite Hf. reflexivity.
      + exists b. unfold resolve in Hs. rewrite Hf in Hs. auto.
    - intros x Hf Hv.
      destruct (plain_sent_plain V T ser enc iv vals _ w i (resolve T p m) x Hb Hc) as [b [Hs Hn]]; auto.
      + unfold resolve. rewrite Hf. reflexivity.
      + exists b. unfold resolve in Hs. rewrite Hf in Hs. auto.
  Qed.

  (* in ANY world state, for ANY session and statement shape: binding consults the policy object of the session's cluster,
     decoding consults the same object, so a round trip returns the rows *)
  Lemma session_round_transparent : forall (st : wstate T) s sh ms iv rows wire, length iv = 16%nat ->
    Forall (fun r => length r <= length ms)%nat rows ->
    bind_rows V T ser enc iv (map (resolve T (stmt_policy T (fst st) (nth s (snd st) 0%nat) sh)) ms) rows = Some wire ->
    wstep V T ser deser enc dec st (WRound V T s sh ms iv rows) = (st, OutRound V (Some wire) (Some rows)).
  Proof.
    intros [w sessions] s sh ms iv rows wire Hiv Hall Hb. cbn [fst snd] in Hb.
    unfold wstep, wstep_with. rewrite Hb. f_equal. f_equal.
    assert (stmt_policy T w (nth s sessions 0%nat) sh = handler_policy T w sessions s) as Heq by (destruct sh; reflexivity).
    rewrite Heq in Hb.
    apply (rows_roundtrip V T ser deser enc dec aes_roundtrip codec_roundtrip iv _ rows wire Hiv); [|exact Hb].
    rewrite map_length. exact Hall.
  Qed.

  Lemma reregistration_wins : forall (p : policy T) d k1 t1 k2 t2,
    pol_find T (add_column T (add_column T p d k1 t1) d k2 t2) d = Some (k2, t2).
  Proof. intros. rewrite add_column_find. rewrite (proj2 (desc_eqb_eq d d) eq_refl). reflexivity. Qed.
End PolicyProofs.
