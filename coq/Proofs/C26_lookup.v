(* C26: bisect_left, firstTokenIndex, and TokenMap.get_replicas as "row number idx_of toks t" of the replica map;
   SimpleStrategy model = spec. *)
From Coq Require Import ZArith List Bool Lia.
From Verif Require Import RingBase Ring PlacementSpec C26_lists.
Import ListNotations.
Local Open Scope Z_scope.

Definition lt_count (toks : list Z) (t : Z) : nat := length (filter (fun x => x <? t) toks).
Definition idx_of (toks : list Z) (t : Z) : nat :=
  let c := lt_count toks t in if Nat.eqb c (length toks) then O else c.

Lemma lt_count_le : forall toks t, (lt_count toks t <= length toks)%nat.
Proof.
  intros. unfold lt_count. induction toks as [|a l IH]; cbn [filter length]; [lia|].
  destruct (a <? t); cbn [length]; lia.
Qed.

Lemma lt_count_zero : forall l t, Forall (fun x => t <= x) l -> lt_count l t = O.
Proof.
  induction l as [|a l IH]; intros t H; [reflexivity|]. inversion H; subst.
  unfold lt_count. cbn [filter]. destruct (a <? t) eqn:E; [apply Z.ltb_lt in E; lia|]. apply IH. assumption.
Qed.

Lemma lt_count_cons : forall a l t, lt_count (a :: l) t = if a <? t then S (lt_count l t) else lt_count l t.
Proof. intros. unfold lt_count. cbn [filter]. destruct (a <? t); reflexivity. Qed.

Lemma nth_lt_count : forall toks t m, strictly_sorted toks = true -> (m < length toks)%nat ->
  (nth m toks 0 <? t) = Nat.ltb m (lt_count toks t).
Proof.
  induction toks as [|a l IH]; intros t m Hs Hm; cbn [length] in Hm; [lia|].
  destruct (strictly_sorted_cons _ _ Hs) as [Hf Hs'].
  rewrite lt_count_cons. destruct (a <? t) eqn:E.
  - destruct m as [|m]; cbn [nth]; [rewrite E; reflexivity|].
    rewrite IH by (assumption || lia). reflexivity.
  - apply Z.ltb_ge in E. rewrite lt_count_zero.
    2:{ eapply Forall_impl; [|exact Hf]. cbn. intros. lia. }
    replace (Nat.ltb m 0) with false by (symmetry; apply Nat.ltb_ge; lia).
    apply Z.ltb_ge. destruct m as [|m]; cbn [nth]; [assumption|].
    rewrite Forall_forall in Hf. assert (In (nth m l 0) l) by (apply nth_In; lia). specialize (Hf _ H). lia.
Qed.

Lemma lt_count_nth : forall toks k, strictly_sorted toks = true -> (k < length toks)%nat ->
  lt_count toks (nth k toks 0) = k.
Proof.
  induction toks as [|a l IH]; intros k Hs Hk; cbn [length] in Hk; [lia|].
  destruct (strictly_sorted_cons _ _ Hs) as [Hall Hs']. rewrite lt_count_cons.
  destruct k as [|k]; cbn [nth].
  - rewrite Z.ltb_irrefl. apply lt_count_zero. eapply Forall_impl; [|exact Hall]. cbn. intros. lia.
  - rewrite Forall_forall in Hall. assert (Hin : In (nth k l 0) l) by (apply nth_In; lia).
    specialize (Hall _ Hin). replace (a <? nth k l 0) with true by (symmetry; apply Z.ltb_lt; lia).
    rewrite IH by (assumption || lia). reflexivity.
Qed.

Lemma bisect_loop_correct : forall fuel a x lo hi, strictly_sorted a = true ->
  (lo <= lt_count a x)%nat -> (lt_count a x <= hi)%nat -> (hi <= length a)%nat -> (hi - lo < fuel)%nat ->
  bisect_loop fuel a x lo hi = lt_count a x.
Proof.
  induction fuel as [|f IH]; intros a x lo hi Hs Hlo Hhi Hn Hf; [lia|].
  cbn [bisect_loop]. destruct (Nat.ltb lo hi) eqn:E.
  - apply Nat.ltb_lt in E.
    assert (Hm : (lo <= Nat.div (lo + hi) 2 < hi)%nat).
    { pose proof (Nat.div_mod (lo + hi) 2 ltac:(lia)). pose proof (Nat.mod_upper_bound (lo + hi) 2 ltac:(lia)). lia. }
    rewrite nth_lt_count by (assumption || lia).
    destruct (Nat.ltb (Nat.div (lo + hi) 2) (lt_count a x)) eqn:E2.
    + apply Nat.ltb_lt in E2. apply IH; try assumption; lia.
    + apply Nat.ltb_ge in E2. apply IH; try assumption; lia.
  - apply Nat.ltb_ge in E. lia.
Qed.

Lemma bisect_left_correct : forall a x, strictly_sorted a = true -> bisect_left a x = lt_count a x.
Proof.
  intros. unfold bisect_left. apply bisect_loop_correct; try assumption; try lia. apply lt_count_le.
Qed.

Lemma first_ge_count : forall ring t, strictly_sorted (map fst ring) = true ->
  first_ge ring t = if Nat.eqb (lt_count (map fst ring) t) (length ring) then None else Some (lt_count (map fst ring) t).
Proof.
  induction ring as [|[tk h] r IH]; intros t Hs; [reflexivity|].
  cbn [map fst] in Hs. destruct (strictly_sorted_cons _ _ Hs) as [Hf Hs'].
  cbn [first_ge map fst length]. rewrite lt_count_cons.
  destruct (t <=? tk) eqn:E.
  - apply Z.leb_le in E. replace (tk <? t) with false by (symmetry; apply Z.ltb_ge; lia).
    rewrite lt_count_zero. 2:{ eapply Forall_impl; [|exact Hf]. cbn. intros. lia. }
    reflexivity.
  - apply Z.leb_gt in E. replace (tk <? t) with true by (symmetry; apply Z.ltb_lt; lia).
    rewrite IH by assumption. cbn [Nat.eqb].
    destruct (Nat.eqb (lt_count (map fst r) t) (length r)); reflexivity.
Qed.

Lemma first_token_index_idx : forall ring t, strictly_sorted (map fst ring) = true ->
  first_token_index ring t = idx_of (map fst ring) t.
Proof.
  intros. unfold first_token_index, idx_of. rewrite first_ge_count by assumption. rewrite map_length.
  destruct (Nat.eqb (lt_count (map fst ring) t) (length ring)); reflexivity.
Qed.

Lemma idx_of_lt : forall toks t, toks <> [] -> (idx_of toks t < length toks)%nat.
Proof.
  intros toks t Hne. unfold idx_of. pose proof (lt_count_le toks t).
  destruct (Nat.eqb (lt_count toks t) (length toks)) eqn:E.
  - destruct toks; [congruence | cbn; lia].
  - apply Nat.eqb_neq in E. lia.
Qed.

(* get_replicas reads the map at the ring token number idx_of *)
Lemma get_replicas_idx : forall rmap toks t, strictly_sorted toks = true ->
  get_replicas rmap toks t =
  match rmap with [] => [] | _ => match assoc (nth (idx_of toks t) toks 0) rmap with Some l => l | None => [] end end.
Proof.
  intros. unfold get_replicas, idx_of. rewrite bisect_left_correct by assumption.
  destruct rmap; [reflexivity|]. destruct (Nat.eqb (lt_count toks t) (length toks)); reflexivity.
Qed.

Lemma get_replicas_row : forall toks (rows : list (list Z)) t, strictly_sorted toks = true ->
  length rows = length toks -> get_replicas (combine toks rows) toks t = nth (idx_of toks t) rows [].
Proof.
  intros toks rows t Hs Hl. rewrite get_replicas_idx by assumption.
  destruct toks as [|a toks'].
  - destruct rows; [|discriminate]. cbn. destruct (idx_of [] t); reflexivity.
  - destruct rows as [|r rows']; [discriminate|].
    change (combine (a :: toks') (r :: rows')) with ((a, r) :: combine toks' rows') at 1.
    cbv beta iota.
    change ((a, r) :: combine toks' rows') with (combine (a :: toks') (r :: rows')).
    rewrite assoc_combine with (dv := @nil Z); [reflexivity | apply strictly_sorted_NoDup; assumption | assumption |].
    apply idx_of_lt. discriminate.
Qed.

Lemma nth_map_seq : forall {V} (f : nat -> V) n k dv, (k < n)%nat -> nth k (map f (seq 0 n)) dv = f k.
Proof.
  intros. rewrite nth_indep with (d' := f O) by (rewrite map_length, seq_length; assumption).
  rewrite map_nth. rewrite seq_nth by assumption. reflexivity.
Qed.

(* ---- which tokens share a row: the first ring token >= t, else the first token *)
Lemma lt_count_find : forall toks t tk, strictly_sorted toks = true ->
  find (fun x => t <=? x) toks = Some tk -> lt_count toks tk = lt_count toks t /\ In tk toks.
Proof.
  induction toks as [|a l IH]; intros t tk Hs Hf; [discriminate|].
  destruct (strictly_sorted_cons _ _ Hs) as [Hall Hs'].
  cbn [find] in Hf. rewrite !lt_count_cons. destruct (t <=? a) eqn:E.
  - inversion Hf; subst. apply Z.leb_le in E. rewrite Z.ltb_irrefl.
    replace (tk <? t) with false by (symmetry; apply Z.ltb_ge; lia).
    rewrite !lt_count_zero; [split; [reflexivity | left; reflexivity] | |].
    + eapply Forall_impl; [|exact Hall]. cbn. intros. lia.
    + eapply Forall_impl; [|exact Hall]. cbn. intros. lia.
  - apply Z.leb_gt in E. destruct (IH _ _ Hs' Hf) as [Hc Hin].
    rewrite Forall_forall in Hall. specialize (Hall _ Hin).
    replace (a <? tk) with true by (symmetry; apply Z.ltb_lt; lia).
    replace (a <? t) with true by (symmetry; apply Z.ltb_lt; lia).
    split; [congruence | right; assumption].
Qed.

Lemma lt_count_find_none : forall toks t, find (fun x => t <=? x) toks = None -> lt_count toks t = length toks.
Proof.
  induction toks as [|a l IH]; intros t Hf; [reflexivity|].
  cbn [find] in Hf. rewrite lt_count_cons. destruct (t <=? a) eqn:E; [discriminate|].
  apply Z.leb_gt in E. replace (a <? t) with true by (symmetry; apply Z.ltb_lt; lia).
  cbn [length]. rewrite IH by assumption. reflexivity.
Qed.

Lemma idx_of_range_owner : forall toks t, strictly_sorted toks = true ->
  idx_of toks t = idx_of toks (match find (fun x => t <=? x) toks with Some tk => tk | None => hd 0 toks end).
Proof.
  intros toks t Hs. destruct (find (fun x => t <=? x) toks) as [tk|] eqn:Hf.
  - destruct (lt_count_find _ _ _ Hs Hf) as [Hc _]. unfold idx_of. rewrite Hc. reflexivity.
  - unfold idx_of. rewrite (lt_count_find_none _ _ Hf), Nat.eqb_refl.
    destruct toks as [|a l]; [reflexivity|]. cbn [hd].
    destruct (strictly_sorted_cons _ _ Hs) as [Hall _].
    rewrite lt_count_cons, Z.ltb_irrefl, lt_count_zero.
    2:{ eapply Forall_impl; [|exact Hall]. cbn. intros. lia. }
    reflexivity.
Qed.

(* ---- SimpleStrategy *)
Lemma simple_fold_walk : forall rf l acc, fold_left (simple_step rf) l acc = simple_walk rf l acc.
Proof.
  induction l as [|h l IH]; intros acc; [reflexivity|].
  cbn [fold_left simple_walk]. unfold simple_step at 2. destruct (lenZ acc <? rf) eqn:E.
  - rewrite IH. reflexivity.
  - clear IH. induction l as [|h' l IHl]; [reflexivity|]. cbn [fold_left]. unfold simple_step at 2. rewrite E. exact IHl.
Qed.

Lemma simple_map_combine : forall rf ring,
  simple_map rf ring = combine (map fst ring) (map (simple_row rf (map snd ring)) (seq 0 (length ring))).
Proof.
  intros. unfold simple_map. rewrite <- (map_length fst ring). rewrite <- map_seq_combine.
  apply map_ext. intros i. rewrite Nat.sub_0_r. reflexivity.
Qed.

Lemma simple_correct : forall loc rf ring t, strictly_sorted (map fst ring) = true ->
  driver_replicas loc (Simple rf) ring t = simple_spec rf ring t.
Proof.
  intros loc rf ring t Hs. unfold driver_replicas, replica_map, simple_spec, ring_iterator.
  rewrite simple_map_combine, get_replicas_row by (assumption || (rewrite !map_length, seq_length; reflexivity)).
  rewrite first_token_index_idx by assumption. rewrite map_rot.
  destruct ring as [|e ring'] eqn:Er.
  - cbn. destruct (idx_of [] t); reflexivity.
  - rewrite <- Er in *. rewrite nth_map_seq.
    + unfold simple_row. apply simple_fold_walk.
    + rewrite <- (map_length fst ring). apply idx_of_lt. rewrite Er. discriminate.
Qed.
