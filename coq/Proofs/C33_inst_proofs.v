(* C33: the element orders used for running the model satisfy (or, for nested sets, violate) the order laws. *)
From Coq Require Import ZArith List Bool Arith Lia Sorted.
From Verif Require Import SortedSet.
Import ListNotations.
Local Open Scope Z_scope.

Lemma z_ltb_irrefl : forall x, z_ltb x x = false.
Proof. intro x. unfold z_ltb. apply Z.ltb_irrefl. Qed.
Lemma z_ltb_trans : forall x y z, z_ltb x y = true -> z_ltb y z = true -> z_ltb x z = true.
Proof. unfold z_ltb. intros x y z H1 H2. apply Z.ltb_lt in H1, H2. apply Z.ltb_lt. lia. Qed.
Lemma z_ltb_total : forall x y, z_ltb x y = false -> z_ltb y x = false -> x = y.
Proof. unfold z_ltb. intros x y H1 H2. apply Z.ltb_ge in H1, H2. lia. Qed.
Lemma z_eqb_spec : forall x y, z_eqb x y = true <-> x = y.
Proof. intros. unfold z_eqb. apply Z.eqb_eq. Qed.

Lemma lz_ltb_irrefl : forall x, lz_ltb x x = false.
Proof. induction x as [|a x IH]; cbn; [reflexivity|]. rewrite Z.ltb_irrefl. exact IH. Qed.

Lemma lz_ltb_trans : forall x y z, lz_ltb x y = true -> lz_ltb y z = true -> lz_ltb x z = true.
Proof.
  induction x as [|a x IH]; intros [|b y] [|c z]; cbn; try discriminate; try reflexivity.
  destruct (a <? b) eqn:E1; destruct (b <? a) eqn:E1'; destruct (b <? c) eqn:E2; destruct (c <? b) eqn:E2';
    destruct (a <? c) eqn:E3; destruct (c <? a) eqn:E3'; try discriminate; try reflexivity;
    rewrite ?Z.ltb_lt, ?Z.ltb_ge in *; try lia.
  apply IH.
Qed.

Lemma lz_ltb_total : forall x y, lz_ltb x y = false -> lz_ltb y x = false -> x = y.
Proof.
  induction x as [|a x IH]; intros [|b y]; cbn; try discriminate; try reflexivity.
  destruct (a <? b) eqn:E1; destruct (b <? a) eqn:E2; try discriminate.
  intros H1 H2. rewrite Z.ltb_ge in *. f_equal; [lia|apply IH; assumption].
Qed.

Lemma lz_eqb_spec : forall x y, lz_eqb x y = true <-> x = y.
Proof.
  induction x as [|a x IH]; intros [|b y]; cbn; try (split; discriminate); [tauto|].
  rewrite andb_true_iff, Z.eqb_eq, IH. split; [intros [-> ->]; reflexivity|intro H; injection H; auto].
Qed.

(* nested sets: `<` is proper subset -- irreflexive and transitive, but NOT total *)
Lemma bm_ltb_irrefl : forall x, bm_ltb x x = false.
Proof. intro x. unfold bm_ltb. rewrite Z.eqb_refl. apply andb_false_r. Qed.

Lemma bm_ltb_trans : forall x y z, bm_ltb x y = true -> bm_ltb y z = true -> bm_ltb x z = true.
Proof.
  unfold bm_ltb. intros x y z H1 H2.
  apply andb_true_iff in H1. destruct H1 as [A1 B1]. apply andb_true_iff in H2. destruct H2 as [A2 B2].
  apply Z.eqb_eq in A1, A2. apply negb_true_iff in B1, B2. apply Z.eqb_neq in B1, B2.
  apply andb_true_iff. split.
  - apply Z.eqb_eq. rewrite <- A1 at 1. rewrite <- Z.land_assoc, A2. exact A1.
  - apply negb_true_iff. apply Z.eqb_neq. intros ->. apply B1.
    rewrite <- A2. rewrite Z.land_comm. symmetry. exact A1.
Qed.

Lemma bm_eqb_spec : forall x y, bm_eqb x y = true <-> x = y.
Proof. intros. unfold bm_eqb. apply Z.eqb_eq. Qed.

(* {1} and {2} (bitmasks 1 and 2): after adding both, the first one is no longer found *)
Lemma bm_witness : snd (step Z bm_ltb bm_eqb (final Z bm_ltb bm_eqb [] [OAdd 1; OAdd 2]) (OContains 1)) = RBool false
                   /\ In 1 (final Z bm_ltb bm_eqb [] [OAdd 1; OAdd 2]).
Proof. split; [reflexivity|]. vm_compute. right. left. reflexivity. Qed.

Lemma bm_run_not_ok : ~ run_ok Z bm_ltb bm_eqb [] [OAdd 1; OAdd 2; OContains 1].
Proof.
  cbn [run_ok]. intros [_ [_ [_ [_ [_ [H _]]]]]].
  cbn [spec] in H. destruct H as [_ [b [Hb Hiff]]].
  assert (b = false) as -> by (vm_compute in Hb; congruence).
  assert (false = true) by (apply Hiff; vm_compute; right; left; reflexivity). discriminate.
Qed.

(* a duplicate appears as well: the representation invariant is lost *)
Lemma bm_duplicate : final Z bm_ltb bm_eqb [] [OAdd 1; OAdd 2; OAdd 1] = [1; 2; 1].
Proof. reflexivity. Qed.
