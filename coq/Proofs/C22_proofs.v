(* C22: properties of the token-aware plan of Model/TokenAware.v *)
From Coq Require Import ZArith List Bool Lia Permutation.
From Verif Require Import LBP LBP_base_proofs TokenAware.
Import ListNotations.
Local Open Scope Z_scope.

Lemma ta_prefix_In : forall up cd order h,
  In h (ta_prefix up cd order) <-> In h order /\ up h = true /\ cd h = LOCAL.
Proof.
  intros. unfold ta_prefix. rewrite filter_In, andb_true_iff. unfold dist_eqb.
  rewrite Z.eqb_eq. destruct (cd h); simpl; split; intros; repeat split; try tauto; try lia; try discriminate;
    destruct H as [_ [_ H]]; discriminate.
Qed.

Lemma ta_rest_In : forall y child h, In h (ta_rest y child) <-> In h child /\ ~ In h y.
Proof. intros. unfold ta_rest. rewrite filter_In, negb_true_iff, mem_false. tauto. Qed.

Lemma ta_prefix_perm : forall up cd l l', Permutation l l' -> Permutation (ta_prefix up cd l) (ta_prefix up cd l').
Proof.
  intros up cd l l' H. unfold ta_prefix. induction H; simpl.
  - constructor.
  - destruct (up x && dist_eqb (cd x) LOCAL); [constructor|]; assumption.
  - destruct (up x && dist_eqb (cd x) LOCAL), (up y && dist_eqb (cd y) LOCAL); try apply Permutation_refl.
    + apply perm_swap.
  - eapply Permutation_trans; eassumption.
Qed.

Lemma ta_nodup : forall up cd order child, NoDup order -> NoDup child -> NoDup (ta_plan true up cd order child).
Proof.
  intros up cd order child H1 H2. simpl. apply nodup_app.
  - apply nodup_filter. exact H1.
  - apply nodup_filter. exact H2.
  - intros x Ha Hb. apply ta_rest_In in Hb. tauto.
Qed.

Lemma ta_nothing_lost : forall routed up cd order child h, In h child -> In h (ta_plan routed up cd order child).
Proof.
  intros routed up cd order child h H. destruct routed; simpl; [|exact H].
  rewrite in_app_iff, ta_rest_In.
  destruct (mem h (ta_prefix up cd order)) eqn:E; [left; apply mem_In; exact E|right; split; [exact H|apply mem_false; exact E]].
Qed.

Lemma ta_nothing_added : forall routed up cd order child h, In h (ta_plan routed up cd order child) ->
  In h child \/ (In h order /\ up h = true /\ cd h = LOCAL).
Proof.
  intros routed up cd order child h H. destruct routed; simpl in H; [|auto].
  rewrite in_app_iff, ta_rest_In, ta_prefix_In in H. tauto.
Qed.
