(* C26: list / set-as-list lemmas over RingBase. *)
From Coq Require Import ZArith List Bool Lia.
From Verif Require Import RingBase.
Import ListNotations.
Local Open Scope Z_scope.

Lemma memZ_In : forall x l, memZ x l = true <-> In x l.
Proof.
  induction l as [|y t IH]; cbn [memZ In].
  - split; [discriminate | tauto].
  - rewrite orb_true_iff, IH, Z.eqb_eq. intuition congruence.
Qed.

Lemma memZ_false : forall x l, memZ x l = false <-> ~ In x l.
Proof. intros. rewrite <- memZ_In. destruct (memZ x l); intuition congruence. Qed.

Lemma memZ_app : forall x a b, memZ x (a ++ b) = memZ x a || memZ x b.
Proof. induction a as [|y a IH]; intros; cbn [memZ app]; [reflexivity|]. rewrite IH, orb_assoc. reflexivity. Qed.

Lemma set_add_In : forall x y l, In y (set_add x l) <-> y = x \/ In y l.
Proof.
  intros. unfold set_add. destruct (memZ x l) eqn:E.
  - apply memZ_In in E. intuition congruence.
  - rewrite in_app_iff. cbn [In]. intuition congruence.
Qed.

Lemma NoDup_snoc : forall (x : Z) l, NoDup l -> ~ In x l -> NoDup (l ++ [x]).
Proof.
  intros x l Hn Hx. induction Hn as [|y l Hy Hn IH]; cbn [app].
  - constructor; [tauto | constructor].
  - constructor.
    + rewrite in_app_iff. cbn [In]. intros [H|[H|[]]]; [tauto|]. subst. apply Hx. left. reflexivity.
    + apply IH. intro. apply Hx. right. assumption.
Qed.

Lemma set_add_NoDup : forall x l, NoDup l -> NoDup (set_add x l).
Proof.
  intros. unfold set_add. destruct (memZ x l) eqn:E; [assumption|].
  apply NoDup_snoc; [assumption|]. apply memZ_false. assumption.
Qed.

Lemma set_add_length : forall x l, (length l <= length (set_add x l))%nat.
Proof. intros. unfold set_add. destruct (memZ x l); [lia|]. rewrite app_length. cbn. lia. Qed.

Lemma dedup_gen_In : forall l acc y, In y (fold_left (fun a x => set_add x a) l acc) <-> In y acc \/ In y l.
Proof.
  induction l as [|x l IH]; intros; cbn [fold_left In]; [tauto|].
  rewrite IH, set_add_In. intuition congruence.
Qed.

Lemma dedup_gen_NoDup : forall l acc, NoDup acc -> NoDup (fold_left (fun a x => set_add x a) l acc).
Proof. induction l as [|x l IH]; intros; cbn [fold_left]; [assumption|]. apply IH, set_add_NoDup. assumption. Qed.

Lemma dedup_In : forall l y, In y (dedup l) <-> In y l.
Proof. intros. unfold dedup. rewrite dedup_gen_In. cbn [In]. tauto. Qed.

Lemma dedup_NoDup : forall l, NoDup (dedup l).
Proof. intros. apply dedup_gen_NoDup. constructor. Qed.

(* two duplicate-free lists with the same elements have the same length *)
Lemma NoDup_same_length : forall (a b : list Z), NoDup a -> NoDup b -> (forall x, In x a <-> In x b) -> length a = length b.
Proof.
  intros a b Ha Hb H. apply Nat.le_antisymm; apply NoDup_incl_length; try assumption; intros x Hx; apply H; assumption.
Qed.

(* pigeonhole: a duplicate-free sublist as long as the whole contains everything *)
Lemma NoDup_full : forall (a b : list Z), NoDup a -> incl a b -> (length b <= length a)%nat -> NoDup b -> incl b a.
Proof. intros a b Ha Hi Hl Hb. apply NoDup_length_incl; assumption. Qed.

Lemma NoDup_incl_lenZ : forall (a b : list Z), NoDup a -> incl a b -> lenZ a <= lenZ b.
Proof. intros. unfold lenZ. apply inj_le. apply NoDup_incl_length; assumption. Qed.

(* ---- rot *)
Lemma rot_In : forall {A} k (l : list A) x, In x (rot k l) <-> In x l.
Proof.
  intros. unfold rot. rewrite in_app_iff. rewrite <- (firstn_skipn k l) at 3. rewrite in_app_iff. tauto.
Qed.

Lemma map_rot : forall {A B} (f : A -> B) k l, map f (rot k l) = rot k (map f l).
Proof. intros. unfold rot. rewrite map_app, skipn_map, firstn_map. reflexivity. Qed.

Lemma filter_rot : forall {A} (f : A -> bool) k l, filter f (rot k l) = filter f (skipn k l) ++ filter f (firstn k l).
Proof. intros. unfold rot. apply filter_app. Qed.

Lemma rot_nil : forall {A} k, rot k (@nil A) = [].
Proof. intros. unfold rot. rewrite skipn_nil, firstn_nil. reflexivity. Qed.

(* ---- assoc / combine *)
Lemma assoc_combine : forall {V} (ks : list Z) (vs : list V) k dv,
  NoDup ks -> length vs = length ks -> (k < length ks)%nat ->
  assoc (nth k ks 0) (combine ks vs) = Some (nth k vs dv).
Proof.
  induction ks as [|a ks IH]; intros vs k dv Hn Hl Hk; cbn [length] in *; [lia|].
  destruct vs as [|v vs]; cbn [length] in *; [lia|].
  inversion Hn as [|? ? Ha Hn']; subst.
  destruct k as [|k]; cbn [nth combine assoc].
  - rewrite Z.eqb_refl. reflexivity.
  - destruct (nth k ks 0 =? a) eqn:E.
    + apply Z.eqb_eq in E. exfalso. apply Ha. rewrite <- E. apply nth_In. lia.
    + apply IH; [assumption | lia | lia].
Qed.

Lemma assoc_In : forall {V} k (m : list (Z * V)) v, assoc k m = Some v -> In (k, v) m.
Proof.
  induction m as [|[k' v'] m IH]; intros v H; cbn [assoc] in H; [discriminate|].
  destruct (k =? k') eqn:E.
  - apply Z.eqb_eq in E. inversion H. subst. left. reflexivity.
  - right. apply IH. assumption.
Qed.

Lemma map_seq_combine : forall {V} (ks : list Z) (f : nat -> V) a,
  map (fun i => (nth (i - a) ks 0, f i)) (seq a (length ks)) = combine ks (map f (seq a (length ks))).
Proof.
  induction ks as [|k ks IH]; intros f a; cbn [length seq map combine]; [reflexivity|].
  f_equal.
  - rewrite Nat.sub_diag. reflexivity.
  - rewrite <- IH. apply map_ext_in. intros i Hi. apply in_seq in Hi.
    replace (i - a)%nat with (S (i - S a)) by lia. reflexivity.
Qed.

(* ---- strictly sorted *)
Lemma strictly_sorted_cons : forall a l, strictly_sorted (a :: l) = true -> Forall (fun x => a < x) l /\ strictly_sorted l = true.
Proof.
  intros a l. revert a. induction l as [|b l IH]; intros a H.
  - split; [constructor | reflexivity].
  - cbn [strictly_sorted] in H. apply andb_true_iff in H. destruct H as [Hab Hs]. apply Z.ltb_lt in Hab.
    destruct (IH b Hs) as [Hf Hs']. split; [|exact Hs].
    constructor; [assumption|]. eapply Forall_impl; [|exact Hf]. cbn. intros. lia.
Qed.

Lemma strictly_sorted_NoDup : forall l, strictly_sorted l = true -> NoDup l.
Proof.
  induction l as [|a l IH]; intros H; [constructor|].
  destruct (strictly_sorted_cons _ _ H) as [Hf Hs]. constructor; [|apply IH; assumption].
  intro Hin. rewrite Forall_forall in Hf. specialize (Hf _ Hin). lia.
Qed.
