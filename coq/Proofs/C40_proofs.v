(* C40 lemmas: base64 round trip (concrete), Duration decomposition round trip (integers), serializer dispatch, and the
   GraphSON 1/2/3 round trip by induction on the value tree under the assumed laws of Python's own leaf formatters. *)
From Coq Require Import ZArith List Bool Lia ZifyBool.
From Verif Require Import DyFloat GraphSON.
Import ListNotations.
Local Open Scope Z_scope.
Ltac Zify.zify_post_hook ::= Z.to_euclidean_division_equations.

(* ------------------------------------------------------------------ base64 *)
Definition is_byte (b : Z) : Prop := 0 <= b < 256.

Lemma b64_val_char : forall n, 0 <= n < 64 -> b64_val (b64_char n) = Some n.
Proof.
  intros n H.
  assert (In n (map Z.of_nat (seq 0 64))) as Hin.
  { replace n with (Z.of_nat (Z.to_nat n)) by lia. apply in_map. apply in_seq. lia. }
  revert n Hin H.
  assert (forallb (fun n => match b64_val (b64_char n) with Some m => m =? n | None => false end) (map Z.of_nat (seq 0 64)) = true)
    as Hall by (vm_compute; reflexivity).
  rewrite forallb_forall in Hall. intros n Hin _. specialize (Hall n Hin).
  destruct (b64_val (b64_char n)); [|discriminate]. f_equal. lia.
Qed.

Lemma b64_char_not_pad : forall n, 0 <= n < 64 -> (b64_char n =? 61) = false.
Proof.
  intros n H.
  assert (In n (map Z.of_nat (seq 0 64))) as Hin.
  { replace n with (Z.of_nat (Z.to_nat n)) by lia. apply in_map. apply in_seq. lia. }
  assert (forallb (fun n => negb (b64_char n =? 61)) (map Z.of_nat (seq 0 64)) = true) as Hall by (vm_compute; reflexivity).
  rewrite forallb_forall in Hall. specialize (Hall n Hin). destruct (b64_char n =? 61); [discriminate | reflexivity].
Qed.

Lemma list3_ind : forall (P : list Z -> Prop),
  P [] -> (forall a, P [a]) -> (forall a b, P [a; b]) -> (forall a b c rest, P rest -> P (a :: b :: c :: rest)) ->
  forall l, P l.
Proof.
  intros P H0 H1 H2 H3.
  assert (forall n l, (length l <= n)%nat -> P l) as Hn.
  { induction n as [|n IH]; intros l Hl.
    - destruct l; [exact H0 | cbn in Hl; lia].
    - destruct l as [|a [|b [|c rest]]]; auto. apply H3. apply IH. cbn in Hl. lia. }
  intros l. apply (Hn (length l)). lia.
Qed.

Lemma b64_roundtrip_fuel : forall bs, Forall is_byte bs ->
  forall fuel, (length bs < 3 * fuel)%nat -> b64_decode_fuel fuel (b64_encode bs) = Some bs.
Proof.
  intros bs. induction bs as [|a|a b|a b c rest IH] using list3_ind; intros HF fuel Hfuel.
  - destruct fuel; reflexivity.
  - destruct fuel; [cbn in Hfuel; lia|]. inversion HF as [|? ? Ha _]; subst. unfold is_byte in Ha.
    cbn [b64_encode b64_decode_fuel]. rewrite !Z.eqb_refl. cbn [andb].
    rewrite !b64_val_char by lia. f_equal. f_equal. lia.
  - destruct fuel; [cbn in Hfuel; lia|]. inversion HF as [|? ? Ha HF']; subst. inversion HF' as [|? ? Hb _]; subst.
    unfold is_byte in *. cbn [b64_encode b64_decode_fuel].
    rewrite (b64_char_not_pad ((b mod 16) * 4)) by lia. rewrite Z.eqb_refl. cbn [andb].
    rewrite !b64_val_char by lia. f_equal. f_equal; [lia|]. f_equal. lia.
  - destruct fuel; [cbn in Hfuel; lia|]. inversion HF as [|? ? Ha HF']; subst. inversion HF' as [|? ? Hb HF'']; subst.
    inversion HF'' as [|? ? Hc HFr]; subst. unfold is_byte in *. cbn [b64_encode b64_decode_fuel].
    rewrite (b64_char_not_pad ((b mod 16) * 4 + c / 64)) by lia. rewrite (b64_char_not_pad (c mod 64)) by lia. cbn [andb].
    rewrite !b64_val_char by lia. rewrite IH; [|exact HFr|cbn [length] in Hfuel; lia].
    f_equal. f_equal; [lia|]. f_equal; [lia|]. f_equal. lia.
Qed.

Lemma b64_encode_length : forall bs, (length bs <= length (b64_encode bs))%nat.
Proof.
  intros bs. induction bs as [|a|a b|a b c rest IH] using list3_ind; cbn [b64_encode length]; lia.
Qed.

Lemma b64_roundtrip : forall bs, Forall is_byte bs -> b64_decode (b64_encode bs) = Some bs.
Proof.
  intros bs HF. unfold b64_decode. apply b64_roundtrip_fuel; [exact HF|]. pose proof (b64_encode_length bs). lia.
Qed.

(* ------------------------------------------------------------------ timedelta <-> duration text *)
Lemma duration_roundtrip : forall us, duration_deserialize (duration_serialize us) = Some us.
Proof.
  intros us. unfold duration_deserialize, duration_regex_ok, duration_serialize.
  cbn [d_neg d_days d_hours d_minutes d_sec d_us d_sci].
  set (a := Z.abs us). set (t := a / 1000000).
  assert (0 <= a) by (unfold a; lia).
  assert (0 <= t) by (unfold t; lia).
  assert (0 <= t / 86400) by lia.
  assert (0 <= t mod 86400 < 86400) by lia.
  assert (0 <= (t mod 86400) / 3600) by lia.
  assert (0 <= (t mod 86400) mod 3600 < 3600) by lia.
  assert (0 <= ((t mod 86400) mod 3600) / 60) by lia.
  assert (0 <= ((t mod 86400) mod 3600) mod 60) by lia.
  replace (0 <=? t / 86400) with true by lia.
  replace (0 <=? t mod 86400 / 3600) with true by lia.
  replace (0 <=? t mod 86400 mod 3600 / 60) with true by lia.
  replace (0 <=? t mod 86400 mod 3600 mod 60) with true by lia.
  cbn [andb negb].
  assert (((t / 86400 * 24 + t mod 86400 / 3600) * 60 + t mod 86400 mod 3600 / 60) * 60000000 +
          t mod 86400 mod 3600 mod 60 * 1000000 + a mod 1000000 = a) as E.
  { assert (t mod 86400 = (t mod 86400 / 3600) * 3600 + t mod 86400 mod 3600) by lia.
    assert (t mod 86400 mod 3600 = (t mod 86400 mod 3600 / 60) * 60 + t mod 86400 mod 3600 mod 60) by lia.
    assert (t = (t / 86400) * 86400 + t mod 86400) by lia.
    assert (a = t * 1000000 + a mod 1000000) by (unfold t; lia).
    lia. }
  rewrite E. f_equal. unfold a. destruct (us <? 0) eqn:Hs; lia.
Qed.

(* ------------------------------------------------------------------ geometry <-> WKT *)
(* a polygon without exterior ring prints as POLYGON EMPTY: it must not have interior rings *)
Definition geom_ok (g : geom) : Prop := match g with GeoPoly [] (_ :: _) => False | _ => True end.

Lemma geom_roundtrip : forall g, geom_ok g -> from_wkt (geom_kind g) (geom_wkt g) = Some g.
Proof.
  intros g H. destruct g as [p | l | ext ints].
  - reflexivity.
  - destruct l; reflexivity.
  - destruct ext as [|e ext].
    + destruct ints; [reflexivity | contradiction].
    + cbn. destruct ints; reflexivity.
Qed.

(* ------------------------------------------------------------------ the value tree *)
Section Laws.
  Variables D Dt Tm Dtm U : Type.
  Variable dec_str : D -> list Z.
  Variable dec_parse : list Z -> option D.
  Variable uuid_str : U -> list Z.
  Variable uuid_parse : list Z -> option U.
  Variable date_iso : Dt -> list Z.
  Variable strptime_date : list Z -> option Dt.
  Variable time_fmt : Tm -> list Z.
  Variable strptime_hm strptime_hms strptime_hmsf : list Z -> option Tm.
  Variable dtm_iso : Dtm -> list Z.
  Variable strptime_frac strptime_nofrac : list Z -> option Dtm.
  Variable geqb : gval D Dt Tm Dtm U -> gval D Dt Tm Dtm U -> bool.

  (* the assumed laws of Python's own formatters and parsers *)
  Definition leaf_laws : Prop :=
    (forall d, dec_parse (dec_str d) = Some d) /\
    (forall u, uuid_parse (uuid_str u) = Some u) /\
    (forall d, strptime_date (date_iso d) = Some d) /\
    (forall t, strptime_hm (time_fmt t) = None /\ strptime_hms (time_fmt t) = None /\ strptime_hmsf (time_fmt t) = Some t) /\
    (forall x, strptime_frac (dtm_iso x ++ [90]) = Some x \/
               (strptime_frac (dtm_iso x ++ [90]) = None /\ strptime_nofrac (dtm_iso x ++ [90]) = Some x)).

  Notation gv := (gval D Dt Tm Dtm U).
  Notation ser23 := (serialize23 D Dt Tm Dtm U dec_str uuid_str date_iso time_fmt dtm_iso).
  Notation ser1 := (serialize1 D Dt Tm Dtm U dec_str uuid_str date_iso time_fmt dtm_iso).
  Notation deser23 := (deserialize23 D Dt Tm Dtm U dec_parse uuid_parse strptime_date strptime_hm strptime_hms strptime_hmsf
                                     strptime_frac strptime_nofrac geqb).
  Notation deser1 := (deserialize1 D Dt Tm Dtm U dec_parse uuid_parse strptime_date strptime_hm strptime_hms strptime_hmsf
                                   strptime_frac strptime_nofrac).
  Notation sof := (serializer_of D Dt Tm Dtm U).
  Notation nrm := (norm D Dt Tm Dtm U).
  Notation sbuild := (set_build D Dt Tm Dtm U geqb).
  Notation dbuild := (dict_build D Dt Tm Dtm U geqb).

  (* nested induction principle for values *)
  Section GvalInd.
    Variable P : gv -> Prop.
    Hypothesis Hleaf : forall v, (forall l, v <> GList _ _ _ _ _ l) -> (forall l, v <> GSet _ _ _ _ _ l) ->
                                 (forall l, v <> GTuple _ _ _ _ _ l) -> (forall l, v <> GDict _ _ _ _ _ l) -> P v.
    Hypothesis Hlist : forall l, Forall P l -> P (GList _ _ _ _ _ l).
    Hypothesis Hset : forall l, Forall P l -> P (GSet _ _ _ _ _ l).
    Hypothesis Htuple : forall l, Forall P l -> P (GTuple _ _ _ _ _ l).
    Hypothesis Hdict : forall l, Forall (fun kv => P (fst kv) /\ P (snd kv)) l -> P (GDict _ _ _ _ _ l).

    Fixpoint gval_ind' (v : gv) : P v :=
      let all := fix go (l : list gv) : Forall P l :=
        match l with [] => Forall_nil P | x :: l' => Forall_cons x (gval_ind' x) (go l') end in
      match v with
      | GList _ _ _ _ _ l => Hlist l (all l)
      | GSet _ _ _ _ _ l => Hset l (all l)
      | GTuple _ _ _ _ _ l => Htuple l (all l)
      | GDict _ _ _ _ _ l =>
          Hdict l ((fix go (l : list (gv * gv)) : Forall (fun kv => P (fst kv) /\ P (snd kv)) l :=
                      match l with
                      | [] => Forall_nil _
                      | (k, x) :: l' => Forall_cons (k, x) (conj (gval_ind' k) (gval_ind' x)) (go l')
                      end) l)
      | v0 => Hleaf v0 ltac:(intros; discriminate) ltac:(intros; discriminate) ltac:(intros; discriminate) ltac:(intros; discriminate)
      end.
  End GvalInd.

  Definition str_key (v : gv) : bool := match v with GStr _ _ _ _ _ k => negb (is_type_key k) | _ => false end.

  (* the values the statement covers, per GraphSON version *)
  Fixpoint supported (ver : version) (v : gv) {struct v} : Prop :=
    let all := fix go (l : list gv) : Prop := match l with [] => True | x :: l' => supported ver x /\ go l' end in
    match v with
    | GBlob _ _ _ _ _ _ bs => Forall is_byte bs
    | GGeom _ _ _ _ _ g => geom_ok g
    | GDuration _ _ _ _ _ _ _ _ => ver = V3
    | GList _ _ _ _ _ l => ver = V3 /\ all l
    | GTuple _ _ _ _ _ l => ver = V3 /\ all l
    | GSet _ _ _ _ _ l => ver = V3 /\ all l /\ sbuild (map nrm l) = Some (GSet _ _ _ _ _ (map nrm l))
    | GDict _ _ _ _ _ l =>
        (fix go (l : list (gv * gv)) : Prop :=
           match l with
           | [] => True
           | (k, x) :: l' => (match ver with V1 => False | V2 => str_key k = true | V3 => supported ver k end) /\
                             supported ver x /\ go l'
           end) l /\
        dbuild (map (fun kv => (nrm (fst kv), nrm (snd kv))) l) = Some (GDict _ _ _ _ _ (map (fun kv => (nrm (fst kv), nrm (snd kv))) l))
    | _ => True
    end.

  Definition RT (ver : version) (v : gv) : Prop :=
    supported ver v -> exists j, ser23 ver v = Some j /\ deser23 ver j = Some (nrm v).

  Hypothesis laws : leaf_laws.

  Lemma leaf_rt : forall ver v, ver <> V1 ->
    (forall l, v <> GList _ _ _ _ _ l) -> (forall l, v <> GSet _ _ _ _ _ l) ->
    (forall l, v <> GTuple _ _ _ _ _ l) -> (forall l, v <> GDict _ _ _ _ _ l) -> RT ver v.
  Proof.
    intros ver v Hver N1 N2 N3 N4 Hs.
    destruct laws as (Ldec & Luuid & Ldate & Ltime & Ldtm).
    destruct v; try (exfalso; (now eapply N1) || (now eapply N2) || (now eapply N3) || (now eapply N4)).
    - (* str *) destruct ver; [congruence| |]; eexists; split; reflexivity.
    - (* bool *) destruct ver; [congruence| |]; eexists; split; reflexivity.
    - (* int *)
      assert (Hd : forall ver', ver' <> V1 -> get_serializer ver' KInt true (Some z) =
                   if (MAX_INT32 <? z) || (z <? MIN_INT32) then Some TInt64 else Some TInt32).
      { intros ver' Hv. destruct ver'; [congruence| |]; reflexivity. }
      cbn [serialize23 serializer_of class_of]. rewrite (Hd ver Hver).
      destruct ((MAX_INT32 <? z) || (z <? MIN_INT32)); destruct ver; try congruence; eexists; split; reflexivity.
    - (* float *) destruct ver; [congruence| |]; eexists; split; reflexivity.
    - (* blob *)
      cbn [supported] in Hs.
      destruct ver; [congruence| |]; destruct k; eexists; (split; [reflexivity|]);
        cbn [deserialize23 deserializer_for tio_deserialize_scalar envelope tag_of option_map]; rewrite (b64_roundtrip bs Hs); reflexivity.
    - (* decimal *) destruct ver; [congruence| |]; eexists; (split; [reflexivity|]);
        cbn [deserialize23 deserializer_for tio_deserialize_scalar envelope tag_of option_map]; rewrite Ldec; reflexivity.
    - (* date *) destruct ver; [congruence| |]; eexists; (split; [reflexivity|]);
        cbn [deserialize23 deserializer_for tio_deserialize_scalar envelope tag_of option_map]; rewrite Ldate; reflexivity.
    - (* time *) destruct (Ltime t) as (T1 & T2 & T3).
      destruct ver; [congruence| |]; eexists; (split; [reflexivity|]);
        cbn [deserialize23 deserializer_for tio_deserialize_scalar envelope tag_of option_map]; rewrite T1, T2, T3; reflexivity.
    - (* datetime, exact class or subclass instance: Instant *)
      destruct ver; [congruence| |]; destruct sub; eexists; (split; [reflexivity|]);
        cbn [deserialize23 deserializer_for tio_deserialize_scalar envelope tag_of option_map];
        (destruct (Ldtm x) as [E | [E1 E2]]; [rewrite E | rewrite E1, E2]); reflexivity.
    - (* aware datetime: written as the UTC reading of its instant *)
      destruct ver; [congruence| |]; eexists; (split; [reflexivity|]);
        cbn [deserialize23 deserializer_for tio_deserialize_scalar envelope tag_of option_map];
        (destruct (Ldtm utc) as [E | [E1 E2]]; [rewrite E | rewrite E1, E2]); reflexivity.
    - (* timedelta *) destruct ver; [congruence| |]; eexists; (split; [reflexivity|]);
        cbn [deserialize23 deserializer_for tio_deserialize_scalar envelope tag_of option_map]; rewrite duration_roundtrip; reflexivity.
    - (* uuid *) destruct ver; [congruence| |]; eexists; (split; [reflexivity|]);
        cbn [deserialize23 deserializer_for tio_deserialize_scalar envelope tag_of option_map]; rewrite Luuid; reflexivity.
    - (* geometry *)
      cbn [supported] in Hs. pose proof (geom_roundtrip g Hs) as Lg.
      destruct ver; [congruence| |]; unfold serialize23, serializer_of, class_of; destruct g as [p | l | ext ints];
        cbn [geom_kind] in *; eexists; (split; [reflexivity|]);
        cbn [deserialize23 deserializer_for tio_deserialize_scalar envelope tag_of option_map]; rewrite Lg; reflexivity.
    - (* cassandra.util.Duration: GraphSON3 only *)
      cbn [supported] in Hs. subst ver. eexists; split; reflexivity.
  Qed.

  Local Arguments gs_mapM : simpl never.

  Lemma all_fix_Forall : forall ver l,
    (fix go (l : list gv) : Prop := match l with [] => True | x :: l' => supported ver x /\ go l' end) l ->
    Forall (supported ver) l.
  Proof. induction l as [|x l IH]; intros H; constructor; destruct H; auto. Qed.

  Lemma dict_fix_Forall : forall ver l,
    (fix go (l : list (gv * gv)) : Prop :=
       match l with
       | [] => True
       | (k, x) :: l' => (match ver with V1 => False | V2 => str_key k = true | V3 => supported ver k end) /\
                         supported ver x /\ go l'
       end) l ->
    Forall (fun kv => (match ver with V1 => False | V2 => str_key (fst kv) = true | V3 => supported ver (fst kv) end) /\
                      supported ver (snd kv)) l.
  Proof. induction l as [|[k x] l IH]; intros H; constructor; destruct H as (H1 & H2 & H3); auto. Qed.

  Lemma mapM_rt : forall ver l, Forall (RT ver) l -> Forall (supported ver) l ->
    exists js, gs_mapM (ser23 ver) l = Some js /\ gs_mapM (deser23 ver) js = Some (map nrm l).
  Proof.
    intros ver l HF. induction HF as [|x l Hx HF IH]; intros HS.
    - exists []. split; reflexivity.
    - inversion HS as [|? ? Sx Sl]; subst. destruct (IH Sl) as (js & E1 & E2). destruct (Hx Sx) as (j & F1 & F2).
      exists (j :: js). unfold gs_mapM in *. rewrite F1, E1, F2, E2. split; reflexivity.
  Qed.

  Lemma mapM_pairs_rt : forall l,
    Forall (fun kv => RT V3 (fst kv) /\ RT V3 (snd kv)) l ->
    Forall (fun kv => supported V3 (fst kv) /\ supported V3 (snd kv)) l ->
    exists js,
      gs_mapM (fun kv : gv * gv => match kv with
                                   | (k, x) => match ser23 V3 k, ser23 V3 x with
                                               | Some a, Some b => Some (a, b) | _, _ => None end
                                   end) l = Some js /\
      gs_mapM (fun kv : json * json => match kv with
                                       | (a, b) => match deser23 V3 a, deser23 V3 b with
                                                   | Some x, Some y => Some (x, y) | _, _ => None end
                                       end) js = Some (map (fun kv => (nrm (fst kv), nrm (snd kv))) l).
  Proof.
    intros l HF. induction HF as [|[k x] l [Hk Hx] HF IH]; intros HS.
    - exists []. split; reflexivity.
    - inversion HS as [|? ? [Sk Sx] Sl]; subst. cbn [fst snd] in *. destruct (IH Sl) as (js & E1 & E2).
      destruct (Hk Sk) as (a & A1 & A2). destruct (Hx Sx) as (b & B1 & B2).
      exists ((a, b) :: js). unfold gs_mapM in *. rewrite A1, B1, E1, A2, B2, E2. split; reflexivity.
  Qed.

  Lemma mapM_obj_rt : forall l,
    Forall (fun kv => RT V2 (fst kv) /\ RT V2 (snd kv)) l ->
    Forall (fun kv => str_key (fst kv) = true /\ supported V2 (snd kv)) l ->
    exists js,
      gs_mapM (fun kv : gv * gv => match kv with
                                   | (GStr _ _ _ _ _ k, x) => option_map (pair k) (ser23 V2 x)
                                   | _ => None end) l = Some js /\
      existsb (fun kv : list Z * json => is_type_key (fst kv)) js = false /\
      gs_mapM (fun kv : list Z * json => match kv with (k, x) => option_map (pair (GStr _ _ _ _ _ k)) (deser23 V2 x) end) js
        = Some (map (fun kv => (nrm (fst kv), nrm (snd kv))) l).
  Proof.
    intros l HF. induction HF as [|[k x] l [_ Hx] HF IH]; intros HS.
    - exists []. repeat split; reflexivity.
    - inversion HS as [|? ? [Sk Sx] Sl]; subst. cbn [fst snd] in *. destruct (IH Sl) as (js & E1 & E2 & E3).
      destruct (Hx Sx) as (b & B1 & B2).
      destruct k; try discriminate Sk. cbn [str_key] in Sk.
      exists ((s, b) :: js). unfold gs_mapM in *. rewrite B1, E1. cbn [option_map existsb fst]. rewrite B2, E3.
      split; [reflexivity|]. split; [|reflexivity].
      rewrite E2. destruct (is_type_key s); [discriminate Sk | reflexivity].
  Qed.

  Theorem roundtrip23 : forall ver v, ver <> V1 -> RT ver v.
  Proof.
    intros ver v Hver. induction v using gval_ind'.
    - apply leaf_rt; assumption.
    - (* list *)
      intros Hs. cbn [supported] in Hs. destruct Hs as [-> Hall]. apply all_fix_Forall in Hall.
      destruct (mapM_rt V3 l H Hall) as (js & E1 & E2).
      exists (JTyped GListT (JList js)). split.
      + cbn. rewrite E1. reflexivity.
      + cbn. rewrite E2. reflexivity.
    - (* set *)
      intros Hs. cbn [supported] in Hs. destruct Hs as (-> & Hall & Hsb). apply all_fix_Forall in Hall.
      destruct (mapM_rt V3 l H Hall) as (js & E1 & E2).
      exists (JTyped GSetT (JList js)). split.
      + cbn. rewrite E1. reflexivity.
      + cbn. rewrite E2. exact Hsb.
    - (* tuple *)
      intros Hs. cbn [supported] in Hs. destruct Hs as [-> Hall]. apply all_fix_Forall in Hall.
      destruct (mapM_rt V3 l H Hall) as (js & E1 & E2).
      exists (JTyped DseTuple (JTuple js)). split.
      + cbn. rewrite E1. reflexivity.
      + cbn. rewrite E2. reflexivity.
    - (* dict *)
      intros Hs. cbn [supported] in Hs. destruct Hs as (Hall & Hdb). apply dict_fix_Forall in Hall.
      destruct ver; [congruence| |].
      + destruct (mapM_obj_rt l H Hall) as (js & E1 & E2 & E3).
        exists (JObj js). split.
        * cbn. rewrite E1. reflexivity.
        * cbn. rewrite E2, E3. exact Hdb.
      + destruct (mapM_pairs_rt l H Hall) as (js & E1 & E2).
        exists (JTyped GMapT (JPairs js)). split.
        * cbn. rewrite E1. reflexivity.
        * cbn. rewrite E2. exact Hdb.
  Qed.

  (* GraphSON1: scalars, the caller supplies the type (the serializer chosen for the value) *)
  Definition supported1 (v : gv) : Prop :=
    match v with
    | GBlob _ _ _ _ _ _ bs => Forall is_byte bs
    | GGeom _ _ _ _ _ g => geom_ok g
    | GDuration _ _ _ _ _ _ _ _ | GList _ _ _ _ _ _ | GSet _ _ _ _ _ _ | GTuple _ _ _ _ _ _ | GDict _ _ _ _ _ _ => False
    | _ => True
    end.

  Theorem roundtrip1 : forall v, supported1 v ->
    exists j, ser1 v = Some j /\ deser1 (sof V1 v) j = Some (nrm v).
  Proof.
    intros v Hs. destruct laws as (Ldec & Luuid & Ldate & Ltime & Ldtm).
    destruct v; cbn [supported1] in Hs; try contradiction.
    - eexists; split; reflexivity.
    - eexists; split; reflexivity.
    - eexists; split; reflexivity.
    - eexists; split; reflexivity.
    - destruct k; eexists; (split; [reflexivity|]); cbn -[b64_decode b64_encode]; rewrite (b64_roundtrip bs Hs); reflexivity.
    - eexists; (split; [reflexivity|]); cbn; rewrite Ldec; reflexivity.
    - eexists; (split; [reflexivity|]); cbn; rewrite Ldate; reflexivity.
    - destruct (Ltime t) as (T1 & T2 & T3). eexists; (split; [reflexivity|]); cbn; rewrite T1, T2, T3; reflexivity.
    - destruct sub; eexists; (split; [reflexivity|]); cbn;
        (destruct (Ldtm x) as [E | [E1 E2]]; [rewrite E | rewrite E1, E2]); reflexivity.
    - eexists; (split; [reflexivity|]); cbn;
        (destruct (Ldtm utc) as [E | [E1 E2]]; [rewrite E | rewrite E1, E2]); reflexivity.
    - eexists; (split; [reflexivity|]). cbn [serializer_of class_of]. cbn -[duration_deserialize duration_serialize].
      rewrite duration_roundtrip. reflexivity.
    - eexists; (split; [reflexivity|]); cbn; rewrite Luuid; reflexivity.
    - pose proof (geom_roundtrip g Hs) as Lg. unfold serialize1, serializer_of, class_of. destruct g as [p | l | ext ints];
        cbn [geom_kind] in *; eexists; (split; [reflexivity|]); cbn -[from_wkt geom_wkt]; rewrite Lg; reflexivity.
  Qed.

  (* the assumed law that makes the pre-repair dispatch visible: a datetime's isoformat is not a '%Y-%m-%d' date *)
  Lemma legacy_localdate_of_datetime : (forall x, strptime_date (dtm_iso x) = None) -> forall x sub,
    match tio_serialize D Dt Tm Dtm U dec_str uuid_str date_iso time_fmt dtm_iso TLocalDate (GDatetime _ _ _ _ _ x sub) with
    | Some j => tio_deserialize_scalar D Dt Tm Dtm U dec_parse uuid_parse strptime_date strptime_hm strptime_hms strptime_hmsf
                                       strptime_frac strptime_nofrac TLocalDate j
    | None => None
    end = Some (GStr _ _ _ _ _ (dtm_iso x)).
  Proof. intros Hn x sub. cbn. rewrite Hn. reflexivity. Qed.
End Laws.
