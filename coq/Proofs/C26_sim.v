(* C26: simulation, inside one datacenter, between the driver's loop (nts_step / nts_flush, skipped hosts remembered once)
   and Cassandra's loop body restricted to that datacenter (dc_visit / dc_readd below: seen racks + ordered set of
   skipped endpoints, min(rf, nodes)). *)
From Coq Require Import ZArith List Bool Lia.
From Verif Require Import RingBase Ring PlacementSpec C26_lists.
Import ListNotations.
Local Open Scope Z_scope.

Lemma lenZ_snoc : forall {A} (l : list A) x, lenZ (l ++ [x]) = lenZ l + 1.
Proof. intros. unfold lenZ. rewrite app_length. cbn [length]. lia. Qed.
Lemma lenZ_nonneg : forall {A} (l : list A), 0 <= lenZ l.
Proof. intros. unfold lenZ. lia. Qed.
Lemma set_add_notin : forall x l, memZ x l = false -> set_add x l = l ++ [x].
Proof. intros. unfold set_add. rewrite H. reflexivity. Qed.
Lemma set_add_in : forall x l, memZ x l = true -> set_add x l = l.
Proof. intros. unfold set_add. rewrite H. reflexivity. Qed.

Lemma filter_set_add_out : forall (f : Z -> bool) h l, f h = false -> filter f (set_add h l) = filter f l.
Proof.
  intros. unfold set_add. destruct (memZ h l); [reflexivity|]. rewrite filter_app. cbn [filter]. rewrite H. apply app_nil_r.
Qed.

Lemma memZ_filter : forall (f : Z -> bool) h l, f h = true -> memZ h (filter f l) = memZ h l.
Proof.
  intros f h l Hf. induction l as [|y l IH]; [reflexivity|]. cbn [filter memZ].
  destruct (h =? y) eqn:E.
  - apply Z.eqb_eq in E. subst y. rewrite Hf. cbn [memZ]. rewrite Z.eqb_refl. reflexivity.
  - destruct (f y); cbn [memZ]; rewrite ?E; exact IH.
Qed.

Lemma filter_set_add_in : forall (f : Z -> bool) h l, f h = true -> filter f (set_add h l) = set_add h (filter f l).
Proof.
  intros. unfold set_add. rewrite memZ_filter by assumption. destruct (memZ h l); [reflexivity|].
  rewrite filter_app. cbn [filter]. rewrite H. reflexivity.
Qed.

Lemma filter_notin_snoc : forall reps h l, ~ In h l ->
  filter (fun x => negb (memZ x (reps ++ [h]))) l = filter (fun x => negb (memZ x reps)) l.
Proof.
  intros. apply filter_ext_in. intros x Hx. rewrite memZ_app. cbn [memZ].
  destruct (x =? h) eqn:E; [apply Z.eqb_eq in E; subst; contradiction|]. rewrite !orb_false_r. reflexivity.
Qed.

Lemma filter_all_out : forall reps l, (forall x, In x l -> In x reps) -> filter (fun x => negb (memZ x reps)) l = [].
Proof.
  induction l as [|y l IH]; intros H; [reflexivity|]. cbn [filter].
  replace (memZ y reps) with true by (symmetry; apply memZ_In; apply H; left; reflexivity).
  cbn [negb]. apply IH. intros. apply H. right. assumption.
Qed.

Section Sim.
  Variable loc : topo_t.
  Variables nodes racks : list Z.       (* the datacenter's hosts and rack names, duplicate-free *)
  Variable rf : Z.
  Variables N K : Z.
  Hypothesis HN : N = lenZ nodes.
  Hypothesis HK : K = lenZ racks.
  Hypothesis nodes_nd : NoDup nodes.
  Hypothesis racks_nd : NoDup racks.
  Hypothesis nodes_racks : forall h, In h nodes -> In (rack_of loc h) racks.

  (* Cassandra's loop body for an endpoint of this datacenter *)
  Definition suff (reps : list Z) : bool := Z.min N rf <=? lenZ reps.
  Fixpoint dc_readd (sk reps : list Z) : list Z :=
    match sk with [] => reps | s :: t => if suff reps then reps else dc_readd t (set_add s reps) end.
  Definition dc_visit (s : dc_state) (ep : Z) : dc_state :=
    if suff (dc_replicas s) then s
    else if lenZ (seen_racks s) =? K then
      {| dc_replicas := set_add ep (dc_replicas s); seen_racks := seen_racks s; skipped_eps := skipped_eps s |}
    else if memZ (rack_of loc ep) (seen_racks s) then
      {| dc_replicas := dc_replicas s; seen_racks := seen_racks s; skipped_eps := set_add ep (skipped_eps s) |}
    else
      let reps1 := set_add ep (dc_replicas s) in
      let seen1 := set_add (rack_of loc ep) (seen_racks s) in
      if lenZ seen1 =? K
      then {| dc_replicas := dc_readd (skipped_eps s) reps1; seen_racks := seen1; skipped_eps := skipped_eps s |}
      else {| dc_replicas := reps1; seen_racks := seen1; skipped_eps := skipped_eps s |}.

  Record Rel (i : nst) (reps seen sk : list Z) : Prop := {
    r_reps : n_replicas i = reps;
    r_seen : n_racks_placed i = seen;
    r_rem : n_remaining i = rf - lenZ reps;
    r_rem0 : 0 <= n_remaining i;
    r_this : 0 <= n_this_dc i <= lenZ reps;
    r_nd : NoDup reps;
    r_in : incl reps nodes;
    r_snd : NoDup seen;
    r_sin : incl seen racks;
    r_rk : forall h, In h reps -> In (rack_of loc h) seen;
    r_sknd : NoDup sk;
    r_skin : incl sk nodes;
    r_skrk : forall h, In h sk -> In (rack_of loc h) seen;
    r_sk : n_skipped i = if lenZ seen <? K then filter (fun h => negb (memZ h reps)) sk else []
  }.

  Lemma full_nodes : forall reps, NoDup reps -> incl reps nodes -> N <= lenZ reps -> incl nodes reps.
  Proof.
    intros reps Hnd Hin Hlen. apply NoDup_length_incl; try assumption. subst N. unfold lenZ in Hlen. lia.
  Qed.

  Lemma full_racks : forall seen, NoDup seen -> incl seen racks -> K <= lenZ seen -> incl racks seen.
  Proof.
    intros seen Hnd Hin Hlen. apply NoDup_length_incl; try assumption. subst K. unfold lenZ in Hlen. lia.
  Qed.

  Lemma reps_le_N : forall reps, NoDup reps -> incl reps nodes -> lenZ reps <= N.
  Proof. intros. subst N. apply NoDup_incl_lenZ; assumption. Qed.

  Lemma seen_le_K : forall seen, NoDup seen -> incl seen racks -> lenZ seen <= K.
  Proof. intros. subst K. apply NoDup_incl_lenZ; assumption. Qed.

  (* re-adding the skipped endpoints: Cassandra iterates its ordered set (which may contain replicas already chosen),
     the driver iterates the list of skipped hosts that are not replicas *)
  Lemma flush_sim : forall sk reps rem, NoDup sk -> incl sk nodes -> NoDup reps -> incl reps nodes ->
    rem = rf - lenZ reps -> 0 <= rem ->
    nts_flush (filter (fun h => negb (memZ h reps)) sk) reps rem = (dc_readd sk reps, rf - lenZ (dc_readd sk reps))
    /\ 0 <= rf - lenZ (dc_readd sk reps) /\ NoDup (dc_readd sk reps) /\ incl (dc_readd sk reps) nodes
    /\ (forall x, In x (dc_readd sk reps) -> In x reps \/ In x sk) /\ incl reps (dc_readd sk reps).
  Proof.
    induction sk as [|s sk IH]; intros reps rem Hsk Hskin Hnd Hin Hrem Hrem0.
    - cbn [filter nts_flush dc_readd]. subst rem. repeat split; try assumption; try lia; [tauto | apply incl_refl].
    - apply NoDup_cons_iff in Hsk. destruct Hsk as [Hs Hsk'].
      assert (Hskin' : incl sk nodes) by (intros x Hx; apply Hskin; right; assumption).
      cbn [dc_readd]. destruct (suff reps) eqn:Esuff.
      + (* Cassandra stops *)
        assert (E : nts_flush (filter (fun h => negb (memZ h reps)) (s :: sk)) reps rem = (reps, rem)).
        { destruct (rem =? 0) eqn:Er.
          - destruct (filter (fun h => negb (memZ h reps)) (s :: sk)); cbn [nts_flush]; rewrite ?Er; reflexivity.
          - apply Z.eqb_neq in Er. unfold suff in Esuff. apply Z.leb_le in Esuff.
            pose proof (reps_le_N reps Hnd Hin).
            assert (Hfull : incl nodes reps) by (apply full_nodes; try assumption; lia).
            rewrite filter_all_out; [reflexivity|]. intros x Hx. apply Hfull, Hskin. assumption. }
        rewrite E. subst rem. repeat split; try assumption; try lia; [tauto | apply incl_refl].
      + unfold suff in Esuff. apply Z.leb_gt in Esuff.
        assert (Hr : rem <> 0) by lia.
        cbn [filter]. destruct (memZ s reps) eqn:Es; cbn [negb].
        * rewrite set_add_in by assumption.
          destruct (IH reps rem Hsk' Hskin' Hnd Hin Hrem Hrem0) as [E [H0 [Hnd' [Hin' [Hor Hincl]]]]].
          repeat split; try assumption. intros x Hx. destruct (Hor x Hx); [left | right; right]; assumption.
        * rewrite set_add_notin by assumption. cbn [nts_flush].
          replace (rem =? 0) with false by (symmetry; apply Z.eqb_neq; assumption).
          assert (Hs' : ~ In s reps) by (apply memZ_false; assumption).
          assert (Hnd1 : NoDup (reps ++ [s])) by (apply NoDup_snoc; assumption).
          assert (Hin1 : incl (reps ++ [s]) nodes).
          { intros x Hx. apply in_app_or in Hx. destruct Hx as [Hx|[Hx|[]]]; [apply Hin; assumption | subst; apply Hskin; left; reflexivity]. }
          destruct (IH (reps ++ [s]) (rem - 1) Hsk' Hskin' Hnd1 Hin1) as [E [H0 [Hnd' [Hin' [Hor Hincl]]]]].
          { rewrite lenZ_snoc. lia. }
          { lia. }
          rewrite filter_notin_snoc in E by assumption.
          repeat split; try assumption.
          -- intros x Hx. destruct (Hor x Hx) as [H|H]; [|right; right; assumption].
             apply in_app_or in H. destruct H as [H|[H|[]]]; [left; assumption | right; left; assumption].
          -- intros x Hx. apply Hincl. apply in_or_app. left. assumption.
  Qed.

  Lemma rel_init : 0 <= rf ->
    Rel {| n_replicas := []; n_remaining := rf; n_this_dc := 0; n_skipped := []; n_racks_placed := [] |} [] [] [].
  Proof.
    intros. constructor; cbn [n_replicas n_remaining n_this_dc n_skipped n_racks_placed]; try reflexivity;
      try (unfold lenZ; cbn; lia); try constructor; try (intros x []).
    destruct (lenZ [] <? K); reflexivity.
  Qed.

  Lemma step_sim : forall i reps seen sk h, Rel i reps seen sk -> In h nodes ->
    Rel (nts_step true loc K N i h)
        (dc_replicas (dc_visit {| dc_replicas := reps; seen_racks := seen; skipped_eps := sk |} h))
        (seen_racks (dc_visit {| dc_replicas := reps; seen_racks := seen; skipped_eps := sk |} h))
        (skipped_eps (dc_visit {| dc_replicas := reps; seen_racks := seen; skipped_eps := sk |} h)).
  Proof.
    intros i reps seen sk h R Hh. destruct R. destruct i as [ri rem this ski placed].
    cbn [n_replicas n_remaining n_this_dc n_skipped n_racks_placed] in *. subst ri placed.
    pose proof (reps_le_N reps r_nd0 r_in0) as HlN.
    pose proof (seen_le_K seen r_snd0 r_sin0) as HlK.
    pose proof (lenZ_nonneg reps) as Hl0.
    unfold nts_step, dc_visit. cbn [n_replicas n_remaining n_this_dc n_skipped n_racks_placed dc_replicas seen_racks skipped_eps].
    fold (suff reps). destruct ((rem =? 0) || (this =? N)) eqn:Ebrk.
    { (* the driver breaks: Cassandra has enough too *)
      assert (Es : suff reps = true).
      { unfold suff. apply Z.leb_le. apply orb_true_iff in Ebrk. destruct Ebrk as [E|E]; apply Z.eqb_eq in E; lia. }
      rewrite Es. cbn [dc_replicas seen_racks skipped_eps].
      constructor; cbn [n_replicas n_remaining n_this_dc n_skipped n_racks_placed]; try assumption; reflexivity. }
    apply orb_false_iff in Ebrk. destruct Ebrk as [Er Et]. apply Z.eqb_neq in Er. apply Z.eqb_neq in Et.
    destruct (suff reps) eqn:Es.
    { (* Cassandra has enough, the driver goes on: every host of the dc is a replica already *)
      unfold suff in Es. apply Z.leb_le in Es.
      assert (Hfull : incl nodes reps) by (apply full_nodes; try assumption; lia).
      replace (memZ h reps) with true by (symmetry; apply memZ_In; apply Hfull; assumption).
      cbn [dc_replicas seen_racks skipped_eps].
      constructor; cbn [n_replicas n_remaining n_this_dc n_skipped n_racks_placed]; try assumption; reflexivity. }
    unfold suff in Es. apply Z.leb_gt in Es.
    destruct (memZ h reps) eqn:Emem.
    { (* already a replica *)
      assert (Hin : In h reps) by (apply memZ_In; assumption).
      destruct (lenZ seen =? K) eqn:EK.
      - rewrite set_add_in by assumption. cbn [dc_replicas seen_racks skipped_eps].
        constructor; cbn [n_replicas n_remaining n_this_dc n_skipped n_racks_placed]; try assumption; reflexivity.
      - replace (memZ (rack_of loc h) seen) with true by (symmetry; apply memZ_In; apply r_rk0; assumption).
        cbn [dc_replicas seen_racks skipped_eps].
        constructor; cbn [n_replicas n_remaining n_this_dc n_skipped n_racks_placed]; try assumption; try reflexivity.
        + apply set_add_NoDup. assumption.
        + intros x Hx. apply set_add_In in Hx. destruct Hx as [Hx|Hx]; [subst; assumption | apply r_skin0; assumption].
        + intros x Hx. apply set_add_In in Hx. destruct Hx as [Hx|Hx]; [subst; apply r_rk0; assumption | apply r_skrk0; assumption].
        + rewrite r_sk0. destruct (lenZ seen <? K); [|reflexivity].
          symmetry. apply filter_set_add_out. rewrite Emem. reflexivity. }
    assert (Hnotin : ~ In h reps) by (apply memZ_false; assumption).
    assert (Hrk : In (rack_of loc h) racks) by (apply nodes_racks; assumption).
    assert (Hnd1 : NoDup (reps ++ [h])) by (apply NoDup_snoc; assumption).
    assert (Hin1 : incl (reps ++ [h]) nodes).
    { intros x Hx. apply in_app_or in Hx. destruct Hx as [Hx|[Hx|[]]]; [apply r_in0; assumption | subst; assumption]. }
    destruct (lenZ seen =? K) eqn:EK.
    { (* every rack seen: take the host *)
      apply Z.eqb_eq in EK.
      assert (Hrs : In (rack_of loc h) seen) by (apply (full_racks seen); try assumption; lia).
      replace (lenZ seen <? K) with false in * by (symmetry; apply Z.ltb_ge; lia).
      rewrite andb_false_r. rewrite (set_add_in (rack_of loc h) seen) by (apply memZ_In; assumption).
      replace (lenZ seen =? K) with true by (symmetry; apply Z.eqb_eq; assumption).
      rewrite r_sk0. cbn [nts_flush]. rewrite set_add_notin by assumption. cbn [dc_replicas seen_racks skipped_eps].
      constructor; cbn [n_replicas n_remaining n_this_dc n_skipped n_racks_placed]; try assumption; try reflexivity;
        try (rewrite lenZ_snoc; lia); try lia.
      - intros x Hx. apply in_app_or in Hx. destruct Hx as [Hx|[Hx|[]]]; [apply r_rk0; assumption | subst; assumption].
      - replace (lenZ seen <? K) with false by (symmetry; apply Z.ltb_ge; lia). reflexivity. }
    apply Z.eqb_neq in EK.
    assert (HltK : lenZ seen < K) by lia.
    replace (lenZ seen <? K) with true in * by (symmetry; apply Z.ltb_lt; assumption).
    rewrite andb_true_r.
    destruct (memZ (rack_of loc h) seen) eqn:Erk.
    { (* rack already represented: remember the host, once *)
      cbn [dc_replicas seen_racks skipped_eps].
      constructor; cbn [n_replicas n_remaining n_this_dc n_skipped n_racks_placed]; try assumption; try reflexivity.
      - apply set_add_NoDup. assumption.
      - intros x Hx. apply set_add_In in Hx. destruct Hx as [Hx|Hx]; [subst; assumption | apply r_skin0; assumption].
      - intros x Hx. apply set_add_In in Hx. destruct Hx as [Hx|Hx]; [subst; apply memZ_In; assumption | apply r_skrk0; assumption].
      - replace (lenZ seen <? K) with true by (symmetry; apply Z.ltb_lt; assumption).
        rewrite r_sk0. symmetry. apply filter_set_add_in. rewrite Emem. reflexivity. }
    (* a new rack *)
    assert (Hrkn : ~ In (rack_of loc h) seen) by (apply memZ_false; assumption).
    rewrite (set_add_notin (rack_of loc h) seen) by assumption. rewrite (set_add_notin h reps) by assumption.
    assert (Hsnd1 : NoDup (seen ++ [rack_of loc h])) by (apply NoDup_snoc; assumption).
    assert (Hsin1 : incl (seen ++ [rack_of loc h]) racks).
    { intros x Hx. apply in_app_or in Hx. destruct Hx as [Hx|[Hx|[]]]; [apply r_sin0; assumption | subst; assumption]. }
    assert (Hhsk : ~ In h sk) by (intro Hx; apply Hrkn, r_skrk0; assumption).
    assert (Hrk1 : forall x, In x (reps ++ [h]) -> In (rack_of loc x) (seen ++ [rack_of loc h])).
    { intros x Hx. apply in_or_app. apply in_app_or in Hx. destruct Hx as [Hx|[Hx|[]]]; [left; apply r_rk0; assumption | subst; right; left; reflexivity]. }
    assert (Hskrk1 : forall x, In x sk -> In (rack_of loc x) (seen ++ [rack_of loc h])).
    { intros x Hx. apply in_or_app. left. apply r_skrk0. assumption. }
    pose proof (seen_le_K _ Hsnd1 Hsin1) as HlK1. rewrite lenZ_snoc in HlK1.
    destruct (lenZ (seen ++ [rack_of loc h]) =? K) eqn:EK1.
    { (* last rack: re-add the skipped hosts *)
      rewrite r_sk0. rewrite <- (filter_notin_snoc reps h sk Hhsk).
      destruct (flush_sim sk (reps ++ [h]) (rem - 1) r_sknd0 r_skin0 Hnd1 Hin1) as [E [H0 [Hnd' [Hin' [Hor Hincl]]]]].
      { rewrite lenZ_snoc. lia. }
      { lia. }
      rewrite E. cbn [dc_replicas seen_racks skipped_eps].
      pose proof (NoDup_incl_lenZ _ _ Hnd1 Hincl) as Hlen. rewrite lenZ_snoc in Hlen.
      constructor; cbn [n_replicas n_remaining n_this_dc n_skipped n_racks_placed]; try assumption; try reflexivity; try lia.
      - intros x Hx. destruct (Hor x Hx); [apply Hrk1 | apply Hskrk1]; assumption.
      - apply Z.eqb_eq in EK1. replace (lenZ (seen ++ [rack_of loc h]) <? K) with false by (symmetry; apply Z.ltb_ge; lia). reflexivity. }
    apply Z.eqb_neq in EK1. rewrite lenZ_snoc in EK1. cbn [dc_replicas seen_racks skipped_eps].
    constructor; cbn [n_replicas n_remaining n_this_dc n_skipped n_racks_placed]; try assumption; try reflexivity;
      try (rewrite lenZ_snoc; lia); try lia.
    rewrite lenZ_snoc. replace (lenZ seen + 1 <? K) with true by (symmetry; apply Z.ltb_lt; lia).
    rewrite r_sk0. symmetry. apply filter_notin_snoc. assumption.
  Qed.

  Definition ds0 : dc_state := {| dc_replicas := []; seen_racks := []; skipped_eps := [] |}.

  Lemma fold_sim : forall l i s, Rel i (dc_replicas s) (seen_racks s) (skipped_eps s) -> (forall h, In h l -> In h nodes) ->
    Rel (fold_left (nts_step true loc K N) l i)
        (dc_replicas (fold_left dc_visit l s)) (seen_racks (fold_left dc_visit l s)) (skipped_eps (fold_left dc_visit l s)).
  Proof.
    induction l as [|h l IH]; intros i s R Hl; [exact R|]. cbn [fold_left]. apply IH.
    - destruct s as [a b c]. cbn [dc_replicas seen_racks skipped_eps] in R. apply step_sim; [assumption | apply Hl; left; reflexivity].
    - intros x Hx. apply Hl. right. assumption.
  Qed.

  (* the driver's pass over the datacenter yields exactly Cassandra's replicas for it, in the same order *)
  Lemma pass_sim : forall l, 0 <= rf -> (forall h, In h l -> In h nodes) ->
    n_replicas (fold_left (nts_step true loc K N) l
       {| n_replicas := []; n_remaining := rf; n_this_dc := 0; n_skipped := []; n_racks_placed := [] |})
    = dc_replicas (fold_left dc_visit l ds0)
    /\ NoDup (dc_replicas (fold_left dc_visit l ds0)) /\ incl (dc_replicas (fold_left dc_visit l ds0)) nodes.
  Proof.
    intros l Hrf Hl. pose proof (fold_sim l _ ds0 (rel_init Hrf) Hl) as R. destruct R. repeat split; assumption.
  Qed.
End Sim.
