(* C21: invariants of the policy state machines of Model/LBP.v and what they imply for plans. *)
From Coq Require Import ZArith List Bool Lia Permutation.
From Verif Require Import LBP LBP_base_proofs.
Import ListNotations.
Local Open Scope Z_scope.

(* histories "as the cluster delivers them": populate hands over ALL hosts the cluster knows, so it never forgets a host
   the policy was already told about: it is the first call (Cluster.connect, add_execution_profile), possibly repeated with the
   same list (Cluster.connect populates the legacy policy once through the profile manager and once directly). *)
Definition pop_ok (L : Z -> bool) (e : event) : Prop :=
  match e with Populate hs _ _ => forall h, L h = true -> mem h hs = true | _ => True end.
Fixpoint ok_from (L : Z -> bool) (evs : list event) : Prop :=
  match evs with [] => True | e :: r => pop_ok L e /\ ok_from (mstep L e) r end.
Definition delivered (evs : list event) : Prop := ok_from (fun _ => false) evs.

(* the simplest shape: populate, if any, only as the first event *)
Definition no_populate (evs : list event) : Prop := forallb (fun e => negb (is_populate e)) evs = true.
Lemma no_populate_ok : forall evs L, no_populate evs -> ok_from L evs.
Proof.
  induction evs as [|e evs IH]; intros L H; simpl; auto.
  unfold no_populate in H. simpl in H. apply andb_true_iff in H. destruct H as [H1 H2].
  split; [destruct e; simpl in *; auto; discriminate|apply IH; exact H2].
Qed.
Lemma populate_first_delivered : forall evs, no_populate (tl evs) -> delivered evs.
Proof.
  intros [|e evs] H; unfold delivered; simpl; auto. split; [destruct e; simpl; auto; discriminate|apply no_populate_ok; exact H].
Qed.

(* ================================================================== RoundRobin / WhiteList *)
Definition rr_inv (wl : option (Z -> bool)) (s : rr_state) (L : Z -> bool) : Prop :=
  NoDup (rr_live s) /\ forall h, In h (rr_live s) <-> L h = true /\ allowedb wl h = true.

Lemma rr_inv_init : forall wl, rr_inv wl rr_init (fun _ => false).
Proof. intros. split; [constructor|]. simpl. intros h. split; [tauto|]. intros [H _]. discriminate. Qed.

Lemma rr_inv_up : forall wl s L h, rr_inv wl s L -> rr_inv wl (rr_on_up wl s h) (fun x => (x =? h) || L x).
Proof.
  intros wl s L h [HN HM]. unfold rr_on_up. destruct (allowedb wl h) eqn:EA; split; simpl; auto.
  - apply nodup_add_host. exact HN.
  - intros x. rewrite In_add_host, HM, orb_true_iff, Z.eqb_eq. split.
    + intros [->|[H1 H2]]; auto.
    + intros [[->|H1] H2]; auto.
  - intros x. rewrite HM, orb_true_iff, Z.eqb_eq. split; [tauto|].
    intros [[->|H1] H2]; [congruence|tauto].
Qed.

Lemma rr_inv_down : forall wl s L h, rr_inv wl s L -> rr_inv wl (rr_on_down s h) (fun x => negb (x =? h) && L x).
Proof.
  intros wl s L h [HN HM]. split; simpl.
  - apply nodup_remove_host. exact HN.
  - intros x. rewrite In_remove_host, HM, andb_true_iff, negb_true_iff, Z.eqb_neq. tauto.
Qed.

Lemma rr_inv_ext : forall wl s L L', rr_inv wl s L -> (forall x, L x = L' x) -> rr_inv wl s L'.
Proof. intros wl s L L' [HN HM] E. split; auto. intros h. rewrite <- E. apply HM. Qed.

Lemma rr_inv_step : forall wl s L e, rr_inv wl s L -> rr_inv wl (rr_step wl s e) (mstep L e).
Proof.
  intros wl s L e H. destruct e; simpl.
  - split; simpl; [apply nodup_dedupe|]. intros x. rewrite In_dedupe, filter_In, mem_In. tauto.
  - apply rr_inv_up. exact H.
  - apply rr_inv_down. exact H.
  - apply rr_inv_up. exact H.
  - apply rr_inv_down. exact H.
  - eapply rr_inv_ext; [apply rr_inv_up, rr_inv_down; exact H|].
    intros x. simpl. destruct (x =? h); reflexivity.
  - destruct H as [HN HM]. split; simpl; auto.
Qed.

Lemma rr_inv_run : forall wl evs s L, rr_inv wl s L ->
  rr_inv wl (fold_left (rr_step wl) evs s) (fold_left mstep evs L).
Proof.
  induction evs as [|e evs IH]; intros s L H; simpl; auto. apply IH. apply rr_inv_step. exact H.
Qed.

Lemma rr_plan_In : forall s ord x, In x (rr_plan s ord) <-> In x (rr_live s).
Proof.
  intros. unfold rr_plan.
  destruct (Z.eqb_spec (Z.of_nat (length (set_order ord (rr_live s)))) 0) as [E|E].
  - assert (El : set_order ord (rr_live s) = []) by (destruct (set_order ord (rr_live s)); [reflexivity|simpl in E; lia]).
    rewrite <- (In_set_order ord (rr_live s) x), El. tauto.
  - rewrite In_rotate. apply In_set_order.
Qed.

Lemma rr_plan_nodup : forall s ord, NoDup (rr_plan s ord).
Proof.
  intros. unfold rr_plan. destruct (Z.of_nat (length (set_order ord (rr_live s))) =? 0); [constructor|].
  apply nodup_rotate, nodup_set_order.
Qed.

(* ================================================================== DCAware *)
(* the table files every live host under its current _dc() and nothing else *)
Definition binv (local : Z) (dcm : amap) (b : buckets) (L : Z -> bool) : Prop :=
  NoDup (map fst b) /\
  (forall d, NoDup (bget b d)) /\
  (forall h d, In h (bget b d) <-> L h = true /\ key_of local (aget dcm h) = d).

Definition dca_inv (s : dca_state) (L : Z -> bool) : Prop := binv (d_local s) (e_dc (d_env s)) (d_live s) L.

Lemma binv_ext : forall local dcm b L L', binv local dcm b L -> (forall x, L x = L' x) -> binv local dcm b L'.
Proof.
  intros local dcm b L L' [HK [HN HM]] E. split; [exact HK|]. split; [exact HN|].
  intros h d. rewrite <- E. apply HM.
Qed.

Lemma binv_init : forall local dcm, binv local dcm [] (fun _ => false).
Proof.
  intros. split; [constructor|]. split; [intros; constructor|].
  intros h d. simpl. split; [tauto|]. intros [H _]. discriminate.
Qed.

(* adding host h to its bucket (second half of on_up) *)
Lemma binv_add : forall local dcm b L h,
  binv local dcm b L ->
  let dc := key_of local (aget dcm h) in
  let cur := bget b dc in
  binv local dcm (if mem h cur then b else bset b dc (cur ++ [h])) (fun x => (x =? h) || L x).
Proof.
  intros local dcm b L h [HK [HN HM]] dc cur. destruct (mem h cur) eqn:E.
  - apply mem_In in E. apply HM in E. destruct E as [EL _].
    apply (binv_ext local dcm b L); [split; [|split]; assumption|].
    intros x. destruct (Z.eqb_spec x h); [subst; rewrite EL; reflexivity|reflexivity].
  - apply mem_false in E. split; [|split].
    + apply keys_bset. exact HK.
    + intros d. rewrite bget_bset. destruct (d =? dc); [|apply HN].
      apply nodup_app; [apply HN | constructor; [simpl; tauto|constructor] |].
      intros x H1 [<-|[]]. apply E. exact H1.
    + intros x d. rewrite bget_bset. rewrite orb_true_iff, Z.eqb_eq. split.
      * destruct (Z.eqb_spec d dc) as [->|Hd].
        -- rewrite in_app_iff. simpl. intros [H|[<-|[]]].
           ++ apply HM in H. tauto.
           ++ auto.
        -- intros H. apply HM in H. tauto.
      * intros [H1 H2]. destruct (Z.eqb_spec d dc) as [->|Hd].
        -- rewrite in_app_iff. simpl. destruct H1 as [->|H1]; [tauto|]. left. apply HM. tauto.
        -- destruct H1 as [->|H1]; [unfold dc in Hd; congruence|]. apply HM. tauto.
Qed.

(* removing host h from its bucket (on_down) *)
Lemma bget_down : forall b dc h d,
  In h (bget b dc) ->
  bget (match remove_host h (bget b dc) with [] => bdel b dc | hosts => bset b dc hosts end) d =
  if d =? dc then remove_host h (bget b dc) else bget b d.
Proof.
  intros. destruct (remove_host h (bget b dc)) eqn:E.
  - rewrite bget_bdel. reflexivity.
  - rewrite bget_bset. reflexivity.
Qed.

Lemma binv_remove : forall local dcm b L h,
  binv local dcm b L ->
  let dc := key_of local (aget dcm h) in
  let cur := bget b dc in
  binv local dcm (if mem h cur then match remove_host h cur with [] => bdel b dc | hosts => bset b dc hosts end else b)
       (fun x => negb (x =? h) && L x).
Proof.
  intros local dcm b L h [HK [HN HM]] dc cur. destruct (mem h cur) eqn:E.
  - apply mem_In in E. split; [|split].
    + destruct (remove_host h cur); [apply keys_bdel|apply keys_bset]; exact HK.
    + intros d. unfold cur. rewrite bget_down by exact E. destruct (d =? dc); [apply nodup_remove_host|]; apply HN.
    + intros x d. unfold cur in *. rewrite bget_down by exact E.
      rewrite andb_true_iff, negb_true_iff, Z.eqb_neq. split.
      * destruct (Z.eqb_spec d dc) as [->|Hd].
        -- rewrite In_remove_host. intros [H1 H2]. apply HM in H1. tauto.
        -- intros H1. apply HM in H1. split; [|tauto].
           split; [|tauto]. intros ->. unfold dc in Hd. destruct H1 as [_ H1]. congruence.
      * intros [[H1 H2] H3]. destruct (Z.eqb_spec d dc) as [->|Hd].
        -- rewrite In_remove_host. split; auto. apply HM. tauto.
        -- apply HM. tauto.
  - apply mem_false in E. apply (binv_ext local dcm b L); [split; [|split]; assumption|].
    intros x. destruct (Z.eqb_spec x h) as [->|]; simpl; auto.
    destruct (L h) eqn:EL; auto. exfalso. apply E. apply HM. auto.
Qed.

(* a host that is not live may change its datacenter freely *)
Lemma binv_set_loc : forall local dcm b L h d,
  binv local dcm b L -> L h = false -> binv local (aset dcm h d) b L.
Proof.
  intros local dcm b L h d [HK [HN HM]] EL. split; [exact HK|]. split; [exact HN|].
  intros x k. split.
  - intros H. apply HM in H. destruct H as [H1 H2]. split; auto. rewrite aget_aset.
    destruct (Z.eqb_spec h x); [subst; congruence|exact H2].
  - intros [H1 H2]. apply HM. split; auto. rewrite aget_aset in H2.
    destruct (Z.eqb_spec h x); [subst; congruence|exact H2].
Qed.

(* late inference of local_dc: the unset bucket moves to the inferred DC *)
Lemma bget_infer : forall b c d, c <> 0 ->
  bget (match bget b 0 with [] => bdel b 0 | _ => bset (bdel b 0) c (bget (bdel b 0) c ++ bget b 0) end) d =
  if d =? c then bget b c ++ bget b 0 else if d =? 0 then [] else bget b d.
Proof.
  intros b c d Hc. assert (E1 : bget (bdel b 0) c = bget b c).
  { rewrite bget_bdel. destruct (Z.eqb_spec c 0); [congruence|reflexivity]. }
  destruct (bget b 0) eqn:E0.
  - rewrite bget_bdel. destruct (Z.eqb_spec d c) as [->|].
    + destruct (Z.eqb_spec c 0); [congruence|]. rewrite app_nil_r. reflexivity.
    + reflexivity.
  - rewrite bget_bset, E1, bget_bdel. reflexivity.
Qed.

Lemma binv_infer : forall dcm b L c, c <> 0 ->
  binv 0 dcm b L ->
  binv c dcm (match bget b 0 with [] => bdel b 0 | _ => bset (bdel b 0) c (bget (bdel b 0) c ++ bget b 0) end) L.
Proof.
  intros dcm b L c Hc [HK [HN HM]].
  assert (Hkey0 : forall x, key_of 0 (aget dcm x) = aget dcm x).
  { intros x. unfold key_of. destruct (Z.eqb_spec (aget dcm x) 0); auto. }
  split; [|split].
  - destruct (bget b 0); [apply keys_bdel; exact HK|apply keys_bset, keys_bdel; exact HK].
  - intros d. rewrite bget_infer by exact Hc. destruct (d =? c).
    + apply nodup_app; [apply HN|apply HN|]. intros x H1 H2. apply HM in H1. apply HM in H2.
      rewrite Hkey0 in *. lia.
    + destruct (d =? 0); [constructor|apply HN].
  - intros h d. rewrite bget_infer by exact Hc. unfold key_of. split.
    + destruct (Z.eqb_spec d c) as [->|Hd].
      * rewrite in_app_iff. intros [H|H]; apply HM in H; rewrite Hkey0 in H; destruct H as [H1 H2]; split; auto.
        -- destruct (Z.eqb_spec (aget dcm h) 0); [lia|exact H2].
        -- rewrite H2. reflexivity.
      * destruct (Z.eqb_spec d 0) as [->|Hd0]; [simpl; tauto|].
        intros H. apply HM in H. rewrite Hkey0 in H. destruct H as [H1 H2]. split; auto.
        destruct (Z.eqb_spec (aget dcm h) 0); [lia|exact H2].
    + intros [H1 H2].
      destruct (Z.eqb_spec (aget dcm h) 0) as [E|E].
      * subst d. rewrite Z.eqb_refl. apply in_or_app. right. apply HM. rewrite Hkey0. auto.
      * subst d. destruct (Z.eqb_spec (aget dcm h) c) as [E2|E2].
        -- apply in_or_app. left. apply HM. rewrite Hkey0. auto.
        -- destruct (Z.eqb_spec (aget dcm h) 0); [tauto|]. apply HM. rewrite Hkey0. auto.
Qed.

Lemma dca_inv_infer : forall s L h, dca_inv s L -> dca_inv (dca_infer s h) L.
Proof.
  intros s L h H. unfold dca_infer.
  destruct ((d_local s =? 0) && negb (host_dc s h =? 0) && mem h (d_endpoints s)) eqn:E; [|exact H].
  apply andb_true_iff in E. destruct E as [E _]. apply andb_true_iff in E. destruct E as [E1 E2].
  apply Z.eqb_eq in E1. apply negb_true_iff, Z.eqb_neq in E2.
  unfold dca_inv in *. simpl. rewrite E1 in *. apply binv_infer; assumption.
Qed.

Lemma dca_inv_up : forall s L h, dca_inv s L -> dca_inv (dca_on_up s h) (fun x => (x =? h) || L x).
Proof.
  intros s L h H. apply (dca_inv_infer s L h) in H. unfold dca_on_up.
  set (s1 := dca_infer s h) in *. unfold dca_inv in *.
  pose proof (binv_add (d_local s1) (e_dc (d_env s1)) (d_live s1) L h H) as HA. simpl in HA.
  unfold dca_dc, host_dc. destruct (mem h (bget (d_live s1) (key_of (d_local s1) (aget (e_dc (d_env s1)) h)))); exact HA.
Qed.

Lemma dca_inv_down : forall s L h, dca_inv s L -> dca_inv (dca_on_down s h) (fun x => negb (x =? h) && L x).
Proof.
  intros s L h H. unfold dca_on_down, dca_inv in *.
  pose proof (binv_remove (d_local s) (e_dc (d_env s)) (d_live s) L h H) as HA. simpl in HA.
  unfold dca_dc, host_dc.
  destruct (mem h (bget (d_live s) (key_of (d_local s) (aget (e_dc (d_env s)) h)))); [|exact HA].
  destruct (remove_host h (bget (d_live s) (key_of (d_local s) (aget (e_dc (d_env s)) h)))); exact HA.
Qed.

(* populate: merging one groupby group *)
Lemma binv_merge : forall local dcm b L ord k g,
  binv local dcm b L -> (forall x, In x g -> key_of local (aget dcm x) = k) ->
  binv local dcm (dca_merge ord b (k, g)) (fun x => L x || mem x g).
Proof.
  intros local dcm b L ord k g [HK [HN HM]] Hg. unfold dca_merge. simpl. split; [|split].
  - apply keys_bset. exact HK.
  - intros d. rewrite bget_bset. destruct (d =? k); [apply nodup_set_order|apply HN].
  - intros h d. rewrite bget_bset. rewrite orb_true_iff, mem_In. split.
    + destruct (Z.eqb_spec d k) as [->|Hd].
      * rewrite In_set_order, in_app_iff. intros [H|H]; [apply HM in H; tauto|]. split; auto.
      * intros H. apply HM in H. tauto.
    + intros [[H1|H1] H2].
      * destruct (Z.eqb_spec d k) as [->|Hd].
        -- rewrite In_set_order, in_app_iff. left. apply HM. auto.
        -- apply HM. auto.
      * rewrite (Hg _ H1) in H2. subst d. rewrite Z.eqb_refl. rewrite In_set_order, in_app_iff. auto.
Qed.

Lemma binv_merge_all : forall local dcm ord gs b L,
  binv local dcm b L -> (forall k g x, In (k, g) gs -> In x g -> key_of local (aget dcm x) = k) ->
  binv local dcm (fold_left (dca_merge ord) gs b) (fun x => L x || existsb (fun kg => mem x (snd kg)) gs).
Proof.
  induction gs as [|[k g] gs IH]; intros b L H Hg; simpl.
  - eapply binv_ext; [exact H|]. intros x. rewrite orb_false_r. reflexivity.
  - eapply binv_ext.
    + apply IH; [apply binv_merge; [exact H|]|].
      * intros x Hx. apply (Hg k g); simpl; auto.
      * intros k' g' x Hin Hx. apply (Hg k' g'); simpl; auto.
    + intros x. simpl. rewrite orb_assoc. reflexivity.
Qed.

Lemma dca_inv_populate : forall s L hs ord r,
  dca_inv s L -> (forall h, L h = true -> mem h hs = true) -> dca_inv (dca_step s (Populate hs ord r)) (fun h => mem h hs).
Proof.
  intros s L hs ord r H HL. unfold dca_inv in *. simpl.
  eapply binv_ext.
  - apply binv_merge_all; [exact H|]. intros k g x Hin Hx.
    apply (groupby_keys (dca_dc s) hs k g x Hin Hx).
  - intros x. simpl. rewrite groupby_members. destruct (L x) eqn:E; [rewrite (HL x E)|]; reflexivity.
Qed.

Lemma dca_inv_step : forall s L e, pop_ok L e -> dca_inv s L -> dca_inv (dca_step s e) (mstep L e).
Proof.
  intros s L e Hp H. destruct e; simpl in Hp.
  - apply (dca_inv_populate s L); assumption.
  - apply dca_inv_up. exact H.
  - apply dca_inv_down. exact H.
  - apply dca_inv_up. exact H.
  - apply dca_inv_down. exact H.
  - apply (dca_inv_down s L h) in H.
    assert (H2 : dca_inv (dca_set_loc (dca_on_down s h) h dc rack) (fun x => negb (x =? h) && L x)).
    { unfold dca_inv in *. simpl. apply binv_set_loc; [exact H|]. rewrite Z.eqb_refl. reflexivity. }
    apply (dca_inv_up _ _ h) in H2. unfold dca_inv in *. eapply binv_ext; [exact H2|].
    intros x. simpl. destruct (x =? h); reflexivity.
  - exact H.
Qed.

Lemma dca_inv_run : forall evs s L, ok_from L evs -> dca_inv s L ->
  dca_inv (fold_left dca_step evs s) (fold_left mstep evs L).
Proof.
  induction evs as [|e evs IH]; intros s L Hn H; simpl; auto.
  simpl in Hn. destruct Hn as [H1 H2].
  apply IH; [exact H2|]. apply dca_inv_step; assumption.
Qed.

Lemma dca_inv_delivered : forall local used contact e evs, delivered evs ->
  dca_inv (fold_left dca_step evs (dca_init local used contact e)) (members evs).
Proof.
  intros local used contact e evs Hd. unfold members.
  apply dca_inv_run; [exact Hd|apply binv_init].
Qed.

(* ------------------------------------------------------------------ what the invariant says about plans *)
Section Plans.
  Variable s : dca_state.
  Variable L : Z -> bool.
  Hypothesis HI : dca_inv s L.

  Let key (h : Z) : Z := dca_dc s h.

  Lemma entry_bget : forall k l, In (k, l) (d_live s) -> l = bget (d_live s) k.
  Proof. intros k l H. destruct HI as [HK _]. symmetry. apply bget_In; assumption. Qed.

  Lemma local_part_In : forall h, In h (dca_local_part s) <-> L h = true /\ key h = d_local s.
  Proof.
    intros h. destruct HI as [_ [_ HM]]. unfold dca_local_part, key, dca_dc, host_dc.
    destruct (bget (d_live s) (d_local s)) eqn:E.
    - rewrite <- (HM h (d_local s)), E. simpl. tauto.
    - rewrite In_rotate, <- E. apply HM.
  Qed.

  Lemma local_part_nodup : NoDup (dca_local_part s).
  Proof.
    destruct HI as [_ [HN _]]. unfold dca_local_part.
    destruct (bget (d_live s) (d_local s)) eqn:E; [constructor|]. apply nodup_rotate. rewrite <- E. apply HN.
  Qed.

  Lemma remote_part_In : forall h, In h (dca_remote_part s) <->
    key h <> d_local s /\ In h (take_used (d_used s) (bget (d_live s) (key h))).
  Proof.
    intros h. destruct HI as [HK [HN HM]]. unfold dca_remote_part. rewrite in_flat_map. split.
    - intros [[k l] [Hin Hh]]. simpl in Hh. destruct (Z.eqb_spec k (d_local s)); [destruct Hh|].
      pose proof (entry_bget k l Hin) as El. subst l.
      assert (Hk : key h = k) by (apply In_take_used in Hh; apply HM in Hh; apply Hh).
      rewrite Hk. auto.
    - intros [Hk Hh]. exists (key h, bget (d_live s) (key h)). split.
      + apply bget_nonempty_In. intro E. rewrite E in Hh. apply In_take_used in Hh. destruct Hh.
      + simpl. destruct (Z.eqb_spec (key h) (d_local s)); [tauto|exact Hh].
  Qed.

  (* generic facts about flat_map over a bucket list whose entries hold hosts of their own key only *)
  Lemma remote_generic : forall (b : buckets) (loc u : Z),
    NoDup (map fst b) -> (forall k l, In (k, l) b -> NoDup l) ->
    (forall k l x, In (k, l) b -> In x l -> key x = k) ->
    NoDup (flat_map (fun kl => if fst kl =? loc then [] else take_used u (snd kl)) b) /\
    (0 <= u -> forall d, Nat.le (length (filter (fun x => key x =? d)
        (flat_map (fun kl => if fst kl =? loc then [] else take_used u (snd kl)) b))) (Z.to_nat u)) /\
    (forall d, ~ In d (map fst b) ->
       filter (fun x => key x =? d) (flat_map (fun kl => if fst kl =? loc then [] else take_used u (snd kl)) b) = []).
  Proof.
    induction b as [|[k l] b IH]; intros loc u HK HN Hkey.
    - simpl. split; [constructor|]. split; [intros; simpl; lia|reflexivity].
    - inversion HK; subst.
      assert (IHb := IH loc u H2 (fun k' l' H => HN k' l' (or_intror H)) (fun k' l' x H => Hkey k' l' x (or_intror H))).
      destruct IHb as [IH1 [IH2 IH3]].
      set (f := fun kl : Z * list Z => if fst kl =? loc then [] else take_used u (snd kl)) in *.
      assert (Hfk : forall x, In x (f (k, l)) -> key x = k).
      { intros x Hx. unfold f in Hx. simpl in Hx. destruct (k =? loc); [destruct Hx|].
        apply In_take_used in Hx. apply (Hkey k l); simpl; auto. }
      assert (Hrest : forall x, In x (flat_map f b) -> In (key x) (map fst b)).
      { intros x Hx. apply in_flat_map in Hx. destruct Hx as [[k' l'] [Hin Hx]]. unfold f in Hx. simpl in Hx.
        destruct (k' =? loc); [destruct Hx|]. apply In_take_used in Hx.
        rewrite (Hkey k' l' x (or_intror Hin) Hx). apply (in_map fst) in Hin. exact Hin. }
      assert (Hone : forall d, filter (fun x => key x =? d) (f (k, l)) = if k =? d then f (k, l) else []).
      { intros d. destruct (Z.eqb_spec k d) as [->|Hd].
        - apply filter_all. intros x Hx. apply Z.eqb_eq. auto.
        - apply filter_none. intros x Hx. apply Z.eqb_neq. rewrite (Hfk x Hx). exact Hd. }
      simpl. split; [|split].
      + apply nodup_app; auto.
        * unfold f. simpl. destruct (k =? loc); [constructor|]. apply nodup_take_used. apply (HN k l). simpl. auto.
        * intros x Hx1 Hx2. apply Hfk in Hx1. apply Hrest in Hx2. rewrite Hx1 in Hx2. tauto.
      + intros Hu d. rewrite filter_app, app_length, Hone. destruct (Z.eqb_spec k d) as [->|Hd].
        * rewrite (IH3 d H1). simpl. rewrite Nat.add_0_r. unfold f. simpl.
          destruct (d =? loc); [simpl; lia|]. apply length_take_used. exact Hu.
        * simpl. apply IH2. exact Hu.
      + intros d Hd. rewrite filter_app, Hone. destruct (Z.eqb_spec k d) as [->|Hkd]; [simpl in Hd; tauto|].
        simpl. apply IH3. simpl in Hd. tauto.
  Qed.

  Lemma live_entries_ok :
    NoDup (map fst (d_live s)) /\ (forall k l, In (k, l) (d_live s) -> NoDup l) /\
    (forall k l x, In (k, l) (d_live s) -> In x l -> key x = k).
  Proof.
    destruct HI as [HK [HN HM]]. split; [exact HK|]. split.
    - intros k l H. rewrite (entry_bget k l H). apply HN.
    - intros k l x H Hx. rewrite (entry_bget k l H) in Hx. apply HM in Hx. apply Hx.
  Qed.

  Lemma remote_part_nodup : NoDup (dca_remote_part s).
  Proof.
    destruct live_entries_ok as [A [B C]]. apply (remote_generic (d_live s) (d_local s) (d_used s) A B C).
  Qed.

  Lemma remote_part_bound : 0 <= d_used s -> forall d,
    Nat.le (length (filter (fun x => key x =? d) (dca_remote_part s))) (Z.to_nat (d_used s)).
  Proof.
    destruct live_entries_ok as [A [B C]]. apply (remote_generic (d_live s) (d_local s) (d_used s) A B C).
  Qed.

  Lemma dca_plan_nodup : NoDup (dca_plan s).
  Proof.
    unfold dca_plan. apply nodup_app; [apply local_part_nodup|apply remote_part_nodup|].
    intros x H1 H2. apply local_part_In in H1. apply remote_part_In in H2. tauto.
  Qed.

  Lemma distance_local : forall h, dca_distance s h = LOCAL <-> key h = d_local s.
  Proof.
    intros h. unfold dca_distance. fold (key h). destruct (Z.eqb_spec (key h) (d_local s)); [tauto|].
    split; [|tauto]. destruct (d_used s =? 0); [discriminate|].
    destruct (bget (d_live s) (key h)); [discriminate|].
    destruct (mem h (take_used (d_used s) (z :: l))); discriminate.
  Qed.

  Lemma distance_remote : forall h, dca_distance s h = REMOTE <->
    key h <> d_local s /\ In h (take_used (d_used s) (bget (d_live s) (key h))).
  Proof.
    intros h. unfold dca_distance. fold (key h). destruct (Z.eqb_spec (key h) (d_local s)) as [E|E].
    - split; [discriminate|tauto].
    - destruct (Z.eqb_spec (d_used s) 0) as [E0|E0].
      + rewrite E0, take_used_zero. split; [discriminate|simpl; tauto].
      + destruct (bget (d_live s) (key h)) eqn:Eb.
        * split; [discriminate|]. intros [_ H]. apply In_take_used in H. destruct H.
        * destruct (mem h (take_used (d_used s) (z :: l))) eqn:Em.
          -- apply mem_In in Em. tauto.
          -- apply mem_false in Em. split; [discriminate|tauto].
  Qed.

  Lemma remote_part_distance : forall h, In h (dca_remote_part s) <-> dca_distance s h = REMOTE.
  Proof. intros h. rewrite remote_part_In, distance_remote. tauto. Qed.

  Lemma remote_live : forall h, dca_distance s h = REMOTE -> L h = true.
  Proof.
    intros h H. apply distance_remote in H. destruct H as [_ H]. apply In_take_used in H.
    destruct HI as [_ [_ HM]]. apply HM in H. apply H.
  Qed.

  Lemma dca_plan_exact : forall h, In h (dca_plan s) <-> L h = true /\ dca_distance s h <> IGNORED.
  Proof.
    intros h. unfold dca_plan. rewrite in_app_iff, local_part_In, remote_part_distance. split.
    - intros [[H1 H2]|H].
      + split; auto. apply distance_local in H2. congruence.
      + split; [apply remote_live; exact H|congruence].
    - intros [H1 H2]. destruct (dca_distance s h) eqn:E; [left|right|congruence]; auto.
      split; auto. apply distance_local. exact E.
  Qed.

  Lemma local_part_distance : forall h, In h (dca_local_part s) <-> L h = true /\ dca_distance s h = LOCAL.
  Proof. intros h. rewrite local_part_In, distance_local. tauto. Qed.
End Plans.

(* ------------------------------------------------------------------ a plan drained while events are delivered *)
Lemma bget_key_In : forall b d, bget b d <> [] -> In d (map fst b).
Proof.
  intros b d H. destruct (in_dec Z.eq_dec d (map fst b)) as [Hi|Hn]; [exact Hi|].
  exfalso. apply H. apply bget_nokey. exact Hn.
Qed.

Lemma plan3_sound : forall s0 s1 s2 L0 L2 h, dca_inv s0 L0 -> dca_inv s2 L2 ->
  In h (dca_plan3 s0 s1 s2) ->
  (L0 h = true /\ dca_distance s0 h = LOCAL) \/ L2 h = true.
Proof.
  intros s0 s1 s2 L0 L2 h H0 H2 Hin. unfold dca_plan3 in Hin. apply in_app_or in Hin. destruct Hin as [Hin|Hin].
  - left. apply (local_part_distance s0 L0 H0). exact Hin.
  - right. apply in_flat_map in Hin. destruct Hin as [dc [_ Hh]].
    destruct (dc =? d_local s1); [destruct Hh|]. apply In_take_used in Hh.
    destruct H2 as [_ [_ HM]]. apply HM in Hh. apply Hh.
Qed.

Lemma plan3_complete : forall s0 s1 s2 L0 L2 h, dca_inv s0 L0 -> dca_inv s2 L2 ->
  d_local s1 = d_local s2 ->
  ((L0 h = true /\ dca_distance s0 h = LOCAL) \/
   (dca_distance s2 h = REMOTE /\ bget (d_live s1) (dca_dc s2 h) <> [])) ->
  In h (dca_plan3 s0 s1 s2).
Proof.
  intros s0 s1 s2 L0 L2 h H0 H2 Hl [Hc|[Hr Hk]]; unfold dca_plan3; apply in_or_app.
  - left. apply (local_part_distance s0 L0 H0). exact Hc.
  - right. apply (distance_remote s2) in Hr. destruct Hr as [Hne Hin].
    apply in_flat_map. exists (dca_dc s2 h). split; [apply bget_key_In; exact Hk|].
    rewrite Hl. destruct (Z.eqb_spec (dca_dc s2 h) (d_local s2)); [tauto|exact Hin].
Qed.

(* ================================================================== the three base policies behind one interface *)
Definition b_inv (b : base) (s : bstate) (L : Z -> bool) : Prop :=
  match s with SRR r => rr_inv (b_wl b) r L | SDCA d => dca_inv d L end.

Lemma b_run_inv : forall b e evs, delivered evs -> b_inv b (b_run b e evs) (members evs).
Proof.
  intros b e evs Hd. unfold b_run, members. destruct b; simpl.
  - assert (E : forall evs s, fold_left (b_step BRR) evs (SRR s) = SRR (fold_left (rr_step None) evs s)).
    { induction evs0 as [|a evs0 IH]; intros; simpl; auto. }
    rewrite E. simpl. apply rr_inv_run. apply rr_inv_init.
  - assert (E : forall evs s, fold_left (b_step (BWL names resolve addr)) evs (SRR s) =
                              SRR (fold_left (rr_step (b_wl (BWL names resolve addr))) evs s)).
    { induction evs0 as [|a evs0 IH]; intros; simpl; auto. }
    rewrite E. apply rr_inv_run. apply rr_inv_init.
  - assert (E : forall evs s, fold_left (b_step (BDCA local used contact)) evs (SDCA s) = SDCA (fold_left dca_step evs s)).
    { induction evs0 as [|a evs0 IH]; intros; simpl; auto. }
    rewrite E. simpl. apply dca_inv_delivered. exact Hd.
Qed.

Lemma b_plan_nodup : forall b s L ord, b_inv b s L -> NoDup (b_plan s ord).
Proof.
  intros b s L ord H. destruct s; simpl in *.
  - apply rr_plan_nodup.
  - apply (dca_plan_nodup s L H).
Qed.

Lemma b_plan_exact : forall b s L ord h, b_inv b s L ->
  (In h (b_plan s ord) <-> L h = true /\ b_distance b s h <> IGNORED).
Proof.
  intros b s L ord h H. destruct s; simpl in *.
  - rewrite rr_plan_In. destruct H as [_ HM]. rewrite HM. unfold rr_distance.
    destruct (allowedb (b_wl b) h); split; intros [H1 H2]; split; auto; congruence.
  - apply (dca_plan_exact s L H).
Qed.

(* ================================================================== wrappers *)
Lemma hf_plan_facts : forall (pred : Z -> bool) (cd : Z -> dist) (L : Z -> bool) (p : list Z),
  NoDup p -> (forall h, In h p <-> L h = true /\ cd h <> IGNORED) ->
  NoDup (hf_plan pred p) /\
  (forall h, In h (hf_plan pred p) -> pred h = true) /\
  (forall h, In h (hf_plan pred p) <-> L h = true /\ hf_distance pred cd h <> IGNORED).
Proof.
  intros pred cd L p HN HE. unfold hf_plan, hf_distance. split; [|split].
  - apply nodup_filter. exact HN.
  - intros h H. apply filter_In in H. tauto.
  - intros h. rewrite filter_In. split.
    + intros [H1 H2]. rewrite H2. apply HE in H1. exact H1.
    + intros [H1 H2]. destruct (pred h); [|congruence]. split; auto. apply HE. tauto.
Qed.

Lemma df_plan_facts : forall (t : option Z) (p : list Z),
  NoDup p ->
  NoDup (df_plan t p) /\
  (forall h, In h (df_plan t p) <-> t = Some h \/ In h p) /\
  (forall x, t = Some x -> df_plan t p = x :: remove_host x p) /\
  (t = None -> df_plan t p = p).
Proof.
  intros t p HN. destruct t as [x|]; simpl.
  - split; [|split; [|split]].
    + constructor; [rewrite In_remove_host; tauto|apply nodup_remove_host; exact HN].
    + intros h. split.
      * intros [<-|H]; [auto|]. apply In_remove_host in H. tauto.
      * intros [H|H]; [inversion H; auto|]. destruct (Z.eq_dec x h); [auto|]. right. apply In_remove_host. split; auto.
    + intros y H. inversion H. reflexivity.
    + discriminate.
  - split; [exact HN|]. split; [|split].
    + intros h. split; [auto|]. intros [H|H]; [discriminate|exact H].
    + discriminate.
    + reflexivity.
Qed.
