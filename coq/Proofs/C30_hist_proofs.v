(* Lemmas for C30 over histories of one BoundStatement (Model/BindHistory.v). *)
From Coq Require Import ZArith List Bool Lia Arith.
From Verif Require Import CompositeSpec Bind BindHistory C30_proofs.
Import ListNotations.
Local Open Scope Z_scope.

Section HistProofs.
  Variable V : Type.
  Variable ser : nat -> V -> option (list Z).
  Variable names : list Z.
  Variable pk_idx : list nat.
  Variable pv : Z.

  Notation step := (step V ser names pk_idx pv).
  Notation read_key := (read_key pk_idx).
  Notation bind := (Bind.bind V ser names pk_idx pv).
  Notation bind_exec := (bind_exec V ser names pk_idx pv).
  Notation run := (run_with V step).

  Lemma bind_loop_p_spec : forall vs i,
    bind_loop V ser pk_idx pv i vs =
    match bind_loop_p V ser pk_idx pv i vs with (ws, None) => inr ws | (_, Some e) => inl e end.
  Proof.
    induction vs as [|v vs IH]; intros i; cbn [bind_loop bind_loop_p]; [reflexivity|].
    destruct (bind_one V ser pk_idx pv i v); [reflexivity|]. rewrite IH.
    destruct (bind_loop_p V ser pk_idx pv (S i) vs) as [ws [e|]]; reflexivity.
  Qed.

  Lemma fill_unset_p_spec : forall n i,
    fill_unset pk_idx i n = match fill_unset_p pk_idx i n with (ws, None) => inr ws | (_, Some e) => inl e end.
  Proof.
    induction n as [|n IH]; intros i; cbn [fill_unset fill_unset_p]; [reflexivity|].
    destruct (append_unset pk_idx i); [reflexivity|]. rewrite IH.
    destruct (fill_unset_p pk_idx (S i) n) as [ws [e|]]; reflexivity.
  Qed.

  (* bind_exec refines bind: same exception / same values; a successful bind always resets self.values *)
  Lemma bind_exec_spec : forall inp old,
    bind inp = match bind_exec inp old with (None, ws, _) => inr ws | (Some e, _, _) => inl e end /\
    (fst (fst (bind_exec inp old)) = None -> snd (bind_exec inp old) = true).
  Proof.
    assert (forall vs old,
      bind_values V ser names pk_idx pv vs =
        match bind_exec_values V ser names pk_idx pv vs old with (None, ws, _) => inr ws | (Some e, _, _) => inl e end /\
      (fst (fst (bind_exec_values V ser names pk_idx pv vs old)) = None -> snd (bind_exec_values V ser names pk_idx pv vs old) = true)) as Hv.
    { intros vs old. unfold bind_values, bind_exec_values.
      destruct (length names <? length vs)%nat; [split; [reflexivity|discriminate]|].
      match goal with |- context [if ?c then _ else _] => destruct c end; [split; [reflexivity|discriminate]|].
      rewrite bind_loop_p_spec. destruct (bind_loop_p V ser pk_idx pv 0 vs) as [ws [e|]]; [split; reflexivity|].
      destruct (4 <=? pv); [|split; reflexivity]. rewrite fill_unset_p_spec.
      destruct (fill_unset_p pk_idx (length vs) (length names - length vs)) as [us [e|]]; split; reflexivity. }
    intros [vs|d] old; cbn [Bind.bind BindHistory.bind_exec]; [apply Hv|].
    destruct (dict_to_list V pv d names); [split; [reflexivity|discriminate]|apply Hv].
  Qed.

  Lemma bind_exec_ok : forall inp old ws, bind inp = inr ws -> bind_exec inp old = (None, ws, true).
  Proof.
    intros inp old ws H. destruct (bind_exec_spec inp old) as [H1 H2]. rewrite H in H1.
    destruct (bind_exec inp old) as [[[e|] ws'] t]; [discriminate|]. inversion H1; subst.
    cbn in H2. rewrite H2; reflexivity.
  Qed.

  (* ------------------------------------------------------------------ the invariant: a cached key is the key of the CURRENT values *)
  Definition cache_ok (s : bstate) : Prop :=
    forall k, st_cache s = Some k -> routing_key pk_idx (st_values s) = RkBytes k.

  Definition inv (s : bstate) : Prop := cache_ok s /\ st_explicit s = None.

  Lemma inv_init : inv (init None).
  Proof. split; [intros k H; discriminate|reflexivity]. Qed.

  Lemma read_key_spec : forall s, inv s ->
    snd (read_key s) = routing_key pk_idx (st_values s) /\
    st_values (fst (read_key s)) = st_values s /\ inv (fst (read_key s)).
  Proof.
    intros s [Hc He]. unfold inv, cache_ok in *. unfold BindHistory.read_key. destruct pk_idx as [|i idx] eqn:Ei.
    - cbn. repeat split; auto.
    - rewrite He. destruct (st_cache s) as [k|] eqn:Ec.
      + cbn [fst snd]. rewrite (Hc k eq_refl). repeat split; auto. intros k0 Hk0. congruence.
      + destruct (routing_key (i :: idx) (st_values s)) as [| |k] eqn:Er; cbn [fst snd st_values st_cache st_explicit]; repeat split; auto.
        all: intros k' Hk; first [congruence | (inversion Hk; subst; exact Er)].
  Qed.

  Lemma step_inv : forall s o, inv s -> inv (fst (step s o)).
  Proof.
    intros s o Hi. destruct o as [inp|]; unfold BindHistory.step, step_gen.
    - destruct (bind_exec inp (st_values s)) as [[e vals] touched] eqn:Eb. cbn [fst].
      destruct Hi as [Hc He]. split; [|exact He]. intros k Hk. cbn [st_cache st_values] in *.
      destruct touched; cbn [andb] in Hk; [discriminate|].
      (* not touched: self.values is what it was *)
      assert (vals = st_values s) as ->.
      { clear - Eb. destruct inp as [vs|d]; cbn [BindHistory.bind_exec] in Eb.
        - unfold bind_exec_values in Eb. destruct (length names <? length vs)%nat; [inversion Eb; reflexivity|].
          match type of Eb with context [if ?c then _ else _] => destruct c end; [inversion Eb; reflexivity|].
          destruct (bind_loop_p V ser pk_idx pv 0 vs) as [ws [x|]]; [inversion Eb|].
          destruct (4 <=? pv); [|inversion Eb].
          destruct (fill_unset_p pk_idx (length vs) (length names - length vs)); inversion Eb.
        - destruct (dict_to_list V pv d names); [inversion Eb; reflexivity|].
          unfold bind_exec_values in Eb. destruct (length names <? length l)%nat; [inversion Eb; reflexivity|].
          match type of Eb with context [if ?c then _ else _] => destruct c end; [inversion Eb; reflexivity|].
          destruct (bind_loop_p V ser pk_idx pv 0 l) as [ws [x|]]; [inversion Eb|].
          destruct (4 <=? pv); [|inversion Eb].
          destruct (fill_unset_p pk_idx (length l) (length names - length l)); inversion Eb. }
      apply Hc. exact Hk.
    - destruct (read_key_spec s Hi) as [_ [_ Hi']]. destruct (read_key s) as [s' r]. exact Hi'.
  Qed.

  Lemma run_inv : forall ops s, inv s -> inv (fst (run s ops)).
  Proof.
    induction ops as [|o ops IH]; intros s Hi; cbn [run_with]; [exact Hi|].
    pose proof (step_inv s o Hi) as H1. destruct (step s o) as [s1 ob]. cbn [fst] in H1.
    specialize (IH s1 H1). destruct (run s1 ops) as [s2 obs]. exact IH.
  Qed.

  Lemma run_read : forall s ops,
    run s (ORead :: ops) =
    (let '(s1, r) := read_key s in let '(s2, obs) := run s1 ops in (s2, ObsRead r (st_values s1) :: obs)).
  Proof.
    intros s ops. cbn [run_with]. unfold BindHistory.step at 1, step_gen. destruct (read_key s) as [s1 r]. reflexivity.
  Qed.

  Lemma reads_keep : forall n s, inv s ->
    inv (fst (run s (repeat ORead n))) /\ st_values (fst (run s (repeat ORead n))) = st_values s.
  Proof.
    induction n as [|n IH]; intros s Hi; cbn [repeat]; [cbn; auto|].
    rewrite run_read. destruct (read_key_spec s Hi) as [_ [Hv Hi']].
    destruct (read_key s) as [s1 r]. cbn [fst] in *. destruct (IH s1 Hi') as [H1 H2].
    destruct (run s1 (repeat ORead n)) as [s2 obs]. cbn [fst] in *. split; [exact H1|congruence].
  Qed.

  (* after ANY history, bind successfully, read the key any number of times: the next read reports the key of THIS binding *)
  Lemma rebind_routing_key : forall h inp ws n,
    bind inp = inr ws ->
    let s0 := fst (run (init None) h) in
    let s1 := fst (step s0 (OBind inp)) in
    let s2 := fst (run s1 (repeat ORead n)) in
    snd (step s2 ORead) = ObsRead (routing_key pk_idx ws) ws.
  Proof.
    intros h inp ws n Hb s0 s1 s2.
    assert (inv s0) as H0 by (apply run_inv, inv_init).
    assert (inv s1) as H1 by (apply step_inv; exact H0).
    assert (st_values s1 = ws) as Hv1.
    { unfold s1, BindHistory.step, step_gen. rewrite (bind_exec_ok inp (st_values s0) ws Hb). reflexivity. }
    destruct (reads_keep n s1 H1) as [H2 Hv2]. fold s2 in H2, Hv2.
    unfold BindHistory.step, step_gen. destruct (read_key_spec s2 H2) as [Hr [Hv _]].
    destruct (read_key s2) as [s3 r]. cbn [fst snd] in *. rewrite Hr, Hv, Hv2, Hv1. reflexivity.
  Qed.

  (* a routing key given to the constructor is what routing_key reports, before and after any bind (when indexes are known) *)
  Lemma explicit_kept : forall ops k, pk_idx <> [] ->
    let s := fst (run (init (Some k)) ops) in
    st_explicit s = Some k /\ snd (read_key s) = RkBytes k.
  Proof.
    intros ops k Hne.
    assert (forall ops s, st_explicit s = Some k -> st_explicit (fst (run s ops)) = Some k) as Hkeep.
    { induction ops0 as [|o ops0 IH]; intros s Hs; cbn [run_with]; [exact Hs|].
      assert (st_explicit (fst (step s o)) = Some k) as H1.
      { destruct o as [inp|]; unfold BindHistory.step, step_gen.
        - destruct (bind_exec inp (st_values s)) as [[e vals] t]. exact Hs.
        - unfold BindHistory.read_key. destruct pk_idx; [exact Hs|]. rewrite Hs. exact Hs. }
      destruct (step s o) as [s1 ob]. specialize (IH s1 H1). destruct (run s1 ops0) as [s2 obs]. exact IH. }
    cbn zeta. pose proof (Hkeep ops (init (Some k)) eq_refl) as Hs. split; [exact Hs|].
    unfold BindHistory.read_key. destruct pk_idx; [congruence|]. rewrite Hs. reflexivity.
  Qed.
End HistProofs.
