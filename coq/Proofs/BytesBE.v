(* Byte- and bit-level lemmas shared by the proofs about source-translated integer codecs
   (Marshal_proofs, SegmentCrc_proofs, UtilTime_proofs): big-endian byte expansions, masks, shifts, py_index. *)
From Coq Require Import ZArith List Bool Lia ZifyBool.
From Verif Require Import PyBase JavaBigInteger.
Import ListNotations.
Local Open Scope Z_scope.

(* ------------------------------------------------------------------ masks and shifts as arithmetic *)
Lemma land_255 x : Z.land x 255 = x mod 256.
Proof. change 255 with (Z.ones 8). rewrite Z.land_ones by lia. reflexivity. Qed.

Lemma shiftr_8 x : Z.shiftr x 8 = x / 256.
Proof. rewrite Z.shiftr_div_pow2 by lia. reflexivity. Qed.

Lemma shiftl_8 x : Z.shiftl x 8 = x * 256.
Proof. rewrite Z.shiftl_mul_pow2 by lia. reflexivity. Qed.

Lemma mod256_range x : 0 <= x mod 256 < 256.
Proof. apply Z.mod_pos_bound. lia. Qed.

Lemma pow2_pos k : 0 <= k -> 0 < 2 ^ k.
Proof. intros. apply Z.pow_pos_nonneg; lia. Qed.

Lemma pow2_le a b : 0 <= a <= b -> 2 ^ a <= 2 ^ b.
Proof. intros. apply Z.pow_le_mono_r; lia. Qed.

Lemma pow2_lt a b : 0 <= a < b -> 2 ^ a < 2 ^ b.
Proof. intros. apply Z.pow_lt_mono_r; lia. Qed.

Lemma pow2_add a b : 0 <= a -> 0 <= b -> 2 ^ (a + b) = 2 ^ a * 2 ^ b.
Proof. intros. apply Z.pow_add_r; lia. Qed.

(* facts about single bytes are proved by enumeration of the 256 values *)
Lemma byte_forall (f : Z -> bool) :
  forallb f (map Z.of_nat (seq 0 256)) = true -> forall b, 0 <= b < 256 -> f b = true.
Proof.
  intros H b Hb. rewrite forallb_forall in H. apply H. apply in_map_iff.
  exists (Z.to_nat b). split; [lia|]. apply in_seq. lia.
Qed.

Lemma land_128 b : 0 <= b < 256 -> (Z.land b 128 =? 0) = (b <? 128).
Proof.
  intros Hb. apply eqb_prop.
  apply (byte_forall (fun b => Bool.eqb (Z.land b 128 =? 0) (b <? 128))); [vm_compute; reflexivity|assumption].
Qed.

Lemma lnot_byte b : 0 <= b < 256 -> Z.land (Z.lnot b) 255 = 255 - b.
Proof.
  intros Hb. rewrite land_255. unfold Z.lnot. replace (Z.pred (- b)) with ((255 - b) + (-1) * 256) by lia.
  rewrite Z.mod_add by lia. apply Z.mod_small. lia.
Qed.

(* disjoint lor is addition *)
Lemma lor_disjoint_add a m k : 0 <= k -> 0 <= a < 2 ^ k -> Z.lor a (m * 2 ^ k) = a + m * 2 ^ k.
Proof.
  intros Hk Ha.
  assert (Hl : Z.land a (m * 2 ^ k) = 0).
  { apply Z.bits_inj'. intros i Hi. rewrite Z.land_spec, Z.bits_0.
    destruct (Z_lt_dec i k) as [Hlt|Hge].
    - rewrite Z.mul_pow2_bits_low by lia. apply andb_false_r.
    - destruct (Z.eq_dec a 0) as [->|Hn]; [rewrite Z.bits_0; reflexivity|].
      rewrite (Z.bits_above_log2 a i); [reflexivity|lia|].
      assert (Z.log2 a < k) by (apply Z.log2_lt_pow2; lia). lia. }
  rewrite <- Z.lxor_lor by assumption. symmetry. apply Z.add_nocarry_lxor. assumption.
Qed.

Lemma shl8_lor_byte a b : 0 <= b < 256 -> Z.lor (Z.shiftl a 8) (Z.land b 255) = a * 256 + b.
Proof.
  intros Hb. rewrite land_255, Z.mod_small, shiftl_8 by lia. rewrite Z.lor_comm.
  change 256 with (2 ^ 8). rewrite lor_disjoint_add by (change (2 ^ 8) with 256; lia). lia.
Qed.

(* ------------------------------------------------------------------ bit lengths *)
Lemma nbits_nonneg n : 0 <= nbits n.
Proof. unfold nbits. destruct (n <=? 0) eqn:E; [lia|]. pose proof (Z.log2_nonneg n). lia. Qed.

Lemma nbits_spec n : 0 < n -> 2 ^ (nbits n - 1) <= n < 2 ^ (nbits n).
Proof.
  intros Hn. unfold nbits. destruct (n <=? 0) eqn:E; [lia|].
  replace (Z.log2 n + 1 - 1) with (Z.log2 n) by lia. replace (Z.log2 n + 1) with (Z.succ (Z.log2 n)) by lia.
  apply Z.log2_spec. assumption.
Qed.

Lemma nbits_lt_pow2 n b : 0 <= n -> 0 <= b -> (n < 2 ^ b <-> nbits n <= b).
Proof.
  intros Hn Hb. unfold nbits. destruct (n <=? 0) eqn:E.
  - assert (n = 0) by lia. subst. pose proof (pow2_pos b Hb). lia.
  - assert (0 < n) by lia. rewrite (Z.log2_lt_pow2 n b) by assumption. lia.
Qed.

Lemma py_bit_length_nbits n : py_bit_length n = nbits (Z.abs n).
Proof. unfold py_bit_length, nbits. destruct (n =? 0) eqn:E1; destruct (Z.abs n <=? 0) eqn:E2; lia. Qed.

(* ------------------------------------------------------------------ big-endian expansions *)
Lemma be_bytes_length n z : length (be_bytes n z) = n.
Proof. induction n as [|n IH]; [reflexivity|]. cbn [be_bytes length]. rewrite IH. reflexivity. Qed.

Lemma be_bytes_bytes n z : Forall is_byte (be_bytes n z).
Proof.
  induction n as [|n IH]; [constructor|]. cbn [be_bytes]. constructor; [|exact IH].
  unfold is_byte. apply mod256_range.
Qed.

(* the low byte comes last *)
Lemma be_bytes_snoc n z : be_bytes (S n) z = be_bytes n (Z.shiftr z 8) ++ [z mod 256].
Proof.
  induction n as [|n IH].
  - cbn [be_bytes app]. change (8 * Z.of_nat 0) with 0. rewrite Z.shiftr_0_r. reflexivity.
  - change (be_bytes (S (S n)) z) with (Z.shiftr z (8 * Z.of_nat (S n)) mod 256 :: be_bytes (S n) z).
    rewrite IH. cbn [be_bytes app]. f_equal. rewrite Z.shiftr_shiftr by lia. f_equal. f_equal. lia.
Qed.

Lemma shiftr_mod_byte z a k : 0 <= a -> a + 8 <= k -> (Z.shiftr (z mod 2 ^ k) a) mod 256 = (Z.shiftr z a) mod 256.
Proof.
  intros Ha Hk. change 256 with (2 ^ 8). apply Z.bits_inj'. intros i Hi.
  destruct (Z_lt_dec i 8) as [Hlt|Hge].
  - rewrite !Z.mod_pow2_bits_low by lia. rewrite !Z.shiftr_spec by lia. rewrite Z.mod_pow2_bits_low by lia. reflexivity.
  - rewrite !Z.mod_pow2_bits_high by lia. reflexivity.
Qed.

(* only the low 8n bits matter *)
Lemma be_bytes_mod_ge n z k : 8 * Z.of_nat n <= k -> be_bytes n (z mod 2 ^ k) = be_bytes n z.
Proof.
  induction n as [|n IH]; intros Hk; [reflexivity|]. cbn [be_bytes]. rewrite IH by lia. f_equal.
  apply shiftr_mod_byte; lia.
Qed.

Lemma be_bytes_congr n z z' : z mod 2 ^ (8 * Z.of_nat n) = z' mod 2 ^ (8 * Z.of_nat n) -> be_bytes n z = be_bytes n z'.
Proof.
  intros H. rewrite <- (be_bytes_mod_ge n z (8 * Z.of_nat n)), <- (be_bytes_mod_ge n z' (8 * Z.of_nat n)) by lia.
  rewrite H. reflexivity.
Qed.

Lemma be_bytes_add_pow n z c : be_bytes n (z + c * 2 ^ (8 * Z.of_nat n)) = be_bytes n z.
Proof. apply be_bytes_congr. apply Z.mod_add. pose proof (pow2_pos (8 * Z.of_nat n)). lia. Qed.

(* magnitude of the expansion *)
Lemma be_fold_bytes n z a :
  fold_left (fun acc b => acc * 256 + b) (be_bytes n z) a = a * 2 ^ (8 * Z.of_nat n) + z mod 2 ^ (8 * Z.of_nat n).
Proof.
  revert a. induction n as [|n IH]; intros a.
  - cbn [be_bytes fold_left]. change (2 ^ (8 * Z.of_nat 0)) with 1. rewrite Z.mod_1_r. lia.
  - cbn [be_bytes fold_left]. rewrite IH.
    replace (8 * Z.of_nat (S n)) with (8 * Z.of_nat n + 8) by lia.
    rewrite pow2_add by lia. change (2 ^ 8) with 256.
    rewrite (Z.rem_mul_r z (2 ^ (8 * Z.of_nat n)) 256) by (pose proof (pow2_pos (8 * Z.of_nat n)); lia).
    rewrite Z.shiftr_div_pow2 by lia. ring.
Qed.

Lemma be_unsigned_be_bytes n z : be_unsigned (be_bytes n z) = z mod 2 ^ (8 * Z.of_nat n).
Proof. unfold be_unsigned. rewrite be_fold_bytes. lia. Qed.

Lemma py_be_acc_fold bs a : py_be_acc bs a = fold_left (fun acc b => acc * 256 + b) bs a.
Proof. revert a. induction bs as [|b bs IH]; intros a; [reflexivity|]. cbn [py_be_acc fold_left]. apply IH. Qed.

Lemma be_fold_app bs cs a :
  fold_left (fun acc b => acc * 256 + b) (bs ++ cs) a =
  fold_left (fun acc b => acc * 256 + b) cs (fold_left (fun acc b => acc * 256 + b) bs a).
Proof. apply fold_left_app. Qed.

(* ------------------------------------------------------------------ py_index *)
Lemma py_index_nth_ok (l : list Z) (n : nat) v : nth_error l n = Some v -> py_index l (Z.of_nat n) = Ok v.
Proof.
  intros H. unfold py_index.
  assert (Hlt : (n < length l)%nat) by (apply nth_error_Some; congruence).
  destruct (Z.of_nat n <? 0) eqn:E1; [lia|].
  destruct ((Z.of_nat n <? 0) || (Z.of_nat (length l) <=? Z.of_nat n)) eqn:E2.
  { apply orb_prop in E2. destruct E2 as [E2|E2]; lia. }
  rewrite Nat2Z.id, H. reflexivity.
Qed.

Lemma py_index_app_mid (pre : list Z) x post : py_index (pre ++ x :: post) (Z.of_nat (length pre)) = Ok x.
Proof. apply py_index_nth_ok. rewrite nth_error_app2 by lia. rewrite Nat.sub_diag. reflexivity. Qed.

Lemma py_index_head x (l : list Z) : py_index (x :: l) 0 = Ok x.
Proof. exact (py_index_app_mid [] x l). Qed.

Lemma py_index_last (l : list Z) x : py_index (l ++ [x]) (-1) = Ok x.
Proof.
  unfold py_index. rewrite app_length. cbn [length]. cbn [Z.ltb Z.compare].
  replace (-1 + Z.of_nat (length l + 1)) with (Z.of_nat (length l)) by lia.
  destruct ((Z.of_nat (length l) <? 0) || (Z.of_nat (length l + 1) <=? Z.of_nat (length l))) eqn:E.
  { apply orb_prop in E. destruct E as [E|E]; lia. }
  rewrite Nat2Z.id. rewrite nth_error_app2 by lia. rewrite Nat.sub_diag. reflexivity.
Qed.

Lemma py_index_out (l : list Z) i : Z.of_nat (length l) <= i -> py_index l i = Raise.
Proof.
  intros H. unfold py_index. destruct (i <? 0) eqn:E1; [lia|].
  destruct ((i <? 0) || (Z.of_nat (length l) <=? i)) eqn:E2; [reflexivity|].
  apply orb_false_elim in E2. lia.
Qed.

Lemma py_byte_check_ok x : 0 <= x < 256 -> py_byte_check x = Ok tt.
Proof. intros H. unfold py_byte_check. destruct ((0 <=? x) && (x <? 256)) eqn:E; [reflexivity|]. apply andb_false_elim in E. destruct E; lia. Qed.

Lemma py_byte_check_bad x : ~ (0 <= x < 256) -> py_byte_check x = Raise.
Proof. intros H. unfold py_byte_check. destruct ((0 <=? x) && (x <? 256)) eqn:E; [|reflexivity]. apply andb_prop in E. lia. Qed.

Lemma py_range_up a n : py_range a (a + Z.of_nat n) 1 = map (fun k => a + Z.of_nat k) (seq 0 n).
Proof.
  unfold py_range. cbn [Z.ltb Z.compare]. rewrite Z.div_1_r.
  replace (Z.to_nat (a + Z.of_nat n - a + 1 - 1)) with n by lia.
  apply map_ext. intros k. lia.
Qed.
