(* C36 lemmas: to_database preserves the CQL denotation, for every column type (induction over the column
   structure, nested through tuple/UDT field lists) and every valid value; DateTime stores the exact millisecond. *)
From Coq Require Import ZArith List Bool Lia ZifyBool.
From Verif Require Import DyFloat Columns.
Import ListNotations.
Local Open Scope Z_scope.
Ltac Zify.zify_post_hook ::= Z.to_euclidean_division_equations.

(* the property at one input *)
Definition R (c : col) (v : pyval) : Prop :=
  exists x a l, to_database c v = Some x /\ denote (cql_type c) x = Some a /\ prepared_value (cql_type c) v = Some a /\
                encode_literal x = Some l /\ lit_value (cql_type c) l = Some a.

(* ------------------------------------------------------------------ induction principle for columns *)
Section ColInd.
  Variable P : col -> Prop.
  Hypothesis Hscalar : forall c, (forall c1, c <> CList c1) -> (forall c1, c <> CSet c1) -> (forall k w, c <> CMap k w) ->
                                 (forall cs, c <> CTuple cs) -> (forall fs, c <> CUDT fs) -> P c.
  Hypothesis Hlist : forall c, P c -> P (CList c).
  Hypothesis Hset : forall c, P c -> P (CSet c).
  Hypothesis Hmap : forall k w, P k -> P w -> P (CMap k w).
  Hypothesis Htuple : forall cs, Forall P cs -> P (CTuple cs).
  Hypothesis Hudt : forall fs, Forall P fs -> P (CUDT fs).

  Fixpoint col_ind' (c : col) : P c :=
    match c with
    | CList c1 => Hlist c1 (col_ind' c1)
    | CSet c1 => Hset c1 (col_ind' c1)
    | CMap k w => Hmap k w (col_ind' k) (col_ind' w)
    | CTuple cs => Htuple cs ((fix go (l : list col) : Forall P l :=
                                 match l with [] => Forall_nil P | x :: l' => Forall_cons x (col_ind' x) (go l') end) cs)
    | CUDT fs => Hudt fs ((fix go (l : list col) : Forall P l :=
                              match l with [] => Forall_nil P | x :: l' => Forall_cons x (col_ind' x) (go l') end) fs)
    | c0 => Hscalar c0 ltac:(intros; discriminate) ltac:(intros; discriminate) ltac:(intros; discriminate)
                      ltac:(intros; discriminate) ltac:(intros; discriminate)
    end.
End ColInd.

(* ------------------------------------------------------------------ scalars *)
Local Arguments in_range : simpl never.
Local Arguments Z.add : simpl never.
Local Arguments Z.sub : simpl never.
Local Arguments Z.mul : simpl never.
Local Arguments Z.div : simpl never.
Local Arguments Z.modulo : simpl never.
Local Arguments Z.pow : simpl never.
Local Arguments Z.opp : simpl never.
Local Arguments Z.abs : simpl never.
Local Arguments Z.ltb : simpl never.
Local Arguments Z.leb : simpl never.
Local Arguments Z.eqb : simpl never.
Local Arguments forallb : simpl never.
Local Arguments round32 : simpl never.
Local Arguments f_of_int : simpl never.
Local Arguments datetime_to_db : simpl never.
Local Arguments tz_off : simpl never.

Ltac rw_guard :=
  repeat match goal with
         | H : ?g = true |- context [?g] => lazymatch g with true => fail | _ => rewrite H end
         end.

Ltac finish :=
  rw_guard;
  repeat match goal with
         | H : (_ && _) = true |- _ => apply andb_prop in H; destruct H
         end;
  rw_guard; cbn [andb]; try reflexivity.

Lemma dt_date_midnight : forall d, datetime_to_db (d * US_DAY) None = d * 86400000.
Proof.
  intros d. unfold datetime_to_db, tz_off, US_DAY. replace (d * 86400000000 - 0) with (d * 86400000 * 1000) by lia.
  apply Z.quot_mul. lia.
Qed.

Lemma scalar_R : forall c v,
  (forall c1, c <> CList c1) -> (forall c1, c <> CSet c1) -> (forall k w, c <> CMap k w) ->
  (forall cs, c <> CTuple cs) -> (forall fs, c <> CUDT fs) ->
  valid c v = true -> R c v.
Proof.
  intros c v N1 N2 N3 N4 N5 H. unfold R, denote, prepared_value.
  destruct c; try (exfalso; (now eapply N1) || (now eapply N2) || (now eapply N3) || (now eapply N4) || (now eapply N5));
    destruct v; cbn in H; try discriminate H; cbn;
    repeat match goal with
           | |- context [let '(_, _) := ?p in _] => destruct p eqn:?
           | H : context [let '(_, _) := ?p in _] |- _ => destruct p eqn:?
           end;
    try rewrite dt_date_midnight.
  all: unfold float_value32, in_i8, in_i16, in_i32, in_i64, datetime_to_db in *;
       repeat match goal with
              | H : (_ && _) = true |- _ => apply andb_prop in H; destruct H
              end;
       repeat match goal with
              | H : match round32 ?x with _ => _ end = true |- _ => destruct (round32 x) as [[? ?]|] eqn:?; [|discriminate H]
              end;
       repeat match goal with
              | Hr : round32 (?m, _) = Some (?m', _) |- _ =>
                  lazymatch goal with
                  | Hc : ((m' =? 0) && (m <? 0)) = _ |- _ => fail
                  | _ => destruct ((m' =? 0) && (m <? 0)) eqn:?
                  end
              end;
       do 3 eexists; (split; [reflexivity|]); cbn; unfold float_value32;
       repeat match goal with Hr : round32 _ = _ |- _ => rewrite Hr end;
       repeat match goal with Hc : ?g = _ |- context [if ?g then _ else _] => rewrite Hc end;
       rw_guard; cbn [andb];
       (split; [reflexivity|]);
       (split; [try reflexivity; f_equal; f_equal; unfold EPOCH_OFFSET_DAYS;
                repeat match goal with |- context [if ?b then _ else _] => destruct b eqn:? end; lia|]);
       (split; [reflexivity|]);
       cbn; unfold float_value32, in_i8, in_i16, in_i32, in_i64;
       repeat match goal with Hr : round32 _ = _ |- _ => rewrite Hr end;
       repeat match goal with Hc : ?g = _ |- context [if ?g then _ else _] => rewrite Hc end;
       rw_guard; cbn [andb];
       try reflexivity.
  (* Duration: one leading sign for components of one sign *)
  all: f_equal; apply orb_prop in H;
       destruct H as [H | H]; apply andb_prop in H; destruct H as [H H3]; apply andb_prop in H; destruct H as [H1 H2];
       destruct (mo <? 0) eqn:?; destruct (d <? 0) eqn:?; destruct (ns <? 0) eqn:?; cbn [orb]; f_equal; lia.
Qed.

(* ------------------------------------------------------------------ containers *)
Definition RP (c : col) : Prop := forall v, valid c v = true -> R c v.

Lemma mapM_length : forall (A B : Type) (f : A -> option B) l ys, mapM f l = Some ys -> length ys = length l.
Proof.
  intros A B f l. induction l as [|x l IH]; intros ys H; cbn in H.
  - injection H as <-. reflexivity.
  - destruct (f x); [|discriminate]. destruct (mapM f l) eqn:E; [|discriminate]. injection H as <-. cbn. f_equal. apply IH. reflexivity.
Qed.

Lemma mapM_R : forall c l, RP c -> forallb (valid c) l = true ->
  exists xs vs ls, mapM (to_database c) l = Some xs /\
                   mapM (cql_value false (cql_type c)) xs = Some vs /\
                   mapM (cql_value true (cql_type c)) l = Some vs /\
                   mapM encode_literal xs = Some ls /\ mapM (lit_value (cql_type c)) ls = Some vs.
Proof.
  intros c l HP. induction l as [|x l IH]; intros H.
  - exists [], [], []. repeat split; reflexivity.
  - cbn [forallb] in H. apply andb_prop in H. destruct H as [Hx Hl].
    destruct (IH Hl) as (xs & vs & ls & E1 & E2 & E3 & E4 & E5).
    destruct (HP x Hx) as (x' & a & l' & F1 & F2 & F3 & F4 & F5). unfold denote, prepared_value in *.
    exists (x' :: xs), (a :: vs), (l' :: ls). unfold mapM in *. rewrite E1, E2, E3, E4, E5, F1, F2, F3, F4, F5.
    repeat split; reflexivity.
Qed.

Lemma mapM_pairs_R : forall k w l, RP k -> RP w ->
  forallb (fun kv => valid k (fst kv) && valid w (snd kv)) l = true ->
  exists xs vs ls,
    mapM (fun kv => match to_database k (fst kv), to_database w (snd kv) with
                    | Some a, Some b => Some (a, b) | _, _ => None end) l = Some xs /\
    mapM (fun kv => match cql_value false (cql_type k) (fst kv), cql_value false (cql_type w) (snd kv) with
                    | Some a, Some b => Some (a, b) | _, _ => None end) xs = Some vs /\
    mapM (fun kv => match cql_value true (cql_type k) (fst kv), cql_value true (cql_type w) (snd kv) with
                    | Some a, Some b => Some (a, b) | _, _ => None end) l = Some vs /\
    mapM (fun kv => match encode_literal (fst kv), encode_literal (snd kv) with
                    | Some a, Some b => Some (a, b) | _, _ => None end) xs = Some ls /\
    mapM (fun kv => match lit_value (cql_type k) (fst kv), lit_value (cql_type w) (snd kv) with
                    | Some a, Some b => Some (a, b) | _, _ => None end) ls = Some vs.
Proof.
  intros k w l Hk Hw. induction l as [|[x y] l IH]; intros H.
  - exists [], [], []. repeat split; reflexivity.
  - cbn [forallb fst snd] in H. apply andb_prop in H. destruct H as [Hxy Hl]. apply andb_prop in Hxy. destruct Hxy as [Hx Hy].
    destruct (IH Hl) as (xs & vs & ls & E1 & E2 & E3 & E4 & E5).
    destruct (Hk x Hx) as (x' & a & la & F1 & F2 & F3 & F4 & F5). destruct (Hw y Hy) as (y' & b & lb & G1 & G2 & G3 & G4 & G5).
    unfold denote, prepared_value in *.
    exists ((x', y') :: xs), ((a, b) :: vs), ((la, lb) :: ls). unfold mapM in *. cbn [fst snd].
    rewrite E1, E2, E3, E4, E5, F1, F2, F3, F4, F5, G1, G2, G3, G4, G5.
    repeat split; reflexivity.
Qed.

Lemma to_db_none : forall c, to_database c PNone = Some PNone.
Proof. intros c. destruct c; reflexivity. Qed.

Lemma cql_value_none : forall r t, cql_value r t PNone = None.
Proof. intros r t. destruct t; reflexivity. Qed.

Lemma opt_field_some : forall f x, is_none x = false -> opt_field f x = f x.
Proof. intros f x H. destruct x; try reflexivity. discriminate H. Qed.

Lemma enc_null : forall x, encode_literal x = Some LNull -> x = PNone.
Proof.
  intros x H. destruct x; try reflexivity; cbn in H; try discriminate H;
    match type of H with option_map _ ?m = _ => destruct m; discriminate H end.
Qed.

Lemma forall2b_len : forall (A B : Type) (p : A -> B -> bool) la lb, forall2b p la lb = true -> (length lb <= length la)%nat.
Proof.
  intros A B p la. induction la as [|a la IH]; intros [|b lb] H; cbn in *; try lia; try discriminate.
  apply andb_prop in H. destruct H as [_ H]. apply IH in H. lia.
Qed.

(* one field of a tuple / UDT: None stays None (null), anything else goes through the field's column *)
Lemma field_R : forall c x (fdb : pyval -> option pyval),
  RP c ->
  (is_none x = true -> fdb x = Some PNone) -> (is_none x = false -> fdb x = to_database c x /\ valid c x = true) ->
  exists x' a l, fdb x = Some x' /\ opt_field (cql_value false (cql_type c)) x' = Some a /\
                 opt_field (cql_value true (cql_type c)) x = Some a /\
                 encode_literal x' = Some l /\ opt_lit (lit_value (cql_type c)) l = Some a.
Proof.
  intros c x fdb HP Hn Hs. destruct (is_none x) eqn:En.
  - exists PNone, VNull, LNull. rewrite (Hn eq_refl). destruct x; try discriminate En. repeat split; reflexivity.
  - destruct (Hs eq_refl) as [E V]. destruct (HP x V) as (x' & a & l & F1 & F2 & F3 & F4 & F5). unfold denote, prepared_value in *.
    exists x', a, l. rewrite E, F1. split; [reflexivity|]. split; [|split; [|split; [exact F4|]]].
    + destruct x'; try exact F2. rewrite cql_value_none in F2. discriminate F2.
    + rewrite opt_field_some by exact En. exact F3.
    + destruct l; try exact F5. apply enc_null in F4. subst x'. rewrite cql_value_none in F2. discriminate F2.
Qed.

Lemma zip_fields_R : forall (fdb : col -> pyval -> option pyval) cs, Forall RP cs ->
  (forall c x, is_none x = true -> fdb c x = Some PNone) ->
  (forall c x, is_none x = false -> fdb c x = to_database c x) ->
  forall l,
  forall2b (fun c' x => if is_none x then true else valid c' x) cs l = true ->
  exists xs vs ls, zipM (map fdb cs) l = Some xs /\
    zipM (map (fun t' => opt_field (cql_value false t')) (map cql_type cs)) xs = Some vs /\
    zipM (map (fun t' => opt_field (cql_value true t')) (map cql_type cs)) l = Some vs /\
    mapM encode_literal xs = Some ls /\
    zipM (map (fun t' => opt_lit (lit_value t')) (map cql_type cs)) ls = Some vs /\
    length xs = length l /\ length ls = length l.
Proof.
  intros fdb cs HF Hnone Hsome. induction HF as [|c cs Hc HF IH]; intros l H.
  - destruct l; [|discriminate H]. exists [], [], []. repeat split; reflexivity.
  - destruct l as [|x l].
    + exists [], [], []. repeat split; reflexivity.
    + cbn [forall2b] in H. apply andb_prop in H. destruct H as [Hx Hl].
      destruct (IH l Hl) as (xs & vs & ls & E1 & E2 & E3 & E4 & E5 & E6 & E7).
      destruct (field_R c x (fdb c) Hc) as (x' & a & l' & F1 & F2 & F3 & F4 & F5).
      * apply Hnone.
      * intros En. rewrite En in Hx. split; [apply Hsome; exact En | exact Hx].
      * exists (x' :: xs), (a :: vs), (l' :: ls). cbn [map zipM]. unfold mapM in *.
        rewrite E1, E2, E3, E4, E5, F1, F2, F3, F4, F5. cbn [length]. rewrite E6, E7.
        repeat split; reflexivity.
Qed.

Definition udt_field (f : col) (x : pyval) : option pyval :=
  match x with
  | PNone => if is_container f then to_database f x else Some PNone
  | _ => to_database f x
  end.

Lemma leb_len : forall (a b : nat), (a <= b)%nat -> (a <=? b)%nat = true.
Proof. intros a b H. apply Nat.leb_le. exact H. Qed.

(* ------------------------------------------------------------------ the main induction *)
Theorem same_value_all : forall c, RP c.
Proof.
  induction c using col_ind'; intros v Hv.
  - apply scalar_R; assumption.
  - (* List *)
    cbn [valid] in Hv.
    assert (HL : forall l, forallb (valid c) l = true -> forall mk, (mk = PList \/ mk = PTuple) -> R (CList c) (mk l)).
    { intros l Hl mk Hmk. destruct (mapM_R c l IHc Hl) as (xs & vs & ls & E1 & E2 & E3 & E4 & E5).
      exists (PList xs), (VList vs), (LList ls). unfold denote, prepared_value.
      destruct Hmk as [-> | ->]; cbn [to_database cql_type cql_value encode_literal lit_value]; rewrite E1, E3; cbn [option_map];
        rewrite E2, E4; cbn [option_map]; rewrite E5; repeat split; reflexivity. }
    destruct v; try discriminate Hv; [apply (HL l Hv PList) | apply (HL l Hv PTuple)]; auto.
  - (* Set *)
    cbn [valid] in Hv. destruct v; try discriminate Hv.
    destruct (mapM_R c l IHc Hv) as (xs & vs & ls & E1 & E2 & E3 & E4 & E5).
    exists (PSet xs), (VSet vs), (LSet ls). unfold denote, prepared_value. cbn [to_database cql_type cql_value encode_literal lit_value].
    rewrite E1, E3. cbn [option_map]. rewrite E2, E4. cbn [option_map]. rewrite E5. repeat split; reflexivity.
  - (* Map *)
    cbn [valid] in Hv. destruct v; try discriminate Hv.
    destruct (mapM_pairs_R c1 c2 l IHc1 IHc2 Hv) as (xs & vs & ls & E1 & E2 & E3 & E4 & E5).
    exists (PDict xs), (VMap vs), (LMap ls). unfold denote, prepared_value. cbn [to_database cql_type cql_value encode_literal lit_value].
    rewrite E1, E3. cbn [option_map]. rewrite E2, E4. cbn [option_map]. rewrite E5. repeat split; reflexivity.
  - (* Tuple *)
    cbn [valid] in Hv.
    assert (HL : forall l, forall2b (fun c' x => if is_none x then true else valid c' x) cs l = true ->
                 forall mk, (mk = PList \/ mk = PTuple) -> R (CTuple cs) (mk l)).
    { intros l Hl mk Hmk.
      destruct (zip_fields_R to_database cs H (fun c x En => ltac:(destruct x; try discriminate En; apply to_db_none))
                             (fun c x _ => eq_refl) l Hl) as (xs & vs & ls & E1 & E2 & E3 & E4 & E5 & E6 & E7).
      pose proof (forall2b_len _ _ _ _ _ Hl) as Hlen.
      exists (PTuple xs), (VTuple vs), (LTuple ls). unfold denote, prepared_value.
      destruct Hmk as [-> | ->]; cbn [to_database cql_type cql_value encode_literal lit_value]; rewrite E1; cbn [option_map];
        rewrite E4; cbn [option_map];
        rewrite E6, E7, map_length, (leb_len _ _ Hlen), E2, E3, E5; repeat split; reflexivity. }
    destruct v; try discriminate Hv; [apply (HL l Hv PList) | apply (HL l Hv PTuple)]; auto.
  - (* UDT *)
    cbn [valid] in Hv. destruct v; try discriminate Hv. apply andb_prop in Hv. destruct Hv as [Hlen Hv].
    assert (Hn : forall c x, is_none x = true -> udt_field c x = Some PNone).
    { intros c x En. destruct x; try discriminate En. unfold udt_field. destruct (is_container c); [apply to_db_none | reflexivity]. }
    assert (Hsm : forall c x, is_none x = false -> udt_field c x = to_database c x).
    { intros c x En. destruct x; try reflexivity. discriminate En. }
    destruct (zip_fields_R udt_field fs H Hn Hsm l Hv) as (xs & vs & ls & E1 & E2 & E3 & E4 & E5 & E6 & E7).
    exists (PUdt xs), (VUdt vs), (LUdt ls). unfold denote, prepared_value. cbn [to_database cql_type cql_value encode_literal lit_value].
    rewrite Hlen.
    change (map (fun f x => match x with PNone => if is_container f then to_database f x else Some PNone | _ => to_database f x end) fs) with (map udt_field fs).
    rewrite E1. cbn [option_map]. rewrite E4. cbn [option_map]. rewrite E6, E7, map_length, Hlen, E2, E3, E5. repeat split; reflexivity.
Qed.

(* sending the same object again: the argument is not written, so every send of a history denotes the same value *)
Lemma resend_all : forall c v n x, valid c v = true -> In x (send_history c v n) ->
  exists y a l, x = Some y /\ denote (cql_type c) y = Some a /\ prepared_value (cql_type c) v = Some a /\
                encode_literal y = Some l /\ lit_value (cql_type c) l = Some a.
Proof.
  intros c v n x Hv. induction n as [|n IH]; intros Hin; cbn [send_history] in Hin.
  - contradiction.
  - destruct Hin as [<- | Hin].
    + destruct (same_value_all c v Hv) as (y & a & l & E & Rest). exists y, a, l. split; [exact E | exact Rest].
    + unfold arg_after in Hin. apply IH. exact Hin.
Qed.

(* ------------------------------------------------------------------ DateTime: exact millisecond *)
Lemma datetime_bracket : forall wall tz,
  let i := wall - tz_off tz wall in let ms := datetime_to_db wall tz in
  (0 <= i -> 1000 * ms <= i < 1000 * ms + 1000) /\ (i <= 0 -> 1000 * ms - 1000 < i <= 1000 * ms).
Proof.
  intros wall tz i ms. unfold ms, datetime_to_db. fold i. generalize i. clear. intros i.
  lia.
Qed.

Lemma datetime_exact : forall wall tz ms,
  wall - tz_off tz wall = 1000 * ms -> datetime_to_db wall tz = ms.
Proof. intros wall tz ms H. unfold datetime_to_db. rewrite H. rewrite Z.mul_comm. apply Z.quot_mul. lia. Qed.
