From Coq Require Import ZArith List Bool Lia.
From Verif Require Import Heartbeat.
Import ListNotations.
Local Open Scope Z_scope.

Lemma wait_loop_spec T : 0 <= T -> forall arrivals now, 0 <= now <= T ->
  wait_loop T now (T - now) arrivals = map (in_time T) arrivals.
Proof.
  intros HT. induction arrivals as [|a rest IH]; intros now Hn; [reflexivity|].
  cbn [wait_loop map]. unfold wait_one. destruct a as [t|]; cbn [in_time].
  - destruct (Z.leb_spec t now).
    + rewrite IH by lia. destruct (Z.leb_spec t T); [reflexivity|lia].
    + destruct (Z.ltb_spec 0 (T - now)); destruct (Z.leb_spec t (now + (T - now))); cbn [andb].
      * rewrite IH by lia. destruct (Z.leb_spec t T); [reflexivity|lia].
      * replace (T - (now + Z.max (T - now) 0)) with (T - T) by lia.
        replace (now + Z.max (T - now) 0) with T by lia. rewrite IH by lia. destruct (Z.leb_spec t T); [lia|reflexivity].
      * replace (now + Z.max (T - now) 0) with T by lia. rewrite IH by lia. destruct (Z.leb_spec t T); [lia|reflexivity].
      * replace (now + Z.max (T - now) 0) with T by lia. rewrite IH by lia. destruct (Z.leb_spec t T); [lia|reflexivity].
  - replace (now + Z.max (T - now) 0) with T by lia. rewrite IH by lia. reflexivity.
Qed.

Lemma wait_phase_spec T arrivals : 0 <= T -> wait_phase T arrivals = map (in_time T) arrivals.
Proof. intros HT. unfold wait_phase. replace T with (T - 0) at 2 by lia. apply wait_loop_spec; lia. Qed.
