(* C08: the source-translated murmur3 (Gen/Murmur3Gen.v, unbounded Python ints) equals the Java-semantics
   specification (Model/Murmur3Spec.v) for EVERY byte string. *)
From Coq Require Import ZArith List Bool Lia ZifyBool.
From Verif Require Import PyBase ByteWords Murmur3Ext Murmur3Spec Murmur3Gen Bits64.
Import ListNotations.
Local Open Scope Z_scope.

Lemma M64_W64 : M64 = W64. Proof. reflexivity. Qed.

(* ------------------------------------------------------------------ helpers of the Python code *)
Lemma rotl64_congr x s r : 0 < r < 64 -> eqm64 x s -> 0 <= s < W64 -> eqm64 (rotl64 x r) (rotl64s s r).
Proof.
  intros Hr He Hs. unfold rotl64, rotl64s. cbv zeta. rewrite M64_W64.
  eapply eqm64_trans; [apply rotl_py_congr; assumption|].
  unfold rotl_spec. replace (x mod W64) with s; [apply eqm64_refl|].
  unfold eqm64 in He. rewrite He. symmetry. apply Z.mod_small. assumption.
Qed.

Lemma mul64_range a b : 0 <= mul64 a b < W64.
Proof. unfold mul64. rewrite M64_W64. apply mod64_range. Qed.
Lemma add64_range a b : 0 <= add64 a b < W64.
Proof. unfold add64. rewrite M64_W64. apply mod64_range. Qed.
Lemma rotl64s_range a r : 0 <= rotl64s a r < W64.
Proof. unfold rotl64s. rewrite M64_W64. apply mod64_range. Qed.

Lemma eqm64_mul64 x y a b : eqm64 x a -> eqm64 y b -> eqm64 (x * y) (mul64 a b).
Proof. intros H1 H2. unfold mul64. rewrite M64_W64. eapply eqm64_trans; [apply eqm64_mul; eassumption|]. apply eqm64_sym, eqm64_mod. Qed.
Lemma eqm64_add64 x y a b : eqm64 x a -> eqm64 y b -> eqm64 (x + y) (add64 a b).
Proof. intros H1 H2. unfold add64. rewrite M64_W64. eapply eqm64_trans; [apply eqm64_add; eassumption|]. apply eqm64_sym, eqm64_mod. Qed.

Lemma c1_congr : eqm64 (-8663945395140668459) C1. Proof. reflexivity. Qed.

Lemma mix_k1_congr k w : eqm64 k w ->
  eqm64 (rotl64 (k * -8663945395140668459) 31 * 5545529020109919103) (mix_k1 w).
Proof.
  intros H. unfold mix_k1. apply eqm64_mul64; [|apply eqm64_refl].
  apply rotl64_congr; [lia| |apply mul64_range]. apply eqm64_mul64; [assumption|apply c1_congr].
Qed.
Lemma mix_k2_congr k w : eqm64 k w ->
  eqm64 (rotl64 (k * 5545529020109919103) 33 * -8663945395140668459) (mix_k2 w).
Proof.
  intros H. unfold mix_k2. apply eqm64_mul64; [|apply c1_congr].
  apply rotl64_congr; [lia| |apply mul64_range]. apply eqm64_mul64; [assumption|apply eqm64_refl].
Qed.

Lemma mix_k1_range w : 0 <= mix_k1 w < W64. Proof. apply mul64_range. Qed.
Lemma mix_k2_range w : 0 <= mix_k2 w < W64. Proof. apply mul64_range. Qed.

(* one body round, in the shape of the generated let-chain (zeta-expanded) *)
Definition py_h1 (h1 h2 k1 : Z) : Z :=
  (rotl64 (Z.lxor h1 (rotl64 (k1 * -8663945395140668459) 31 * 5545529020109919103)) 27 + h2) * 5 + 1390208809.
Definition py_h2 (h1' h2 k2 : Z) : Z :=
  (rotl64 (Z.lxor h2 (rotl64 (k2 * 5545529020109919103) 33 * -8663945395140668459)) 31 + h1') * 5 + 944331445.

Lemma round_congr h1 h2 k1 k2 s1 s2 w1 w2 :
  eqm64 h1 s1 -> eqm64 h2 s2 -> eqm64 k1 w1 -> eqm64 k2 w2 ->
  0 <= s1 < W64 -> 0 <= s2 < W64 ->
  let r := round (s1, s2) w1 w2 in
  eqm64 (py_h1 h1 h2 k1) (fst r) /\ eqm64 (py_h2 (py_h1 h1 h2 k1) h2 k2) (snd r) /\
  0 <= fst r < W64 /\ 0 <= snd r < W64.
Proof.
  intros E1 E2 K1 K2 R1 R2. cbv zeta. unfold round. cbn [fst snd].
  assert (A : eqm64 (py_h1 h1 h2 k1)
                    (add64 (mul64 (add64 (rotl64s (Z.lxor s1 (mix_k1 w1)) 27) s2) 5) 1390208809)).
  { unfold py_h1. apply eqm64_add64; [|apply eqm64_refl]. apply eqm64_mul64; [|apply eqm64_refl].
    apply eqm64_add64; [|assumption].
    apply rotl64_congr; [lia| |apply lxor_range; [assumption|apply mix_k1_range]].
    apply eqm64_lxor; [assumption|apply mix_k1_congr; assumption]. }
  split; [exact A|]. split; [|split; apply add64_range].
  unfold py_h2. apply eqm64_add64; [|apply eqm64_refl]. apply eqm64_mul64; [|apply eqm64_refl].
  apply eqm64_add64; [|exact A].
  apply rotl64_congr; [lia| |apply lxor_range; [assumption|apply mix_k2_range]].
  apply eqm64_lxor; [assumption|apply mix_k2_congr; assumption].
Qed.

(* ------------------------------------------------------------------ py_index / py_range facts *)
Lemma py_index_nth (l : list Z) (n : nat) v : nth_error l n = Some v -> py_index l (Z.of_nat n) = Ok v.
Proof.
  intros H. unfold py_index.
  assert (Hlt : (n < length l)%nat) by (apply nth_error_Some; congruence).
  destruct (Z.of_nat n <? 0) eqn:E1; [lia|].
  destruct ((Z.of_nat n <? 0) || (Z.of_nat (length l) <=? Z.of_nat n)) eqn:E2.
  { apply orb_prop in E2. destruct E2 as [E2|E2]; lia. }
  rewrite Nat2Z.id, H. reflexivity.
Qed.

Lemma py_range_up2 n : py_range 0 (Z.of_nat (2 * n)) 2 = map (fun k => Z.of_nat (2 * k)) (seq 0 n).
Proof.
  unfold py_range. cbn [Z.ltb Z.compare].
  replace (Z.to_nat ((Z.of_nat (2 * n) - 0 + 2 - 1) / 2)) with n.
  - apply map_ext. intros k. lia.
  - replace (Z.of_nat (2 * n) - 0 + 2 - 1) with (1 + Z.of_nat n * 2) by lia.
    rewrite Z.div_add by lia. cbn. lia.
Qed.

(* descending range a, a-1, ..., b+1  (step -1) *)
Lemma py_range_down (a b : Z) : b <= a ->
  py_range a b (-1) = map (fun k => a - Z.of_nat k) (seq 0 (Z.to_nat (a - b))).
Proof.
  intros H. unfold py_range. cbn [Z.ltb Z.compare].
  change (- -1) with 1. rewrite Z.div_1_r. replace (a - b - -1 - 1) with (a - b) by lia.
  apply map_ext. intros k. lia.
Qed.

(* ------------------------------------------------------------------ the block loop *)
Lemma loop1_spec : forall (ws : list Z) (pre : list Z) data c1 c2 body tail total_len h1 h2 s1 s2,
  c1 = -8663945395140668459 -> c2 = 5545529020109919103 ->
  (exists post, body = pre ++ map sext64 ws ++ post) -> Nat.even (length ws) = true ->
  (forall w, In w ws -> 0 <= w < W64) ->
  eqm64 h1 s1 -> eqm64 h2 s2 -> 0 <= s1 < W64 -> 0 <= s2 < W64 ->
  exists h1' h2',
    murmur3_py_loop1 (map (fun k => Z.of_nat (length pre + 2 * k)) (seq 0 (length ws / 2)))
                     data c1 c2 body tail total_len h1 h2 = Ok (h1', h2') /\
    eqm64 h1' (fst (rounds ws (s1, s2))) /\ eqm64 h2' (snd (rounds ws (s1, s2))) /\
    0 <= fst (rounds ws (s1, s2)) < W64 /\ 0 <= snd (rounds ws (s1, s2)) < W64.
Proof.
  intros ws. remember (length ws) as n eqn:Hn. revert ws Hn.
  induction n as [n IH] using (well_founded_induction lt_wf).
  intros ws Hn pre data c1 c2 body tail total_len h1 h2 s1 s2 Hc1 Hc2 [post Hb] Hev Hw E1 E2 R1 R2.
  destruct ws as [|w1 [|w2 ws']].
  - cbn [length] in Hn. subst n. cbn. exists h1, h2. repeat split; try assumption; try reflexivity; unfold W64 in *; lia.
  - cbn [length] in Hn. subst n. cbn in Hev. discriminate.
  - cbn [length] in Hn. subst n.
    replace (S (S (length ws')) / 2)%nat with (S (length ws' / 2)).
    2:{ change (S (S (length ws'))) with (2 + length ws')%nat.
        replace (2 + length ws')%nat with (1 * 2 + length ws')%nat by lia.
        rewrite Nat.div_add_l by lia. lia. }
    cbn [seq map murmur3_py_loop1].
    assert (Hi1 : nth_error body (length pre + 2 * 0) = Some (sext64 w1)).
    { rewrite Hb. rewrite nth_error_app2 by lia. replace (length pre + 2 * 0 - length pre)%nat with 0%nat by lia. reflexivity. }
    assert (Hi2 : nth_error body (length pre + 2 * 0 + 1) = Some (sext64 w2)).
    { rewrite Hb. rewrite nth_error_app2 by lia. replace (length pre + 2 * 0 + 1 - length pre)%nat with 1%nat by lia. reflexivity. }
    rewrite (py_index_nth _ _ _ Hi1). cbn [bind].
    replace (Z.of_nat (length pre + 2 * 0) + 1) with (Z.of_nat (length pre + 2 * 0 + 1)) by lia.
    rewrite (py_index_nth _ _ _ Hi2). cbn [bind]. cbv zeta.
    assert (K1 : eqm64 (sext64 w1) w1).
    { unfold sext64. destruct (w1 <? 2 ^ 63); [apply eqm64_refl|].
      unfold eqm64. replace (w1 - 2 ^ 64) with (w1 + (-1) * W64) by (unfold W64; ring).
      apply Z.mod_add. unfold W64; lia. }
    assert (K2 : eqm64 (sext64 w2) w2).
    { unfold sext64. destruct (w2 <? 2 ^ 63); [apply eqm64_refl|].
      unfold eqm64. replace (w2 - 2 ^ 64) with (w2 + (-1) * W64) by (unfold W64; ring).
      apply Z.mod_add. unfold W64; lia. }
    subst c1 c2.
    destruct (round_congr h1 h2 (sext64 w1) (sext64 w2) s1 s2 w1 w2 E1 E2 K1 K2 R1 R2) as (A1 & A2 & B1 & B2).
    cbv zeta in A1, A2, B1, B2.
    rewrite <- seq_shift, map_map.
    specialize (IH (length ws') ltac:(lia) ws' eq_refl (pre ++ [sext64 w1; sext64 w2]) data
                   (-8663945395140668459) 5545529020109919103 body tail total_len
                   (py_h1 h1 h2 (sext64 w1)) (py_h2 (py_h1 h1 h2 (sext64 w1)) h2 (sext64 w2))
                   (fst (round (s1, s2) w1 w2)) (snd (round (s1, s2) w1 w2)) eq_refl eq_refl).
    assert (Hex : exists post0, body = (pre ++ [sext64 w1; sext64 w2]) ++ map sext64 ws' ++ post0).
    { exists post. rewrite Hb. rewrite <- app_assoc. reflexivity. }
    assert (Hev' : Nat.even (length ws') = true) by (cbn in Hev; exact Hev).
    assert (Hw' : forall w, In w ws' -> 0 <= w < W64) by (intros w Hin; apply Hw; right; right; assumption).
    specialize (IH Hex Hev' Hw' A1 A2 B1 B2).
    destruct IH as (h1' & h2' & Hrun & F1 & F2 & G1 & G2).
    exists h1', h2'.
    replace (rounds (w1 :: w2 :: ws') (s1, s2)) with (rounds ws' (round (s1, s2) w1 w2)) by reflexivity.
    rewrite <- surjective_pairing in F1, F2, G1, G2.
    split; [|split; [exact F1|split; [exact F2|split; [exact G1|exact G2]]]].
    rewrite <- Hrun. unfold py_h1, py_h2. f_equal.
    apply map_ext. intros k. rewrite app_length. cbn [length]. lia.
Qed.

(* ------------------------------------------------------------------ tail loops *)
Lemma sext8_map_nth (T : list Z) n : (n < length T)%nat -> nth_error (map sext8 T) n = Some (sext8 (nth n T 0)).
Proof. intros H. rewrite nth_error_map. rewrite (nth_error_nth' T 0 H). reflexivity. Qed.

Lemma nth_skipn {A} (l : list A) k i d : nth i (skipn k l) d = nth (k + i) l d.
Proof. revert l. induction k as [|k IH]; intros l; [reflexivity|]. destruct l; [destruct i; reflexivity|]. cbn. apply IH. Qed.

Lemma eqm64_M64mod a : eqm64 a (a mod M64).
Proof. rewrite M64_W64. apply eqm64_sym, eqm64_mod. Qed.

Lemma tail_word_range : forall L bs s, 0 <= s < W64 -> 0 <= tail_word L bs s < W64.
Proof.
  induction L as [|i L IH]; intros bs s Hs; [exact Hs|]. cbn [tail_word]. apply IH.
  apply lxor_range; [assumption|]. rewrite M64_W64. apply mod64_range.
Qed.

Lemma loop2_spec : forall (L : list nat) (T : list Z) data h1 h2 c1 c2 body total_len k1 len_tail k2 s,
  (forall i, In i L -> (8 + i < length T)%nat) -> eqm64 k2 s ->
  exists k', murmur3_py_loop2 (map (fun i => Z.of_nat (8 + i)) L) data h1 h2 c1 c2 body (map sext8 T) total_len k1 len_tail k2 = Ok k' /\
             eqm64 k' (tail_word L (skipn 8 T) s).
Proof.
  induction L as [|i L IH]; intros T data h1 h2 c1 c2 body total_len k1 len_tail k2 s HL E.
  - exists k2. split; [reflexivity|exact E].
  - cbn [map murmur3_py_loop2 tail_word].
    rewrite (py_index_nth _ _ _ (sext8_map_nth T (8 + i) (HL i (or_introl eq_refl)))). cbn [bind]. cbv zeta.
    apply IH; [intros j Hj; apply HL; right; assumption|].
    apply eqm64_lxor; [assumption|].
    rewrite nth_skipn. replace ((Z.of_nat (8 + i) - 8) * 8) with (8 * Z.of_nat i) by lia. apply eqm64_M64mod.
Qed.

Lemma loop3_spec : forall (L : list nat) (T : list Z) data h1 h2 c1 c2 body total_len k2 len_tail k1 s,
  (forall i, In i L -> (i < length T)%nat) -> eqm64 k1 s ->
  exists k', murmur3_py_loop3 (map Z.of_nat L) data h1 h2 c1 c2 body (map sext8 T) total_len k2 len_tail k1 = Ok k' /\
             eqm64 k' (tail_word L T s).
Proof.
  induction L as [|i L IH]; intros T data h1 h2 c1 c2 body total_len k2 len_tail k1 s HL E.
  - exists k1. split; [reflexivity|exact E].
  - cbn [map murmur3_py_loop3 tail_word].
    rewrite (py_index_nth _ _ _ (sext8_map_nth T i (HL i (or_introl eq_refl)))). cbn [bind]. cbv zeta.
    apply IH; [intros j Hj; apply HL; right; assumption|].
    apply eqm64_lxor; [assumption|].
    replace (Z.of_nat i * 8) with (8 * Z.of_nat i) by lia. apply eqm64_M64mod.
Qed.

Lemma down_in n i : In i (down n) -> (i < n)%nat.
Proof. induction n as [|n IH]; cbn; [tauto|]. intros [<-|H]; [lia|]. specialize (IH H). lia. Qed.

(* a - 0, a - 1, ..., as a map over `down` *)
Lemma desc_as_down (n : nat) (off : Z) :
  map (fun k => (Z.of_nat n - 1 + off) - Z.of_nat k) (seq 0 n) = map (fun i => Z.of_nat i + off) (down n).
Proof.
  induction n as [|n IH]; [reflexivity|].
  cbn [seq down map]. f_equal; [lia|].
  rewrite <- seq_shift, map_map. rewrite <- IH. apply map_ext. intros k. lia.
Qed.

(* ------------------------------------------------------------------ finalisation *)
Lemma shiftr_range s k : 0 <= s < W64 -> 0 <= k -> 0 <= Z.shiftr s k < W64.
Proof.
  intros Hs Hk. rewrite Z.shiftr_div_pow2 by assumption. split; [apply Z.div_pos; lia|].
  apply Z.le_lt_trans with s; [|lia]. apply Z.div_le_upper_bound; [lia|].
  assert (1 <= 2 ^ k) by (apply Z.pow_le_mono_r with (b := 0) (c := k) (a := 2); lia). nia.
Qed.

Lemma fstep_congr k s : eqm64 k s -> 0 <= s < W64 ->
  eqm64 (Z.lxor k (Z.land (Z.shiftr k 33) 2147483647)) (Z.lxor s (Z.shiftr s 33)) /\
  0 <= Z.lxor s (Z.shiftr s 33) < W64.
Proof.
  intros E Hs. split; [|apply lxor_range; [assumption|apply shiftr_range; [assumption|lia]]].
  eapply eqm64_trans; [apply fmix_step_congr|].
  replace (k mod W64) with s; [apply eqm64_refl|]. unfold eqm64 in E. rewrite E. symmetry. apply Z.mod_small. assumption.
Qed.

Lemma fmix_congr k s : eqm64 k s -> 0 <= s < W64 -> eqm64 (fmix k) (fmix64 s) /\ 0 <= fmix64 s < W64.
Proof.
  intros E Hs. unfold fmix, fmix64. cbv zeta.
  destruct (fstep_congr k s E Hs) as [E1 R1].
  pose proof (eqm64_mul64 _ 18397679294719823053 _ 18397679294719823053 E1 (eqm64_refl _)) as E2.
  destruct (fstep_congr _ _ E2 (mul64_range _ _)) as [E3 R3].
  pose proof (eqm64_mul64 _ 14181476777654086739 _ 14181476777654086739 E3 (eqm64_refl _)) as E4.
  destruct (fstep_congr _ _ E4 (mul64_range _ _)) as [E5 R5].
  split; assumption.
Qed.

Lemma truncate_signed x : truncate_int64 x = signed64 x.
Proof.
  unfold truncate_int64, signed64, W64. cbv zeta.
  change (2 ^ 64) with 18446744073709551616. change (2 ^ 63) with 9223372036854775808.
  destruct ((-9223372036854775808 <=? x) && (x <=? 9223372036854775807)) eqn:E;
    destruct (x mod 18446744073709551616 <? 9223372036854775808) eqn:F;
    pose proof (Z.mod_pos_bound x 18446744073709551616 ltac:(lia));
    pose proof (Z.div_mod x 18446744073709551616 ltac:(lia));
    pose proof (Z.mod_pos_bound (x + 9223372036854775808) 18446744073709551616 ltac:(lia));
    pose proof (Z.div_mod (x + 9223372036854775808) 18446744073709551616 ltac:(lia));
    lia.
Qed.

Lemma signed64_sext s : 0 <= s < W64 -> signed64 s = sext64 s.
Proof. intros Hs. unfold signed64, sext64. rewrite Z.mod_small by assumption. reflexivity. Qed.

(* the part of the generated function after the tail words are known *)
Lemma final_congr h1 h2 a b tl :
  eqm64 h1 a -> eqm64 h2 b -> 0 <= a < W64 -> 0 <= b < W64 ->
  let h1x := Z.lxor h1 tl in let h2x := Z.lxor h2 tl in
  let a' := Z.lxor a (tl mod M64) in let b' := Z.lxor b (tl mod M64) in
  truncate_int64 (fmix (h1x + h2x) + fmix (h2x + (h1x + h2x))) =
  sext64 (add64 (fmix64 (add64 a' b')) (fmix64 (add64 b' (add64 a' b')))).
Proof.
  intros E1 E2 R1 R2. cbv zeta.
  assert (X1 : eqm64 (Z.lxor h1 tl) (Z.lxor a (tl mod M64))) by (apply eqm64_lxor; [assumption|apply eqm64_M64mod]).
  assert (X2 : eqm64 (Z.lxor h2 tl) (Z.lxor b (tl mod M64))) by (apply eqm64_lxor; [assumption|apply eqm64_M64mod]).
  pose proof (eqm64_add64 _ _ _ _ X1 X2) as S1.
  pose proof (eqm64_add64 _ _ _ _ X2 S1) as S2.
  destruct (fmix_congr _ _ S1 (add64_range _ _)) as [F1 _].
  destruct (fmix_congr _ _ S2 (add64_range _ _)) as [F2 _].
  pose proof (eqm64_add64 _ _ _ _ F1 F2) as S3.
  rewrite truncate_signed. rewrite (signed64_congr _ _ S3). apply signed64_sext. apply add64_range.
Qed.

(* ------------------------------------------------------------------ words are 64-bit *)
Lemma Forall_firstn' {A} (P : A -> Prop) n l : Forall P l -> Forall P (firstn n l).
Proof. revert l. induction n as [|n IH]; intros l H; [constructor|]. destruct l; [constructor|]. inversion H; subst. constructor; auto. Qed.
Lemma Forall_skipn' {A} (P : A -> Prop) n l : Forall P l -> Forall P (skipn n l).
Proof. revert l. induction n as [|n IH]; intros l H; [exact H|]. destruct l; [constructor|]. inversion H; subst. cbn. auto. Qed.

Lemma le_u_range bs : Forall is_byte bs -> 0 <= le_u bs < 256 ^ Z.of_nat (length bs).
Proof.
  induction bs as [|b r IH]; intros H; [cbn; lia|]. inversion H as [|? ? Hb Hr]; subst.
  specialize (IH Hr). cbn [le_u length]. rewrite Nat2Z.inj_succ, Z.pow_succ_r by lia. unfold is_byte in Hb. nia.
Qed.

Lemma words_range : forall n data w, Forall is_byte data -> In w (words n data) -> 0 <= w < W64.
Proof.
  induction n as [|n IH]; intros data w Hd Hin; [inversion Hin|].
  cbn [words] in Hin. destruct Hin as [<-|Hin]; [|apply (IH (skipn 8 data)); [apply Forall_skipn'; assumption|assumption]].
  pose proof (le_u_range (firstn 8 data) (Forall_firstn' _ _ _ Hd)) as H.
  assert (Hl : (length (firstn 8 data) <= 8)%nat) by apply firstn_le_length.
  assert (256 ^ Z.of_nat (length (firstn 8 data)) <= 256 ^ 8) by (apply Z.pow_le_mono_r; lia).
  unfold W64. change (2 ^ 64) with (256 ^ 8). lia.
Qed.

Lemma words_length n data : length (words n data) = n.
Proof. revert data. induction n as [|n IH]; intros; [reflexivity|]. cbn. rewrite IH. reflexivity. Qed.

(* ------------------------------------------------------------------ index lists of the tail loops *)
Lemma range_tail2 (tl : nat) : (8 < tl)%nat ->
  py_range (Z.of_nat tl - 1) 7 (-1) = map (fun i => Z.of_nat (8 + i)) (down (tl - 8)).
Proof.
  intros H. rewrite py_range_down by lia.
  replace (Z.to_nat (Z.of_nat tl - 1 - 7)) with (tl - 8)%nat by lia.
  replace (Z.of_nat tl - 1) with (Z.of_nat (tl - 8) - 1 + 8) by lia.
  rewrite desc_as_down. apply map_ext. intros i. lia.
Qed.

Lemma range_tail1 (tl : nat) : (0 < tl)%nat ->
  py_range (Z.min 7 (Z.of_nat tl - 1)) (-1) (-1) = map Z.of_nat (down (Nat.min 8 tl)).
Proof.
  intros H. rewrite py_range_down by lia.
  replace (Z.to_nat (Z.min 7 (Z.of_nat tl - 1) - -1)) with (Nat.min 8 tl) by lia.
  replace (Z.min 7 (Z.of_nat tl - 1)) with (Z.of_nat (Nat.min 8 tl) - 1 + 0) by lia.
  rewrite desc_as_down. apply map_ext. intros i. lia.
Qed.

(* ------------------------------------------------------------------ the whole function *)
Lemma murmur3_py_correct data : Forall is_byte data -> murmur3_py data = Ok (murmur3_long data).
Proof.
  intros Hd. unfold murmur3_py, murmur3_long, murmur3_h1, body_and_tail. cbv zeta.
  set (nb := (length data / 16)%nat).
  set (ws := words (2 * nb) data).
  set (T := skipn (16 * nb) data).
  rewrite map_length. unfold ws at 1. rewrite words_length. rewrite py_range_up2.
  assert (Hex : exists post, map sext64 ws = [] ++ map sext64 ws ++ post) by (exists []; rewrite app_nil_r; reflexivity).
  assert (Hev : Nat.even (length ws) = true).
  { unfold ws. rewrite words_length. rewrite Nat.even_mul. reflexivity. }
  assert (Hws : forall w, In w ws -> 0 <= w < W64) by (intros w Hin; apply (words_range (2 * nb) data); assumption).
  assert (R0 : 0 <= 0 < W64) by (unfold W64; lia).
  destruct (loop1_spec ws [] data (-8663945395140668459) 5545529020109919103 (map sext64 ws) (map sext8 T)
              (Z.of_nat (length data)) 0 0 0 0 eq_refl eq_refl Hex Hev Hws (eqm64_refl 0) (eqm64_refl 0) R0 R0)
    as (h1' & h2' & Hrun & E1 & E2 & G1 & G2).
  assert (Hidx : map (fun k : nat => Z.of_nat (2 * k)) (seq 0 nb) =
                 map (fun k : nat => Z.of_nat (length (@nil Z) + 2 * k)) (seq 0 (length ws / 2))).
  { unfold ws. rewrite words_length. replace (2 * nb / 2)%nat with nb by (rewrite Nat.mul_comm, Nat.div_mul; lia).
    apply map_ext. intros k. cbn [length]. lia. }
  rewrite Hidx, Hrun. cbn [bind].
  destruct (rounds ws (0, 0)) as [a b] eqn:Hr. cbn [fst snd] in E1, E2, G1, G2.
  rewrite map_length.
  assert (HT : (length T < 16)%nat).
  { unfold T. rewrite skipn_length. unfold nb. pose proof (Nat.div_mod (length data) 16 ltac:(lia)).
    pose proof (Nat.mod_upper_bound (length data) 16 ltac:(lia)). lia. }
  set (tl := length T) in *.
  destruct (Z.of_nat tl >? 8) eqn:C8.
  - (* more than 8 tail bytes *)
    assert (H8 : (8 < tl)%nat) by lia.
    replace (8 <? tl)%nat with true by (symmetry; apply Nat.ltb_lt; lia).
    replace (0 <? tl)%nat with true by (symmetry; apply Nat.ltb_lt; lia).
    rewrite range_tail2 by assumption.
    destruct (loop2_spec (down (tl - 8)) T data h1' h2' (-8663945395140668459) 5545529020109919103 (map sext64 ws)
                (Z.of_nat (length data)) 0 (Z.of_nat tl) 0 0) as (k2' & Hk2 & Ek2).
    { intros i Hi. apply down_in in Hi. fold tl. lia. }
    { apply eqm64_refl. }
    rewrite Hk2. cbn [bind].
    replace (negb (Z.of_nat tl =? 0)) with true by (symmetry; apply negb_true_iff; lia).
    rewrite range_tail1 by lia.
    match goal with |- context [murmur3_py_loop3 _ _ _ ?hh2 _ _ _ _ _ ?kk2 _ _] =>
      destruct (loop3_spec (down (Nat.min 8 tl)) T data h1' hh2 (-8663945395140668459) 5545529020109919103 (map sext64 ws)
                (Z.of_nat (length data)) kk2 (Z.of_nat tl) 0 0) as (k1' & Hk1 & Ek1)
    end.
    { intros i Hi. apply down_in in Hi. fold tl. lia. }
    { apply eqm64_refl. }
    rewrite Hk1. cbn [bind]. f_equal.
    apply final_congr.
    + apply eqm64_lxor; [assumption|apply mix_k1_congr; assumption].
    + apply eqm64_lxor; [assumption|apply mix_k2_congr; assumption].
    + apply lxor_range; [assumption|apply mix_k1_range].
    + apply lxor_range; [assumption|apply mix_k2_range].
  - destruct (Z.of_nat tl =? 0) eqn:C0; cbn [negb].
    + (* empty tail *)
      assert (tl = 0)%nat by lia.
      replace (8 <? tl)%nat with false by (symmetry; apply Nat.ltb_ge; lia).
      replace (0 <? tl)%nat with false by (symmetry; apply Nat.ltb_ge; lia).
      f_equal. apply final_congr; assumption.
    + (* 1..8 tail bytes *)
      replace (8 <? tl)%nat with false by (symmetry; apply Nat.ltb_ge; lia).
      replace (0 <? tl)%nat with true by (symmetry; apply Nat.ltb_lt; lia).
      rewrite range_tail1 by lia.
      destruct (loop3_spec (down (Nat.min 8 tl)) T data h1' h2' (-8663945395140668459) 5545529020109919103 (map sext64 ws)
                  (Z.of_nat (length data)) 0 (Z.of_nat tl) 0 0) as (k1' & Hk1 & Ek1).
      { intros i Hi. apply down_in in Hi. fold tl. lia. }
      { apply eqm64_refl. }
      rewrite Hk1. cbn [bind]. f_equal.
      apply final_congr; [|assumption| |assumption].
      * apply eqm64_lxor; [assumption|apply mix_k1_congr; assumption].
      * apply lxor_range; [assumption|apply mix_k1_range].
Qed.

(* ------------------------------------------------------------------ tokens *)
Lemma hash_fn_correct key : Forall is_byte key -> murmur3_hash_fn key = Ok (murmur3_token key).
Proof.
  intros H. unfold murmur3_hash_fn, murmur3_token. rewrite (murmur3_py_correct key H). cbn [bind]. cbv zeta.
  unfold MIN_LONG, MAX_LONG. change (- 2 ^ 63) with (-9223372036854775808). change (2 ^ 63 - 1) with 9223372036854775807.
  destruct (murmur3_long key =? -9223372036854775808); reflexivity.
Qed.

Lemma murmur3_long_range key : - 2 ^ 63 <= murmur3_long key < 2 ^ 63.
Proof.
  unfold murmur3_long, sext64. pose proof (add64_range (fmix64 0) 0) as _.
  assert (H : 0 <= murmur3_h1 key < W64).
  { unfold murmur3_h1. cbv zeta. destruct (rounds _ _). apply add64_range. }
  unfold W64 in H. destruct (murmur3_h1 key <? 2 ^ 63) eqn:E; lia.
Qed.

Lemma murmur3_token_range key : - 2 ^ 63 < murmur3_token key < 2 ^ 63.
Proof.
  unfold murmur3_token, MIN_LONG, MAX_LONG. pose proof (murmur3_long_range key).
  destruct (murmur3_long key =? - 2 ^ 63) eqn:E; lia.
Qed.

From Verif Require Import TokenModels.

Lemma fold_be_u bs acc : fold_left (fun a b => a * 256 + b) bs acc = be_u bs acc.
Proof. revert acc. induction bs as [|b r IH]; intros acc; [reflexivity|]. cbn. apply IH. Qed.

Lemma land128 b : 0 <= b < 256 -> (negb (Z.land b 128 =? 0)) = negb (b <? 128).
Proof.
  intros Hb.
  assert (H : forallb (fun n => Bool.eqb (negb (Z.land (Z.of_nat n) 128 =? 0)) (negb (Z.of_nat n <? 128))) (seq 0 256) = true)
    by (vm_compute; reflexivity).
  rewrite forallb_forall in H. specialize (H (Z.to_nat b)). rewrite Z2Nat.id in H by lia.
  apply eqb_prop. apply H. apply in_seq. lia.
Qed.

Lemma varint_unpack_be_signed bs : Forall is_byte bs -> varint_unpack_model bs = be_signed bs.
Proof.
  intros H. unfold varint_unpack_model, be_signed. cbv zeta. rewrite fold_be_u.
  destruct bs as [|b r]; [reflexivity|]. inversion H as [|? ? Hb _]; subst.
  rewrite (land128 b Hb). rewrite Z.shiftl_1_l. replace (Z.of_nat (length (b :: r)) * 8) with (8 * Z.of_nat (length (b :: r))) by lia.
  destruct (b <? 128); reflexivity.
Qed.
