(* C26: Cassandra's single pass over the ring (PlacementSpec.nts_visit) decomposes into independent per-datacenter
   passes (C26_sim.dc_visit) over the datacenter's endpoints in ring order. *)
From Coq Require Import ZArith List Bool Lia.
From Verif Require Import RingBase PlacementSpec C26_lists C26_sim.
Import ListNotations.
Local Open Scope Z_scope.

Lemma dc_state_eq : forall a b : dc_state,
  dc_replicas a = dc_replicas b -> seen_racks a = seen_racks b -> skipped_eps a = skipped_eps b -> a = b.
Proof. intros [a1 a2 a3] [b1 b2 b3]; cbn; intros; subst; reflexivity. Qed.

Section Spec.
  Variable loc : topo_t.
  Variable dcs : list (Z * Z).
  Variable ring : ring_t.

  Definition Nd (d : Z) : Z := lenZ (dc_endpoints loc ring d).
  Definition Kd (d : Z) : Z := lenZ (dc_rack_names loc ring d).
  Definition visit_d (d rf : Z) := dc_visit loc rf (Nd d) (Kd d).

  Record Inv (st : nts_state) : Prop := {
    i_reps : forall h, In h (replicas st) <-> In h (dc_replicas (per_dc st (dc_of loc h)));
    i_dc : forall d h, In h (dc_replicas (per_dc st d)) -> dc_of loc h = d;
    i_sk : forall d h, In h (skipped_eps (per_dc st d)) -> dc_of loc h = d
  }.

  Lemma upd_same : forall {V} (f : Z -> V) k v, upd f k v k = v.
  Proof. intros. unfold upd. rewrite Z.eqb_refl. reflexivity. Qed.
  Lemma upd_other : forall {V} (f : Z -> V) k v x, x <> k -> upd f k v x = f x.
  Proof. intros. unfold upd. replace (x =? k) with false; [reflexivity|]. symmetry. apply Z.eqb_neq. assumption. Qed.

  Lemma sufficient_dc_suff : forall rf d st, sufficient_dc loc ring rf d st = suff rf (Nd d) (dc_replicas (per_dc st d)).
  Proof. reflexivity. Qed.

  Lemma add_replica_inv : forall st d ep, Inv st -> dc_of loc ep = d -> Inv (add_replica st d ep).
  Proof.
    intros st d ep [I1 I2 I3] Hd. constructor; unfold add_replica; cbn [replicas per_dc].
    - intros h. rewrite set_add_In. destruct (Z.eq_dec (dc_of loc h) d) as [E|E].
      + rewrite E, upd_same. cbn [dc_replicas]. rewrite set_add_In, I1, E. reflexivity.
      + rewrite upd_other by assumption. rewrite I1. split; [|tauto]. intros [H|H]; [subst; contradiction | assumption].
    - intros d' h. destruct (Z.eq_dec d' d) as [E|E].
      + subst d'. rewrite upd_same. cbn [dc_replicas]. rewrite set_add_In. intros [H|H]; [subst; congruence | apply I2; assumption].
      + rewrite upd_other by assumption. apply I2.
    - intros d' h. destruct (Z.eq_dec d' d) as [E|E].
      + subst d'. rewrite upd_same. cbn [skipped_eps]. apply I3.
      + rewrite upd_other by assumption. apply I3.
  Qed.

  Lemma add_replica_at : forall st d ep,
    dc_replicas (per_dc (add_replica st d ep) d) = set_add ep (dc_replicas (per_dc st d)) /\
    seen_racks (per_dc (add_replica st d ep) d) = seen_racks (per_dc st d) /\
    skipped_eps (per_dc (add_replica st d ep) d) = skipped_eps (per_dc st d).
  Proof. intros. unfold add_replica. cbn [per_dc]. rewrite upd_same. cbn. repeat split; reflexivity. Qed.

  Lemma add_replica_other : forall st d ep d', d' <> d -> per_dc (add_replica st d ep) d' = per_dc st d'.
  Proof. intros. unfold add_replica. cbn [per_dc]. apply upd_other. assumption. Qed.

  Lemma readd_props : forall rf d sk st, Inv st -> (forall x, In x sk -> dc_of loc x = d) ->
    Inv (readd_skipped loc ring rf d sk st) /\
    dc_replicas (per_dc (readd_skipped loc ring rf d sk st) d) = dc_readd rf (Nd d) sk (dc_replicas (per_dc st d)) /\
    seen_racks (per_dc (readd_skipped loc ring rf d sk st) d) = seen_racks (per_dc st d) /\
    skipped_eps (per_dc (readd_skipped loc ring rf d sk st) d) = skipped_eps (per_dc st d) /\
    (forall d', d' <> d -> per_dc (readd_skipped loc ring rf d sk st) d' = per_dc st d').
  Proof.
    induction sk as [|s sk IH]; intros st HI Hsk; cbn [readd_skipped dc_readd].
    - (split; [assumption | repeat split; reflexivity]).
    - rewrite sufficient_dc_suff. destruct (suff rf (Nd d) (dc_replicas (per_dc st d))).
      + (split; [assumption | repeat split; reflexivity]).
      + destruct (IH (add_replica st d s)) as [I [E1 [E2 [E3 E4]]]].
        * apply add_replica_inv; [assumption | apply Hsk; left; reflexivity].
        * intros x Hx. apply Hsk. right. assumption.
        * destruct (add_replica_at st d s) as [A1 [A2 A3]].
          split; [assumption|]. rewrite E1, E2, E3, A1, A2, A3. repeat split; try reflexivity.
          intros d' Hd'. rewrite E4 by assumption. apply add_replica_other. assumption.
  Qed.

  Lemma sufficient_all_dc : forall st d rf, sufficient_all loc dcs ring st = true -> assoc d dcs = Some rf ->
    suff rf (Nd d) (dc_replicas (per_dc st d)) = true.
  Proof.
    intros st d rf Hall Ha. unfold sufficient_all in Hall. rewrite forallb_forall in Hall.
    specialize (Hall (d, rf) (assoc_In _ _ _ Ha)). cbn [fst] in Hall. rewrite Ha in Hall. exact Hall.
  Qed.

  (* one step of Cassandra's loop: only the endpoint's datacenter moves, and it moves by dc_visit *)
  Lemma visit_step : forall st ep, Inv st ->
    Inv (nts_visit loc dcs ring st ep) /\
    (forall d', d' <> dc_of loc ep -> per_dc (nts_visit loc dcs ring st ep) d' = per_dc st d') /\
    per_dc (nts_visit loc dcs ring st ep) (dc_of loc ep) =
      match assoc (dc_of loc ep) dcs with
      | Some rf => visit_d (dc_of loc ep) rf (per_dc st (dc_of loc ep)) ep
      | None => per_dc st (dc_of loc ep)
      end.
  Proof.
    intros st ep HI. unfold nts_visit. set (d := dc_of loc ep).
    destruct (sufficient_all loc dcs ring st) eqn:Eall.
    { split; [assumption|]. split; [reflexivity|]. destruct (assoc d dcs) as [rf|] eqn:Ea; [|reflexivity].
      unfold visit_d, dc_visit. rewrite (sufficient_all_dc st d rf Eall Ea). reflexivity. }
    destruct (assoc d dcs) as [rf|] eqn:Ea; [|(split; [assumption | repeat split; reflexivity])].
    unfold visit_d, dc_visit. rewrite sufficient_dc_suff. fold (Kd d).
    destruct (suff rf (Nd d) (dc_replicas (per_dc st d))); [(split; [assumption | repeat split; reflexivity])|].
    destruct (lenZ (seen_racks (per_dc st d)) =? Kd d) eqn:EK.
    { destruct (add_replica_at st d ep) as [A1 [A2 A3]].
      split; [apply add_replica_inv; [assumption | reflexivity]|].
      split; [intros d' Hd'; apply add_replica_other; assumption|].
      apply dc_state_eq; cbn [dc_replicas seen_racks skipped_eps]; assumption. }
    destruct (memZ (rack_of loc ep) (seen_racks (per_dc st d))) eqn:Erk.
    { unfold add_skipped. cbn [per_dc replicas]. destruct HI as [I1 I2 I3].
      split; [constructor; cbn [replicas per_dc]|split].
      - intros h. destruct (Z.eq_dec (dc_of loc h) d) as [E|E].
        + rewrite E, upd_same. cbn [dc_replicas]. rewrite I1, E. reflexivity.
        + rewrite upd_other by assumption. apply I1.
      - intros d' h. destruct (Z.eq_dec d' d) as [E|E].
        + subst d'. rewrite upd_same. cbn [dc_replicas]. apply I2.
        + rewrite upd_other by assumption. apply I2.
      - intros d' h. destruct (Z.eq_dec d' d) as [E|E].
        + subst d'. rewrite upd_same. cbn [skipped_eps]. rewrite set_add_In. intros [H|H]; [subst; reflexivity | apply I3; assumption].
        + rewrite upd_other by assumption. apply I3.
      - intros d' Hd'. apply upd_other. assumption.
      - rewrite upd_same. reflexivity. }
    (* a new rack *)
    set (st1 := add_seen_rack (add_replica st d ep) d (rack_of loc ep)).
    destruct (add_replica_at st d ep) as [A1 [A2 A3]].
    assert (HI0 : Inv (add_replica st d ep)) by (apply add_replica_inv; [assumption | reflexivity]).
    assert (S1 : dc_replicas (per_dc st1 d) = set_add ep (dc_replicas (per_dc st d))).
    { unfold st1, add_seen_rack. cbn [per_dc]. rewrite upd_same. cbn [dc_replicas]. assumption. }
    assert (S2 : seen_racks (per_dc st1 d) = set_add (rack_of loc ep) (seen_racks (per_dc st d))).
    { unfold st1, add_seen_rack. cbn [per_dc]. rewrite upd_same. cbn [seen_racks]. rewrite A2. reflexivity. }
    assert (S3 : skipped_eps (per_dc st1 d) = skipped_eps (per_dc st d)).
    { unfold st1, add_seen_rack. cbn [per_dc]. rewrite upd_same. cbn [skipped_eps]. assumption. }
    assert (S4 : forall d', d' <> d -> per_dc st1 d' = per_dc st d').
    { intros d' Hd'. unfold st1, add_seen_rack. cbn [per_dc]. rewrite upd_other by assumption. apply add_replica_other. assumption. }
    assert (HI1 : Inv st1).
    { destruct HI0 as [I1 I2 I3]. unfold st1, add_seen_rack. constructor; cbn [replicas per_dc].
      - intros h. destruct (Z.eq_dec (dc_of loc h) d) as [E|E].
        + rewrite E, upd_same. cbn [dc_replicas]. rewrite I1, E. reflexivity.
        + rewrite upd_other by assumption. apply I1.
      - intros d' h. destruct (Z.eq_dec d' d) as [E|E].
        + subst d'. rewrite upd_same. cbn [dc_replicas]. apply I2.
        + rewrite upd_other by assumption. apply I2.
      - intros d' h. destruct (Z.eq_dec d' d) as [E|E].
        + subst d'. rewrite upd_same. cbn [skipped_eps]. apply I3.
        + rewrite upd_other by assumption. apply I3. }
    cbv zeta. rewrite S2.
    destruct (lenZ (set_add (rack_of loc ep) (seen_racks (per_dc st d))) =? Kd d).
    - destruct (readd_props rf d (skipped_eps (per_dc st1 d)) st1 HI1) as [I [E1 [E2 [E3 E4]]]].
      { intros x Hx. destruct HI1 as [_ _ I3]. apply (I3 d). assumption. }
      split; [assumption|]. split.
      + intros d' Hd'. rewrite E4 by assumption. apply S4. assumption.
      + apply dc_state_eq; cbn [dc_replicas seen_racks skipped_eps].
        * rewrite E1, S1, S3. reflexivity.
        * rewrite E2, S2. reflexivity.
        * rewrite E3, S3. reflexivity.
    - split; [assumption|]. split; [assumption|].
      apply dc_state_eq; cbn [dc_replicas seen_racks skipped_eps]; assumption.
  Qed.

  Lemma visit_fold : forall l st, Inv st ->
    Inv (fold_left (nts_visit loc dcs ring) l st) /\
    forall d, per_dc (fold_left (nts_visit loc dcs ring) l st) d =
      match assoc d dcs with
      | Some rf => fold_left (visit_d d rf) (filter (fun h => dc_of loc h =? d) l) (per_dc st d)
      | None => per_dc st d
      end.
  Proof.
    induction l as [|ep l IH]; intros st HI; cbn [fold_left filter].
    - split; [assumption|]. intros d. destruct (assoc d dcs); reflexivity.
    - destruct (visit_step st ep HI) as [HI' [Hother Hsame]].
      destruct (IH _ HI') as [HI'' Hd]. split; [assumption|].
      intros d. rewrite Hd. destruct (dc_of loc ep =? d) eqn:E.
      + apply Z.eqb_eq in E. subst d. rewrite Hsame. destruct (assoc (dc_of loc ep) dcs); reflexivity.
      + apply Z.eqb_neq in E. rewrite Hother by congruence. reflexivity.
  Qed.

  Lemma inv_init : Inv nts_init.
  Proof. constructor; cbn; tauto. Qed.

  (* membership in Cassandra's result, datacenter by datacenter *)
  Lemma nts_spec_In : forall t h,
    In h (nts_spec loc dcs ring t) <->
    match assoc (dc_of loc h) dcs with
    | Some rf => In h (dc_replicas (fold_left (visit_d (dc_of loc h) rf)
                         (filter (fun x => dc_of loc x =? dc_of loc h) (map snd (ring_iterator ring t))) ds0))
    | None => False
    end.
  Proof.
    intros t h. unfold nts_spec.
    destruct (visit_fold (map snd (ring_iterator ring t)) nts_init inv_init) as [[I1 _ _] Hd].
    rewrite I1, Hd. destruct (assoc (dc_of loc h) dcs); [reflexivity|]. cbn. tauto.
  Qed.
End Spec.
