From Coq Require Import ZArith List Bool Lia.
From Verif Require Import Paging.
Import ListNotations.
Local Open Scope Z_scope.

(* the requests (with the paging state each must carry) still to be sent, given that failed requests are repeated *)
Definition pstates (s : rset) : list (option Z) :=
  match more s with Some (st, srv) => expected_reqs (Some st) srv | None => [] end.

Definition more_size (s : rset) : nat := match more s with Some (_, srv) => (npages srv + nfails srv)%nat | None => O end.
Definition size (srv : server) : nat := (npages srv + nfails srv + nspecs srv)%nat.

Lemma reqs_app a b : reqs (a ++ b) = reqs a ++ reqs b.
Proof. induction a as [|[st|v] a IH]; cbn; [reflexivity| rewrite IH; reflexivity | exact IH]. Qed.

Lemma reqs_ret o v : reqs (o ++ [Ret v]) = reqs o.
Proof. rewrite reqs_app. cbn. apply app_nil_r. Qed.

Lemma expected_nofail : forall srv cur, nfails srv = O -> nspecs srv = O -> expected_reqs cur srv = cur :: map Some (states srv).
Proof.
  induction srv as [rs|rs st rest IH|rest IH|rest IH]; intros cur H H'; cbn in *; try discriminate; [reflexivity|].
  rewrite IH by assumption. reflexivity.
Qed.

Lemma expected_length : forall srv cur, length (expected_reqs cur srv) = size srv.
Proof. unfold size. induction srv; intros c; cbn; rewrite ?IHsrv; lia. Qed.

Lemma all_rows_concat srv : all_rows srv = concat (pages srv).
Proof. induction srv as [rs|rs st rest IH|rest IH|rest IH]; cbn; [symmetry; apply app_nil_r | rewrite IH; reflexivity | exact IH | exact IH]. Qed.

Lemma npages_pos srv : (1 <= npages srv)%nat.
Proof. induction srv; cbn; lia. Qed.

Lemma states_length srv : S (length (states srv)) = npages srv.
Proof. induction srv; cbn; congruence. Qed.

(* ---------- pull / next ---------- *)
Lemma pull_spec : forall srv lm c st,
  let '(s', o, v) := pull lm c st srv in
  reqs o ++ pstates s' = expected_reqs (Some st) srv
  /\ lmode s' = lm /\ (exists l, it s' = Some l)
  /\ match v with
     | VStop => all_rows srv = [] /\ pending_rows s' = [] /\ more s' = None /\ nfails srv = O
     | VRow r => all_rows srv = r :: pending_rows s' /\ pending_fails s' = nfails srv
     | VError => pending_rows s' = all_rows srv /\ S (pending_fails s') = nfails srv
     | _ => False
     end.
Proof.
  induction srv as [rs|rs st' rest IH|rest IH|rest IH]; intros lm c st.
  - destruct rs as [|r rs]; cbn; repeat split; eauto. unfold pending_rows; cbn. rewrite app_nil_r. reflexivity.
  - destruct rs as [|r rs].
    + cbn [pull]. specialize (IH lm [] st'). destruct (pull lm [] st' rest) as [[s' o] v].
      destruct IH as (H1 & H2 & H3 & H4). cbn [all_rows app states map reqs expected_reqs nfails].
      repeat split; try assumption. cbn. rewrite H1. reflexivity.
    + cbn. repeat split; eauto.
  - cbn. repeat split; eauto.
  - cbn [pull]. specialize (IH lm c st). destruct (pull lm c st rest) as [[s' o] v].
    destruct IH as (H1 & H2 & H3 & H4). cbn [all_rows expected_reqs nfails reqs].
    repeat split; try assumption. cbn. rewrite H1. reflexivity.
Qed.

Lemma next_reqs s :
  let '(s', o, v) := next s in reqs o ++ pstates s' = pstates s /\ lmode s' = lmode s.
Proof.
  unfold next. destruct (it s) as [[|r l]|] eqn:Hit.
  - destruct (more s) as [[st srv]|] eqn:Hm.
    + pose proof (pull_spec srv (lmode s) (cur s) st) as P. destruct (pull (lmode s) (cur s) st srv) as [[s' o] v].
      destruct P as (H1 & H2 & _). split; [|assumption]. rewrite H1. unfold pstates. rewrite Hm. reflexivity.
    + cbn. unfold pstates. rewrite Hm. cbn. auto.
  - cbn. unfold pstates. cbn. auto.
  - cbn. auto.
Qed.

(* next() on an active iterator *)
Lemma next_rows s l : it s = Some l ->
  let '(s', o, v) := next s in
  (exists l', it s' = Some l')
  /\ match v with
     | VStop => pending_rows s = [] /\ pending_rows s' = [] /\ more s' = None /\ pending_fails s = O
     | VRow r => pending_rows s = r :: pending_rows s' /\ pending_fails s' = pending_fails s
     | VError => pending_rows s' = pending_rows s /\ S (pending_fails s') = pending_fails s
     | _ => False
     end.
Proof.
  intros Hit. unfold next. rewrite Hit. destruct l as [|r l].
  - destruct (more s) as [[st srv]|] eqn:Hm.
    + pose proof (pull_spec srv (lmode s) (cur s) st) as P. destruct (pull (lmode s) (cur s) st srv) as [[s' o] v].
      destruct P as (_ & _ & H3 & H4). split; [assumption|].
      assert (PR : pending_rows s = all_rows srv) by (unfold pending_rows; rewrite Hit, Hm; reflexivity).
      assert (PF : pending_fails s = nfails srv) by (unfold pending_fails; rewrite Hm; reflexivity).
      rewrite PR, PF. exact H4.
    + cbn. split; [eauto|]. unfold pending_rows, pending_fails. rewrite Hit, Hm. cbn. repeat split.
  - cbn. split; [eauto|]. unfold pending_rows, pending_fails. rewrite Hit. cbn. split; reflexivity.
Qed.

(* ---------- list()/for (stops at an exception) and continued iteration (goes on after it) ---------- *)
Lemma drain_reqs : forall fuel s acc o,
  let '(s', o', r) := drain fuel s acc o in reqs o' ++ pstates s' = reqs o ++ pstates s /\ lmode s' = lmode s.
Proof.
  induction fuel as [|f IH]; intros s acc o; cbn [drain]; [auto|].
  pose proof (next_reqs s) as N. destruct (next s) as [[s1 o1] v]. destruct N as [N1 N2].
  assert (E : reqs (o ++ o1) ++ pstates s1 = reqs o ++ pstates s) by (rewrite reqs_app, <- app_assoc, N1; reflexivity).
  destruct v; try (split; assumption).
  specialize (IH s1 (acc ++ [z]) (o ++ o1)). destruct (drain f s1 (acc ++ [z]) (o ++ o1)) as [[s2 o2] r].
  destruct IH as [I1 I2]. split; congruence.
Qed.

Lemma drain_retry_reqs : forall fuel s acc o,
  let '(s', o', r) := drain_retry fuel s acc o in reqs o' ++ pstates s' = reqs o ++ pstates s /\ lmode s' = lmode s.
Proof.
  induction fuel as [|f IH]; intros s acc o; cbn [drain_retry]; [auto|].
  pose proof (next_reqs s) as N. destruct (next s) as [[s1 o1] v]. destruct N as [N1 N2].
  assert (E : reqs (o ++ o1) ++ pstates s1 = reqs o ++ pstates s) by (rewrite reqs_app, <- app_assoc, N1; reflexivity).
  destruct v; try (split; assumption).
  - specialize (IH s1 (acc ++ [z]) (o ++ o1)). destruct (drain_retry f s1 (acc ++ [z]) (o ++ o1)) as [[s2 o2] r].
    destruct IH as [I1 I2]. split; congruence.
  - specialize (IH s1 acc (o ++ o1)). destruct (drain_retry f s1 acc (o ++ o1)) as [[s2 o2] r].
    destruct IH as [I1 I2]. split; congruence.
Qed.

Lemma drain_rows : forall fuel s acc o l, it s = Some l -> pending_fails s = O -> (length (pending_rows s) < fuel)%nat ->
  let '(s', o', r) := drain fuel s acc o in
  r = VRows (acc ++ pending_rows s) /\ more s' = None /\ it s' = Some [].
Proof.
  induction fuel as [|f IH]; intros s acc o l Hit Hnf Hf; [lia|]. cbn [drain].
  pose proof (next_rows s l Hit) as N. destruct (next s) as [[s1 o1] v]. destruct N as [[l' Hl'] N].
  destruct v; try contradiction.
  - destruct N as (Hp & Hpf). rewrite Hp in *. cbn [length] in Hf.
    specialize (IH s1 (acc ++ [z]) (o ++ o1) l' Hl' ltac:(congruence) ltac:(lia)).
    destruct (drain f s1 (acc ++ [z]) (o ++ o1)) as [[s2 o2] r2].
    destruct IH as (I1 & I2 & I3). rewrite <- app_assoc in I1. auto.
  - destruct N as (Hp & Hp1 & Hm1 & _). rewrite Hp, app_nil_r. repeat split; try assumption.
    unfold pending_rows in Hp1. rewrite Hl', Hm1, app_nil_r in Hp1. congruence.
  - destruct N as (_ & N). lia.
Qed.

Lemma drain_retry_rows : forall fuel s acc o l, it s = Some l -> (length (pending_rows s) + pending_fails s < fuel)%nat ->
  let '(s', o', r) := drain_retry fuel s acc o in
  r = VRows (acc ++ pending_rows s) /\ more s' = None /\ it s' = Some [].
Proof.
  induction fuel as [|f IH]; intros s acc o l Hit Hf; [lia|]. cbn [drain_retry].
  pose proof (next_rows s l Hit) as N. destruct (next s) as [[s1 o1] v]. destruct N as [[l' Hl'] N].
  destruct v; try contradiction.
  - destruct N as (Hp & Hpf). rewrite Hp in *. cbn [length] in Hf.
    specialize (IH s1 (acc ++ [z]) (o ++ o1) l' Hl' ltac:(lia)).
    destruct (drain_retry f s1 (acc ++ [z]) (o ++ o1)) as [[s2 o2] r2].
    destruct IH as (I1 & I2 & I3). rewrite <- app_assoc in I1. auto.
  - destruct N as (Hp & Hp1 & Hm1 & _). rewrite Hp, app_nil_r. repeat split; try assumption.
    unfold pending_rows in Hp1. rewrite Hl', Hm1, app_nil_r in Hp1. congruence.
  - destruct N as (Hp & Hpf).
    specialize (IH s1 acc (o ++ o1) l' Hl' ltac:(rewrite Hp; lia)).
    destruct (drain_retry f s1 acc (o ++ o1)) as [[s2 o2] r2]. rewrite Hp in IH. exact IH.
Qed.

Definition rest_rows (s : rset) : list Z := match more s with Some (_, srv) => all_rows srv | None => [] end.

Lemma list_self_spec s : lmode s = false -> pending_fails s = O ->
  let '(s', o, r) := list_self s in
  r = VRows (cur s ++ rest_rows s) /\ reqs o = pstates s /\ more s' = None /\ lmode s' = false.
Proof.
  intros Hl Hnf. unfold list_self, iter_. rewrite Hl.
  set (s1 := mkRS (cur s) (Some (cur s)) false (more s)).
  pose proof (drain_rows (S (length (pending_rows s1))) s1 [] [] (cur s) eq_refl Hnf ltac:(lia)) as D.
  pose proof (drain_reqs (S (length (pending_rows s1))) s1 [] []) as R.
  destruct (drain (S (length (pending_rows s1))) s1 [] []) as [[s' o] r].
  destruct D as (D1 & D2 & D3). destruct R as [R1 R2].
  split; [rewrite D1; reflexivity|]. split; [|split; [assumption|]].
  - unfold pstates in R1 at 1. rewrite D2 in R1. cbn in R1. rewrite app_nil_r in R1. exact R1.
  - rewrite R2. reflexivity.
Qed.

Lemma init_spec : forall srv, let '(s0, o0) := init srv in
  lmode s0 = false /\ it s0 = None /\ reqs o0 ++ pstates s0 = expected_reqs None srv
  /\ cur s0 ++ rest_rows s0 = all_rows srv /\ True
  /\ (pending_fails s0 <= nfails srv)%nat /\ (more_size s0 < npages srv + nfails srv)%nat
  /\ (nfails srv = O -> nspecs srv = O -> o0 = [Req None]).
Proof.
  induction srv as [rs|rs st rest IH|rest IH|rest IH]; cbn.
  - unfold more_size, rest_rows, pstates, pending_fails; cbn. repeat split; auto using app_nil_r; lia.
  - unfold more_size, rest_rows, pstates, pending_fails; cbn. repeat split; auto; lia.
  - destruct (init rest) as [s o]. destruct IH as (A & B & C & D & E & F & G & H). cbn.
    repeat split; try assumption; try lia; try discriminate. rewrite C. reflexivity.
  - destruct (init rest) as [s o]. destruct IH as (A & B & C & D & E & F & G & H). cbn.
    repeat split; try assumption; try lia; try discriminate. rewrite C. reflexivity.
Qed.

(* ---------- the readings ---------- *)
Lemma iterate_spec srv : nfails srv = O ->
  snd (iterate srv) = VRows (all_rows srv) /\ (nspecs srv = O -> reqs (fst (iterate srv)) = None :: map Some (states srv)).
Proof.
  intros Hnf. unfold iterate. pose proof (init_spec srv) as I. destruct (init srv) as [s0 o0].
  destruct I as (I1 & I2 & I3 & I4 & _ & I6 & _ & I8).
  pose proof (list_self_spec s0 I1 ltac:(lia)) as L. destruct (list_self s0) as [[s' o] r].
  destruct L as (-> & L2 & _). cbn [fst snd]. rewrite I4. split; [reflexivity|]. intros Hns.
  rewrite reqs_app, L2, I3. apply expected_nofail; assumption.
Qed.

Lemma iterate_retry_spec srv :
  snd (iterate_retry srv) = VRows (all_rows srv) /\ reqs (fst (iterate_retry srv)) = expected_reqs None srv.
Proof.
  unfold iterate_retry. pose proof (init_spec srv) as I. destruct (init srv) as [s0 o0].
  destruct I as (I1 & I2 & I3 & I4 & _). unfold iter_. rewrite I1.
  set (s1 := mkRS (cur s0) (Some (cur s0)) false (more s0)).
  pose proof (drain_retry_rows (S (length (pending_rows s1) + pending_fails s1)) s1 [] [] (cur s0) eq_refl ltac:(lia)) as D.
  pose proof (drain_retry_reqs (S (length (pending_rows s1) + pending_fails s1)) s1 [] []) as R.
  destruct (drain_retry (S (length (pending_rows s1) + pending_fails s1)) s1 [] []) as [[s' o] r].
  destruct D as (D1 & D2 & D3). destruct R as [R1 _]. cbn [fst snd]. split.
  - rewrite D1. cbn [app]. unfold pending_rows, s1. cbn. fold (rest_rows s0). rewrite I4. reflexivity.
  - rewrite reqs_app. unfold pstates in R1 at 1. rewrite D2 in R1. cbn in R1. rewrite app_nil_r in R1. rewrite R1. exact I3.
Qed.

Lemma materialise_spec srv : materialise srv = iterate srv.
Proof.
  unfold materialise, iterate. pose proof (init_spec srv) as I. destruct (init srv) as [s0 o0].
  destruct I as (I1 & I2 & _). unfold enter_list_mode. rewrite I1, I2.
  destruct (list_self s0) as [[s' o] r]. destruct r; reflexivity.
Qed.

Lemma fetch_srv_reqs : forall srv c i lm st, let '(s', o, v) := fetch_srv c i lm st srv in
  reqs o ++ pstates s' = expected_reqs (Some st) srv /\ lmode s' = lm /\ it s' = i.
Proof.
  induction srv as [rs|rs st' rest IH|rest IH|rest IH]; intros c i lm st; cbn; auto.
  specialize (IH c i lm st). destruct (fetch_srv c i lm st rest) as [[s' o] v]. destruct IH as (A & B & C).
  cbn. rewrite A. auto.
Qed.

Lemma fetch_reqs s : let '(s', o, v) := fetch s in reqs o ++ pstates s' = pstates s /\ lmode s' = lmode s.
Proof.
  unfold fetch. destruct (more s) as [[st srv]|] eqn:Hm.
  - pose proof (fetch_srv_reqs srv (cur s) (it s) (lmode s) st) as F.
    destruct (fetch_srv (cur s) (it s) (lmode s) st srv) as [[s' o] v]. destruct F as (A & B & _).
    unfold pstates at 2. rewrite Hm. auto.
  - cbn. unfold pstates. rewrite Hm. auto.
Qed.

Lemma manual_loop_spec : forall srv fuel s o st, more s = Some (st, srv) -> (npages srv + nfails srv <= fuel)%nat ->
  exists o', manual_loop fuel s o = (o ++ o', Some (cur s ++ all_rows srv)) /\ reqs o' = expected_reqs (Some st) srv.
Proof.
  induction srv as [rs|rs st' rest IH|rest IH|rest IH]; intros fuel s o st Hm Hf;
    (match goal with H : (npages ?x + _ <= _)%nat |- _ => pose proof (npages_pos x) as Hpos end);
    (destruct fuel as [|f]; [lia|]); clear Hpos;
    cbn [manual_loop]; unfold has_more, fetch; rewrite Hm; cbn [fetch_srv].
  - exists [Req (Some st)]. destruct f; cbn; split; reflexivity.
  - destruct (IH f (mkRS rs (it s) (lmode s) (Some (st', rest))) (o ++ [Req (Some st)]) st' eq_refl ltac:(cbn in Hf; lia)) as (o' & E & R).
    rewrite E. exists (Req (Some st) :: o'). rewrite <- app_assoc. cbn. rewrite R. split; reflexivity.
  - destruct (IH f (mkRS (cur s) (it s) (lmode s) (Some (st, rest))) (o ++ [Req (Some st)]) st eq_refl ltac:(cbn in Hf; lia)) as (o' & E & R).
    rewrite E. exists (Req (Some st) :: o'). rewrite <- app_assoc. cbn. rewrite R. split; reflexivity.
  - (* a speculative execution fired: one more request, then exactly what `rest` does *)
    set (s' := mkRS (cur s) (it s) (lmode s) (Some (st, rest))).
    destruct (IH (S f) s' (o ++ [Req (Some st)]) st eq_refl ltac:(cbn in Hf; lia)) as (o' & E & R).
    cbn [manual_loop] in E. unfold has_more, fetch in E. cbn [more s'] in E. cbn [cur it lmode s'] in E.
    destruct (fetch_srv (cur s) (it s) (lmode s) st rest) as [[x o1] v].
    rewrite <- app_assoc in E. cbn [app] in E. rewrite E.
    exists (Req (Some st) :: o'). rewrite <- app_assoc. cbn. rewrite R. split; reflexivity.
Qed.

Lemma manual_spec srv : exists o, manual srv = (o, Some (all_rows srv)) /\ reqs o = expected_reqs None srv.
Proof.
  unfold manual. pose proof (init_spec srv) as I. destruct (init srv) as [s0 o0].
  destruct I as (_ & _ & I3 & I4 & _ & _ & I7 & _). unfold pstates, rest_rows, more_size in *.
  destruct (more s0) as [[st r]|] eqn:Hm.
  - destruct (manual_loop_spec r (npages srv + nfails srv) s0 o0 st Hm ltac:(lia)) as (o' & E & R).
    exists (o0 ++ o'). rewrite E, I4. split; [reflexivity|]. rewrite reqs_app, R. exact I3.
  - exists o0. rewrite app_nil_r in I3, I4. split; [|exact I3].
    destruct (npages srv + nfails srv)%nat; cbn; unfold has_more; rewrite Hm, I4; reflexivity.
Qed.

(* ---------- any access pattern: requests are a prefix of the expected sequence ---------- *)
Lemma list_self_reqs s : let '(s', o, r) := list_self s in reqs o ++ pstates s' = pstates s.
Proof.
  unfold list_self, iter_. destruct (lmode s) eqn:Hl; [reflexivity|].
  set (s1 := mkRS (cur s) (Some (cur s)) false (more s)).
  pose proof (drain_reqs (S (length (pending_rows s1))) s1 [] []) as R.
  destruct (drain (S (length (pending_rows s1))) s1 [] []) as [[s' o] r]. destruct R as [R _]. exact R.
Qed.

Lemma enter_list_mode_reqs s : let '(s', o, e) := enter_list_mode s in reqs o ++ pstates s' = pstates s.
Proof.
  unfold enter_list_mode. destruct (lmode s) eqn:Hl; [reflexivity|].
  destruct (it s); [reflexivity|].
  pose proof (list_self_reqs s) as L. destruct (list_self s) as [[s1 o] r]. destruct r; exact L.
Qed.

Lemma step_reqs s op : let '(s', o) := step s op in reqs o ++ pstates s' = pstates s.
Proof.
  destruct op; cbn [step]; try reflexivity.
  - unfold iter_. destruct (lmode s); reflexivity.
  - pose proof (next_reqs s) as N. destruct (next s) as [[s' o] v]. rewrite reqs_ret. apply N.
  - pose proof (fetch_reqs s) as N. destruct (fetch s) as [[s' o] v]. rewrite reqs_ret. apply N.
  - pose proof (enter_list_mode_reqs s) as N. destruct (enter_list_mode s) as [[s' o] [e|]]; rewrite reqs_ret; exact N.
  - pose proof (enter_list_mode_reqs s) as N. destruct (enter_list_mode s) as [[s' o] [e|]]; rewrite reqs_ret; exact N.
  - pose proof (list_self_reqs s) as N. destruct (list_self s) as [[s' o] r]. rewrite reqs_ret. exact N.
Qed.

Lemma run_state_reqs : forall ops s, let '(s', o) := run_state s ops in reqs o ++ pstates s' = pstates s.
Proof.
  induction ops as [|op ops IH]; intros s; cbn [run_state]; [apply app_nil_r || reflexivity|].
  pose proof (step_reqs s op) as S1. destruct (step s op) as [s1 o1].
  specialize (IH s1). destruct (run_state s1 ops) as [s2 o2].
  rewrite reqs_app, <- app_assoc, IH. exact S1.
Qed.

Lemma any_pattern_prefix srv ops :
  let '(s0, o0) := init srv in let '(s', o) := run_state s0 ops in
  reqs (o0 ++ o) ++ pstates s' = expected_reqs None srv.
Proof.
  pose proof (init_spec srv) as I. destruct (init srv) as [s0 o0]. destruct I as (_ & _ & I3 & _).
  pose proof (run_state_reqs ops s0) as R. destruct (run_state s0 ops) as [s' o].
  rewrite reqs_app, <- app_assoc, R. exact I3.
Qed.

(* getitem / eq after materialisation (no failing request) *)
Lemma enter_list_mode_init srv : nfails srv = O -> nspecs srv = O -> let '(s0, _) := init srv in
  exists s1 o, enter_list_mode s0 = (s1, o, None) /\ cur s1 = all_rows srv /\ reqs o = map Some (states srv)
  /\ lmode s1 = true /\ more s1 = None.
Proof.
  intros Hnf Hns. pose proof (init_spec srv) as I. destruct (init srv) as [s0 o0].
  destruct I as (I1 & I2 & I3 & I4 & _ & I6 & _ & I8).
  unfold enter_list_mode. rewrite I1, I2.
  pose proof (list_self_spec s0 I1 ltac:(lia)) as L. destruct (list_self s0) as [[s' o] r].
  destruct L as (-> & L2 & L3 & _). eexists _, _. split; [reflexivity|]. cbn. rewrite I4. repeat split; try assumption.
  rewrite (I8 Hnf Hns) in I3. cbn in I3. rewrite (expected_nofail srv None Hnf Hns) in I3. rewrite L2. congruence.
Qed.

Lemma getitem_spec srv i : nfails srv = O -> nspecs srv = O -> let '(s0, _) := init srv in
  exists o, snd (step s0 (OGetItem i)) = o ++ [Ret (py_getitem (all_rows srv) i)] /\ reqs o = map Some (states srv).
Proof.
  intros Hnf Hns. pose proof (enter_list_mode_init srv Hnf Hns) as E. destruct (init srv) as [s0 o0].
  destruct E as (s1 & o & E & C & R & _). cbn [step]. rewrite E. cbn. rewrite C. eauto.
Qed.

Lemma eq_spec srv other : nfails srv = O -> nspecs srv = O -> let '(s0, _) := init srv in
  exists o, snd (step s0 (OEq other)) = o ++ [Ret (VBool (zlist_eqb (all_rows srv) other))] /\ reqs o = map Some (states srv).
Proof.
  intros Hnf Hns. pose proof (enter_list_mode_init srv Hnf Hns) as E. destruct (init srv) as [s0 o0].
  destruct E as (s1 & o & E & C & R & _). cbn [step]. rewrite E. cbn. rewrite C. eauto.
Qed.

Lemma zlist_eqb_eq : forall a b, zlist_eqb a b = true <-> a = b.
Proof.
  induction a as [|x a IH]; destruct b as [|y b]; cbn; split; try congruence; try reflexivity.
  - intros H. apply andb_true_iff in H. destruct H as [H1 H2]. apply Z.eqb_eq in H1. apply IH in H2. congruence.
  - intros H. inversion H; subst. rewrite Z.eqb_refl. cbn. apply IH. reflexivity.
Qed.

(* ---------- continuous paging ---------- *)
Definition quiet (a : anystate) : Prop :=
  match a with Cont _ => True | Paged s => (lmode s = true /\ it s = None) \/ more s = None end.

Lemma expected_reqs_nonnil srv cur : expected_reqs cur srv <> [].
Proof. destruct srv; cbn; discriminate. Qed.

Lemma pstates_nil s : pstates s = [] -> more s = None.
Proof. unfold pstates. destruct (more s) as [[st srv]|]; [|reflexivity]. intros H. destruct (expected_reqs_nonnil _ _ H). Qed.

Lemma astep_quiet a o : quiet a -> cont_op o = true -> let '(a', outs) := astep a o in reqs outs = [] /\ quiet a'.
Proof.
  intros Q Hop. destruct a as [s|c]; cbn [astep].
  - destruct Q as [[Hl Hi]|Hm].
    + destruct o; try discriminate; cbn [step]; unfold iter_, next, enter_list_mode, list_self; rewrite ?Hl, ?Hi; cbn; auto.
    + pose proof (step_reqs s o) as R. destruct (step s o) as [s' outs].
      unfold pstates in R at 2. rewrite Hm in R. apply app_eq_nil in R. destruct R as [R1 R2].
      split; [exact R1|]. right. apply pstates_nil, R2.
  - destruct c as [g ci m]. destruct o; try discriminate; cbn; unfold cont_exhausted; cbn; destruct ci, g, m; cbn; auto.
Qed.

Lemma arun_quiet : forall ops a, quiet a -> forallb cont_op ops = true ->
  reqs (snd (arun_state a ops)) = [] /\ quiet (fst (arun_state a ops)).
Proof.
  induction ops as [|o ops IH]; intros a Q H; cbn [arun_state]; [auto|].
  cbn in H. apply andb_true_iff in H. destruct H as [H1 H2].
  pose proof (astep_quiet a o Q H1) as S1. destruct (astep a o) as [a1 o1]. destruct S1 as [R1 Q1].
  destruct (IH a1 Q1 H2) as [R2 Q2]. destruct (arun_state a1 ops) as [a2 o2]. cbn [fst snd] in *.
  rewrite reqs_app, R1, R2. auto.
Qed.

Lemma cont_next_steps : forall g m, snd (arun_state (Cont (mkCS g true m)) (repeat ONext (length g))) = map (fun r => Ret (VRow r)) g.
Proof.
  induction g as [|r g IH]; intros m; cbn [length repeat arun_state]; [reflexivity|].
  cbn [astep cstep cit gen cmore]. specialize (IH m). destruct (arun_state (Cont (mkCS g true m)) (repeat ONext (length g))) as [a o].
  cbn in *. rewrite IH. reflexivity.
Qed.

(* ---------- callback-driven paging ---------- *)
Lemma async_from_spec : forall srv st, nfails srv = O ->
  let '(o, r, f) := async_from true st srv in reqs o = expected_reqs (Some st) srv /\ r = all_rows srv /\ f = true.
Proof.
  induction srv as [rs|rs st' rest IH|rest IH|rest IH]; intros st Hn; cbn in *; try discriminate; auto.
  - specialize (IH st' Hn). destruct (async_from true st' rest) as [[o r] f]. destruct IH as (A & B & C). cbn. rewrite A, B. auto.
  - specialize (IH st Hn). destruct (async_from true st rest) as [[o r] f]. destruct IH as (A & B & C). cbn. rewrite A. auto.
Qed.

Lemma async_pages_spec early srv : nfails srv = O ->
  let '(o, r, f) := async_pages early srv in reqs o = expected_reqs None srv /\ r = all_rows srv /\ f = true.
Proof.
  intros Hn. unfold async_pages, add_callback_registers. pose proof (init_spec srv) as I. destruct (init srv) as [s0 o0].
  destruct I as (_ & _ & I3 & I4 & _ & I6 & _). unfold pstates, rest_rows, pending_fails in *.
  destruct (more s0) as [[st rest]|] eqn:Hm.
  - pose proof (async_from_spec rest st ltac:(lia)) as A. destruct (async_from true st rest) as [[o r] f].
    destruct A as (A1 & A2 & A3). rewrite reqs_app, A1, A2. auto.
  - rewrite app_nil_r in I3, I4. auto.
Qed.
