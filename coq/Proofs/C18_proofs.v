From Coq Require Import ZArith List Bool Lia.
From Verif Require Import Paging.
Import ListNotations.
Local Open Scope Z_scope.

(* paging states the future will still send, in order *)
Definition pstates (s : rset) : list Z :=
  match more s with Some (st, srv) => st :: states srv | None => [] end.

Lemma reqs_app a b : reqs (a ++ b) = reqs a ++ reqs b.
Proof. induction a as [|[st|v] a IH]; cbn; [reflexivity| rewrite IH; reflexivity | exact IH]. Qed.

Lemma reqs_ret o v : reqs (o ++ [Ret v]) = reqs o.
Proof. rewrite reqs_app. cbn. apply app_nil_r. Qed.

(* ---------- pull / next ---------- *)
Lemma pull_spec : forall srv lm st,
  let '(s', o, v) := pull lm st srv in
  reqs o ++ map Some (pstates s') = Some st :: map Some (states srv)
  /\ lmode s' = lm /\ (exists l, it s' = Some l)
  /\ match all_rows srv with
     | [] => v = VStop /\ pending_rows s' = [] /\ more s' = None
     | r :: rest => v = VRow r /\ pending_rows s' = rest
     end.
Proof.
  induction srv as [rs|rs st' rest IH]; intros lm st.
  - destruct rs as [|r rs]; cbn; repeat split; eauto. unfold pending_rows; cbn. apply app_nil_r.
  - destruct rs as [|r rs].
    + cbn [pull]. specialize (IH lm st'). destruct (pull lm st' rest) as [[s' o] v].
      destruct IH as (H1 & H2 & H3 & H4). cbn [all_rows app states map reqs].
      repeat split; try assumption. cbn. rewrite H1. reflexivity.
    + cbn. repeat split; eauto.
Qed.

Lemma next_reqs s :
  let '(s', o, v) := next s in reqs o ++ map Some (pstates s') = map Some (pstates s) /\ lmode s' = lmode s.
Proof.
  unfold next. destruct (it s) as [[|r l]|] eqn:Hit.
  - destruct (more s) as [[st srv]|] eqn:Hm.
    + pose proof (pull_spec srv (lmode s) st) as P. destruct (pull (lmode s) st srv) as [[s' o] v].
      destruct P as (H1 & H2 & _). split; [|assumption]. rewrite H1. unfold pstates. rewrite Hm. reflexivity.
    + cbn. unfold pstates. rewrite Hm. cbn. auto.
  - cbn. unfold pstates. cbn. auto.
  - cbn. auto.
Qed.

(* next() on an active iterator: yields the head of the pending rows, or stops when none is pending *)
Lemma next_rows s l : it s = Some l ->
  let '(s', o, v) := next s in
  (exists l', it s' = Some l')
  /\ match pending_rows s with
     | [] => v = VStop /\ pending_rows s' = [] /\ more s' = None
     | r :: rest => v = VRow r /\ pending_rows s' = rest
     end.
Proof.
  intros Hit. unfold next, pending_rows at 1. rewrite Hit. destruct l as [|r l].
  - destruct (more s) as [[st srv]|] eqn:Hm.
    + pose proof (pull_spec srv (lmode s) st) as P. destruct (pull (lmode s) st srv) as [[s' o] v].
      destruct P as (_ & _ & H3 & H4). cbn [app]. split; assumption.
    + cbn. split; [eauto|]. repeat split.
  - cbn. split; [eauto|]. split; [reflexivity|]. unfold pending_rows. cbn. reflexivity.
Qed.

(* ---------- drain = list()/for ---------- *)
Lemma drain_reqs : forall fuel s acc o,
  let '(s', o', r) := drain fuel s acc o in
  reqs o' ++ map Some (pstates s') = reqs o ++ map Some (pstates s) /\ lmode s' = lmode s.
Proof.
  induction fuel as [|f IH]; intros s acc o; cbn [drain]; [auto|].
  pose proof (next_reqs s) as N. destruct (next s) as [[s1 o1] v]. destruct N as [N1 N2].
  assert (E : reqs (o ++ o1) ++ map Some (pstates s1) = reqs o ++ map Some (pstates s))
    by (rewrite reqs_app, <- app_assoc, N1; reflexivity).
  destruct v; try (split; assumption).
  specialize (IH s1 (acc ++ [z]) (o ++ o1)). destruct (drain f s1 (acc ++ [z]) (o ++ o1)) as [[s2 o2] r].
  destruct IH as [I1 I2]. split; congruence.
Qed.

Lemma drain_rows : forall fuel s acc o l, it s = Some l -> (length (pending_rows s) < fuel)%nat ->
  let '(s', o', r) := drain fuel s acc o in
  r = Some (acc ++ pending_rows s) /\ more s' = None /\ it s' = Some [] \/ False.
Proof.
  induction fuel as [|f IH]; intros s acc o l Hit Hf; [lia|]. cbn [drain].
  pose proof (next_rows s l Hit) as N. destruct (next s) as [[s1 o1] v]. destruct N as [[l' Hl'] N].
  destruct (pending_rows s) as [|r rest] eqn:Hp.
  - destruct N as (-> & Hp1 & Hm1). left. rewrite app_nil_r. repeat split; try assumption.
    unfold pending_rows in Hp1. rewrite Hl', Hm1, app_nil_r in Hp1. congruence.
  - destruct N as (-> & Hp1). cbn [length] in Hf.
    specialize (IH s1 (acc ++ [r]) (o ++ o1) l' Hl'). rewrite Hp1 in IH. specialize (IH ltac:(lia)).
    destruct (drain f s1 (acc ++ [r]) (o ++ o1)) as [[s2 o2] r2].
    destruct IH as [(I1 & I2 & I3)|[]]. left. rewrite <- app_assoc in I1. auto.
Qed.

Lemma list_self_spec s : lmode s = false ->
  let '(s', o, r) := list_self s in
  r = Some (cur s ++ match more s with Some (_, srv) => all_rows srv | None => [] end)
  /\ reqs o = map Some (pstates s) /\ more s' = None /\ lmode s' = false.
Proof.
  intros Hl. unfold list_self, iter_. rewrite Hl.
  set (s1 := mkRS (cur s) (Some (cur s)) false (more s)).
  pose proof (drain_rows (S (length (pending_rows s1))) s1 [] [] (cur s) eq_refl ltac:(lia)) as D.
  pose proof (drain_reqs (S (length (pending_rows s1))) s1 [] []) as R.
  destruct (drain (S (length (pending_rows s1))) s1 [] []) as [[s' o] r].
  destruct D as [(D1 & D2 & D3)|[]]. destruct R as [R1 R2].
  split; [rewrite D1; reflexivity|]. split; [|split; [assumption|]].
  - unfold pstates in R1 at 1. rewrite D2 in R1. cbn in R1. rewrite app_nil_r in R1. exact R1.
  - rewrite R2. reflexivity.
Qed.

Lemma init_spec srv : let '(s0, o0) := init srv in
  lmode s0 = false /\ it s0 = None /\ o0 = [Req None] /\ pstates s0 = states srv
  /\ cur s0 ++ match more s0 with Some (_, r) => all_rows r | None => [] end = all_rows srv.
Proof. destruct srv; cbn; repeat split; auto using app_nil_r. Qed.

(* ---------- the three readings ---------- *)
Lemma iterate_spec srv : iterate srv = (fst (iterate srv), Some (all_rows srv))
  /\ reqs (fst (iterate srv)) = None :: map Some (states srv).
Proof.
  unfold iterate. pose proof (init_spec srv) as I. destruct (init srv) as [s0 o0].
  destruct I as (I1 & I2 & -> & I4 & I5).
  pose proof (list_self_spec s0 I1) as L. destruct (list_self s0) as [[s' o] r].
  destruct L as (-> & L2 & _). cbn [fst]. rewrite I5. split; [reflexivity|].
  cbn. rewrite L2, I4. reflexivity.
Qed.

Lemma materialise_spec srv : materialise srv = iterate srv.
Proof.
  unfold materialise, iterate. pose proof (init_spec srv) as I. destruct (init srv) as [s0 o0].
  destruct I as (I1 & I2 & -> & I4 & I5). unfold enter_list_mode. rewrite I1, I2.
  pose proof (list_self_spec s0 I1) as L. destruct (list_self s0) as [[s' o] r].
  destruct L as (-> & _). reflexivity.
Qed.

Lemma fetch_reqs s : let '(s', o) := fetch s in
  reqs o ++ map Some (pstates s') = map Some (pstates s) /\ lmode s' = lmode s.
Proof.
  unfold fetch. destruct (more s) as [[st srv]|] eqn:Hm.
  - destruct srv; cbn; unfold pstates; rewrite Hm; cbn; auto.
  - cbn. unfold pstates. rewrite Hm. auto.
Qed.

Lemma manual_loop_spec : forall srv fuel s o, (npages srv <= fuel)%nat ->
  more s = match srv with Last _ => None | More _ st rest => Some (st, rest) end ->
  cur s = match srv with Last rs => rs | More rs _ _ => rs end ->
  exists o', manual_loop fuel s o = (o ++ o', Some (all_rows srv)) /\ reqs o' = map Some (states srv).
Proof.
  induction srv as [rs|rs st rest IH]; intros fuel s o Hf Hm Hc.
  - exists []. destruct fuel; cbn; unfold has_more; rewrite Hm, Hc, app_nil_r; split; reflexivity.
  - destruct fuel as [|f]; [cbn in Hf; lia|]. cbn [manual_loop]. unfold has_more. rewrite Hm.
    unfold fetch. rewrite Hm.
    destruct (receive rest) as [rs' m'] eqn:Hr.
    specialize (IH f (mkRS rs' (it s) (lmode s) m') (o ++ [Req (Some st)]) ltac:(cbn in Hf; lia)).
    destruct IH as (o' & E & R).
    + destruct rest; cbn in Hr; inversion Hr; reflexivity.
    + destruct rest; cbn in Hr; inversion Hr; reflexivity.
    + rewrite E. exists (Req (Some st) :: o'). rewrite <- app_assoc. cbn. rewrite Hc, R. split; reflexivity.
Qed.

Lemma manual_spec srv : exists o, manual srv = (o, Some (all_rows srv)) /\ reqs o = None :: map Some (states srv).
Proof.
  unfold manual. destruct (init srv) as [s0 o0] eqn:Hi.
  assert (o0 = [Req None]) by (destruct srv; cbn in Hi; inversion Hi; reflexivity). subst o0.
  destruct (manual_loop_spec srv (npages srv) s0 [Req None] (le_n _)) as (o' & E & R).
  - destruct srv; cbn in Hi; inversion Hi; reflexivity.
  - destruct srv; cbn in Hi; inversion Hi; reflexivity.
  - exists ([Req None] ++ o'). split; [assumption|]. cbn. rewrite R. reflexivity.
Qed.

(* ---------- any access pattern: requests are a prefix of the expected state sequence ---------- *)
Lemma enter_list_mode_reqs s : let '(s', o, e) := enter_list_mode s in
  reqs o ++ map Some (pstates s') = map Some (pstates s).
Proof.
  unfold enter_list_mode. destruct (lmode s) eqn:Hl; [reflexivity|].
  destruct (it s); [reflexivity|].
  pose proof (list_self_spec s Hl) as L. destruct (list_self s) as [[s1 o] r].
  destruct L as (-> & L2 & L3 & _). unfold pstates at 1. cbn [more]. rewrite L3, L2. apply app_nil_r.
Qed.

Lemma list_self_reqs s : let '(s', o, r) := list_self s in
  reqs o ++ map Some (pstates s') = map Some (pstates s).
Proof.
  destruct (lmode s) eqn:Hl.
  - unfold list_self. rewrite Hl. reflexivity.
  - pose proof (list_self_spec s Hl) as L. destruct (list_self s) as [[s1 o] r].
    destruct L as (_ & L2 & L3 & _). unfold pstates at 1. rewrite L3, L2. apply app_nil_r.
Qed.

Lemma step_reqs s op : let '(s', o) := step s op in reqs o ++ map Some (pstates s') = map Some (pstates s).
Proof.
  destruct op; cbn [step]; try reflexivity.
  - unfold iter_. destruct (lmode s); reflexivity.
  - pose proof (next_reqs s) as N. destruct (next s) as [[s' o] v]. rewrite reqs_ret. apply N.
  - pose proof (fetch_reqs s) as N. destruct (fetch s) as [s' o]. rewrite reqs_ret. apply N.
  - pose proof (enter_list_mode_reqs s) as N. destruct (enter_list_mode s) as [[s' o] [e|]]; rewrite reqs_ret; exact N.
  - pose proof (enter_list_mode_reqs s) as N. destruct (enter_list_mode s) as [[s' o] [e|]]; rewrite reqs_ret; exact N.
  - pose proof (list_self_reqs s) as N. destruct (list_self s) as [[s' o] r]. rewrite reqs_ret. exact N.
Qed.

Lemma run_state_reqs : forall ops s, let '(s', o) := run_state s ops in
  reqs o ++ map Some (pstates s') = map Some (pstates s).
Proof.
  induction ops as [|op ops IH]; intros s; cbn [run_state]; [reflexivity|].
  pose proof (step_reqs s op) as S1. destruct (step s op) as [s1 o1].
  specialize (IH s1). destruct (run_state s1 ops) as [s2 o2].
  rewrite reqs_app, <- app_assoc, IH. exact S1.
Qed.

Lemma any_pattern_prefix srv ops :
  let '(s0, o0) := init srv in let '(s', o) := run_state s0 ops in
  reqs (o0 ++ o) ++ map Some (pstates s') = None :: map Some (states srv).
Proof.
  pose proof (init_spec srv) as I. destruct (init srv) as [s0 o0]. destruct I as (_ & _ & -> & I4 & _).
  pose proof (run_state_reqs ops s0) as R. destruct (run_state s0 ops) as [s' o].
  cbn. rewrite R, I4. reflexivity.
Qed.

Lemma states_length srv : S (length (states srv)) = npages srv.
Proof. induction srv; cbn; congruence. Qed.

Lemma all_rows_concat srv : all_rows srv = concat (pages srv).
Proof. induction srv as [rs|rs st rest IH]; cbn; [symmetry; apply app_nil_r | rewrite IH; reflexivity]. Qed.

(* getitem / eq after materialisation *)
Lemma enter_list_mode_init srv : let '(s0, _) := init srv in
  exists s1 o, enter_list_mode s0 = (s1, o, None) /\ cur s1 = all_rows srv /\ reqs o = map Some (states srv)
  /\ lmode s1 = true /\ more s1 = None.
Proof.
  pose proof (init_spec srv) as I. destruct (init srv) as [s0 o0]. destruct I as (I1 & I2 & _ & I4 & I5).
  unfold enter_list_mode. rewrite I1, I2.
  pose proof (list_self_spec s0 I1) as L. destruct (list_self s0) as [[s' o] r].
  destruct L as (-> & L2 & L3 & _). eexists _, _. split; [reflexivity|]. cbn. rewrite I5, L2, I4. auto.
Qed.

Lemma getitem_spec srv i : let '(s0, _) := init srv in
  exists o, snd (step s0 (OGetItem i)) = o ++ [Ret (py_getitem (all_rows srv) i)] /\ reqs o = map Some (states srv).
Proof.
  pose proof (enter_list_mode_init srv) as E. destruct (init srv) as [s0 o0].
  destruct E as (s1 & o & E & C & R & _). cbn [step]. rewrite E. cbn. rewrite C. eauto.
Qed.

Lemma eq_spec srv other : let '(s0, _) := init srv in
  exists o, snd (step s0 (OEq other)) = o ++ [Ret (VBool (zlist_eqb (all_rows srv) other))] /\ reqs o = map Some (states srv).
Proof.
  pose proof (enter_list_mode_init srv) as E. destruct (init srv) as [s0 o0].
  destruct E as (s1 & o & E & C & R & _). cbn [step]. rewrite E. cbn. rewrite C. eauto.
Qed.

Lemma zlist_eqb_eq : forall a b, zlist_eqb a b = true <-> a = b.
Proof.
  induction a as [|x a IH]; destruct b as [|y b]; cbn; split; try congruence; try reflexivity.
  - intros H. apply andb_true_iff in H. destruct H as [H1 H2]. apply Z.eqb_eq in H1. apply IH in H2. congruence.
  - intros H. inversion H; subst. rewrite Z.eqb_refl. cbn. apply IH. reflexivity.
Qed.
