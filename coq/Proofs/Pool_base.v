(* Basic facts about the list/record plumbing of Model/Pool.v *)
From Coq Require Import ZArith List Bool Lia Arith.
From Verif Require Import Pool.
Import ListNotations.
Local Open Scope Z_scope.

Lemma length_upd {A} i (f : A -> A) l : length (upd i f l) = length l.
Proof. revert i; induction l as [|x l IH]; intros [|i]; simpl; auto. Qed.

Lemma nth_upd {A} i j (f : A -> A) l d :
  nth j (upd i f l) d = if Nat.eqb j i && Nat.ltb j (length l) then f (nth j l d) else nth j l d.
Proof.
  revert i j; induction l as [|x l IH]; intros i j.
  - destruct i, j; simpl; try reflexivity; rewrite andb_false_r; reflexivity.
  - destruct i, j; simpl; try reflexivity.
    rewrite IH. reflexivity.
Qed.

Lemma getc_updc s c f x :
  getc (updc s c f) x = if Nat.eqb x c && valid s x then f (getc s x) else getc s x.
Proof. unfold getc, updc, valid; simpl. apply nth_upd. Qed.

Lemma length_updc s c f : length (conns (updc s c f)) = length (conns s).
Proof. unfold updc; simpl. apply length_upd. Qed.

Lemma valid_lt s c : valid s c = true <-> (c < length (conns s))%nat.
Proof. unfold valid. apply Nat.ltb_lt. Qed.

Lemma getc_app_old s x k : (x < length (conns s))%nat -> nth x (conns s ++ [k]) new_conn = getc s x.
Proof. intros. unfold getc. apply app_nth1. assumption. Qed.

Lemma getc_app_new s k : nth (length (conns s)) (conns s ++ [k]) new_conn = k.
Proof. rewrite app_nth2 by lia. rewrite Nat.sub_diag. reflexivity. Qed.

Lemma mem_In c l : mem c l = true <-> In c l.
Proof.
  induction l as [|x l IH]; simpl; [split; [intros H; discriminate H|intros []]|].
  rewrite orb_true_iff, IH, Nat.eqb_eq. split; intros [H|H]; auto.
Qed.

Lemma In_ins c x l : In x (ins c l) <-> x = c \/ In x l.
Proof.
  induction l as [|y l IH]; simpl; [intuition congruence|].
  destruct (Nat.eqb c y) eqn:E; [apply Nat.eqb_eq in E; subst; simpl; intuition congruence|].
  destruct (Nat.ltb c y); simpl; [intuition congruence|]. rewrite IH. intuition congruence.
Qed.

Lemma In_del c x l : In x (del c l) <-> x <> c /\ In x l.
Proof.
  induction l as [|y l IH]; simpl; [tauto|].
  destruct (Nat.eqb c y) eqn:E.
  - apply Nat.eqb_eq in E; subst. rewrite IH. intuition congruence.
  - apply Nat.eqb_neq in E. simpl. rewrite IH. intuition congruence.
Qed.

(* close_all only sets c_closed *)
Lemma close_all_length l cs : length (close_all l cs) = length cs.
Proof. unfold close_all. revert cs; induction l as [|c l IH]; intros cs; simpl; [reflexivity|]. rewrite IH. apply length_upd. Qed.

Definition same_but_closed (a b : conn) : Prop :=
  c_inflight b = c_inflight a /\ c_orph b = c_orph a /\ c_thr b = c_thr a /\ c_defunct b = c_defunct a /\
  c_signaled b = c_signaled a /\ c_live b = c_live a /\ c_retp b = c_retp a /\ c_trp b = c_trp a /\
  c_replaced b = c_replaced a /\ (c_closed a = true -> c_closed b = true).

Lemma close_all_nth l cs x :
  same_but_closed (nth x cs new_conn) (nth x (close_all l cs) new_conn) /\
  (In x l -> (x < length cs)%nat -> c_closed (nth x (close_all l cs) new_conn) = true).
Proof.
  unfold close_all. revert cs; induction l as [|c l IH]; intros cs; simpl.
  - split; [unfold same_but_closed; tauto|tauto].
  - destruct (IH (upd c k_close cs)) as [H1 H2]. rewrite length_upd in H2.
    assert (E := nth_upd c x k_close cs new_conn).
    split.
    + unfold same_but_closed in *. rewrite E in H1.
      destruct (Nat.eqb x c && Nat.ltb x (length cs)); simpl in H1; intuition congruence.
    + intros [->|Hin] Hlt; [|auto].
      destruct H1 as (_&_&_&_&_&_&_&_&_&H1). apply H1. rewrite E.
      rewrite Nat.eqb_refl. apply Nat.ltb_lt in Hlt. rewrite Hlt. reflexivity.
Qed.
