(* C09: consequences of the Conn invariant. *)
From Coq Require Import ZArith List Bool Lia.
From Verif Require Import Conn Conn_lemmas Conn_inv Conn_step.
Import ListNotations.
Local Open Scope Z_scope.

Definition reach (n m t : Z) (ops : list op) : state := run (init n m t) ops.

Lemma reach_good n m t ops : 0 <= n -> n - 1 <= m -> raced (reach n m t ops) = false -> Good (reach n m t ops).
Proof. intros A B R. exact (proj1 (run_good ops _ (good_init n m t A B) R)). Qed.

Lemma cnt_all x s : cnt x (all_ids s) = tot x s.
Proof. unfold all_ids, tot. rewrite !cnt_app. lia. Qed.

Lemma good_unique s : Good s ->
  NoDup (all_ids s) /\ (forall x, In x (all_ids s) -> 0 <= x <= highest s) /\ highest s <= max_id s.
Proof.
  intros G. pose proof (g_tot _ G) as T. pose proof (g_hi _ G) as H. repeat split; try lia.
  - apply cnt_le1_NoDup. intros x. rewrite cnt_all, T. unfold inr. destruct ((0 <=? x) && (x <=? highest s)); lia.
  - apply cnt_In in H0. rewrite cnt_all, T in H0. unfold inr in H0.
    destruct (Z.leb_spec 0 x); destruct (Z.leb_spec x (highest s)); cbn [andb] in H0; lia.
  - apply cnt_In in H0. rewrite cnt_all, T in H0. unfold inr in H0.
    destruct (Z.leb_spec 0 x); destruct (Z.leb_spec x (highest s)); cbn [andb] in H0; lia.
Qed.

Lemma good_complete s x : Good s -> 0 <= x <= highest s -> In x (all_ids s).
Proof.
  intros G R. apply cnt_In. rewrite cnt_all, (g_tot _ G). unfold inr.
  destruct (Z.leb_spec 0 x); destruct (Z.leb_spec x (highest s)); cbn [andb]; lia.
Qed.

Lemma good_getid s i s' : Good s -> get_id s = (Some i, s') -> 0 <= i <= max_id s /\ ~ In i (all_ids s) \/ In i (free s) /\ 0 <= i <= max_id s.
Proof.
  intros G E. pose proof (g_hi _ G) as H. unfold get_id in E. destruct (free s) as [|j f] eqn:F.
  - destruct (Z.leb_spec (highest s + 1) (max_id s)); [|discriminate]. injection E as <- _. left. split; [lia|].
    intros I. apply (proj1 (proj2 (good_unique _ G))) in I. lia.
  - injection E as <- _. right. split; [left; reflexivity|].
    assert (In j (all_ids s)) by (unfold all_ids; rewrite F; left; reflexivity).
    apply (proj1 (proj2 (good_unique _ G))) in H0. lia.
Qed.

Lemma good_quiescent s : Good s ->
  reqs s = [] -> orphans s = [] -> ghost s = [] -> cps s = [] -> erroring s = [] -> cur s = None ->
  owed s = 0 -> ks_pending s = 0 -> leaked s = 0 -> spurious s = 0 ->
  in_flight s = 0 /\ NoDup (free s) /\ (forall x, In x (free s) <-> 0 <= x <= highest s).
Proof.
  intros G R O Gh C E Cu Ow K L S. split; [|split].
  - rewrite (g_units _ G). unfold units. rewrite R, O, Gh, E, Cu, Ow, K, L, S. reflexivity.
  - pose proof (proj1 (good_unique _ G)) as N. unfold all_ids in N. rewrite R, O, Gh, C in N. cbn in N.
    rewrite !app_nil_r in N. exact N.
  - intros x. split; intros I.
    + apply (proj1 (proj2 (good_unique _ G))). unfold all_ids. apply in_or_app. left. exact I.
    + pose proof (good_complete _ x G I) as J. unfold all_ids in J. rewrite R, O, Gh, C in J. cbn in J.
      rewrite !app_nil_r in J. exact J.
Qed.

(* the assert can only fire when every stream id 0..max_request_id is in use *)
Lemma good_assert_only_when_full s s' : Good s -> get_id s = (None, s') ->
  free s = [] /\ highest s = max_id s /\ (forall x, 0 <= x <= max_id s -> In x (keys (reqs s) ++ orphans s ++ keys (cps s) ++ keys (ghost s))).
Proof.
  intros G E. pose proof (g_hi _ G) as H. unfold get_id in E. destruct (free s) as [|j f] eqn:F; [|discriminate].
  destruct (Z.leb_spec (highest s + 1) (max_id s)); [discriminate|].
  assert (highest s = max_id s) by lia. repeat split; auto.
  intros x R. rewrite <- H1 in R. pose proof (good_complete _ x G R) as I. unfold all_ids in I. rewrite F in I. exact I.
Qed.
