(* UTF-8 model: decoding what was encoded gives back the code points. *)
From Coq Require Import ZArith List Bool Lia ZifyBool.
From Verif Require Import Utf8Model.
Import ListNotations.
Local Open Scope Z_scope.

Ltac Zify.zify_post_hook ::= Z.to_euclidean_division_equations.

Ltac split_ifs :=
  repeat match goal with
         | |- context [if ?b then _ else _] => let E := fresh "E" in destruct b eqn:E; try lia
         end.

Lemma dec1 : forall c rest, 0 <= c < 128 ->
  utf8_decode (c :: rest) = match utf8_decode rest with Some cs => Some (c :: cs) | None => None end.
Proof. intros. cbn [utf8_decode]. split_ifs. reflexivity. Qed.

Lemma dec2 : forall b0 b1 c rest, b0 = 192 + c / 64 -> b1 = 128 + c mod 64 -> 128 <= c < 2048 ->
  utf8_decode (b0 :: b1 :: rest) = match utf8_decode rest with Some cs => Some (c :: cs) | None => None end.
Proof.
  intros b0 b1 c rest H0 H1 Hc. cbn [utf8_decode]. cbv zeta. unfold is_cont.
  assert (E : (b0 - 192) * 64 + (b1 - 128) = c) by lia. rewrite E. split_ifs. reflexivity.
Qed.

Lemma dec3 : forall b0 b1 b2 c rest, b0 = 224 + c / 4096 -> b1 = 128 + (c / 64) mod 64 -> b2 = 128 + c mod 64 ->
  2048 <= c < 65536 -> is_surrogate c = false ->
  utf8_decode (b0 :: b1 :: b2 :: rest) = match utf8_decode rest with Some cs => Some (c :: cs) | None => None end.
Proof.
  intros b0 b1 b2 c rest H0 H1 H2 Hc S. cbn [utf8_decode]. cbv zeta. unfold is_cont.
  assert (E : (b0 - 224) * 4096 + (b1 - 128) * 64 + (b2 - 128) = c) by lia. rewrite E, S. split_ifs. reflexivity.
Qed.

Lemma dec4 : forall b0 b1 b2 b3 c rest, b0 = 240 + c / 262144 -> b1 = 128 + (c / 4096) mod 64 ->
  b2 = 128 + (c / 64) mod 64 -> b3 = 128 + c mod 64 -> 65536 <= c < 1114112 ->
  utf8_decode (b0 :: b1 :: b2 :: b3 :: rest) = match utf8_decode rest with Some cs => Some (c :: cs) | None => None end.
Proof.
  intros b0 b1 b2 b3 c rest H0 H1 H2 H3 Hc. cbn [utf8_decode]. cbv zeta. unfold is_cont.
  assert (E : (b0 - 240) * 262144 + (b1 - 128) * 4096 + (b2 - 128) * 64 + (b3 - 128) = c) by lia.
  rewrite E. split_ifs. reflexivity.
Qed.

Lemma utf8_decode_enc1_app : forall c bs rest, utf8_enc1 c = Some bs ->
  utf8_decode (bs ++ rest) = match utf8_decode rest with Some cs => Some (c :: cs) | None => None end.
Proof.
  intros c bs rest H. unfold utf8_enc1 in H.
  destruct (c <? 0) eqn:C0; [discriminate|].
  destruct (c <? 128) eqn:C1.
  { assert (Hb : bs = [c]) by congruence. subst bs. apply dec1. lia. }
  destruct (c <? 2048) eqn:C2.
  { assert (Hb : bs = [192 + c / 64; 128 + c mod 64]) by congruence. subst bs.
    apply dec2; auto. lia. }
  destruct (c <? 65536) eqn:C3.
  { destruct (is_surrogate c) eqn:S; [discriminate|].
    assert (Hb : bs = [224 + c / 4096; 128 + (c / 64) mod 64; 128 + c mod 64]) by congruence. subst bs.
    apply dec3; auto. lia. }
  destruct (c <? 1114112) eqn:C4; [|discriminate].
  assert (Hb : bs = [240 + c / 262144; 128 + (c / 4096) mod 64; 128 + (c / 64) mod 64; 128 + c mod 64]) by congruence.
  subst bs. apply dec4; auto. lia.
Qed.

Lemma utf8_decode_encode : forall cps bs, utf8_encode cps = Some bs -> utf8_decode bs = Some cps.
Proof.
  induction cps as [|c r IH]; intros bs H; cbn [utf8_encode] in H.
  - inversion H. reflexivity.
  - destruct (utf8_enc1 c) as [a|] eqn:Ea; [|discriminate].
    destruct (utf8_encode r) as [b|] eqn:Eb; [|discriminate].
    inversion H; subst bs. rewrite (utf8_decode_enc1_app _ _ b Ea), (IH b eq_refl). reflexivity.
Qed.
