(* List/count lemmas used by the Conn invariants (C09, C10, C44). *)
From Coq Require Import ZArith List Bool Lia.
From Verif Require Import Conn.
Import ListNotations.
Local Open Scope Z_scope.

Lemma cnt_app x a b : cnt x (a ++ b) = cnt x a + cnt x b.
Proof. induction a as [|y a IH]; cbn [cnt app]; [lia|]. rewrite IH. lia. Qed.

Lemma cnt_nonneg x l : 0 <= cnt x l.
Proof. induction l as [|y l IH]; cbn [cnt]; [lia|]. destruct (x =? y); lia. Qed.

Lemma cnt_rm x i l : cnt x (rm i l) = if x =? i then 0 else cnt x l.
Proof.
  induction l as [|y l IH]; cbn [rm cnt]; [destruct (x =? i); reflexivity|].
  destruct (Z.eqb_spec i y) as [E|N]; cbn [cnt]; rewrite IH;
    destruct (Z.eqb_spec x i); destruct (Z.eqb_spec x y); lia.
Qed.

Lemma cnt_keys_rmk {A} x i (l : list (Z * A)) : cnt x (keys (rmk i l)) = if x =? i then 0 else cnt x (keys l).
Proof.
  induction l as [|[k v] l IH]; [cbn; destruct (x =? i); reflexivity|].
  cbn [rmk]. destruct (Z.eqb_spec i k) as [E|N].
  - rewrite IH. unfold keys. cbn [map fst cnt]. destruct (Z.eqb_spec x i); destruct (Z.eqb_spec x k); lia.
  - unfold keys in *. cbn [map fst cnt]. rewrite IH. destruct (Z.eqb_spec x i); destruct (Z.eqb_spec x k); lia.
Qed.

Lemma lookup_cnt {A} i (l : list (Z * A)) v : lookup i l = Some v -> 1 <= cnt i (keys l).
Proof.
  induction l as [|[k w] l IH]; cbn [lookup keys map fst cnt]; [discriminate|]. fold (keys l).
  pose proof (cnt_nonneg i (keys l)). destruct (Z.eqb_spec i k); intros E; [lia|]. specialize (IH E). lia.
Qed.

Lemma lookup_none_cnt {A} i (l : list (Z * A)) : lookup i l = None -> cnt i (keys l) = 0.
Proof.
  induction l as [|[k w] l IH]; cbn [lookup keys map fst cnt]; [reflexivity|]. fold (keys l).
  destruct (Z.eqb_spec i k); intros E; [discriminate|]. rewrite (IH E). lia.
Qed.

Lemma cnt_zero_lookup {A} i (l : list (Z * A)) : cnt i (keys l) = 0 -> lookup i l = None.
Proof.
  intros E. destruct (lookup i l) eqn:L; [|reflexivity]. apply lookup_cnt in L. lia.
Qed.

Lemma mem_cnt i l : mem i l = true -> 1 <= cnt i l.
Proof.
  induction l as [|y l IH]; cbn [mem cnt]; [discriminate|]. pose proof (cnt_nonneg i l).
  destruct (Z.eqb_spec i y); cbn [orb]; intros E; [lia|]. specialize (IH E). lia.
Qed.

Lemma mem_false_cnt i l : mem i l = false -> cnt i l = 0.
Proof.
  induction l as [|y l IH]; cbn [mem cnt]; [reflexivity|].
  destruct (Z.eqb_spec i y); cbn [orb]; intros E; [discriminate|]. rewrite (IH E). lia.
Qed.

Lemma rm_id i l : cnt i l = 0 -> rm i l = l.
Proof.
  induction l as [|y l IH]; cbn [rm cnt]; [reflexivity|]. pose proof (cnt_nonneg i l).
  destruct (Z.eqb_spec i y); intros E; [lia|]. rewrite IH by lia. reflexivity.
Qed.

Lemma rmk_id {A} i (l : list (Z * A)) : cnt i (keys l) = 0 -> rmk i l = l.
Proof.
  induction l as [|[k v] l IH]; cbn [rmk keys map fst cnt]; [reflexivity|]. fold (keys l).
  pose proof (cnt_nonneg i (keys l)). destruct (Z.eqb_spec i k); intros E; [lia|]. rewrite IH by lia. reflexivity.
Qed.

Lemma zlen_cons {A} (a : A) l : zlen (a :: l) = zlen l + 1.
Proof. unfold zlen. cbn [length]. lia. Qed.
Lemma zlen_nil {A} : zlen (@nil A) = 0.
Proof. reflexivity. Qed.
Lemma zlen_nonneg {A} (l : list A) : 0 <= zlen l.
Proof. unfold zlen. lia. Qed.
Lemma zlen_app {A} (a b : list A) : zlen (a ++ b) = zlen a + zlen b.
Proof. unfold zlen. rewrite app_length. lia. Qed.

Lemma zlen_rm_one i l : cnt i l = 1 -> zlen (rm i l) = zlen l - 1.
Proof.
  induction l as [|y l IH]; cbn [rm cnt]; [lia|]. pose proof (cnt_nonneg i l).
  destruct (Z.eqb_spec i y); intros E.
  - rewrite rm_id by lia. rewrite zlen_cons. lia.
  - rewrite !zlen_cons. rewrite IH by lia. lia.
Qed.

Lemma zlen_rmk_one {A} i (l : list (Z * A)) : cnt i (keys l) = 1 -> zlen (rmk i l) = zlen l - 1.
Proof.
  induction l as [|[k v] l IH]; cbn [rmk keys map fst cnt]; [lia|]. fold (keys l). pose proof (cnt_nonneg i (keys l)).
  destruct (Z.eqb_spec i k); intros E.
  - rewrite rmk_id by lia. rewrite zlen_cons. lia.
  - rewrite !zlen_cons. rewrite IH by lia. lia.
Qed.

Lemma unit_tags_rmk_one i g t : lookup i g = Some t -> cnt i (keys g) = 1 ->
  unit_tags (rmk i g) = unit_tags g - unit_tag t.
Proof.
  induction g as [|[k v] g IH]; cbn [rmk keys map fst cnt lookup unit_tags]; [discriminate|]. fold (keys g).
  pose proof (cnt_nonneg i (keys g)). destruct (Z.eqb_spec i k); intros L E.
  - injection L as ->. rewrite rmk_id by lia. lia.
  - cbn [unit_tags]. rewrite IH by (auto; lia). lia.
Qed.

Lemma unit_tags_nonneg g : 0 <= unit_tags g.
Proof. induction g as [|[k v] g IH]; cbn [unit_tags]; [lia|]. destruct v; cbn [unit_tag]; lia. Qed.

Lemma lookup_rmk_same {A} i (l : list (Z * A)) : lookup i (rmk i l) = None.
Proof.
  induction l as [|[k v] l IH]; cbn [rmk lookup]; [reflexivity|].
  destruct (Z.eqb_spec i k); [exact IH|]. cbn [lookup]. destruct (Z.eqb_spec i k); [congruence|exact IH].
Qed.

Lemma lookup_rmk_other {A} i j (l : list (Z * A)) : i <> j -> lookup i (rmk j l) = lookup i l.
Proof.
  intros N. induction l as [|[k v] l IH]; cbn [rmk lookup]; [reflexivity|].
  destruct (Z.eqb_spec j k) as [->|N2].
  - destruct (Z.eqb_spec i k); [congruence|exact IH].
  - cbn [lookup]. destruct (Z.eqb_spec i k); [reflexivity|exact IH].
Qed.

Lemma cnt_range_from x a n : cnt x (range_from a n) = if (a <=? x) && (x <? a + Z.of_nat n) then 1 else 0.
Proof.
  revert a. induction n as [|n IH]; intros a; cbn [range_from cnt].
  - destruct (Z.leb_spec a x); destruct (Z.ltb_spec x (a + Z.of_nat 0)); cbn; lia.
  - rewrite IH. destruct (Z.eqb_spec x a); destruct (Z.leb_spec a x); destruct (Z.leb_spec (a + 1) x);
      destruct (Z.ltb_spec x (a + 1 + Z.of_nat n)); destruct (Z.ltb_spec x (a + Z.of_nat (S n))); cbn; lia.
Qed.

Lemma cnt_In x l : In x l <-> 1 <= cnt x l.
Proof.
  induction l as [|y l IH]; cbn [In cnt]; [lia|]. pose proof (cnt_nonneg x l).
  destruct (Z.eqb_spec x y); split; intros; try lia; auto.
  - destruct H0; [congruence|]. apply IH in H0. lia.
  - right. apply IH. lia.
Qed.

Lemma cnt_le1_NoDup l : (forall x, cnt x l <= 1) -> NoDup l.
Proof.
  induction l as [|y l IH]; intros H; constructor.
  - intros I. apply cnt_In in I. specialize (H y). cbn [cnt] in H. rewrite Z.eqb_refl in H. lia.
  - apply IH. intros x. specialize (H x). cbn [cnt] in H. destruct (x =? y); lia.
Qed.

Lemma keys_map_tag {A B} (f : A -> B) (l : list (Z * A)) : keys (map (fun c => (fst c, f (snd c))) l) = keys l.
Proof. unfold keys. rewrite map_map. reflexivity. Qed.

Lemma keys_cons {A} k (v : A) l : keys ((k, v) :: l) = k :: keys l.
Proof. reflexivity. Qed.
Lemma keys_nil {A} : keys (@nil (Z * A)) = [].
Proof. reflexivity. Qed.
Lemma keys_app {A} (a b : list (Z * A)) : keys (a ++ b) = keys a ++ keys b.
Proof. unfold keys. apply map_app. Qed.
