(* Laws of the GENERATED varint_pack / varint_unpack (Gen/MarshalGen.v, regenerated from cassandra/marshal.py on
   every run) against the independent spec Model/JavaBigInteger.v, for ALL integers. *)
From Coq Require Import ZArith List Bool Lia ZifyBool.
From Verif Require Import PyBase JavaBigInteger MarshalGen BytesBE.
Import ListNotations.
Local Open Scope Z_scope.

(* ------------------------------------------------------------------ range of the spec's byte length *)
Lemma java_byteLength_range z :
  let L := java_byteLength z in 1 <= L /\ - 2 ^ (8 * L - 1) <= z < 2 ^ (8 * L - 1).
Proof.
  cbv zeta. unfold java_byteLength, java_bitLength.
  destruct (z <? 0) eqn:E.
  - pose proof (nbits_nonneg (- z - 1)) as Hb. set (b := nbits (- z - 1)) in *.
    assert (HL : b <= 8 * (b / 8 + 1) - 1) by (pose proof (Z.mod_pos_bound b 8); pose proof (Z.div_mod b 8); lia).
    assert (Hd : 0 <= b / 8) by (apply Z.div_pos; lia).
    split; [lia|].
    assert (Hlt : - z - 1 < 2 ^ b) by (apply nbits_lt_pow2; unfold b; lia).
    pose proof (pow2_le b (8 * (b / 8 + 1) - 1) ltac:(lia)).
    pose proof (pow2_pos (8 * (b / 8 + 1) - 1) ltac:(lia)). lia.
  - pose proof (nbits_nonneg z) as Hb. set (b := nbits z) in *.
    assert (HL : b <= 8 * (b / 8 + 1) - 1) by (pose proof (Z.mod_pos_bound b 8); pose proof (Z.div_mod b 8); lia).
    assert (Hd : 0 <= b / 8) by (apply Z.div_pos; lia).
    split; [lia|].
    assert (Hlt : z < 2 ^ b) by (apply nbits_lt_pow2; unfold b; lia).
    pose proof (pow2_le b (8 * (b / 8 + 1) - 1) ltac:(lia)).
    pose proof (pow2_pos (8 * (b / 8 + 1) - 1) ltac:(lia)). lia.
Qed.

(* minimality: one byte fewer does not hold z *)
Lemma java_byteLength_minimal z :
  let L := java_byteLength z in 1 < L -> ~ (- 2 ^ (8 * (L - 1) - 1) <= z < 2 ^ (8 * (L - 1) - 1)).
Proof.
  cbv zeta. unfold java_byteLength, java_bitLength. intros HL Hr.
  destruct (z <? 0) eqn:E.
  - set (b := nbits (- z - 1)) in *. pose proof (nbits_nonneg (- z - 1)) as Hb. fold b in Hb.
    assert (Hd : 1 <= b / 8) by lia.
    assert (Hle : nbits (- z - 1) <= 8 * (b / 8 + 1 - 1) - 1) by (apply nbits_lt_pow2; lia).
    fold b in Hle. pose proof (Z.mod_pos_bound b 8); pose proof (Z.div_mod b 8). lia.
  - set (b := nbits z) in *. pose proof (nbits_nonneg z) as Hb. fold b in Hb.
    assert (Hd : 1 <= b / 8) by lia.
    assert (Hle : nbits z <= 8 * (b / 8 + 1 - 1) - 1) by (apply nbits_lt_pow2; lia).
    fold b in Hle. pose proof (Z.mod_pos_bound b 8); pose proof (Z.div_mod b 8). lia.
Qed.

(* ------------------------------------------------------------------ decoding a sufficiently wide expansion *)
Lemma be_bytes_head n z : be_bytes (S n) z = (Z.shiftr z (8 * Z.of_nat n)) mod 256 :: be_bytes n z.
Proof. reflexivity. Qed.

(* the top byte of an L-byte two's-complement expansion tells the sign *)
Lemma top_byte_sign n z : - 2 ^ (8 * Z.of_nat n + 7) <= z < 2 ^ (8 * Z.of_nat n + 7) ->
  ((Z.shiftr z (8 * Z.of_nat n)) mod 256 <? 128) = (0 <=? z).
Proof.
  intros Hz. set (k := 8 * Z.of_nat n) in *. rewrite Z.shiftr_div_pow2 by lia.
  assert (Hp : 0 < 2 ^ k) by (apply pow2_pos; lia).
  assert (Hp7 : 2 ^ (k + 7) = 2 ^ k * 128) by (rewrite pow2_add by lia; reflexivity).
  rewrite Hp7 in Hz.
  pose proof (Z.div_mod z (2 ^ k) ltac:(lia)) as Hdm. pose proof (Z.mod_pos_bound z (2 ^ k) Hp) as Hm.
  set (q := z / 2 ^ k) in *. set (r := z mod 2 ^ k) in *.
  assert (Hq : -128 <= q < 128) by nia.
  destruct (0 <=? z) eqn:E.
  - assert (0 <= q) by nia. rewrite Z.mod_small by lia. lia.
  - assert (q < 0) by nia. replace q with ((q + 256) + (-1) * 256) by lia. rewrite Z.mod_add by lia.
    rewrite Z.mod_small by lia. lia.
Qed.

Lemma java_from_be_bytes n z : - 2 ^ (8 * Z.of_nat n + 7) <= z < 2 ^ (8 * Z.of_nat n + 7) ->
  java_fromByteArray (be_bytes (S n) z) = Some z.
Proof.
  intros Hz. rewrite be_bytes_head. unfold java_fromByteArray. rewrite <- be_bytes_head.
  rewrite top_byte_sign by assumption. rewrite be_unsigned_be_bytes, be_bytes_length.
  replace (8 * Z.of_nat (S n)) with (8 * Z.of_nat n + 7 + 1) by lia.
  assert (Hp : 0 < 2 ^ (8 * Z.of_nat n + 7)) by (apply pow2_pos; lia).
  assert (H2 : 2 ^ (8 * Z.of_nat n + 7 + 1) = 2 * 2 ^ (8 * Z.of_nat n + 7)) by (rewrite pow2_add by lia; change (2 ^ 1) with 2; lia).
  rewrite H2. f_equal. destruct (0 <=? z) eqn:E.
  - apply Z.mod_small. lia.
  - replace z with ((z + 2 * 2 ^ (8 * Z.of_nat n + 7)) + (-1) * (2 * 2 ^ (8 * Z.of_nat n + 7))) at 1 by lia.
    rewrite Z.mod_add by lia. rewrite Z.mod_small by lia. lia.
Qed.

(* the generated decoder computes new BigInteger(bytes) on every non-empty byte string *)
Lemma varint_unpack_java bs : bs <> [] -> Forall is_byte bs ->
  exists z, varint_unpack bs = Ok z /\ java_fromByteArray bs = Some z.
Proof.
  intros Hne Hb. destruct bs as [|b0 rest]; [congruence|].
  unfold varint_unpack, py_be_to_int. cbn [bind]. rewrite py_index_head. cbn [bind].
  inversion Hb as [|? ? Hb0 Hrest]; subst. unfold is_byte in Hb0.
  rewrite land_128 by assumption. unfold java_fromByteArray.
  rewrite py_be_acc_fold. fold (be_unsigned (b0 :: rest)).
  destruct (b0 <? 128) eqn:E; cbn [negb].
  - eexists. split; reflexivity.
  - eexists. split; [reflexivity|]. rewrite Z.shiftl_1_l. f_equal. f_equal. f_equal. lia.
Qed.

Lemma varint_unpack_empty : varint_unpack [] = Raise.
Proof. reflexivity. Qed.

(* ------------------------------------------------------------------ the byte-emitting while loop *)
(* both residual copies of `while big > 0` emit the little-endian bytes of big; k is the exact byte count *)
Definition exact_bytes (k : nat) (big : Z) : Prop :=
  0 <= big < 2 ^ (8 * Z.of_nat k) /\ (k <> O -> 2 ^ (8 * Z.of_nat k - 8) <= big).

Lemma exact_bytes_step k big : exact_bytes (S k) big -> 0 < big /\ exact_bytes k (Z.shiftr big 8).
Proof.
  intros [[H0 H1] H2]. specialize (H2 ltac:(discriminate)).
  replace (8 * Z.of_nat (S k) - 8) with (8 * Z.of_nat k) in H2 by lia.
  replace (8 * Z.of_nat (S k)) with (8 * Z.of_nat k + 8) in H1 by lia.
  rewrite pow2_add in H1 by lia. change (2 ^ 8) with 256 in H1.
  assert (Hp : 0 < 2 ^ (8 * Z.of_nat k)) by (apply pow2_pos; lia).
  split; [lia|]. rewrite shiftr_8. split.
  - split; [apply Z.div_pos; lia|]. apply Z.div_lt_upper_bound; lia.
  - intros Hk. destruct k as [|k]; [congruence|].
    replace (8 * Z.of_nat (S k)) with (8 * Z.of_nat (S k) - 8 + 8) in H2 by lia.
    rewrite pow2_add in H2 by lia. change (2 ^ 8) with 256 in H2.
    apply Z.div_le_lower_bound; lia.
Qed.

Lemma exact_bytes_exists big : 0 <= big -> exists k, exact_bytes k big /\ Z.of_nat k = (nbits big + 7) / 8.
Proof.
  intros H0. destruct (Z.eq_dec big 0) as [->|Hn].
  - exists O. split; [split; [cbn; lia|congruence]|reflexivity].
  - pose proof (nbits_spec big ltac:(lia)) as Hs. set (b := nbits big) in *.
    assert (Hb : 1 <= b) by (unfold b, nbits; destruct (big <=? 0) eqn:E; [lia|]; pose proof (Z.log2_nonneg big); lia).
    pose proof (Z.mod_pos_bound (b + 7) 8 ltac:(lia)) as Hm. pose proof (Z.div_mod (b + 7) 8 ltac:(lia)) as Hd.
    exists (Z.to_nat ((b + 7) / 8)).
    assert (Hq : 1 <= (b + 7) / 8) by lia.
    unfold exact_bytes. rewrite !Z2Nat.id by lia. split; [|reflexivity].
    split.
    + split; [lia|]. pose proof (pow2_le b (8 * ((b + 7) / 8)) ltac:(lia)). lia.
    + intros _. pose proof (pow2_le (8 * ((b + 7) / 8) - 8) (b - 1) ltac:(lia)). lia.
Qed.

Ltac loop_script IH :=
  let Hpos := fresh "Hpos" in let Hex := fresh "Hex" in
  match goal with
  | H : exact_bytes (S _) _ |- _ => destruct (exact_bytes_step _ _ H) as [Hpos Hex]
  end;
  match goal with |- context [?b >? 0] => destruct (b >? 0) eqn:?; [|lia] end;
  rewrite py_byte_check_ok by (rewrite land_255; apply mod256_range); cbn [bind];
  rewrite IH by (assumption || lia);
  rewrite be_bytes_snoc, rev_app_distr, land_255, <- app_assoc; reflexivity.

Lemma varint_loop1_spec : forall k fuel p bl acc big, exact_bytes k big -> (k < fuel)%nat ->
  varint_pack_loop1 fuel p bl acc big = Ok (acc ++ rev (be_bytes k big), 0).
Proof.
  induction k as [|k IH]; intros fuel p bl acc big Hex Hf; (destruct fuel as [|fuel]; [lia|]); cbn [varint_pack_loop1].
  - destruct Hex as [[H0 H1] _]. change (2 ^ (8 * Z.of_nat 0)) with 1 in H1. assert (big = 0) by lia. subst.
    cbn. rewrite app_nil_r. reflexivity.
  - loop_script IH.
Qed.

Lemma varint_loop2_spec : forall k fuel p acc big, exact_bytes k big -> (k < fuel)%nat ->
  varint_pack_loop2 fuel p acc big = Ok (acc ++ rev (be_bytes k big), 0).
Proof.
  induction k as [|k IH]; intros fuel p acc big Hex Hf; (destruct fuel as [|fuel]; [lia|]); cbn [varint_pack_loop2].
  - destruct Hex as [[H0 H1] _]. change (2 ^ (8 * Z.of_nat 0)) with 1 in H1. assert (big = 0) by lia. subst.
    cbn. rewrite app_nil_r. reflexivity.
  - loop_script IH.
Qed.

(* enough fuel: the spec's fuel expression dominates the byte count *)
Lemma fuel_enough k big : 0 <= big -> Z.of_nat k = (nbits big + 7) / 8 ->
  (k < S (Z.to_nat (Z.log2 (Z.abs big) + 9)))%nat.
Proof.
  intros H0 Hk. rewrite Z.abs_eq by lia. pose proof (Z.log2_nonneg big) as Hl.
  assert (nbits big <= Z.log2 big + 1) by (unfold nbits; destruct (big <=? 0); lia).
  pose proof (nbits_nonneg big).
  assert ((nbits big + 7) / 8 <= Z.log2 big + 8).
  { apply Z.div_le_upper_bound; lia. }
  lia.
Qed.

(* ------------------------------------------------------------------ varint_pack = BigInteger.toByteArray *)
Lemma varint_pack_spec z : varint_pack z = Ok (java_toByteArray z).
Proof.
  unfold varint_pack. cbv zeta.
  destruct (z =? 0) eqn:E0.
  { assert (z = 0) by lia. subst. reflexivity. }
  destruct (z <? 0) eqn:Eneg.
  - (* negative: add 2^(8L), emit exactly L bytes *)
    unfold bit_length. rewrite py_bit_length_nbits.
    assert (Habs : Z.abs (Z.abs z - 1) = - z - 1) by lia. rewrite Habs.
    pose proof (java_byteLength_range z) as HR. cbv zeta in HR.
    unfold java_toByteArray.
    assert (HLeq : java_byteLength z = nbits (- z - 1) / 8 + 1).
    { unfold java_byteLength, java_bitLength. rewrite Eneg. reflexivity. }
    rewrite <- HLeq. set (L := java_byteLength z) in *. destruct HR as [HL1 Hrange].
    rewrite Z.shiftl_1_l. replace (L * 8) with (8 * L) by lia.
    set (big := 2 ^ (8 * L) + z).
    assert (H2 : 2 ^ (8 * L) = 2 * 2 ^ (8 * L - 1)).
    { replace (8 * L) with (1 + (8 * L - 1)) at 1 by lia. rewrite pow2_add by lia. reflexivity. }
    assert (Hp : 0 < 2 ^ (8 * L - 1)) by (apply pow2_pos; lia).
    assert (Hex : exact_bytes (Z.to_nat L) big).
    { unfold exact_bytes. rewrite Z2Nat.id by lia. unfold big. split; [lia|]. intros _.
      pose proof (pow2_le (8 * L - 8) (8 * L - 1) ltac:(lia)). lia. }
    rewrite (varint_loop1_spec (Z.to_nat L)); [| exact Hex |].
    2:{ assert (Hbig : 0 < big) by (unfold big; lia).
        assert (Hlog : 8 * L - 1 <= Z.log2 big).
        { apply Z.log2_le_pow2; [lia|]. unfold big. lia. }
        rewrite Z.abs_eq by lia. lia. }
    cbn [bind app]. rewrite rev_involutive. f_equal.
    unfold big. replace (2 ^ (8 * L) + z) with (z + 1 * 2 ^ (8 * Z.of_nat (Z.to_nat L))) by (rewrite Z2Nat.id by lia; lia).
    apply be_bytes_add_pow.
  - (* positive: minimal unsigned bytes, plus a zero byte when the top bit is set *)
    assert (Hz : 0 < z) by lia.
    destruct (exact_bytes_exists z ltac:(lia)) as (k & Hex & Hk).
    rewrite (varint_loop2_spec k); [| exact Hex | apply fuel_enough; [lia|exact Hk]].
    cbn [bind app].
    destruct k as [|k].
    { destruct Hex as [[_ H1] _]. change (2 ^ (8 * Z.of_nat 0)) with 1 in H1. lia. }
    rewrite be_bytes_head. cbn [rev]. rewrite py_index_last. cbn [bind].
    set (t := Z.shiftr z (8 * Z.of_nat k) mod 256).
    rewrite land_128 by (unfold t; apply mod256_range).
    destruct Hex as [[_ Hhi] Hlo]. specialize (Hlo ltac:(discriminate)).
    replace (8 * Z.of_nat (S k) - 8) with (8 * Z.of_nat k) in Hlo by lia.
    replace (8 * Z.of_nat (S k)) with (8 * Z.of_nat k + 8) in Hhi by lia.
    assert (Hp : 0 < 2 ^ (8 * Z.of_nat k)) by (apply pow2_pos; lia).
    assert (Ht : t = z / 2 ^ (8 * Z.of_nat k)).
    { unfold t. rewrite Z.shiftr_div_pow2 by lia. apply Z.mod_small.
      rewrite pow2_add in Hhi by lia. change (2 ^ 8) with 256 in Hhi.
      split; [apply Z.div_pos; lia|apply Z.div_lt_upper_bound; lia]. }
    assert (H7 : 2 ^ (8 * Z.of_nat k + 7) = 2 ^ (8 * Z.of_nat k) * 128) by (rewrite pow2_add by lia; reflexivity).
    unfold java_toByteArray.
    assert (HLeq : java_byteLength z = nbits z / 8 + 1).
    { unfold java_byteLength, java_bitLength. rewrite Eneg. reflexivity. }
    destruct (t <? 128) eqn:Et; cbn [negb].
    + (* top bit clear: L = k + 1 *)
      assert (Hlt : z < 2 ^ (8 * Z.of_nat k + 7)).
      { rewrite H7. rewrite Ht in Et. apply Z.ltb_lt in Et.
        pose proof (Z.div_mod z (2 ^ (8 * Z.of_nat k)) ltac:(lia)). pose proof (Z.mod_pos_bound z (2 ^ (8 * Z.of_nat k)) Hp). nia. }
      assert (Hb1 : nbits z <= 8 * Z.of_nat k + 7) by (apply nbits_lt_pow2; lia).
      assert (Hb2 : 8 * Z.of_nat k < nbits z).
      { destruct (Z_lt_dec (8 * Z.of_nat k) (nbits z)); [assumption|exfalso].
        assert (z < 2 ^ (8 * Z.of_nat k)) by (apply nbits_lt_pow2; lia). lia. }
      assert (HL : java_byteLength z = Z.of_nat (S k)).
      { rewrite HLeq. pose proof (Z.div_mod (nbits z) 8 ltac:(lia)). pose proof (Z.mod_pos_bound (nbits z) 8 ltac:(lia)). lia. }
      rewrite HL, Nat2Z.id. rewrite rev_app_distr, rev_involutive. cbn [rev app].
      rewrite be_bytes_head. reflexivity.
    + (* top bit set: a zero byte is prepended, L = k + 2 *)
      rewrite py_byte_check_ok by lia. cbn [bind].
      assert (Hge : 2 ^ (8 * Z.of_nat k + 7) <= z).
      { rewrite H7. rewrite Ht in Et. apply Z.ltb_ge in Et.
        pose proof (Z.div_mod z (2 ^ (8 * Z.of_nat k)) ltac:(lia)). pose proof (Z.mod_pos_bound z (2 ^ (8 * Z.of_nat k)) Hp). nia. }
      assert (Hb1 : nbits z <= 8 * Z.of_nat k + 8) by (apply nbits_lt_pow2; lia).
      assert (Hb2 : 8 * Z.of_nat k + 7 < nbits z).
      { destruct (Z_lt_dec (8 * Z.of_nat k + 7) (nbits z)); [assumption|exfalso].
        assert (z < 2 ^ (8 * Z.of_nat k + 7)) by (apply nbits_lt_pow2; lia). lia. }
      assert (HL : java_byteLength z = Z.of_nat (S (S k))).
      { rewrite HLeq. replace (nbits z) with (8 * Z.of_nat k + 8) by lia.
        replace (8 * Z.of_nat k + 8) with ((Z.of_nat k + 1) * 8) by lia. rewrite Z.div_mul by lia. lia. }
      rewrite HL, Nat2Z.id. rewrite (be_bytes_head (S k)).
      assert (Htop : Z.shiftr z (8 * Z.of_nat (S k)) mod 256 = 0).
      { rewrite Z.shiftr_div_pow2 by lia. replace (8 * Z.of_nat (S k)) with (8 * Z.of_nat k + 8) by lia.
        rewrite Z.div_small by lia. reflexivity. }
      rewrite Htop. rewrite be_bytes_head. fold t.
      rewrite !rev_app_distr. cbn [rev app]. rewrite rev_involutive. reflexivity.
Qed.

(* ------------------------------------------------------------------ (a) the varint theorem *)
Lemma java_toByteArray_shape z : exists n, java_toByteArray z = be_bytes (S n) z /\
  - 2 ^ (8 * Z.of_nat n + 7) <= z < 2 ^ (8 * Z.of_nat n + 7).
Proof.
  pose proof (java_byteLength_range z) as HR. cbv zeta in HR. destruct HR as [H1 Hr].
  exists (Z.to_nat (java_byteLength z - 1)). unfold java_toByteArray. split.
  - f_equal. lia.
  - rewrite Z2Nat.id by lia. replace (8 * (java_byteLength z - 1) + 7) with (8 * java_byteLength z - 1) by lia. exact Hr.
Qed.

Theorem varint_roundtrip_spec : forall z : Z,
  exists bs, varint_pack z = Ok bs /\ bs = java_toByteArray z /\ Forall is_byte bs /\ bs <> [] /\
             varint_unpack bs = Ok z /\ java_fromByteArray bs = Some z.
Proof.
  intros z. exists (java_toByteArray z). split; [apply varint_pack_spec|]. split; [reflexivity|].
  destruct (java_toByteArray_shape z) as (n & Hs & Hr). rewrite Hs.
  assert (Hb : Forall is_byte (be_bytes (S n) z)) by apply be_bytes_bytes.
  assert (Hne : be_bytes (S n) z <> []) by (rewrite be_bytes_head; discriminate).
  split; [exact Hb|]. split; [exact Hne|].
  pose proof (java_from_be_bytes n z Hr) as Hj.
  destruct (varint_unpack_java _ Hne Hb) as (z' & Hu & Hj'). rewrite Hj in Hj'. inversion Hj'; subst z'.
  split; assumption.
Qed.

Corollary varint_pack_never_fails z : varint_pack z <> Raise /\ varint_pack z <> Fuel.
Proof. rewrite varint_pack_spec. split; discriminate. Qed.

(* minimality of the encoding, from the spec: no shorter non-empty two's-complement string denotes z *)
Theorem varint_pack_minimal z bs : Forall is_byte bs -> java_fromByteArray bs = Some z ->
  (length (java_toByteArray z) <= length bs)%nat.
Proof.
  intros Hb Hj. unfold java_toByteArray. rewrite be_bytes_length.
  destruct bs as [|b0 rest]; [discriminate|].
  pose proof (java_byteLength_range z) as HR. cbv zeta in HR. destruct HR as [H1 _].
  destruct (Z_le_dec (java_byteLength z) (Z.of_nat (length (b0 :: rest)))) as [|Hgt]; [lia|exfalso].
  assert (HL : 1 < java_byteLength z) by (cbn [length] in *; lia).
  apply (java_byteLength_minimal z HL).
  (* z is denoted by length bs bytes, so it lies in the range of that many bytes *)
  set (n := length (b0 :: rest)) in *.
  assert (Hu : 0 <= be_unsigned (b0 :: rest) < 2 ^ (8 * Z.of_nat n)).
  { unfold be_unsigned, n. clear -Hb. generalize (b0 :: rest) Hb. intros l Hl.
    assert (G : forall a, 0 <= a -> 0 <= fold_left (fun acc b => acc * 256 + b) l a < (a + 1) * 2 ^ (8 * Z.of_nat (length l))).
    { induction Hl as [|x l Hx Hl IH]; intros a Ha.
      - cbn. lia.
      - cbn [fold_left length]. unfold is_byte in Hx. specialize (IH (a * 256 + x) ltac:(lia)).
        replace (8 * Z.of_nat (S (length l))) with (8 + 8 * Z.of_nat (length l)) by lia.
        rewrite pow2_add by lia. change (2 ^ 8) with 256.
        pose proof (pow2_pos (8 * Z.of_nat (length l)) ltac:(lia)). nia. }
    specialize (G 0 ltac:(lia)). lia. }
  assert (Htop : (b0 <? 128) = true -> be_unsigned (b0 :: rest) < 2 ^ (8 * Z.of_nat n - 1)).
  { intros Hlt. unfold be_unsigned. cbn [fold_left]. change (0 * 256 + b0) with b0.
    inversion Hb as [|? ? Hb0 Hrest]; subst. clear -Hlt Hrest Hb0.
    assert (G : forall l a, Forall is_byte l -> 0 <= a -> fold_left (fun acc b => acc * 256 + b) l a < (a + 1) * 2 ^ (8 * Z.of_nat (length l))).
    { induction l as [|x l IH]; intros a Hl Ha.
      - cbn. lia.
      - inversion Hl as [|? ? Hx Hl']; subst. cbn [fold_left length]. unfold is_byte in Hx.
        specialize (IH (a * 256 + x) Hl' ltac:(lia)).
        replace (8 * Z.of_nat (S (length l))) with (8 + 8 * Z.of_nat (length l)) by lia.
        rewrite pow2_add by lia. change (2 ^ 8) with 256.
        pose proof (pow2_pos (8 * Z.of_nat (length l)) ltac:(lia)). nia. }
    unfold is_byte in Hb0. specialize (G rest b0 Hrest ltac:(lia)). unfold n. cbn [length].
    replace (8 * Z.of_nat (S (length rest)) - 1) with (7 + 8 * Z.of_nat (length rest)) by lia.
    rewrite pow2_add by lia. change (2 ^ 7) with 128.
    pose proof (pow2_pos (8 * Z.of_nat (length rest)) ltac:(lia)). nia. }
  assert (Htop2 : (b0 <? 128) = false -> 2 ^ (8 * Z.of_nat n - 1) <= be_unsigned (b0 :: rest)).
  { intros Hge. unfold be_unsigned. cbn [fold_left]. change (0 * 256 + b0) with b0.
    inversion Hb as [|? ? Hb0 Hrest]; subst. clear -Hge Hrest Hb0.
    assert (G : forall l a, Forall is_byte l -> 0 <= a -> a * 2 ^ (8 * Z.of_nat (length l)) <= fold_left (fun acc b => acc * 256 + b) l a).
    { induction l as [|x l IH]; intros a Hl Ha.
      - cbn. lia.
      - inversion Hl as [|? ? Hx Hl']; subst. cbn [fold_left length]. unfold is_byte in Hx.
        specialize (IH (a * 256 + x) Hl' ltac:(lia)).
        replace (8 * Z.of_nat (S (length l))) with (8 + 8 * Z.of_nat (length l)) by lia.
        rewrite pow2_add by lia. change (2 ^ 8) with 256.
        pose proof (pow2_pos (8 * Z.of_nat (length l)) ltac:(lia)). nia. }
    unfold is_byte in Hb0. specialize (G rest b0 Hrest ltac:(lia)). unfold n. cbn [length].
    replace (8 * Z.of_nat (S (length rest)) - 1) with (7 + 8 * Z.of_nat (length rest)) by lia.
    rewrite pow2_add by lia. change (2 ^ 7) with 128.
    pose proof (pow2_pos (8 * Z.of_nat (length rest)) ltac:(lia)). nia. }
  unfold java_fromByteArray in Hj. fold n in Hj.
  assert (H2 : 2 ^ (8 * Z.of_nat n) = 2 * 2 ^ (8 * Z.of_nat n - 1)).
  { replace (8 * Z.of_nat n) with (1 + (8 * Z.of_nat n - 1)) at 1 by lia. rewrite pow2_add by (unfold n; cbn [length]; lia). reflexivity. }
  assert (Hmono : 2 ^ (8 * Z.of_nat n - 1) <= 2 ^ (8 * (java_byteLength z - 1) - 1)).
  { apply pow2_le. unfold n in *. cbn [length] in *. lia. }
  assert (Hpp : 0 < 2 ^ (8 * Z.of_nat n - 1)) by (apply pow2_pos; unfold n; cbn [length]; lia).
  apply (f_equal (fun o => match o with Some v => v | None => 0 end)) in Hj. cbv beta iota in Hj.
  destruct (b0 <? 128) eqn:E.
  - specialize (Htop eq_refl). lia.
  - specialize (Htop2 eq_refl). lia.
Qed.
