(* C26: the end-to-end lemmas behind Props/C26.v. *)
From Coq Require Import ZArith List Bool Lia.
From Verif Require Import RingBase Ring PlacementSpec C26_lists C26_lookup C26_impl C26_sim C26_spec.
Import ListNotations.
Local Open Scope Z_scope.

(* the ring that refutes the statement for the code before the fix:
   hosts 1,2,4 in rack 1, host 3 in rack 2, one dc; host 2 owns two consecutive tokens *)
Definition witness_loc : topo_t := topo_of [(1,(0,1)); (2,(0,1)); (3,(0,2)); (4,(0,1))].
Definition witness_ring : ring_t := [(0,1); (10,2); (20,2); (30,3); (40,4)].

Lemma NoDup_app_intro : forall (a b : list Z), NoDup a -> NoDup b -> (forall x, In x a -> ~ In x b) -> NoDup (a ++ b).
Proof.
  induction a as [|x a IH]; intros b Ha Hb Hd; cbn [app]; [assumption|].
  inversion Ha as [|? ? Hx Ha']; subst. constructor.
  - rewrite in_app_iff. intros [H|H]; [contradiction | apply (Hd x); [left; reflexivity | assumption]].
  - apply IH; try assumption. intros y Hy. apply Hd. right. assumption.
Qed.

Lemma NoDup_concat_keys : forall (f : Z -> list Z) (key : Z -> Z) ds, NoDup ds ->
  (forall d, NoDup (f d)) -> (forall d h, In h (f d) -> key h = d) -> NoDup (concat (map f ds)).
Proof.
  induction ds as [|d ds IH]; intros Hn Hf Hk; cbn [map concat]; [constructor|].
  inversion Hn as [|? ? Hd Hn']; subst. apply NoDup_app_intro; [apply Hf | apply IH; assumption |].
  intros x Hx Hin. apply in_concat in Hin. destruct Hin as [l [Hl Hxl]]. apply in_map_iff in Hl.
  destruct Hl as [d' [E Hd']]. subst l. apply Hk in Hx. apply Hk in Hxl. congruence.
Qed.

Lemma dedup_map_dedup_len : forall (f : Z -> Z) l, lenZ (dedup (map f (dedup l))) = lenZ (dedup (map f l)).
Proof.
  intros. unfold lenZ. f_equal. apply NoDup_same_length; try apply dedup_NoDup.
  intros x. rewrite !dedup_In, !in_map_iff. split; intros [y [E Hy]]; exists y; (split; [assumption|]); apply dedup_In; assumption.
Qed.

Lemma visit_idle : forall loc rf N K l, 0 <= N -> rf <= 0 -> fold_left (dc_visit loc rf N K) l ds0 = ds0.
Proof.
  intros loc rf N K l HN Hrf. induction l as [|h l IH]; [reflexivity|]. cbn [fold_left].
  replace (dc_visit loc rf N K ds0 h) with ds0; [assumption|].
  unfold dc_visit. replace (suff rf N (dc_replicas ds0)) with true; [reflexivity|].
  symmetry. unfold suff. apply Z.leb_le. cbn. lia.
Qed.

Section Glue.
  Variable loc : topo_t.
  Variable rfs : list (Z * Z).
  Variable ring : ring_t.
  Let hs := map snd ring.

  Definition nodes_of (d : Z) : list Z := dedup (hosts_in_dc loc d hs).
  Definition racks_of (d : Z) : list Z := dedup (map (rack_of loc) (hosts_in_dc loc d hs)).

  Lemma nodes_of_In : forall d h, In h (nodes_of d) <-> In h hs /\ dc_of loc h = d.
  Proof. intros. unfold nodes_of, hosts_in_dc. rewrite dedup_In, filter_In, Z.eqb_eq. reflexivity. Qed.

  (* one datacenter: the driver's pass = Cassandra's pass *)
  Lemma pass_eq : forall d r k, 0 <= r ->
    dc_pass loc hs d r [] k =
      dc_replicas (fold_left (dc_visit loc r (num_hosts loc d hs) (num_racks loc d hs)) (filter (in_dc loc d) (rot k hs)) ds0)
    /\ NoDup (dc_pass loc hs d r [] k) /\ incl (dc_pass loc hs d r [] k) (nodes_of d).
  Proof.
    intros d r k Hr.
    destruct (pass_sim loc (nodes_of d) (racks_of d) r (num_hosts loc d hs) (num_racks loc d hs) eq_refl eq_refl) with (l := filter (in_dc loc d) (rot k hs))
      as [E [Hnd Hin]].
    - intros h Hh. unfold racks_of. apply dedup_In. apply in_map. unfold nodes_of in Hh. apply (proj1 (dedup_In _ _)) in Hh. assumption.
    - assumption.
    - intros h Hh. apply filter_In in Hh. destruct Hh as [Hh Hd]. apply nodes_of_In. split; [apply (rot_In k hs); assumption | apply Z.eqb_eq; assumption].
    - unfold dc_pass, dc_step, st0. rewrite E. repeat split; assumption.
  Qed.

  Lemma dc_rf_some : forall d r, dc_rf rfs d = Some r <-> assoc d rfs = Some r /\ 0 < r.
  Proof.
    intros. unfold dc_rf. destruct (assoc d rfs) as [r'|]; [|split; [discriminate | intros [H _]; discriminate]].
    destruct (0 <? r') eqn:E.
    - apply Z.ltb_lt in E. split; [intros H; inversion H; subst; split; [reflexivity | assumption] | intros [H _]; assumption].
    - apply Z.ltb_ge in E. split; [discriminate | intros [H Hr]; inversion H; subst; lia].
  Qed.

  Lemma pass_of_in_dc : forall k d h, In h (pass_of loc rfs hs k d) -> dc_of loc h = d.
  Proof.
    intros k d h Hin. unfold pass_of in Hin. destruct (dc_rf rfs d) as [r|] eqn:E; [|contradiction].
    apply dc_rf_some in E. destruct (pass_eq d r k ltac:(lia)) as [_ [_ Hincl]]. apply Hincl, nodes_of_In in Hin. tauto.
  Qed.

  Lemma pass_of_NoDup : forall k d, NoDup (pass_of loc rfs hs k d).
  Proof.
    intros. unfold pass_of. destruct (dc_rf rfs d) as [r|] eqn:E; [|constructor].
    apply dc_rf_some in E. apply (pass_eq d r k ltac:(lia)).
  Qed.

  Lemma Kd_num_racks : forall d, Kd loc ring d = num_racks loc d hs.
  Proof. intros. unfold Kd, dc_rack_names, dc_endpoints, num_racks, hosts_in_dc. apply dedup_map_dedup_len. Qed.

  Lemma row_correct : forall t, strictly_sorted (map fst ring) = true ->
    let k := idx_of (map fst ring) t in
    NoDup (pure_row loc rfs hs k) /\ forall h, In h (pure_row loc rfs hs k) <-> In h (nts_spec loc rfs ring t).
  Proof.
    intros t Hs k. rewrite (pure_row_concat loc rfs hs pass_of_in_dc). split.
    - apply NoDup_concat_keys with (key := dc_of loc); [apply dedup_NoDup | apply pass_of_NoDup | apply pass_of_in_dc].
    - intros h. rewrite nts_spec_In. unfold ring_iterator. rewrite map_rot, first_token_index_idx by assumption.
      fold hs. fold k. unfold visit_d. rewrite Kd_num_racks.
      change (Nd loc ring (dc_of loc h)) with (num_hosts loc (dc_of loc h) hs).
      change (fun x : Z => dc_of loc x =? dc_of loc h) with (in_dc loc (dc_of loc h)).
      rewrite in_concat. split.
      + intros [l [Hl Hin]]. apply in_map_iff in Hl. destruct Hl as [d [E Hd]]. subst l.
        pose proof (pass_of_in_dc _ _ _ Hin) as Hdc. subst d.
        unfold pass_of in Hin. destruct (dc_rf rfs (dc_of loc h)) as [r|] eqn:Er; [|contradiction].
        apply dc_rf_some in Er. destruct Er as [Ea Hr]. rewrite Ea.
        destruct (pass_eq (dc_of loc h) r k ltac:(lia)) as [E _]. rewrite <- E. assumption.
      + destruct (assoc (dc_of loc h) rfs) as [r|] eqn:Ea; [|contradiction]. intros Hin.
        destruct (Z_lt_le_dec 0 r) as [Hr|Hr].
        * assert (Er : dc_rf rfs (dc_of loc h) = Some r) by (apply dc_rf_some; split; assumption).
          destruct (pass_eq (dc_of loc h) r k ltac:(lia)) as [E [_ Hincl]].
          assert (Hp : In h (pass_of loc rfs hs k (dc_of loc h))) by (unfold pass_of; rewrite Er, E; assumption).
          exists (pass_of loc rfs hs k (dc_of loc h)). split; [|assumption].
          apply in_map. unfold dc_keys. apply dedup_In. apply in_map.
          unfold pass_of in Hp. rewrite Er in Hp. apply Hincl, nodes_of_In in Hp. tauto.
        * rewrite visit_idle in Hin; [contradiction | apply lenZ_nonneg | assumption].
  Qed.

End Glue.

Lemma nts_correct : forall loc rfs ring t, strictly_sorted (map fst ring) = true ->
  NoDup (driver_replicas loc (NTS rfs) ring t) /\
  forall h, In h (driver_replicas loc (NTS rfs) ring t) <-> In h (nts_spec loc rfs ring t).
Proof.
  intros loc rfs ring t Hs. unfold driver_replicas, replica_map.
  rewrite (nts_map_rows loc rfs (map snd ring) ring eq_refl).
  rewrite get_replicas_row by (assumption || (rewrite !map_length, seq_length; reflexivity)).
  destruct ring as [|e ring'] eqn:Er.
  - cbn. destruct (idx_of [] t); cbn; split; try constructor; tauto.
  - rewrite <- Er in *. rewrite nth_map_seq.
    + apply row_correct. assumption.
    + rewrite <- (map_length fst ring). apply idx_of_lt. rewrite Er. discriminate.
Qed.


(* ---- the token-range lookup *)
Lemma bisect_range : forall loc s ring t, strictly_sorted (map fst ring) = true ->
  driver_replicas loc s ring t =
  driver_replicas loc s ring (match find (fun tk => t <=? tk) (map fst ring) with Some tk => tk | None => hd 0 (map fst ring) end).
Proof.
  intros loc s ring t Hs. unfold driver_replicas. rewrite !get_replicas_idx by assumption.
  rewrite <- idx_of_range_owner by assumption. reflexivity.
Qed.

Lemma nts_rows_length : forall dd loc rfs hs todo cur, length (nts_rows dd loc rfs hs todo cur) = length todo.
Proof.
  induction todo as [|i todo IH]; intros cur; cbn [nts_rows length]; [reflexivity|].
  destruct (fold_left (nts_dc dd loc rfs hs i) (dc_keys loc hs) (cur, [])) as [cur' reps]. cbn [length]. rewrite IH. reflexivity.
Qed.

(* the value stored in the replica map under ring token number k is what a lookup of exactly that token returns *)
Lemma map_lookup : forall loc s ring k, strictly_sorted (map fst ring) = true -> (k < length ring)%nat ->
  assoc (nth k (map fst ring) 0) (replica_map true loc s ring) = Some (driver_replicas loc s ring (nth k (map fst ring) 0)).
Proof.
  intros loc s ring k Hs Hk.
  assert (Hrm : exists rows, replica_map true loc s ring = combine (map fst ring) rows /\ length rows = length (map fst ring)).
  { destruct s as [rf|rfs]; cbn [replica_map].
    - eexists. split; [apply simple_map_combine | rewrite !map_length, seq_length; reflexivity].
    - eexists. split; [reflexivity | rewrite nts_rows_length, seq_length, map_length; reflexivity]. }
  destruct Hrm as [rows [E Hl]]. unfold driver_replicas. rewrite E.
  rewrite get_replicas_row by assumption.
  rewrite assoc_combine with (dv := @nil Z); [| apply strictly_sorted_NoDup; assumption | assumption | rewrite map_length; assumption].
  f_equal. f_equal.
  (* idx_of toks (nth k toks) = k *)
  unfold idx_of. set (toks := map fst ring) in *.
  assert (Hc : lt_count toks (nth k toks 0) = k) by (apply lt_count_nth; [assumption | unfold toks; rewrite map_length; assumption]).
  rewrite Hc. replace (Nat.eqb k (length toks)) with false; [reflexivity|].
  symmetry. apply Nat.eqb_neq. unfold toks. rewrite map_length. lia.
Qed.

Lemma simple_walk_NoDup : forall rf l acc, NoDup acc -> NoDup (simple_walk rf l acc).
Proof.
  induction l as [|h l IH]; intros acc Hn; cbn [simple_walk]; [assumption|].
  destruct (lenZ acc <? rf); [apply IH, set_add_NoDup; assumption | assumption].
Qed.

Definition placement_of (s : strategy) : placement :=
  match s with Simple rf => SimpleStrategy rf | NTS rfs => NetworkTopologyStrategy rfs end.

Lemma replicas_correct : forall loc s ring t, strictly_sorted (map fst ring) = true ->
  NoDup (driver_replicas loc s ring t) /\
  forall h, In h (driver_replicas loc s ring t) <-> In h (natural_endpoints loc (placement_of s) ring t).
Proof.
  intros loc [rf|rfs] ring t Hs; cbn [placement_of natural_endpoints].
  - rewrite simple_correct by assumption. split; [|tauto]. unfold simple_spec. apply simple_walk_NoDup. constructor.
  - apply nts_correct. assumption.
Qed.

Lemma key_correct : forall loc s ring h, strictly_sorted (map fst ring) = true ->
  NoDup (driver_replicas_for_hash loc s ring h) /\
  forall x, In x (driver_replicas_for_hash loc s ring h) <-> In x (natural_endpoints_for_hash loc (placement_of s) ring h).
Proof.
  intros loc s ring h Hs. unfold driver_replicas_for_hash, natural_endpoints_for_hash.
  assert (E : murmur3_token h = normalize h).
  { unfold murmur3_token, normalize. change MIN_LONG with Long_MIN_VALUE. change MAX_LONG with Long_MAX_VALUE.
    destruct (h =? Long_MIN_VALUE); reflexivity. }
  rewrite E. apply replicas_correct. assumption.
Qed.
