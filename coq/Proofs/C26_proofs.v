(* C26 lemmas. *)
From Coq Require Import ZArith List Bool Lia.
From Verif Require Import RingBase Ring PlacementSpec.
Import ListNotations.
Local Open Scope Z_scope.

(* the ring that refutes the statement for the code before the fix:
   hosts 1,2,4 in rack 1, host 3 in rack 2, one dc; host 2 owns two consecutive tokens *)
Definition witness_loc : topo_t := topo_of [(1,(0,1)); (2,(0,1)); (3,(0,2)); (4,(0,1))].
Definition witness_ring : ring_t := [(0,1); (10,2); (20,2); (30,3); (40,4)].
