(* Invariants of Model/PoolV2.v (HostConnectionPool, protocol v1/v2) *)
From Coq Require Import ZArith List Bool Lia Arith.
From Verif Require Import Pool Pool_base C12_proofs PoolV2.
Import ListNotations.
Local Open Scope Z_scope.

Lemma lget_lupd s c f x : lget (lupd s c f) x = if Nat.eqb x c && lvalid s x then f (lget s x) else lget s x.
Proof. unfold lget, lupd, lvalid; simpl. apply nth_upd. Qed.

Lemma lvalid_lt s c : lvalid s c = true <-> (c < length (lconns s))%nat.
Proof. unfold lvalid. apply Nat.ltb_lt. Qed.

Definition lsame_but_closed (a b : lconn) : Prop :=
  l_inflight b = l_inflight a /\ l_orph b = l_orph a /\ l_defunct b = l_defunct a /\ l_signaled b = l_signaled a /\
  l_live b = l_live a /\ (l_closed a = true -> l_closed b = true).

Lemma lclose_all_length l cs : length (lclose_all l cs) = length cs.
Proof. unfold lclose_all. revert cs; induction l as [|c l IH]; intros cs; simpl; [reflexivity|]. rewrite IH. apply length_upd. Qed.

Lemma lclose_all_nth l cs x :
  lsame_but_closed (nth x cs new_lconn) (nth x (lclose_all l cs) new_lconn) /\
  (In x l -> (x < length cs)%nat -> l_closed (nth x (lclose_all l cs) new_lconn) = true).
Proof.
  unfold lclose_all. revert cs; induction l as [|c l IH]; intros cs; simpl.
  - split; [unfold lsame_but_closed; tauto|tauto].
  - destruct (IH (upd c j_close cs)) as [H1 H2]. rewrite length_upd in H2.
    assert (E := nth_upd c x j_close cs new_lconn).
    split.
    + unfold lsame_but_closed in *. rewrite E in H1.
      destruct (Nat.eqb x c && Nat.ltb x (length cs)); simpl in H1; intuition congruence.
    + intros [->|Hin] Hlt; [|auto].
      destruct H1 as (_&_&_&_&_&H1). apply H1. rewrite E.
      rewrite Nat.eqb_refl. apply Nat.ltb_lt in Hlt. rewrite Hlt. reflexivity.
Qed.

(* ------------------------------------------------------------------ A. accounting *)
Definition lcok (mx : Z) (k : lconn) : Prop :=
  0 <= l_live k /\ 0 <= l_orph k /\ l_inflight k = l_live k + l_orph k /\ l_inflight k <= mx /\ (l_defunct k = true -> l_closed k = true).

Definition LInvA (s : lstate) : Prop := 0 <= lmaxid s /\ forall c, lcok (lmaxid s) (lget s c).

Lemma lcok_new mx : 0 <= mx -> lcok mx new_lconn.
Proof. unfold lcok; simpl; intuition lia. Qed.

Ltac lbool_hyps :=
  repeat match goal with
  | H : _ && _ = true |- _ => apply andb_prop in H; destruct H
  | H : negb _ = true |- _ => apply negb_true_iff in H
  | H : (_ <? _) = true |- _ => apply Z.ltb_lt in H
  | H : (_ <? _) = false |- _ => apply Z.ltb_ge in H
  | H : (_ =? _) = true |- _ => apply Z.eqb_eq in H
  | H : (_ =? _) = false |- _ => apply Z.eqb_neq in H
  | H : (_ <=? _) = true |- _ => apply Z.leb_le in H
  | H : (_ <=? _) = false |- _ => apply Z.leb_gt in H
  | H : lvalid _ _ = true |- _ => apply lvalid_lt in H
  | H : mem _ _ = true |- _ => apply mem_In in H
  end.

Lemma LInvA_lupd s c f :
  LInvA s -> (forall k, lcok (lmaxid s) k -> k = lget s c -> lcok (lmaxid s) (f k)) -> LInvA (lupd s c f).
Proof.
  intros [Hm H] Hf. split; [exact Hm|]. intros x. rewrite lget_lupd.
  destruct (Nat.eqb x c && lvalid s x) eqn:E; [|apply H].
  apply andb_prop in E. destruct E as [E _]. apply Nat.eqb_eq in E. subst x. apply Hf; [apply H|reflexivity].
Qed.

Lemma LInvA_same s s' : lconns s' = lconns s -> lmaxid s' = lmaxid s -> LInvA s -> LInvA s'.
Proof. intros Hc Hm [H0 H]. split; [rewrite Hm; exact H0|]. intros c. unfold lget. rewrite Hc, Hm. apply H. Qed.

Lemma LInvA_app s s' : lconns s' = lconns s ++ [new_lconn] -> lmaxid s' = lmaxid s -> LInvA s -> LInvA s'.
Proof.
  intros Hc Hm [H0 H]. split; [rewrite Hm; exact H0|]. intros c. rewrite Hm. unfold lget. rewrite Hc.
  destruct (Nat.lt_ge_cases c (length (lconns s))) as [L|L].
  - rewrite app_nth1 by assumption. apply H.
  - destruct (Nat.eq_dec c (length (lconns s))) as [->|N].
    + rewrite app_nth2 by lia. rewrite Nat.sub_diag. apply lcok_new, H0.
    + rewrite nth_overflow; [apply lcok_new, H0|]. rewrite app_length. simpl. lia.
Qed.

Lemma LInvA_close_all s s' l : lconns s' = lclose_all l (lconns s) -> lmaxid s' = lmaxid s -> LInvA s -> LInvA s'.
Proof.
  intros Hc Hm [H0 H]. split; [rewrite Hm; exact H0|]. intros c. rewrite Hm. unfold lget. rewrite Hc.
  destruct (lclose_all_nth l (lconns s) c) as [(E1&E2&E3&E4&E5&E6) _].
  specialize (H c). unfold lget in H. unfold lcok in *. rewrite E1, E2, E3, E5. intuition.
Qed.

Ltac lsplit_step :=
  repeat match goal with
  | |- context [if ?b then _ else _] => let E := fresh "E" in destruct b eqn:E; simpl
  | |- context [match ?l with [] => _ | _ :: _ => _ end] => destruct l eqn:?; simpl
  | |- context [match ?l with Some _ => _ | None => _ end] => destruct l eqn:?; simpl
  | |- context [let '(_, _) := ?p in _] => destruct p eqn:?; simpl
  end.

Ltac lsolve_cok :=
  let k := fresh "k" in let Hk := fresh "Hk" in let E := fresh "E" in
  intros k Hk E; unfold lcok in *; simpl; try subst k; lbool_hyps;
  repeat match goal with |- context [if ?b then _ else _] => destruct b end;
  intuition (try lia; try congruence).

Ltac linvA HA :=
  match goal with
  | |- LInvA (lupd ?s ?c ?f) => apply LInvA_lupd; [linvA HA | lsolve_cok]
  | |- LInvA (lset_conns _ (lconns ?s ++ [new_lconn])) => apply (LInvA_app s); [reflexivity|reflexivity|linvA HA]
  | |- LInvA (lset_conns _ (lclose_all ?l (lconns ?s))) => apply (LInvA_close_all s _ l); [reflexivity|reflexivity|linvA HA]
  | |- LInvA (if ?b then ?x else ?y) => destruct b; linvA HA
  | |- LInvA (lset_active ?s _) => apply (LInvA_same s); [reflexivity|reflexivity|linvA HA]
  | |- LInvA (lset_trash ?s _) => apply (LInvA_same s); [reflexivity|reflexivity|linvA HA]
  | |- LInvA (lset_open ?s _) => apply (LInvA_same s); [reflexivity|reflexivity|linvA HA]
  | |- LInvA (lset_sched ?s _) => apply (LInvA_same s); [reflexivity|reflexivity|linvA HA]
  | |- LInvA (lset_shut ?s _) => apply (LInvA_same s); [reflexivity|reflexivity|linvA HA]
  | |- LInvA (lset_queue ?s _) => apply (LInvA_same s); [reflexivity|reflexivity|linvA HA]
  | |- LInvA (lset_adding ?s _) => apply (LInvA_same s); [reflexivity|reflexivity|linvA HA]
  | |- LInvA (lset_appending ?s _) => apply (LInvA_same s); [reflexivity|reflexivity|linvA HA]
  | |- LInvA (lset_tid ?s _) => apply (LInvA_same s); [reflexivity|reflexivity|linvA HA]
  | |- LInvA (lset_donec ?s _) => apply (LInvA_same s); [reflexivity|reflexivity|linvA HA]
  | |- LInvA (lset_closing ?s _) => apply (LInvA_same s); [reflexivity|reflexivity|linvA HA]
  | |- LInvA (lset_phase ?s _) => apply (LInvA_same s); [reflexivity|reflexivity|linvA HA]
  | |- LInvA (lset_todo ?s _) => apply (LInvA_same s); [reflexivity|reflexivity|linvA HA]
  | |- LInvA (lset_hot ?s _) => apply (LInvA_same s); [reflexivity|reflexivity|linvA HA]
  | _ => exact HA
  end.

Lemma LInvA_step s o : LInvA s -> LInvA (fst (lstep s o)).
Proof.
  intros HA. destruct o; simpl; lsplit_step; try (linvA HA).
Qed.

Lemma LInvA_init n co mc mx mr mn : 0 <= mx -> LInvA (linit n co mc mx mr mn).
Proof.
  intros H. split; [exact H|]. intros c. unfold lget, linit; simpl.
  destruct (Nat.lt_ge_cases c n) as [L|L].
  - idtac.
    assert (E : nth c (repeat new_lconn n) new_lconn = new_lconn).
    { clear. revert c; induction n; intros [|c]; simpl; auto. }
    rewrite E. apply lcok_new, H.
  - rewrite nth_overflow by (rewrite repeat_length; exact L). apply lcok_new, H.
Qed.

Lemma LInvA_run ops : forall s, LInvA s -> LInvA (lrun s ops).
Proof. unfold lrun. induction ops as [|o r IH]; intros s H; simpl; [exact H|]. apply IH, LInvA_step, H. Qed.

(* ------------------------------------------------------------------ B. structure *)
Definition fresh_of (x : nat * (bool * nat)) : nat := snd (snd x).
Definition M1 s := forall c, (c < length (lconns s))%nat ->
  l_closed (lget s c) = true \/ In c (active s) \/ In c (ltrash s) \/ In c (map fresh_of (appending s)) \/ In c (map fst (closing s)).
Definition M2 s := (forall c, In c (active s) -> (c < length (lconns s))%nat) /\ (forall c, In c (ltrash s) -> (c < length (lconns s))%nat) /\
  (forall c, In c (map fresh_of (appending s)) -> (c < length (lconns s))%nat) /\ (forall c, In c (sd_todo s) -> (c < length (lconns s))%nat).
Definition M3 s := (lshut s = false -> lphase s = 0) /\ (lphase s = 0 \/ lphase s = 1 \/ lphase s = 2 \/ lphase s = 3) /\
  (lphase s <> 0 -> lshut s = true) /\ (2 <= lphase s -> forall c, In c (active s) -> l_closed (lget s c) = true \/ In c (sd_todo s)) /\
  (lphase s = 3 -> sd_todo s = [] /\ forall c, In c (ltrash s) -> l_closed (lget s c) = true).
Definition LInvB s := M1 s /\ M2 s /\ M3 s.

Lemma lget_app s s' c : lconns s' = lconns s ++ [new_lconn] -> lget s' c = lget s c.
Proof.
  intros H. unfold lget. rewrite H, nth_app_one.
  destruct (Nat.ltb c (length (lconns s))) eqn:E; [reflexivity|].
  apply Nat.ltb_ge in E. rewrite (nth_overflow (lconns s)) by assumption. destruct (Nat.eqb c (length (lconns s))); reflexivity.
Qed.

Lemma lget_close_all s s' l c : lconns s' = lclose_all l (lconns s) ->
  lsame_but_closed (lget s c) (lget s' c) /\ (In c l -> (c < length (lconns s))%nat -> l_closed (lget s' c) = true).
Proof. intros H. unfold lget. rewrite H. apply lclose_all_nth. Qed.

Lemma lget_lset_active s v c : lget (lset_active s v) c = lget s c.
Proof. reflexivity. Qed.
Lemma lget_lset_trash s v c : lget (lset_trash s v) c = lget s c.
Proof. reflexivity. Qed.
Lemma lget_lset_open s v c : lget (lset_open s v) c = lget s c.
Proof. reflexivity. Qed.
Lemma lget_lset_sched s v c : lget (lset_sched s v) c = lget s c.
Proof. reflexivity. Qed.
Lemma lget_lset_shut s v c : lget (lset_shut s v) c = lget s c.
Proof. reflexivity. Qed.
Lemma lget_lset_queue s v c : lget (lset_queue s v) c = lget s c.
Proof. reflexivity. Qed.
Lemma lget_lset_adding s v c : lget (lset_adding s v) c = lget s c.
Proof. reflexivity. Qed.
Lemma lget_lset_appending s v c : lget (lset_appending s v) c = lget s c.
Proof. reflexivity. Qed.
Lemma lget_lset_tid s v c : lget (lset_tid s v) c = lget s c.
Proof. reflexivity. Qed.
Lemma lget_lset_donec s v c : lget (lset_donec s v) c = lget s c.
Proof. reflexivity. Qed.
Lemma lget_lset_closing s v c : lget (lset_closing s v) c = lget s c.
Proof. reflexivity. Qed.
Lemma lget_lset_phase s v c : lget (lset_phase s v) c = lget s c.
Proof. reflexivity. Qed.
Lemma lget_lset_todo s v c : lget (lset_todo s v) c = lget s c.
Proof. reflexivity. Qed.
Lemma lget_lset_hot s v c : lget (lset_hot s v) c = lget s c.
Proof. reflexivity. Qed.
Ltac lgs := rewrite ?lget_lset_todo, ?lget_lset_hot, ?lget_lset_active, ?lget_lset_trash, ?lget_lset_open, ?lget_lset_sched, ?lget_lset_shut, ?lget_lset_queue, ?lget_lset_adding, ?lget_lset_appending, ?lget_lset_tid, ?lget_lset_donec, ?lget_lset_closing, ?lget_lset_phase.
Ltac lgn := repeat (progress (lgs; rewrite ?lget_lupd)).

(* closed flags only ever go up *)
Lemma closed_mono s o c : l_closed (lget s c) = true -> l_closed (lget (fst (lstep s o)) c) = true.
Proof.
  intros H. destruct o; simpl; lsplit_step; try assumption; lgn;
  repeat match goal with
  | |- context [if ?b then _ else _] => destruct b
  end; simpl; try assumption; try reflexivity.
  all: try (match goal with |- l_closed (lget ?s' _) = true =>
         first [ rewrite (lget_app s s') by reflexivity; assumption
               | destruct (lget_close_all s s' (active s) c eq_refl) as [(_&_&_&_&_&Hc) _]; apply Hc; assumption
               | destruct (lget_close_all s s' (ltrash s) c eq_refl) as [(_&_&_&_&_&Hc) _]; apply Hc; assumption ] end).
Qed.

Lemma length_mono s o : (length (lconns s) <= length (lconns (fst (lstep s o))))%nat.
Proof.
  destruct o; simpl; lsplit_step; simpl; rewrite ?length_upd, ?app_length, ?lclose_all_length; simpl;
  repeat match goal with |- context [if ?b then _ else _] => destruct b; simpl end; rewrite ?length_upd; lia.
Qed.

Lemma In_del_tid {A} tid (l : list (nat * A)) x : In x (del_tid tid l) -> In x l.
Proof.
  induction l as [|[i a] l IH]; simpl; [tauto|]. destruct (Nat.eqb i tid); simpl; intuition.
Qed.

Lemma find_tid_In {A} tid (l : list (nat * A)) a : find_tid tid l = Some a -> In (tid, a) l.
Proof.
  induction l as [|[i b] l IH]; simpl; [discriminate|]. destruct (Nat.eqb i tid) eqn:E.
  - intros H. injection H as <-. apply Nat.eqb_eq in E. subst. left; reflexivity.
  - intros H. right. apply IH, H.
Qed.

(* taking the entry of ticket tid out removes exactly the connection find_tid reports *)
Lemma In_map_del_tid tid (l : list (nat * (bool * nat))) c :
  In c (map fresh_of l) -> In c (map fresh_of (del_tid tid l)) \/ exists t, find_tid tid l = Some (t, c).
Proof.
  induction l as [|[i [t n]] l IH]; simpl; [tauto|]. destruct (Nat.eqb i tid) eqn:E.
  - intros [<-|H]; [right; exists t; reflexivity|left; exact H].
  - intros [<-|H]; [left; left; reflexivity|].
    destruct (IH H) as [H1|H1]; [left; right; exact H1|right; exact H1].
Qed.

Lemma In_map_del_tid_sub tid (l : list (nat * (bool * nat))) c : In c (map fresh_of (del_tid tid l)) -> In c (map fresh_of l).
Proof.
  induction l as [|[i [t n]] l IH]; simpl; [tauto|]. destruct (Nat.eqb i tid); simpl; intuition.
Qed.

Lemma find_tid_fresh tid (l : list (nat * (bool * nat))) t n : find_tid tid l = Some (t, n) -> In n (map fresh_of l).
Proof. intros H. apply find_tid_In in H. apply in_map_iff. exists (tid, (t, n)). split; [reflexivity|exact H]. Qed.

Ltac lnorm := repeat (progress (rewrite ?length_upd, ?app_length, ?lclose_all_length, ?map_app, ?in_app_iff, ?In_del, ?In_ins in *; simpl in * )).

Lemma M2_step s o : LInvB s -> M2 (fst (lstep s o)).
Proof.
  intros (H1&(Ha&Ht&Hp&Hd)&H3). unfold M2.
  destruct o; simpl; lsplit_step; simpl; repeat split; intros; lnorm;
    repeat match goal with |- context [if ?b then _ else _] => destruct b; simpl in * end; lnorm;
    try solve [eauto | intuition eauto];
    try solve [repeat match goal with H : _ \/ _ |- _ => destruct H end; subst; try lia;
               first [ match goal with H : In _ (active _) |- _ => apply Ha in H; lia end
                     | match goal with H : In _ (ltrash _) |- _ => apply Ht in H; lia end
                     | match goal with H : In _ (map fresh_of (appending _)) |- _ => apply Hp in H; lia end ]].
  all: try solve [unfold fresh_of in *; simpl in *; repeat match goal with H : _ \/ _ |- _ => destruct H end; subst; try lia; try tauto;
                  match goal with H : In _ (map _ (appending _)) |- _ => apply Hp in H; lia end].
  all: try solve [repeat match goal with
                  | H : In _ (map fresh_of (del_tid _ _)) |- _ => apply In_map_del_tid_sub in H
                  | H : find_tid _ (appending _) = Some (_, _) |- _ => apply find_tid_fresh in H
                  | H : _ \/ _ |- _ => destruct H
                  end; subst; eauto; try tauto].
  all: try solve [match goal with H : In _ (sd_todo _) |- _ => apply Hd in H; lia end].
  all: try solve [lbool_hyps; match goal with H : _ = _ \/ In _ _ |- _ => destruct H as [->|H]; auto end].
  all: try solve [match goal with Hq : sd_todo _ = _ :: _ |- _ => apply Hd; rewrite Hq; simpl; tauto end].
  all: try solve [match goal with Hq : sd_todo _ = [], H : In _ (sd_todo _) |- _ => rewrite Hq in H; destruct H end].
Qed.

Lemma closed_lupd_same0 s c : (c < length (lconns s))%nat -> l_closed (lget (lupd s c j_close) c) = true.
Proof. intros H. rewrite lget_lupd, Nat.eqb_refl. apply lvalid_lt in H. rewrite H. reflexivity. Qed.

Ltac sdnext P4 P5 Hd Hmono :=
  first
  [ solve [ repeat split; auto; intros; try (exfalso; lia);
            match goal with Hx : In ?c (active _), Hy : 2 <= _ |- _ => destruct (P4 Hy c Hx) as [?|[]]; left; repeat (progress lgs); assumption end ]
  | solve [ repeat split; auto; intros; try lia;
            match goal with Hx : In ?c (active _), Hy : 2 <= _ |- l_closed (lget (lupd _ ?n _) _) = true \/ _ =>
              destruct (Nat.eq_dec c n) as [->|N];
              [ left; repeat (progress lgs); apply closed_lupd_same0; simpl; apply Hd; left; reflexivity
              | destruct (P4 Hy c Hx) as [?|Hin]; [left; apply Hmono; assumption|];
                destruct Hin as [?|?]; [congruence|right; assumption] ] end ] ].

Lemma M3_step s o : LInvB s -> M3 (fst (lstep s o)).
Proof.
  intros (H1&(Ha&Ht&Hp&Hd)&(P1&P2&P3&P4&P5)). unfold M3.
  assert (Hmono := closed_mono s o).
  destruct o; simpl in *; lsplit_step; simpl in *; lbool_hyps;
    try solve [ repeat split; auto; intros; lnorm; try lia; try congruence;
                repeat match goal with
                | Hx : _ /\ In _ _ |- _ => destruct Hx
                | Hx : In _ (del _ _) |- _ => apply In_del in Hx; destruct Hx
                end;
                first [ apply P5; assumption
                      | apply Hmono, P5; assumption
                      | match goal with Hx : In ?c (active _), Hy : 2 <= _ |- _ =>
                          destruct (P4 Hy c Hx) as [?|?]; [left; apply Hmono; assumption|right; assumption] end ] ].
  - (* LTrash, trashing *)
    repeat split; auto; intros; repeat (progress lgs).
    + match goal with Hx : In _ (del _ _) |- _ => apply In_del in Hx; destruct Hx end. auto.
    + apply P5; assumption.
    + match goal with Hx : In _ (ins _ _) |- _ => apply In_ins in Hx; destruct Hx as [->|Hx] end; [|apply P5; assumption].
      destruct (P5 ltac:(assumption)) as [Hn _]. destruct (P4 ltac:(lia) c ltac:(assumption)) as [?|Hin]; [assumption|].
      rewrite Hn in Hin. destruct Hin.
  - (* LShutdownSnap *)
    assert (lshut s = true) by (apply P3; lia).
    repeat split; auto; try congruence; try lia.
  - sdnext P4 P5 Hd Hmono.
  - sdnext P4 P5 Hd Hmono.
  - sdnext P4 P5 Hd Hmono.
  - sdnext P4 P5 Hd Hmono.
  - (* LShutdownTrash *)
    assert (lshut s = true) by (apply P3; lia).
    repeat split; auto; try congruence; try lia; intros.
    + match goal with Hx : In ?c (active _) |- _ => destruct (P4 ltac:(lia) c Hx) as [?|?]; [left; apply Hmono; assumption|right; assumption] end.
    + destruct (sd_todo s); [reflexivity|discriminate].
    + match goal with Hx : In ?c (ltrash _) |- _ =>
        destruct (lget_close_all s (lset_conns (lset_phase s 3) (lclose_all (ltrash s) (lconns s))) (ltrash s) c eq_refl) as [_ Hc];
        apply Hc; [assumption|apply Ht; assumption] end.
Qed.


Lemma closed_lupd_same s c : (c < length (lconns s))%nat -> l_closed (lget (lupd s c j_close) c) = true.
Proof. intros H. rewrite lget_lupd, Nat.eqb_refl. apply lvalid_lt in H. rewrite H. reflexivity. Qed.

Ltac m1 H1 c := destruct (H1 c) as [?|[?|[?|[?|?]]]]; [try lia; assumption | ..].

Lemma M1_step s o : LInvB s -> M1 (fst (lstep s o)).
Proof.
  intros (H1&(Ha&Ht&Hp&Hd)&H3). unfold M1.
  assert (Hmono := closed_mono s o).
  destruct o; simpl in *; lsplit_step; simpl in *; intros; lnorm;
    try solve [m1 H1 c; auto 6 using Hmono];
    try solve [m1 H1 c0; auto 6 using Hmono].
  all: try solve [ (* LTaskConnect *)
    unfold fresh_of at 2; simpl; destruct (Nat.eq_dec c (length (lconns s))) as [->|N]; [tauto|];
    match goal with |- l_closed (lget ?s' _) = true \/ _ => rewrite (lget_app s s') by reflexivity end;
    m1 H1 c; tauto ].
  all: try solve [ (* LTaskAppend, pool shut down: fresh connection closed *)
    repeat (progress lgs);
    match goal with |- context [lupd _ ?n j_close] =>
      destruct (Nat.eq_dec c n) as [->|N];
      [ left; rewrite lget_lupd, Nat.eqb_refl; match goal with Hx : (_ < _)%nat |- _ => apply lvalid_lt in Hx; unfold lvalid in *; simpl; rewrite Hx end; reflexivity
      | rewrite lget_lupd; let N' := fresh in (assert (N' := N); apply Nat.eqb_neq in N'; rewrite N'); simpl; repeat (progress lgs);
        m1 H1 c; try tauto;
        match goal with Hx : In _ (map fresh_of (appending _)) |- _ => destruct (In_map_del_tid tid _ _ Hx) as [?|(t'&Hf)] end; [tauto|];
        exfalso; apply N; congruence ] end ].
  all: try solve [ (* LTaskAppend, installed *)
    repeat (progress lgs);
    match goal with |- context [active _ ++ [?n]] =>
      destruct (Nat.eq_dec c n) as [->|N]; [tauto|];
      m1 H1 c; try tauto;
      match goal with Hx : In _ (map fresh_of (appending _)) |- _ => destruct (In_map_del_tid tid _ _ Hx) as [?|(t'&Hf)] end; [tauto|];
      exfalso; apply N; congruence end ].
  all: try solve [ (* LTaskAppend, installed *)
    match goal with |- _ \/ (In ?x (active _) \/ ?n = ?x \/ False) \/ _ =>
      destruct (Nat.eq_dec x n) as [->|N]; [tauto|];
      m1 H1 x; try (left; apply Hmono; assumption); try tauto;
      match goal with Hx : In _ (map fresh_of (appending _)) |- _ => destruct (In_map_del_tid tid _ _ Hx) as [?|(t'&Hf)] end; [tauto|];
      exfalso; apply N; congruence end ].
  all: try solve [ (* the connection the step is about, or another one *)
    match goal with |- l_closed (lget _ ?x) = true \/ _ =>
      first [ destruct (Nat.eq_dec x c) as [->|N] | destruct (Nat.eq_dec x n) as [->|N] ];
      [ first [ tauto
              | left; repeat (progress lgs); apply closed_lupd_same; simpl; rewrite ?length_upd; assumption ]
      | m1 H1 x; try (left; apply Hmono; assumption); simpl in *; try tauto; intuition congruence ] end ].
  all: try solve [ (* LReplaceClose *)
    match goal with |- l_closed (lget _ ?x) = true \/ _ =>
      destruct (Nat.eq_dec x n) as [->|N];
      [ left; repeat (progress lgs); apply closed_lupd_same; simpl; rewrite ?length_upd; assumption
      | m1 H1 x; try (left; apply Hmono; assumption); simpl in *; try tauto; intuition congruence ] end ].
  all: destruct (Nat.eq_dec c n) as [->|N];
    [ left; repeat (progress lgs); apply closed_lupd_same; assumption
    | m1 H1 c; try (left; apply Hmono; assumption); try tauto;
      match goal with Hq : closing _ = _, Hx : In _ (map fst (closing _)) |- _ => rewrite Hq in Hx; simpl in Hx; destruct Hx as [Hx|Hx]; [congruence|tauto] end ].
Qed.

Definition LInv (s : lstate) : Prop := LInvA s /\ LInvB s.

Lemma LInv_step s o : LInv s -> LInv (fst (lstep s o)).
Proof.
  intros [HA HB]. split; [apply LInvA_step, HA|].
  split; [apply M1_step, HB|]. split; [apply M2_step, HB|apply M3_step, HB].
Qed.

Lemma nth_repeat_new c n : nth c (repeat new_lconn n) new_lconn = new_lconn.
Proof. revert c; induction n; intros [|c]; simpl; auto. Qed.

Lemma LInv_init n co mc mx mr mn : 0 <= mx -> LInv (linit n co mc mx mr mn).
Proof.
  intros H. split; [apply LInvA_init, H|]. unfold LInvB, M1, M2, M3, linit; simpl. repeat split; try tauto; try lia; try discriminate.
  - intros c Hc. rewrite repeat_length in Hc. right. left. apply in_seq. lia.
  - intros c Hc. rewrite repeat_length. apply in_seq in Hc. lia.
Qed.

Lemma LInv_run ops : forall s, LInv s -> LInv (lrun s ops).
Proof. unfold lrun. induction ops as [|o r IH]; intros s H; simpl; [exact H|]. apply IH, LInv_step, H. Qed.

Lemma lmaxid_step s o : lmaxid (fst (lstep s o)) = lmaxid s.
Proof. destruct o; simpl; lsplit_step; simpl; repeat match goal with |- context [if ?b then _ else _] => destruct b; simpl end; reflexivity. Qed.
Lemma lmaxid_run ops : forall s, lmaxid (lrun s ops) = lmaxid s.
Proof. unfold lrun. induction ops as [|o r IH]; intros s; simpl; [reflexivity|]. rewrite IH. apply lmaxid_step. Qed.

Lemma lshut_step s o : lshut s = true -> lshut (fst (lstep s o)) = true.
Proof. intros H. destruct o; simpl; lsplit_step; simpl; repeat match goal with |- context [if ?b then _ else _] => destruct b; simpl end; auto; try discriminate; try congruence. Qed.
Lemma lshut_run ops : forall s, lshut s = true -> lshut (lrun s ops) = true.
Proof. unfold lrun. induction ops as [|o r IH]; intros s H; simpl; [exact H|]. apply IH, lshut_step, H. Qed.

Lemma linv_accounting s c : LInv s ->
  0 <= l_inflight (lget s c) <= lmaxid s /\ l_inflight (lget s c) = l_live (lget s c) + l_orph (lget s c).
Proof. intros [[_ HA] _]. destruct (HA c) as (?&?&?&?&?). lia. Qed.

Lemma linv_closes s : LInv s -> lquiescent s = true -> lall_closed s = true.
Proof.
  intros [_ (M&_&(_&_&_&P4&P5))] Hq. unfold lquiescent, lno_tasks in Hq.
  apply andb_prop in Hq. destruct Hq as [Hn Hp]. apply Z.eqb_eq in Hp.
  destruct (lqueue s); [|discriminate]. destruct (adding s); [|discriminate].
  destruct (appending s) eqn:Ap; [|discriminate]. destruct (closing s) eqn:Cl; [|discriminate].
  unfold lall_closed. apply forallb_forall. intros k Hk.
  destruct (In_nth _ _ new_lconn Hk) as (c&Hlt&Hnth).
  destruct (M c Hlt) as [H|[H|[H|[H|H]]]].
  - unfold lget in H. rewrite Hnth in H. exact H.
  - destruct (P5 Hp) as [Hn0 _]. specialize (P4 ltac:(lia) c H). unfold lget in P4. rewrite Hnth, Hn0 in P4. destruct P4 as [P4|[]]. exact P4.
  - destruct (P5 Hp) as [_ P5']. specialize (P5' c H). unfold lget in P5'. rewrite Hnth in P5'. exact P5'.
  - rewrite Ap in H. destruct H.
  - rewrite Cl in H. destruct H.
Qed.

(* a borrower parked in _wait_for_conn that resumes in a pool that has been shut down fails, and touches no connection *)
Lemma woken_after_shutdown s f : lshut s = true -> lexec (lwait_loop (S f) LRet) s = (s, LErrShutdown).
Proof. intros H. simpl. rewrite H. reflexivity. Qed.
