(* C14 lemmas: the ResponseFuture model with the first-wins guard (g = true) delivers exactly one outcome. *)
From Coq Require Import ZArith List Bool Lia.
From Verif Require Import FutureState FutureOnce.
Import ListNotations.
Local Open Scope Z_scope.

(* ================================================================ 1. safety: the (final, event, pairs) view *)

Definition same_view (s s' : state) : Prop :=
  fres s' = fres s /\ fexc s' = fexc s /\ event s' = event s /\ pairs s' = pairs s.

(* what a helper may do to the view: nothing, or complete a future that was not complete *)
Definition SStep (s s' : state) : Prop :=
  same_view s s'
  \/ (final_set s = false /\ exists v, fres s' = Some v /\ fexc s' = None /\ event s' = true /\ pairs s' = run_cbs v (pairs s))
  \/ (final_set s = false /\ exists e, fres s' = None /\ fexc s' = Some e /\ event s' = true /\ pairs s' = run_ebs e (pairs s)).

Lemma same_view_refl s : same_view s s.
Proof. repeat split. Qed.

Lemma same_view_trans s1 s2 s3 : same_view s1 s2 -> same_view s2 s3 -> same_view s1 s3.
Proof. unfold same_view. intuition congruence. Qed.

Lemma same_view_final s s' : same_view s s' -> final_set s' = final_set s.
Proof. unfold same_view, final_set. intros (-> & -> & _). reflexivity. Qed.

Lemma SStep_refl s : SStep s s.
Proof. left. apply same_view_refl. Qed.

Lemma SStep_same_l s1 s2 s3 : same_view s1 s2 -> SStep s2 s3 -> SStep s1 s3.
Proof.
  intros H12 [H|[(Hf & v & H)|(Hf & e & H)]].
  - left. eapply same_view_trans; eassumption.
  - right; left. rewrite (same_view_final _ _ H12) in Hf. split; [assumption|]. exists v.
    destruct H12 as (_ & _ & _ & <-). assumption.
  - right; right. rewrite (same_view_final _ _ H12) in Hf. split; [assumption|]. exists e.
    destruct H12 as (_ & _ & _ & <-). assumption.
Qed.

Lemma SStep_same_r s1 s2 s3 : SStep s1 s2 -> same_view s2 s3 -> SStep s1 s3.
Proof.
  intros [H|[(Hf & v & H)|(Hf & e & H)]] (H1 & H2 & H3 & H4).
  - left. eapply same_view_trans; [eassumption|]. repeat split; assumption.
  - right; left. split; [assumption|]. exists v. rewrite H1, H2, H3, H4. assumption.
  - right; right. split; [assumption|]. exists e. rewrite H1, H2, H3, H4. assumption.
Qed.

Lemma SStep_final_mono s s' : SStep s s' -> final_set s = true -> same_view s s'.
Proof. intros [H|[(Hf & _)|(Hf & _)]] Ht; [assumption|congruence|congruence]. Qed.

Lemma SStep_trans s1 s2 s3 : SStep s1 s2 -> SStep s2 s3 -> SStep s1 s3.
Proof.
  intros H12 H23. destruct H12 as [H|[(Hf & v & H)|(Hf & e & H)]].
  - eapply SStep_same_l; eassumption.
  - eapply SStep_same_r; [right; left; split; [assumption|exists v; eassumption]|].
    apply SStep_final_mono; [assumption|]. unfold final_set. destruct H as (-> & _). reflexivity.
  - eapply SStep_same_r; [right; right; split; [assumption|exists e; eassumption]|].
    apply SStep_final_mono; [assumption|]. unfold final_set. destruct H as (_ & -> & _). apply orb_true_r.
Qed.

Lemma sv_cancel s : same_view s (cancel_timer s).
Proof. unfold cancel_timer. destruct (cur_timer s); repeat split. Qed.

Lemma sv_new_timer k d s : same_view s (new_timer k d s).
Proof. repeat split. Qed.

Lemma sv_start_timer s : same_view s (start_timer s).
Proof.
  unfold start_timer. destruct (cur_timer s); [apply same_view_refl|].
  destruct (_ && _); [repeat split|]. destruct (time_remaining _); repeat split.
Qed.

Lemma sv_page_reset s : same_view s (set_start (now s) (set_cur_timer None (cancel_timer s))).
Proof. eapply same_view_trans; [apply sv_cancel|]. repeat split. Qed.

Lemma final_set_cancel s : final_set (cancel_timer s) = final_set s.
Proof. apply same_view_final, sv_cancel. Qed.

Lemma ss_set_final_result v s : SStep s (set_final_result true v s).
Proof.
  unfold set_final_result. rewrite final_set_cancel. cbn [andb].
  destruct (final_set s) eqn:Hf.
  - left. apply sv_cancel.
  - right; left. split; [assumption|]. exists v. unfold cancel_timer. destruct (cur_timer s); cbn.
    + unfold final_set in Hf. destruct (fres s), (fexc s); try discriminate. repeat split.
    + unfold final_set in Hf. destruct (fres s), (fexc s); try discriminate. repeat split.
Qed.

Lemma ss_set_final_rows v more s : SStep s (set_final_rows true v more s).
Proof.
  unfold set_final_rows. rewrite final_set_cancel. cbn [andb].
  destruct (final_set s) eqn:Hf.
  - left. apply sv_cancel.
  - right; left. split; [assumption|]. exists v. unfold cancel_timer. destruct (cur_timer s); cbn.
    + unfold final_set in Hf. destruct (fres s), (fexc s); try discriminate. repeat split.
    + unfold final_set in Hf. destruct (fres s), (fexc s); try discriminate. repeat split.
Qed.

Lemma ss_set_final_exception e s : SStep s (set_final_exception true e s).
Proof.
  unfold set_final_exception. rewrite final_set_cancel. cbn [andb].
  destruct (final_set s) eqn:Hf.
  - left. apply sv_cancel.
  - right; right. split; [assumption|]. exists e. unfold cancel_timer. destruct (cur_timer s); cbn.
    + unfold final_set in Hf. destruct (fres s), (fexc s); try discriminate. repeat split.
    + unfold final_set in Hf. destruct (fres s), (fexc s); try discriminate. repeat split.
Qed.

Lemma sv_query_gen prep h s : same_view s (fst (query_gen prep h s)).
Proof. unfold query_gen. destruct (pool_of _ _); repeat split. Qed.

Lemma sv_query h s : same_view s (fst (query h s)).
Proof. apply sv_query_gen. Qed.

Lemma ss_on_timeout n s : SStep s (on_timeout true n s).
Proof.
  unfold on_timeout. destruct (cur_conn s).
  - destruct (cur_req s); [destruct (req_open_on _ _ _)|];
      (eapply SStep_same_l; [|apply ss_set_final_exception]; repeat split).
  - destruct (n <? 3)%nat; [left; repeat split|].
    eapply SStep_same_l; [|apply ss_set_final_exception]; repeat split.
Qed.

Lemma ss_send_loop err : forall pl s, SStep s (send_loop true err pl s).
Proof.
  induction pl as [|h rest IH]; intros s; cbn [send_loop].
  - destruct err; [|left; repeat split].
    eapply SStep_same_l; [|apply ss_set_final_exception]; repeat split.
  - pose proof (sv_query h s) as Hq. destruct (query h s) as [s1 r]. cbn [fst] in Hq.
    destruct r.
    + left. eapply same_view_trans; [eassumption|]. repeat split.
    + destruct (timed_out_now s1).
      * eapply SStep_same_l; [eassumption|]. eapply SStep_same_l; [|apply ss_on_timeout]. repeat split.
      * eapply SStep_same_l; [eassumption|]. apply IH.
Qed.

Lemma ss_send_request err s : SStep s (send_request true err s).
Proof. apply ss_send_loop. Qed.

Lemma ss_on_spec s : SStep s (on_spec true s).
Proof.
  unfold on_spec. set (s0 := set_cur_timer None s).
  assert (Hs0 : same_view s s0) by (repeat split).
  change (event s0) with (event s). change (attempts s0) with (attempts s).
  destruct (event s); [left; assumption|].
  destruct (attempts s).
  - left; repeat split.
  - match goal with |- context [if ?c then _ else _] => destruct c end.
    + eapply SStep_same_l; [exact Hs0|apply ss_on_timeout].
    + eapply SStep_same_r; [|apply sv_start_timer].
      eapply SStep_same_l; [exact Hs0|apply ss_send_request].
Qed.

Lemma ss_submit_task t s : SStep s (submit_task true t s).
Proof. unfold submit_task. destruct (shut s); [apply ss_set_final_exception|left; repeat split]. Qed.

Lemma ss_retry reuse h s : SStep s (retry true reuse h s).
Proof.
  unfold retry. set (s1 := set_retries (retries s + 1) s).
  assert (H1 : same_view s s1) by (repeat split).
  destruct (is_some (fexc s1)); [left; exact H1|].
  eapply SStep_same_l; [exact H1|apply ss_submit_task].
Qed.

Lemma ss_start_refresh s : SStep s (start_refresh true s).
Proof. unfold start_refresh. destruct (shut s); [apply ss_set_final_result|left; repeat split]. Qed.

Lemma ss_start_chain s : SStep s (start_chain true s).
Proof. unfold start_chain. destruct (ks_hosts (pools s)); [apply ss_set_final_result|left; repeat split]. Qed.

Lemma ss_ks_report c h err s : SStep s (ks_report true c h err s).
Proof.
  unfold ks_report. destruct (nth_error (chains s) c) as [[hs e]|]; [|apply SStep_refl].
  destruct (mem_z h hs); [|apply SStep_refl]. destruct (remove_z h hs); [|left; repeat split].
  destruct (e || err); (eapply SStep_same_l; [|first [apply ss_set_final_exception|apply ss_set_final_result]]; repeat split).
Qed.

Lemma ss_set_result a h k s : SStep s (set_result true a h k s).
Proof.
  destruct k as [more| |d| | | | |]; cbn [set_result].
  - apply ss_set_final_rows.
  - apply ss_set_final_result.
  - destruct d; try apply ss_retry; [apply ss_set_final_exception|apply ss_set_final_result].
  - apply ss_set_final_exception.
  - apply ss_submit_task.
  - apply ss_start_refresh.
  - apply ss_start_chain.
  - eapply SStep_same_l; [apply sv_cancel|apply ss_set_final_exception].
Qed.

Lemma ss_retry_task reuse h s : SStep s (retry_task true reuse h s).
Proof.
  unfold retry_task. destruct (is_some (fexc s)); [apply SStep_refl|].
  destruct reuse; [|apply ss_send_request].
  pose proof (sv_query h s) as Hq. destruct (query h s) as [s1 r]. cbn [fst] in Hq.
  destruct r; [left; assumption|]. eapply SStep_same_l; [eassumption|apply ss_send_request].
Qed.

Lemma ss_query_then_send prep h s :
  SStep s (let '(s1, r) := query_gen prep h s in match r with Some _ => s1 | None => send_request true true s1 end).
Proof.
  pose proof (sv_query_gen prep h s) as Hq. destruct (query_gen prep h s) as [s1 r]. cbn [fst] in Hq.
  destruct r; [left; assumption|]. eapply SStep_same_l; [eassumption|apply ss_send_request].
Qed.

Lemma ss_run_task t s : SStep s (run_task true t s).
Proof.
  destruct t as [reuse h|h|h a pk]; cbn [run_task].
  - apply ss_retry_task.
  - apply (ss_query_then_send true h s).
  - unfold after_prepare. destruct (is_some (fexc s)); [apply SStep_refl|].
    destruct pk; [apply (ss_query_then_send false h s)|apply ss_set_final_exception|apply ss_set_final_exception
                  |apply ss_send_request|apply ss_set_final_exception].
Qed.

(* the invariant on the view *)
Definition pair_inv (fr fe : option Z) (p : pair) : Prop :=
  match fr, fe with
  | None, None => cbs p = [] /\ ebs p = []
  | Some v, None => cbs p = [v] /\ ebs p = []
  | None, Some e => cbs p = [] /\ ebs p = [e]
  | Some _, Some _ => False
  end.

Definition SInv (s : state) : Prop :=
  event s = final_set s /\ (is_some (fres s) && is_some (fexc s) = false) /\ Forall (pair_inv (fres s) (fexc s)) (pairs s).

Lemma SInv_SStep s s' : SInv s -> SStep s s' -> SInv s'.
Proof.
  intros (He & Hx & Hp) [H|[(Hf & v & H)|(Hf & e & H)]].
  - pose proof (same_view_final _ _ H) as Hfs. destruct H as (H1 & H2 & H3 & H4).
    unfold SInv. rewrite Hfs, H1, H2, H3, H4. repeat split; assumption.
  - destruct H as (H1 & H2 & H3 & H4). unfold SInv, final_set. rewrite H1, H2, H3, H4. repeat split.
    unfold final_set in Hf. destruct (fres s), (fexc s); try discriminate.
    unfold run_cbs. rewrite Forall_map. eapply Forall_impl; [|exact Hp].
    intros p (Hc & Hb). cbn. rewrite Hc, Hb. split; reflexivity.
  - destruct H as (H1 & H2 & H3 & H4). unfold SInv, final_set. rewrite H1, H2, H3, H4. repeat split.
    unfold final_set in Hf. destruct (fres s), (fexc s); try discriminate.
    unfold run_ebs. rewrite Forall_map. eapply Forall_impl; [|exact Hp].
    intros p (Hc & Hb). cbn. rewrite Hc, Hb. split; reflexivity.
Qed.

Lemma SInv_start_timer s : SInv s -> SInv (start_timer s).
Proof. intros H. eapply SInv_SStep; [exact H|left; apply sv_start_timer]. Qed.

Lemma SInv_step pf s o : SInv s -> SInv (step true pf s o).
Proof.
  intros H. destruct o as [|ps|d|a k|k|k|pl| | |c h err|a pk|fh| |k]; cbn [step];
    [| | | | | | | | |eapply SInv_SStep; [exact H|apply ss_ks_report]|
     destruct (nth_error (attempts s) a) as [at_|]; [|assumption]; destruct (aopen at_ && aprep at_); [|assumption];
       eapply SInv_SStep; [exact H|eapply SStep_same_l; [|apply ss_submit_task]; repeat split]|
     assumption|
     eapply SInv_SStep; [exact H|left; repeat split]|
     destruct (refreshes s) as [|n]; [assumption|destruct (k <=? n)%nat; [|assumption];
       eapply SInv_SStep; [exact H|eapply SStep_same_l; [|apply ss_set_final_result]; repeat split]]].
  - eapply SInv_SStep; [exact H|]. eapply SStep_same_l; [|apply ss_send_request]. repeat split.
  - eapply SInv_SStep; [exact H|left; repeat split].
  - eapply SInv_SStep; [exact H|left; repeat split].
  - destruct (nth_error (attempts s) a) as [at_|]; [|assumption]. destruct (aopen at_ && negb (aprep at_)); [|assumption].
    destruct (astale at_); [eapply SInv_SStep; [exact H|left; repeat split]|].
    eapply SInv_SStep; [exact H|]. eapply SStep_same_l; [|apply ss_set_result]. repeat split.
  - destruct (nth_error (timers s) k) as [t|]; [|assumption].
    destruct (live t && (due t <=? now s)); [|assumption].
    eapply SInv_SStep; [exact H|].
    destruct (tk t); (eapply SStep_same_l; [|first [apply ss_on_spec|apply ss_on_timeout]]; repeat split).
  - destruct (nth_error (queue s) k) as [t|]; [|assumption].
    eapply SInv_SStep; [exact H|]. eapply SStep_same_l; [|apply ss_run_task]. repeat split.
  - destruct (paging s); [|assumption]. unfold next_page.
    eapply SInv_SStep; [|apply ss_send_request]. apply SInv_start_timer.
    assert (Hreset : SInv (page_reset pl s)).
    { unfold SInv, final_set. cbn. repeat split. rewrite Forall_map. apply Forall_forall. intros; cbn; split; reflexivity. }
    unfold page_timer_reset. destruct pf; [|exact Hreset].
    eapply SInv_SStep; [exact Hreset|]. left. apply sv_page_reset.
  - destruct H as (He & Hx & Hp). unfold SInv, add_cb, final_set. cbn. repeat split; try assumption.
    apply Forall_app. split; [assumption|]. constructor; [|constructor].
    unfold pair_inv. destruct (fres s), (fexc s); cbn; try discriminate; split; reflexivity.
  - destruct (result_call s); [|assumption]. eapply SInv_SStep; [exact H|left; repeat split].
Qed.

Lemma SInv_init c : SInv (init c).
Proof. unfold init. apply SInv_start_timer. unfold SInv, final_set. cbn. repeat split. constructor. Qed.

Lemma SInv_run pf : forall h s, SInv s -> SInv (run true pf s h).
Proof. induction h as [|o h IH]; intros s H; [exact H|]. cbn. apply IH, SInv_step, H. Qed.

(* consequences of SInv in the vocabulary of the statement *)
Lemma SInv_once s p : SInv s -> In p (pairs s) -> pair_once p = true /\ pair_reports s p = true.
Proof.
  intros (He & Hx & Hp) Hin. rewrite Forall_forall in Hp. specialize (Hp p Hin).
  unfold pair_once, pair_reports, result_call. rewrite He. unfold final_set, pair_inv in *.
  destruct (fres s), (fexc s); cbn in *; try contradiction; destruct Hp as (-> & ->); cbn;
    rewrite ?Z.eqb_refl; split; reflexivity.
Qed.

Lemma SInv_delivered s : SInv s -> final_set s = true -> delivered s = true.
Proof.
  intros (He & Hx & Hp) Hf. unfold delivered. rewrite He, Hf. cbn [andb].
  apply forallb_forall. intros p Hin. rewrite Forall_forall in Hp. specialize (Hp p Hin).
  unfold final_set, pair_inv in *. destruct (fres s), (fexc s); cbn in *; try discriminate; try contradiction;
    destruct Hp as (-> & ->); reflexivity.
Qed.

(* ================================================================ 2. liveness: an outcome exists once everything is answered *)
Section Live.
Variable g : bool.

(* fields the liveness invariants look at, besides the final outcome *)
Definition frameL (s s' : state) : Prop :=
  attempts s' = attempts s /\ cur_conn s' = cur_conn s /\ queue s' = queue s /\ paging s' = paging s /\ tfired s' = tfired s
  /\ chains s' = chains s /\ refreshes s' = refreshes s.

Lemma frameL_refl s : frameL s s.
Proof. repeat split. Qed.

Lemma frameL_trans s1 s2 s3 : frameL s1 s2 -> frameL s2 s3 -> frameL s1 s3.
Proof. unfold frameL. intuition congruence. Qed.

(* structural step: attempts only grow or get closed, a connection stays known, queue and paging untouched *)
Definition AStep (s s' : state) : Prop :=
  (attempts s <> [] -> attempts s' <> []) /\ (cur_conn s <> None -> cur_conn s' <> None) /\
  (attempts s' <> [] -> attempts s = [] -> cur_conn s' <> None) /\ queue s' = queue s /\ paging s' = paging s.

Definition AInv (s : state) : Prop :=
  (attempts s <> [] -> cur_conn s <> None) /\ (queue s <> [] -> attempts s <> []) /\ (paging s = true -> attempts s <> []).

Lemma AStep_refl s : AStep s s.
Proof. unfold AStep. intuition. Qed.

Lemma AStep_trans s1 s2 s3 : AStep s1 s2 -> AStep s2 s3 -> AStep s1 s3.
Proof.
  intros (a1 & a2 & a3 & a4 & a5) (b1 & b2 & b3 & b4 & b5). unfold AStep.
  split; [tauto|]. split; [tauto|]. split; [|split; congruence].
  intros H3 H1. destruct (attempts s2) eqn:E.
  - apply b3; [assumption|reflexivity].
  - apply b2, a3; [congruence|assumption].
Qed.

Lemma AStep_frame s s' : frameL s s' -> AStep s s'.
Proof. intros (h1 & h2 & h3 & h4 & h5 & h6 & h7). unfold AStep. rewrite h1, h2, h3, h4. intuition. Qed.

Lemma AInv_AStep s s' : AInv s -> AStep s s' -> AInv s'.
Proof.
  intros (i1 & i2 & i3) (a1 & a2 & a3 & a4 & a5). unfold AInv. rewrite a4, a5. repeat split; [|intuition|intuition].
  intros H. destruct (attempts s) eqn:E; [apply a3; [assumption|reflexivity]|].
  apply a2, i1. discriminate.
Qed.

(* outcome step: either an outcome exists afterwards, or only open attempts were added *)
Definition BStep (s s' : state) : Prop :=
  final_set s' = true
  \/ (tfired s' = tfired s /\ final_set s' = final_set s /\ queue s' = queue s /\ chains s' = chains s /\ refreshes s' = refreshes s
      /\ exists ext, attempts s' = attempts s ++ ext /\ forallb (fun a => aopen a && negb (astale a)) ext = true).

Definition BInv (s : state) : Prop :=
  (tfired s = true -> final_set s = true) /\ (cur_answered s = true -> final_set s = true).

Lemma BStep_refl s : BStep s s.
Proof. right. repeat split. exists []. rewrite app_nil_r. split; reflexivity. Qed.

Lemma BStep_frame s s' : frameL s s' -> fres s' = fres s -> fexc s' = fexc s -> BStep s s'.
Proof.
  intros (h1 & h2 & h3 & h4 & h5 & h6 & h7) hr he. right. unfold final_set. rewrite hr, he, h1, h3, h5, h6, h7. repeat split.
  exists []. rewrite app_nil_r. split; reflexivity.
Qed.

Lemma BStep_trans s1 s2 s3 : BStep s1 s2 -> BStep s2 s3 -> BStep s1 s3.
Proof.
  intros H12 [H|(b1 & b2 & b3 & b6 & b7 & ext2 & b4 & b5)]; [left; assumption|].
  destruct H12 as [H|(a1 & a2 & a3 & a6 & a7 & ext1 & a4 & a5)]; [left; congruence|].
  right. repeat split; try congruence. exists (ext1 ++ ext2). rewrite b4, a4, app_assoc, forallb_app, a5, b5.
  split; reflexivity.
Qed.

Lemma existsb_open_not_answered l :
  existsb (fun a => aopen a && negb (astale a)) l = true -> forallb (fun a => negb (aopen a) || astale a) l = false.
Proof.
  induction l as [|a l IH]; cbn; [discriminate|]. destruct (aopen a), (astale a); cbn; try reflexivity; exact IH.
Qed.

Lemma cur_answered_app_open s s' ext :
  attempts s' = attempts s ++ ext -> forallb (fun a => aopen a && negb (astale a)) ext = true -> queue s' = queue s -> chains s' = chains s ->
  refreshes s' = refreshes s ->
  cur_answered s' = true -> cur_answered s = true /\ ext = [].
Proof.
  intros Ha Ho Hq Hc Hr. unfold cur_answered. rewrite Ha, Hq, Hc, Hr, forallb_app.
  destruct ext as [|x ext].
  - rewrite app_nil_r. cbn. rewrite andb_true_r. intros H. split; [exact H|reflexivity].
  - cbn in Ho. apply andb_prop in Ho. destruct Ho as [Hx _]. apply andb_prop in Hx. destruct Hx as [Hx1 Hx2].
    cbn. rewrite Hx1. destruct (astale x); [discriminate|]. cbn.
    rewrite andb_false_r, andb_false_r. cbn. discriminate.
Qed.

Lemma BInv_BStep s s' : BInv s -> BStep s s' -> BInv s'.
Proof.
  intros (i1 & i2) [H|(b1 & b2 & b3 & b6 & b7 & ext & b4 & b5)]; [split; intros _; exact H|].
  split.
  - rewrite b1, b2. exact i1.
  - intros H. destruct (cur_answered_app_open _ _ _ b4 b5 b3 b6 b7 H) as [H' _]. rewrite b2. apply i2, H'.
Qed.

(* ---- helpers *)
Lemma upd_nth_nil {A} k (f : A -> A) l : upd_nth k f l = [] -> l = [].
Proof. destruct l, k; cbn; congruence. Qed.

Lemma fl_cancel s : frameL s (cancel_timer s).
Proof. unfold cancel_timer. destruct (cur_timer s); repeat split. Qed.

Lemma fl_page_reset s : frameL s (set_start (now s) (set_cur_timer None (cancel_timer s))).
Proof. eapply frameL_trans; [apply fl_cancel|]. repeat split. Qed.

Lemma fl_start_timer s : frameL s (start_timer s).
Proof.
  unfold start_timer. destruct (cur_timer s); [apply frameL_refl|].
  destruct (_ && _); [repeat split|]. destruct (time_remaining _); repeat split.
Qed.

Lemma view_start_timer s : fres (start_timer s) = fres s /\ fexc (start_timer s) = fexc s.
Proof. destruct (sv_start_timer s) as (h1 & h2 & _). split; assumption. Qed.

Lemma fl_set_final_result v s : frameL s (set_final_result g v s).
Proof.
  unfold set_final_result. destruct (g && final_set (cancel_timer s)); [apply fl_cancel|].
  eapply frameL_trans; [apply fl_cancel|]. repeat split.
Qed.

Lemma fl_set_final_exception e s : frameL s (set_final_exception g e s).
Proof.
  unfold set_final_exception. destruct (g && final_set (cancel_timer s)); [apply fl_cancel|].
  eapply frameL_trans; [apply fl_cancel|]. repeat split.
Qed.

Lemma final_after_result v s : final_set (set_final_result g v s) = true.
Proof.
  unfold set_final_result. destruct (g && final_set (cancel_timer s)) eqn:E.
  - apply andb_prop in E. tauto.
  - reflexivity.
Qed.

Lemma final_after_exception e s : final_set (set_final_exception g e s) = true.
Proof.
  unfold set_final_exception. destruct (g && final_set (cancel_timer s)) eqn:E.
  - apply andb_prop in E. tauto.
  - unfold final_set. cbn. apply orb_true_r.
Qed.

(* _query *)
Lemma query_gen_shape prep h s :
  let '(s1, r) := query_gen prep h s in
  queue s1 = queue s /\ paging s1 = paging s /\ tfired s1 = tfired s /\ fres s1 = fres s /\ fexc s1 = fexc s /\
  (cur_conn s <> None -> cur_conn s1 <> None) /\
  match r with
  | Some _ => attempts s1 = attempts s ++ [mkAtt h true false prep] /\ cur_conn s1 <> None
  | None => attempts s1 = attempts s
  end.
Proof.
  unfold query_gen. destruct (pool_of _ _); cbn; repeat split; try (intros _; discriminate); try discriminate; try tauto.
Qed.

Lemma query_shape h s :
  let '(s1, r) := query h s in
  queue s1 = queue s /\ paging s1 = paging s /\ tfired s1 = tfired s /\ fres s1 = fres s /\ fexc s1 = fexc s /\
  (cur_conn s <> None -> cur_conn s1 <> None) /\
  match r with
  | Some _ => attempts s1 = attempts s ++ [mkAtt h true false false] /\ cur_conn s1 <> None
  | None => attempts s1 = attempts s
  end.
Proof. exact (query_gen_shape false h s). Qed.

Lemma query_chains h s : chains (fst (query h s)) = chains s.
Proof. unfold query, query_gen. destruct (pool_of _ _); reflexivity. Qed.

Lemma query_refreshes h s : refreshes (fst (query h s)) = refreshes s.
Proof. unfold query, query_gen. destruct (pool_of _ _); reflexivity. Qed.

Lemma AStep_tfired b s : AStep s (set_tfired b s).
Proof. unfold AStep. cbn. tauto. Qed.

Lemma on_timeout_A n s : AStep s (on_timeout g n s).
Proof.
  unfold on_timeout. destruct (cur_conn s) eqn:Ec.
  - destruct (cur_req s); [destruct (req_open_on _ _ _)|].
    + eapply AStep_trans; [|apply AStep_frame, fl_set_final_exception].
      unfold AStep. cbn. rewrite Ec. repeat split; try discriminate.
      intros H E. apply upd_nth_nil in E. contradiction.
    + eapply AStep_trans; [|apply AStep_frame, fl_set_final_exception]. apply AStep_tfired.
    + eapply AStep_trans; [|apply AStep_frame, fl_set_final_exception]. apply AStep_tfired.
  - destruct (n <? 3)%nat; [apply AStep_frame; repeat split|].
    eapply AStep_trans; [|apply AStep_frame, fl_set_final_exception]. apply AStep_tfired.
Qed.

Lemma on_timeout_B n s : BStep s (on_timeout g n s).
Proof.
  unfold on_timeout. destruct (cur_conn s) eqn:Ec.
  - left. destruct (cur_req s); [destruct (req_open_on _ _ _)|]; apply final_after_exception.
  - destruct (n <? 3)%nat; [apply BStep_frame; repeat split|]. left. apply final_after_exception.
Qed.

Lemma on_timeout_final n s : cur_conn s <> None -> final_set (on_timeout g n s) = true.
Proof.
  intros Hc. unfold on_timeout. destruct (cur_conn s); [|contradiction].
  destruct (cur_req s); [destruct (req_open_on _ _ _)|]; apply final_after_exception.
Qed.

Lemma send_loop_A err : forall pl s, AStep s (send_loop g err pl s).
Proof.
  induction pl as [|h rest IH]; intros s; cbn [send_loop].
  - destruct err; [|apply AStep_frame; repeat split].
    eapply AStep_trans; [|apply AStep_frame, fl_set_final_exception]. apply AStep_frame. repeat split.
  - pose proof (query_shape h s) as Hq. destruct (query h s) as [s1 r].
    destruct Hq as (q1 & q2 & q3 & q4 & q5 & q6 & q7).
    assert (Hs1 : AStep s s1).
    { unfold AStep. rewrite q1, q2. destruct r.
      - destruct q7 as (q7 & q8). rewrite q7. repeat split; try assumption.
        + intros _ E. apply app_eq_nil in E. destruct E; discriminate.
        + intros _ _. exact q8.
      - rewrite q7. repeat split; try assumption; tauto. }
    destruct r.
    + eapply AStep_trans; [exact Hs1|]. apply AStep_frame. repeat split.
    + destruct (timed_out_now s1).
      * eapply AStep_trans; [exact Hs1|]. eapply AStep_trans; [|apply on_timeout_A]. apply AStep_frame. repeat split.
      * eapply AStep_trans; [exact Hs1|apply IH].
Qed.

Lemma send_loop_B err : forall pl s, BStep s (send_loop g err pl s).
Proof.
  induction pl as [|h rest IH]; intros s; cbn [send_loop].
  - destruct err; [left; apply final_after_exception|apply BStep_frame; repeat split].
  - pose proof (query_shape h s) as Hq. pose proof (query_chains h s) as Hqc. pose proof (query_refreshes h s) as Hqr.
    destruct (query h s) as [s1 r].
    destruct Hq as (q1 & q2 & q3 & q4 & q5 & q6 & q7). cbn [fst] in Hqc, Hqr.
    assert (Hs1 : BStep s s1).
    { right. unfold final_set. rewrite q1, q3, q4, q5, Hqc, Hqr. repeat split. destruct r.
      - destruct q7 as (q7 & _). exists [mkAtt h true false false]. split; [exact q7|reflexivity].
      - exists []. rewrite app_nil_r. split; [exact q7|reflexivity]. }
    destruct r.
    + eapply BStep_trans; [exact Hs1|]. apply BStep_frame; repeat split.
    + destruct (timed_out_now s1).
      * eapply BStep_trans; [exact Hs1|]. eapply BStep_trans; [|apply on_timeout_B]. apply BStep_frame; repeat split.
      * eapply BStep_trans; [exact Hs1|apply IH].
Qed.

(* with a known connection, send_request(error_no_hosts=True) ends with an outcome or a request in flight *)
Lemma send_loop_progress : forall pl s, cur_conn s <> None ->
  final_set (send_loop g true pl s) = true \/ existsb (fun a => aopen a && negb (astale a)) (attempts (send_loop g true pl s)) = true.
Proof.
  induction pl as [|h rest IH]; intros s Hc; cbn [send_loop].
  - left. apply final_after_exception.
  - pose proof (query_shape h s) as Hq. destruct (query h s) as [s1 r].
    destruct Hq as (q1 & q2 & q3 & q4 & q5 & q6 & q7). destruct r.
    + right. destruct q7 as (q7 & _). cbn. rewrite q7, existsb_app. cbn. apply orb_true_r.
    + destruct (timed_out_now s1).
      * left. apply on_timeout_final. cbn. apply q6, Hc.
      * apply IH. apply q6, Hc.
Qed.

Lemma on_spec_A s : AStep s (on_spec g s).
Proof.
  unfold on_spec. set (s0 := set_cur_timer None s).
  assert (H0 : AStep s s0) by (apply AStep_frame; repeat split).
  change (event s0) with (event s). change (attempts s0) with (attempts s).
  destruct (event s); [assumption|]. destruct (attempts s).
  - eapply AStep_trans; [exact H0|]. apply AStep_frame. repeat split.
  - match goal with |- context [if ?c then _ else _] => destruct c end.
    + eapply AStep_trans; [exact H0|apply on_timeout_A].
    + eapply AStep_trans; [exact H0|]. eapply AStep_trans; [apply send_loop_A|apply AStep_frame, fl_start_timer].
Qed.

Lemma on_spec_B s : BStep s (on_spec g s).
Proof.
  unfold on_spec. set (s0 := set_cur_timer None s).
  assert (H0 : BStep s s0) by (apply BStep_frame; repeat split).
  change (event s0) with (event s). change (attempts s0) with (attempts s).
  destruct (event s); [assumption|]. destruct (attempts s).
  - eapply BStep_trans; [exact H0|]. apply BStep_frame; repeat split.
  - match goal with |- context [if ?c then _ else _] => destruct c end.
    + eapply BStep_trans; [exact H0|apply on_timeout_B].
    + eapply BStep_trans; [exact H0|]. eapply BStep_trans; [apply send_loop_B|].
      destruct (view_start_timer (send_request g false s0)) as (h1 & h2).
      apply BStep_frame; [apply fl_start_timer|exact h1|exact h2].
Qed.

Lemma forallb_close_stale : forall l a at_, nth_error l a = Some at_ -> astale at_ = true ->
  forallb (fun a => negb (aopen a) || astale a) (upd_nth a close l) = forallb (fun a => negb (aopen a) || astale a) l.
Proof.
  induction l as [|x l IH]; intros a at_ Hn Hs; [destruct a; discriminate|].
  destruct a; cbn in *.
  - inversion Hn. subst x. rewrite Hs. rewrite !orb_true_r. reflexivity.
  - rewrite (IH a at_ Hn Hs). reflexivity.
Qed.

Lemma final_after_rows v more s : final_set (set_final_rows g v more s) = true.
Proof.
  unfold set_final_rows. destruct (g && final_set (cancel_timer s)) eqn:E.
  - apply andb_prop in E. tauto.
  - reflexivity.
Qed.

Lemma rows_frame v more s :
  attempts (set_final_rows g v more s) = attempts s /\ cur_conn (set_final_rows g v more s) = cur_conn s
  /\ queue (set_final_rows g v more s) = queue s.
Proof.
  unfold set_final_rows. destruct (fl_cancel s) as (c1 & c2 & c3 & _).
  destruct (g && final_set (cancel_timer s)); cbn; rewrite c1, c2, c3; repeat split.
Qed.

Definition LInv (s : state) : Prop := AInv s /\ BInv s.

Lemma LInv_steps s s' : LInv s -> AStep s s' -> BStep s s' -> LInv s'.
Proof. intros (Ha & Hb) H1 H2. split; [eapply AInv_AStep|eapply BInv_BStep]; eassumption. Qed.

Lemma remove_nth_some {A} : forall k (l : list A) x, nth_error l k = Some x -> l <> [].
Proof. intros k l x H E. subst l. destruct k; discriminate. Qed.

Lemma LInv_final s' : AInv s' -> final_set s' = true -> LInv s'.
Proof. intros Ha Hf. split; [exact Ha|]. split; intros _; exact Hf. Qed.

Lemma nth_upd_nth_same {A} (f : A -> A) : forall k l, nth_error (upd_nth k f l) k = option_map f (nth_error l k).
Proof. induction k as [|k IH]; intros l; destruct l as [|x l]; cbn; try reflexivity. apply IH. Qed.

Lemma LInv_submit t s1 : AInv s1 -> attempts s1 <> [] -> (tfired s1 = true -> final_set s1 = true) -> LInv (submit_task g t s1).
Proof.
  intros HA Hne HB. unfold submit_task. destruct (shut s1).
  - apply LInv_final; [|apply final_after_exception].
    eapply AInv_AStep; [exact HA|apply AStep_frame, fl_set_final_exception].
  - destruct HA as (h1 & h2 & h3). split; [|split].
    + unfold AInv. cbn. repeat split; tauto.
    + exact HB.
    + unfold cur_answered. cbn [queue set_queue]. destruct (queue s1); cbn; rewrite !andb_false_r; discriminate.
Qed.

Lemma LInv_step pf s o : LInv s -> LInv (step g pf s o).
Proof.
  intros H. destruct o as [|ps|d|a k|k|k|pl| | |c hh err|a pk|fh| |kk]; cbn [step].
  - (* Send *)
    eapply LInv_steps; [exact H| |].
    + eapply AStep_trans; [|apply send_loop_A]. apply AStep_frame. repeat split.
    + eapply BStep_trans; [|apply send_loop_B]. apply BStep_frame; repeat split.
  - eapply LInv_steps; [exact H|apply AStep_frame|apply BStep_frame]; repeat split.
  - eapply LInv_steps; [exact H|apply AStep_frame|apply BStep_frame]; repeat split.
  - (* Resp *)
    destruct (nth_error (attempts s) a) as [at_|] eqn:En; [|assumption]. destruct (aopen at_ && negb (aprep at_)); [|assumption].
    set (s1 := clear_req a (set_attempts (upd_nth a close (attempts s)) s)).
    destruct H as ((A1 & A2 & A3) & (B1 & B2)).
    assert (Hne : attempts s <> []) by (eapply remove_nth_some; exact En).
    assert (HA1 : AInv s1).
    { unfold AInv, s1. cbn. repeat split; try tauto; intros _ E; apply upd_nth_nil in E; contradiction. }
    assert (Hfin_r : forall v s2, AInv s2 -> LInv (set_final_result g v s2)).
    { intros v s2 Hs2. apply LInv_final; [|apply final_after_result].
      eapply AInv_AStep; [exact Hs2|apply AStep_frame, fl_set_final_result]. }
    assert (Hfin_e : forall e s2, AInv s2 -> LInv (set_final_exception g e s2)).
    { intros e s2 Hs2. apply LInv_final; [|apply final_after_exception].
      eapply AInv_AStep; [exact Hs2|apply AStep_frame, fl_set_final_exception]. }
    assert (Hne1 : attempts s1 <> []) by (cbn; intros E; apply upd_nth_nil in E; contradiction).
    assert (Hretry : forall reuse, LInv (retry g reuse (ahost at_) s1)).
    { intros reuse. unfold retry. set (s2 := set_retries (retries s1 + 1) s1).
      change (fexc s2) with (fexc s).
      destruct (fexc s) eqn:Ee; cbn [is_some].
      - apply LInv_final; [exact HA1|]. unfold final_set. cbn. rewrite Ee. apply orb_true_r.
      - apply LInv_submit; [exact HA1|exact Hne1|exact B1]. }
    destruct (astale at_) eqn:Est.
    { split; [exact HA1|]. split; [exact B1|]. intros Hall. apply B2.
      unfold cur_answered in *. cbn [attempts queue chains refreshes s1 set_attempts clear_req set_cur_req] in Hall.
      rewrite (forallb_close_stale _ _ _ En Est) in Hall.
      destruct (attempts s) eqn:Ea; [contradiction|].
      destruct (upd_nth a close (a0 :: l)) eqn:Eu; [apply upd_nth_nil in Eu; discriminate|]. exact Hall. }
    destruct k as [more| |d| | | | |]; cbn [set_result].
    + apply LInv_final; [|apply final_after_rows].
      destruct (rows_frame (10 + Z.of_nat a) more s1) as (r1 & r2 & r3).
      destruct HA1 as (h1 & h2 & h3). unfold AInv. rewrite r1, r2, r3. repeat split; try assumption.
      intros _. cbn. intros E. apply upd_nth_nil in E. contradiction.
    + apply Hfin_r, HA1.
    + destruct d; [apply Hretry|apply Hretry|apply Hfin_e, HA1|apply Hfin_r, HA1].
    + apply Hfin_e, HA1.
    + apply LInv_submit; [exact HA1|exact Hne1|exact B1].
    + unfold start_refresh. change (shut s1) with (shut s). destruct (shut s); [apply Hfin_r, HA1|].
      split; [exact HA1|]. split; [exact B1|].
      unfold cur_answered. cbn [refreshes set_refreshes]. cbn [Nat.eqb]. rewrite !andb_false_r. discriminate.
    + unfold start_chain. change (pools s1) with (pools s). destruct (ks_hosts (pools s)) as [|h0 hs0]; [apply Hfin_r, HA1|].
      split; [exact HA1|]. split; [exact B1|].
      unfold cur_answered. cbn [chains set_chains]. rewrite forallb_app. cbn. rewrite !andb_false_r. discriminate.
    + apply Hfin_e. eapply AInv_AStep; [exact HA1|apply AStep_frame, fl_cancel].
  - (* Fire *)
    destruct (nth_error (timers s) k) as [t|]; [|assumption].
    destruct (live t && (due t <=? now s)); [|assumption].
    set (s1 := set_timers (upd_nth k mark_fired (timers s)) s).
    assert (HA : AStep s s1) by (apply AStep_frame; repeat split).
    assert (HB : BStep s s1) by (apply BStep_frame; repeat split).
    destruct (tk t).
    + eapply LInv_steps; [exact H|eapply AStep_trans; [exact HA|apply on_spec_A]|eapply BStep_trans; [exact HB|apply on_spec_B]].
    + eapply LInv_steps; [exact H|eapply AStep_trans; [exact HA|apply on_timeout_A]|eapply BStep_trans; [exact HB|apply on_timeout_B]].
  - (* Run *)
    destruct (nth_error (queue s) k) as [t|] eqn:En; [|assumption].
    set (s1 := set_queue (remove_nth k (queue s)) s).
    destruct H as ((A1 & A2 & A3) & (B1 & B2)).
    assert (Hq : queue s <> []) by (eapply remove_nth_some; exact En).
    assert (Hne : attempts s <> []) by tauto.
    assert (Hc : cur_conn s <> None) by tauto.
    assert (HA1 : AInv s1) by (unfold AInv; cbn; repeat split; tauto).
    assert (Hfexc : forall z, fexc s = Some z -> LInv s1).
    { intros z Ee. apply LInv_final; [exact HA1|]. unfold final_set. cbn. rewrite Ee. apply orb_true_r. }
    assert (Hfin_e : forall e, LInv (set_final_exception g e s1)).
    { intros e. apply LInv_final; [|apply final_after_exception].
      eapply AInv_AStep; [exact HA1|apply AStep_frame, fl_set_final_exception]. }
    assert (Hsend : forall s2, attempts s2 <> [] -> cur_conn s2 <> None -> paging s2 = paging s ->
              tfired s2 = tfired s -> final_set s2 = final_set s -> LInv (send_request g true s2)).
    { intros s2 h1 h2 h3 h4 h5.
      pose proof (send_loop_A true (plan s2) s2) as (a1 & a2 & a3 & a4 & a5).
      pose proof (send_loop_B true (plan s2) s2) as HBs.
      fold (send_request g true s2) in *.
      split.
      - unfold AInv. repeat split; intros; [apply a2, h2|apply a1, h1|apply a1, h1].
      - split.
        + destruct HBs as [Hf|(b1 & b2 & _)]; [intros _; exact Hf|]. rewrite b1, b2, h4, h5. exact B1.
        + intros Hall. destruct (send_loop_progress (plan s2) s2 h2) as [Hf|Ho]; [exact Hf|].
          fold (send_request g true s2) in Ho.
          apply existsb_open_not_answered in Ho. unfold cur_answered in Hall. rewrite Ho in Hall.
          rewrite andb_false_r in Hall. discriminate. }
    assert (Hqs : forall prep h, LInv (let '(s2, r) := query_gen prep h s1 in
                                       match r with Some _ => s2 | None => send_request g true s2 end)).
    { intros prep h. pose proof (query_gen_shape prep h s1) as Hqs. destruct (query_gen prep h s1) as [s2 r].
      destruct Hqs as (q1 & q2 & q3 & q4 & q5 & q6 & q7). destruct r.
      + destruct q7 as (q7 & q8). split.
        * unfold AInv. rewrite q7, q2. repeat split; intros; try assumption;
            intros E; apply app_eq_nil in E; destruct E; discriminate.
        * split.
          -- unfold final_set. rewrite q3, q4, q5. exact B1.
          -- unfold cur_answered. rewrite q7, forallb_app. cbn. rewrite andb_false_r, andb_false_r. discriminate.
      + apply Hsend.
        * rewrite q7. exact Hne.
        * apply q6. exact Hc.
        * rewrite q2. reflexivity.
        * rewrite q3. reflexivity.
        * unfold final_set. rewrite q4, q5. reflexivity. }
    destruct t as [reuse h|h|h a0 pk]; cbn [run_task].
    + unfold retry_task. change (fexc s1) with (fexc s). destruct (fexc s) eqn:Ee; cbn [is_some]; [exact (Hfexc _ eq_refl)|].
      destruct reuse; [exact (Hqs false h)|apply Hsend; try reflexivity; assumption].
    + exact (Hqs true h).
    + unfold after_prepare. change (fexc s1) with (fexc s). destruct (fexc s) eqn:Ee; cbn [is_some]; [exact (Hfexc _ eq_refl)|].
      destruct pk; [exact (Hqs false h)|apply Hfin_e|apply Hfin_e|apply Hsend; try reflexivity; assumption|apply Hfin_e].
  - (* NextPage *)
    destruct (paging s) eqn:Ep; [|assumption].
    destruct H as ((A1 & A2 & A3) & (B1 & B2)).
    assert (Hne : attempts s <> []) by tauto.
    assert (Hc : cur_conn s <> None) by tauto.
    unfold next_page.
    set (s2 := page_timer_reset pf (page_reset pl s)).
    assert (F2 : attempts s2 = map make_stale (attempts s) /\ cur_conn s2 = cur_conn s /\ queue s2 = queue s /\ paging s2 = paging s /\ tfired s2 = false).
    { unfold s2, page_timer_reset. destruct pf; [|repeat split].
      destruct (fl_page_reset (page_reset pl s)) as (c1 & c2 & c3 & c4 & c5 & _ & _).
      rewrite c1, c2, c3, c4, c5. repeat split. }
    destruct F2 as (f1 & f2 & f3 & f4 & f5).
    destruct (fl_start_timer s2) as (t1 & t2 & t3 & t4 & t5 & _ & _).
    set (s3 := start_timer s2) in *.
    pose proof (send_loop_A true (plan s3) s3) as (a1 & a2 & a3 & a4 & a5).
    pose proof (send_loop_B true (plan s3) s3) as HBs.
    fold (send_request g true s3) in *.
    assert (h1 : attempts s3 <> []).
    { rewrite t1, f1. destruct (attempts s); [contradiction|discriminate]. }
    assert (h2 : cur_conn s3 <> None) by congruence.
    split.
    + unfold AInv. repeat split; intros; [apply a2, h2|apply a1, h1|apply a1, h1].
    + split.
      * destruct HBs as [Hf|(b1 & _)]; [intros _; exact Hf|]. rewrite b1, t5, f5. discriminate.
      * intros Hall. destruct (send_loop_progress (plan s3) s3 h2) as [Hf|Ho]; [exact Hf|].
        fold (send_request g true s3) in Ho.
        apply existsb_open_not_answered in Ho. unfold cur_answered in Hall. rewrite Ho in Hall.
        rewrite andb_false_r in Hall. discriminate.
  - eapply LInv_steps; [exact H|apply AStep_frame|apply BStep_frame]; repeat split.
  - destruct (result_call s); [|assumption].
    eapply LInv_steps; [exact H|apply AStep_frame|apply BStep_frame]; repeat split.
  - (* KsReport *)
    unfold ks_report. destruct (nth_error (chains s) c) as [[hs e]|] eqn:En; [|assumption].
    destruct (mem_z hh hs); [|assumption].
    destruct H as (HA & (B1 & B2)).
    set (s1 := set_chains (upd_nth c (fun _ => (remove_z hh hs, e || err)) (chains s)) s).
    assert (HA1 : AInv s1) by exact HA.
    destruct (remove_z hh hs) as [|x0 l0] eqn:Er.
    + destruct (e || err).
      * apply LInv_final; [|apply final_after_exception].
        eapply AInv_AStep; [exact HA1|apply AStep_frame, fl_set_final_exception].
      * apply LInv_final; [|apply final_after_result].
        eapply AInv_AStep; [exact HA1|apply AStep_frame, fl_set_final_result].
    + split; [exact HA1|]. split; [exact B1|].
      intros Hall. exfalso. unfold cur_answered in Hall. apply andb_prop in Hall. destruct Hall as (Hall & _).
      apply andb_prop in Hall. destruct Hall as (_ & Hall).
      cbn [chains s1 set_chains] in Hall. rewrite forallb_forall in Hall.
      assert (Hin : In (x0 :: l0, e || err) (upd_nth c (fun _ => (x0 :: l0, e || err)) (chains s))).
      { eapply nth_error_In. rewrite nth_upd_nth_same. rewrite En. reflexivity. }
      specialize (Hall _ Hin). discriminate.
  - (* PResp *)
    destruct (nth_error (attempts s) a) as [at_|] eqn:En; [|assumption]. destruct (aopen at_ && aprep at_); [|assumption].
    destruct H as ((A1 & A2 & A3) & (B1 & B2)).
    assert (Hne : attempts s <> []) by (eapply remove_nth_some; exact En).
    apply LInv_submit; [| |exact B1].
    + unfold AInv. cbn. repeat split; try tauto; intros _ E; apply upd_nth_nil in E; contradiction.
    + cbn. intros E. apply upd_nth_nil in E. contradiction.
  - assumption.
  - (* Shutdown *)
    eapply LInv_steps; [exact H|apply AStep_frame|apply BStep_frame]; repeat split.
  - (* RunRefresh *)
    destruct (refreshes s) as [|n] eqn:Er; [assumption|]. destruct (kk <=? n)%nat; [|assumption].
    destruct H as (HA & _). apply LInv_final; [|apply final_after_result].
    eapply AInv_AStep; [|apply AStep_frame, fl_set_final_result]. exact HA.
Qed.

Lemma LInv_init c : LInv (init c).
Proof.
  unfold init. match goal with |- LInv (start_timer ?x) => set (s0 := x) end.
  assert (H0 : LInv s0).
  { split; [unfold AInv; cbn; repeat split; intros; congruence|split; cbn; discriminate]. }
  destruct (view_start_timer s0) as (h1 & h2).
  eapply LInv_steps; [exact H0|apply AStep_frame, fl_start_timer|apply BStep_frame; [apply fl_start_timer|exact h1|exact h2]].
Qed.

Lemma LInv_run pf : forall h s, LInv s -> LInv (run g pf s h).
Proof. induction h as [|o h IH]; intros s H; [exact H|]. cbn. apply IH, LInv_step, H. Qed.

End Live.

(* ================================================================ 3. the statement of C14 *)
Definition C14_holds_at (s : state) : Prop :=
  (forall p, In p (pairs s) -> pair_once p = true /\ pair_reports s p = true)
  /\ (all_answered s = true \/ tfired s = true -> delivered s = true).

Lemma all_answered_cur s : all_answered s = true -> cur_answered s = true.
Proof.
  unfold all_answered, cur_answered. rewrite !andb_true_iff. intros ((((h1 & h2) & h3) & h4) & h5).
  repeat split; try assumption. rewrite forallb_forall in *. intros a Ha. rewrite (h2 a Ha). reflexivity.
Qed.

Lemma C14_from_invariants s : SInv s -> LInv s -> C14_holds_at s.
Proof.
  intros HS (_ & (B1 & B2)). split.
  - intros p Hin. apply SInv_once; assumption.
  - intros [H|H]; apply SInv_delivered; auto. apply B2, all_answered_cur, H.
Qed.

Lemma C14_guarded pf c h : C14_holds_at (run true pf (init c) h).
Proof.
  apply C14_from_invariants; [apply SInv_run, SInv_init|apply LInv_run, LInv_init].
Qed.

Lemma c14_ok_iff s : c14_ok s = true <-> C14_holds_at s.
Proof.
  unfold c14_ok, C14_holds_at. rewrite andb_true_iff, forallb_forall. split.
  - intros (H1 & H2). split.
    + intros p Hin. specialize (H1 p Hin). apply andb_true_iff in H1. exact H1.
    + intros Hor. destruct (all_answered s || tfired s) eqn:E; [exact H2|].
      apply orb_false_iff in E. destruct E as (E1 & E2). destruct Hor; congruence.
  - intros (H1 & H2). split.
    + intros p Hin. apply andb_true_iff, H1, Hin.
    + destruct (all_answered s || tfired s) eqn:E; [|reflexivity]. apply H2. apply orb_true_iff in E. exact E.
Qed.

(* propositional reading of the boolean twins *)
Lemma pair_once_spec p : pair_once p = true <-> (length (cbs p) + length (ebs p) <= 1)%nat.
Proof. unfold pair_once. apply Nat.leb_le. Qed.

Lemma pair_reports_spec s p : pair_reports s p = true ->
  (forall v, In v (cbs p) -> result_call s = Some (0, v)) /\ (forall e, In e (ebs p) -> result_call s = Some (1, e)).
Proof.
  unfold pair_reports. rewrite andb_true_iff, !forallb_forall. intros (H1 & H2). split.
  - intros v Hin. specialize (H1 v Hin). destruct (result_call s) as [[[| |] w]|]; try discriminate.
    apply Z.eqb_eq in H1. subst. reflexivity.
  - intros e Hin. specialize (H2 e Hin). destruct (result_call s) as [[[|[| |]|] w]|]; try discriminate.
    apply Z.eqb_eq in H2. subst. reflexivity.
Qed.

Lemma delivered_spec s : delivered s = true ->
  event s = true /\ final_set s = true /\ forall p, In p (pairs s) -> (length (cbs p) + length (ebs p) = 1)%nat.
Proof.
  unfold delivered. rewrite !andb_true_iff, forallb_forall. intros ((H1 & H2) & H3). repeat split; try assumption.
  intros p Hin. apply Nat.eqb_eq, H3, Hin.
Qed.
