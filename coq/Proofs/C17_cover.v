(* C17, exhaustion coverage: while the request has no outcome, every host taken from the plan is either listed in _errors
   or still has something open (an unanswered attempt or a queued executor task). *)
From Coq Require Import ZArith List Bool Lia.
From Verif Require Import PyBase FutbProto FutB FutB_lemmas FutB_steps FutB_origin C17_proofs.
Import ListNotations.
Local Open Scope Z_scope.

Definition open_hosts (s : state) : list host :=
  map a_host (filter (fun a => negb (a_done a)) (attempts s)) ++ map task_host (queue s).

Definition covered (s : state) (h : host) : Prop := In h (keys (errors s)) \/ In h (open_hosts s).

(* all consumed hosts except those in X are covered; retry tasks always concern a host with an _errors entry *)
Definition Jx (s : state) (X : list host) : Prop :=
  (forall h, In h (consumed s) -> In h X \/ covered s h) /\
  (forall reuse h, In (TRetry reuse h) (queue s) -> In h (keys (errors s))).

Definition same_cover (s s' : state) : Prop :=
  consumed s' = consumed s /\ errors s' = errors s /\ attempts s' = attempts s /\ queue s' = queue s.

Lemma same_cover_sbo s s' : same_but_outcome s s' -> same_cover s s'.
Proof. intros F. destruct F. repeat split; assumption. Qed.

Lemma Jx_same s s' X : same_cover s s' -> Jx s X -> Jx s' X.
Proof.
  intros (C & E & A & Q) [J1 J2]. unfold Jx, covered, open_hosts. rewrite C, E, A, Q. split; assumption.
Qed.

Lemma Jx_set_err s X h e : Jx s X -> Jx (set_err s h e) X /\ covered (set_err s h e) h.
Proof.
  intros [J1 J2]. split; [split|].
  - intros x Hx. destruct (J1 x Hx) as [G|[G|G]]; [left; exact G| |right; right; exact G].
    right; left. cbn [errors set_err]. apply keys_upd. auto.
  - intros reuse x Hx. cbn [errors set_err]. apply keys_upd. right. eapply J2; eauto.
  - left. cbn [errors set_err]. apply keys_upd. auto.
Qed.

Lemma open_add_attempt s h p x : In x (open_hosts (add_attempt s h p)) <-> x = h \/ In x (open_hosts s).
Proof.
  unfold open_hosts. cbn [attempts queue add_attempt]. rewrite filter_app, map_app, !in_app_iff. cbn. intuition congruence.
Qed.

Lemma Jx_add_attempt s X h p : Jx s X -> Jx (add_attempt s h p) X /\ covered (add_attempt s h p) h.
Proof.
  intros [J1 J2]. split; [split|].
  - intros x Hx. destruct (J1 x Hx) as [G|[G|G]]; [left; exact G|right; left; exact G|].
    right; right. apply open_add_attempt. auto.
  - exact J2.
  - right. apply open_add_attempt. auto.
Qed.

Lemma Jx_query s X h m cz s' ev ok : Jx s X -> query s h m cz = (s', ev, ok) -> Jx s' X /\ covered s' h.
Proof.
  rewrite query_eq. intros J H.
  assert (J' : Jx (touch s (pool_of s h)) X) by (eapply Jx_same; [|exact J]; repeat split).
  destruct (reason (pool_of s h)); inversion H; subst.
  - apply Jx_set_err; assumption.
  - apply Jx_add_attempt; assumption.
Qed.

Lemma covered_mono_set_exc s x h : covered (set_exc s x) h <-> covered s h.
Proof. reflexivity. Qed.

Lemma Jx_walk : forall p s b s' ev X, Jx s X -> walk s p b = (s', ev) -> Jx s' X.
Proof.
  induction p as [|h rest IH]; intros s b s' ev X J H.
  - cbn in H. inversion H; subst. destruct b; [|exact J]. eapply Jx_same; [|exact J]. apply same_cover_sbo, fail_with_same.
  - cbn [walk] in H.
    assert (J0 : Jx (take_host s h rest) (h :: X)).
    { destruct J as [J1 J2]. split; [|exact J2]. intros x Hx. cbn [consumed take_host] in Hx.
      apply in_app_iff in Hx. destruct Hx as [Hx|[<-|[]]]; [|left; left; reflexivity].
      destruct (J1 x Hx) as [G|G]; [left; right; exact G|right; exact G]. }
    destruct (query (take_host s h rest) h (MOrig (msg_cl s)) CPlan) as [[s1 ev1] ok] eqn:Q.
    destruct (Jx_query _ _ _ _ _ _ _ _ J0 Q) as [[K1 K2] Ch].
    assert (J1' : Jx s1 X).
    { split; [|exact K2]. intros x Hx. destruct (K1 x Hx) as [[<-|G]|G]; auto. }
    destruct ok; [inversion H; subst; exact J1'|].
    destruct (elapsed s1).
    { inversion H; subst. eapply Jx_same; [|exact J1'].
      destruct (on_timeout_same s1) as [[_ F]|[_ E]]; [apply same_cover_sbo; exact F|rewrite E; repeat split]. }
    destruct (walk s1 rest b) as [s2 ev2] eqn:W. inversion H; subst. eapply IH; eauto.
Qed.

Lemma covered_walk p s b s' ev h : walk s p b = (s', ev) -> covered s h -> covered s' h.
Proof.
  intros W [C|C].
  - left. eapply walk_errors_mono; eauto.
  - right. pose proof (walk_frame_ok _ _ _ _ _ W) as F. apply walk_walked in W. unfold open_hosts in *.
    rewrite (wf_queue _ _ F). apply in_app_iff in C. apply in_app_iff. destruct C as [C|C]; auto. left.
    destruct W as [sk h0 rest Hp Hsk Hh Hplan Hcons Hev Hatt Hexc Harm | Hsk Hplan Hcons Hev Hatt Hexc Harm
                  | sk rest Hp Hne Hsk Hplan Hcons Hev Hatt Hel Hexc Harm]; rewrite Hatt.
    + rewrite filter_app, map_app. apply in_app_iff. auto.
    + exact C.
    + exact C.
Qed.

Lemma Jx_qon s X h m cz s' ev : Jx s X -> query_or_next s h m cz = (s', ev) -> Jx s' X /\ covered s' h.
Proof.
  unfold query_or_next. intros J H. destruct (query s h m cz) as [[s1 ev1] ok] eqn:Q.
  destruct (Jx_query _ _ _ _ _ _ _ _ J Q) as [J1 C1].
  destruct ok; [inversion H; subst; auto|].
  destruct (send_request s1 true) as [s2 ev2] eqn:W. inversion H; subst. unfold send_request in W.
  split; [eapply Jx_walk; eauto|eapply covered_walk; eauto].
Qed.

Lemma Jx_resolve s h : Jx s [h] -> covered s h -> Jx s [].
Proof. intros [J1 J2] C. split; [|exact J2]. intros x Hx. destruct (J1 x Hx) as [[<-|[]]|G]; auto. Qed.

(* taking an attempt / a task away uncovers at most its host *)
Lemma open_mark_done i l a x : nth_error l i = Some a ->
  In x (map a_host (filter (fun a => negb (a_done a)) l)) ->
  x = a_host a \/ In x (map a_host (filter (fun a => negb (a_done a)) (mark_done i l))).
Proof.
  revert i. induction l as [|b l IH]; intros [|i] N Hin; cbn in N; try discriminate.
  - inversion N; subst. cbn [mark_done filter a_done negb]. cbn [filter] in Hin.
    destruct (negb (a_done a)); [destruct Hin as [<-|Hin]; auto|auto].
  - cbn [mark_done filter] in *. destruct (negb (a_done b)).
    + destruct Hin as [<-|Hin]; [right; left; reflexivity|]. destruct (IH i N Hin); auto. right. right. assumption.
    + apply (IH i N Hin).
Qed.

Lemma remove_nth_in {A} (l : list A) k t x : nth_error l k = Some t -> In x l -> x = t \/ In x (remove_nth k l).
Proof.
  revert k. induction l as [|b l IH]; intros [|k] N Hin; cbn in N; try discriminate.
  - inversion N; subst. destruct Hin; auto.
  - cbn. destruct Hin as [<-|Hin]; auto. destruct (IH k N Hin); auto.
Qed.

Lemma Jx_done s i a : nth_error (attempts s) i = Some a -> Jx s [] ->
  Jx (set_attempts s (mark_done i (attempts s))) [a_host a].
Proof.
  intros N [J1 J2]. split; [|exact J2]. intros x Hx. destruct (J1 x Hx) as [[]|[G|G]]; [right; left; exact G|].
  unfold open_hosts in G. apply in_app_iff in G. destruct G as [G|G].
  - destruct (open_mark_done _ _ _ _ N G) as [->|G']; [left; left; reflexivity|].
    right; right. unfold open_hosts. apply in_app_iff. left. exact G'.
  - right; right. unfold open_hosts. apply in_app_iff. right. exact G.
Qed.

Lemma Jx_deq s k t : nth_error (queue s) k = Some t -> Jx s [] ->
  Jx (set_queue s (remove_nth k (queue s))) [task_host t].
Proof.
  intros N [J1 J2]. split.
  - intros x Hx. destruct (J1 x Hx) as [[]|[G|G]]; [right; left; exact G|].
    unfold open_hosts in G. apply in_app_iff in G. destruct G as [G|G].
    + right; right. unfold open_hosts. apply in_app_iff. left. exact G.
    + apply in_map_iff in G. destruct G as (t0 & <- & Ht).
      destruct (remove_nth_in _ _ _ _ N Ht) as [->|G']; [left; left; reflexivity|].
      right; right. unfold open_hosts. apply in_app_iff. right. apply in_map. exact G'.
  - intros reuse h Hin. eapply J2. eapply in_remove_nth. exact Hin.
Qed.

Lemma Jx_push s X t : (forall reuse h, t = TRetry reuse h -> In h (keys (errors s))) -> Jx s X ->
  Jx (push_task s t) X /\ covered (push_task s t) (task_host t).
Proof.
  intros T [J1 J2]. split; [split|].
  - intros x Hx. destruct (J1 x Hx) as [G|[G|G]]; [left; exact G|right; left; exact G|]. right; right.
    unfold open_hosts in *. cbn [attempts queue push_task]. rewrite map_app. apply in_app_iff in G. apply in_app_iff.
    destruct G as [G|G]; [left; exact G|right; apply in_app_iff; left; exact G].
  - intros reuse h Hin. cbn [queue push_task] in Hin. apply in_app_iff in Hin.
    destruct Hin as [Hin|[E|[]]]; [eapply J2; eauto|eapply T; exact E].
  - right. unfold open_hosts. cbn [attempts queue push_task]. rewrite map_app, !in_app_iff. cbn. auto.
Qed.

(* ------------------------------------------------------------------ on the first page every attempt is a current one *)
Definition pages (s : state) : list nat := map a_page (attempts s).
Definition all_cur (s : state) : Prop := Forall (eq (page_no s)) (pages s).
Definition pframe (s s' : state) : Prop :=
  page_no s' = page_no s /\ exists k, pages s' = pages s ++ repeat (page_no s) k.

Lemma pframe_same s s' : page_no s' = page_no s -> attempts s' = attempts s -> pframe s s'.
Proof. intros P A. split; [exact P|]. exists 0%nat. unfold pages. rewrite A, app_nil_r. reflexivity. Qed.

Lemma pframe_trans s1 s2 s3 : pframe s1 s2 -> pframe s2 s3 -> pframe s1 s3.
Proof.
  intros [P1 [k1 E1]] [P2 [k2 E2]]. split; [congruence|]. exists (k1 + k2)%nat.
  rewrite E2, E1, P1, <- app_assoc, repeat_app. reflexivity.
Qed.

Lemma all_cur_pframe s s' : all_cur s -> pframe s s' -> all_cur s'.
Proof.
  intros A [P [k E]]. unfold all_cur. rewrite E, P. apply Forall_app. split; [exact A|].
  apply Forall_forall. intros x Hx. apply repeat_spec in Hx. auto.
Qed.

Lemma pages_mark_done i l : map a_page (mark_done i l) = map a_page l.
Proof. revert i. induction l as [|a l IH]; intros [|i]; cbn; auto. rewrite IH. reflexivity. Qed.

Lemma query_pframe s h m cz s' ev ok : query s h m cz = (s', ev, ok) -> pframe s s'.
Proof.
  rewrite query_eq. destruct (reason (pool_of s h)); intros H; inversion H; subst.
  - apply pframe_same; reflexivity.
  - split; [reflexivity|]. exists 1%nat. unfold pages. cbn [attempts add_attempt]. rewrite map_app. reflexivity.
Qed.

Lemma send_request_pframe s b s' ev : send_request s b = (s', ev) -> pframe s s'.
Proof.
  intros W. pose proof (walk_frame_ok _ _ _ _ _ W) as F. apply walk_walked in W.
  split; [apply F|].
  destruct W as [sk h rest Hp Hsk Hh Hplan Hcons Hev Hatt Hexc Harm | Hsk Hplan Hcons Hev Hatt Hexc Harm
                | sk rest Hp Hne Hsk Hplan Hcons Hev Hatt Hel Hexc Harm]; unfold pages; rewrite Hatt.
  - exists 1%nat. rewrite map_app. reflexivity.
  - exists 0%nat. rewrite app_nil_r. reflexivity.
  - exists 0%nat. rewrite app_nil_r. reflexivity.
Qed.

Lemma qon_pframe s h m cz s' ev : query_or_next s h m cz = (s', ev) -> pframe s s'.
Proof.
  unfold query_or_next. intros H. destruct (query s h m cz) as [[s1 ev1] ok] eqn:Q. apply query_pframe in Q.
  destruct ok; [inversion H; subst; exact Q|].
  destruct (send_request s1 true) as [s2 ev2] eqn:W. inversion H; subst.
  eapply pframe_trans; [exact Q|eapply send_request_pframe; eauto].
Qed.

Lemma sbo_pframe s s' : same_but_outcome s s' -> pframe s s'.
Proof. intros F. destruct F. apply pframe_same; assumption. Qed.

Lemma submit_pframe s t : pframe s (submit s t).
Proof. unfold submit. destruct (session_shut s); [apply sbo_pframe, fail_with_same|apply pframe_same; reflexivity]. Qed.

Lemma bump_pframe s dcl t : pframe s (bump_retry s dcl t).
Proof.
  unfold bump_retry. destruct (is_some (fin_exc s)); [apply pframe_same; reflexivity|].
  apply (pframe_trans s (bump_counters s dcl)); [apply pframe_same; reflexivity|apply submit_pframe].
Qed.

Lemma set_result_pframe c s h r s' ev : set_result c s h r = (s', ev) -> pframe s s'.
Proof.
  intros H. destruct r; cbn [set_result] in H;
    try (inversion H; subst; first [apply sbo_pframe, fail_with_same | apply sbo_pframe, finish_with_same
                                   | apply sbo_pframe, finish_rows_same]).
  - destruct (pol c _ k tag _ _) as [d dcl]. unfold handle_decision in H. inversion H; subst; clear H.
    destruct d.
    + apply (pframe_trans s (bump_retry (tick_consult s) dcl (TRetry true h))); [|apply pframe_same; reflexivity].
      apply (pframe_trans s (tick_consult s)); [apply pframe_same; reflexivity|apply bump_pframe].
    + apply (pframe_trans s (fail_with (tick_consult s) (XResp k tag))); [|apply pframe_same; reflexivity].
      exact (sbo_pframe (tick_consult s) _ (fail_with_same _ _)).
    + apply (pframe_trans s (finish_with (tick_consult s) FNone)); [|apply pframe_same; reflexivity].
      exact (sbo_pframe (tick_consult s) _ (finish_with_same _ _)).
    + apply (pframe_trans s (bump_retry (tick_consult s) dcl (TRetry false h))); [|apply pframe_same; reflexivity].
      apply (pframe_trans s (tick_consult s)); [apply pframe_same; reflexivity|apply bump_pframe].
  - unfold unprepared in H.
    assert (G : forall ps, unprep_go c s h ps = (s', ev) -> pframe s s').
    { intros [[pid qs] ks0] G. unfold unprep_go in G.
      destruct (negb (uses_ks c) && is_some ks0 && negb (opt_eqb (conn_ks s) ks0)); inversion G; subst;
        [apply sbo_pframe, fail_with_same|apply submit_pframe]. }
    destruct (fut_ps c) as [[[pid pqs] pks]|].
    + destruct (negb (pid =? id)); [inversion H; subst; apply sbo_pframe, fail_with_same|].
      destruct (lookup (known c) id); eapply G; eauto.
    + destruct (lookup (known c) id); [eapply G; eauto|inversion H; subst; apply sbo_pframe, fail_with_same].
Qed.

Lemma after_prepare_pframe c s h r s' ev : after_prepare c s h r = (s', ev) -> pframe s s'.
Proof.
  unfold after_prepare. intros H.
  destruct (is_some (fin_exc s)); [inversion H; subst; apply pframe_same; reflexivity|].
  destruct r; try (inversion H; subst; apply sbo_pframe, fail_with_same).
  - destruct (fut_ps c) as [[[pid pqs] pks]|].
    + destruct (negb (pid =? id)); [inversion H; subst; apply sbo_pframe, fail_with_same|eapply qon_pframe; eauto].
    + eapply qon_pframe; eauto.
  - destruct (is_conn_kind k); [|inversion H; subst; apply sbo_pframe, fail_with_same].
    destruct (send_request (set_err s h (EResp k tag)) true) as [s2 ev2] eqn:W. inversion H; subst.
    apply send_request_pframe in W. exact W.
Qed.

Lemma retry_task_pframe c s reuse h s' ev : fin_exc s = None -> run_task c s (TRetry reuse h) = (s', ev) -> pframe s s'.
Proof.
  intros E H. cbn [run_task] in H. rewrite E in H. cbn [is_some] in H.
  destruct reuse; [eapply qon_pframe; eauto|eapply send_request_pframe; eauto].
Qed.

Lemma step_pframe c s o s' ev : is_next_page o = false -> step c s o = (s', ev) -> pframe s s'.
Proof.
  intros NP H. destruct o as [|i r|k| |h0 p|k|pp]; cbn [step] in H; [| | | | | |discriminate].
  - eapply send_request_pframe; eauto.
  - destruct (nth_error (attempts s) i) as [a|]; [|inversion H; subst; apply pframe_same; reflexivity].
    destruct (a_done a); [inversion H; subst; apply pframe_same; reflexivity|].
    assert (P0 : pframe s (set_attempts s (mark_done i (attempts s)))).
    { split; [reflexivity|]. exists 0%nat. unfold pages. cbn [attempts set_attempts]. rewrite pages_mark_done, app_nil_r. reflexivity. }
    destruct (a_prep a); [inversion H; subst; eapply pframe_trans; [exact P0|apply submit_pframe]|].
    destruct (Nat.eqb (a_page a) (page_no s)); [|inversion H; subst; exact P0].
    destruct (resp_current_cases _ _ _ _ _ _ H) as [H'|(k & tag & dcl & reuse & s2 & ev2 & -> & I & Pl & F & Sh & R & -> & ->)].
    { eapply pframe_trans; [exact P0|eapply set_result_pframe; eauto]. }
    apply (pframe_trans s (bump_counters (tick_consult (set_attempts s (mark_done i (attempts s)))) dcl)).
    { eapply pframe_trans; [exact P0|apply pframe_same; reflexivity]. }
    apply (pframe_trans _ s2); [eapply retry_task_pframe; [|exact R]; exact F|apply pframe_same; reflexivity].
  - destruct (nth_error (queue s) k) as [t|]; [|inversion H; subst; apply pframe_same; reflexivity].
    apply (pframe_trans s (set_queue s (remove_nth k (queue s)))); [apply pframe_same; reflexivity|].
    destruct t as [reuse h|h qs ks0|h r]; cbn [run_task] in H.
    + destruct (is_some (fin_exc (set_queue s (remove_nth k (queue s))))); [inversion H; subst; apply pframe_same; reflexivity|].
      destruct reuse; [eapply qon_pframe; eauto|eapply send_request_pframe; eauto].
    + eapply qon_pframe; eauto.
    + eapply after_prepare_pframe; eauto.
  - unfold spec_fire in H.
    destruct (negb (spec_armed s)); [inversion H; subst; apply pframe_same; reflexivity|].
    destruct (completed (set_spec s false (spec_left s))); [inversion H; subst; apply pframe_same; reflexivity|].
    destruct (attempts (set_spec s false (spec_left s))) eqn:A; [inversion H; subst; apply pframe_same; reflexivity|].
    destruct (elapsed (set_spec s false (spec_left s))).
    { inversion H; subst. apply (pframe_trans s (set_spec s false (spec_left s))); [apply pframe_same; reflexivity|].
      destruct (on_timeout_same (set_spec s false (spec_left s))) as [[_ F]|[_ E]]; [apply sbo_pframe; exact F|rewrite E; apply pframe_same; reflexivity]. }
    destruct (send_request (set_spec s false (spec_left s)) false) as [s1 ev1] eqn:W. inversion H; subst.
    apply send_request_pframe in W.
    apply (pframe_trans s (set_spec s false (spec_left s))); [apply pframe_same; reflexivity|].
    eapply pframe_trans; [exact W|]. unfold start_timer.
    destruct (spec_armed s1); [apply pframe_same; reflexivity|]. destruct (0 <? spec_left s1); apply pframe_same; reflexivity.
  - inversion H; subst. apply pframe_same; reflexivity.
  - inversion H; subst. apply pframe_same; reflexivity.
Qed.

(* what a step may do to the coverage invariant *)
Definition finishes_otherwise (s s' : state) : Prop :=
  (fin_res s' <> fin_res s /\ fin_exc s' = fin_exc s) \/ (exists x, fin_exc s' = Some x /\ x <> XNoHost).

Ltac fin_other := right; right; eexists; split; [reflexivity|discriminate].
Ltac fin_res_changed Hres := right; left; split; [cbn; rewrite Hres; discriminate|reflexivity].

Lemma submit_J s0 h t : task_host t = h -> (forall reuse x, t <> TRetry reuse x) -> Jx s0 [h] -> completed s0 = false ->
  Jx (submit s0 t) [] \/ finishes_otherwise s0 (submit s0 t).
Proof.
  intros T NR J NC. unfold submit. destruct (session_shut s0).
  - right; right. unfold fail_with. rewrite NC. eexists; split; [reflexivity|discriminate].
  - left. destruct (Jx_push s0 [h] t) as [Ja Jb]; auto.
    + intros reuse x E. exfalso. eapply NR; eauto.
    + rewrite T in Jb. eapply Jx_resolve; eauto.
Qed.

Lemma bump_J s0 h dcl reuse k tag : Jx s0 [h] -> fin_res s0 = None -> fin_exc s0 = None ->
  Jx (set_err (bump_retry (tick_consult s0) dcl (TRetry reuse h)) h (EResp k tag)) [] \/
  finishes_otherwise s0 (set_err (bump_retry (tick_consult s0) dcl (TRetry reuse h)) h (EResp k tag)).
Proof.
  intros J Hres Hexc. unfold bump_retry. cbn [fin_exc tick_consult]. rewrite Hexc. cbn [is_some]. unfold submit.
  change (session_shut (bump_counters (tick_consult s0) dcl)) with (session_shut s0).
  destruct (session_shut s0).
  - right; right. unfold fail_with, completed. cbn [fin_res fin_exc bump_counters tick_consult]. rewrite Hres, Hexc. cbn.
    eexists; split; [reflexivity|discriminate].
  - left. set (s1 := push_task (bump_counters (tick_consult s0) dcl) (TRetry reuse h)).
    assert (J1 : Jx (set_err s1 h (EResp k tag)) [h] /\ covered (set_err s1 h (EResp k tag)) h).
    { destruct J as [J1 J2]. split; [split|].
      - intros x Hx. destruct (J1 x Hx) as [G|[G|G]]; auto.
        + right; left. cbn [errors set_err]. apply keys_upd. auto.
        + right; right. unfold open_hosts in *. unfold s1. cbn [attempts queue set_err push_task bump_counters tick_consult].
          rewrite map_app. apply in_app_iff in G. apply in_app_iff.
          destruct G as [G|G]; [left; exact G|right; apply in_app_iff; left; exact G].
      - intros reuse0 x Hin. cbn [errors set_err]. apply keys_upd. unfold s1 in Hin.
        cbn [queue set_err push_task bump_counters tick_consult] in Hin.
        apply in_app_iff in Hin. destruct Hin as [Hin|[Hin|[]]]; [right; eapply J2; eauto|]. inversion Hin; subst. auto.
      - left. cbn [errors set_err]. apply keys_upd. auto. }
    destruct J1 as [Ja Jb]. eapply Jx_resolve; eauto.
Qed.

Lemma set_result_J c s0 h r s' ev : Jx s0 [h] -> fin_res s0 = None -> fin_exc s0 = None -> set_result c s0 h r = (s', ev) ->
  Jx s' [] \/ finishes_otherwise s0 s'.
Proof.
  intros J Hres Hexc H. pose proof (not_completed s0 Hres Hexc) as NC. destruct r; cbn [set_result] in H;
    unfold fail_with, finish_with, finish_rows in H; rewrite ?NC in H;
    try (inversion H; subst; fin_other);
    try (inversion H; subst; fin_res_changed Hres).
  - destruct (pol c (nconsult s0) k tag (retries s0) (if request_error_kind k then msg_cl s0 else None)) as [d dcl].
    unfold handle_decision in H.
    unfold fail_with, finish_with in H. change (completed (tick_consult s0)) with (completed s0) in H. rewrite ?NC in H.
    inversion H; subst; clear H.
    destruct d.
    + exact (bump_J s0 h dcl true k tag J Hres Hexc).
    + fin_other.
    + fin_res_changed Hres.
    + exact (bump_J s0 h dcl false k tag J Hres Hexc).
  - unfold unprepared, fail_with in H. rewrite ?NC in H.
    assert (G : forall ps, unprep_go c s0 h ps = (s', ev) -> Jx s' [] \/ finishes_otherwise s0 s').
    { intros [[pid qs] ks0] G. unfold unprep_go, fail_with in G. rewrite ?NC in G.
      destruct (negb (uses_ks c) && is_some ks0 && negb (opt_eqb (conn_ks s0) ks0)); inversion G; subst; [fin_other|].
      exact (submit_J s0 h (TReprepare h qs (if uses_ks c then ks0 else None)) eq_refl (fun _ _ E => ltac:(discriminate)) J NC). }
    destruct (fut_ps c) as [[[pid pqs] pks]|].
    + destruct (negb (pid =? id)); [inversion H; subst; fin_other|].
      destruct (lookup (known c) id); eapply G; eauto.
    + destruct (lookup (known c) id); [eapply G; eauto|inversion H; subst; fin_other].
Qed.

Lemma after_prepare_J c s0 h r s' ev : Jx s0 [h] -> fin_res s0 = None -> fin_exc s0 = None -> after_prepare c s0 h r = (s', ev) ->
  Jx s' [] \/ finishes_otherwise s0 s'.
Proof.
  intros J Hres E H. unfold after_prepare in H. rewrite E in H. cbn [is_some] in H.
  pose proof (not_completed s0 Hres E) as NC. unfold fail_with in H. rewrite ?NC in H.
  assert (Q : forall s2 e2 m cz, query_or_next s0 h m cz = (s2, e2) -> Jx s2 []).
  { intros s2 e2 m cz Q. destruct (Jx_qon _ _ _ _ _ _ _ J Q) as [Ja Jb]. eapply Jx_resolve; eauto. }
  destruct r; try (inversion H; subst; fin_other).
  - destruct (fut_ps c) as [[[pid pqs] pks]|].
    + destruct (negb (pid =? id)); [inversion H; subst; fin_other|left; eapply Q; eauto].
    + left; eapply Q; eauto.
  - destruct (is_conn_kind k); [|inversion H; subst; fin_other].
    destruct (send_request (set_err s0 h (EResp k tag)) true) as [s2 ev2] eqn:W. inversion H; subst. left.
    destruct (Jx_set_err s0 [h] h (EResp k tag) J) as [Ja Jb].
    unfold send_request in W. eapply Jx_resolve; [eapply Jx_walk; eauto|eapply covered_walk; eauto].
Qed.

Theorem step_J c s o s' ev : is_next_page o = false -> all_cur s -> Jx s [] -> fin_res s = None -> fin_exc s = None -> step c s o = (s', ev) ->
  Jx s' [] \/ finishes_otherwise s s'.
Proof.
  intros NP AC J Hres Hexc H. destruct o as [|i r|k| |h0 p|k|pp]; cbn [step] in H; [| | | | | |discriminate].
  - left. unfold send_request in H. eapply Jx_walk; eauto.
  - destruct (nth_error (attempts s) i) as [a|] eqn:N; [|inversion H; subst; left; exact J].
    destruct (a_done a); [inversion H; subst; left; exact J|].
    pose proof (Jx_done s i a N J) as J0.
    destruct (a_prep a).
    + inversion H; subst.
      destruct (submit_J (set_attempts s (mark_done i (attempts s))) (a_host a) (TAfterPrepare (a_host a) r) eq_refl
                  (fun _ _ E => ltac:(discriminate)) J0 (not_completed s Hres Hexc)) as [G|[G|G]]; [left; exact G|right; left; exact G|right; right; exact G].
    + destruct (Nat.eqb (a_page a) (page_no s)) eqn:Pg.
      { destruct (resp_current_cases _ _ _ _ _ _ H) as [H'|(k & tag & dcl & reuse & s2 & ev2 & -> & I & Pl & F & Sh & R & -> & ->)].
        - eapply set_result_J in H'; eauto.
        - left. set (S0 := bump_counters (tick_consult (set_attempts s (mark_done i (attempts s)))) dcl) in *.
          assert (JS : Jx S0 [a_host a]) by (eapply Jx_same; [|exact J0]; repeat split).
          assert (J2 : Jx s2 [a_host a]).
          { cbn [run_task] in R. change (fin_exc S0) with (fin_exc s) in R. rewrite Hexc in R. cbn [is_some] in R.
            destruct reuse; [exact (proj1 (Jx_qon _ _ _ _ _ _ _ JS R))|unfold send_request in R; eapply Jx_walk; eauto]. }
          destruct (Jx_set_err s2 [a_host a] (a_host a) (EResp k tag) J2) as [Ja Jb]. eapply Jx_resolve; eauto. }
      exfalso. apply Nat.eqb_neq in Pg. apply Pg. symmetry.
      unfold all_cur, pages in AC. rewrite Forall_forall in AC. apply AC. apply in_map. eapply nth_error_In; eauto.
  - destruct (nth_error (queue s) k) as [t|] eqn:N; [|inversion H; subst; left; exact J].
    pose proof (Jx_deq s k t N J) as J0.
    assert (Q : forall s1 h m cz s2 e2, Jx s1 [h] -> query_or_next s1 h m cz = (s2, e2) -> Jx s2 []).
    { intros s1 h m cz s2 e2 J1 Q. destruct (Jx_qon _ _ _ _ _ _ _ J1 Q) as [Ja Jb]. eapply Jx_resolve; eauto. }
    destruct t as [reuse h|h qs ks0|h r]; cbn [run_task task_host] in *.
    + cbn [fin_exc set_queue] in H. rewrite Hexc in H. cbn [is_some] in H.
      destruct reuse; [left; eapply Q; eauto|].
      left. unfold send_request in H.
      assert (Cv : covered (set_queue s (remove_nth k (queue s))) h).
      { left. destruct J as [_ J2]. eapply J2. eapply nth_error_In; eauto. }
      eapply Jx_walk; [|exact H]. eapply Jx_resolve; eauto.
    + left; eapply Q; eauto.
    + eapply after_prepare_J in H; eauto.
  - left. unfold spec_fire in H.
    destruct (negb (spec_armed s)); [inversion H; subst; exact J|].
    assert (J0 : Jx (set_spec s false (spec_left s)) []) by (eapply Jx_same; [|exact J]; repeat split).
    destruct (completed (set_spec s false (spec_left s))); [inversion H; subst; exact J0|].
    destruct (attempts (set_spec s false (spec_left s))) eqn:Att.
    + inversion H; subst. eapply Jx_same; [|exact J]. repeat split.
    + destruct (elapsed (set_spec s false (spec_left s))).
      { inversion H; subst. eapply Jx_same; [|exact J0].
        destruct (on_timeout_same (set_spec s false (spec_left s))) as [[_ F]|[_ E]]; [apply same_cover_sbo; exact F|rewrite E; repeat split]. }
      destruct (send_request (set_spec s false (spec_left s)) false) as [s1 ev1] eqn:W. inversion H; subst.
      unfold send_request in W. pose proof (Jx_walk _ _ _ _ _ _ J0 W) as J1.
      unfold start_timer. destruct (spec_armed s1); [exact J1|]. destruct (0 <? spec_left s1); [|exact J1].
      eapply Jx_same; [|exact J1]. repeat split.
  - inversion H; subst. left. eapply Jx_same; [|exact J]. repeat split.
  - inversion H; subst. left. eapply Jx_same; [|exact J]. repeat split.
Qed.

(* ------------------------------------------------------------------ outcomes are never un-set *)
Definition res_keep (s s' : state) : Prop := fin_res s' = fin_res s \/ exists r, fin_res s' = Some r.

Lemma qon_res s h m cz s' ev : query_or_next s h m cz = (s', ev) -> fin_res s' = fin_res s.
Proof.
  unfold query_or_next. intros H. destruct (query s h m cz) as [[s1 ev1] ok] eqn:Q.
  assert (Q1 : fin_res s1 = fin_res s).
  { rewrite query_eq in Q. destruct (reason (pool_of s h)); inversion Q; subst; reflexivity. }
  destruct ok; [inversion H; subst; exact Q1|].
  destruct (send_request s1 true) as [s2 ev2] eqn:W. inversion H; subst.
  apply walk_frame_ok in W. rewrite (wf_res _ _ W). exact Q1.
Qed.

Lemma finish_res_keep s0 r : res_keep s0 (finish_with s0 r).
Proof. destruct (finish_with_res s0 r) as [E _]. destruct (completed s0); [left; exact E|right; eexists; exact E]. Qed.

Lemma finish_rows_keep s0 b : res_keep s0 (finish_rows s0 b).
Proof. destruct (finish_rows_res s0 b) as [E _]. destruct (completed s0); [left; exact E|right; eexists; exact E]. Qed.

Lemma fail_res_keep s0 x : res_keep s0 (fail_with s0 x).
Proof. left. apply fail_with_exc. Qed.

Lemma submit_res s t : fin_res (submit s t) = fin_res s.
Proof. unfold submit. destruct (session_shut s); [apply fail_with_exc|reflexivity]. Qed.

Lemma bump_res s dcl t : fin_res (bump_retry s dcl t) = fin_res s.
Proof. unfold bump_retry. destruct (is_some (fin_exc s)); [reflexivity|]. exact (submit_res (bump_counters s dcl) t). Qed.

Lemma step_res_keep c s o s' ev : is_next_page o = false -> step c s o = (s', ev) -> res_keep s s'.
Proof.
  intros NP H. destruct o as [|i r|k| |h0 p|k|pp]; cbn [step] in H; [| | | | | |discriminate].
  - left. apply walk_frame_ok in H. apply H.
  - destruct (nth_error (attempts s) i) as [a|]; [|inversion H; subst; left; reflexivity].
    destruct (a_done a); [inversion H; subst; left; reflexivity|].
    destruct (a_prep a); [inversion H; subst; left; exact (submit_res (set_attempts s (mark_done i (attempts s))) _)|].
    destruct (Nat.eqb (a_page a) (page_no s)); [|inversion H; subst; left; reflexivity].
    destruct (resp_current_cases _ _ _ _ _ _ H) as [H'|(k1 & tag1 & dcl1 & reuse & s2 & ev2 & -> & I & Pl & F & Sh & R & -> & ->)].
    2:{ left. cbn [fin_res set_err]. cbn [run_task] in R.
        change (fin_exc (bump_counters (tick_consult (set_attempts s (mark_done i (attempts s)))) dcl1)) with (fin_exc s) in R.
        change (fin_exc (set_attempts s (mark_done i (attempts s)))) with (fin_exc s) in F. rewrite F in R. cbn [is_some] in R.
        destruct reuse; [apply qon_res in R; exact R|apply walk_frame_ok in R; apply R]. }
    clear H. rename H' into H.
    set (s0 := set_attempts s (mark_done i (attempts s))) in *.
    change (res_keep s0 s').
    destruct r; cbn [set_result] in H;
      try (inversion H; subst; first [apply finish_res_keep | apply fail_res_keep | apply finish_rows_keep]).
    + destruct (pol c _ k tag _ _) as [d dcl]. unfold handle_decision in H. inversion H; subst.
      destruct d.
      * left. exact (bump_res (tick_consult s0) dcl _).
      * exact (fail_res_keep (tick_consult s0) (XResp k tag)).
      * exact (finish_res_keep (tick_consult s0) FNone).
      * left. exact (bump_res (tick_consult s0) dcl _).
    + unfold unprepared in H.
      assert (G : forall ps, unprep_go c s0 (a_host a) ps = (s', ev) -> res_keep s0 s').
      { intros [[pid qs] ks0] G. unfold unprep_go in G.
        destruct (negb (uses_ks c) && is_some ks0 && negb (opt_eqb (conn_ks s0) ks0)); inversion G; subst;
          [apply fail_res_keep|left; apply submit_res]. }
      destruct (fut_ps c) as [[[pid pqs] pks]|].
      * destruct (negb (pid =? id)); [inversion H; subst; apply fail_res_keep|].
        destruct (lookup (known c) id); apply G in H; exact H.
      * destruct (lookup (known c) id); [apply G in H; exact H|inversion H; subst; apply fail_res_keep].
  - destruct (nth_error (queue s) k) as [t|]; [|inversion H; subst; left; reflexivity]. left.
    destruct t as [reuse h|h qs ks0|h r]; cbn [run_task] in H.
    + destruct (is_some (fin_exc (set_queue s (remove_nth k (queue s))))); [inversion H; subst; reflexivity|].
      destruct reuse; [apply qon_res in H; exact H|apply walk_frame_ok in H; apply H].
    + apply qon_res in H; exact H.
    + unfold after_prepare in H.
      destruct (is_some (fin_exc (set_queue s (remove_nth k (queue s))))); [inversion H; subst; reflexivity|].
      destruct r; try (inversion H; subst; exact (proj2 (fail_with_exc _ _))).
      * destruct (fut_ps c) as [[[pid pqs] pks]|].
        -- destruct (negb (pid =? id)); [inversion H; subst; exact (proj2 (fail_with_exc _ _))|apply qon_res in H; exact H].
        -- apply qon_res in H; exact H.
      * destruct (is_conn_kind k0); [|inversion H; subst; exact (proj2 (fail_with_exc _ _))].
        destruct (send_request _ true) as [s2 ev2] eqn:W. inversion H; subst.
        apply walk_frame_ok in W. apply W.
  - left. unfold spec_fire in H.
    destruct (negb (spec_armed s)); [inversion H; subst; reflexivity|].
    destruct (completed (set_spec s false (spec_left s))); [inversion H; subst; reflexivity|].
    destruct (attempts (set_spec s false (spec_left s))); [inversion H; subst; reflexivity|].
    destruct (elapsed (set_spec s false (spec_left s))); [inversion H; subst; exact (proj1 (proj2 (on_timeout_exc _)))|].
    destruct (send_request (set_spec s false (spec_left s)) false) as [s1 ev1] eqn:W. inversion H; subst.
    apply walk_frame_ok in W. unfold start_timer.
    destruct (spec_armed s1); [|destruct (0 <? spec_left s1)]; cbn; apply W.
  - inversion H; subst. left; reflexivity.
  - inversion H; subst. left; reflexivity.
Qed.

Definition Good (s : state) : Prop := all_cur s /\ (fin_res s = None -> fin_exc s = None -> Jx s []).

Lemma good_step c s o s' ev : is_next_page o = false -> Good s -> step c s o = (s', ev) -> Good s'.
Proof.
  intros NP [AC G] H. split; [eapply all_cur_pframe; [exact AC|eapply step_pframe; eauto]|]. intros R' E'.
  assert (R : fin_res s = None).
  { destruct (step_res_keep _ _ _ _ _ NP H) as [K|[r K]]; congruence. }
  assert (E : fin_exc s = None).
  { destruct (step_exc _ _ _ _ _ NP H) as [K|[(x & K & _)|(K & _)]]; congruence. }
  destruct (step_J _ _ _ _ _ NP AC (G R E) R E H) as [J|[[N _]|(x & K & _)]]; [exact J|congruence|congruence].
Qed.

Lemma good_exec c : forall ops s s' ev, no_page ops = true -> Good s -> exec c s ops = (s', ev) -> Good s'.
Proof.
  induction ops as [|o ops IH]; intros s s' ev N G H; cbn [exec] in H.
  - inversion H; subst. exact G.
  - cbn [no_page forallb] in N. apply andb_prop in N. destruct N as [N1 N2]. apply negb_true_iff in N1.
    destruct (step c s o) as [s1 ev1] eqn:S. destruct (exec c s1 ops) as [s2 ev2] eqn:E. inversion H; subst.
    eapply IH; [exact N2| |exact E]. eapply good_step; eauto.
Qed.

Lemma good_init lb target pl cl idem hasp maxa ks : Good (init lb target pl cl idem hasp maxa ks).
Proof.
  unfold init, start_timer. cbn [spec_armed spec_left].
  destruct (0 <? spec_gate idem hasp maxa); (split; [constructor|intros _ _; split; [intros h []|intros reuse h []]]).
Qed.

(* the step that raises NoHostAvailable out of a request without outcome: every host of the plan is listed in the error
   or still has an unanswered attempt / queued task *)
Lemma exhaustion_covers c lb target pl cl idem hasp maxa ks ops s evs o s' ev :
  no_page ops = true -> is_next_page o = false ->
  exec c (init lb target pl cl idem hasp maxa ks) ops = (s, evs) -> fin_res s = None -> fin_exc s = None ->
  step c s o = (s', ev) -> fin_exc s' = Some XNoHost ->
  forall h, In h (make_plan lb target) -> In h (keys (errors s')) \/ In h (open_hosts s').
Proof.
  intros Np NP X R E S N h Hh.
  pose proof (good_exec c ops _ _ _ Np (good_init lb target pl cl idem hasp maxa ks) X) as [AC G].
  destruct (nohost_only_when_exhausted _ _ _ _ _ S N) as [K|P]; [congruence|].
  pose proof (history_inv_first_page c lb target pl cl idem hasp maxa ks ops s evs Np X) as HI.
  pose proof (step_hinv c _ _ _ _ _ _ HI S) as (I1 & _ & _).
  assert (Ep : plan_after c o s (make_plan lb target) = make_plan lb target) by (destruct o; try reflexivity; discriminate).
  rewrite Ep, P, app_nil_r in I1.
  destruct (step_J _ _ _ _ _ NP AC (G R E) R E S) as [[J1 _]|[[_ K]|(x & K & Nx)]].
  - rewrite <- I1 in Hh. destruct (J1 h Hh) as [[]|C]. exact C.
  - congruence.
  - exfalso. rewrite K in N. inversion N; subst. apply Nx; reflexivity.
Qed.
