(* C16 -- retries do exactly what the retry policy decided: lemmas. *)
From Coq Require Import ZArith List Bool Lia.
From Verif Require Import PyBase FutbProto FutB FutB_lemmas FutB_steps FutB_origin.
Import ListNotations.
Local Open Scope Z_scope.

Definition is_consult (e : event) : bool := match e with Consult _ _ _ _ _ _ _ _ => true | _ => false end.
Definition consults (ev : list event) : list event := filter is_consult ev.

Definition is_retry_decision (e : event) : bool :=
  match e with Consult _ _ _ _ _ _ DRetry _ | Consult _ _ _ _ _ _ DNextHost _ => true | _ => false end.
Definition retry_count (ev : list event) : Z := Z.of_nat (length (filter is_retry_decision ev)).

Definition clarg (s : state) (k : ekind) : option Z := if request_error_kind k then msg_cl s else None.

(* an open query attempt i at host h *)
Definition open_query (s : state) (i : nat) (h : host) : Prop :=
  exists a, nth_error (attempts s) i = Some a /\ a_done a = false /\ a_prep a = false /\ a_host a = h /\
            a_page a = page_no s.     (* an execution of the CURRENT page fetch *)

Lemma step_resp_query c s i r h : open_query s i h ->
  step c s (Resp i r) = resp_current c (set_attempts s (mark_done i (attempts s))) h r.
Proof. intros (a & N & D & P & <- & Pg). cbn [step]. rewrite N, D, P, Pg, Nat.eqb_refl. reflexivity. Qed.

(* _handle_retry_decision for RETRY / RETRY_NEXT_HOST on any state S: counter, level, hand-over to the executor *)
Definition retry_effect (S S1 : state) (dcl : option Z) (t : task) : Prop :=
  retries S1 = retries S + 1 /\
  (fin_exc S = None -> session_shut S = false ->
     fin_res S1 = fin_res S /\ fin_exc S1 = None /\ queue S1 = queue S ++ [t] /\
     msg_cl S1 = match dcl with Some x => Some x | None => msg_cl S end) /\
  (fin_exc S = None -> session_shut S = true ->       (* Session.shutdown() happened: the retry is refused *)
     queue S1 = queue S /\ fin_res S1 = fin_res S /\ fin_exc S1 = (if completed S then None else Some XShutdown)) /\
  (fin_exc S <> None -> queue S1 = queue S /\ fin_exc S1 = fin_exc S /\ fin_res S1 = fin_res S /\ msg_cl S1 = msg_cl S).

Lemma bump_spec S dcl t :
  retry_effect S (bump_retry S dcl t) dcl t /\ nconsult (bump_retry S dcl t) = nconsult S /\
  attempts (bump_retry S dcl t) = attempts S /\ plan (bump_retry S dcl t) = plan S /\ pools (bump_retry S dcl t) = pools S /\
  errors (bump_retry S dcl t) = errors S.
Proof.
  unfold retry_effect, bump_retry, submit. change (session_shut (bump_counters S dcl)) with (session_shut S).
  destruct (fin_exc S) eqn:F; cbn [is_some].
  - cbn. rewrite F. repeat split; intros; try reflexivity; try discriminate; congruence.
  - destruct (session_shut S) eqn:Sh.
    + unfold fail_with, completed. cbn [fin_res fin_exc bump_counters]. rewrite F.
      destruct (fin_res S) eqn:R; cbn; rewrite ?F, ?R; repeat split; intros; try reflexivity; try discriminate; congruence.
    + cbn. rewrite F. repeat split; intros; try reflexivity; try discriminate; congruence.
Qed.

(* ---- the response of a retryable failure: exactly one consultation, with the documented arguments *)
Lemma retryable_step c s i h k tag : open_query s i h -> inline_retry c = false ->
  let '(d, dcl) := pol c (nconsult s) k tag (retries s) (clarg s k) in
  exists s1, step c s (Resp i (RRetryable k tag))
             = (s1, [Consult (nconsult s) h k tag (retries s) (clarg s k) d dcl; ErrSet h (EResp k tag)])
  /\ nconsult s1 = S (nconsult s)
  /\ lookup (errors s1) h = Some (EResp k tag)
  /\ attempts s1 = mark_done i (attempts s) /\ plan s1 = plan s /\ pools s1 = pools s
  /\ match d with
     | DRetry => retry_effect s s1 dcl (TRetry true h)
     | DNextHost => retry_effect s s1 dcl (TRetry false h)
     | DRethrow => fin_exc s1 = (if completed s then fin_exc s else Some (XResp k tag)) /\ fin_res s1 = fin_res s /\
                   queue s1 = queue s /\ retries s1 = retries s /\ msg_cl s1 = msg_cl s
     | DIgnore => fin_res s1 = (if completed s then fin_res s else Some FNone) /\ fin_exc s1 = fin_exc s /\
                  queue s1 = queue s /\ retries s1 = retries s /\ msg_cl s1 = msg_cl s
     end.
Proof.
  intros O Inl. rewrite (step_resp_query c s i _ h O). cbn [resp_current]. rewrite Inl. cbn [set_result].
  change (if request_error_kind k then msg_cl (set_attempts s (mark_done i (attempts s))) else None) with (clarg s k).
  cbn [nconsult retries set_attempts].
  destruct (pol c (nconsult s) k tag (retries s) (clarg s k)) as [d dcl].
  unfold handle_decision. eexists. split; [reflexivity|].
  cbn [nconsult set_err errors]. rewrite lookup_upd_same.
  set (S0 := tick_consult (set_attempts s (mark_done i (attempts s)))).
  destruct d.
  - destruct (bump_spec S0 dcl (TRetry true h)) as (E & B1 & B2 & B3 & B4 & B5).
    cbn [nconsult attempts plan pools set_err]. rewrite B1, B2, B3, B4.
    split; [reflexivity|]. split; [reflexivity|]. split; [reflexivity|]. split; [reflexivity|]. split; [reflexivity|]. exact E.
  - unfold fail_with. change (completed S0) with (completed s).
    destruct (completed s); cbn; repeat split; reflexivity.
  - unfold finish_with. change (completed S0) with (completed s).
    destruct (completed s); cbn; repeat split; reflexivity.
  - destruct (bump_spec S0 dcl (TRetry false h)) as (E & B1 & B2 & B3 & B4 & B5).
    cbn [nconsult attempts plan pools set_err]. rewrite B1, B2, B3, B4.
    split; [reflexivity|]. split; [reflexivity|]. split; [reflexivity|]. split; [reflexivity|]. split; [reflexivity|]. exact E.
Qed.

(* ---- consultations happen only there *)
Lemma set_result_consult c s h r s' ev n h' k tag rn cl d dcl : set_result c s h r = (s', ev) ->
  In (Consult n h' k tag rn cl d dcl) ev ->
  r = RRetryable k tag /\ h' = h /\ n = nconsult s /\ rn = retries s /\ cl = clarg s k /\
  (d, dcl) = pol c n k tag rn cl.
Proof.
  intros H Hin. destruct r; cbn [set_result] in H; try (inversion H; subst; destruct Hin; fail).
  - fold (clarg s k0) in H.
    destruct (pol c (nconsult s) k0 tag0 (retries s) (clarg s k0)) as [d0 dcl0] eqn:P.
    unfold handle_decision in H. inversion H; subst; clear H.
    destruct Hin as [Hin|[Hin|[]]]; [|discriminate]. inversion Hin; subst. rewrite P. auto 10.
  - exfalso. unfold unprepared in H.
    assert (G : forall ps, unprep_go c s h ps = (s', ev) -> False).
    { intros [[pid qs] ks0] G. unfold unprep_go in G.
      destruct (negb (uses_ks c) && is_some ks0 && negb (opt_eqb (conn_ks s) ks0)); inversion G; subst; destruct Hin. }
    destruct (fut_ps c) as [[[pid pqs] pks]|].
    + destruct (negb (pid =? id)); [inversion H; subst; destruct Hin|].
      destruct (lookup (known c) id); eapply G; eauto.
    + destruct (lookup (known c) id); [eapply G; eauto|inversion H; subst; destruct Hin].
Qed.

Lemma walk_no_consult p s b s' ev e : walk s p b = (s', ev) -> In e ev -> is_consult e = false.
Proof.
  intros W Hin. apply walk_walked in W.
  destruct W as [sk h rest Hp Hsk Hh Hplan Hcons Hev Hatt Hexc Harm | Hsk Hplan Hcons Hev Hatt Hexc Harm
                | sk rest Hp Hne Hsk Hplan Hcons Hev Hatt Hel Hexc Harm];
    rewrite Hev in Hin.
  - apply in_app_iff in Hin. destruct Hin as [Hin|[<-|[]]]; [|reflexivity].
    apply in_map_iff in Hin. destruct Hin as (y & <- & _). reflexivity.
  - apply in_map_iff in Hin. destruct Hin as (y & <- & _). reflexivity.
  - apply in_map_iff in Hin. destruct Hin as (y & <- & _). reflexivity.
Qed.

Lemma qon_no_consult s h m cz s' ev e : query_or_next s h m cz = (s', ev) -> In e ev -> is_consult e = false.
Proof.
  unfold query_or_next. intros H Hin. destruct (query s h m cz) as [[s1 ev1] ok] eqn:Q.
  assert (Q1 : forall ez, In ez ev1 -> is_consult ez = false).
  { rewrite query_eq in Q. destruct (reason (pool_of s h)) as [er|]; inversion Q; subst; intros ez [<-|[]]; reflexivity. }
  destruct ok; [inversion H; subst; auto|].
  destruct (send_request s1 true) as [s2 ev2] eqn:W. inversion H; subst.
  apply in_app_iff in Hin. destruct Hin as [Hin|Hin]; auto. eapply walk_no_consult; eauto.
Qed.

Lemma run_task_no_consult c s t s' ev e : run_task c s t = (s', ev) -> In e ev -> is_consult e = false.
Proof.
  intros H Hin. destruct t as [reuse h|h qs ks|h r]; cbn [run_task] in H.
  - destruct (is_some (fin_exc s)); [inversion H; subst; destruct Hin|].
    destruct reuse; [eapply qon_no_consult; eauto|eapply walk_no_consult; eauto].
  - eapply qon_no_consult; eauto.
  - unfold after_prepare in H.
    destruct (is_some (fin_exc s)); [inversion H; subst; destruct Hin|].
    destruct r; try (inversion H; subst; destruct Hin; fail).
    + destruct (fut_ps c) as [[[pid pqs] pks]|].
      * destruct (negb (pid =? id)); [inversion H; subst; destruct Hin|eapply qon_no_consult; eauto].
      * eapply qon_no_consult; eauto.
    + destruct (is_conn_kind k); [|inversion H; subst; destruct Hin].
      destruct (send_request (set_err s h (EResp k tag)) true) as [s2 ev2] eqn:W. inversion H; subst.
      destruct Hin as [<-|Hin]; [reflexivity|eapply walk_no_consult; eauto].
Qed.

Lemma step_consult c s o s' ev n h k tag rn cl d dcl : step c s o = (s', ev) ->
  In (Consult n h k tag rn cl d dcl) ev ->
  exists i, o = Resp i (RRetryable k tag) /\ open_query s i h /\ n = nconsult s /\ rn = retries s /\ cl = clarg s k /\
            (d, dcl) = pol c n k tag rn cl.
Proof.
  intros H Hin. destruct o as [|i r|k0| |h0 p|k0|pp]; cbn [step] in H.
  - exfalso. apply (walk_no_consult _ _ _ _ _ _ H) in Hin. discriminate.
  - destruct (nth_error (attempts s) i) as [a|] eqn:N; [|inversion H; subst; destruct Hin].
    destruct (a_done a) eqn:D; [inversion H; subst; destruct Hin|].
    destruct (a_prep a) eqn:P; [inversion H; subst; destruct Hin|].
    destruct (Nat.eqb (a_page a) (page_no s)) eqn:Pg; [|inversion H; subst; destruct Hin].
    apply Nat.eqb_eq in Pg.
    destruct (resp_current_cases _ _ _ _ _ _ H) as [H'|(k1 & tag1 & dcl1 & reuse & s2 & ev2 & -> & I & Pl & F & Sh & R & -> & ->)].
    + destruct (set_result_consult _ _ _ _ _ _ _ _ _ _ _ _ _ _ H' Hin) as (-> & -> & -> & -> & -> & E).
      exists i. split; [reflexivity|]. split; [exists a; auto 6|]. auto.
    + destruct Hin as [Hin|Hin].
      * inversion Hin; subst. exists i. split; [reflexivity|]. split; [exists a; auto 6|].
        cbn [nconsult retries set_attempts]. repeat split; auto.
      * exfalso. apply in_app_iff in Hin. destruct Hin as [Hin|[Hin|[]]]; [|discriminate].
        apply (run_task_no_consult _ _ _ _ _ _ R) in Hin. discriminate.
  - destruct (nth_error (queue s) k0) as [t|]; [|inversion H; subst; destruct Hin].
    exfalso. apply (run_task_no_consult _ _ _ _ _ _ H) in Hin. discriminate.
  - exfalso. unfold spec_fire in H.
    destruct (negb (spec_armed s)); [inversion H; subst; destruct Hin|].
    destruct (completed (set_spec s false (spec_left s))); [inversion H; subst; destruct Hin|].
    destruct (attempts (set_spec s false (spec_left s))); [inversion H; subst; destruct Hin|].
    destruct (elapsed (set_spec s false (spec_left s))); [inversion H; subst; destruct Hin|].
    destruct (send_request (set_spec s false (spec_left s)) false) as [s1 ev1] eqn:W. inversion H; subst.
    apply (walk_no_consult _ _ _ _ _ _ W) in Hin. discriminate.
  - inversion H; subst. destruct Hin.
  - inversion H; subst. destruct Hin.
  - exfalso. destruct (paging s); [|inversion H; subst; destruct Hin].
    apply (walk_no_consult _ _ _ _ _ _ H) in Hin. discriminate.
Qed.

(* ------------------------------------------------------------------ counters and speculative-timer frame *)
Definition cframe (s s' : state) : Prop :=
  retries s' = retries s /\ nconsult s' = nconsult s /\ spec_left s' = spec_left s /\
  (spec_armed s' = true -> spec_armed s = true) /\ pools s' = pools s /\ conn_ks s' = conn_ks s.

Lemma cframe_refl s : cframe s s.
Proof. repeat split; auto. Qed.

Lemma cframe_trans s1 s2 s3 : cframe s1 s2 -> cframe s2 s3 -> cframe s1 s3.
Proof. intros (A1 & A2 & A3 & A4 & A5 & A6) (B1 & B2 & B3 & B4 & B5 & B6). repeat split; try congruence. auto. Qed.

Lemma query_cframe s h m cz s' ev ok : query s h m cz = (s', ev, ok) -> cframe s s'.
Proof. rewrite query_eq. destruct (reason (pool_of s h)); intros H; inversion H; subst; repeat split; auto. Qed.

Lemma send_request_cframe s b s' ev : send_request s b = (s', ev) -> cframe s s'.
Proof.
  intros W. pose proof (walk_frame_ok _ _ _ _ _ W) as F. apply walk_walked in W. destruct F.
  repeat split; auto.
  destruct W as [sk h rest Hp Hsk Hh Hplan Hcons Hev Hatt Hexc Harm | Hsk Hplan Hcons Hev Hatt Hexc Harm
                | sk rest Hp Hne Hsk Hplan Hcons Hev Hatt Hel Hexc Harm];
    rewrite Harm; [auto|destruct b; [discriminate|auto]|destruct (borrowed s'); [discriminate|auto]].
Qed.

Lemma qon_cframe s h m cz s' ev : query_or_next s h m cz = (s', ev) -> cframe s s'.
Proof.
  unfold query_or_next. intros H. destruct (query s h m cz) as [[s1 ev1] ok] eqn:Q. apply query_cframe in Q.
  destruct ok; [inversion H; subst; exact Q|].
  destruct (send_request s1 true) as [s2 ev2] eqn:W. inversion H; subst.
  eapply cframe_trans; [exact Q|eapply send_request_cframe; eauto].
Qed.

Lemma set_exc_cframe s x : cframe s (set_exc s x).
Proof. repeat split; auto. cbn. discriminate. Qed.

Lemma sbo_cframe s s' : same_but_outcome s s' -> cframe s s'.
Proof. intros F. destruct F. repeat split; auto. rewrite sbo_armed. discriminate. Qed.

Lemma fail_with_cframe s x : cframe s (fail_with s x).
Proof. apply sbo_cframe, fail_with_same. Qed.

Lemma finish_with_cframe s r : cframe s (finish_with s r).
Proof. apply sbo_cframe, finish_with_same. Qed.

Lemma after_prepare_cframe c s h r s' ev : after_prepare c s h r = (s', ev) -> cframe s s'.
Proof.
  unfold after_prepare. intros H.
  destruct (is_some (fin_exc s)); [inversion H; subst; apply cframe_refl|].
  destruct r; try (inversion H; subst; apply fail_with_cframe).
  - destruct (fut_ps c) as [[[pid pqs] pks]|].
    + destruct (negb (pid =? id)); [inversion H; subst; apply fail_with_cframe|eapply qon_cframe; eauto].
    + eapply qon_cframe; eauto.
  - destruct (is_conn_kind k); [|inversion H; subst; apply fail_with_cframe].
    destruct (send_request (set_err s h (EResp k tag)) true) as [s2 ev2] eqn:W. inversion H; subst.
    apply send_request_cframe in W. exact W.
Qed.

Lemma run_task_cframe c s t s' ev : run_task c s t = (s', ev) -> cframe s s'.
Proof.
  intros H. destruct t as [reuse h|h qs ks|h r]; cbn [run_task] in H.
  - destruct (is_some (fin_exc s)); [inversion H; subst; apply cframe_refl|].
    destruct reuse; [eapply qon_cframe; eauto|eapply send_request_cframe; eauto].
  - eapply qon_cframe; eauto.
  - eapply after_prepare_cframe; eauto.
Qed.

Lemma no_consult_counts ev : (forall e, In e ev -> is_consult e = false) -> retry_count ev = 0 /\ consults ev = [].
Proof.
  induction ev as [|e ev IH]; intros H; [split; reflexivity|].
  assert (He : is_consult e = false) by (apply H; left; reflexivity).
  destruct IH as [I1 I2]; [intros e0 H0; apply H; right; exact H0|].
  unfold retry_count, consults in *. cbn [filter]. rewrite He.
  destruct e; try discriminate; cbn; auto.
Qed.

Definition counted (s s' : state) (ev : list event) : Prop :=
  retries s' = retries s + retry_count ev /\ nconsult s' = (nconsult s + length (consults ev))%nat.

Lemma counted_frame s s' ev : cframe s s' -> (forall e, In e ev -> is_consult e = false) -> counted s s' ev.
Proof.
  intros (A1 & A2 & _) H. destruct (no_consult_counts ev H) as [R C]. unfold counted. rewrite R, C, A1, A2. cbn. lia.
Qed.

Lemma sbo_counted s s' : same_but_outcome s s' ->
  counted s s' [] /\ spec_left s' = spec_left s /\ (spec_armed s' = true -> spec_armed s = true).
Proof.
  intros F. destruct F. unfold counted, retry_count. cbn. rewrite sbo_retries, sbo_ncons, sbo_armed.
  repeat split; try lia; auto; try discriminate.
Qed.

Lemma submit_frame S t : retries (submit S t) = retries S /\ nconsult (submit S t) = nconsult S /\
  spec_left (submit S t) = spec_left S /\ (spec_armed (submit S t) = true -> spec_armed S = true).
Proof.
  unfold submit. destruct (session_shut S); [|repeat split; auto].
  destruct (fail_with_same S XShutdown). repeat split; auto. rewrite sbo_armed. discriminate.
Qed.

Lemma bump_frame S dcl t : retries (bump_retry S dcl t) = retries S + 1 /\ nconsult (bump_retry S dcl t) = nconsult S /\
  spec_left (bump_retry S dcl t) = spec_left S /\ (spec_armed (bump_retry S dcl t) = true -> spec_armed S = true).
Proof.
  unfold bump_retry. destruct (is_some (fin_exc S)); [repeat split; auto|].
  destruct (submit_frame (bump_counters S dcl) t) as (A & B & C & D). repeat split; auto.
Qed.

Lemma set_result_counted c s h r s' ev : set_result c s h r = (s', ev) ->
  counted s s' ev /\ spec_left s' = spec_left s /\ (spec_armed s' = true -> spec_armed s = true).
Proof.
  intros H. destruct r; cbn [set_result] in H;
    try (inversion H; subst; first [apply sbo_counted, fail_with_same | apply sbo_counted, finish_with_same
                                   | apply sbo_counted, finish_rows_same]).
  - destruct (pol c (nconsult s) k tag (retries s) (if request_error_kind k then msg_cl s else None)) as [d dcl].
    unfold handle_decision in H. inversion H; subst; clear H.
    destruct d.
    + destruct (bump_frame (tick_consult s) dcl (TRetry true h)) as (A & B & C & D).
      unfold counted, retry_count. cbn. rewrite A, B. cbn. repeat split; try lia; auto.
    + unfold fail_with. change (completed (tick_consult s)) with (completed s).
      destruct (completed s); unfold counted, retry_count; cbn; repeat split; try lia; try discriminate; auto.
    + unfold finish_with. change (completed (tick_consult s)) with (completed s).
      destruct (completed s); unfold counted, retry_count; cbn; repeat split; try lia; try discriminate; auto.
    + destruct (bump_frame (tick_consult s) dcl (TRetry false h)) as (A & B & C & D).
      unfold counted, retry_count. cbn. rewrite A, B. cbn. repeat split; try lia; auto.
  - unfold unprepared in H.
    assert (G : forall ps, unprep_go c s h ps = (s', ev) ->
                counted s s' ev /\ spec_left s' = spec_left s /\ (spec_armed s' = true -> spec_armed s = true)).
    { intros [[pid qs] ks0] G. unfold unprep_go in G.
      destruct (negb (uses_ks c) && is_some ks0 && negb (opt_eqb (conn_ks s) ks0)); inversion G; subst.
      - apply sbo_counted, fail_with_same.
      - destruct (submit_frame s (TReprepare h qs (if uses_ks c then ks0 else None))) as (A & B & C & D).
        unfold counted, retry_count. cbn. rewrite A, B. repeat split; try lia; auto. }
    destruct (fut_ps c) as [[[pid pqs] pks]|].
    + destruct (negb (pid =? id)).
      * inversion H; subst. apply sbo_counted, fail_with_same.
      * destruct (lookup (known c) id); eapply G; eauto.
    + destruct (lookup (known c) id); [eapply G; eauto|].
      inversion H; subst. apply sbo_counted, fail_with_same.
Qed.

Lemma retry_count_app a b : retry_count (a ++ b) = retry_count a + retry_count b.
Proof. unfold retry_count. rewrite filter_app, app_length. lia. Qed.

Lemma consults_app a b : consults (a ++ b) = consults a ++ consults b.
Proof. unfold consults. apply filter_app. Qed.

(* Spec is the only step that can arm the speculative timer or consume the speculative plan *)
Lemma step_counted c s o s' ev : step c s o = (s', ev) ->
  counted s s' ev /\ (o <> Spec -> is_next_page o = false ->
                       spec_left s' = spec_left s /\ (spec_armed s' = true -> spec_armed s = true)).
Proof.
  intros H. destruct o as [|i r|k0| |h0 p|k0|pp]; cbn [step] in H.
  - pose proof (send_request_cframe _ _ _ _ H) as F. split; [|intros _ _; destruct F as (_ & _ & F3 & F4 & _); auto].
    apply counted_frame; [exact F|]. intros e He. eapply walk_no_consult; eauto.
  - assert (Triv : counted s s [] /\ (Resp i r <> Spec -> is_next_page (Resp i r) = false ->
                     spec_left s = spec_left s /\ (spec_armed s = true -> spec_armed s = true))).
    { unfold counted, retry_count. cbn. repeat split; auto; lia. }
    destruct (nth_error (attempts s) i) as [a|] eqn:N; [|inversion H; subst; exact Triv].
    destruct (a_done a) eqn:D; [inversion H; subst; exact Triv|].
    destruct (a_prep a) eqn:P.
    + inversion H; subst. destruct (submit_frame (set_attempts s (mark_done i (attempts s))) (TAfterPrepare (a_host a) r)) as (A1 & B1 & C1 & D1).
      unfold counted, retry_count. cbn. rewrite A1, B1. cbn. repeat split; auto; lia.
    + destruct (Nat.eqb (a_page a) (page_no s)); [|inversion H; subst; unfold counted, retry_count; cbn; repeat split; auto; lia].
      destruct (resp_current_cases _ _ _ _ _ _ H) as [H'|(k1 & tag1 & dcl1 & reuse & s2 & ev2 & -> & I & Pl & F & Sh & R & -> & ->)].
      * apply set_result_counted in H'. destruct H' as (C & L & A). split; [exact C|intros _ _; auto].
      * pose proof (run_task_cframe _ _ _ _ _ R) as (F1 & F2 & F3 & F4 & _).
        destruct (no_consult_counts ev2) as [Rc Cc]; [intros e He; eapply run_task_no_consult; eauto|].
        split.
        -- unfold counted. cbn [retries nconsult set_err]. rewrite F1, F2.
           cbn [retries nconsult bump_counters tick_consult set_attempts].
           match goal with |- context [?c0 :: ev2 ++ [?e0]] => change (c0 :: ev2 ++ [e0]) with ([c0] ++ ev2 ++ [e0]) end.
           rewrite !retry_count_app, !consults_app, !app_length, Rc, Cc.
           destruct reuse; unfold retry_count, consults; cbn; split; lia.
        -- intros _ _. cbn [spec_left spec_armed set_err]. split; [exact F3|exact F4].
  - destruct (nth_error (queue s) k0) as [t|].
    + pose proof (run_task_cframe _ _ _ _ _ H) as F. split.
      * apply (counted_frame (set_queue s (remove_nth k0 (queue s))) s' ev F).
        intros e He. eapply run_task_no_consult; eauto.
      * intros _ _. destruct F as (_ & _ & F3 & F4 & _). auto.
    + inversion H; subst. unfold counted, retry_count. cbn. repeat split; auto; lia.
  - split; [|intros N _; congruence]. unfold spec_fire in H.
    assert (Triv : forall s1, retries s1 = retries s -> nconsult s1 = nconsult s -> counted s s1 []).
    { intros s1 R C. unfold counted, retry_count. cbn. rewrite R, C. split; lia. }
    destruct (negb (spec_armed s)); [inversion H; subst; apply Triv; reflexivity|].
    destruct (completed (set_spec s false (spec_left s))); [inversion H; subst; apply Triv; reflexivity|].
    destruct (attempts (set_spec s false (spec_left s))); [inversion H; subst; apply Triv; reflexivity|].
    destruct (elapsed (set_spec s false (spec_left s))).
    { inversion H; subst. destruct (on_timeout_same (set_spec s false (spec_left s))) as [[_ F]|[_ E]];
        [apply Triv; [apply (sbo_retries _ _ F)|apply (sbo_ncons _ _ F)]|rewrite E; apply Triv; reflexivity]. }
    destruct (send_request (set_spec s false (spec_left s)) false) as [s1 ev1] eqn:W. inversion H; subst.
    pose proof (send_request_cframe _ _ _ _ W) as (F1 & F2 & _).
    assert (C1 : counted s s1 ev).
    { destruct (no_consult_counts ev) as [R C]; [intros e He; eapply walk_no_consult; eauto|].
      unfold counted. rewrite R, C, F1, F2. cbn. split; lia. }
    unfold start_timer. destruct (spec_armed s1); [exact C1|]. destruct (0 <? spec_left s1); exact C1.
  - inversion H; subst. unfold counted, retry_count. cbn. repeat split; auto; lia.
  - inversion H; subst. unfold counted, retry_count. cbn. repeat split; auto; lia.
  - split; [|intros _ NP; discriminate].
    destruct (paging s); [|inversion H; subst; unfold counted, retry_count; cbn; split; lia].
    destruct (page_start_fields c s pp) as (_ & _ & _ & _ & _ & _ & _ & R & N & _).
    pose proof (send_request_cframe _ _ _ _ H) as (F1 & F2 & _).
    destruct (no_consult_counts ev) as [Rc C]; [intros e He; eapply walk_no_consult; eauto|].
    unfold counted. rewrite Rc, C, F1, F2, R, N. cbn. split; lia.
Qed.

Lemma exec_counted c : forall ops s s' ev, exec c s ops = (s', ev) -> counted s s' ev.
Proof.
  induction ops as [|o ops IH]; intros s s' ev H; cbn [exec] in H.
  - inversion H; subst. unfold counted, retry_count. cbn. split; lia.
  - destruct (step c s o) as [s1 ev1] eqn:S. destruct (exec c s1 ops) as [s2 ev2] eqn:E. inversion H; subst.
    destruct (step_counted _ _ _ _ _ S) as [[A1 A2] _]. destruct (IH _ _ _ E) as [B1 B2].
    unfold counted. rewrite retry_count_app, consults_app, app_length. split; lia.
Qed.

Lemma op_eq_spec (o : op) : o = Spec \/ o <> Spec.
Proof. destruct o; auto; right; discriminate. Qed.

(* never armed: the invariant of a future created without a speculative plan *)
Definition never_spec (s : state) : Prop := spec_armed s = false /\ spec_left s = 0.

Lemma never_spec_step c s o s' ev : never_spec s -> step c s o = (s', ev) -> never_spec s'.
Proof.
  intros [A L] H. destruct (op_eq_spec o) as [->|N].
  - cbn [step] in H. unfold spec_fire in H. rewrite A in H. cbn in H. inversion H; subst. split; assumption.
  - destruct (is_next_page o) eqn:NP.
    + destruct o; try discriminate. cbn [step] in H. destruct (paging s); [|inversion H; subst; split; assumption].
      assert (P : never_spec (page_start c s p)).
      { unfold page_start, start_timer. cbn [spec_armed spec_left]. rewrite L. cbn. split; reflexivity. }
      destruct P as [PA PL]. pose proof (send_request_cframe _ _ _ _ H) as (_ & _ & F3 & F4 & _). split; [|congruence].
      destruct (spec_armed s') eqn:E; [|reflexivity]. rewrite (F4 eq_refl) in PA. discriminate.
    + destruct (step_counted _ _ _ _ _ H) as [_ F]. destruct (F N NP) as [F1 F2]. split; [|congruence].
      destruct (spec_armed s') eqn:E; [|reflexivity]. rewrite (F2 eq_refl) in A. discriminate.
Qed.

(* ------------------------------------------------------------------ running the retry task *)
Lemma run_retry_same c s k h : nth_error (queue s) k = Some (TRetry true h) -> fin_exc s = None ->
  pool_of s h = PHealthy ->
  exists s', step c s (Run k) = (s', [Sent h (MOrig (msg_cl s)) CRetrySame]) /\
             attempts s' = attempts s ++ [{| a_host := h; a_prep := false; a_done := false; a_page := page_no s |}] /\
             queue s' = remove_nth k (queue s) /\ plan s' = plan s.
Proof.
  intros N E P. cbn [step]. rewrite N. cbn [run_task fin_exc set_queue]. rewrite E. cbn [is_some].
  unfold query_or_next. rewrite query_eq.
  change (pool_of (set_queue s (remove_nth k (queue s))) h) with (pool_of s h). rewrite P. cbn [reason].
  eexists. split; [reflexivity|]. repeat split; reflexivity.
Qed.

Lemma run_retry_next c s k h : nth_error (queue s) k = Some (TRetry false h) -> fin_exc s = None ->
  step c s (Run k) = send_request (set_queue s (remove_nth k (queue s))) true.
Proof. intros N E. cbn [step]. rewrite N. cbn [run_task fin_exc set_queue]. rewrite E. reflexivity. Qed.

Lemma run_retry_failed c s k reuse h : nth_error (queue s) k = Some (TRetry reuse h) -> fin_exc s <> None ->
  step c s (Run k) = (set_queue s (remove_nth k (queue s)), []).
Proof.
  intros N E. cbn [step]. rewrite N. cbn [run_task fin_exc set_queue].
  destruct (fin_exc s); [reflexivity|congruence].
Qed.

Lemma nth_error_app_last {A} (l : list A) x : nth_error (l ++ [x]) (length l) = Some x.
Proof. induction l; cbn; auto. Qed.

Lemma remove_nth_app_last {A} (l : list A) x : remove_nth (length l) (l ++ [x]) = l.
Proof. induction l; cbn; [reflexivity|]. rewrite IHl. reflexivity. Qed.

Lemma exec_never_spec c : forall ops s s' ev, never_spec s -> exec c s ops = (s', ev) -> never_spec s'.
Proof.
  induction ops as [|o ops IH]; intros s s' ev N E; cbn [exec] in E.
  - inversion E; subst. exact N.
  - destruct (step c s o) as [sa ea] eqn:S. destruct (exec c sa ops) as [sb eb] eqn:E2. inversion E; subst.
    eapply IH; [|exact E2]. eapply never_spec_step; eauto.
Qed.

Lemma init_never_spec lb target pl cl hasp maxa ks : never_spec (init lb target pl cl false hasp maxa ks).
Proof. unfold init, start_timer, spec_gate. cbn. split; reflexivity. Qed.
