From Coq Require Import List Bool Arith Lia Permutation Sorted.
From Verif Require Import Concurrent.
Import ListNotations.

(* ====================================================================================================== *)
(* Part A: frame properties of the nested chain: pc, future, exception only move forward; at most one more  *)
(* slot is taken per _execute_next.                                                                        *)
(* ====================================================================================================== *)

Definition fut_mono (a b : fstate) : Prop := a <> FPending -> b = a.
Definition exc_mono (a b : option nat) : Prop := forall e, a = Some e -> b = Some e.

Record frame (s s' : state) : Prop := mkFrame {
  fr_pc : pc s' = pc s;
  fr_fut : fut_mono (fut s) (fut s');
  fr_ferr : fut_err s' = fut_err s;
  fr_exc : exc_mono (exc s) (exc s');
  fr_pend : pend2 s' = pend2 s;
  fr_yield : yielded s' = yielded s
}.

Ltac mono := unfold fut_mono, exc_mono in *; intros; auto; try congruence.

Lemma frame_refl s : frame s s.
Proof. split; try reflexivity; mono. Qed.

Lemma frame_trans a b c : frame a b -> frame b c -> frame a c.
Proof.
  intros [p1 f1 e1 x1 q1 y1] [p2 f2 e2 x2 q2 y2]. split; try congruence.
  - unfold fut_mono in *. intros H. rewrite (f2 ltac:(rewrite (f1 H); exact H)). apply f1, H.
  - unfold exc_mono in *. intros e H. apply x2, x1, H.
Qed.

Lemma frame_set_core s r st cu rs e fl : exc_mono (exc s) e -> frame s (set_core s r st cu rs e fl).
Proof. intros H. split; cbn; try reflexivity; mono. Qed.

Lemma frame_notify s : frame s (notify s) /\ inflight (notify s) = inflight s /\ rest (notify s) = rest s
  /\ started (notify s) = started s /\ current (notify s) = current s /\ results (notify s) = results s /\ exc (notify s) = exc s.
Proof. unfold notify. destruct (pc s) eqn:P; repeat split; cbn; try reflexivity; mono. Qed.

Lemma frame_fut_set s v : frame s (fut_set s v) /\ inflight (fut_set s v) = inflight s /\ rest (fut_set s v) = rest s
  /\ started (fut_set s v) = started s /\ current (fut_set s v) = current s /\ results (fut_set s v) = results s
  /\ exc (fut_set s v) = exc s.
Proof.
  unfold fut_set. destruct (fut s) eqn:F; repeat split; cbn; try reflexivity; mono.
Qed.

Lemma frame_region2 c s : frame s (region2 c s) /\ inflight (region2 c s) = inflight s /\ rest (region2 c s) = rest s
  /\ started (region2 c s) = started s /\ current (region2 c s) = current s /\ results (region2 c s) = results s
  /\ exc (region2 c s) = exc s.
Proof.
  unfold region2. destruct (current s =? started s).
  - destruct (exc s) eqn:E, (ff c); rewrite <- ?E; apply frame_fut_set.
  - repeat split; try reflexivity; mono.
Qed.

Definition exc_mono_refl o : exc_mono o o := fun e H => H.

(* what a continuation (_execute_next on the remaining statements) guarantees *)
Definition next_ok (next : nat -> state -> state * bool) : Prop :=
  forall d s, frame s (fst (next d s)) /\ length (inflight (fst (next d s))) <= S (length (inflight s)).

Lemma put_result_frame c next d s idx ok : next_ok next ->
  frame s (put_result c next d s idx ok) /\ length (inflight (put_result c next d s idx ok)) <= S (length (inflight s)).
Proof.
  intros N. unfold put_result. destruct (var c).
  - (* VList *)
    set (s1 := set_core s (rest s) (started s) (S (current s)) (results s ++ [(idx, ok)]) (exc s) (inflight s)).
    assert (F1 : frame s s1) by (apply frame_set_core, exc_mono_refl).
    destruct (negb ok && ff c).
    + match goal with |- context [notify ?x] => destruct (frame_notify x) as (Fn & In & _); set (s2 := x) in * end.
      assert (F2 : frame s1 s2).
      { apply frame_set_core. intros e H. cbn in H |- *. rewrite H. reflexivity. }
      split; [eapply frame_trans; [exact F1|]; eapply frame_trans; [exact F2| exact Fn]|]. rewrite In. cbn. lia.
    + destruct (N d s1) as [Fx Lx]. destruct (next d s1) as [s2 r]. cbn [fst] in *.
      assert (frame s s2) by (eapply frame_trans; eauto).
      destruct (negb r && (current s2 =? started s2)).
      * destruct (frame_notify s2) as (Fn & In & _). split; [eapply frame_trans; eauto|]. rewrite In. exact Lx.
      * split; assumption.
  - (* VGen *)
    set (s1 := set_core s (rest s) (started s) (current s) (results s ++ [(idx, ok)]) (exc s) (inflight s)).
    assert (F1 : frame s s1) by (apply frame_set_core, exc_mono_refl).
    destruct (N d s1) as [Fx Lx]. destruct (next d s1) as [s2 r]. cbn [fst] in *.
    destruct (frame_notify s2) as (Fn & In & _).
    split; [eapply frame_trans; [exact F1|]; eapply frame_trans; eauto|]. rewrite In. exact Lx.
  - (* VFuture: same first region as VList *)
    set (s1 := set_core s (rest s) (started s) (S (current s)) (results s ++ [(idx, ok)]) (exc s) (inflight s)).
    assert (F1 : frame s s1) by (apply frame_set_core, exc_mono_refl).
    destruct (negb ok && ff c).
    + match goal with |- context [notify ?x] => destruct (frame_notify x) as (Fn & In & _); set (s2 := x) in * end.
      assert (F2 : frame s1 s2).
      { apply frame_set_core. intros e H. cbn in H |- *. rewrite H. reflexivity. }
      split; [eapply frame_trans; [exact F1|]; eapply frame_trans; [exact F2| exact Fn]|]. rewrite In. cbn. lia.
    + destruct (N d s1) as [Fx Lx]. destruct (next d s1) as [s2 r]. cbn [fst] in *.
      assert (frame s s2) by (eapply frame_trans; eauto).
      destruct (negb r && (current s2 =? started s2)).
      * destruct (frame_notify s2) as (Fn & In & _). split; [eapply frame_trans; eauto|]. rewrite In. exact Lx.
      * split; assumption.
Qed.

Lemma put_result_nested_frame c next d s idx ok : next_ok next ->
  frame s (put_result_nested c next d s idx ok) /\ length (inflight (put_result_nested c next d s idx ok)) <= S (length (inflight s)).
Proof.
  intros N. unfold put_result_nested. destruct (put_result_frame c next d s idx ok N) as [F L].
  destruct (var c); try (split; assumption).
  destruct (frame_region2 c (put_result c next d s idx ok)) as (F2 & I2 & _).
  split; [eapply frame_trans; eauto|]. rewrite I2. exact L.
Qed.

Lemma exec_next_ok c : forall r, next_ok (exec_next c r).
Proof.
  induction r as [|b r' IH]; intros d s; cbn [exec_next fst].
  - split; [apply frame_refl | lia].
  - set (s1 := set_core s r' (S (started s)) (current s) (results s) (exc s) (inflight s)).
    assert (F1 : frame s s1) by (apply frame_set_core, exc_mono_refl).
    assert (L1 : inflight s1 = inflight s) by reflexivity.
    assert (Later : frame s (set_core s1 (rest s1) (started s1) (current s1) (results s1) (exc s1) (inflight s1 ++ [started s]))
            /\ length (inflight (set_core s1 (rest s1) (started s1) (current s1) (results s1) (exc s1) (inflight s1 ++ [started s]))) <= S (length (inflight s))).
    { split; [eapply frame_trans; [exact F1|]; apply frame_set_core, exc_mono_refl|]. cbn. rewrite app_length. cbn. lia. }
    assert (Sync : forall ok, frame s (put_result_nested c (exec_next c r') (S d) s1 (started s) ok)
            /\ length (inflight (put_result_nested c (exec_next c r') (S d) s1 (started s) ok)) <= S (length (inflight s))).
    { intros ok. destruct (put_result_nested_frame c (exec_next c r') (S d) s1 (started s) ok IH) as [F L].
      split; [eapply frame_trans; eauto|]. rewrite L1 in L. exact L. }
    destruct b; try apply Sync; try apply Later.
    destruct (S d <? maxrec c); [apply Sync | apply Later].
Qed.

Lemma exec_next_false c : forall r d s, snd (exec_next c r d s) = false -> r = [] /\ fst (exec_next c r d s) = s.
Proof. intros [|b r] d s; cbn; [auto | discriminate]. Qed.

Lemma start_loop_frame c : forall k s, frame s (start_loop c k s) /\ length (inflight (start_loop c k s)) <= k + length (inflight s).
Proof.
  induction k as [|k IH]; intros s; cbn [start_loop].
  - split; [apply frame_refl | lia].
  - unfold exec_next_top. destruct (exec_next_ok c (rest s) 0 s) as [F L].
    destruct (exec_next c (rest s) 0 s) as [s' r]. cbn [fst] in *.
    destruct r.
    + destruct (IH s') as [F2 L2]. split; [eapply frame_trans; eauto | lia].
    + split; [assumption | lia].
Qed.

(* ---------- main thread helpers touch only pc / notified / future / yielded / (Gen) results,current ---------- *)
Lemma set_pc_proj s p nt : inflight (set_pc s p nt) = inflight s /\ fut (set_pc s p nt) = fut s /\ fut_err (set_pc s p nt) = fut_err s
  /\ exc (set_pc s p nt) = exc s /\ pc (set_pc s p nt) = p.
Proof. repeat split. Qed.

Lemma finish_list_proj c s : inflight (finish_list c s) = inflight s /\ fut (finish_list c s) = fut s
  /\ fut_err (finish_list c s) = fut_err s /\ exc (finish_list c s) = exc s.
Proof. unfold finish_list. destruct (exc s) eqn:E, (ff c); repeat split; cbn; congruence. Qed.

Lemma results_list_proj c s : inflight (results_list c s) = inflight s /\ fut (results_list c s) = fut s
  /\ fut_err (results_list c s) = fut_err s /\ exc (results_list c s) = exc s.
Proof. unfold results_list. destruct (current s <? started s); [repeat split | apply finish_list_proj]. Qed.

Lemma results_gen_proj c s : inflight (results_gen c s) = inflight s /\ fut (results_gen c s) = fut s
  /\ fut_err (results_gen c s) = fut_err s /\ exc (results_gen c s) = exc s.
Proof.
  unfold results_gen. destruct (current s <? started s); [|repeat split].
  destruct (min_res (results s)) as [[i ok]|]; [|repeat split].
  destruct (i =? current s); [|repeat split].
  destruct (ff c && negb ok); repeat split.
Qed.

Ltac fin := repeat match goal with H : _ /\ _ |- _ => destruct H | H : frame _ _ |- _ => destruct H end;
  repeat split; cbn; mono; try lia.

Lemma main_step_proj c s :
  (pc s <> MInit -> inflight (main_step c s) = inflight s)
  /\ fut_mono (fut s) (fut (main_step c s)) /\ fut_err (main_step c s) = fut_err s /\ exc_mono (exc s) (exc (main_step c s))
  /\ (pc s = MInit -> length (inflight (main_step c s)) <= conc c + length (inflight s)).
Proof.
  unfold main_step. destruct (pc s) eqn:P.
  - pose proof (start_loop_frame c (conc c) s). fin.
  - destruct (var c); [pose proof (results_list_proj c s) | pose proof (results_gen_proj c s) | pose proof (results_list_proj c s)]; fin.
  - destruct (notified s); [|fin].
    destruct (var c).
    + destruct (exc s) eqn:E, (ff c); try (pose proof (results_list_proj c s)); fin.
    + pose proof (results_gen_proj c s); fin.
    + destruct (exc s) eqn:E, (ff c); try (pose proof (results_list_proj c s)); fin.
  - pose proof (results_gen_proj c (bump_current s)) as H. unfold bump_current, set_core in *. cbn in H. fin.
  - destruct (var c); [fin | fin |].
    destruct o; [pose proof (frame_fut_set s (FResult l)) | pose proof (frame_fut_set s (FExc idx))]; fin.
  - fin.
Qed.

Lemma mem_remove_length i l : mem i l = true -> S (length (remove_first i l)) = length l.
Proof.
  induction l as [|x l IH]; cbn; [discriminate|]. destruct (x =? i); cbn; [reflexivity|]. intros H. rewrite IH; auto.
Qed.

Lemma main_step_pc_init c s : pc s <> MInit -> pc (main_step c s) <> MInit.
Proof.
  intros H. unfold main_step. destruct (pc s) eqn:P; try congruence.
  - destruct (var c); unfold results_list, results_gen, finish_list;
      repeat (match goal with |- context [if ?b then _ else _] => destruct b | |- context [match ?x with _ => _ end] => destruct x end);
      cbn; congruence.
  - destruct (notified s); [|congruence].
    destruct (var c); unfold results_list, results_gen, finish_list;
      repeat (match goal with |- context [if ?b then _ else _] => destruct b | |- context [match ?x with _ => _ end] => destruct x end);
      cbn; congruence.
  - unfold results_gen, bump_current; cbn.
      repeat (match goal with |- context [if ?b then _ else _] => destruct b | |- context [match ?x with _ => _ end] => destruct x end);
      cbn; congruence.
  - destruct (var c); try congruence. cbn. congruence.
Qed.

(* ---------- step-level facts ---------- *)
Definition bound_inv (c : cfg) (s : state) : Prop :=
  length (inflight s) <= conc c /\ (pc s = MInit -> inflight s = []).

Lemma step_bound c s o : bound_inv c s -> bound_inv c (step c s o).
Proof.
  intros [B I]. destruct o; cbn [step].
  - destruct (main_step_proj c s) as (A & _ & _ & _ & E).
    destruct (pc s) eqn:P.
    + specialize (E eq_refl). rewrite (I eq_refl) in E. cbn in E. split; [lia|].
      intros H. unfold main_step in H. rewrite P in H. cbn in H. discriminate.
    + split; [rewrite A by congruence; exact B|]. intros H. exfalso. revert H. apply main_step_pc_init. congruence.
    + split; [rewrite A by congruence; exact B|]. intros H. exfalso. revert H. apply main_step_pc_init. congruence.
    + split; [rewrite A by congruence; exact B|]. intros H. exfalso. revert H. apply main_step_pc_init. congruence.
    + split; [rewrite A by congruence; exact B|]. intros H. exfalso. revert H. apply main_step_pc_init. congruence.
    + split; [rewrite A by congruence; exact B|]. intros H. exfalso. revert H. apply main_step_pc_init. congruence.
  - destruct (mem i (inflight s)) eqn:M; [|split; assumption].
    assert (Hp : pc s <> MInit). { intros H. rewrite (I H) in M. discriminate. }
    set (s0 := set_core s (rest s) (started s) (current s) (results s) (exc s) (remove_first i (inflight s))).
    destruct (put_result_frame c (exec_next_top c) 0 s0 i (later_ok c i)) as [F L].
    { intros d x. apply exec_next_ok. }
    pose proof (mem_remove_length i (inflight s) M) as R.
    assert (L' : length (inflight (put_result c (exec_next_top c) 0 s0 i (later_ok c i))) <= conc c) by (cbn in L; lia).
    assert (P' : pc (put_result c (exec_next_top c) 0 s0 i (later_ok c i)) = pc s) by (rewrite (fr_pc _ _ F); reflexivity).
    destruct (var c); split; cbn; try assumption; intros H; congruence.
  - destruct (mem i (pend2 s)); [|split; assumption].
    destruct (frame_region2 c s) as (F & In & _). split; cbn; [rewrite In; exact B|].
    rewrite In, (fr_pc _ _ F). exact I.
Qed.

Lemma run_inv {P : state -> Prop} c : P (init c) -> (forall s o, P s -> P (step c s o)) -> forall ops, P (run c ops).
Proof.
  intros H0 Hs ops. unfold run. generalize (init c) H0. induction ops as [|o ops IH]; intros s Hs0; cbn; [assumption|].
  apply IH, Hs, Hs0.
Qed.

Lemma bound_all c ops : length (inflight (run c ops)) <= conc c.
Proof. apply (@run_inv (bound_inv c) c); [split; cbn; [lia | reflexivity] | intros; apply step_bound; assumption]. Qed.

(* the future and the stored exception never change once set; no InvalidStateError *)
Lemma step_mono c s o : fut_mono (fut s) (fut (step c s o)) /\ fut_err (step c s o) = fut_err s /\ exc_mono (exc s) (exc (step c s o)).
Proof.
  destruct o; cbn [step].
  - destruct (main_step_proj c s) as (_ & A & B & C & _). auto.
  - destruct (mem i (inflight s)); [|repeat split; mono].
    set (s0 := set_core s (rest s) (started s) (current s) (results s) (exc s) (remove_first i (inflight s))).
    destruct (put_result_frame c (exec_next_top c) 0 s0 i (later_ok c i)) as [[_ Ff Fe Fx _ _] _].
    { intros d x. apply exec_next_ok. }
    destruct (var c); repeat split; cbn; assumption.
  - destruct (mem i (pend2 s)); [|repeat split; mono].
    destruct (frame_region2 c s) as ([_ Ff Fe Fx _ _] & _). repeat split; cbn; assumption.
Qed.

Lemma fut_err_zero c ops : fut_err (run c ops) = 0.
Proof. apply (@run_inv (fun s => fut_err s = 0) c); [reflexivity|]. intros s o H. destruct (step_mono c s o) as (_ & E & _). congruence. Qed.

Lemma run_app c ops1 ops2 : run c (ops1 ++ ops2) = fold_left (step c) ops2 (run c ops1).
Proof. unfold run. apply fold_left_app. Qed.

Lemma fold_mono c : forall ops s, fut_mono (fut s) (fut (fold_left (step c) ops s)) /\ exc_mono (exc s) (exc (fold_left (step c) ops s)).
Proof.
  induction ops as [|o ops IH]; intros s; cbn; [split; mono|].
  destruct (step_mono c s o) as (A & _ & C). destruct (IH (step c s o)) as [A' C'].
  unfold fut_mono, exc_mono in *. split.
  - intros H. rewrite (A' ltac:(rewrite (A H); exact H)). apply A, H.
  - intros e H. apply C', C, H.
Qed.

(* once the caller is through (pc = MFin) the future is completed *)
Lemma fin_done c ops o : pc (run c ops) = MFin o -> fut (run c ops) <> FPending.
Proof.
  apply (@run_inv (fun s => forall o, pc s = MFin o -> fut s <> FPending) c); [cbn; discriminate|].
  clear ops o. intros s op IH o. destruct op; cbn [step].
  - unfold main_step. destruct (pc s) eqn:P.
    + cbn. discriminate.
    + destruct (var c); unfold results_list, results_gen, finish_list;
      repeat (match goal with |- context [if ?b then _ else _] => destruct b | |- context [match ?x with _ => _ end] => destruct x end);
      cbn; discriminate.
    + destruct (notified s); [|congruence].
      destruct (var c); unfold results_list, results_gen, finish_list;
      repeat (match goal with |- context [if ?b then _ else _] => destruct b | |- context [match ?x with _ => _ end] => destruct x end);
      cbn; discriminate.
    + unfold results_gen, bump_current; cbn.
      repeat (match goal with |- context [if ?b then _ else _] => destruct b | |- context [match ?x with _ => _ end] => destruct x end);
      cbn; discriminate.
    + destruct (var c); try congruence. intros _. cbn. unfold fut_set. destruct o0; destruct (fut s) eqn:F; cbn; congruence.
    + intros _. eapply IH. reflexivity.
  - destruct (mem i (inflight s)); [|apply IH].
    set (s0 := set_core s (rest s) (started s) (current s) (results s) (exc s) (remove_first i (inflight s))).
    destruct (put_result_frame c (exec_next_top c) 0 s0 i (later_ok c i)) as [[Fp Ff _ _ _ _] _].
    { intros d x. apply exec_next_ok. }
    assert (G : pc (put_result c (exec_next_top c) 0 s0 i (later_ok c i)) = MFin o -> fut (put_result c (exec_next_top c) 0 s0 i (later_ok c i)) <> FPending).
    { intros H. rewrite Fp in H. cbn in H. specialize (IH o H). rewrite Ff; cbn; assumption. }
    destruct (var c); cbn; exact G.
  - destruct (mem i (pend2 s)); [|apply IH].
    destruct (frame_region2 c s) as ([Fp Ff _ _ _ _] & _). cbn. intros H. rewrite Fp in H. specialize (IH o H). rewrite Ff; assumption.
Qed.

Lemma filter_len_le {A} (f : A -> bool) (l : list A) : length (filter f l) <= length l.
Proof. induction l as [|x l IH]; cbn; [lia|]. destruct (f x); cbn; lia. Qed.
