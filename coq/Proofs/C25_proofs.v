(* C25 proofs: invariant J (reconnector bookkeeping) preserved by every step of Model/HostState.v *)
From Coq Require Import ZArith List Bool Arith Lia Permutation.
From Verif Require Import HostState.
Import ListNotations.

(* pending reconnectors: scheduled, or with a connection attempt in flight *)
Definition pend (s : st) : list nat := timers s ++ probes s.

Definition J (s : st) : Prop :=
  NoDup (pend s) /\
  (forall r, In r (pend s) -> r < nrecs s) /\
  (forall r, In r (pend s) -> rcanc (recs s r) = false -> reg (hosts s (rhost (recs s r))) = Some r) /\
  (forall h r, reg (hosts s h) = Some r -> r < nrecs s) /\
  (forall h, present (hosts s h) = 2 -> reg (hosts s h) = None).

(* s' differs from s only in parts J does not look at *)
Definition same_core (s s' : st) : Prop :=
  pend s' = pend s /\ nrecs s' = nrecs s /\ (forall r, recs s' r = recs s r) /\
  (forall h, reg (hosts s' h) = reg (hosts s h)) /\
  (forall h, present (hosts s' h) = 2 -> present (hosts s h) = 2).

Lemma same_core_refl s : same_core s s.
Proof. repeat split; auto. Qed.

Lemma same_core_trans a b c : same_core a b -> same_core b c -> same_core a c.
Proof.
  intros (A1 & A2 & A3 & A4 & A5) (B1 & B2 & B3 & B4 & B5). repeat split.
  - congruence. - congruence. - intros; rewrite B3; auto. - intros; rewrite B4; auto. - intros; auto.
Qed.

Lemma J_frame s s' : same_core s s' -> J s -> J s'.
Proof.
  intros (A1 & A2 & A3 & A4 & A5) (J1 & J2 & J3 & J4 & J5). repeat split.
  - rewrite A1; auto.
  - intros r Hr. rewrite A1 in Hr. rewrite A2. auto.
  - intros r Hr Hc. rewrite A1 in Hr. rewrite A3 in *. rewrite A4. auto.
  - intros h r Hr. rewrite A4 in Hr. rewrite A2. eauto.
  - intros h Hp. rewrite A4. auto.
Qed.

Definition safe (f : hst -> hst) : Prop := forall x, reg (f x) = reg x /\ (present (f x) = 2 -> present x = 2).

Lemma sc_updh s h f : safe f -> same_core s (updh s h f).
Proof.
  intros Hf. unfold same_core, updh; simpl. repeat split; auto.
  - intros x. destruct (x =? h); auto. apply Hf.
  - intros x. destruct (x =? h); auto. apply Hf.
Qed.

Lemma safe_up v : safe (h_up v). Proof. intros x; split; auto. Qed.
Lemma safe_handling v : safe (h_handling v). Proof. intros x; split; auto. Qed.
Lemma safe_comp f g : safe f -> safe g -> safe (fun x => f (g x)).
Proof. intros Hf Hg x. destruct (Hf (g x)), (Hg x). split; [congruence | auto]. Qed.
Lemma safe_add : safe (fun x => h_up 2 (h_present 1 x)).
Proof. intros x; split; simpl; auto. discriminate. Qed.
Lemma safe_handling_up a b : safe (fun x => h_handling a (h_up b x)).
Proof. intros x; split; auto. Qed.

Lemma sc_enq s ts : same_core s (enq s ts). Proof. repeat split; auto. Qed.
Lemma sc_emit s n : same_core s (emit s n). Proof. repeat split; auto. Qed.
Lemma sc_set_queue s q : same_core s (set_queue s q). Proof. repeat split; auto. Qed.
Lemma sc_set_out s q : same_core s (set_out s q). Proof. repeat split; auto. Qed.
Lemma sc_set_gfail s q : same_core s (set_gfail s q). Proof. repeat split; auto. Qed.
Lemma sc_set_nextg s q : same_core s (set_nextg s q). Proof. repeat split; auto. Qed.
Lemma sc_set_order s q : same_core s (set_order s q). Proof. repeat split; auto. Qed.
Lemma sc_set_epools s q : same_core s (set_epools s q). Proof. repeat split; auto. Qed.
Lemma sc_set_eign s q : same_core s (set_eign s q). Proof. repeat split; auto. Qed.
Lemma sc_upd_pools s h f : same_core s (upd_pools s h f). Proof. repeat split; auto. Qed.

Ltac sc := repeat first
  [ apply same_core_refl
  | eapply same_core_trans; [| apply sc_enq]
  | eapply same_core_trans; [| apply sc_emit]
  | eapply same_core_trans; [| apply sc_set_queue]
  | eapply same_core_trans; [| apply sc_set_out]
  | eapply same_core_trans; [| apply sc_set_gfail]
  | eapply same_core_trans; [| apply sc_set_nextg]
  | eapply same_core_trans; [| apply sc_set_order]
  | eapply same_core_trans; [| apply sc_set_epools]
  | eapply same_core_trans; [| apply sc_set_eign]
  | eapply same_core_trans; [| apply sc_upd_pools]
  | eapply same_core_trans; [| apply sc_updh; first [apply safe_up | apply safe_handling
                                                     | apply safe_add | apply safe_handling_up ] ] ].

Lemma sc_remove_pools s h cb : same_core s (remove_pools s h cb).
Proof. unfold remove_pools. sc. Qed.
Lemma sc_add_pools s h a g : same_core s (add_pools s h a g).
Proof. unfold add_pools. destruct (ignd s h); sc. Qed.
Lemma sc_ucp_one s sid : same_core s (ucp_one s sid).
Proof. unfold ucp_one. sc. Qed.
Lemma sc_ucp_fold l : forall s, same_core s (fold_left ucp_one l s).
Proof.
  induction l; simpl; intros s; [apply same_core_refl|].
  eapply same_core_trans; [apply sc_ucp_one | apply IHl].
Qed.
Lemma sc_ucp_all s : same_core s (ucp_all s).
Proof. unfold ucp_all. apply sc_ucp_fold. Qed.
Lemma sc_finalize_add s h b : same_core s (finalize_add s h b).
Proof.
  unfold finalize_add. eapply same_core_trans; [| apply sc_ucp_all]. eapply same_core_trans; [| apply sc_emit].
  destruct b; sc.
Qed.
Lemma sc_on_add s h : same_core s (on_add s h).
Proof.
  unfold on_add.
  destruct (ignd (emit s (NP 2 h)) h).
  - eapply same_core_trans; [| apply sc_finalize_add]. sc.
  - destruct (has_futures _ h).
    + eapply same_core_trans; [| apply sc_set_nextg]. eapply same_core_trans; [| apply sc_add_pools]. sc.
    + eapply same_core_trans; [| apply sc_finalize_add].
      eapply same_core_trans; [| apply sc_set_nextg]. eapply same_core_trans; [| apply sc_add_pools]. sc.
Qed.

(* cancelling any reconnector keeps J *)
Lemma J_cancel s r : J s -> J (updr s r (r_canc true)).
Proof.
  intros (J1 & J2 & J3 & J4 & J5). unfold updr. repeat split; simpl; auto.
  intros r' Hr Hc. destruct (r' =? r) eqn:E; simpl in *; [discriminate|]. auto.
Qed.

Lemma J_cancel_opt s o : J s -> J (cancel_opt s o).
Proof. destruct o; simpl; auto using J_cancel. Qed.

(* get_and_set_reconnection_handler(None) followed by cancel() of the old handler *)
Lemma J_unreg s h g : (forall x, reg (g x) = None) -> J s -> J (cancel_opt (updh s h g) (reg (hosts s h))).
Proof.
  intros Hg (J1 & J2 & J3 & J4 & J5).
  destruct (reg (hosts s h)) as [r0|] eqn:Er; unfold cancel_opt, updr, updh; simpl.
  - repeat split; simpl; auto.
    + intros r Hr Hc. destruct (r =? r0) eqn:E; simpl in Hc; [discriminate|].
      specialize (J3 r Hr Hc). simpl.
      destruct (rhost (recs s r) =? h) eqn:E2.
      * apply Nat.eqb_eq in E2. rewrite E2 in J3. rewrite Er in J3. inversion J3; subst. rewrite Nat.eqb_refl in E. discriminate.
      * auto.
    + intros x r. destruct (x =? h); [rewrite Hg; discriminate | eauto].
    + intros x. destruct (x =? h); auto.
  - repeat split; simpl; auto.
    + intros r Hr Hc. specialize (J3 r Hr Hc).
      destruct (rhost (recs s r) =? h) eqn:E2.
      * apply Nat.eqb_eq in E2. rewrite E2 in J3. congruence.
      * auto.
    + intros x r. destruct (x =? h); [rewrite Hg; discriminate | eauto].
    + intros x. destruct (x =? h); auto.
Qed.

Lemma NoDup_app_iff_local (l : list nat) x : NoDup l -> ~ In x l -> NoDup (l ++ [x]).
Proof.
  induction l; simpl; intros Hn Hi.
  - constructor; [intros []| constructor].
  - inversion Hn; subst. constructor.
    + intros Hin. apply in_app_or in Hin. destruct Hin as [|[|[]]]; [auto | subst; apply Hi; auto].
    + apply IHl; auto.
Qed.

Lemma NoDup_insert (a b : list nat) r : NoDup (a ++ b) -> ~ In r (a ++ b) -> NoDup ((a ++ [r]) ++ b).
Proof.
  intros Hn Hi. apply (Permutation_NoDup (l := r :: a ++ b)).
  - rewrite <- app_assoc. simpl. apply Permutation_middle.
  - constructor; auto.
Qed.

Lemma in_insert (a b : list nat) r x : In x ((a ++ [r]) ++ b) -> In x (a ++ b) \/ x = r.
Proof.
  intros H. apply in_app_or in H. destruct H as [H | H].
  - apply in_app_or in H. destruct H as [H | [H | []]]; [left; apply in_or_app; auto | right; auto].
  - left; apply in_or_app; auto.
Qed.

(* (re)scheduling a reconnector that is not pending *)
Lemma J_add s r : J s -> ~ In r (pend s) -> r < nrecs s ->
  (rcanc (recs s r) = false -> reg (hosts s (rhost (recs s r))) = Some r) ->
  J (set_timers s (timers s ++ [r])).
Proof.
  intros (J1 & J2 & J3 & J4 & J5) Hn Hlt Hreg.
  split; [|split; [|split; [|split]]]; simpl; auto.
  - apply NoDup_insert; auto.
  - intros x Hx. apply in_insert in Hx. destruct Hx as [Hx | ->]; auto.
  - intros x Hx Hc. apply in_insert in Hx. destruct Hx as [Hx | ->]; auto.
Qed.

Lemma J_start s h a : J s -> J (start_reconnector s h a).
Proof.
  intros HJ. unfold start_reconnector.
  destruct (ignd s h); auto.
  destruct (negb (present (hosts s h) =? 1)) eqn:Ep; auto.
  apply negb_false_iff, Nat.eqb_eq in Ep.
  destruct HJ as (J1 & J2 & J3 & J4 & J5).
  assert (Hfresh : ~ In (nrecs s) (pend s)) by (intros Hin; apply J2 in Hin; lia).
  set (r := nrecs s) in *.
  set (s2 := cancel_opt (updh (set_nrecs (updr s r (fun _ => mkr h a false
               (match sched s with None => None | Some n => Some (pred n) end) false)) (S r)) h (h_reg (Some r))) (reg (hosts s h))).
  assert (H2 : J s2).
  { unfold s2. destruct (reg (hosts s h)) as [r0|] eqn:Er.
    - assert (r0 < r) by (unfold r; eauto).
      unfold cancel_opt, updr, updh, set_nrecs; simpl. split; [|split; [|split; [|split]]]; simpl; auto.
      + intros x Hx. apply J2 in Hx. fold r in Hx. lia.
      + intros x Hx Hc. assert (x < r) by (apply J2; auto).
        destruct (x =? r0) eqn:E0; simpl in Hc; [discriminate|].
        destruct (x =? r) eqn:E1; [apply Nat.eqb_eq in E1; lia|]. simpl in *.
        specialize (J3 x Hx Hc).
        destruct (rhost (recs s x) =? h) eqn:E2; auto.
        apply Nat.eqb_eq in E2. rewrite E2, Er in J3. inversion J3; subst. rewrite Nat.eqb_refl in E0; discriminate.
      + intros x y. destruct (x =? h).
        * simpl. intros Hx; inversion Hx; subst. lia.
        * intros Hx. apply J4 in Hx. fold r in Hx. lia.
      + intros x Hx. destruct (x =? h) eqn:E; auto. apply Nat.eqb_eq in E; subst. simpl in Hx. lia.
    - unfold cancel_opt, updr, updh, set_nrecs; simpl. split; [|split; [|split; [|split]]]; simpl; auto.
      + intros x Hx. apply J2 in Hx. fold r in Hx. lia.
      + intros x Hx Hc. assert (x < r) by (apply J2; auto).
        destruct (x =? r) eqn:E1; [apply Nat.eqb_eq in E1; lia|]. simpl in *.
        specialize (J3 x Hx Hc).
        destruct (rhost (recs s x) =? h) eqn:E2; auto.
        apply Nat.eqb_eq in E2. rewrite E2, Er in J3. discriminate.
      + intros x y. destruct (x =? h).
        * simpl. intros Hx; inversion Hx; subst. lia.
        * intros Hx. apply J4 in Hx. fold r in Hx. lia.
      + intros x Hx. destruct (x =? h) eqn:E; auto. apply Nat.eqb_eq in E; subst. simpl in Hx. lia. }
  change (J (set_timers s2 (timers s2 ++ [r]))).
  apply J_add; auto.
  - assert (Hp : pend s2 = pend s) by (unfold s2; destruct (reg (hosts s h)); reflexivity).
    rewrite Hp. exact Hfresh.
  - assert (Hn2 : nrecs s2 = S r) by (unfold s2; destruct (reg (hosts s h)); reflexivity).
    rewrite Hn2. lia.
  - intros _. unfold s2. destruct (reg (hosts s h)) as [r0|] eqn:Er; unfold cancel_opt, updr, updh, set_nrecs; simpl.
    + assert (r0 < r) by (unfold r; eauto).
      destruct (r =? r0) eqn:E; [apply Nat.eqb_eq in E; lia|]. rewrite Nat.eqb_refl. simpl. rewrite Nat.eqb_refl. reflexivity.
    + rewrite Nat.eqb_refl. simpl. rewrite Nat.eqb_refl. reflexivity.
Qed.

Lemma J_on_up s h : J s -> J (on_up s h).
Proof.
  intros HJ. unfold on_up.
  destruct (handling (hosts s h)); auto. destruct (up (hosts s h) =? 1); auto.
  match goal with |- J (if ?c then ?a else ?b) => assert (Ha : J a) end.
  { eapply J_frame.
    { eapply same_core_trans; [| apply sc_set_nextg]. eapply same_core_trans; [| apply sc_add_pools].
      eapply same_core_trans; [| apply sc_emit]. eapply same_core_trans; [| apply sc_remove_pools]. apply same_core_refl. }
    apply (J_unreg s h (fun x => h_reg None (h_handling true x))); auto. }
  match goal with |- J (if ?c then _ else _) => destruct c end; auto.
  eapply J_frame; [| exact Ha]. sc.
Qed.

Lemma J_on_remove s h : J s -> J (on_remove s h).
Proof.
  intros HJ.
  pose proof (J_unreg s h (fun x => h_reg None (h_up 0 (h_present 2 x))) (fun _ => eq_refl) HJ) as J1.
  eapply J_frame; [| exact J1].
  unfold on_remove, same_core, remove_pools, emit, enq, set_order, cancel_opt, updr, updh.
  destruct (reg (hosts s h)) eqn:Er; simpl; rewrite ?Nat.eqb_refl; simpl; rewrite ?Nat.eqb_refl; simpl; rewrite ?Er;
    simpl; repeat split; auto; intros x; destruct (x =? h) eqn:E; simpl; rewrite ?E; simpl; auto.
Qed.

Lemma J_on_down_task s h a e : J s -> J (on_down_task s h a e).
Proof.
  intros HJ. unfold on_down_task.
  destruct (negb (ignd s h) && connected s h); auto.
  match goal with |- J (if ?c then _ else _) => destruct c end.
  - eapply J_frame; [| exact HJ]. sc.
  - apply J_start. eapply J_frame; [| exact HJ].
    eapply same_core_trans; [| apply sc_emit]. eapply same_core_trans; [| apply sc_remove_pools]. sc.
Qed.

Lemma J_cleanup s h : J s -> J (cleanup s h).
Proof.
  intros HJ. unfold cleanup. apply J_start. eapply J_frame; [| exact HJ].
  eapply same_core_trans; [| apply sc_remove_pools]. sc.
Qed.

Lemma J_grp_done s h g res : J s -> J (grp_done s h g res).
Proof.
  intros HJ. unfold grp_done. destruct g; auto.
  - set (s1 := if res then s else set_gfail s (g :: gfail s)).
    assert (H1 : J s1) by (unfold s1; destruct res; [exact HJ | eapply J_frame; [| exact HJ]; sc]).
    destruct (existsb _ (queue s1)); auto.
    destruct (gfailed s1 g).
    + eapply J_frame; [| apply J_cleanup; exact H1]. sc.
    + eapply J_frame; [| exact H1]. eapply same_core_trans; [| apply sc_ucp_all]. sc.
  - set (s1 := if res then s else set_gfail s (g :: gfail s)).
    assert (H1 : J s1) by (unfold s1; destruct res; [exact HJ | eapply J_frame; [| exact HJ]; sc]).
    destruct (existsb _ (queue s1)); auto.
    destruct (gfailed s1 g); auto.
    eapply J_frame; [| exact H1]. apply sc_finalize_add.
Qed.

Lemma J_run_task s t o : J s -> J (run_task s t o).
Proof.
  intros HJ. destruct t; simpl.
  - apply J_on_down_task; auto.
  - unfold run_addpool. destruct o; apply J_grp_done; (eapply J_frame; [| exact HJ]); sc.
  - destruct cb; auto.
Qed.

Lemma In_remove_nth {A} (k : nat) (l : list A) x : In x (remove_nth k l) -> In x l.
Proof.
  revert k; induction l; intros k Hin; destruct k; simpl in *; auto.
  destruct Hin; eauto.
Qed.

Lemma NoDup_remove_nth (k : nat) (l : list nat) : NoDup l -> NoDup (remove_nth k l).
Proof.
  revert k; induction l; intros k Hn; destruct k; simpl; auto.
  - inversion Hn; auto.
  - inversion Hn; subst. constructor; auto.
  intros Hin. apply In_remove_nth in Hin. auto.
Qed.

Lemma nth_removed (k : nat) (l : list nat) r : NoDup l -> nth_error l k = Some r -> ~ In r (remove_nth k l).
Proof.
  revert k; induction l; simpl; intros k Hn Hk.
  - destruct k; discriminate.
  - inversion Hn; subst. destruct k; simpl in *.
    + inversion Hk; subst. auto.
    + intros [Hin | Hin].
      * subst. apply nth_error_In in Hk. auto.
      * eapply IHl; eauto.
Qed.

(* list facts for "pending = timers ++ probes" *)
Lemma NoDup_pop_l (k : nat) (a b : list nat) : NoDup (a ++ b) -> NoDup (remove_nth k a ++ b).
Proof.
  revert k; induction a; intros k Hn; destruct k; simpl in *; auto.
  - inversion Hn; auto.
  - inversion Hn; subst. constructor; auto. intros Hin. apply H1.
    apply in_app_or in Hin. apply in_or_app. destruct Hin as [Hin|Hin]; auto. left. eapply In_remove_nth; eauto.
Qed.

Lemma NoDup_pop_r (j : nat) (a b : list nat) : NoDup (a ++ b) -> NoDup (a ++ remove_nth j b).
Proof.
  induction a; simpl; intros Hn.
  - apply NoDup_remove_nth; auto.
  - inversion Hn; subst. constructor; auto. intros Hin. apply H1.
    apply in_app_or in Hin. apply in_or_app. destruct Hin as [Hin|Hin]; auto. right. eapply In_remove_nth; eauto.
Qed.

Lemma popped_l (k : nat) (a b : list nat) r : NoDup (a ++ b) -> nth_error a k = Some r -> ~ In r (remove_nth k a ++ b).
Proof.
  revert k; induction a; intros k Hn Hk; destruct k; simpl in *; try discriminate.
  - inversion Hk; subst. inversion Hn; auto.
  - inversion Hn; subst. intros [Hin | Hin].
    + subst. apply H1. apply in_or_app. left. eapply nth_error_In; eauto.
    + eapply IHa; eauto.
Qed.

Lemma popped_r (j : nat) (a b : list nat) r : NoDup (a ++ b) -> nth_error b j = Some r -> ~ In r (a ++ remove_nth j b).
Proof.
  induction a; simpl; intros Hn Hj.
  - eapply nth_removed; eauto.
  - inversion Hn; subst. intros [Hin | Hin].
    + subst. apply H1. apply in_or_app. right. eapply nth_error_In; eauto.
    + eapply IHa; eauto.
Qed.

Lemma J_pop s k : J s -> J (set_timers s (remove_nth k (timers s))).
Proof.
  intros (J1 & J2 & J3 & J4 & J5).
  assert (Hsub : forall r, In r (pend (set_timers s (remove_nth k (timers s)))) -> In r (pend s)).
  { intros r Hr. unfold pend in *; simpl in *. apply in_app_or in Hr. apply in_or_app.
    destruct Hr as [Hr|Hr]; auto. left. eapply In_remove_nth; eauto. }
  split; [|split; [|split; [|split]]]; simpl; auto.
  unfold pend; simpl. apply NoDup_pop_l; auto.
Qed.

Lemma J_pop_probe s j : J s -> J (set_probes s (remove_nth j (probes s))).
Proof.
  intros (J1 & J2 & J3 & J4 & J5).
  assert (Hsub : forall r, In r (pend (set_probes s (remove_nth j (probes s)))) -> In r (pend s)).
  { intros r Hr. unfold pend in *; simpl in *. apply in_app_or in Hr. apply in_or_app.
    destruct Hr as [Hr|Hr]; auto. right. eapply In_remove_nth; eauto. }
  split; [|split; [|split; [|split]]]; simpl; auto.
  unfold pend; simpl. apply NoDup_pop_r; auto.
Qed.

(* no live pending reconnector refers to host h *)
Definition quietH (s : st) (h : nat) : Prop :=
  forall r, In r (pend s) -> rhost (recs s r) = h -> rcanc (recs s r) = true.

Lemma J_clear s h : J s -> quietH s h -> J (updh s h (h_reg None)).
Proof.
  intros (J1 & J2 & J3 & J4 & J5) Hq. unfold updh. split; [|split; [|split; [|split]]]; simpl; auto.
  - intros r Hr Hc. destruct (rhost (recs s r) =? h) eqn:E; auto.
    apply Nat.eqb_eq in E. rewrite (Hq r Hr E) in Hc. discriminate.
  - intros x r. destruct (x =? h); simpl; [discriminate | eauto].
  - intros x. destruct (x =? h); simpl; auto.
Qed.

Lemma quietH_frame s s' h : same_core s s' -> quietH s h -> quietH s' h.
Proof.
  intros (A1 & A2 & A3 & A4 & A5) Hq r Hr Hh. rewrite A1 in Hr. rewrite A3 in *. auto.
Qed.

Lemma quietH_cancel_opt s h o : quietH s h -> quietH (cancel_opt s o) h.
Proof.
  intros Hq. destruct o as [r0|]; auto. intros r Hr Hh. simpl in *.
  destruct (r =? r0); simpl in *; auto.
Qed.

Lemma quietH_updh s h h' f : quietH s h -> quietH (updh s h' f) h.
Proof. intros Hq r Hr Hh. apply Hq; auto. Qed.

Lemma quietH_on_up s h h' : quietH s h -> quietH (on_up s h') h.
Proof.
  intros Hq. unfold on_up.
  destruct (handling (hosts s h')); auto. destruct (up (hosts s h') =? 1); auto.
  match goal with |- quietH (if ?c then ?a else ?b) _ => assert (Ha : quietH a h) end.
  { eapply quietH_frame.
    { eapply same_core_trans; [| apply sc_set_nextg]. eapply same_core_trans; [| apply sc_add_pools].
      eapply same_core_trans; [| apply sc_emit]. eapply same_core_trans; [| apply sc_remove_pools]. apply same_core_refl. }
    apply quietH_cancel_opt. apply quietH_updh. auto. }
  match goal with |- quietH (if ?c then _ else _) _ => destruct c end; auto.
Qed.

Lemma J_updr_keep s r f : (forall c, rcanc (f c) = rcanc c /\ rhost (f c) = rhost c) -> J s -> J (updr s r f).
Proof.
  intros Hf (J1 & J2 & J3 & J4 & J5). unfold updr.
  split; [|split; [|split; [|split]]]; simpl; auto.
  intros x Hx Hc. destruct (x =? r) eqn:E; simpl in *; auto.
  apply Nat.eqb_eq in E; subst. destruct (Hf (recs s r)) as [F1 F2]. rewrite F1 in Hc. rewrite F2. auto.
Qed.

(* second half of run(): r has been taken out of the pending list *)
Lemma J_probe_finish s r o : J s -> ~ In r (pend s) -> r < nrecs s ->
  (rcanc (recs s r) = false -> reg (hosts s (rhost (recs s r))) = Some r) ->
  J (probe_finish s r o).
Proof.
  intros HJ Hnot Hlt Hreg. unfold probe_finish. destruct o.
  - destruct (rcanc (recs s r)) eqn:Ec; auto.
    assert (Hq : quietH s (rhost (recs s r))).
    { destruct HJ as (J1 & J2 & J3 & J4 & J5).
      intros r' Hr' Hh. destruct (rcanc (recs s r')) eqn:Ec'; auto. exfalso.
      pose proof (J3 r' Hr' Ec') as R2. rewrite Hh in R2. rewrite (Hreg eq_refl) in R2. inversion R2; subst. auto. }
    apply J_clear.
    + destruct (radd (recs s r)).
      * eapply J_frame; [apply sc_on_add|]. exact HJ.
      * apply J_on_up. exact HJ.
    + destruct (radd (recs s r)).
      * eapply quietH_frame; [apply sc_on_add|]. exact Hq.
      * apply quietH_on_up. exact Hq.
  - destruct (rleft (recs s r)) as [[|n]|].
    + apply J_updr_keep; auto.
    + apply (J_add (updr s r (r_left (Some n))) r); simpl; auto.
      * apply (J_updr_keep s r (r_left (Some n))); auto.
      * rewrite Nat.eqb_refl. simpl. exact Hreg.
    + apply J_add; auto.
  - apply J_updr_keep; auto.
Qed.

Lemma J_reconnect s k r o : J s -> nth_error (timers s) k = Some r ->
  J (reconnect (set_timers s (remove_nth k (timers s))) r o).
Proof.
  intros HJ Hk. pose proof (J_pop s k HJ) as HP.
  assert (Hin : In r (pend s)) by (apply in_or_app; left; eapply nth_error_In; eauto).
  assert (Hnot : ~ In r (pend (set_timers s (remove_nth k (timers s)))))
    by (destruct HJ as (J1 & _); unfold pend; simpl; eapply popped_l; eauto).
  destruct HJ as (J1 & J2 & J3 & J4 & J5).
  unfold reconnect. destruct (rcanc (recs (set_timers s (remove_nth k (timers s))) r)) eqn:Ec; auto.
  apply J_probe_finish; [exact HP | exact Hnot | apply J2; exact Hin | intros Hc; apply J3; auto].
Qed.

Lemma J_probe_start s k r : J s -> nth_error (timers s) k = Some r ->
  J (probe_start (set_timers s (remove_nth k (timers s))) r).
Proof.
  intros HJ Hk. pose proof (J_pop s k HJ) as HP.
  assert (Hin : In r (pend s)) by (apply in_or_app; left; eapply nth_error_In; eauto).
  assert (Hnot : ~ In r (pend (set_timers s (remove_nth k (timers s)))))
    by (destruct HJ as (J1 & _); unfold pend; simpl; eapply popped_l; eauto).
  destruct HJ as (J1 & J2 & J3 & J4 & J5).
  unfold probe_start. set (s0 := set_timers s (remove_nth k (timers s))) in *.
  destruct (rcanc (recs s0 r)) eqn:Ec; [exact HP|].
  destruct HP as (P1 & P2 & P3 & P4 & P5).
  assert (Hpe : forall x, In x (pend (set_probes (emit s0 (NAttempt (rhost (recs s0 r)))) (probes s0 ++ [r]))) -> In x (pend s0) \/ x = r).
  { intros x Hx. unfold pend in *; simpl in *. rewrite app_assoc in Hx. apply in_app_or in Hx.
    destruct Hx as [Hx | [Hx | []]]; auto. }
  split; [|split; [|split; [|split; [exact P4 | exact P5]]]].
  - unfold pend; simpl. rewrite app_assoc. apply NoDup_app_iff_local; auto.
  - intros x Hx. apply Hpe in Hx. destruct Hx as [Hx | ->]; [apply P2; auto | apply (J2 r Hin)].
  - intros x Hx Hc. apply Hpe in Hx. destruct Hx as [Hx | ->]; [apply P3; auto | apply (J3 r Hin); exact Hc].
Qed.

Lemma J_probe_finish_ev s j r o : J s -> nth_error (probes s) j = Some r ->
  J (probe_finish (set_probes s (remove_nth j (probes s))) r o).
Proof.
  intros HJ Hj. pose proof (J_pop_probe s j HJ) as HP.
  assert (Hin : In r (pend s)) by (apply in_or_app; right; eapply nth_error_In; eauto).
  assert (Hnot : ~ In r (pend (set_probes s (remove_nth j (probes s)))))
    by (destruct HJ as (J1 & _); unfold pend; simpl; eapply popped_r; eauto).
  destruct HJ as (J1 & J2 & J3 & J4 & J5).
  apply J_probe_finish; [exact HP | exact Hnot | apply J2; exact Hin | intros Hc; apply J3; auto].
Qed.

Lemma J_step_ s e : J s -> J (step_ s e).
Proof.
  intros HJ. destruct e as [h|h|h|h|h|k o|k o|k|j o|e0 b]; simpl.
  - destruct (known s h); auto.
  - destruct (known s h); auto.
  - destruct (known s h); auto. apply J_on_up; auto.
  - destruct ((present (hosts s h) =? 0) && ((h <? neps s) || (present (hosts s (h - neps s)) =? 2))); auto.
    eapply J_frame; [apply sc_on_add|]. eapply J_frame; [| exact HJ]. sc.
  - destruct (present (hosts s h) =? 1); auto. apply J_on_remove; auto.
  - destruct (nth_error (timers s) k) eqn:Ek; auto. apply J_reconnect; auto.
  - destruct (nth_error (queue s) k) eqn:Ek; auto. apply J_run_task. auto.
  - destruct (nth_error (timers s) k) eqn:Ek; auto. apply J_probe_start; auto.
  - destruct (nth_error (probes s) j) eqn:Ek; auto. apply J_probe_finish_ev; auto.
  - eapply J_frame; [| exact HJ]. sc.
Qed.

Lemma J_step s e : J s -> J (fst (step s e)).
Proof. intros HJ. unfold step; simpl. apply J_step_. auto. Qed.

Lemma J_run es : forall s, J s -> J (run s es).
Proof. induction es; simpl; intros s HJ; auto. apply IHes. apply J_step; auto. Qed.

Lemma J_init kinds ns sc : J (init kinds ns sc).
Proof.
  unfold init. repeat split; simpl.
  - constructor. - intros r []. - intros r []. 
  - intros h r. unfold init_host. destruct (nth h kinds 0) as [|[|[|]]]; simpl; discriminate.
  - intros h. unfold init_host. destruct (nth h kinds 0) as [|[|[|]]]; simpl; auto.
Qed.

(* ------------------------------------------------------------------ consequences *)
Definition live (s : st) (r : nat) : Prop := In r (pend s) /\ rcanc (recs s r) = false.

Lemma at_most_one_live s r1 r2 : J s -> live s r1 -> live s r2 -> rhost (recs s r1) = rhost (recs s r2) -> r1 = r2.
Proof.
  intros (J1 & J2 & J3 & J4 & J5) [H1 C1] [H2 C2] Hh.
  pose proof (J3 r1 H1 C1) as R1. pose proof (J3 r2 H2 C2) as R2. rewrite Hh in R1. congruence.
Qed.

Lemma live_is_registered s r : J s -> live s r -> reg (hosts s (rhost (recs s r))) = Some r.
Proof. intros (J1 & J2 & J3 & J4 & J5) [H1 C1]. auto. Qed.

Lemma removed_no_reconnector s h : J s -> present (hosts s h) = 2 ->
  reg (hosts s h) = None /\ forall r, live s r -> rhost (recs s r) <> h.
Proof.
  intros HJ Hp. pose proof HJ as (J1 & J2 & J3 & J4 & J5). split; auto.
  intros r Hl Hh. pose proof (live_is_registered s r HJ Hl) as R. rewrite Hh, (J5 h Hp) in R. discriminate.
Qed.

(* firing the timer of a reconnector whose host was removed does nothing (no connection attempt, no state change) *)
Lemma removed_fire_noop s k r o : J s -> nth_error (timers s) k = Some r -> present (hosts s (rhost (recs s r))) = 2 ->
  step_ s (EReconnect k o) = set_timers s (remove_nth k (timers s)).
Proof.
  intros HJ Hk Hp. simpl. rewrite Hk. unfold reconnect. simpl.
  destruct (rcanc (recs s r)) eqn:Ec; auto. exfalso.
  destruct (removed_no_reconnector s _ HJ Hp) as [_ Hn]. apply (Hn r); auto. split; auto.
  apply in_or_app; left. eapply nth_error_In; eauto.
Qed.

(* the same for the split attempt: starting it does nothing; if the host is removed while the attempt is in flight, its
   successful completion does nothing either (no on_up / on_add for the removed host) *)
Lemma removed_probe_start_noop s k r : J s -> nth_error (timers s) k = Some r -> present (hosts s (rhost (recs s r))) = 2 ->
  step_ s (EProbeStart k) = set_timers s (remove_nth k (timers s)).
Proof.
  intros HJ Hk Hp. simpl. rewrite Hk. unfold probe_start. simpl.
  destruct (rcanc (recs s r)) eqn:Ec; auto. exfalso.
  destruct (removed_no_reconnector s _ HJ Hp) as [_ Hn]. apply (Hn r); auto. split; auto.
  apply in_or_app; left. eapply nth_error_In; eauto.
Qed.

Lemma removed_probe_finish_noop s j r : J s -> nth_error (probes s) j = Some r -> present (hosts s (rhost (recs s r))) = 2 ->
  step_ s (EProbeFinish j OOk) = set_probes s (remove_nth j (probes s)).
Proof.
  intros HJ Hj Hp. simpl. rewrite Hj. unfold probe_finish. simpl.
  destruct (rcanc (recs s r)) eqn:Ec; auto. exfalso.
  destruct (removed_no_reconnector s _ HJ Hp) as [_ Hn]. apply (Hn r); auto. split; auto.
  apply in_or_app; right. eapply nth_error_In; eauto.
Qed.

(* a removed host never gets a reconnector again: _start_reconnector is a no-op for it *)
Lemma removed_start_noop s h a : present (hosts s h) = 2 -> start_reconnector s h a = s.
Proof. intros Hp. unfold start_reconnector. rewrite Hp. simpl. destruct (ignd s h); auto. Qed.

Lemma hosts_updh_same s h f : hosts (updh s h f) h = f (hosts s h).
Proof. unfold updh; simpl. rewrite Nat.eqb_refl. reflexivity. Qed.

(* whenever on_up goes ahead (not already handling, not already up) -- whatever the host's distance is at that moment --
   the host's reconnector is detached and cancelled *)
Lemma on_up_clears s h : handling (hosts s h) = false -> up (hosts s h) <> 1 ->
  reg (hosts (on_up s h) h) = None /\ (forall r, reg (hosts s h) = Some r -> rcanc (recs (on_up s h) r) = true).
Proof.
  intros Hh Hu. unfold on_up. rewrite Hh. apply Nat.eqb_neq in Hu. rewrite Hu.
  set (s1 := cancel_opt (updh s h (fun x => h_reg None (h_handling true x))) (reg (hosts s h))).
  assert (A : reg (hosts s1 h) = None).
  { unfold s1. destruct (reg (hosts s h)); unfold cancel_opt, updr, updh; simpl; rewrite Nat.eqb_refl; reflexivity. }
  assert (B : forall r, reg (hosts s h) = Some r -> rcanc (recs s1 r) = true).
  { intros r Hr. unfold s1. rewrite Hr. unfold cancel_opt, updr, updh. simpl. rewrite Nat.eqb_refl. reflexivity. }
  match goal with |- context [if ?c then ?a else ?b] => set (a0 := a); set (c0 := c) end.
  assert (Ea : hosts a0 = hosts s1 /\ recs a0 = recs s1) by (split; unfold a0, add_pools; destruct (ignd _ h); reflexivity).
  destruct Ea as [E1 E2]. subst c0. destruct (has_futures a0 h); cbv beta iota.
  - rewrite E1, E2. auto.
  - split.
    + change (reg (hosts (updh a0 h (fun x => h_handling false (h_up 1 x))) h) = None).
      rewrite hosts_updh_same. change (reg (hosts a0 h) = None). rewrite E1. exact A.
    + intros r Hr. change (rcanc (recs a0 r) = true). rewrite E2. auto.
Qed.
