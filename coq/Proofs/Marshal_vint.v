(* Laws of the GENERATED zig-zag and vint codecs (Gen/MarshalGen.v, regenerated from cassandra/marshal.py on every
   run) against the independent spec Model/VIntCoding.v. *)
From Coq Require Import ZArith List Bool Lia ZifyBool.
From Verif Require Import PyBase JavaBigInteger VIntCoding MarshalGen BytesBE.
Import ListNotations.
Local Open Scope Z_scope.

(* ================================================================== (b) zig-zag *)
Lemma lxor_ones_low a k : 0 <= k -> 0 <= a < 2 ^ k -> Z.lxor a (Z.ones k) = Z.ones k - a.
Proof.
  intros Hk Ha.
  assert (H1 : Z.lxor a (Z.ones k) = (Z.lnot a) mod 2 ^ k).
  { apply Z.bits_inj'. intros i Hi. rewrite Z.lxor_spec.
    destruct (Z_lt_dec i k) as [Hlt|Hge].
    - rewrite Z.ones_spec_low by lia. rewrite Z.mod_pow2_bits_low by lia. rewrite Z.lnot_spec by lia.
      apply xorb_true_r.
    - rewrite Z.ones_spec_high by lia. rewrite Z.mod_pow2_bits_high by lia. rewrite xorb_false_r.
      destruct (Z.eq_dec a 0) as [->|Hn]; [apply Z.bits_0|].
      apply Z.bits_above_log2; [lia|]. assert (Z.log2 a < k) by (apply Z.log2_lt_pow2; lia). lia. }
  rewrite H1. rewrite Z.ones_equiv. unfold Z.lnot.
  replace (Z.pred (- a)) with ((Z.pred (2 ^ k) - a) + (-1) * 2 ^ k) by lia.
  rewrite Z.mod_add by lia. apply Z.mod_small. lia.
Qed.

Lemma encode_zig_zag_arith n : in_int64 n -> encode_zig_zag n = zigzag_encode_arith n.
Proof.
  unfold in_int64, encode_zig_zag, zigzag_encode_arith. intros Hn.
  rewrite Z.shiftl_mul_pow2 by lia. change (2 ^ 1) with 2. rewrite Z.shiftr_div_pow2 by lia.
  destruct (n <? 0) eqn:E.
  - assert (Hq : n / 2 ^ 63 = -1).
    { symmetry. apply (Z.div_unique n (2 ^ 63) (-1) (n + 2 ^ 63)); lia. }
    rewrite Hq. rewrite Z.lxor_m1_r. unfold Z.lnot. lia.
  - rewrite Z.div_small by lia. rewrite Z.lxor_0_r. lia.
Qed.

Lemma zigzag_encode_arith_eq n : in_int64 n -> zigzag_encode n = zigzag_encode_arith n.
Proof.
  unfold in_int64, zigzag_encode, zigzag_encode_arith, u64. intros Hn.
  rewrite Z.shiftl_mul_pow2 by lia. change (2 ^ 1) with 2. rewrite Z.shiftr_div_pow2 by lia.
  destruct (n <? 0) eqn:E.
  - assert (Hq : n / 2 ^ 63 = -1).
    { symmetry. apply (Z.div_unique n (2 ^ 63) (-1) (n + 2 ^ 63)); lia. }
    rewrite Hq. change (-1 mod 2 ^ 64) with (Z.ones 64).
    replace ((n * 2) mod 2 ^ 64) with (n * 2 + 2 ^ 64).
    2:{ symmetry. replace (n * 2) with ((n * 2 + 2 ^ 64) + (-1) * 2 ^ 64) at 1 by lia.
        rewrite Z.mod_add by lia. apply Z.mod_small. lia. }
    rewrite lxor_ones_low by lia. rewrite Z.ones_equiv. lia.
  - rewrite (Z.div_small n) by lia. change (0 mod 2 ^ 64) with 0. rewrite Z.lxor_0_r.
    rewrite Z.mod_small by lia. lia.
Qed.

Lemma zigzag_arith_range n : in_int64 n -> in_uint64 (zigzag_encode_arith n).
Proof. unfold in_int64, in_uint64, zigzag_encode_arith. intros Hn. destruct (n <? 0) eqn:E; lia. Qed.

Lemma land_1 u : Z.land u 1 = u mod 2.
Proof. change 1 with (Z.ones 1). rewrite Z.land_ones by lia. reflexivity. Qed.

(* the generated decoder is the arithmetic inverse on EVERY integer *)
Ltac Zify.zify_post_hook ::= Z.to_euclidean_division_equations.

Lemma decode_zig_zag_arith u : decode_zig_zag u = zigzag_decode_arith u.
Proof.
  unfold decode_zig_zag, zigzag_decode_arith. rewrite land_1. rewrite Z.shiftr_div_pow2 by lia. change (2 ^ 1) with 2.
  pose proof (Zmod_even u) as Hpar. destruct (Z.even u) eqn:Ev; rewrite Hpar.
  - cbn [Z.opp]. apply Z.lxor_0_r.
  - rewrite Z.lxor_m1_r. unfold Z.lnot. lia.
Qed.

Lemma zigzag_arith_roundtrip n : zigzag_decode_arith (zigzag_encode_arith n) = n.
Proof.
  unfold zigzag_decode_arith, zigzag_encode_arith. destruct (n <? 0) eqn:E.
  - pose proof (Zmod_even (- 2 * n - 1)) as Hpar. destruct (Z.even (- 2 * n - 1)); lia.
  - pose proof (Zmod_even (2 * n)) as Hpar. destruct (Z.even (2 * n)); lia.
Qed.

Lemma zigzag_decode_arith_eq u : in_uint64 u -> zigzag_decode u = zigzag_decode_arith u.
Proof.
  unfold in_uint64, zigzag_decode, zigzag_decode_arith, u64, s64. intros Hu.
  rewrite land_1. rewrite (Z.mod_small u) by lia. rewrite Z.shiftr_div_pow2 by lia. change (2 ^ 1) with 2.
  pose proof (Zmod_even u) as Hpar. destruct (Z.even u) eqn:Ev; rewrite Hpar.
  - change (- 0 mod 2 ^ 64) with 0. rewrite Z.lxor_0_r.
    rewrite (Z.mod_small (u / 2)) by lia. destruct (u / 2 <? 2 ^ 63) eqn:E; lia.
  - change (- (1) mod 2 ^ 64) with (Z.ones 64).
    rewrite lxor_ones_low by lia. rewrite Z.ones_equiv.
    rewrite (Z.mod_small (Z.pred (2 ^ 64) - u / 2)) by lia.
    destruct (Z.pred (2 ^ 64) - u / 2 <? 2 ^ 63) eqn:E; lia.
Qed.

Theorem zigzag_roundtrip_spec n : in_int64 n ->
  encode_zig_zag n = zigzag_encode n /\ in_uint64 (encode_zig_zag n) /\
  decode_zig_zag (encode_zig_zag n) = n /\ zigzag_decode (zigzag_encode n) = n.
Proof.
  intros Hn. pose proof (zigzag_arith_range n Hn) as Hr.
  rewrite (encode_zig_zag_arith n Hn), (zigzag_encode_arith_eq n Hn).
  split; [reflexivity|]. split; [exact Hr|].
  rewrite decode_zig_zag_arith, (zigzag_decode_arith_eq _ Hr), zigzag_arith_roundtrip. split; reflexivity.
Qed.

Theorem decode_zig_zag_spec u : in_uint64 u -> decode_zig_zag u = zigzag_decode u /\ in_int64 (decode_zig_zag u).
Proof.
  intros Hu. rewrite decode_zig_zag_arith, (zigzag_decode_arith_eq u Hu). split; [reflexivity|].
  unfold in_uint64 in Hu. unfold in_int64, zigzag_decode_arith.
  pose proof (Z.div_mod u 2 ltac:(lia)). pose proof (Z.mod_pos_bound u 2 ltac:(lia)).
  pose proof (Z.div_mod (u + 1) 2 ltac:(lia)). pose proof (Z.mod_pos_bound (u + 1) 2 ltac:(lia)).
  destruct (Z.even u); lia.
Qed.

(* encode is injective onto uint64: decode (as arithmetic) is also a left inverse the other way round *)
Lemma zigzag_arith_roundtrip' u : 0 <= u -> zigzag_encode_arith (zigzag_decode_arith u) = u.
Proof.
  intros Hu. unfold zigzag_decode_arith, zigzag_encode_arith.
  pose proof (Zmod_even u) as Hpar. destruct (Z.even u) eqn:Ev.
  - destruct (u / 2 <? 0) eqn:E; lia.
  - destruct (- ((u + 1) / 2) <? 0) eqn:E; lia.
Qed.

Ltac Zify.zify_post_hook ::= idtac.

(* ================================================================== spec side: the size classes *)
Lemma vint_extra_char v : 0 <= v ->
  exists n : nat, vint_extra v = Z.of_nat n /\ (n <= 8)%nat /\
    ((n < 8)%nat -> v < 2 ^ (7 * (Z.of_nat n + 1))) /\ (n <> O -> 2 ^ (7 * Z.of_nat n) <= v).
Proof.
  intros Hv. unfold vint_extra. cbn [vint_extra_from].
  repeat match goal with
  | |- context [if ?c then _ else _] => destruct c eqn:?
  end.
  - exists 0%nat. repeat split; try lia; try congruence.
  - exists 1%nat. repeat split; try lia.
  - exists 2%nat. repeat split; try lia.
  - exists 3%nat. repeat split; try lia.
  - exists 4%nat. repeat split; try lia.
  - exists 5%nat. repeat split; try lia.
  - exists 6%nat. repeat split; try lia.
  - exists 7%nat. repeat split; try lia.
  - exists 8%nat. repeat split; try lia.
Qed.

Lemma small_enum n : 0 <= n <= 8 -> n = 0 \/ n = 1 \/ n = 2 \/ n = 3 \/ n = 4 \/ n = 5 \/ n = 6 \/ n = 7 \/ n = 8.
Proof. lia. Qed.

Ltac enum8 H := destruct (small_enum _ H) as [->|[->|[->|[->|[->|[->|[->|[->| ->]]]]]]]].

Lemma prefix_form n : 0 <= n <= 8 ->
  Z.shiftl (Z.shiftr 255 (8 - n)) (8 - n) = (2 ^ n - 1) * 2 ^ (8 - n) /\ (2 ^ n - 1) * 2 ^ (8 - n) = vint_prefix n /\
  Z.shiftr 255 n = Z.ones (8 - n) /\ 128 <= vint_prefix n + 2 ^ (8 - n - 1) * 0 + (if n =? 0 then 128 else 0).
Proof. intros H. enum8 H; vm_compute; repeat split; congruence. Qed.

(* value bits that go to the first byte *)
Lemma high_bits_small v (n : nat) : 0 <= v -> (n <= 8)%nat -> v < 2 ^ 64 ->
  ((n < 8)%nat -> v < 2 ^ (7 * (Z.of_nat n + 1))) ->
  0 <= Z.shiftr v (8 * Z.of_nat n) /\ 2 * Z.shiftr v (8 * Z.of_nat n) < 2 ^ (8 - Z.of_nat n).
Proof.
  intros Hv Hn H64 Hlt. rewrite Z.shiftr_div_pow2 by lia.
  assert (Hp : 0 < 2 ^ (8 * Z.of_nat n)) by (apply pow2_pos; lia).
  split; [apply Z.div_pos; lia|].
  destruct (Nat.eq_dec n 8) as [->|Hne].
  - change (8 * Z.of_nat 8) with 64. rewrite Z.div_small by lia. reflexivity.
  - specialize (Hlt ltac:(lia)).
    assert (Hs : 2 ^ (7 * (Z.of_nat n + 1)) = 2 ^ (7 - Z.of_nat n) * 2 ^ (8 * Z.of_nat n)).
    { rewrite <- pow2_add by lia. f_equal. lia. }
    assert (Hd : v / 2 ^ (8 * Z.of_nat n) < 2 ^ (7 - Z.of_nat n)).
    { apply Z.div_lt_upper_bound; [lia|]. rewrite Z.mul_comm. lia. }
    replace (8 - Z.of_nat n) with (1 + (7 - Z.of_nat n)) by lia. rewrite pow2_add by lia. change (2 ^ 1) with 2. lia.
Qed.

Lemma uvint_bytes_bytes v : in_uint64 v -> Forall is_byte (uvint_bytes v).
Proof.
  unfold in_uint64. intros Hv. unfold uvint_bytes. constructor; [|apply be_bytes_bytes].
  unfold vint_first_byte. cbv zeta. destruct (vint_extra_char v ltac:(lia)) as (n & Hn & Hn8 & Hlt & Hge).
  rewrite Hn. destruct (high_bits_small v n ltac:(lia) Hn8 ltac:(lia) Hlt) as [Ha Hb].
  destruct (prefix_form (Z.of_nat n) ltac:(lia)) as (_ & Hpf & _).
  unfold is_byte. rewrite <- Hpf.
  assert (Hpn : 0 < 2 ^ Z.of_nat n) by (apply pow2_pos; lia).
  assert (Hpk : 0 < 2 ^ (8 - Z.of_nat n)) by (apply pow2_pos; lia).
  assert (H256 : 2 ^ Z.of_nat n * 2 ^ (8 - Z.of_nat n) = 256) by (rewrite <- pow2_add by lia; replace (Z.of_nat n + (8 - Z.of_nat n)) with 8 by lia; reflexivity).
  nia.
Qed.

Lemma uvint_bytes_length v : length (uvint_bytes v) = S (Z.to_nat (vint_extra v)).
Proof. unfold uvint_bytes. cbn [length]. rewrite be_bytes_length. reflexivity. Qed.

(* ================================================================== the size-finding while loop *)
Definition more (NB i : Z) : bool := NB - 8 * i >? 8 - Z.min (i + 1) 8.

Lemma uvint_loop_run : forall (m : nat) fuel val e NB rv v, (m < fuel)%nat -> 0 <= e ->
  (forall i, e <= i < e + Z.of_nat m -> more NB i = true) -> more NB (e + Z.of_nat m) = false ->
  uvint_pack_loop1 fuel val e (NB - 8 * e) (Z.min (e + 1) 8) rv v =
  Ok (e + Z.of_nat m, NB - 8 * (e + Z.of_nat m), Z.min (e + Z.of_nat m + 1) 8, rv ++ rev (be_bytes m v), Z.shiftr v (8 * Z.of_nat m)).
Proof.
  induction m as [|m IH]; intros fuel val e NB rv v Hf He Hmore Hstop; (destruct fuel as [|fuel]; [lia|]);
    cbn [uvint_pack_loop1].
  - replace (e + Z.of_nat 0) with e in * by lia. unfold more in Hstop. rewrite Hstop.
    cbn [be_bytes rev]. rewrite app_nil_r. change (8 * Z.of_nat 0) with 0. rewrite Z.shiftr_0_r. reflexivity.
  - pose proof (Hmore e ltac:(lia)) as H1. unfold more in H1. rewrite H1.
    rewrite py_byte_check_ok by (rewrite land_255; apply mod256_range). cbn [bind].
    replace (NB - 8 * e - 8) with (NB - 8 * (e + 1)) by lia.
    rewrite (IH fuel val (e + 1) NB); [| lia | lia | intros i Hi; apply Hmore; lia | replace (e + 1 + Z.of_nat m) with (e + Z.of_nat (S m)) by lia; exact Hstop ].
    rewrite be_bytes_snoc, rev_app_distr, land_255, <- app_assoc. cbn [rev app].
    rewrite Z.shiftr_shiftr by lia.
    replace (e + 1 + Z.of_nat m) with (e + Z.of_nat (S m)) by lia.
    replace (8 + 8 * Z.of_nat m) with (8 * Z.of_nat (S m)) by lia. reflexivity.
Qed.

Lemma vints_loop_run : forall (m : nat) fuel values value e NB rv v, (m < fuel)%nat -> 0 <= e ->
  (forall i, e <= i < e + Z.of_nat m -> more NB i = true) -> more NB (e + Z.of_nat m) = false ->
  vints_pack_loop2 fuel values value e (NB - 8 * e) (Z.min (e + 1) 8) rv v =
  Ok (e + Z.of_nat m, NB - 8 * (e + Z.of_nat m), Z.min (e + Z.of_nat m + 1) 8, rv ++ rev (be_bytes m v), Z.shiftr v (8 * Z.of_nat m)).
Proof.
  induction m as [|m IH]; intros fuel values value e NB rv v Hf He Hmore Hstop; (destruct fuel as [|fuel]; [lia|]);
    cbn [vints_pack_loop2].
  - replace (e + Z.of_nat 0) with e in * by lia. unfold more in Hstop. rewrite Hstop.
    cbn [be_bytes rev]. rewrite app_nil_r. change (8 * Z.of_nat 0) with 0. rewrite Z.shiftr_0_r. reflexivity.
  - pose proof (Hmore e ltac:(lia)) as H1. unfold more in H1. rewrite H1.
    rewrite py_byte_check_ok by (rewrite land_255; apply mod256_range). cbn [bind].
    replace (NB - 8 * e - 8) with (NB - 8 * (e + 1)) by lia.
    rewrite (IH fuel values value (e + 1) NB); [| lia | lia | intros i Hi; apply Hmore; lia | replace (e + 1 + Z.of_nat m) with (e + Z.of_nat (S m)) by lia; exact Hstop ].
    rewrite be_bytes_snoc, rev_app_distr, land_255, <- app_assoc. cbn [rev app].
    rewrite Z.shiftr_shiftr by lia.
    replace (e + 1 + Z.of_nat m) with (e + Z.of_nat (S m)) by lia.
    replace (8 + 8 * Z.of_nat m) with (8 * Z.of_nat (S m)) by lia. reflexivity.
Qed.

(* how many iterations: the spec's size class for 64-bit values, more than 8 beyond *)
Lemma more_in_range v (n : nat) : 0 < v -> (n <= 8)%nat -> v < 2 ^ 64 ->
  ((n < 8)%nat -> v < 2 ^ (7 * (Z.of_nat n + 1))) -> (n <> O -> 2 ^ (7 * Z.of_nat n) <= v) ->
  (forall i, 0 <= i < 0 + Z.of_nat n -> more (nbits v) i = true) /\ more (nbits v) (0 + Z.of_nat n) = false.
Proof.
  intros Hv Hn H64 Hlt Hge. unfold more. split.
  - intros i Hi. assert (Hn0 : n <> O) by lia. specialize (Hge Hn0).
    assert (Hnb : ~ nbits v <= 7 * Z.of_nat n).
    { intros Hc. apply nbits_lt_pow2 in Hc; lia. }
    lia.
  - assert (H64' : nbits v <= 64) by (apply nbits_lt_pow2; lia).
    destruct (Nat.eq_dec n 8) as [->|Hne]; [lia|].
    assert (Hnb : nbits v <= 7 * (Z.of_nat n + 1)) by (apply nbits_lt_pow2; lia).
    lia.
Qed.

Lemma more_too_big v : 2 ^ 64 <= v ->
  let m := Z.to_nat ((nbits v + 7) / 8) in
  (forall i, 0 <= i < 0 + Z.of_nat m -> more (nbits v) i = true) /\ more (nbits v) (0 + Z.of_nat m) = false /\
  (8 < m)%nat /\ Z.of_nat m <= nbits v.
Proof.
  intros Hv. cbv zeta.
  assert (Hnb : ~ nbits v <= 64) by (intros Hc; apply nbits_lt_pow2 in Hc; lia).
  pose proof (Z.div_mod (nbits v + 7) 8 ltac:(lia)) as Hd. pose proof (Z.mod_pos_bound (nbits v + 7) 8 ltac:(lia)) as Hm.
  assert (Hq : 9 <= (nbits v + 7) / 8) by lia.
  rewrite Z2Nat.id by lia. unfold more. split; [intros i Hi; lia|]. repeat split; lia.
Qed.

(* ================================================================== (c) uvint_pack *)
Lemma vint_extra_small v : 0 <= v < 128 -> vint_extra v = 0.
Proof. intros Hv. unfold vint_extra. cbn [vint_extra_from]. change (2 ^ (7 * (0 + 1))) with 128. destruct (v <? 128) eqn:E; lia. Qed.

Lemma vint_extra_big v (n : nat) : 128 <= v -> vint_extra v = Z.of_nat n -> n <> O.
Proof.
  intros Hv Hn Hz. subst n. unfold vint_extra in Hn. cbn [vint_extra_from] in Hn. change (2 ^ (7 * (0 + 1))) with 128 in Hn.
  destruct (v <? 128) eqn:E; [lia|].
  repeat match type of Hn with context [if ?c then _ else _] => destruct c end; discriminate.
Qed.

Lemma log2_fuel v : 128 <= v -> (8 < S (Z.to_nat (Z.log2 v + 2)))%nat.
Proof.
  intros Hv. assert (7 <= Z.log2 v) by (apply Z.log2_le_pow2; lia). lia.
Qed.

Lemma nbits_fuel v (m : nat) : 0 < v -> Z.of_nat m <= nbits v -> (m < S (Z.to_nat (Z.log2 v + 2)))%nat.
Proof.
  intros Hv Hm. unfold nbits in Hm. destruct (v <=? 0) eqn:E; [lia|].
  pose proof (Z.log2_nonneg v). lia.
Qed.

(* what follows the loop, shared by uvint_pack and the body of vints_pack *)
Lemma first_byte_assembly v (n : nat) : 0 <= v < 2 ^ 64 -> vint_extra v = Z.of_nat n -> (n <= 8)%nat ->
  ((n < 8)%nat -> v < 2 ^ (7 * (Z.of_nat n + 1))) ->
  let k := 8 - Z.of_nat n in
  let b := Z.lor (Z.shiftr v (8 * Z.of_nat n)) (Z.shiftl (Z.shiftr 255 k) k) in
  Z.abs b = vint_first_byte v /\ 0 <= Z.abs b < 256.
Proof.
  intros Hv Hn Hn8 Hlt. cbv zeta.
  destruct (high_bits_small v n ltac:(lia) Hn8 ltac:(lia) Hlt) as [Ha Hb].
  destruct (prefix_form (Z.of_nat n) ltac:(lia)) as (Hsh & Hpf & _).
  rewrite Hsh.
  assert (Hpk : 0 < 2 ^ (8 - Z.of_nat n)) by (apply pow2_pos; lia).
  rewrite lor_disjoint_add by lia.
  assert (Hpn : 0 < 2 ^ Z.of_nat n) by (apply pow2_pos; lia).
  assert (H256 : 2 ^ Z.of_nat n * 2 ^ (8 - Z.of_nat n) = 256) by (rewrite <- pow2_add by lia; replace (Z.of_nat n + (8 - Z.of_nat n)) with 8 by lia; reflexivity).
  assert (Hr : 0 <= Z.shiftr v (8 * Z.of_nat n) + (2 ^ Z.of_nat n - 1) * 2 ^ (8 - Z.of_nat n) < 256) by nia.
  rewrite Z.abs_eq by lia. split; [|exact Hr].
  unfold vint_first_byte. cbv zeta. rewrite Hn, <- Hpf. lia.
Qed.

Theorem uvint_pack_spec v : in_uint64 v -> uvint_pack v = Ok (uvint_bytes v).
Proof.
  unfold in_uint64. intros Hv. unfold uvint_pack. cbv zeta.
  destruct (v <? 128) eqn:E.
  - rewrite py_byte_check_ok by lia. cbn [bind app rev]. unfold uvint_bytes, vint_first_byte. cbv zeta.
    rewrite vint_extra_small by lia. change (Z.to_nat 0) with 0%nat. cbn [be_bytes].
    change (8 * 0) with 0. rewrite Z.shiftr_0_r. unfold vint_prefix. change (256 - 2 ^ (8 - 0)) with 0. reflexivity.
  - destruct (vint_extra_char v ltac:(lia)) as (n & Hn & Hn8 & Hlt & Hge).
    pose proof (vint_extra_big v n ltac:(lia) Hn) as Hn0.
    destruct (more_in_range v n ltac:(lia) Hn8 ltac:(lia) Hlt Hge) as [Hmore Hstop].
    rewrite py_bit_length_nbits, Z.abs_eq by lia.
    pose proof (uvint_loop_run n (S (Z.to_nat (Z.log2 v + 2))) v 0 (nbits v) [] v
                  ltac:(pose proof (log2_fuel v ltac:(lia)); lia) ltac:(lia) Hmore Hstop) as Hrun.
    replace (nbits v - 8 * 0) with (nbits v) in Hrun by lia. change (Z.min (0 + 1) 8) with (0 + 1) in Hrun.
    rewrite Hrun. cbn [bind app].
    destruct (0 + Z.of_nat n >? 8) eqn:E8; [lia|].
    replace (8 - (0 + Z.of_nat n)) with (8 - Z.of_nat n) by lia.
    destruct (first_byte_assembly v n Hv Hn Hn8 Hlt) as [Hfb Hrange]. cbv zeta in Hfb, Hrange.
    rewrite py_byte_check_ok by exact Hrange. cbn [bind].
    rewrite rev_app_distr, rev_involutive. cbn [rev app]. rewrite Hfb.
    unfold uvint_bytes. rewrite Hn, Nat2Z.id. reflexivity.
Qed.

Theorem uvint_pack_negative v : v < 0 -> uvint_pack v = Raise.
Proof.
  intros Hv. unfold uvint_pack. cbv zeta. destruct (v <? 128) eqn:E; [|lia].
  rewrite py_byte_check_bad by lia. reflexivity.
Qed.

Theorem uvint_pack_too_big v : 2 ^ 64 <= v -> uvint_pack v = Raise.
Proof.
  intros Hv. unfold uvint_pack. cbv zeta. destruct (v <? 128) eqn:E; [lia|].
  destruct (more_too_big v Hv) as (Hmore & Hstop & Hm8 & Hmn). cbv zeta in *.
  set (m := Z.to_nat ((nbits v + 7) / 8)) in *.
  rewrite py_bit_length_nbits, Z.abs_eq by lia.
  pose proof (uvint_loop_run m (S (Z.to_nat (Z.log2 v + 2))) v 0 (nbits v) [] v
                ltac:(apply nbits_fuel; lia) ltac:(lia) Hmore Hstop) as Hrun.
  replace (nbits v - 8 * 0) with (nbits v) in Hrun by lia. change (Z.min (0 + 1) 8) with (0 + 1) in Hrun.
  rewrite Hrun. cbn [bind].
  destruct (0 + Z.of_nat m >? 8) eqn:E8; [reflexivity|lia].
Qed.

Corollary uvint_pack_matches_spec v : res_to_option (uvint_pack v) = uvint_encode v.
Proof.
  unfold uvint_encode. destruct ((0 <=? v) && (v <? 2 ^ 64)) eqn:E.
  - rewrite uvint_pack_spec by (unfold in_uint64; lia). reflexivity.
  - destruct (Z_lt_dec v 0).
    + rewrite uvint_pack_negative by assumption. reflexivity.
    + rewrite uvint_pack_too_big by lia. reflexivity.
Qed.

(* ================================================================== (c) uvint_unpack *)
Lemma uvint_unpack_loop_spec : forall payload pre post fb ne acc, Forall is_byte payload ->
  uvint_unpack_loop1 (map (fun k => Z.of_nat (length pre) + Z.of_nat k) (seq 0 (length payload)))
                     (pre ++ payload ++ post) fb ne acc
  = Ok (fold_left (fun a b => a * 256 + b) payload acc).
Proof.
  induction payload as [|x payload IH]; intros pre post fb ne acc Hb; [reflexivity|].
  inversion Hb as [|? ? Hx Hb']; subst. cbn [length seq map uvint_unpack_loop1 fold_left].
  replace (Z.of_nat (length pre) + Z.of_nat 0) with (Z.of_nat (length pre)) by lia.
  cbn [app]. rewrite py_index_app_mid. cbn [bind]. rewrite shl8_lor_byte by exact Hx.
  rewrite <- seq_shift, map_map.
  specialize (IH (pre ++ [x]) post fb ne (acc * 256 + x) Hb').
  rewrite <- app_assoc in IH. cbn [app] in IH. rewrite <- IH. f_equal.
  apply map_ext. intros k. rewrite app_length. cbn [length]. lia.
Qed.

(* the first byte determines the length: number of extra bytes read by the generated code *)
Lemma first_byte_decode v (n : nat) : 0 <= v < 2 ^ 64 -> vint_extra v = Z.of_nat n -> (n <= 8)%nat -> n <> O ->
  ((n < 8)%nat -> v < 2 ^ (7 * (Z.of_nat n + 1))) ->
  let fb := vint_first_byte v in
  128 <= fb < 256 /\ 8 - py_bit_length (Z.land (Z.lnot fb) 255) = Z.of_nat n /\
  Z.land fb (Z.shiftr 255 (Z.of_nat n)) = Z.shiftr v (8 * Z.of_nat n).
Proof.
  intros Hv Hn Hn8 Hn0 Hlt. cbv zeta.
  destruct (high_bits_small v n ltac:(lia) Hn8 ltac:(lia) Hlt) as [Ha Hb].
  destruct (prefix_form (Z.of_nat n) ltac:(lia)) as (_ & Hpf & Hones & _).
  unfold vint_first_byte. cbv zeta. rewrite Hn, <- Hpf. set (a := Z.shiftr v (8 * Z.of_nat n)) in *.
  assert (Hpk : 0 < 2 ^ (8 - Z.of_nat n)) by (apply pow2_pos; lia).
  assert (Hpn : 0 < 2 ^ Z.of_nat n) by (apply pow2_pos; lia).
  assert (H256 : 2 ^ Z.of_nat n * 2 ^ (8 - Z.of_nat n) = 256) by (rewrite <- pow2_add by lia; replace (Z.of_nat n + (8 - Z.of_nat n)) with 8 by lia; reflexivity).
  assert (H2n : 2 <= 2 ^ Z.of_nat n) by (change 2 with (2 ^ 1) at 1; apply pow2_le; lia).
  set (fb := (2 ^ Z.of_nat n - 1) * 2 ^ (8 - Z.of_nat n) + a).
  assert (Hfb : 128 <= fb < 256) by (unfold fb; nia).
  split; [exact Hfb|]. split.
  - rewrite lnot_byte by lia. rewrite py_bit_length_nbits, Z.abs_eq by lia.
    assert (Hx : 255 - fb = 2 ^ (8 - Z.of_nat n) - 1 - a) by (unfold fb; nia).
    rewrite Hx. destruct (Nat.eq_dec n 8) as [->|Hne].
    + change (2 ^ (8 - Z.of_nat 8)) with 1 in *. assert (a = 0) by lia. replace (1 - 1 - a) with 0 by lia. reflexivity.
    + assert (H1 : nbits (2 ^ (8 - Z.of_nat n) - 1 - a) <= 8 - Z.of_nat n) by (apply nbits_lt_pow2; lia).
      assert (H2 : ~ nbits (2 ^ (8 - Z.of_nat n) - 1 - a) <= 8 - Z.of_nat n - 1).
      { intros Hc. apply nbits_lt_pow2 in Hc; [|lia|lia].
        replace (8 - Z.of_nat n) with (1 + (8 - Z.of_nat n - 1)) in Hb, Hc at 1 by lia.
        rewrite pow2_add in Hb, Hc by lia. change (2 ^ 1) with 2 in Hb, Hc. lia. }
      lia.
  - rewrite Hones. rewrite Z.land_ones by lia. unfold fb. rewrite Z.add_comm, Z.mod_add by lia.
    apply Z.mod_small. lia.
Qed.

Theorem uvint_unpack_spec v rest : in_uint64 v ->
  uvint_unpack (uvint_bytes v ++ rest) = Ok (v, vint_extra v + 1).
Proof.
  unfold in_uint64. intros Hv. unfold uvint_unpack, uvint_bytes. cbn [app]. rewrite py_index_head. cbn [bind].
  destruct (vint_extra_char v ltac:(lia)) as (n & Hn & Hn8 & Hlt & Hge).
  destruct (Z_lt_dec v 128) as [Hsmall|Hbig].
  - assert (Hfb : vint_first_byte v = v).
    { unfold vint_first_byte. cbv zeta. rewrite vint_extra_small by lia. change (8 * 0) with 0. rewrite Z.shiftr_0_r. reflexivity. }
    rewrite Hfb, land_128 by lia. rewrite vint_extra_small by lia.
    destruct (v <? 128) eqn:E; [reflexivity|lia].
  - pose proof (vint_extra_big v n ltac:(lia) Hn) as Hn0.
    destruct (first_byte_decode v n Hv Hn Hn8 Hn0 Hlt) as (Hfb & Hne & Hrv0). cbv zeta in Hfb, Hne, Hrv0.
    rewrite land_128 by lia. destruct (vint_first_byte v <? 128) eqn:E; [lia|].
    rewrite Hne, Hrv0, Hn, Nat2Z.id.
    replace (Z.of_nat n + 1) with (1 + Z.of_nat n) by lia. rewrite py_range_up.
    pose proof (uvint_unpack_loop_spec (be_bytes n v) [vint_first_byte v] rest (vint_first_byte v) (Z.of_nat n)
                  (Z.shiftr v (8 * Z.of_nat n)) (be_bytes_bytes n v)) as Hloop.
    rewrite be_bytes_length in Hloop. cbn [length app] in Hloop. change (Z.of_nat 1) with 1 in Hloop.
    rewrite Hloop. cbn [bind]. rewrite be_fold_bytes. rewrite Z.shiftr_div_pow2 by lia.
    f_equal. f_equal. pose proof (Z.div_mod v (2 ^ (8 * Z.of_nat n)) ltac:(pose proof (pow2_pos (8 * Z.of_nat n)); lia)). lia.
Qed.

(* agreement of the spec decoder with the generated decoder on the spec encoder's image *)
Definition lead_ones_ok (b : Z) : bool :=
  forallb (fun n => implb ((vint_prefix n <=? b) && (2 * (b - vint_prefix n) <? 2 ^ (8 - n))) (lead_ones b =? n))
          [0; 1; 2; 3; 4; 5; 6; 7; 8].

Lemma lead_ones_check b n : 0 <= b < 256 -> 0 <= n <= 8 -> vint_prefix n <= b -> 2 * (b - vint_prefix n) < 2 ^ (8 - n) ->
  lead_ones b = n.
Proof.
  intros Hb Hn H1 H2.
  assert (Hok : lead_ones_ok b = true) by (apply (byte_forall lead_ones_ok); [vm_compute; reflexivity|assumption]).
  unfold lead_ones_ok in Hok. rewrite forallb_forall in Hok. specialize (Hok n).
  assert (Hin : In n [0; 1; 2; 3; 4; 5; 6; 7; 8]) by (enum8 Hn; cbn; tauto).
  specialize (Hok Hin).
  destruct ((vint_prefix n <=? b) && (2 * (b - vint_prefix n) <? 2 ^ (8 - n))) eqn:E.
  - cbn [implb] in Hok. lia.
  - apply andb_false_elim in E. destruct E; lia.
Qed.

Lemma lead_ones_first_byte v (n : nat) : 0 <= v < 2 ^ 64 -> vint_extra v = Z.of_nat n -> (n <= 8)%nat ->
  ((n < 8)%nat -> v < 2 ^ (7 * (Z.of_nat n + 1))) -> lead_ones (vint_first_byte v) = Z.of_nat n.
Proof.
  intros Hv Hn Hn8 Hlt.
  destruct (high_bits_small v n ltac:(lia) Hn8 ltac:(lia) Hlt) as [Ha Hb].
  pose proof (uvint_bytes_bytes v Hv) as Hbytes. unfold uvint_bytes in Hbytes.
  inversion Hbytes as [|? ? Hfb _]; subst. unfold is_byte in Hfb.
  apply lead_ones_check; [exact Hfb|lia| |]; unfold vint_first_byte; cbv zeta; rewrite Hn; lia.
Qed.

Lemma first_byte_mod v (n : nat) : 0 <= v < 2 ^ 64 -> vint_extra v = Z.of_nat n -> (n <= 8)%nat ->
  ((n < 8)%nat -> v < 2 ^ (7 * (Z.of_nat n + 1))) ->
  vint_first_byte v mod 2 ^ (8 - Z.of_nat n) = Z.shiftr v (8 * Z.of_nat n).
Proof.
  intros Hv Hn Hn8 Hlt.
  destruct (high_bits_small v n ltac:(lia) Hn8 ltac:(lia) Hlt) as [Ha Hb].
  destruct (prefix_form (Z.of_nat n) ltac:(lia)) as (_ & Hpf & _).
  unfold vint_first_byte. cbv zeta. rewrite Hn, <- Hpf.
  assert (Hpk : 0 < 2 ^ (8 - Z.of_nat n)) by (apply pow2_pos; lia).
  rewrite Z.add_comm, Z.mod_add by lia. apply Z.mod_small. lia.
Qed.

(* the spec is self-consistent, and the generated decoder agrees with the spec decoder on every encoding *)
Theorem uvint_decode_roundtrip v rest : in_uint64 v -> uvint_decode (uvint_bytes v ++ rest) = Some (v, vint_extra v + 1).
Proof.
  unfold in_uint64. intros Hv.
  destruct (vint_extra_char v ltac:(lia)) as (n & Hn & Hn8 & Hlt & Hge).
  unfold uvint_decode, uvint_bytes. cbn [app].
  rewrite (lead_ones_first_byte v n Hv Hn Hn8 Hlt).
  rewrite app_length, be_bytes_length, Hn, Nat2Z.id.
  destruct (Z.of_nat (n + length rest) <? Z.of_nat n) eqn:E; [lia|].
  rewrite firstn_app, be_bytes_length, Nat.sub_diag. cbn [firstn]. rewrite app_nil_r.
  rewrite (firstn_all2 (be_bytes n v)) by (rewrite be_bytes_length; lia).
  rewrite (first_byte_mod v n Hv Hn Hn8 Hlt). rewrite be_unsigned_be_bytes.
  rewrite Z.shiftr_div_pow2 by lia. f_equal. f_equal.
  pose proof (Z.div_mod v (2 ^ (8 * Z.of_nat n)) ltac:(pose proof (pow2_pos (8 * Z.of_nat n)); lia)). lia.
Qed.

Corollary uvint_unpack_matches_spec v rest : in_uint64 v ->
  res_to_option (uvint_unpack (uvint_bytes v ++ rest)) = uvint_decode (uvint_bytes v ++ rest).
Proof. intros Hv. rewrite uvint_unpack_spec, uvint_decode_roundtrip by assumption. reflexivity. Qed.
