(* T-layer for cassandra/marshal.py: the laws of the GENERATED integer codecs (Gen/MarshalGen.v, regenerated from the
   working tree by py2coq on every run), against the independent specs Model/JavaBigInteger.v and Model/VIntCoding.v.
   Everything is for ALL integers / ALL lists; no theorem depends on fuel (exhaustion is excluded by proof).
   Detailed lemmas: Marshal_varint.v (a), Marshal_vint.v (b, c: single vints), Marshal_vints.v (c: sequences).
   C01/C02/C06/C34 import this file and use the theorems below. *)
From Coq Require Import ZArith List Bool Lia ZifyBool.
From Verif Require Import PyBase JavaBigInteger VIntCoding MarshalGen BytesBE.
From Verif Require Export Marshal_varint Marshal_vint Marshal_vints.
Import ListNotations.
Local Open Scope Z_scope.

(* ------------------------------------------------------------------ (a) varint = BigInteger.toByteArray *)
Theorem marshal_varint : forall z : Z,
  exists bs, varint_pack z = Ok bs /\ bs = java_toByteArray z /\ Forall is_byte bs /\ varint_unpack bs = Ok z.
Proof.
  intros z. destruct (varint_roundtrip_spec z) as (bs & H1 & H2 & H3 & _ & H5 & _). exists bs. auto.
Qed.

Theorem marshal_varint_total : forall z, varint_pack z <> Raise /\ varint_pack z <> Fuel.
Proof. exact varint_pack_never_fails. Qed.

(* the decoder is new BigInteger(bytes) on EVERY non-empty byte string (also non-minimal ones), and raises on b'' *)
Theorem marshal_varint_unpack : forall bs, Forall is_byte bs ->
  res_to_option (varint_unpack bs) = java_fromByteArray bs.
Proof.
  intros bs Hb. destruct bs as [|b0 rest]; [reflexivity|].
  destruct (varint_unpack_java (b0 :: rest) ltac:(discriminate) Hb) as (z & H1 & H2). rewrite H1, H2. reflexivity.
Qed.

(* minimal length: no shorter two's-complement string denotes z *)
Theorem marshal_varint_minimal : forall z bs, Forall is_byte bs -> java_fromByteArray bs = Some z ->
  forall out, varint_pack z = Ok out -> (length out <= length bs)%nat.
Proof.
  intros z bs Hb Hj out Hp. rewrite varint_pack_spec in Hp. inversion Hp; subst.
  apply (varint_pack_minimal z bs Hb Hj).
Qed.

(* ------------------------------------------------------------------ (b) zig-zag *)
Theorem marshal_zigzag : forall n, - 2 ^ 63 <= n < 2 ^ 63 ->
  decode_zig_zag (encode_zig_zag n) = n /\ encode_zig_zag n = zigzag_encode n /\ 0 <= encode_zig_zag n < 2 ^ 64.
Proof.
  intros n Hn. destruct (zigzag_roundtrip_spec n Hn) as (H1 & H2 & H3 & _). auto.
Qed.

Theorem marshal_zigzag_decode : forall u, 0 <= u < 2 ^ 64 ->
  decode_zig_zag u = zigzag_decode u /\ - 2 ^ 63 <= decode_zig_zag u < 2 ^ 63 /\ encode_zig_zag (decode_zig_zag u) = u.
Proof.
  intros u Hu. destruct (decode_zig_zag_spec u Hu) as [H1 H2]. split; [exact H1|]. split; [exact H2|].
  rewrite (encode_zig_zag_arith _ H2), decode_zig_zag_arith. apply zigzag_arith_roundtrip'. lia.
Qed.

(* outside int64 the Python expression leaves the 64-bit range (this is what makes vints_pack raise) *)
Theorem marshal_zigzag_overflow : forall n, ~ (- 2 ^ 63 <= n < 2 ^ 63) -> 2 ^ 64 <= encode_zig_zag n.
Proof. exact zigzag_out_of_range. Qed.

(* ------------------------------------------------------------------ (c) unsigned vint *)
Theorem marshal_uvint : forall v, 0 <= v < 2 ^ 64 ->
  exists bs, uvint_pack v = Ok bs /\ uvint_encode v = Some bs /\ Forall is_byte bs /\
             length bs = S (Z.to_nat (vint_extra v)) /\
             forall rest, uvint_unpack (bs ++ rest) = Ok (v, Z.of_nat (length bs)) /\
                          uvint_decode (bs ++ rest) = Some (v, Z.of_nat (length bs)).
Proof.
  intros v Hv. exists (uvint_bytes v).
  split; [apply uvint_pack_spec; exact Hv|].
  split; [unfold uvint_encode; destruct ((0 <=? v) && (v <? 2 ^ 64)) eqn:E; [reflexivity|lia]|].
  split; [apply uvint_bytes_bytes; exact Hv|].
  split; [apply uvint_bytes_length|].
  intros rest. rewrite uvint_bytes_length.
  destruct (vint_extra_char v ltac:(lia)) as (n & Hn & _).
  replace (Z.of_nat (S (Z.to_nat (vint_extra v)))) with (vint_extra v + 1) by lia.
  split; [apply uvint_unpack_spec; exact Hv|apply uvint_decode_roundtrip; exact Hv].
Qed.

Theorem marshal_uvint_rejects : forall v, ~ (0 <= v < 2 ^ 64) -> uvint_pack v = Raise /\ uvint_encode v = None.
Proof.
  intros v Hv. split.
  - destruct (Z_lt_dec v 0); [apply uvint_pack_negative; assumption|apply uvint_pack_too_big; lia].
  - unfold uvint_encode. destruct ((0 <=? v) && (v <? 2 ^ 64)) eqn:E; [lia|reflexivity].
Qed.

Theorem marshal_uvint_total : forall v, uvint_pack v <> Fuel.
Proof.
  intros v. destruct (Z_lt_dec v 0); [rewrite uvint_pack_negative by assumption; discriminate|].
  destruct (Z_lt_dec v (2 ^ 64)); [rewrite uvint_pack_spec by (unfold in_uint64; lia); discriminate|].
  rewrite uvint_pack_too_big by lia. discriminate.
Qed.

(* Java's size formula is the spec's size class *)
Ltac Zify.zify_post_hook ::= Z.to_euclidean_division_equations.
Theorem java_vint_size_eq : forall v, 0 <= v < 2 ^ 64 -> java_vint_size v = vint_extra v + 1.
Proof.
  intros v Hv. unfold java_vint_size. rewrite Z.shiftr_div_pow2 by lia. change (2 ^ 6) with 64.
  rewrite Z.log2_lor by lia. change (Z.log2 1) with 0. pose proof (Z.log2_nonneg v) as HL.
  rewrite Z.max_l by lia.
  destruct (vint_extra_char v ltac:(lia)) as (n & Hn & Hn8 & Hlt & Hge). rewrite Hn.
  destruct (Z.eq_dec v 0) as [->|Hv0].
  { destruct n; [reflexivity|]. specialize (Hge ltac:(discriminate)). pose proof (pow2_pos (7 * Z.of_nat (S n)) ltac:(lia)). lia. }
  assert (Hup : (n < 8)%nat -> Z.log2 v < 7 * (Z.of_nat n + 1)) by (intros H; apply Z.log2_lt_pow2; [lia|auto]).
  assert (Hlo : n <> O -> 7 * Z.of_nat n <= Z.log2 v) by (intros H; apply Z.log2_le_pow2; [lia|auto]).
  assert (H63 : Z.log2 v < 64) by (apply Z.log2_lt_pow2; lia).
  destruct (Nat.eq_dec n 0) as [->|Hn0]; [specialize (Hup ltac:(lia)); lia|].
  specialize (Hlo Hn0).
  destruct (Nat.eq_dec n 8) as [->|Hne]; [lia|]. specialize (Hup ltac:(lia)). lia.
Qed.
Ltac Zify.zify_post_hook ::= idtac.

(* ------------------------------------------------------------------ (c) sequences of signed vints *)
Theorem marshal_vints : forall vals, Forall (fun n => - 2 ^ 63 <= n < 2 ^ 63) vals ->
  exists bs, vints_pack vals = Ok bs /\ vints_encode vals = Some bs /\ Forall is_byte bs /\
             vints_unpack bs = Ok vals /\ vints_decode bs = Some vals.
Proof. exact vints_roundtrip_spec. Qed.

Theorem marshal_vints_rejects : forall vals, ~ Forall (fun n => - 2 ^ 63 <= n < 2 ^ 63) vals ->
  vints_pack vals = Raise /\ vints_encode vals = None.
Proof.
  intros vals H. pose proof (vints_pack_rejects vals H) as Hr. split; [exact Hr|].
  rewrite <- vints_pack_matches_spec, Hr. reflexivity.
Qed.

Theorem marshal_vints_exact : forall vals, res_to_option (vints_pack vals) = vints_encode vals.
Proof. exact vints_pack_matches_spec. Qed.

Print Assumptions marshal_varint.
Print Assumptions marshal_varint_total.
Print Assumptions marshal_varint_unpack.
Print Assumptions marshal_varint_minimal.
Print Assumptions marshal_zigzag.
Print Assumptions marshal_zigzag_decode.
Print Assumptions marshal_zigzag_overflow.
Print Assumptions marshal_uvint.
Print Assumptions marshal_uvint_rejects.
Print Assumptions marshal_uvint_total.
Print Assumptions java_vint_size_eq.
Print Assumptions marshal_vints.
Print Assumptions marshal_vints_rejects.
Print Assumptions marshal_vints_exact.
