(* C33: SortedSet -- binary search, representation invariant, refinement of mathematical sets. *)
From Coq Require Import ZArith List Bool Arith Lia Sorted.
From Verif Require Import SortedSet.
Import ListNotations.

Section SetProofs.
  Variable A : Type.
  Variable ltb eqb : A -> A -> bool.
  (* Python's `<` on a single comparable type: a strict total order; `==` is equality of values *)
  Hypothesis ltb_irrefl : forall x, ltb x x = false.
  Hypothesis ltb_trans : forall x y z, ltb x y = true -> ltb y z = true -> ltb x z = true.
  Hypothesis ltb_total : forall x y, ltb x y = false -> ltb y x = false -> x = y.
  Hypothesis eqb_spec : forall x y, eqb x y = true <-> x = y.

  Notation Inv := (Inv A ltb).
  Notation find_loop := (find_loop A ltb).
  Notation find_insertion := (find_insertion A ltb).
  Notation fi := (fi A ltb).
  Notation contains := (contains A ltb eqb).
  Notation add := (add A ltb eqb).
  Notation remove := (remove A ltb eqb).
  Notation update := (update A ltb eqb).
  Notation of_list := (of_list A ltb eqb).
  Notation operand := (operand A).
  Notation operand_items := (operand_items A ltb eqb).
  Notation operand_mem := (operand_mem A ltb eqb).
  Notation operand_len := (operand_len A ltb eqb).
  Notation intersect_ := (intersect_ A ltb eqb).
  Notation diff_ := (diff_ A ltb eqb).
  Notation is_set_of := (is_set_of A ltb).

  Lemma eqb_refl : forall x, eqb x x = true.
  Proof. intro x. apply eqb_spec. reflexivity. Qed.

  Lemma eqb_false : forall x y, eqb x y = false <-> x <> y.
  Proof.
    intros x y. split.
    - intros H E. apply eqb_spec in E. congruence.
    - intros H. destruct (eqb x y) eqn:E; [apply eqb_spec in E; contradiction | reflexivity].
  Qed.

  Lemma In_dec' : forall (x : A) l, In x l \/ ~ In x l.
  Proof.
    intros x l. induction l as [|a l IH]; [right; intros []|].
    destruct (eqb a x) eqn:E.
    - apply eqb_spec in E. left. left. exact E.
    - apply eqb_false in E. destruct IH as [IH|IH]; [left; right; exact IH|].
      right. intros [H|H]; contradiction.
  Qed.

  (* ------------------------------------------------------------ _find_insertion terminates, any list *)
  Lemma div2_bounds : forall lo hi, lo < hi -> lo <= (lo + hi) / 2 < hi.
  Proof.
    intros lo hi H. split.
    - apply Nat.div_le_lower_bound; lia.
    - apply Nat.div_lt_upper_bound; lia.
  Qed.

  Lemma find_loop_total : forall fuel a x lo hi,
    lo <= hi -> hi <= length a -> hi - lo < fuel ->
    exists i, find_loop fuel a x lo hi = Some i /\ lo <= i <= hi.
  Proof.
    induction fuel as [|f IH]; intros a x lo hi H1 H2 H3; [lia|].
    cbn [SortedSet.find_loop]. destruct (lo <? hi) eqn:E.
    - apply Nat.ltb_lt in E. pose proof (div2_bounds lo hi E) as [Hm1 Hm2].
      set (mid := (lo + hi) / 2) in *.
      destruct (nth_error a mid) as [v|] eqn:Hn.
      + destruct (ltb v x).
        * destruct (IH a x (S mid) hi) as [i [Hi Hb]]; try lia. exists i. split; [exact Hi|lia].
        * destruct (IH a x lo mid) as [i [Hi Hb]]; try lia. exists i. split; [exact Hi|lia].
      + apply nth_error_None in Hn. lia.
    - apply Nat.ltb_ge in E. exists lo. split; [reflexivity|lia].
  Qed.

  Lemma find_insertion_total : forall a x, exists i, find_insertion a x = Some i /\ i <= length a.
  Proof.
    intros a x. unfold SortedSet.find_insertion.
    destruct (find_loop_total (S (length a)) a x 0 (length a)) as [i [H1 H2]]; try lia.
    exists i. split; [exact H1|lia].
  Qed.

  (* ------------------------------------------------------------ sorted lists *)
  Lemma Inv_cons_inv : forall a l, Inv (a :: l) -> Inv l /\ Forall (fun v => ltb a v = true) l.
  Proof. intros a l H. inversion H; subst. split; assumption. Qed.

  Lemma Inv_app : forall l1 l2,
    Inv (l1 ++ l2) <-> Inv l1 /\ Inv l2 /\ (forall u v, In u l1 -> In v l2 -> ltb u v = true).
  Proof.
    induction l1 as [|a l1 IH]; intros l2; cbn [app].
    - split; [intro H; repeat split; [constructor|exact H|intros u v []] | intros [_ [H _]]; exact H].
    - split.
      + intro H. apply Inv_cons_inv in H. destruct H as [H1 H2]. apply IH in H1. destruct H1 as [Ha [Hb Hc]].
        rewrite Forall_app in H2. destruct H2 as [F1 F2]. repeat split.
        * constructor; assumption.
        * exact Hb.
        * intros u v [Hu|Hu] Hv; [subst u; rewrite Forall_forall in F2; apply F2; exact Hv | apply Hc; assumption].
      + intros [Ha [Hb Hc]]. apply Inv_cons_inv in Ha. destruct Ha as [Ha1 Ha2]. constructor.
        * apply IH. repeat split; [exact Ha1|exact Hb|intros u v Hu Hv; apply Hc; [right; exact Hu|exact Hv]].
        * apply Forall_app. split; [exact Ha2|]. apply Forall_forall. intros v Hv. apply Hc; [left; reflexivity|exact Hv].
  Qed.

  Lemma sorted_nth : forall a j k u v, Inv a -> j < k -> nth_error a j = Some u -> nth_error a k = Some v -> ltb u v = true.
  Proof.
    induction a as [|h a IH]; intros j k u v HI Hjk Hj Hk; [destruct j; discriminate|].
    apply Inv_cons_inv in HI. destruct HI as [HI HF].
    destruct k as [|k]; [lia|]. cbn in Hk. destruct j as [|j].
    - cbn in Hj. injection Hj as <-. rewrite Forall_forall in HF. apply HF. eapply nth_error_In; exact Hk.
    - cbn in Hj. eapply IH; [exact HI| |exact Hj|exact Hk]. lia.
  Qed.

  Lemma Inv_NoDup : forall s, Inv s -> NoDup s.
  Proof.
    induction s as [|a s IH]; intro H; [constructor|].
    apply Inv_cons_inv in H. destruct H as [H1 H2]. constructor; [|apply IH; exact H1].
    intro Hin. rewrite Forall_forall in H2. specialize (H2 a Hin). rewrite ltb_irrefl in H2. discriminate.
  Qed.

  Lemma sorted_ext : forall s t, Inv s -> Inv t -> (forall y, In y s <-> In y t) -> s = t.
  Proof.
    induction s as [|a s IH]; intros t Hs Ht E.
    - destruct t as [|b t]; [reflexivity|]. exfalso. apply (E b). left. reflexivity.
    - destruct t as [|b t]; [exfalso; apply (E a); left; reflexivity|].
      pose proof (Inv_cons_inv _ _ Hs) as [Hs1 Hs2]. pose proof (Inv_cons_inv _ _ Ht) as [Ht1 Ht2].
      rewrite Forall_forall in Hs2, Ht2.
      assert (a = b) as ->.
      { destruct (proj1 (E a) (or_introl eq_refl)) as [Hb|Hb]; [symmetry; exact Hb|].
        destruct (proj2 (E b) (or_introl eq_refl)) as [Ha|Ha]; [exact Ha|].
        specialize (Hs2 b Ha). specialize (Ht2 a Hb).
        pose proof (ltb_trans _ _ _ Hs2 Ht2) as C. rewrite ltb_irrefl in C. discriminate. }
      f_equal. apply IH; [exact Hs1|exact Ht1|].
      pose proof (Inv_NoDup _ Hs) as Ns. pose proof (Inv_NoDup _ Ht) as Nt.
      inversion Ns; subst. inversion Nt; subst.
      intro y. split; intro Hy.
      + destruct (proj1 (E y) (or_intror Hy)) as [Hb|Hb]; [subst y; contradiction|exact Hb].
      + destruct (proj2 (E y) (or_intror Hy)) as [Hb|Hb]; [subst y; contradiction|exact Hb].
  Qed.

  (* ------------------------------------------------------------ binary search on sorted input *)
  Lemma find_loop_sorted : forall fuel a x lo hi,
    Inv a -> lo <= hi -> hi <= length a -> hi - lo < fuel ->
    (forall j v, j < lo -> nth_error a j = Some v -> ltb v x = true) ->
    (forall j v, hi <= j -> nth_error a j = Some v -> ltb v x = false) ->
    exists i, find_loop fuel a x lo hi = Some i /\ lo <= i <= hi /\
      (forall j v, j < i -> nth_error a j = Some v -> ltb v x = true) /\
      (forall j v, i <= j -> nth_error a j = Some v -> ltb v x = false).
  Proof.
    induction fuel as [|f IH]; intros a x lo hi HI H1 H2 H3 Hlo Hhi; [lia|].
    cbn [SortedSet.find_loop]. destruct (lo <? hi) eqn:E.
    - apply Nat.ltb_lt in E. pose proof (div2_bounds lo hi E) as [Hm1 Hm2].
      set (mid := (lo + hi) / 2) in *.
      destruct (nth_error a mid) as [v|] eqn:Hn; [|apply nth_error_None in Hn; lia].
      destruct (ltb v x) eqn:Hv.
      + destruct (IH a x (S mid) hi HI) as [i [Hi [Hb [P1 P2]]]]; try lia.
        * intros j w Hj Hw. destruct (Nat.eq_dec j mid) as [->|Hne]; [congruence|].
          assert (j < mid) as Hlt by lia.
          apply (ltb_trans w v x); [eapply sorted_nth; eauto|exact Hv].
        * exact Hhi.
        * exists i. repeat split; try lia; assumption.
      + destruct (IH a x lo mid HI) as [i [Hi [Hb [P1 P2]]]]; try lia.
        * exact Hlo.
        * intros j w Hj Hw. destruct (Nat.eq_dec j mid) as [->|Hne]; [congruence|].
          assert (mid < j) as Hlt by lia.
          destruct (ltb w x) eqn:Hwx; [|reflexivity].
          assert (ltb v w = true) as Hvw by (eapply sorted_nth; eauto).
          rewrite (ltb_trans v w x Hvw Hwx) in Hv. discriminate.
        * exists i. repeat split; try lia; assumption.
    - apply Nat.ltb_ge in E. exists lo. assert (lo = hi) by lia. subst hi.
      repeat split; try lia; assumption.
  Qed.

  (* the search returns the FIRST index whose element is not below x *)
  Lemma find_insertion_spec : forall a x, Inv a ->
    exists i, find_insertion a x = Some i /\ i <= length a /\
      (forall j v, j < i -> nth_error a j = Some v -> ltb v x = true) /\
      (forall j v, i <= j -> nth_error a j = Some v -> ltb v x = false).
  Proof.
    intros a x HI. unfold SortedSet.find_insertion.
    assert (forall j v, j < 0 -> nth_error a j = Some v -> ltb v x = true) as Q1 by (intros j v Hj _; lia).
    assert (forall j v, length a <= j -> nth_error a j = Some v -> ltb v x = false) as Q2.
    { intros j v Hj Hv. assert (nth_error a j = None) by (apply nth_error_None; lia). congruence. }
    destruct (find_loop_sorted (S (length a)) a x 0 (length a) HI (Nat.le_0_l _) (Nat.le_refl _)
                ltac:(lia) Q1 Q2)
      as [i [Hi [Hb [P1 P2]]]].
    exists i. repeat split; try lia; assumption.
  Qed.

  Lemma fi_split : forall a x, Inv a ->
    exists l1 l2, a = l1 ++ l2 /\ fi a x = length l1 /\
      Forall (fun v => ltb v x = true) l1 /\ Forall (fun v => ltb v x = false) l2.
  Proof.
    intros a x HI. destruct (find_insertion_spec a x HI) as [i [Hi [Hb [P1 P2]]]].
    exists (firstn i a), (skipn i a). split; [symmetry; apply firstn_skipn|].
    split; [unfold SortedSet.fi; rewrite Hi; rewrite firstn_length; lia|]. split.
    - apply Forall_forall. intros v Hv. apply In_nth_error in Hv. destruct Hv as [j Hj].
      assert (j < i).
      { assert (j < length (firstn i a)) by (apply nth_error_Some; congruence). rewrite firstn_length in H. lia. }
      apply (P1 j v H). rewrite <- (firstn_skipn i a). rewrite nth_error_app1; [exact Hj|].
      apply nth_error_Some. congruence.
    - apply Forall_forall. intros v Hv. apply In_nth_error in Hv. destruct Hv as [j Hj].
      apply (P2 (i + j) v); [lia|].
      rewrite <- (firstn_skipn i a). rewrite nth_error_app2; rewrite firstn_length; [|lia].
      replace (i + j - Nat.min i (length a)) with j by lia. exact Hj.
  Qed.

  (* membership in a sorted list is decided at the insertion point *)
  Lemma split_mem : forall l1 l2 x, Inv (l1 ++ l2) ->
    Forall (fun v => ltb v x = true) l1 -> Forall (fun v => ltb v x = false) l2 ->
    (In x (l1 ++ l2) <-> exists t, l2 = x :: t).
  Proof.
    intros l1 l2 x HI F1 F2. split.
    - intro H. apply in_app_or in H. destruct H as [H|H].
      + rewrite Forall_forall in F1. specialize (F1 x H). rewrite ltb_irrefl in F1. discriminate.
      + destruct l2 as [|v t]; [destruct H|]. destruct H as [H|H]; [subst v; exists t; reflexivity|].
        apply Inv_app in HI. destruct HI as [_ [HI _]]. apply Inv_cons_inv in HI. destruct HI as [_ HF].
        rewrite Forall_forall in HF. specialize (HF x H). inversion F2; subst. congruence.
    - intros [t ->]. apply in_or_app. right. left. reflexivity.
  Qed.

  Lemma nth_error_split : forall (l1 l2 : list A), nth_error (l1 ++ l2) (length l1) = hd_error l2.
  Proof.
    intros l1 l2. rewrite nth_error_app2 by lia. rewrite Nat.sub_diag. destruct l2; reflexivity.
  Qed.

  Lemma firstn_split : forall (l1 l2 : list A), firstn (length l1) (l1 ++ l2) = l1.
  Proof. intros. rewrite firstn_app, Nat.sub_diag, firstn_all. cbn. apply app_nil_r. Qed.
  Lemma skipn_split : forall (l1 l2 : list A), skipn (length l1) (l1 ++ l2) = l2.
  Proof. intros. rewrite skipn_app, Nat.sub_diag, skipn_all. reflexivity. Qed.

  Lemma contains_spec : forall s x, Inv s -> (contains s x = true <-> In x s).
  Proof.
    intros s x HI. destruct (fi_split s x HI) as [l1 [l2 [-> [Hfi [F1 F2]]]]].
    unfold SortedSet.contains. rewrite Hfi, nth_error_split.
    rewrite (split_mem l1 l2 x HI F1 F2). destruct l2 as [|v t]; cbn.
    - split; [discriminate|intros [t H]; discriminate].
    - rewrite eqb_spec. split; [intros ->; exists t; reflexivity|intros [t' H]; congruence].
  Qed.

  Lemma add_spec : forall s x, Inv s -> is_set_of (add s x) (fun y => y = x \/ In y s).
  Proof.
    intros s x HI. destruct (fi_split s x HI) as [l1 [l2 [-> [Hfi [F1 F2]]]]].
    unfold SortedSet.add. rewrite Hfi, nth_error_split.
    pose proof (proj1 (Inv_app l1 l2) HI) as [I1 [I2 I12]].
    rewrite Forall_forall in F1.
    destruct l2 as [|v t]; cbn [hd_error].
    - rewrite app_nil_r in *. split.
      + apply Inv_app. repeat split; [exact I1|repeat constructor|].
        intros u w Hu [<-|[]]. apply F1. exact Hu.
      + intro y. rewrite in_app_iff. cbn. intuition.
    - destruct (eqb v x) eqn:E.
      + apply eqb_spec in E. subst v. split; [exact HI|].
        intro y. split; [intro H; right; exact H|]. intros [->|H]; [|exact H]. apply in_or_app. right. left. reflexivity.
      + apply eqb_false in E. unfold SortedSet.insert_at. rewrite firstn_split, skipn_split.
        inversion F2 as [|? ? Hvx F2']; subst.
        assert (ltb x v = true) as Hxv.
        { destruct (ltb x v) eqn:Hxv; [reflexivity|]. exfalso. apply E. apply ltb_total; assumption. }
        pose proof (Inv_cons_inv _ _ I2) as [It Hvt]. rewrite Forall_forall in Hvt.
        split.
        * apply Inv_app. repeat split; [exact I1| |].
          -- constructor; [exact I2|]. constructor; [exact Hxv|].
             apply Forall_forall. intros w Hw. apply (ltb_trans x v w Hxv). apply Hvt. exact Hw.
          -- intros u w Hu [<-|Hw]; [apply F1; exact Hu|apply I12; assumption].
        * intro y. rewrite !in_app_iff. cbn. intuition.
  Qed.

  Lemma remove_at_split : forall (l1 : list A) v t, remove_at A (length l1) (l1 ++ v :: t) = l1 ++ t.
  Proof.
    intros. unfold remove_at. rewrite firstn_split.
    replace (S (length l1)) with (length (l1 ++ [v])) by (rewrite app_length; cbn; lia).
    replace (l1 ++ v :: t) with ((l1 ++ [v]) ++ t) by (rewrite <- app_assoc; reflexivity).
    rewrite skipn_split. reflexivity.
  Qed.

  Lemma remove_mid_spec : forall l1 v t, Inv (l1 ++ v :: t) ->
    is_set_of (l1 ++ t) (fun y => In y (l1 ++ v :: t) /\ y <> v).
  Proof.
    intros l1 v t HI. pose proof (Inv_NoDup _ HI) as ND. apply NoDup_remove in ND. destruct ND as [ND Hnin].
    split.
    - apply Inv_app in HI. destruct HI as [I1 [I2 I12]]. apply Inv_cons_inv in I2. destruct I2 as [I2 _].
      apply Inv_app. repeat split; [exact I1|exact I2|]. intros u w Hu Hw. apply I12; [exact Hu|right; exact Hw].
    - intro y. rewrite !in_app_iff. cbn. rewrite in_app_iff in Hnin. split.
      + intros H. split; [intuition|]. intros ->. apply Hnin. exact H.
      + intros [[H|[H|H]] Hne]; [left; exact H|congruence|right; exact H].
  Qed.

  Lemma remove_spec : forall s x, Inv s ->
    match remove s x with
    | Some s' => In x s /\ is_set_of s' (fun y => In y s /\ y <> x)
    | None => ~ In x s
    end.
  Proof.
    intros s x HI. destruct (fi_split s x HI) as [l1 [l2 [-> [Hfi [F1 F2]]]]].
    unfold SortedSet.remove. rewrite Hfi, nth_error_split.
    pose proof (split_mem l1 l2 x HI F1 F2) as M.
    destruct l2 as [|v t]; cbn [hd_error].
    - intro H. apply M in H. destruct H as [t H]. discriminate.
    - destruct (eqb v x) eqn:E.
      + apply eqb_spec in E. subst v. split; [apply M; exists t; reflexivity|].
        rewrite remove_at_split. apply remove_mid_spec. exact HI.
      + apply eqb_false in E. intro H. apply M in H. destruct H as [t' H]. congruence.
  Qed.

  Lemma pop_spec : forall s, Inv s ->
    match pop A s with
    | None => s = []
    | Some (m, s') => In m s /\ (forall y, In y s -> y = m \/ ltb y m = true) /\ is_set_of s' (fun y => In y s /\ y <> m)
    end.
  Proof.
    intros s HI. unfold pop. destruct (rev s) as [|m r] eqn:E.
    - apply (f_equal (@rev A)) in E. rewrite rev_involutive in E. exact E.
    - apply (f_equal (@rev A)) in E. rewrite rev_involutive in E. cbn in E. subst s.
      split; [apply in_or_app; right; left; reflexivity|]. split.
      + intros y Hy. apply in_app_or in Hy. destruct Hy as [Hy|[Hy|[]]]; [right|left; symmetry; exact Hy].
        apply Inv_app in HI. destruct HI as [_ [_ H]]. apply H; [exact Hy|left; reflexivity].
      + pose proof (remove_mid_spec (rev r) m [] HI) as H. rewrite app_nil_r in H. exact H.
  Qed.

  Lemma update_spec : forall l s, Inv s -> is_set_of (update s l) (fun y => In y s \/ In y l).
  Proof.
    induction l as [|x l IH]; intros s HI; cbn.
    - split; [exact HI|]. intro y. intuition.
    - destruct (add_spec s x HI) as [HA HM]. destruct (IH _ HA) as [HU HM2]. split; [exact HU|].
      intro y. rewrite HM2, HM. cbn. intuition.
  Qed.

  Lemma of_list_spec : forall l, is_set_of (of_list l) (fun y => In y l).
  Proof.
    intro l. destruct (update_spec l [] (SSorted_nil _)) as [H1 H2]. split; [exact H1|].
    intro y. rewrite H2. cbn. intuition.
  Qed.

  (* _intersect / _diff are filters *)
  Lemma fold_filter_spec : forall (f : A -> bool) s acc, Inv acc ->
    is_set_of (fold_left (fun acc it => if f it then add acc it else acc) s acc)
              (fun y => In y acc \/ (In y s /\ f y = true)).
  Proof.
    intros f. induction s as [|x s IH]; intros acc HI; cbn [fold_left].
    - split; [exact HI|]. intro y. cbn. intuition.
    - destruct (f x) eqn:Fx.
      + destruct (add_spec acc x HI) as [HA HM]. destruct (IH _ HA) as [HU HM2]. split; [exact HU|].
        intro y. rewrite HM2, HM. cbn. split; [|intuition; subst; intuition].
        intros [[->|H]|[H1 H2]]; intuition.
      + destruct (IH _ HI) as [HU HM2]. split; [exact HU|].
        intro y. rewrite HM2. cbn. split; [intuition|]. intros [H|[[->|H] H2]]; [intuition|congruence|intuition].
  Qed.

  Lemma intersect_spec : forall s mem, is_set_of (intersect_ s mem) (fun y => In y s /\ mem y = true).
  Proof.
    intros s mem. destruct (fold_filter_spec mem s [] (SSorted_nil _)) as [H1 H2]. split; [exact H1|].
    intro y. unfold SortedSet.intersect_. rewrite H2. cbn. intuition.
  Qed.

  Lemma diff_as_filter : forall (mem : A -> bool) s acc,
    fold_left (fun acc it => if mem it then acc else add acc it) s acc =
    fold_left (fun acc it => if negb (mem it) then add acc it else acc) s acc.
  Proof.
    intros mem. induction s as [|x s IH]; intro acc; [reflexivity|].
    cbn. destruct (mem x); cbn; apply IH.
  Qed.

  Lemma diff_spec : forall s mem, is_set_of (diff_ s mem) (fun y => In y s /\ mem y = false).
  Proof.
    intros s mem. unfold SortedSet.diff_. rewrite diff_as_filter.
    destruct (fold_filter_spec (fun y => negb (mem y)) s [] (SSorted_nil _)) as [H1 H2].
    split; [exact H1|]. intro y. rewrite H2. cbn. rewrite negb_true_iff. intuition.
  Qed.

  Lemma operand_mem_spec : forall o x, operand_mem o x = true <-> oset A o x.
  Proof.
    intros [l|l] x; cbn.
    - destruct (of_list_spec l) as [H1 H2]. rewrite (contains_spec _ x H1). apply H2.
    - rewrite existsb_exists. split.
      + intros [y [Hy E]]. apply eqb_spec in E. subst y. exact Hy.
      + intro H. exists x. split; [exact H|apply eqb_refl].
  Qed.

  Lemma operand_mem_false : forall o x, operand_mem o x = false <-> ~ oset A o x.
  Proof.
    intros o x. rewrite <- operand_mem_spec. destruct (operand_mem o x); split; intuition; discriminate.
  Qed.

  Lemma operand_items_spec : forall o, operand_ok A o ->
    NoDup (operand_items o) /\ forall y, In y (operand_items o) <-> oset A o y.
  Proof.
    intros [l|l] H; cbn.
    - destruct (of_list_spec l) as [H1 H2]. split; [apply Inv_NoDup; exact H1|exact H2].
    - split; [exact H|intro y; reflexivity].
  Qed.

  Lemma operand_items_mem : forall o y, In y (operand_items o) <-> oset A o y.
  Proof.
    intros [l|l] y; cbn; [|reflexivity]. destruct (of_list_spec l) as [H1 H2]. apply H2.
  Qed.

  Lemma union_spec : forall os s, Inv s -> is_set_of (union A ltb eqb s os) (fun y => In y s \/ osets A os y).
  Proof.
    induction os as [|o os IH]; intros s HI; cbn.
    - split; [exact HI|]. intro y. split; [intuition|]. intros [H|[o [[] _]]]. exact H.
    - destruct (update_spec (operand_items o) s HI) as [HU HM]. destruct (IH _ HU) as [H1 H2]. split; [exact H1|].
      intro y. rewrite H2, HM, operand_items_mem. unfold osets. split.
      + intros [[H|H]|[o' [Ho' H]]]; [left; exact H|right; exists o; split; [left; reflexivity|exact H]|].
        right. exists o'. split; [right; exact Ho'|exact H].
      + intros [H|[o' [[<-|Ho'] H]]]; [left; left; exact H|left; right; exact H|].
        right. exists o'. split; assumption.
  Qed.

  Lemma intersection_spec : forall os s, Inv s ->
    is_set_of (intersection A ltb eqb s os) (fun y => In y s /\ allsets A os y).
  Proof.
    induction os as [|o os IH]; intros s HI; cbn [SortedSet.intersection].
    - split; [exact HI|]. intro y. unfold allsets. split; [intro H; split; [exact H|intros o []]|intuition].
    - destruct (intersect_spec s (operand_mem o)) as [H1 H2].
      destruct (intersect_ s (operand_mem o)) as [|a i'] eqn:E.
      + split; [constructor|]. intro y. split; [intros []|]. intros [Hy Hall].
        apply (H2 y). split; [exact Hy|]. apply operand_mem_spec. apply Hall. left. reflexivity.
      + destruct (IH _ H1) as [H3 H4]. split; [exact H3|]. intro y. rewrite H4, H2, operand_mem_spec.
        unfold allsets. split.
        * intros [[Hy Ho] Hall]. split; [exact Hy|]. intros o' [<-|Ho']; [exact Ho|apply Hall; exact Ho'].
        * intros [Hy Hall]. split; [split; [exact Hy|apply Hall; left; reflexivity]|].
          intros o' Ho'. apply Hall. right. exact Ho'.
  Qed.

  Lemma difference_spec : forall os s, Inv s ->
    is_set_of (difference A ltb eqb s os) (fun y => In y s /\ ~ osets A os y).
  Proof.
    induction os as [|o os IH]; intros s HI; cbn [SortedSet.difference].
    - split; [exact HI|]. intro y. unfold osets. split; [intro H; split; [exact H|intros [o [[] _]]]|intuition].
    - destruct (diff_spec s (operand_mem o)) as [H1 H2].
      destruct (diff_ s (operand_mem o)) as [|a d'] eqn:E.
      + split; [constructor|]. intro y. split; [intros []|]. intros [Hy Hn].
        apply (H2 y). split; [exact Hy|]. apply operand_mem_false. intro Ho. apply Hn. exists o. split; [left; reflexivity|exact Ho].
      + destruct (IH _ H1) as [H3 H4]. split; [exact H3|]. intro y. rewrite H4, H2, operand_mem_false.
        unfold osets. split.
        * intros [[Hy Ho] Hn]. split; [exact Hy|]. intros [o' [[<-|Ho'] Hy']]; [contradiction|].
          apply Hn. exists o'. split; assumption.
        * intros [Hy Hn]. split; [split; [exact Hy|]|].
          -- intro Ho. apply Hn. exists o. split; [left; reflexivity|exact Ho].
          -- intros [o' [Ho' Hy']]. apply Hn. exists o'. split; [right; exact Ho'|exact Hy'].
  Qed.

  Lemma contains_false : forall s x, Inv s -> (contains s x = false <-> ~ In x s).
  Proof.
    intros s x HI. rewrite <- (contains_spec s x HI). destruct (contains s x); split; intuition; discriminate.
  Qed.

  Lemma symdiff_spec : forall s l, Inv s ->
    is_set_of (symmetric_difference A ltb eqb s l) (fun y => (In y s /\ ~ In y l) \/ (In y l /\ ~ In y s)).
  Proof.
    intros s l HI. unfold symmetric_difference.
    destruct (of_list_spec l) as [O1 O2].
    destruct (diff_spec s (contains (of_list l))) as [D1 D2].
    destruct (diff_spec (of_list l) (contains s)) as [E1 E2].
    destruct (update_spec (diff_ (of_list l) (contains s)) _ D1) as [U1 U2].
    split; [exact U1|]. intro y. rewrite U2, D2, E2, (contains_false _ y O1), (contains_false _ y HI), O2. reflexivity.
  Qed.

  (* ------------------------------------------------------------ size-based tests *)
  Lemma subset_or_witness : forall l s : list A, (forall z, In z l -> In z s) \/ exists z, In z l /\ ~ In z s.
  Proof.
    induction l as [|a l IH]; intro s; [left; intros z []|].
    destruct (In_dec' a s) as [Ha|Ha]; [|right; exists a; split; [left; reflexivity|exact Ha]].
    destruct (IH s) as [H|[z [Hz Hn]]]; [left; intros z [<-|Hz]; [exact Ha|apply H; exact Hz]|].
    right. exists z. split; [right; exact Hz|exact Hn].
  Qed.

  Lemma same_length_incl : forall i s : list A, NoDup i -> NoDup s -> incl i s ->
    (length i = length s <-> incl s i).
  Proof.
    intros i s Ni Ns Hi. split.
    - intro E. apply NoDup_length_incl; [exact Ni|lia|exact Hi].
    - intro Hs. apply Nat.le_antisymm; apply NoDup_incl_length; assumption.
  Qed.

  Lemma issubset_spec : forall s o, Inv s -> (issubset A ltb eqb s o = true <-> forall y, In y s -> oset A o y).
  Proof.
    intros s o HI. unfold issubset. rewrite Nat.eqb_eq.
    destruct (intersect_spec s (operand_mem o)) as [H1 H2].
    rewrite (same_length_incl _ _ (Inv_NoDup _ H1) (Inv_NoDup _ HI)); [|intros y Hy; apply H2 in Hy; tauto].
    unfold incl. split.
    - intros H y Hy. apply H in Hy. apply H2 in Hy. apply operand_mem_spec. tauto.
    - intros H y Hy. apply H2. split; [exact Hy|apply operand_mem_spec; apply H; exact Hy].
  Qed.

  Lemma issuperset_spec : forall s o, Inv s -> operand_ok A o ->
    (issuperset A ltb eqb s o = true <-> forall y, oset A o y -> In y s).
  Proof.
    intros s o HI Hok. unfold issuperset, SortedSet.operand_len. rewrite Nat.eqb_eq.
    destruct (intersect_spec s (operand_mem o)) as [H1 H2].
    destruct (operand_items_spec o Hok) as [N M].
    rewrite (same_length_incl _ _ (Inv_NoDup _ H1) N);
      [|intros y Hy; apply H2 in Hy; apply M; apply operand_mem_spec; tauto].
    unfold incl. split.
    - intros H y Hy. apply M in Hy. apply H in Hy. apply H2 in Hy. tauto.
    - intros H y Hy. apply M in Hy. apply H2. split; [apply H; exact Hy|apply operand_mem_spec; exact Hy].
  Qed.

  Lemma isdisjoint_spec : forall s o, (isdisjoint A ltb eqb s o = true <-> forall y, In y s -> ~ oset A o y).
  Proof.
    intros s o. unfold isdisjoint. rewrite Nat.eqb_eq.
    destruct (intersect_spec s (operand_mem o)) as [H1 H2]. rewrite length_zero_iff_nil. split.
    - intros E y Hy Ho. rewrite E in H2. apply (H2 y). split; [exact Hy|apply operand_mem_spec; exact Ho].
    - intro H. destruct (intersect_ s (operand_mem o)) as [|a t]; [reflexivity|]. exfalso.
      destruct (proj1 (H2 a) (or_introl eq_refl)) as [Ha Hm]. apply (H a Ha). apply operand_mem_spec. exact Hm.
  Qed.

  Lemma list_eqb_spec : forall a b, list_eqb A eqb a b = true <-> a = b.
  Proof.
    induction a as [|x a IH]; intros [|y b]; cbn; try (split; [discriminate|discriminate]); [tauto|].
    rewrite andb_true_iff, eqb_spec, IH. split; [intros [-> ->]; reflexivity|intro H; injection H; auto].
  Qed.

  Lemma set_eq_spec : forall s o, Inv s -> operand_ok A o ->
    (set_eq A ltb eqb s o = true <-> forall y, In y s <-> oset A o y).
  Proof.
    intros s [l|l] HI Hok; cbn [set_eq oset].
    - destruct (of_list_spec l) as [H1 H2]. rewrite list_eqb_spec. split.
      + intros -> y. apply H2.
      + intro H. apply sorted_ext; [exact HI|exact H1|]. intro y. rewrite H2. apply H.
    - cbn in Hok. rewrite andb_true_iff, Nat.eqb_eq, forallb_forall. split.
      + intros [E H] y. split.
        * apply (proj1 (same_length_incl l s Hok (Inv_NoDup _ HI) (fun z Hz => proj1 (contains_spec s z HI) (H z Hz))) E).
        * intro Hy. apply (contains_spec s y HI). apply H. exact Hy.
      + intro H. split.
        * apply Nat.le_antisymm; apply NoDup_incl_length; try assumption; try (apply Inv_NoDup; exact HI);
            intros z Hz; apply H; exact Hz.
        * intros z Hz. apply (contains_spec s z HI). apply H. exact Hz.
  Qed.

  Lemma set_ne_negb : forall s o, set_ne A ltb eqb s o = negb (set_eq A ltb eqb s o).
  Proof.
    intros s [l|l]; cbn [set_ne set_eq]; [reflexivity|].
    rewrite negb_andb. f_equal. induction l as [|x l IH]; cbn; [reflexivity|].
    rewrite negb_andb, IH. reflexivity.
  Qed.

  Lemma set_ne_spec : forall s o, Inv s -> operand_ok A o ->
    (set_ne A ltb eqb s o = true <-> ~ (forall y, In y s <-> oset A o y)).
  Proof.
    intros s o HI Hok. rewrite set_ne_negb, negb_true_iff. rewrite <- (set_eq_spec s o HI Hok).
    destruct (set_eq A ltb eqb s o).
    - split; [discriminate|intro H; exfalso; apply H; reflexivity].
    - split; [intros _ C; discriminate|reflexivity].
  Qed.

  Lemma proper_len : forall i s : list A, NoDup i -> NoDup s -> incl i s ->
    (length i < length s <-> exists z, In z s /\ ~ In z i).
  Proof.
    intros i s Ni Ns Hi. split.
    - intro L. destruct (subset_or_witness s i) as [H|H]; [|exact H].
      exfalso. assert (length s <= length i) by (apply NoDup_incl_length; assumption). lia.
    - intros [z [Hz Hn]]. destruct (Nat.lt_ge_cases (length i) (length s)) as [L|L]; [exact L|].
      exfalso. apply Hn. apply (NoDup_length_incl Ni L Hi). exact Hz.
  Qed.

  Lemma set_lt_spec : forall s o, Inv s -> operand_ok A o ->
    (set_lt A ltb eqb s o = true <-> ((forall y, In y s -> oset A o y) /\ exists z, oset A o z /\ ~ In z s)).
  Proof.
    intros s o HI Hok. unfold set_lt, SortedSet.operand_len.
    rewrite andb_true_iff, Nat.ltb_lt, (issubset_spec s o HI).
    destruct (operand_items_spec o Hok) as [N M]. split.
    - intros [L Hs]. split; [exact Hs|].
      apply (proper_len s _ (Inv_NoDup _ HI) N) in L; [|intros y Hy; apply M; apply Hs; exact Hy].
      destruct L as [z [Hz Hn]]. exists z. split; [apply M; exact Hz|exact Hn].
    - intros [Hs [z [Hz Hn]]]. split; [|exact Hs].
      apply (proper_len s _ (Inv_NoDup _ HI) N); [intros y Hy; apply M; apply Hs; exact Hy|].
      exists z. split; [apply M; exact Hz|exact Hn].
  Qed.

  Lemma set_gt_spec : forall s o, Inv s -> operand_ok A o ->
    (set_gt A ltb eqb s o = true <-> ((forall y, oset A o y -> In y s) /\ exists z, In z s /\ ~ oset A o z)).
  Proof.
    intros s o HI Hok. unfold set_gt, SortedSet.operand_len.
    rewrite andb_true_iff, Nat.ltb_lt, (issuperset_spec s o HI Hok).
    destruct (operand_items_spec o Hok) as [N M]. split.
    - intros [L Hs]. split; [exact Hs|].
      apply (proper_len _ s N (Inv_NoDup _ HI)) in L; [|intros y Hy; apply Hs; apply M; exact Hy].
      destruct L as [z [Hz Hn]]. exists z. split; [exact Hz|]. intro Ho. apply Hn. apply M. exact Ho.
    - intros [Hs [z [Hz Hn]]]. split; [|exact Hs].
      apply (proper_len _ s N (Inv_NoDup _ HI)); [intros y Hy; apply Hs; apply M; exact Hy|].
      exists z. split; [exact Hz|]. intro Ho. apply Hn. apply M. exact Ho.
  Qed.

  Lemma norm_index_lt : forall n i j, norm_index n i = Some j -> j < n.
  Proof.
    intros n i j. unfold norm_index.
    destruct (i <? 0)%Z eqn:E1;
      match goal with |- (if ?c then _ else _) = _ -> _ => destruct c eqn:E2 end; try discriminate;
      intro H; injection H as <-; apply orb_false_iff in E2; destruct E2 as [E2 E3];
      apply Z.ltb_ge in E2; apply Z.leb_gt in E3; lia.
  Qed.

  (* ------------------------------------------------------------ every step, every run *)
  Lemma step_spec : forall s o, Inv s -> op_ok A o ->
    Inv (fst (step A ltb eqb s o)) /\ spec A ltb s o (fst (step A ltb eqb s o)) (snd (step A ltb eqb s o)).
  Proof.
    intros s o HI Hok. destruct o; cbn [step spec op_ok] in *.
    - (* add *) destruct (add_spec s x HI) as [H1 H2]. cbn [fst snd].
      split; [exact H1|]. split; [reflexivity|]. split; [exact H1|exact H2].
    - (* remove *) pose proof (remove_spec s x HI) as H. destruct (remove s x) as [s'|]; cbn [fst snd].
      + destruct H as [Hin [H1 H2]]. split; [exact H1|]. left.
        split; [exact Hin|]. split; [reflexivity|]. split; [exact H1|exact H2].
      + split; [exact HI|]. right. split; [exact H|]. split; reflexivity.
    - (* pop *) pose proof (pop_spec s HI) as H. destruct (pop A s) as [[m s']|]; cbn [fst snd].
      + destruct H as [Hin [Hmax [H1 H2]]]. split; [exact H1|]. right. exists m.
        split; [reflexivity|]. split; [exact Hin|]. split; [exact Hmax|]. split; [exact H1|exact H2].
      + split; [exact HI|]. left. split; [exact H|]. split; reflexivity.
    - (* contains *) cbn. split; [exact HI|]. split; [reflexivity|]. eexists. split; [reflexivity|]. apply contains_spec. exact HI.
    - (* update *) destruct (update_spec l s HI) as [H1 H2]. cbn [fst snd].
      split; [exact H1|]. split; [reflexivity|]. split; [exact H1|exact H2].
    - (* clear *) cbn [fst snd]. split; [constructor|]. split; reflexivity.
    - (* union *) cbn. split; [exact HI|]. split; [reflexivity|]. eexists. split; [reflexivity|]. apply union_spec. exact HI.
    - cbn. split; [exact HI|]. split; [reflexivity|]. eexists. split; [reflexivity|]. apply intersection_spec. exact HI.
    - cbn. split; [exact HI|]. split; [reflexivity|]. eexists. split; [reflexivity|]. apply difference_spec. exact HI.
    - cbn. split; [exact HI|]. split; [reflexivity|]. eexists. split; [reflexivity|]. apply symdiff_spec. exact HI.
    - (* |= *) destruct (union_spec [o] s HI) as [H1 H2]. cbn [fst snd]. split; [exact H1|]. split; [reflexivity|].
      split; [exact H1|]. intro y. rewrite H2. unfold osets. split.
      + intros [H|[o' [[<-|[]] H]]]; [left|right]; exact H.
      + intros [H|H]; [left; exact H|right; exists o; split; [left; reflexivity|exact H]].
    - (* &= *) destruct (intersect_spec s (operand_mem o)) as [H1 H2]. cbn [fst snd]. split; [exact H1|].
      split; [reflexivity|]. split; [exact H1|]. intro y. rewrite H2, operand_mem_spec. reflexivity.
    - (* -= *) destruct (diff_spec s (operand_mem o)) as [H1 H2]. cbn [fst snd]. split; [exact H1|].
      split; [reflexivity|]. split; [exact H1|]. intro y. rewrite H2, operand_mem_false. reflexivity.
    - (* ^= *) destruct (symdiff_spec s l HI) as [H1 H2]. cbn [fst snd]. split; [exact H1|].
      split; [reflexivity|]. split; [exact H1|exact H2].
    - cbn. split; [exact HI|]. split; [reflexivity|]. eexists. split; [reflexivity|]. apply issubset_spec. exact HI.
    - cbn. split; [exact HI|]. split; [reflexivity|]. eexists. split; [reflexivity|]. apply issuperset_spec; assumption.
    - cbn. split; [exact HI|]. split; [reflexivity|]. eexists. split; [reflexivity|]. apply isdisjoint_spec.
    - cbn. split; [exact HI|]. split; [reflexivity|]. eexists. split; [reflexivity|]. apply set_eq_spec; assumption.
    - cbn. split; [exact HI|]. split; [reflexivity|]. eexists. split; [reflexivity|]. apply set_ne_spec; assumption.
    - cbn. split; [exact HI|]. split; [reflexivity|]. eexists. split; [reflexivity|]. apply set_lt_spec; assumption.
    - cbn. split; [exact HI|]. split; [reflexivity|]. eexists. split; [reflexivity|]. apply set_gt_spec; assumption.
    - (* getitem *) destruct (norm_index (length s) i) as [j|] eqn:E.
      + pose proof (norm_index_lt _ _ _ E) as L. destruct (nth_error s j) as [v|] eqn:Hn.
        * cbn. split; [exact HI|]. split; [reflexivity|]. exists v. split; reflexivity.
        * apply nth_error_None in Hn. lia.
      + cbn. split; [exact HI|]. split; reflexivity.
    - (* delitem *) destruct (norm_index (length s) i) as [j|] eqn:E.
      + pose proof (norm_index_lt _ _ _ E) as L. cbn [fst snd].
        destruct (nth_error s j) as [v|] eqn:Hn; [|apply nth_error_None in Hn; lia].
        pose proof Hn as Hn'. apply List.nth_error_split in Hn'. destruct Hn' as [l1 [l2 [-> Hl]]]. subst j.
        rewrite remove_at_split. destruct (remove_mid_spec l1 v l2 HI) as [H1 H2].
        split; [exact H1|]. split; [reflexivity|]. exists v. split; [reflexivity|split; [exact H1|exact H2]].
      + cbn. split; [exact HI|]. split; reflexivity.
    - cbn. split; [exact HI|]. split; reflexivity.
    - cbn. split; [exact HI|]. split; reflexivity.
  Qed.

  Lemma run_ok_all : forall ops s, Inv s -> Forall (op_ok A) ops -> run_ok A ltb eqb s ops.
  Proof.
    induction ops as [|o ops IH]; intros s HI Hok; cbn; [exact I|].
    inversion Hok; subst. destruct (step_spec s o HI H1) as [H3 H4].
    split; [exact H3|]. split; [exact H4|]. apply IH; assumption.
  Qed.

  Lemma final_inv : forall ops s, Inv s -> Forall (op_ok A) ops -> Inv (final A ltb eqb s ops).
  Proof.
    induction ops as [|o ops IH]; intros s HI Hok; cbn; [exact HI|].
    inversion Hok; subst. apply IH; [|assumption]. apply (step_spec s o HI H1).
  Qed.

  Lemma copy_of_id : forall how s, copy_of A ltb eqb how s = s.
  Proof. intros [] s; reflexivity. Qed.

  Lemma step2_spec : forall st o, Inv (fst st) -> Inv (snd st) -> op2_ok A o ->
    Inv (fst (fst (step2 A ltb eqb st o))) /\ Inv (snd (fst (step2 A ltb eqb st o))) /\
    spec2 A ltb st o (fst (step2 A ltb eqb st o)) (snd (step2 A ltb eqb st o)).
  Proof.
    intros [s c] o Hs Hc Hok. cbn [fst snd] in *. destruct o as [o|how|o]; cbn [step2 spec2 op2_ok fst snd] in *.
    - destruct (step_spec s o Hs Hok) as [H1 H2]. destruct (step A ltb eqb s o) as [s' r]. cbn [fst snd] in *.
      split; [exact H1|]. split; [exact Hc|]. split; [exact H2|reflexivity].
    - rewrite copy_of_id. cbn [fst snd]. split; [exact Hs|]. split; [exact Hs|]. split; reflexivity.
    - destruct (step_spec c o Hc Hok) as [H1 H2]. destruct (step A ltb eqb c o) as [c' r]. cbn [fst snd] in *.
      split; [exact Hs|]. split; [exact H1|]. split; [exact H2|reflexivity].
  Qed.

  Lemma run2_ok_all : forall ops st, Inv (fst st) -> Inv (snd st) -> Forall (op2_ok A) ops -> run2_ok A ltb eqb st ops.
  Proof.
    induction ops as [|o ops IH]; intros st Hs Hc Hok; cbn [run2_ok]; [exact I|].
    inversion Hok; subst. destruct (step2_spec st o Hs Hc H1) as [A1 [A2 A3]].
    split; [exact A1|]. split; [exact A2|]. split; [exact A3|]. apply IH; assumption.
  Qed.

  Lemma iteration_ascending : forall s, Inv s -> forall i j u v, i < j ->
    nth_error s i = Some u -> nth_error s j = Some v -> ltb u v = true.
  Proof. intros s HI i j u v H1 H2 H3. eapply sorted_nth; eauto. Qed.
End SetProofs.
