(* Lemmas for C37 about Model/Clauses.v *)
From Coq Require Import ZArith List Bool Lia Permutation.
From Verif Require Import Clauses.
Import ListNotations.
Local Open Scope Z_scope.

(* ------------------------------------------------------------------ zseq *)
Lemma zseq_length : forall n i, length (zseq i n) = n.
Proof. induction n; intros; simpl; auto. Qed.

Lemma zseq_In : forall n i x, In x (zseq i n) <-> i <= x < i + Z.of_nat n.
Proof.
  induction n; intros i x; simpl.
  - split; [tauto | lia].
  - rewrite IHn. lia.
Qed.

Lemma zseq_NoDup : forall n i, NoDup (zseq i n).
Proof.
  induction n; intros; simpl; constructor; auto.
  rewrite zseq_In. lia.
Qed.

Lemma zseq_app : forall a b i, zseq i (a + b) = zseq i a ++ zseq (i + Z.of_nat a) b.
Proof.
  induction a; intros b i; simpl.
  - f_equal. lia.
  - f_equal. rewrite IHa. f_equal. f_equal. lia.
Qed.

Lemma zseq_shift : forall n i j, i = j -> zseq i n = zseq j n.
Proof. intros; subst; auto. Qed.

(* ------------------------------------------------------------------ per-clause: size = rendered placeholders = context keys *)
Definition cn (c : clause) : nat := Z.to_nat (clause_size c).

(* clauses as cqlengine builds them: Token() with as many columns as values (filter() checks it), never under IN *)
Definition wfc (c : clause) : bool :=
  match c with
  | CWhere _ _ op (QToken vals n) => (n =? length vals)%nat && negb (wop_code op =? 2)
  | _ => true
  end.

Lemma b2z_nonneg : forall b, 0 <= b2z b.
Proof. destruct b; simpl; lia. Qed.

Lemma clause_size_nonneg : forall c, 0 <= clause_size c.
Proof.
  destruct c; simpl; try lia.
  - destruct q; simpl; lia.
  - destruct (set_analyze v op prev) as [[asg add] rem].
    destruct (negb (is_some prev) && negb (truthy asg) && negb (is_some add) && negb (is_some rem)); try lia.
    pose proof (b2z_nonneg (truthy asg)); pose proof (b2z_nonneg (truthy add)); pose proof (b2z_nonneg (truthy rem)); lia.
  - destruct (list_analyze v op prev) as [[asg pre] app].
    pose proof (b2z_nonneg (is_some asg)); pose proof (b2z_nonneg (truthy app)); pose proof (b2z_nonneg (truthy pre)); lia.
  - destruct (map_is_assignment v op prev); try lia.
    destruct (map_analyze v op prev) as [upd rem].
    pose proof (b2z_nonneg (truthy rem)). lia.
Qed.

Lemma set_shape : forall v op prev asg add rem,
  set_analyze v op prev = (asg, add, rem) -> is_some asg = true -> prev = None /\ add = None /\ rem = None.
Proof.
  intros v op prev asg add rem H Hs. unfold set_analyze in H.
  destruct v as [vl|]; [|inversion H; subst; discriminate].
  destruct (opt_zlist_eqb (Some vl) prev); [inversion H; subst; discriminate|].
  destruct op as [[|]|]; try (inversion H; subst; discriminate).
  destruct prev; inversion H; subst; try discriminate. auto.
Qed.

Lemma map_shape : forall v op prev upd rem,
  map_analyze v op prev = (upd, rem) -> rem = None \/ upd = None.
Proof.
  intros v op prev upd rem H. unfold map_analyze in H.
  destruct op as [[|]|]; [inversion H; auto | inversion H; auto |].
  destruct prev; inversion H; auto.
Qed.

Lemma render_mapputs_fps : forall n f i, flat_map fps (render_mapputs f i n) = zseq i (2 * n).
Proof.
  induction n; intros f i; simpl; auto.
  rewrite IHn. replace (n + S (n + 0))%nat with (S (2 * n))%nat by lia. simpl.
  f_equal. f_equal. apply zseq_shift. lia.
Qed.

Lemma ctx_mapputs_keys : forall keys i m, map fst (ctx_mapputs i keys m) = zseq i (2 * length keys).
Proof.
  induction keys; intros i m; simpl; auto.
  rewrite IHkeys. replace (length keys + S (length keys + 0))%nat with (S (2 * length keys))%nat by lia. simpl.
  f_equal. f_equal. apply zseq_shift. lia.
Qed.

Lemma zip_ids_keys : forall l i, map fst (zip_ids i l) = zseq i (length l).
Proof. induction l; intros; simpl; auto. rewrite IHl. auto. Qed.

Lemma flat_map_single : forall f l, flat_map fps (map (fun p => mk KDelKey f [p]) l) = l.
Proof. induction l; simpl; auto. rewrite IHl. auto. Qed.

Ltac opt_cases o := destruct o as [[|? ?]|].

Lemma clause_render_ids : forall c i, wfc c = true -> flat_map fps (clause_render i c) = zseq i (cn c).
Proof.
  intros c i Hwf. unfold cn. destruct c; simpl.
  - destruct q; simpl; auto.
    rewrite app_nil_r. rewrite Nat2Z.id. auto.
  - auto.
  - auto.
  - auto.
  - destruct (set_analyze v op prev) as [[asg add] rem] eqn:E.
    destruct asg as [a|].
    + destruct (set_shape _ _ _ _ _ _ E eq_refl) as (-> & -> & ->). destruct a; reflexivity.
    + destruct prev; opt_cases add; opt_cases rem; reflexivity.
  - destruct (list_analyze v op prev) as [[asg pre] app] eqn:E.
    destruct asg; opt_cases pre; opt_cases app; reflexivity.
  - unfold map_is_assignment. destruct (map_analyze v op prev) as [upd rem] eqn:E.
    destruct (map_shape _ _ _ _ _ E) as [-> | ->].
    + destruct (negb (is_some prev) && negb (truthy upd) && negb (truthy None)); [reflexivity|].
      cbn [truthy b2z]. rewrite render_mapputs_fps. f_equal. lia.
    + destruct (negb (is_some prev) && negb (truthy None) && negb (truthy rem)); [reflexivity|].
      opt_cases rem; reflexivity.
  - auto.
  - auto.
  - rewrite flat_map_single. rewrite Nat2Z.id. auto.
Qed.

Lemma clause_ctx_keys : forall c i, wfc c = true -> map fst (clause_ctx i c) = zseq i (cn c).
Proof.
  intros c i Hwf. unfold cn. destruct c; simpl.
  - destruct q; simpl.
    + destruct op; reflexivity.
    + destruct op; reflexivity.
    + simpl in Hwf. apply andb_prop in Hwf. destruct Hwf as [Hn Hop].
      apply Nat.eqb_eq in Hn. subst ncols. rewrite Nat2Z.id.
      destruct op; simpl in Hop; try discriminate; rewrite firstn_all; apply zip_ids_keys.
  - auto.
  - auto.
  - auto.
  - destruct (set_analyze v op prev) as [[asg add] rem] eqn:E.
    destruct asg as [a|].
    + destruct (set_shape _ _ _ _ _ _ E eq_refl) as (-> & -> & ->). destruct a; reflexivity.
    + destruct prev; opt_cases add; opt_cases rem; reflexivity.
  - destruct (list_analyze v op prev) as [[asg pre] app] eqn:E.
    destruct asg; opt_cases pre; opt_cases app; reflexivity.
  - unfold map_is_assignment. destruct (map_analyze v op prev) as [upd rem] eqn:E.
    destruct (map_shape _ _ _ _ _ E) as [-> | ->].
    + destruct (negb (is_some prev) && negb (truthy upd) && negb (truthy None)); [reflexivity|].
      cbn [truthy b2z otruthy]. rewrite ctx_mapputs_keys. f_equal. lia.
    + destruct (negb (is_some prev) && negb (truthy None) && negb (truthy rem)); [reflexivity|].
      opt_cases rem; reflexivity.
  - auto.
  - auto.
  - rewrite zip_ids_keys. rewrite Nat2Z.id. auto.
Qed.

(* every fragment a clause renders names the clause's own field *)
Lemma render_opts_field : forall parts f i fr, In fr (render_opts f i parts) -> ff fr = f.
Proof.
  induction parts as [|[k b] parts IH]; intros f i fr H; simpl in H; [tauto|].
  destruct b; [destruct H as [<-|H]; auto|]; eauto.
Qed.

Lemma render_mapputs_field : forall n f i fr, In fr (render_mapputs f i n) -> ff fr = f.
Proof. induction n; intros f i fr H; simpl in H; [tauto|]. destruct H as [<-|H]; eauto. Qed.

Lemma clause_render_field : forall c i fr, In fr (clause_render i c) -> ff fr = clause_field c.
Proof.
  intros c i fr H. destruct c; cbn [clause_render clause_field] in *.
  - destruct q; simpl in H; destruct H as [<-|[]]; auto.
  - destruct H as [<-|[]]; auto.
  - destruct H as [<-|[]]; auto.
  - destruct H as [<-|[]]; auto.
  - destruct (set_analyze v op prev) as [[asg add] rem]. apply in_app_or in H. destruct H as [H|H].
    + destruct (negb (is_some prev) && negb (is_some asg) && negb (is_some add) && negb (is_some rem)); [destruct H as [<-|[]]; auto | destruct H].
    + eapply render_opts_field; eauto.
  - destruct (list_analyze v op prev) as [[asg pre] app]. eapply render_opts_field; eauto.
  - destruct (map_analyze v op prev) as [upd rem].
    destruct (map_is_assignment v op prev); [destruct H as [<-|[]]; auto|].
    destruct (truthy rem); [destruct H as [<-|[]]; auto|]. eapply render_mapputs_field; eauto.
  - destruct H as [<-|[]]; auto.
  - destruct H as [<-|[]]; auto.
  - apply in_map_iff in H. destruct H as (p & <- & _). auto.
Qed.

(* ------------------------------------------------------------------ python dict built from writes with distinct keys *)
Lemma dict_set_fresh : forall d k v, ~ In k (map fst d) -> dict_set k v d = d ++ [(k, v)].
Proof.
  induction d as [|[k' v'] d IH]; intros k v H; simpl; auto.
  simpl in H. destruct (k =? k') eqn:E; [apply Z.eqb_eq in E; subst; tauto|].
  f_equal. apply IH. tauto.
Qed.

Lemma dict_of_nodup : forall w d, NoDup (map fst (d ++ w)) -> dict_of w d = d ++ w.
Proof.
  unfold dict_of. induction w as [|[k v] w IH]; intros d H; simpl.
  - rewrite app_nil_r. auto.
  - rewrite dict_set_fresh.
    + rewrite IH; rewrite <- app_assoc; auto.
    + rewrite map_app in H. simpl in H. apply NoDup_remove_2 in H. intro Hin. apply H. apply in_or_app. auto.
Qed.

Lemma dict_get_in : forall d k v, NoDup (map fst d) -> In (k, v) d -> dict_get k d = Some v.
Proof.
  induction d as [|[k' v'] d IH]; intros k v Hnd Hin; simpl in *; [tauto|].
  inversion Hnd; subst. destruct Hin as [E|Hin].
  - inversion E; subst. rewrite Z.eqb_refl. auto.
  - destruct (k =? k') eqn:E; [|auto]. apply Z.eqb_eq in E; subst.
    exfalso. apply H1. apply in_map_iff. exists (k', v). auto.
Qed.

(* ------------------------------------------------------------------ statements *)
Definition allc (s : stmt) : list (Z * clause) := s_where s ++ s_assign s ++ s_field s ++ s_cond s.
Definition ivl (ic : Z * clause) : list Z := zseq (fst ic) (cn (snd ic)).
Definition occ (l : list (Z * clause)) : list Z := flat_map ivl l.
Fixpoint tot (l : list (Z * clause)) : nat := match l with [] => O | ic :: r => (cn (snd ic) + tot r)%nat end.

Lemma occ_app : forall a b, occ (a ++ b) = occ a ++ occ b.
Proof. intros; unfold occ; apply flat_map_app. Qed.
Lemma tot_app : forall a b, tot (a ++ b) = (tot a + tot b)%nat.
Proof. induction a; intros; simpl; auto. rewrite IHa. lia. Qed.
Lemma occ_length : forall l, length (occ l) = tot l.
Proof. induction l; simpl; auto. rewrite app_length, IHl. unfold ivl. rewrite zseq_length. auto. Qed.

Definition is_where (c : clause) := match c with CWhere _ _ _ _ | CIsNotNull _ => true | _ => false end.
Definition is_condc (c : clause) := match c with CWhere _ _ _ _ | CCond _ _ => true | _ => false end.
Definition is_plain_assign (c : clause) := match c with CAssign _ _ => true | _ => false end.
Definition is_assignc (c : clause) :=
  match c with CAssign _ _ | CSetUpd _ _ _ _ | CListUpd _ _ _ _ | CMapUpd _ _ _ _ | CCounter _ _ _ => true | _ => false end.
Definition is_delc (c : clause) := match c with CDelField _ | CMapDel _ _ _ => true | _ => false end.

(* where cqlengine itself places which clause class *)
Definition wf_add (k : skind) (p : part) (c : clause) : bool :=
  wfc c && match k, p with
           | Select, PWhere | Update, PWhere | Delete, PWhere => is_where c
           | Insert, PAssign => is_plain_assign c
           | Update, PAssign => is_assignc c
           | Update, PCond | Delete, PCond => is_condc c
           | Delete, PField => is_delc c
           | _, _ => false
           end.
Definition wf_op (k : skind) (o : sop) : bool := match o with Add p c => wf_add k p c | Renum _ => true end.

Definition cok (k : skind) (c : clause) : Prop := wfc c = true /\ (k = Insert -> is_plain_assign c = true).

Record Inv (s : stmt) : Prop := {
  inv_parts : forall p, ~ In p (render_parts (sk s)) -> get_part p s = [];
  inv_wf : Forall (fun ic => cok (sk s) (snd ic)) (allc s);
  inv_nodup : NoDup (occ (allc s));
  inv_lt : Forall (fun x => x < ctr s) (occ (allc s)) }.

Lemma wf_add_cok : forall k p c, wf_add k p c = true -> cok k c /\ In p (render_parts k).
Proof.
  intros k p c H. unfold wf_add in H. apply andb_prop in H. destruct H as [H1 H2].
  destruct k, p; try discriminate; simpl; (split; [split; [auto | intros E; try discriminate E; auto] | auto 6]).
Qed.

Lemma sk_add : forall p c s, sk (add_clause p c s) = sk s.
Proof. destruct p; reflexivity. Qed.
Lemma ctr_add : forall p c s, ctr (add_clause p c s) = ctr s + clause_size c.
Proof. destruct p; reflexivity. Qed.
Lemma get_part_add : forall p p' c s,
  get_part p' (add_clause p c s) = if Z.eqb (part_code p) (part_code p') then get_part p' s ++ [(ctr s, c)] else get_part p' s.
Proof. destruct p, p'; reflexivity. Qed.

Lemma perm_mid : forall (a x b : list Z), Permutation (a ++ x ++ b) ((a ++ b) ++ x).
Proof. intros. rewrite <- app_assoc. apply Permutation_app_head. apply Permutation_app_comm. Qed.

Lemma pm3 : forall (c x : list Z), Permutation (x ++ c) (c ++ x).
Proof. intros; apply Permutation_app_comm. Qed.
Lemma pm2 : forall (b c x : list Z), Permutation (x ++ b ++ c) (b ++ c ++ x).
Proof. intros. replace (b ++ c ++ x) with ((b ++ c) ++ x) by (repeat rewrite <- app_assoc; auto). apply Permutation_app_comm. Qed.
Lemma pm1 : forall (a b c x : list Z), Permutation (x ++ a ++ b ++ c) (a ++ b ++ c ++ x).
Proof. intros. replace (a ++ b ++ c ++ x) with ((a ++ b ++ c) ++ x) by (repeat rewrite <- app_assoc; auto). apply Permutation_app_comm. Qed.

Lemma occ_add : forall p c s, Permutation (occ (allc (add_clause p c s))) (occ (allc s) ++ zseq (ctr s) (cn c)).
Proof.
  intros p c s. unfold allc. destruct p; simpl; repeat rewrite occ_app; simpl; rewrite app_nil_r; unfold ivl at 1; simpl;
    repeat rewrite <- app_assoc.
  - apply Permutation_app_head. apply pm1.
  - do 2 apply Permutation_app_head. apply pm2.
  - apply Permutation_refl.
  - do 3 apply Permutation_app_head. apply pm3.
Qed.

Lemma allc_add_in : forall p c s ic, In ic (allc (add_clause p c s)) -> In ic (allc s) \/ ic = (ctr s, c).
Proof.
  intros p c s ic H. unfold allc in *. destruct p; simpl in H; repeat (rewrite in_app_iff in H); repeat rewrite in_app_iff; simpl in H; intuition.
Qed.

Lemma NoDup_app_intro : forall (a b : list Z), NoDup a -> NoDup b -> (forall x, In x a -> In x b -> False) -> NoDup (a ++ b).
Proof.
  induction a as [|x a IH]; intros b Ha Hb Hd; simpl; auto.
  inversion Ha; subst. constructor.
  - rewrite in_app_iff. intros [H|H]; [tauto|]. apply (Hd x); simpl; auto.
  - apply IH; auto. intros y Hy Hy'. apply (Hd y); simpl; auto.
Qed.

Lemma Inv_empty : forall k, Inv (empty_stmt k).
Proof.
  intros k. constructor; simpl.
  - destruct p; auto.
  - constructor.
  - constructor.
  - constructor.
Qed.

Lemma Inv_add : forall p c s, Inv s -> wf_add (sk s) p c = true -> Inv (add_clause p c s).
Proof.
  intros p c s [Hp Hw Hn Hl] Hwf. apply wf_add_cok in Hwf. destruct Hwf as [Hc Hin].
  constructor.
  - rewrite sk_add. intros p' Hp'. rewrite get_part_add.
    destruct (part_code p =? part_code p') eqn:E; [|auto].
    exfalso. apply Hp'. destruct p, p'; try discriminate; auto.
  - rewrite sk_add. apply Forall_forall. intros ic Hic. apply allc_add_in in Hic. destruct Hic as [Hic| ->]; auto.
    rewrite Forall_forall in Hw. auto.
  - eapply Permutation_NoDup; [apply Permutation_sym, occ_add|].
    apply NoDup_app_intro; auto using zseq_NoDup.
    intros x Hx Hx'. rewrite Forall_forall in Hl. apply Hl in Hx. apply zseq_In in Hx'. lia.
  - rewrite ctr_add. eapply Permutation_Forall; [apply Permutation_sym, occ_add|].
    apply Forall_app. split.
    + eapply Forall_impl; [|exact Hl]. simpl. intros. pose proof (clause_size_nonneg c). lia.
    + apply Forall_forall. intros x Hx. apply zseq_In in Hx. unfold cn in Hx. pose proof (clause_size_nonneg c). lia.
Qed.

(* ------------------------------------------------------------------ update_context_id *)
Lemma cn_z : forall c, Z.of_nat (cn c) = clause_size c.
Proof. intros. unfold cn. apply Z2Nat.id. apply clause_size_nonneg. Qed.

Lemma renumber_spec : forall l i,
  map snd (fst (renumber i l)) = map snd l /\ occ (fst (renumber i l)) = zseq i (tot l) /\ snd (renumber i l) = i + Z.of_nat (tot l).
Proof.
  induction l as [|[j c] l IH]; intros i; simpl.
  - repeat split; auto. lia.
  - specialize (IH (i + clause_size c)). destruct (renumber (i + clause_size c) l) as [l' j'] eqn:E. simpl in *.
    destruct IH as (H1 & H2 & H3). repeat split.
    + f_equal; auto.
    + unfold ivl; simpl. rewrite H2. rewrite zseq_app. rewrite cn_z. auto.
    + rewrite H3. rewrite Nat2Z.inj_add. rewrite cn_z. lia.
Qed.

Ltac rn :=
  match goal with
  | |- context [renumber ?i ?l] =>
    let l' := fresh "l'" in let j := fresh "j" in let E := fresh "E" in let H := fresh "H" in
    pose proof (renumber_spec l i) as H; destruct (renumber i l) as [l' j] eqn:E; simpl in H;
    destruct H as (? & ? & ?)
  end.

Lemma uc_sk : forall i s, sk (update_context_id i s) = sk s.
Proof.
  intros i [k c w a cd f]. destruct k; unfold update_context_id; simpl; repeat rn; simpl; auto.
Qed.

Lemma uc_clauses : forall i s p, map snd (get_part p (update_context_id i s)) = map snd (get_part p s).
Proof.
  intros i [k c w a cd f] p. destruct k; unfold update_context_id; simpl; repeat rn; simpl; destruct p; simpl; auto.
Qed.

Lemma nin1 : forall (p q : part), part_code p <> part_code q -> ~ In p [q].
Proof. intros p q H [E|[]]. subst. auto. Qed.

Lemma uc_spec : forall i s, Inv s ->
  occ (allc (update_context_id i s)) = zseq i (tot (allc s)) /\
  ctr (update_context_id i s) = i + Z.of_nat (tot (allc s)).
Proof.
  intros i [k c w a cd f] [Hp _ _ _]. simpl in Hp. unfold allc. destruct k; simpl in Hp.
  - assert (a = []) as -> by (apply (Hp PAssign); intros [E|[]]; discriminate).
    assert (cd = []) as -> by (apply (Hp PCond); intros [E|[]]; discriminate).
    assert (f = []) as -> by (apply (Hp PField); intros [E|[]]; discriminate).
    unfold update_context_id; simpl. rn. simpl. repeat rewrite app_nil_r. split; auto.
  - assert (w = []) as -> by (apply (Hp PWhere); intros [E|[]]; discriminate).
    assert (cd = []) as -> by (apply (Hp PCond); intros [E|[]]; discriminate).
    assert (f = []) as -> by (apply (Hp PField); intros [E|[]]; discriminate).
    unfold update_context_id; simpl. rn. simpl. repeat rewrite app_nil_r. split; auto.
  - assert (f = []) as -> by (apply (Hp PField); intros [E|[E|[E|[]]]]; discriminate).
    unfold update_context_id; simpl. repeat rn. simpl. repeat rewrite occ_app. repeat rewrite tot_app. simpl.
    repeat rewrite zseq_app. subst. split.
    + repeat match goal with H : occ _ = _ |- _ => rewrite H; clear H end. repeat f_equal; lia.
    + repeat rewrite Nat2Z.inj_add. simpl. lia.
  - assert (a = []) as -> by (apply (Hp PAssign); intros [E|[E|[E|[]]]]; discriminate).
    unfold update_context_id; simpl. repeat rn. simpl. repeat rewrite occ_app. repeat rewrite tot_app. simpl.
    repeat rewrite zseq_app. subst. split.
    + repeat match goal with H : occ _ = _ |- _ => rewrite H; clear H end. repeat f_equal; lia.
    + repeat rewrite Nat2Z.inj_add. simpl. lia.
Qed.

Lemma Forall_snd : forall (P : clause -> Prop) (l : list (Z * clause)),
  Forall (fun ic => P (snd ic)) l <-> Forall P (map snd l).
Proof. intros. rewrite Forall_map. tauto. Qed.

Lemma allc_clauses : forall i s, map snd (allc (update_context_id i s)) = map snd (allc s).
Proof.
  intros. unfold allc. repeat rewrite map_app.
  pose proof (uc_clauses i s PWhere) as H1. pose proof (uc_clauses i s PAssign) as H2.
  pose proof (uc_clauses i s PField) as H3. pose proof (uc_clauses i s PCond) as H4. simpl in *.
  rewrite H1, H2, H3, H4. auto.
Qed.

Lemma Inv_renum : forall i s, Inv s -> Inv (update_context_id i s).
Proof.
  intros i s HI. destruct (uc_spec i s HI) as [Ho Hc]. destruct HI as [Hp Hw Hn Hl].
  constructor.
  - rewrite uc_sk. intros p Hp'. pose proof (uc_clauses i s p) as E. rewrite (Hp p Hp') in E. simpl in E.
    destruct (get_part p (update_context_id i s)); auto; discriminate.
  - rewrite uc_sk. apply Forall_snd. rewrite allc_clauses. apply Forall_snd. auto.
  - rewrite Ho. apply zseq_NoDup.
  - rewrite Ho, Hc. apply Forall_forall. intros x Hx. apply zseq_In in Hx. lia.
Qed.

Lemma Inv_step : forall s o, Inv s -> wf_op (sk s) o = true -> Inv (sstep s o).
Proof. intros s [p c|i] HI Hw; simpl in *; [apply Inv_add | apply Inv_renum]; auto. Qed.

Lemma sk_step : forall s o, sk (sstep s o) = sk s.
Proof. intros s [p c|i]; simpl; [apply sk_add | apply uc_sk]. Qed.

Lemma Inv_fold : forall ops s, Inv s -> forallb (wf_op (sk s)) ops = true -> Inv (fold_left sstep ops s) /\ sk (fold_left sstep ops s) = sk s.
Proof.
  induction ops as [|o ops IH]; intros s HI Hw; simpl in *; auto.
  apply andb_prop in Hw. destruct Hw as [H1 H2].
  destruct (IH (sstep s o)) as [A B].
  - apply Inv_step; auto.
  - rewrite sk_step. auto.
  - split; auto. rewrite B. apply sk_step.
Qed.

Lemma Inv_build : forall k ops, forallb (wf_op k) ops = true -> Inv (build k ops) /\ sk (build k ops) = k.
Proof. intros. unfold build. apply (Inv_fold ops (empty_stmt k)); auto. apply Inv_empty. Qed.

(* ------------------------------------------------------------------ rendered placeholders and context keys of a statement *)
Lemma clause_render_in_ids : forall k c i, cok k c -> flat_map fps (clause_render_in k i c) = zseq i (cn c).
Proof.
  intros k c i [Hw Hi]. destruct k; simpl; try (apply clause_render_ids; auto).
  specialize (Hi eq_refl). destruct c; try discriminate. reflexivity.
Qed.

Lemma part_render_fps : forall k l, Forall (fun ic => cok k (snd ic)) l -> flat_map fps (part_render k l) = occ l.
Proof.
  induction l as [|[i c] l IH]; intros H; simpl; auto.
  inversion H; subst. unfold part_render in *. simpl. rewrite flat_map_app. rewrite IH; auto.
  f_equal. apply clause_render_in_ids. auto.
Qed.

Lemma part_ctx_keys : forall k l, Forall (fun ic => cok k (snd ic)) l -> map fst (part_ctx l) = occ l.
Proof.
  induction l as [|[i c] l IH]; intros H; simpl; auto.
  inversion H; subst. unfold part_ctx in *. simpl. rewrite map_app. rewrite IH; auto.
  f_equal. apply clause_ctx_keys. destruct H2; auto.
Qed.

Lemma perm_swap : forall (a b c : list Z), Permutation (a ++ b ++ c) (b ++ a ++ c).
Proof. intros. repeat rewrite app_assoc. apply Permutation_app_tail. apply Permutation_app_comm. Qed.

Ltac empties Hp k w a cd f :=
  match k with
  | Select => assert (a = []) as -> by (apply (Hp PAssign); intros [E|[]]; discriminate);
              assert (cd = []) as -> by (apply (Hp PCond); intros [E|[]]; discriminate);
              assert (f = []) as -> by (apply (Hp PField); intros [E|[]]; discriminate)
  | Insert => assert (w = []) as -> by (apply (Hp PWhere); intros [E|[]]; discriminate);
              assert (cd = []) as -> by (apply (Hp PCond); intros [E|[]]; discriminate);
              assert (f = []) as -> by (apply (Hp PField); intros [E|[]]; discriminate)
  | Update => assert (f = []) as -> by (apply (Hp PField); intros [E|[E|[E|[]]]]; discriminate)
  | Delete => assert (a = []) as -> by (apply (Hp PAssign); intros [E|[E|[E|[]]]]; discriminate)
  end.

Lemma ph_render : forall s, Inv s -> Permutation (placeholders (render s)) (occ (allc s)).
Proof.
  intros [k c w a cd f] [Hp Hw _ _]. unfold allc in *. simpl in Hp, Hw.
  repeat rewrite Forall_app in Hw. destruct Hw as (Hw1 & Hw2 & Hw3 & Hw4).
  unfold placeholders, render. destruct k; simpl in Hp.
  - empties Hp Select w a cd f. simpl. repeat rewrite app_nil_r. rewrite part_render_fps by auto. apply Permutation_refl.
  - empties Hp Insert w a cd f. simpl. repeat rewrite app_nil_r. rewrite part_render_fps by auto. apply Permutation_refl.
  - empties Hp Update w a cd f. simpl. repeat rewrite app_nil_r. repeat rewrite part_render_fps by auto. repeat rewrite occ_app. simpl. apply perm_swap.
  - empties Hp Delete w a cd f. simpl. repeat rewrite app_nil_r. repeat rewrite part_render_fps by auto. repeat rewrite occ_app. simpl. apply perm_swap.
Qed.

Lemma keys_writes : forall s, Inv s -> map fst (ctx_writes s) = occ (allc s).
Proof.
  intros [k c w a cd f] [Hp Hw _ _]. unfold allc in *. simpl in Hp, Hw.
  repeat rewrite Forall_app in Hw. destruct Hw as (Hw1 & Hw2 & Hw3 & Hw4).
  unfold ctx_writes. destruct k; simpl in Hp.
  - empties Hp Select w a cd f. simpl. repeat rewrite app_nil_r. eapply part_ctx_keys; eauto.
  - empties Hp Insert w a cd f. simpl. repeat rewrite app_nil_r. eapply part_ctx_keys; eauto.
  - empties Hp Update w a cd f. simpl. repeat rewrite app_nil_r. repeat rewrite map_app. repeat rewrite occ_app. simpl.
    rewrite (part_ctx_keys _ _ Hw1), (part_ctx_keys _ _ Hw2), (part_ctx_keys _ _ Hw4). auto.
  - empties Hp Delete w a cd f. simpl. repeat rewrite app_nil_r. repeat rewrite map_app. repeat rewrite occ_app. simpl.
    rewrite (part_ctx_keys _ _ Hw1), (part_ctx_keys _ _ Hw3), (part_ctx_keys _ _ Hw4). auto.
Qed.

Lemma context_writes : forall s, Inv s -> context s = ctx_writes s.
Proof.
  intros s HI. unfold context. rewrite dict_of_nodup; auto. simpl. rewrite keys_writes; auto. apply HI.
Qed.

Lemma stmt_bijection : forall s, Inv s ->
  Permutation (placeholders (render s)) (map fst (context s)) /\
  NoDup (placeholders (render s)) /\ NoDup (map fst (context s)).
Proof.
  intros s HI. rewrite context_writes, keys_writes by auto. pose proof (ph_render s HI) as P.
  split; [auto|]. split; [|apply HI].
  eapply Permutation_NoDup; [apply Permutation_sym; eauto | apply HI].
Qed.

Lemma get_part_allc : forall p s ic, In ic (get_part p s) -> In ic (allc s).
Proof. intros p s ic H. unfold allc. repeat rewrite in_app_iff. destruct p; simpl in H; auto. Qed.

Lemma render_in_ctx_parts : forall k p, In p (render_parts k) -> In p (ctx_parts k).
Proof. intros k p H. destruct k, p; simpl in *; intuition; try discriminate. Qed.

Lemma stmt_own_value : forall s p i c id v, Inv s ->
  In p (render_parts (sk s)) -> In (i, c) (get_part p s) -> In (id, v) (clause_ctx i c) ->
  dict_get id (context s) = Some v /\ In id (flat_map fps (clause_render_in (sk s) i c)).
Proof.
  intros s p i c id v HI Hp Hic Hv.
  assert (Hc : cok (sk s) c).
  { destruct HI as [_ Hw _ _]. rewrite Forall_forall in Hw. apply (Hw (i, c)). eapply get_part_allc; eauto. }
  split.
  - rewrite context_writes by auto. apply dict_get_in.
    + rewrite keys_writes by auto. apply HI.
    + unfold ctx_writes. apply in_flat_map. exists p. split; [apply render_in_ctx_parts; auto|].
      unfold part_ctx. apply in_flat_map. exists (i, c). auto.
  - rewrite clause_render_in_ids by auto. rewrite <- (clause_ctx_keys c i) by apply Hc.
    apply in_map_iff. exists (id, v). auto.
Qed.

(* ------------------------------------------------------------------ parts: the clause lists are exactly the requested clauses *)
Definition adds_of (p : part) (ops : list sop) : list clause :=
  flat_map (fun o => match o with
                     | Add p' c => if part_code p' =? part_code p then [c] else []
                     | Renum _ => []
                     end) ops.

Lemma parts_fold : forall ops s p,
  map snd (get_part p (fold_left sstep ops s)) = map snd (get_part p s) ++ adds_of p ops.
Proof.
  induction ops as [|o ops IH]; intros s p; simpl.
  - rewrite app_nil_r. auto.
  - rewrite IH. destruct o as [p' c|i]; simpl.
    + rewrite get_part_add. destruct (part_code p' =? part_code p); simpl.
      * rewrite map_app. simpl. rewrite <- app_assoc. auto.
      * auto.
    + rewrite uc_clauses. auto.
Qed.

Lemma parts_build : forall k ops p, map snd (get_part p (build k ops)) = adds_of p ops.
Proof. intros. unfold build. rewrite parts_fold. destruct p; reflexivity. Qed.

Lemma sk_fold : forall ops s, sk (fold_left sstep ops s) = sk s.
Proof. induction ops; intros; simpl; auto. rewrite IHops. apply sk_step. Qed.

Lemma render_lists_parts : forall k ops p, In p (render_parts k) ->
  exists l, In (p, part_render k l) (render (build k ops)) /\ map snd l = adds_of p ops.
Proof.
  intros k ops p Hp. exists (get_part p (build k ops)). split; [|apply parts_build].
  unfold render. assert (E : sk (build k ops) = k) by (unfold build; rewrite sk_fold; auto).
  rewrite E. apply in_map_iff. exists p. auto.
Qed.

Lemma adds_of_same : forall p l, adds_of p (map (Add p) l) = l.
Proof. induction l; simpl; auto. rewrite Z.eqb_refl. simpl. f_equal. auto. Qed.

Lemma adds_of_other : forall p p' l, part_code p' <> part_code p -> adds_of p (map (Add p') l) = [].
Proof. induction l; intros; simpl; auto. destruct (part_code p' =? part_code p) eqn:E; [apply Z.eqb_eq in E; tauto|]. simpl. auto. Qed.

Lemma adds_of_app : forall p a b, adds_of p (a ++ b) = adds_of p a ++ adds_of p b.
Proof. intros. unfold adds_of. apply flat_map_app. Qed.

(* query-set chains *)
Definition filters_of (ops : list qop) : list clause :=
  flat_map (fun o => match o with
                     | QFilter f op v _ => [CWhere f true op v]
                     | QFilterToken f op vals => [CWhere f false op (QToken vals (length vals))]
                     | QFilterRaw c => [c]
                     | _ => []
                     end) ops.
Definition iffs_of (ops : list qop) : list clause :=
  flat_map (fun o => match o with
                     | QIff f op v => [CWhere f true op v]
                     | QIffRaw c => [c]
                     | _ => []
                     end) ops.

Lemma chain_fold : forall ops q,
  q_where (fold_left qstep ops q) = q_where q ++ filters_of ops /\
  q_cond (fold_left qstep ops q) = q_cond q ++ iffs_of ops.
Proof.
  induction ops as [|o ops IH]; intros q; simpl.
  - repeat rewrite app_nil_r. auto.
  - destruct (IH (qstep q o)) as [A B]. rewrite A, B.
    destruct o; simpl; repeat rewrite <- app_assoc; auto.
Qed.

Lemma chain_parts : forall ops, q_where (chain ops) = filters_of ops /\ q_cond (chain ops) = iffs_of ops.
Proof. intros. unfold chain. destruct (chain_fold ops empty_qset). auto. Qed.

Lemma forallb_map_add : forall k p l, forallb (wf_add k p) l = true -> forallb (wf_op k) (map (Add p) l) = true.
Proof. induction l; simpl; auto. intros H. apply andb_prop in H. destruct H as [-> H]. simpl. auto. Qed.

(* ------------------------------------------------------------------ batches *)
Lemma dict_of_app : forall a b d, dict_of (a ++ b) d = dict_of b (dict_of a d).
Proof. intros. unfold dict_of. apply fold_left_app. Qed.

Lemma batch_exec_spec : forall qs c params,
  batch_exec c qs params = (map render (batch_stmts c qs), dict_of (flat_map context (batch_stmts c qs)) params).
Proof.
  induction qs as [|q qs IH]; intros c params; simpl; auto.
  rewrite IH. rewrite dict_of_app. auto.
Qed.

Lemma perm_flat_map : forall (A : Type) (f g : A -> list Z) (l : list A),
  (forall x, In x l -> Permutation (f x) (g x)) -> Permutation (flat_map f l) (flat_map g l).
Proof.
  induction l; intros H; simpl; auto.
  apply Permutation_app; [apply H; simpl; auto | apply IHl; intros; apply H; simpl; auto].
Qed.

Lemma batch_inv : forall qs c, Forall Inv qs ->
  Forall Inv (batch_stmts c qs) /\
  NoDup (flat_map (fun s => placeholders (render s)) (batch_stmts c qs)) /\
  Forall (fun x => c <= x) (flat_map (fun s => placeholders (render s)) (batch_stmts c qs)).
Proof.
  induction qs as [|q qs IH]; intros c HF; simpl.
  - repeat split; constructor.
  - inversion HF as [|? ? Hq Hqs]; subst.
    set (q' := update_context_id c q).
    assert (HI : Inv q') by (apply Inv_renum; auto).
    destruct (uc_spec c q Hq) as [Ho Hc]. fold q' in Ho, Hc.
    assert (Hlen : Z.of_nat (length (context q')) = Z.of_nat (tot (allc q))).
    { rewrite context_writes by auto. rewrite <- (map_length fst). rewrite keys_writes by auto. rewrite Ho. rewrite zseq_length. auto. }
    rewrite Hlen.
    destruct (IH (c + Z.of_nat (tot (allc q))) Hqs) as (A & B & C).
    assert (P : forall x, In x (placeholders (render q')) -> c <= x < c + Z.of_nat (tot (allc q))).
    { intros x Hx. eapply Permutation_in in Hx; [|apply ph_render; auto]. rewrite Ho in Hx. apply zseq_In in Hx. auto. }
    repeat split.
    + constructor; auto.
    + apply NoDup_app_intro; auto.
      * apply stmt_bijection; auto.
      * intros x Hx Hx'. apply P in Hx. rewrite Forall_forall in C. apply C in Hx'. lia.
    + apply Forall_app. split.
      * apply Forall_forall. intros x Hx. apply P in Hx. lia.
      * eapply Forall_impl; [|exact C]. simpl. intros. lia.
Qed.

Lemma flat_map_map_fst : forall (A : Type) (f : A -> list (Z * val)) (l : list A),
  map fst (flat_map f l) = flat_map (fun x => map fst (f x)) l.
Proof. induction l; simpl; auto. rewrite map_app. rewrite IHl. auto. Qed.

Lemma batch_params : forall qs, Forall Inv qs ->
  let ss := batch_stmts 0 qs in
  let ps := snd (batch_exec 0 qs []) in
  fst (batch_exec 0 qs []) = map render ss /\
  Forall Inv ss /\
  NoDup (flat_map placeholders (fst (batch_exec 0 qs []))) /\
  Permutation (flat_map placeholders (fst (batch_exec 0 qs []))) (map fst ps) /\
  (forall s id v, In s ss -> In (id, v) (context s) -> dict_get id ps = Some v).
Proof.
  intros qs HF ss ps. subst ps. rewrite batch_exec_spec. simpl. fold ss.
  destruct (batch_inv qs 0 HF) as (A & B & C). fold ss in A, B, C.
  assert (E : flat_map placeholders (map render ss) = flat_map (fun s => placeholders (render s)) ss).
  { clear. induction ss; simpl; auto. rewrite IHss. auto. }
  assert (K : Permutation (flat_map (fun s => placeholders (render s)) ss) (map fst (flat_map context ss))).
  { rewrite flat_map_map_fst. apply perm_flat_map. intros s Hs. rewrite Forall_forall in A. apply stmt_bijection. auto. }
  assert (N : NoDup (map fst (flat_map context ss))) by (eapply Permutation_NoDup; eauto).
  rewrite dict_of_nodup by (simpl; auto). simpl.
  split; auto. split; auto. split; [rewrite E; auto|]. split; [rewrite E; auto|].
  intros s id v Hs Hv. apply dict_get_in; auto. apply in_flat_map. exists s. auto.
Qed.

(* ------------------------------------------------------------------ statements built by query-set chains *)
Lemma forallb_filter : forall (A : Type) (f g : A -> bool) l, forallb f l = true -> forallb f (filter g l) = true.
Proof. induction l; simpl; auto. intros H. apply andb_prop in H. destruct H as [H1 H2]. destruct (g a); simpl; auto. rewrite H1. auto. Qed.

Definition bij (s : stmt) : Prop :=
  Permutation (placeholders (render s)) (map fst (context s)) /\ NoDup (placeholders (render s)) /\ NoDup (map fst (context s)).

Lemma chain_select_ok : forall ops, forallb (wf_add Select PWhere) (filters_of ops) = true ->
  map snd (s_where (select_stmt (chain ops))) = filters_of ops /\ bij (select_stmt (chain ops)).
Proof.
  intros ops H. unfold select_stmt. destruct (chain_parts ops) as [-> _]. split.
  - change (s_where ?x) with (get_part PWhere x). rewrite parts_build. apply adds_of_same.
  - apply stmt_bijection. apply Inv_build. apply forallb_map_add. auto.
Qed.

Lemma chain_delete_ok : forall ops,
  forallb (wf_add Delete PWhere) (filters_of ops) = true -> forallb (wf_add Delete PCond) (iffs_of ops) = true ->
  map snd (s_where (delete_stmt (chain ops))) = filters_of ops /\
  map snd (s_cond (delete_stmt (chain ops))) = iffs_of ops /\ bij (delete_stmt (chain ops)).
Proof.
  intros ops H1 H2. unfold delete_stmt. destruct (chain_parts ops) as [-> ->]. repeat split.
  - change (s_where ?x) with (get_part PWhere x). rewrite parts_build, adds_of_app, adds_of_same, adds_of_other by discriminate. apply app_nil_r.
  - change (s_cond ?x) with (get_part PCond x). rewrite parts_build, adds_of_app, adds_of_same, adds_of_other by discriminate. auto.
  - apply stmt_bijection. apply Inv_build. rewrite forallb_app. rewrite !forallb_map_add; auto.
  - apply stmt_bijection. apply Inv_build. rewrite forallb_app. rewrite !forallb_map_add; auto.
  - apply stmt_bijection. apply Inv_build. rewrite forallb_app. rewrite !forallb_map_add; auto.
Qed.

Lemma chain_update_ok : forall ops assigns,
  forallb (wf_add Update PWhere) (filters_of ops) = true -> forallb (wf_add Update PCond) (iffs_of ops) = true ->
  forallb (wf_add Update PAssign) assigns = true ->
  map snd (s_where (update_stmt (chain ops) assigns)) = filters_of ops /\
  map snd (s_cond (update_stmt (chain ops) assigns)) = iffs_of ops /\
  map snd (s_assign (update_stmt (chain ops) assigns)) = filter (fun c => negb (clause_size c =? 0)) assigns /\
  bij (update_stmt (chain ops) assigns).
Proof.
  intros ops assigns H1 H2 H3. unfold update_stmt. destruct (chain_parts ops) as [-> ->].
  assert (B : bij (build Update (map (Add PWhere) (filters_of ops) ++ map (Add PCond) (iffs_of ops) ++
                map (Add PAssign) (filter (fun c => negb (clause_size c =? 0)) assigns)))).
  { apply stmt_bijection. apply Inv_build. rewrite !forallb_app. rewrite !forallb_map_add; auto. apply forallb_filter. auto. }
  split; [|split; [|split; [|exact B]]].
  - change (s_where ?x) with (get_part PWhere x). rewrite parts_build, !adds_of_app, adds_of_same, !adds_of_other by discriminate. apply app_nil_r.
  - change (s_cond ?x) with (get_part PCond x). rewrite parts_build, !adds_of_app, adds_of_same, !adds_of_other by discriminate. apply app_nil_r.
  - change (s_assign ?x) with (get_part PAssign x). rewrite parts_build, !adds_of_app, adds_of_same, !adds_of_other by discriminate. auto.
Qed.

(* ------------------------------------------------------------------ instance-level conditional update *)
Lemma zmem_In_c : forall x l, zmem x l = true <-> In x l.
Proof.
  induction l; simpl; [split; [discriminate | tauto]|].
  rewrite orb_true_iff, IHl, Z.eqb_eq. split; intros [H|H]; auto.
Qed.

Lemma inst_update_ok : forall keys conds assigns nulled,
  forallb (wf_add Update PWhere) keys = true -> forallb (wf_add Delete PWhere) keys = true ->
  forallb (wf_add Update PCond) conds = true -> forallb (wf_add Delete PCond) conds = true ->
  forallb (wf_add Update PAssign) assigns = true ->
  let asg := filter (fun c => negb (clause_size c =? 0)) assigns in
  let u := fst (inst_update_stmts keys conds assigns nulled) in
  let d := snd (inst_update_stmts keys conds assigns nulled) in
  map snd (s_cond u) = conds /\ map snd (s_assign u) = asg /\ map snd (s_where u) = keys /\
  map snd (s_cond d) = delete_conds conds (map clause_field asg) /\ map snd (s_field d) = map CDelField nulled /\
  map snd (s_where d) = keys /\
  (forall c, In c (map snd (s_cond d)) <-> In c conds /\ ~ In (clause_field c) (map clause_field asg)) /\
  bij u /\ bij d.
Proof.
  intros keys conds assigns nulled K1 K2 C1 C2 A asg u d. subst u d. unfold inst_update_stmts. fold asg. cbn [fst snd].
  assert (Hd : forallb (wf_add Delete PField) (map CDelField nulled) = true) by (clear; induction nulled; simpl; auto).
  assert (Hc : forallb (wf_add Delete PCond) (delete_conds conds (map clause_field asg)) = true) by (apply forallb_filter; auto).
  assert (P4 : map snd (s_cond (build Delete (map (Add PCond) (delete_conds conds (map clause_field asg)) ++
                 map (Add PField) (map CDelField nulled) ++ map (Add PWhere) keys))) = delete_conds conds (map clause_field asg)).
  { change (s_cond ?x) with (get_part PCond x). rewrite parts_build, !adds_of_app, adds_of_same, !adds_of_other by discriminate. apply app_nil_r. }
  split; [|split; [|split; [|split; [exact P4|split; [|split; [|split; [|split]]]]]]].
  - change (s_cond ?x) with (get_part PCond x). rewrite parts_build, !adds_of_app, adds_of_same, !adds_of_other by discriminate. apply app_nil_r.
  - change (s_assign ?x) with (get_part PAssign x). rewrite parts_build, !adds_of_app, adds_of_same, !adds_of_other by discriminate. rewrite app_nil_r. auto.
  - change (s_where ?x) with (get_part PWhere x). rewrite parts_build, !adds_of_app, adds_of_same, !adds_of_other by discriminate. auto.
  - change (s_field ?x) with (get_part PField x). rewrite parts_build, !adds_of_app, adds_of_same, !adds_of_other by discriminate. rewrite app_nil_r. auto.
  - change (s_where ?x) with (get_part PWhere x). rewrite parts_build, !adds_of_app, adds_of_same, !adds_of_other by discriminate. auto.
  - intros c. rewrite P4. unfold delete_conds. rewrite filter_In. rewrite negb_true_iff. split.
    + intros [H1 H2]. split; auto. intro Hin. apply zmem_In_c in Hin. rewrite Hin in H2. discriminate.
    + intros [H1 H2]. split; auto. destruct (zmem (clause_field c) (map clause_field asg)) eqn:E; auto. apply zmem_In_c in E. tauto.
  - apply stmt_bijection. apply Inv_build. rewrite !forallb_app, !forallb_map_add; auto. apply forallb_filter. auto.
  - apply stmt_bijection. apply Inv_build. rewrite !forallb_app, !forallb_map_add; auto.
Qed.
