(* C15 lemmas: with a finite timeout, punctual timers and the per-page timer reset (pf = true), an unfinished page fetch
   is never older than timeout + 30 ms. *)
From Coq Require Import ZArith List Bool Lia.
From Verif Require Import FutureState FutureOnce C14_proofs.
Import ListNotations.
Local Open Scope Z_scope.

(* ---------------------------------------------------------------- lists *)
Lemma nth_upd_nth_ne {A} (f : A -> A) : forall k j l, j <> k -> nth_error (upd_nth k f l) j = nth_error l j.
Proof.
  induction k as [|k IH]; intros j l Hne; destruct l as [|x l]; cbn; try reflexivity.
  - destruct j; [contradiction|reflexivity].
  - destruct j; [reflexivity|]. cbn. apply IH. congruence.
Qed.

Lemma nth_upd_nth_eq {A} (f : A -> A) : forall k l, nth_error (upd_nth k f l) k = option_map f (nth_error l k).
Proof.
  induction k as [|k IH]; intros l; destruct l as [|x l]; cbn; try reflexivity. apply IH.
Qed.

Lemma nth_app_old {A} (l ext : list A) j t : nth_error l j = Some t -> nth_error (l ++ ext) j = Some t.
Proof. intros H. rewrite nth_error_app1; [exact H|]. apply nth_error_Some. congruence. Qed.

Lemma nth_app_inv {A} (l : list A) x j t : nth_error (l ++ [x]) j = Some t -> nth_error l j = Some t \/ (j = length l /\ t = x).
Proof.
  intros H. destruct (Nat.lt_ge_cases j (length l)) as [Hlt|Hge].
  - left. rewrite nth_error_app1 in H; assumption.
  - right. rewrite nth_error_app2 in H by assumption.
    destruct (j - length l)%nat eqn:E; cbn in H; [|destruct n; discriminate].
    inversion H. split; [lia|reflexivity].
Qed.

Lemma nth_app_new {A} (l : list A) x : nth_error (l ++ [x]) (length l) = Some x.
Proof. rewrite nth_error_app2, Nat.sub_diag by lia. reflexivity. Qed.

(* ---------------------------------------------------------------- step relations on the timer part *)
Definition frameT (s s' : state) : Prop :=
  timeout s' = timeout s /\ start s' = start s /\ pstart s' = pstart s /\ now s' = now s.

(* every live timer afterwards is an old live timer (same index, kind, due time) or is not yet overdue *)
Definition PStep (s s' : state) : Prop :=
  forall j t', nth_error (timers s') j = Some t' -> live t' = true ->
    (exists t, nth_error (timers s) j = Some t /\ live t = true /\ due t = due t' /\ tk t = tk t') \/ now s <= due t'.

(* an outcome is never withdrawn; while there is none, no existing timer is touched *)
Definition JStep (s s' : state) : Prop :=
  (final_set s = true -> final_set s' = true) /\
  (final_set s' = false -> forall j t, nth_error (timers s) j = Some t -> nth_error (timers s') j = Some t).

Definition CStep (s s' : state) : Prop := frameT s s' /\ PStep s s' /\ JStep s s'.

Lemma frameT_refl s : frameT s s.
Proof. repeat split. Qed.

Lemma frameT_trans s1 s2 s3 : frameT s1 s2 -> frameT s2 s3 -> frameT s1 s3.
Proof. unfold frameT. intuition congruence. Qed.

Lemma CStep_trans s1 s2 s3 : CStep s1 s2 -> CStep s2 s3 -> CStep s1 s3.
Proof.
  intros (F1 & P1 & (M1 & K1)) (F2 & P2 & (M2 & K2)). split; [eapply frameT_trans; eassumption|]. split.
  - intros j t' Hn Hl. destruct (P2 j t' Hn Hl) as [(t & Ht & Hlt & Hd & Hk)|Hnow].
    + destruct (P1 j t Ht Hlt) as [(t0 & Ht0 & Hl0 & Hd0 & Hk0)|Hnow].
      * left. exists t0. repeat split; congruence.
      * right. rewrite <- Hd. exact Hnow.
    + right. destruct F1 as (_ & _ & _ & Hn1). rewrite <- Hn1. exact Hnow.
  - split; [tauto|]. intros Hf j t Ht. apply K2; [exact Hf|]. apply K1; [|exact Ht].
    destruct (final_set s2) eqn:E; [|reflexivity]. rewrite (M2 eq_refl) in Hf. discriminate.
Qed.

(* a step that leaves timers, clock and outcome alone *)
Lemma CStep_same s s' : frameT s s' -> timers s' = timers s -> fres s' = fres s -> fexc s' = fexc s -> CStep s s'.
Proof.
  intros F Ht Hr He. split; [exact F|]. split.
  - intros j t' Hn Hl. left. exists t'. rewrite <- Ht. repeat split; assumption.
  - unfold JStep, final_set. rewrite Ht, Hr, He. split; [tauto|]. intros _ j t H. exact H.
Qed.

Lemma CStep_refl s : CStep s s.
Proof. apply CStep_same; repeat split. Qed.

Lemma live_cancel t : live (cancel t) = false.
Proof. reflexivity. Qed.

Lemma live_fired t : live (mark_fired t) = false.
Proof. unfold live, mark_fired. cbn. apply andb_false_r. Qed.

(* marking timers dead at one index *)
Lemma PStep_kill (f : timer -> timer) k s s' :
  (forall t, live (f t) = false) -> timers s' = upd_nth k f (timers s) -> PStep s s'.
Proof.
  intros Hf Ht j t' Hn Hl. rewrite Ht in Hn. destruct (Nat.eq_dec j k) as [->|Hne].
  - rewrite nth_upd_nth_eq in Hn. destruct (nth_error (timers s) k); [|discriminate]. inversion Hn. subst t'.
    rewrite Hf in Hl. discriminate.
  - rewrite nth_upd_nth_ne in Hn by exact Hne. left. exists t'. repeat split; assumption.
Qed.

Lemma PStep_cancel s : PStep s (cancel_timer s).
Proof.
  unfold cancel_timer. destruct (cur_timer s) as [k|].
  - eapply PStep_kill; [apply live_cancel|reflexivity].
  - intros j t' Hn Hl. left. exists t'. repeat split; assumption.
Qed.

Lemma frameT_cancel s : frameT s (cancel_timer s).
Proof. unfold cancel_timer. destruct (cur_timer s); repeat split. Qed.

Section G.
Variable g : bool.

Lemma CStep_set_final_result v s : CStep s (set_final_result g v s).
Proof.
  split; [|split].
  - unfold set_final_result. destruct (g && final_set (cancel_timer s)); [apply frameT_cancel|].
    eapply frameT_trans; [apply frameT_cancel|repeat split].
  - unfold set_final_result. destruct (g && final_set (cancel_timer s)); [apply PStep_cancel|].
    intros j t' Hn Hl. exact (PStep_cancel s j t' Hn Hl).
  - split; [intros _; apply final_after_result|]. rewrite final_after_result. discriminate.
Qed.

Lemma CStep_set_final_rows v more s : CStep s (set_final_rows g v more s).
Proof.
  split; [|split].
  - unfold set_final_rows. destruct (g && final_set (cancel_timer s)); [apply frameT_cancel|].
    eapply frameT_trans; [apply frameT_cancel|repeat split].
  - unfold set_final_rows. destruct (g && final_set (cancel_timer s)); [apply PStep_cancel|].
    intros j t' Hn Hl. exact (PStep_cancel s j t' Hn Hl).
  - split; [intros _; apply final_after_rows|]. rewrite final_after_rows. discriminate.
Qed.

Lemma CStep_set_final_exception e s : CStep s (set_final_exception g e s).
Proof.
  split; [|split].
  - unfold set_final_exception. destruct (g && final_set (cancel_timer s)); [apply frameT_cancel|].
    eapply frameT_trans; [apply frameT_cancel|repeat split].
  - unfold set_final_exception. destruct (g && final_set (cancel_timer s)); [apply PStep_cancel|].
    intros j t' Hn Hl. exact (PStep_cancel s j t' Hn Hl).
  - split; [intros _; apply final_after_exception|]. rewrite final_after_exception. discriminate.
Qed.

Lemma CStep_new_timer k d s : now s <= d -> CStep s (new_timer k d s).
Proof.
  intros Hd. split; [repeat split|]. split.
  - intros j t' Hn Hl. cbn in Hn. apply nth_app_inv in Hn. destruct Hn as [Hn|(_ & ->)].
    + left. exists t'. repeat split; assumption.
    + right. exact Hd.
  - split; [tauto|]. intros _ j t H. cbn. apply nth_app_old, H.
Qed.

Lemma CStep_query_gen prep h s : CStep s (fst (query_gen prep h s)).
Proof. unfold query_gen. destruct (pool_of _ _); apply CStep_same; repeat split. Qed.

Lemma CStep_query h s : CStep s (fst (query h s)).
Proof. apply CStep_query_gen. Qed.

Lemma CStep_on_timeout n s : CStep s (on_timeout g n s).
Proof.
  unfold on_timeout. destruct (cur_conn s).
  - destruct (cur_req s); [destruct (req_open_on _ _ _)|];
      (eapply CStep_trans; [|apply CStep_set_final_exception]; apply CStep_same; repeat split).
  - destruct (n <? 3)%nat; [apply CStep_new_timer; lia|].
    eapply CStep_trans; [|apply CStep_set_final_exception]; apply CStep_same; repeat split.
Qed.

Lemma CStep_send_loop err : forall pl s, CStep s (send_loop g err pl s).
Proof.
  induction pl as [|h rest IH]; intros s; cbn [send_loop].
  - destruct err; [|apply CStep_same; repeat split].
    eapply CStep_trans; [|apply CStep_set_final_exception]; apply CStep_same; repeat split.
  - pose proof (CStep_query h s) as Hq. destruct (query h s) as [s1 r]. cbn [fst] in Hq. destruct r.
    + eapply CStep_trans; [exact Hq|]. apply CStep_same; repeat split.
    + destruct (timed_out_now s1).
      * eapply CStep_trans; [exact Hq|]. eapply CStep_trans; [|apply CStep_on_timeout]. apply CStep_same; repeat split.
      * eapply CStep_trans; [exact Hq|apply IH].
Qed.

(* with a known connection send_request never touches self._timer unless it completes the future *)
Lemma send_loop_cur_timer err : forall pl s, cur_conn s <> None ->
  final_set (send_loop g err pl s) = false -> cur_timer (send_loop g err pl s) = cur_timer s.
Proof.
  induction pl as [|h rest IH]; intros s Hc; cbn [send_loop].
  - destruct err; [rewrite final_after_exception; discriminate|reflexivity].
  - pose proof (query_shape h s) as Hq. assert (Hct : cur_timer (fst (query h s)) = cur_timer s).
    { unfold query, query_gen. destruct (pool_of _ _); reflexivity. }
    destruct (query h s) as [s1 r]. cbn [fst] in Hct. destruct Hq as (_ & _ & _ & _ & _ & q6 & _). destruct r.
    + intros _. cbn. exact Hct.
    + destruct (timed_out_now s1).
      * rewrite on_timeout_final; [discriminate|]. cbn. apply q6, Hc.
      * intros Hf. rewrite IH; [exact Hct|apply q6, Hc|exact Hf].
Qed.

End G.

Lemma PStep_trans s1 s2 s3 : now s2 = now s1 -> PStep s1 s2 -> PStep s2 s3 -> PStep s1 s3.
Proof.
  intros Hn P1 P2 j t' Hj Hl. destruct (P2 j t' Hj Hl) as [(t & Ht & Hlt & Hd & Hk)|Hnow].
  - destruct (P1 j t Ht Hlt) as [(t0 & Ht0 & Hl0 & Hd0 & Hk0)|Hnow].
    + left. exists t0. repeat split; congruence.
    + right. rewrite <- Hd. exact Hnow.
  - right. rewrite <- Hn. exact Hnow.
Qed.

Lemma CStep_final_intro s s' : frameT s s' -> PStep s s' -> final_set s' = true -> CStep s s'.
Proof. intros F P Hf. split; [exact F|]. split; [exact P|]. split; [intros _; exact Hf|]. rewrite Hf. discriminate. Qed.

Lemma CStep_start_timer s : (forall T, timeout s = Some T -> now s <= start s + T) -> CStep s (start_timer s).
Proof.
  intros Hrem. unfold start_timer. destruct (cur_timer s); [apply CStep_refl|].
  set (s1 := set_specs (tl (specs s)) s).
  assert (H1 : CStep s s1) by (apply CStep_same; repeat split).
  unfold time_remaining. change (timeout s1) with (timeout s). change (start s1) with (start s). change (now s1) with (now s).
  destruct (timeout s) as [T|] eqn:ET.
  - match goal with |- context [if ?c then _ else _] => destruct c eqn:E end.
    + eapply CStep_trans; [exact H1|]. apply CStep_new_timer. apply andb_prop in E. change (now s1) with (now s). lia.
    + eapply CStep_trans; [exact H1|]. apply CStep_new_timer. specialize (Hrem T eq_refl). change (now s1) with (now s). lia.
  - match goal with |- context [if ?c then _ else _] => destruct c eqn:E end.
    + eapply CStep_trans; [exact H1|]. apply CStep_new_timer. apply andb_prop in E. change (now s1) with (now s). lia.
    + exact H1.
Qed.

(* what _start_timer creates when no timer is held and the timeout is finite *)
Lemma start_timer_creates s T : cur_timer s = None -> timeout s = Some T ->
  exists t, timers (start_timer s) = timers s ++ [t] /\ live t = true /\
            ((tk t = TSpec /\ due t <= start s + T) \/ (tk t = TTimeout 0 /\ due t = start s + T)).
Proof.
  intros Hc HT. unfold start_timer. rewrite Hc.
  set (s1 := set_specs (tl (specs s)) s).
  unfold time_remaining. change (timeout s1) with (timeout s). rewrite HT.
  change (start s1) with (start s). change (now s1) with (now s).
  match goal with |- context [if ?c then _ else _] => destruct c eqn:E end.
  - eexists. split; [reflexivity|]. split; [reflexivity|]. left. split; [reflexivity|]. cbn. apply andb_prop in E. lia.
  - eexists. split; [reflexivity|]. split; [reflexivity|]. right. split; [reflexivity|]. cbn. lia.
Qed.

Section G2.
Variable g : bool.

Lemma CStep_on_spec s : CStep s (on_spec g s).
Proof.
  unfold on_spec. set (s0 := set_cur_timer None s).
  assert (H0 : CStep s s0) by (apply CStep_same; repeat split).
  change (event s0) with (event s). change (attempts s0) with (attempts s).
  destruct (event s); [exact H0|]. destruct (attempts s).
  - eapply CStep_trans; [exact H0|]. apply CStep_new_timer. change (now s0) with (now s). lia.
  - match goal with |- context [if ?c then _ else _] => destruct c eqn:E end.
    + eapply CStep_trans; [exact H0|apply CStep_on_timeout].
    + eapply CStep_trans; [exact H0|].
      pose proof (CStep_send_loop g false (plan s0) s0) as Hs. fold (send_request g false s0) in Hs.
      eapply CStep_trans; [exact Hs|]. apply CStep_start_timer.
      destruct Hs as ((f1 & f2 & f3 & f4) & _). intros T HT. rewrite f1 in HT. rewrite f2, f4.
      unfold time_remaining in E. rewrite HT in E. lia.
Qed.

Lemma CStep_submit_task t s : CStep s (submit_task g t s).
Proof. unfold submit_task. destruct (shut s); [apply CStep_set_final_exception|apply CStep_same; repeat split]. Qed.

Lemma CStep_retry reuse h s : CStep s (retry g reuse h s).
Proof.
  unfold retry. set (s1 := set_retries (retries s + 1) s).
  assert (H1 : CStep s s1) by (apply CStep_same; repeat split).
  destruct (is_some (fexc s1)); [exact H1|]. eapply CStep_trans; [exact H1|apply CStep_submit_task].
Qed.

Lemma CStep_start_refresh s : CStep s (start_refresh g s).
Proof. unfold start_refresh. destruct (shut s); [apply CStep_set_final_result|apply CStep_same; repeat split]. Qed.

Lemma CStep_start_chain s : CStep s (start_chain g s).
Proof. unfold start_chain. destruct (ks_hosts (pools s)); [apply CStep_set_final_result|apply CStep_same; repeat split]. Qed.

Lemma CStep_ks_report c h err s : CStep s (ks_report g c h err s).
Proof.
  unfold ks_report. destruct (nth_error (chains s) c) as [[hs e]|]; [|apply CStep_refl].
  destruct (mem_z h hs); [|apply CStep_refl]. destruct (remove_z h hs); [|apply CStep_same; repeat split].
  destruct (e || err); (eapply CStep_trans; [|first [apply CStep_set_final_exception|apply CStep_set_final_result]]; apply CStep_same; repeat split).
Qed.

Lemma CStep_set_result a h k s : CStep s (set_result g a h k s).
Proof.
  destruct k as [more| |d| | | | |]; [| |destruct d| | | | |]; cbn [set_result].
  - apply CStep_set_final_rows.
  - apply CStep_set_final_result.
  - apply CStep_retry.
  - apply CStep_retry.
  - apply CStep_set_final_exception.
  - apply CStep_set_final_result.
  - apply CStep_set_final_exception.
  - apply CStep_submit_task.
  - apply CStep_start_refresh.
  - apply CStep_start_chain.
  - destruct (CStep_set_final_exception g (10 + Z.of_nat a) (cancel_timer s)) as (F & P & _).
    apply CStep_final_intro.
    + eapply frameT_trans; [apply frameT_cancel|exact F].
    + eapply PStep_trans; [|apply PStep_cancel|exact P]. destruct (frameT_cancel s) as (_ & _ & _ & Hn). exact Hn.
    + apply final_after_exception.
Qed.

Lemma CStep_query_then_send prep h s :
  CStep s (let '(s1, r) := query_gen prep h s in match r with Some _ => s1 | None => send_request g true s1 end).
Proof.
  pose proof (CStep_query_gen prep h s) as Hq. destruct (query_gen prep h s) as [s1 r]. cbn [fst] in Hq.
  destruct r; [exact Hq|]. eapply CStep_trans; [exact Hq|apply CStep_send_loop].
Qed.

Lemma CStep_retry_task reuse h s : CStep s (retry_task g reuse h s).
Proof.
  unfold retry_task. destruct (is_some (fexc s)); [apply CStep_refl|].
  destruct reuse; [|apply CStep_send_loop].
  pose proof (CStep_query h s) as Hq. destruct (query h s) as [s1 r]. cbn [fst] in Hq.
  destruct r; [exact Hq|]. eapply CStep_trans; [exact Hq|apply CStep_send_loop].
Qed.

Lemma CStep_run_task t s : CStep s (run_task g t s).
Proof.
  destruct t as [reuse h|h|h a pk]; cbn [run_task].
  - apply CStep_retry_task.
  - apply (CStep_query_then_send true h s).
  - unfold after_prepare. destruct (is_some (fexc s)); [apply CStep_refl|].
    destruct pk; [apply (CStep_query_then_send false h s)|apply CStep_set_final_exception|apply CStep_set_final_exception
                  |apply CStep_send_loop|apply CStep_set_final_exception].
Qed.

End G2.

(* ---------------------------------------------------------------- the invariant *)
Definition punctual_tick (s : state) (d : Z) : Prop :=
  forall j t, nth_error (timers s) j = Some t -> live t = true -> now s + d <= due t.

Definition punctual_op (s : state) (o : op) : Prop :=
  match o with Tick d => punctual_tick s (Z.max 0 d) | _ => True end.

Fixpoint punctual (g pf : bool) (s : state) (h : list op) : Prop :=
  match h with
  | [] => True
  | o :: r => punctual_op s o /\ punctual g pf (step g pf s o) r
  end.

Section Main.
Variable T : Z.
Hypothesis HT : 0 <= T.

Definition P1 (s : state) : Prop := forall j t, nth_error (timers s) j = Some t -> live t = true -> now s <= due t.

Definition Jw (s : state) : Prop :=
  (exists j t n, nth_error (timers s) j = Some t /\ live t = true /\ tk t = TTimeout n /\ (n <= 3)%nat
                 /\ due t <= pstart s + T + 10 * Z.of_nat n)
  \/ (attempts s <> [] /\ exists j t, nth_error (timers s) j = Some t /\ live t = true /\ tk t = TSpec /\ due t <= pstart s + T).

Definition J (s : state) : Prop := final_set s = false -> Jw s.

Definition CInv (s : state) : Prop :=
  timeout s = Some T /\ start s = pstart s /\ P1 s /\ J s /\ LInv s /\ SInv s.

Lemma P1_PStep s s' : P1 s -> now s' = now s -> PStep s s' -> P1 s'.
Proof.
  intros H Hn P j t' Hj Hl. rewrite Hn. destruct (P j t' Hj Hl) as [(t & Ht & Hlt & Hd & _)|Hnow]; [|exact Hnow].
  rewrite <- Hd. eapply H; eassumption.
Qed.

Lemma Jw_keep s s' : Jw s -> pstart s' = pstart s -> (attempts s <> [] -> attempts s' <> []) ->
  (forall j t, nth_error (timers s) j = Some t -> nth_error (timers s') j = Some t) -> Jw s'.
Proof.
  intros [(j & t & n & h1 & h2 & h3 & h4 & h5)|(ha & j & t & h1 & h2 & h3 & h4)] Hp Ha Hk.
  - left. exists j, t, n. rewrite Hp. repeat split; auto.
  - right. split; [auto|]. exists j, t. rewrite Hp. repeat split; auto.
Qed.

Lemma J_CStep s s' : J s -> CStep s s' -> (attempts s <> [] -> attempts s' <> []) -> J s'.
Proof.
  intros HJ ((_ & _ & Hp & _) & _ & (M & K)) Ha Hf.
  assert (Hf0 : final_set s = false). { destruct (final_set s); [rewrite M in Hf; [discriminate|reflexivity]|reflexivity]. }
  eapply Jw_keep; [apply HJ, Hf0|exact Hp|exact Ha|apply K, Hf].
Qed.

Lemma CInv_CStep s s' : CInv s -> CStep s s' -> LInv s' -> SInv s' -> (attempts s <> [] -> attempts s' <> []) -> CInv s'.
Proof.
  intros (h1 & h2 & h3 & h4 & _ & _) HC HL HS Ha.
  pose proof HC as ((f1 & f2 & f3 & f4) & P & _).
  unfold CInv. rewrite f1, f2, f3. split; [assumption|]. split; [assumption|]. split; [|split; [|split; assumption]].
  - eapply P1_PStep; eassumption.
  - eapply J_CStep; eassumption.
Qed.

Lemma att_set_final_result g v s : attempts (set_final_result g v s) = attempts s.
Proof. destruct (fl_set_final_result g v s) as (h & _). exact h. Qed.
Lemma att_set_final_exception g e s : attempts (set_final_exception g e s) = attempts s.
Proof. destruct (fl_set_final_exception g e s) as (h & _). exact h. Qed.

Lemma att_ks_report g c h err s : attempts (ks_report g c h err s) = attempts s.
Proof.
  unfold ks_report. destruct (nth_error (chains s) c) as [[hs e]|]; [|reflexivity].
  destruct (mem_z h hs); [|reflexivity]. destruct (remove_z h hs); [|reflexivity].
  destruct (e || err); rewrite ?att_set_final_result, ?att_set_final_exception; reflexivity.
Qed.

Lemma att_submit_task g t s : attempts (submit_task g t s) = attempts s.
Proof. unfold submit_task. destruct (shut s); [apply att_set_final_exception|reflexivity]. Qed.

Lemma att_set_result g a h k s : attempts (set_result g a h k s) = attempts s.
Proof.
  destruct k as [more| |d| | | | |]; [| |destruct d| | | | |]; cbn [set_result];
    rewrite ?att_set_final_result, ?att_set_final_exception, ?att_submit_task; try reflexivity.
  - destruct (rows_frame g (10 + Z.of_nat a) more s) as (r1 & _). exact r1.
  - unfold retry. destruct (is_some (fexc _)); [reflexivity|]. rewrite att_submit_task. reflexivity.
  - unfold retry. destruct (is_some (fexc _)); [reflexivity|]. rewrite att_submit_task. reflexivity.
  - unfold start_refresh. destruct (shut s); [apply att_set_final_result|reflexivity].
  - unfold start_chain. destruct (ks_hosts (pools s)); [apply att_set_final_result|reflexivity].
  - destruct (fl_cancel s) as (h1 & _). exact h1.
Qed.

Lemma ne_query_then_send g prep h s : attempts s <> [] ->
  attempts (let '(s1, r) := query_gen prep h s in match r with Some _ => s1 | None => send_request g true s1 end) <> [].
Proof.
  intros Hne. pose proof (query_gen_shape prep h s) as Hq. destruct (query_gen prep h s) as [s1 r].
  destruct Hq as (_ & _ & _ & _ & _ & _ & q7). destruct r.
  - destruct q7 as (q7 & _). rewrite q7. intros E. apply app_eq_nil in E. destruct E; discriminate.
  - destruct (send_loop_A g true (plan s1) s1) as (a1 & _). apply a1. rewrite q7. exact Hne.
Qed.

Lemma ne_run_task g t s : attempts s <> [] -> attempts (run_task g t s) <> [].
Proof.
  intros Hne. destruct t as [reuse h|h|h a pk]; cbn [run_task].
  - unfold retry_task. destruct (is_some (fexc s)); [exact Hne|].
    destruct reuse; [apply (ne_query_then_send g false h s Hne)|destruct (send_loop_A g true (plan s) s) as (a1 & _); apply a1, Hne].
  - apply (ne_query_then_send g true h s Hne).
  - unfold after_prepare. destruct (is_some (fexc s)); [exact Hne|].
    destruct pk; rewrite ?att_set_final_exception; try exact Hne.
    + apply (ne_query_then_send g false h s Hne).
    + destruct (send_loop_A g true (plan s) s) as (a1 & _). apply a1, Hne.
Qed.

Lemma on_timeout_cases g n s :
  (cur_conn s = None /\ (n < 3)%nat /\ on_timeout g n s = new_timer (TTimeout (S n)) (now s + 10) s)
  \/ final_set (on_timeout g n s) = true.
Proof.
  unfold on_timeout. destruct (cur_conn s).
  - right. destruct (cur_req s); [destruct (req_open_on _ _ _)|]; apply final_after_exception.
  - destruct (n <? 3)%nat eqn:E.
    + left. apply Nat.ltb_lt in E. repeat split. exact E.
    + right. apply final_after_exception.
Qed.

Lemma final_false_event s : SInv s -> final_set s = false -> event s = false.
Proof. intros (He & _) Hf. congruence. Qed.

(* ---- Fire *)
Lemma CInv_fire s k t :
  CInv s -> nth_error (timers s) k = Some t -> live t = true -> due t <= now s ->
  let s1 := set_timers (upd_nth k mark_fired (timers s)) s in
  let res := match tk t with TSpec => on_spec true s1 | TTimeout n => on_timeout true n s1 end in
  LInv res -> SInv res -> CInv res.
Proof.
  intros (h1 & h2 & h3 & h4 & (HA & HB) & HS) Hk Hl Hdue s1 res HLr HSr.
  assert (Hnow : due t = now s) by (specialize (h3 k t Hk Hl); lia).
  assert (P1s1 : P1 s1).
  { eapply P1_PStep; [exact h3|reflexivity|]. eapply PStep_kill; [apply live_fired|reflexivity]. }
  assert (HC : CStep s1 res).
  { unfold res. destruct (tk t); [apply CStep_on_spec|apply CStep_on_timeout]. }
  pose proof HC as ((f1 & f2 & f3 & f4) & P & (M & K)).
  unfold CInv. change (timeout s1) with (timeout s) in f1. change (start s1) with (start s) in f2.
  change (pstart s1) with (pstart s) in f3. change (now s1) with (now s) in f4.
  rewrite f1, f2, f3. split; [assumption|]. split; [assumption|]. split; [|split; [|split; assumption]].
  - eapply P1_PStep; [exact P1s1|exact f4|exact P].
  - intros Hf.
    assert (Hf0 : final_set s = false).
    { change (final_set s) with (final_set s1). destruct (final_set s1); [rewrite M in Hf; [discriminate|reflexivity]|reflexivity]. }
    specialize (h4 Hf0).
    (* a witness other than the fired timer survives *)
    assert (Hother : forall j tw, j <> k -> nth_error (timers s) j = Some tw -> nth_error (timers res) j = Some tw).
    { intros j tw Hne Hj. apply K; [exact Hf|]. cbn. rewrite nth_upd_nth_ne by exact Hne. exact Hj. }
    destruct (tk t) as [|n] eqn:Ek.
    + (* speculative timer fired *)
      unfold res, on_spec in *. set (s0 := set_cur_timer None s1) in *.
      change (event s0) with (event s) in *. change (attempts s0) with (attempts s) in *.
      rewrite (final_false_event s HS Hf0) in *.
      destruct (attempts s) as [|a0 al] eqn:Ea.
      * destruct h4 as [(j & tw & m & w1 & w2 & w3 & w4 & w5)|(ha & _)]; [|contradiction].
        left. exists j, tw, m. rewrite f3. repeat split; try assumption.
        apply Hother; [|exact w1]. intros ->. rewrite Hk in w1. inversion w1. subst tw. congruence.
      * match type of Hf with context [if ?c then _ else _] => destruct c eqn:Erem end.
        { destruct HA as (A1 & _). rewrite on_timeout_final in Hf; [discriminate|].
          change (cur_conn s0) with (cur_conn s). apply A1. rewrite Ea. discriminate. }
        set (s2 := send_request true false s0) in *.
        destruct (view_start_timer s2) as (v1 & v2).
        assert (Hf2 : final_set s2 = false) by (unfold final_set in *; rewrite <- v1, <- v2; exact Hf).
        assert (Hc0 : cur_conn s0 <> None).
        { destruct HA as (A1 & _). change (cur_conn s0) with (cur_conn s). apply A1. rewrite Ea. discriminate. }
        assert (Hct : cur_timer s2 = None) by (unfold s2, send_request; rewrite send_loop_cur_timer; [reflexivity|exact Hc0|exact Hf2]).
        destruct (CStep_send_loop true false (plan s0) s0) as ((g1 & g2 & g3 & g4) & _ & _).
        fold (send_request true false s0) in g1, g2, g3, g4. fold s2 in g1, g2, g3, g4.
        assert (HT2 : timeout s2 = Some T) by (rewrite g1; exact h1).
        destruct (start_timer_creates s2 T Hct HT2) as (tn & Htn & Hln & Hkind).
        assert (Hne2 : attempts (start_timer s2) <> []).
        { destruct (fl_start_timer s2) as (e1 & _). rewrite e1.
          destruct (send_loop_A true false (plan s0) s0) as (a1 & _). apply a1.
          change (attempts s0) with (attempts s). rewrite Ea. discriminate. }
        assert (Hst : start s2 = pstart s) by (rewrite g2; exact h2).
        destruct Hkind as [(Hk1 & Hd1)|(Hk1 & Hd1)].
        -- right. split; [exact Hne2|]. exists (length (timers s2)), tn. rewrite Htn, nth_app_new, f3.
           repeat split; try assumption. lia.
        -- left. exists (length (timers s2)), tn, 0%nat. rewrite Htn, nth_app_new, f3.
           repeat split; try assumption; lia.
    + (* timeout timer fired *)
      unfold res in *. destruct (on_timeout_cases true n s1) as [(Hc & Hn3 & Heq)|Hfin]; [|congruence].
      rewrite Heq in *. change (now s1) with (now s).
      destruct h4 as [(j & tw & m & w1 & w2 & w3 & w4 & w5)|(ha & j & tw & w1 & w2 & w3 & w4)].
      * destruct (Nat.eq_dec j k) as [->|Hne].
        -- rewrite Hk in w1. inversion w1. subst tw. assert (m = n) by congruence. subst m.
           left. exists (length (timers s1)), (mkTimer (TTimeout (S n)) (now s + 10) false false), (S n).
           change (pstart (new_timer (TTimeout (S n)) (now s + 10) s1)) with (pstart s).
           change (timers (new_timer (TTimeout (S n)) (now s + 10) s1))
             with (timers s1 ++ [mkTimer (TTimeout (S n)) (now s + 10) false false]).
           rewrite nth_app_new. cbn [due].
           split; [reflexivity|]. split; [reflexivity|]. split; [reflexivity|]. split; lia.
        -- left. exists j, tw, m. change (pstart (new_timer (TTimeout (S n)) (now s + 10) s1)) with (pstart s).
           repeat split; try assumption. apply Hother; assumption.
      * right. split; [exact ha|]. exists j, tw.
        change (pstart (new_timer (TTimeout (S n)) (now s + 10) s1)) with (pstart s).
        repeat split; try assumption. apply Hother; [|exact w1].
        intros ->. rewrite Hk in w1. inversion w1. subst tw. congruence.
Qed.

(* send_request at a moment when the timeout has not expired: an outcome or a request in flight *)
Lemma send_loop_in_time g : forall pl s, timed_out_now s = false ->
  final_set (send_loop g true pl s) = true \/ attempts (send_loop g true pl s) <> [].
Proof.
  induction pl as [|h rest IH]; intros s Ht; cbn [send_loop].
  - left. apply final_after_exception.
  - pose proof (query_shape h s) as Hq.
    assert (Hto : timed_out_now (fst (query h s)) = timed_out_now s) by (unfold query, query_gen; destruct (pool_of _ _); reflexivity).
    destruct (query h s) as [s1 r]. cbn [fst] in Hto. destruct Hq as (_ & _ & _ & _ & _ & _ & q7). destruct r.
    + right. destruct q7 as (q7 & _). cbn. rewrite q7. intros E. apply app_eq_nil in E. destruct E; discriminate.
    + rewrite Hto, Ht. apply IH. rewrite Hto. exact Ht.
Qed.

End Main.

Section Main2.
Variable T : Z.
Hypothesis HT : 0 <= T.

Lemma ne_upd_nth {A} k (f : A -> A) l : l <> [] -> upd_nth k f l <> [].
Proof. intros H E. apply upd_nth_nil in E. contradiction. Qed.

(* start_fetching_next_page: resets, cancel and clear the timer, reset _start_time, _start_timer(), send_request() *)
Lemma next_page_eq pl s :
  next_page true true pl s =
  send_request true true (start_timer (set_start (now (page_reset pl s)) (set_cur_timer None (cancel_timer (page_reset pl s))))).
Proof. reflexivity. Qed.

Lemma step_nextpage_eq g pf pl s : paging s = true -> step g pf s (NextPage pl) = next_page g pf pl s.
Proof. intros H. cbn [step]. rewrite H. reflexivity. Qed.

Lemma step_nextpage_no g pf pl s : paging s = false -> step g pf s (NextPage pl) = s.
Proof. intros H. cbn [step]. rewrite H. reflexivity. Qed.

Lemma CInv_page pl s :
  timeout s = Some T -> P1 s -> attempts s <> [] ->
  LInv (next_page true true pl s) -> SInv (next_page true true pl s) -> CInv T (next_page true true pl s).
Proof.
  intros h1' h3' hne'. rewrite next_page_eq.
  set (s1 := page_reset pl s).
  assert (h1 : timeout s1 = Some T) by exact h1'.
  assert (h3 : P1 s1) by exact h3'.
  assert (hp : pstart s1 = now s1) by reflexivity.
  assert (hne : attempts s1 <> []).
  { unfold s1, page_reset. cbn. destruct (attempts s); [contradiction|discriminate]. }
  clearbody s1. clear h1' h3' hne'.
  set (s2 := set_start (now s1) (set_cur_timer None (cancel_timer s1))).
  set (s3 := start_timer s2). set (res := send_request true true s3). intros HL HS.
  assert (F2 : timeout s2 = Some T /\ start s2 = now s1 /\ pstart s2 = now s1 /\ now s2 = now s1 /\ cur_timer s2 = None
               /\ attempts s2 = attempts s1).
  { destruct (frameT_cancel s1) as (c1 & c2 & c3 & c4). destruct (fl_cancel s1) as (d1 & _).
    unfold s2. cbn. rewrite c1, c3, c4, d1, h1, hp. repeat split. }
  destruct F2 as (t1 & t2 & t3 & t4 & t5 & t6).
  assert (P1s2 : P1 s2).
  { eapply P1_PStep; [exact h3|exact t4|]. intros j t' Hj Hl. exact (PStep_cancel s1 j t' Hj Hl). }
  assert (C23 : CStep s2 s3) by (apply CStep_start_timer; intros T0 HT0; rewrite t1 in HT0; inversion HT0; lia).
  pose proof (CStep_send_loop true true (plan s3) s3) as C3r. fold (send_request true true s3) in C3r. fold res in C3r.
  pose proof (CStep_trans _ _ _ C23 C3r) as ((f1 & f2 & f3 & f4) & P & _).
  unfold CInv. rewrite f1, f2, f3. split; [exact t1|]. split; [congruence|]. split; [|split; [|split; assumption]].
  - eapply P1_PStep; [exact P1s2|exact f4|exact P].
  - intros Hf. destruct C3r as (_ & _ & (M3 & K3)).
    destruct (start_timer_creates s2 T t5 t1) as (tn & Htn & Hln & Hkind). fold s3 in Htn.
    assert (Hw : nth_error (timers res) (length (timers s2)) = Some tn).
    { apply K3; [exact Hf|]. rewrite Htn. apply nth_app_new. }
    assert (Hne : attempts res <> []).
    { destruct (send_loop_A true true (plan s3) s3) as (a1 & _). apply a1.
      destruct (fl_start_timer s2) as (e1 & _). fold s3 in e1. rewrite e1, t6. exact hne. }
    destruct Hkind as [(Hk1 & Hd1)|(Hk1 & Hd1)].
    + right. split; [exact Hne|]. exists (length (timers s2)), tn. repeat split; try assumption. lia.
    + left. exists (length (timers s2)), tn, 0%nat. repeat split; try assumption; lia.
Qed.

Lemma CInv_step_nextpage s pl : CInv T s -> CInv T (step true true s (NextPage pl)).
Proof.
  intros H. destruct (paging s) eqn:Epg.
  - pose proof (LInv_step true true s (NextPage pl)) as HL. pose proof (SInv_step true s (NextPage pl)) as HS.
    rewrite step_nextpage_eq in * by exact Epg.
    destruct H as (h1 & h2 & h3 & h4 & HLs & HSs). pose proof HLs as ((A1 & A2 & A3) & _).
    apply CInv_page; [exact h1|exact h3|apply A3; exact Epg|apply HL; exact HLs|apply HS; exact HSs].
  - rewrite step_nextpage_no by exact Epg. exact H.
Qed.

Lemma CInv_step s o : CInv T s -> punctual_op s o -> CInv T (step true true s o).
Proof.
  intros H Hp.
  assert (HL : LInv (step true true s o)) by (destruct H as (_ & _ & _ & _ & HL & _); apply LInv_step, HL).
  assert (HS : SInv (step true true s o)) by (destruct H as (_ & _ & _ & _ & _ & HS); apply SInv_step, HS).
  destruct o as [|ps|d|a k|k|k|pl| | |c hh err|a pk|fh| |kk]; cbn [step] in *.
  - (* Send *)
    eapply CInv_CStep; [exact H| |exact HL|exact HS|].
    + eapply CStep_trans; [|apply CStep_send_loop]. apply CStep_same; repeat split.
    + destruct (send_loop_A true true (plan (set_started true s)) (set_started true s)) as (a1 & _). exact a1.
  - eapply CInv_CStep; [exact H|apply CStep_same; repeat split|exact HL|exact HS|tauto].
  - (* Tick *)
    destruct H as (h1 & h2 & h3 & h4 & _ & _). unfold CInv. split; [exact h1|]. split; [exact h2|].
    split; [|split; [|split; assumption]].
    + intros j t Hj Hl. cbn. apply (Hp j t Hj Hl).
    + intros Hf. exact (h4 Hf).
  - (* Resp *)
    destruct (nth_error (attempts s) a) as [at_|]; [|exact H]. destruct (aopen at_ && negb (aprep at_)); [|exact H].
    destruct (astale at_).
    { eapply CInv_CStep; [exact H|apply CStep_same; repeat split|exact HL|exact HS|]. cbn. apply ne_upd_nth. }
    eapply CInv_CStep; [exact H| |exact HL|exact HS|].
    + eapply CStep_trans; [|apply CStep_set_result]. apply CStep_same; repeat split.
    + rewrite att_set_result. cbn. apply ne_upd_nth.
  - (* Fire *)
    destruct (nth_error (timers s) k) as [t|] eqn:Ek; [|exact H].
    destruct (live t && (due t <=? now s)) eqn:El; [|exact H].
    apply andb_prop in El. destruct El as (El & Ed). apply Z.leb_le in Ed.
    exact (CInv_fire T s k t H Ek El Ed HL HS).
  - (* Run *)
    destruct (nth_error (queue s) k) as [t|]; [|exact H].
    eapply CInv_CStep; [exact H| |exact HL|exact HS|].
    + eapply CStep_trans; [|apply CStep_run_task]. apply CStep_same; repeat split.
    + intros Hne. apply ne_run_task. exact Hne.
  - (* NextPage *)
    apply CInv_step_nextpage; exact H.
  - eapply CInv_CStep; [exact H|apply CStep_same; repeat split|exact HL|exact HS|tauto].
  - destruct (result_call s); [|exact H].
    eapply CInv_CStep; [exact H|apply CStep_same; repeat split|exact HL|exact HS|tauto].
  - eapply CInv_CStep; [exact H|apply CStep_ks_report|exact HL|exact HS|]. rewrite att_ks_report. tauto.
  - (* PResp *)
    destruct (nth_error (attempts s) a) as [at_|]; [|exact H]. destruct (aopen at_ && aprep at_); [|exact H].
    eapply CInv_CStep; [exact H| |exact HL|exact HS|].
    + eapply CStep_trans; [|apply CStep_submit_task]. apply CStep_same; repeat split.
    + rewrite att_submit_task. cbn. apply ne_upd_nth.
  - exact H.
  - eapply CInv_CStep; [exact H|apply CStep_same; repeat split|exact HL|exact HS|tauto].
  - destruct (refreshes s) as [|n]; [exact H|]. destruct (kk <=? n)%nat; [|exact H].
    eapply CInv_CStep; [exact H| |exact HL|exact HS|].
    + eapply CStep_trans; [|apply CStep_set_final_result]. apply CStep_same; repeat split.
    + rewrite att_set_final_result. tauto.
Qed.

(* __init__ followed at once by Session.execute_async's send_request() *)
Lemma CInv_start c : c_timeout c = Some T -> CInv T (step true true (init c) Send).
Proof.
  intros Hc.
  assert (HL : LInv (step true true (init c) Send)) by (apply LInv_step, LInv_init).
  assert (HS : SInv (step true true (init c) Send)) by (apply SInv_step, SInv_init).
  cbn [step] in *. unfold init in *.
  set (s00 := mkState (c_plan c) [] None None None 0 [] None (c_specs c) None None false [] false
                      (c_now c) (c_now c) (c_timeout c) (c_now c) [] (c_pools c) false false [] [] 0 false 0) in *.
  set (s0 := set_started true (start_timer s00)) in *.
  assert (C0 : CStep s00 (start_timer s00)).
  { apply CStep_start_timer. intros T0 HT0. cbn in HT0. rewrite Hc in HT0. inversion HT0. cbn. lia. }
  destruct (start_timer_creates s00 T eq_refl Hc) as (tn & Htn & Hln & Hkind).
  pose proof (CStep_send_loop true true (plan s0) s0) as C1. fold (send_request true true s0) in C1.
  assert (C01 : CStep (start_timer s00) s0) by (apply CStep_same; repeat split).
  pose proof (CStep_trans _ _ _ C0 (CStep_trans _ _ _ C01 C1)) as ((f1 & f2 & f3 & f4) & P & _).
  unfold CInv. rewrite f1, f2, f3. split; [exact Hc|]. split; [reflexivity|]. split; [|split; [|split; assumption]].
  - eapply P1_PStep; [|exact f4|exact P]. intros j t Hj. destruct j; discriminate.
  - intros Hf. destruct C1 as (_ & _ & (M1 & K1)).
    assert (Hw : nth_error (timers (send_request true true s0)) 0%nat = Some tn).
    { apply K1; [exact Hf|]. change (timers s0) with (timers (start_timer s00)). rewrite Htn. reflexivity. }
    destruct Hkind as [(Hk1 & Hd1)|(Hk1 & Hd1)].
    + right. split.
      * assert (Ht0 : timed_out_now s0 = false).
        { destruct (frameT_refl s0). unfold timed_out_now.
          destruct C0 as ((e1 & e2 & _ & e4) & _). change (timeout s0) with (timeout (start_timer s00)).
          change (now s0) with (now (start_timer s00)). change (start s0) with (start (start_timer s00)).
          rewrite e1, e2, e4. cbn. rewrite Hc. apply Z.ltb_ge. lia. }
        destruct (send_loop_in_time true (plan s0) s0 Ht0) as [Hfin|Hne]; [|exact Hne].
        unfold send_request in Hf. congruence.
      * exists 0%nat, tn. repeat split; try assumption. rewrite f3. cbn in Hd1. cbn. lia.
    + left. exists 0%nat, tn, 0%nat. repeat split; try assumption; [lia|]. rewrite f3. cbn in Hd1. cbn. lia.
Qed.

(* no speculative execution configured: the bound needs no assumption about when (or whether) send_request() happens *)
Lemma start_timer_nospec s : cur_timer s = None -> timeout s = Some T -> specs s = [] ->
  exists t, timers (start_timer s) = timers s ++ [t] /\ live t = true /\ tk t = TTimeout 0 /\ due t = start s + T.
Proof.
  intros Hc Ht Hs. unfold start_timer. rewrite Hc, Hs. cbn [tl]. unfold time_remaining. cbn [timeout set_specs]. rewrite Ht.
  cbn [andb Z.leb Z.compare]. eexists. split; [reflexivity|]. split; [reflexivity|]. split; [reflexivity|]. cbn. lia.
Qed.

Lemma CInv_init_nospec c : c_timeout c = Some T -> c_specs c = [] -> CInv T (init c).
Proof.
  intros Hc Hsp.
  assert (HL : LInv (init c)) by apply LInv_init.
  assert (HS : SInv (init c)) by apply SInv_init.
  unfold init in *.
  set (s00 := mkState (c_plan c) [] None None None 0 [] None (c_specs c) None None false [] false
                      (c_now c) (c_now c) (c_timeout c) (c_now c) [] (c_pools c) false false [] [] 0 false 0) in *.
  assert (C0 : CStep s00 (start_timer s00)).
  { apply CStep_start_timer. intros T0 HT0. cbn in HT0. rewrite Hc in HT0. inversion HT0. cbn. lia. }
  destruct (start_timer_nospec s00 eq_refl Hc Hsp) as (tn & Htn & Hln & Hk1 & Hd1).
  pose proof C0 as ((f1 & f2 & f3 & f4) & P & _).
  unfold CInv. rewrite f1, f2, f3. split; [exact Hc|]. split; [reflexivity|]. split; [|split; [|split; assumption]].
  - eapply P1_PStep; [|exact f4|exact P]. intros j t Hj. destruct j; discriminate.
  - intros _. left. exists 0%nat, tn, 0%nat. rewrite Htn, f3. repeat split; try assumption; [lia|]. cbn in Hd1. cbn. lia.
Qed.

Lemma CInv_run : forall h s, CInv T s -> punctual true true s h -> CInv T (run true true s h).
Proof.
  induction h as [|o h IH]; intros s H Hp; [exact H|]. cbn in *. destruct Hp as (Ho & Hr).
  apply IH; [apply CInv_step; assumption|exact Hr].
Qed.

Lemma CInv_bound s : CInv T s -> final_set s = false -> now s <= pstart s + T + 30.
Proof.
  intros (_ & _ & h3 & h4 & _ & _) Hf.
  destruct (h4 Hf) as [(j & t & n & w1 & w2 & w3 & w4 & w5)|(_ & j & t & w1 & w2 & w3 & w4)].
  - specialize (h3 j t w1 w2). lia.
  - specialize (h3 j t w1 w2). lia.
Qed.

End Main2.

(* the fairness hypothesis never stops the clock for good: a refused tick means a timer is due within it *)
Lemma min_live_due : forall (l : list timer) (base : Z) (d : Z), 0 <= d ->
  (forall j t, nth_error l j = Some t -> live t = true -> base + d <= due t)
  \/ exists k t, nth_error l k = Some t /\ live t = true /\ due t < base + d
                 /\ forall j t', nth_error l j = Some t' -> live t' = true -> due t <= due t'.
Proof.
  induction l as [|x l IH]; intros base d Hd.
  - left. intros j t Hj. destruct j; discriminate.
  - destruct (IH base d Hd) as [Hall|(k & t & Hk & Hl & Hlt & Hmin)].
    + destruct (live x) eqn:Ex.
      * destruct (Z_lt_le_dec (due x) (base + d)) as [Hx|Hx].
        -- right. exists 0%nat, x. repeat split; try assumption.
           intros j t' Hj Hl'. destruct j; cbn in Hj; [inversion Hj; lia|]. specialize (Hall j t' Hj Hl'). lia.
        -- left. intros j t Hj Hl. destruct j; cbn in Hj; [inversion Hj; subst; exact Hx|]. eapply Hall; eassumption.
      * left. intros j t Hj Hl. destruct j; cbn in Hj; [inversion Hj; subst; congruence|]. eapply Hall; eassumption.
    + destruct (live x) eqn:Ex.
      * destruct (Z_lt_le_dec (due x) (due t)) as [Hx|Hx].
        -- right. exists 0%nat, x. repeat split; try assumption; [lia|].
           intros j t' Hj Hl'. destruct j; cbn in Hj; [inversion Hj; lia|]. specialize (Hmin j t' Hj Hl'). lia.
        -- right. exists (S k), t. repeat split; try assumption.
           intros j t' Hj Hl'. destruct j; cbn in Hj; [inversion Hj; subst; exact Hx|]. eapply Hmin; eassumption.
      * right. exists (S k), t. repeat split; try assumption.
        intros j t' Hj Hl'. destruct j; cbn in Hj; [inversion Hj; subst; congruence|]. eapply Hmin; eassumption.
Qed.

Lemma blocked_tick_has_fire : forall (s : state) (d : Z), 0 <= d ->
  punctual_tick s d
  \/ exists k t, nth_error (timers s) k = Some t /\ live t = true /\ due t < now s + d
                 /\ (due t <= now s \/ punctual_tick s (due t - now s)).
Proof.
  intros s d Hd. destruct (min_live_due (timers s) (now s) d Hd) as [Hall|(k & t & Hk & Hl & Hlt & Hmin)].
  - left. exact Hall.
  - right. exists k, t. repeat split; try assumption.
    destruct (Z_le_gt_dec (due t) (now s)) as [Hle|Hgt]; [left; exact Hle|right].
    intros j t' Hj Hl'. specialize (Hmin j t' Hj Hl'). lia.
Qed.
