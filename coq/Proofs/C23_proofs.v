(* C23: lemmas about the retry policies as translated from cassandra/policies.py (Gen/RetryPolicies.v). *)
From Coq Require Import ZArith List Bool Lia ZifyBool.
From Verif Require Import PyBase RetryConsts RetryPolicies Consistency.
Import ListNotations.
Local Open Scope Z_scope.

Ltac unfold_consts :=
  unfold RETRY, RETHROW, IGNORE, RETRY_NEXT_HOST,
    CL_ANY, CL_ONE, CL_TWO, CL_THREE, CL_QUORUM, CL_ALL, CL_LOCAL_QUORUM, CL_EACH_QUORUM,
    CL_SERIAL, CL_LOCAL_SERIAL, CL_LOCAL_ONE,
    WT_SIMPLE, WT_BATCH, WT_UNLOGGED_BATCH, WT_COUNTER, WT_BATCH_LOG, WT_CAS, WT_VIEW, WT_CDC in *.

(* one destruct per `if`, innermost condition first; robust to reordering of independent tests *)
Ltac split_ifs :=
  repeat match goal with
         | |- context [if ?c then _ else _] =>
           lazymatch c with
           | context [if _ then _ else _] => fail
           | _ => let E := fresh "E" in destruct c eqn:E
           end
         | H : context [if ?c then _ else _] |- _ =>
           lazymatch c with
           | context [if _ then _ else _] => fail
           | _ => let E := fresh "E" in destruct c eqn:E
           end
         end.

Ltac crush := intros; unfold_consts; cbn [fst snd] in *; split_ifs; cbn [fst snd] in *;
              try discriminate; try congruence; try lia.

Lemma py_in_3 x a b c : py_in x [a; b; c] = (x =? a) || (x =? b) || (x =? c).
Proof. cbn [py_in]. destruct (x =? a), (x =? b), (x =? c); reflexivity. Qed.

(* ---------------------------------------------------------------- default policy *)
Lemma default_read_bounded c rq rc d n : n <> 0 -> Default_on_read_timeout c rq rc d n = (RETHROW, None).
Proof. unfold Default_on_read_timeout. crush. Qed.
Lemma default_write_bounded c w rq rc n : n <> 0 -> Default_on_write_timeout c w rq rc n = (RETHROW, None).
Proof. unfold Default_on_write_timeout. crush. Qed.
Lemma default_unavailable_bounded c rq al n : n <> 0 -> Default_on_unavailable c rq al n = (RETHROW, None).
Proof. unfold Default_on_unavailable. crush. Qed.

Lemma default_read_documented c rq rc d :
  Default_on_read_timeout c rq rc d 0 =
  if (rq <=? rc) && negb d then (RETRY, Some c) else (RETHROW, None).
Proof. unfold Default_on_read_timeout. destruct d; crush. Qed.
Lemma default_write_documented c w rq rc :
  Default_on_write_timeout c w rq rc 0 = if w =? WT_BATCH_LOG then (RETRY, Some c) else (RETHROW, None).
Proof. unfold Default_on_write_timeout. crush. Qed.
Lemma default_unavailable_documented c rq al :
  Default_on_unavailable c rq al 0 = (RETRY_NEXT_HOST, None).
Proof. unfold Default_on_unavailable. crush. Qed.

(* the default policy never changes the consistency level *)
Lemma default_same_cl_read c rq rc d n cl' :
  snd (Default_on_read_timeout c rq rc d n) = Some cl' -> cl' = c.
Proof. unfold Default_on_read_timeout. crush. Qed.
Lemma default_same_cl_write c w rq rc n cl' :
  snd (Default_on_write_timeout c w rq rc n) = Some cl' -> cl' = c.
Proof. unfold Default_on_write_timeout. crush. Qed.

(* ---------------------------------------------------------------- fall-through / never-retry *)
Lemma fallthrough_all :
  Fallthrough_on_read_timeout = (RETHROW, None) /\ Fallthrough_on_write_timeout = (RETHROW, None) /\
  Fallthrough_on_unavailable = (RETHROW, None) /\ Fallthrough_on_request_error = (RETHROW, None).
Proof. repeat split; reflexivity. Qed.
Lemma never_all :
  Never_on_read_timeout = (RETHROW, None) /\ Never_on_write_timeout = (RETHROW, None) /\
  Never_on_unavailable = (RETHROW, None).
Proof. repeat split; reflexivity. Qed.

(* ---------------------------------------------------------------- downgrading policy *)
Lemma pick_spec n d cl :
  Downgrading_pick_consistency n = (d, cl) ->
  (d = RETHROW /\ cl = None /\ n < 1) \/
  (d = RETRY /\ exists c k, cl = Some c /\ needs c = Some k /\ k <= n /\ (c = CL_ONE \/ c = CL_TWO \/ c = CL_THREE)).
Proof.
  unfold Downgrading_pick_consistency. intros H. unfold_consts.
  split_ifs; inversion H; subst; clear H.
  - right. split; [reflexivity|]. exists 3, 3. unfold needs. unfold_consts. cbn. repeat split; try lia; auto.
  - right. split; [reflexivity|]. exists 2, 2. unfold needs. unfold_consts. cbn. repeat split; try lia; auto.
  - right. split; [reflexivity|]. exists 1, 1. unfold needs. unfold_consts. cbn. repeat split; try lia; auto.
  - left. repeat split; lia.
Qed.

Lemma is_serial_agrees cl : ConsistencyLevel_is_serial cl = is_serial cl.
Proof. unfold ConsistencyLevel_is_serial, is_serial. unfold_consts. reflexivity. Qed.

Lemma downgrading_bounded_read c rq rc d n : n <> 0 -> Downgrading_on_read_timeout c rq rc d n = (RETHROW, None).
Proof. unfold Downgrading_on_read_timeout. intros. unfold_consts. destruct (negb (n =? 0)) eqn:E; [reflexivity|lia]. Qed.
Lemma downgrading_bounded_write c w rq rc n : n <> 0 -> Downgrading_on_write_timeout c w rq rc n = (RETHROW, None).
Proof. unfold Downgrading_on_write_timeout. intros. unfold_consts. destruct (negb (n =? 0)) eqn:E; [reflexivity|lia]. Qed.
Lemma downgrading_bounded_unav c rq al n : n <> 0 -> Downgrading_on_unavailable c rq al n = (RETHROW, None).
Proof. unfold Downgrading_on_unavailable. intros. unfold_consts. destruct (negb (n =? 0)) eqn:E; [reflexivity|lia]. Qed.

(* serial levels are never downgraded (read timeout, unavailable: unconditionally) *)
Lemma downgrading_serial_read c rq rc d n :
  is_serial c = true -> Downgrading_on_read_timeout c rq rc d n = (RETHROW, None).
Proof.
  intros H. rewrite <- is_serial_agrees in H. unfold Downgrading_on_read_timeout. rewrite H.
  destruct (negb (n =? 0)); reflexivity.
Qed.
Lemma downgrading_serial_unav c rq al n :
  is_serial c = true -> snd (Downgrading_on_unavailable c rq al n) = None.
Proof.
  intros H. rewrite <- is_serial_agrees in H. unfold Downgrading_on_unavailable. rewrite H.
  destruct (negb (n =? 0)); reflexivity.
Qed.
(* write timeout: a coordinator reports a serial consistency only for the CAS (paxos) phase *)
Lemma downgrading_serial_write c w rq rc n :
  w = WT_CAS -> Downgrading_on_write_timeout c w rq rc n = (RETHROW, None).
Proof.
  intros ->. unfold Downgrading_on_write_timeout. rewrite py_in_3. unfold_consts. cbn.
  destruct (negb (n =? 0)); reflexivity.
Qed.

(* what the policy returns is the requested level, or a fixed-count level that fits *)
Lemma downgrading_fits_read c rq rc d n cl' :
  snd (Downgrading_on_read_timeout c rq rc d n) = Some cl' ->
  fst (Downgrading_on_read_timeout c rq rc d n) = RETRY /\
  ((cl' = c /\ rq <= rc) \/ (exists k, needs cl' = Some k /\ k <= rc /\ rc < rq)).
Proof.
  unfold Downgrading_on_read_timeout.
  destruct (negb (n =? 0)); [cbn; discriminate|].
  destruct (ConsistencyLevel_is_serial c); [cbn; discriminate|].
  destruct (rc <? rq) eqn:E.
  - destruct (Downgrading_pick_consistency rc) as [dd cc] eqn:P. cbn. intros ->.
    apply pick_spec in P. destruct P as [(_ & X & _)|(-> & c0 & k & X & Hn & Hk & _)]; [discriminate|].
    inversion X; subst. split; [reflexivity|]. right. exists k. repeat split; try assumption. lia.
  - destruct d; cbn; [discriminate|]. intros X; inversion X; subst. split; [reflexivity|]. left. split; [reflexivity|lia].
Qed.

Lemma downgrading_fits_unav c rq al n cl' :
  snd (Downgrading_on_unavailable c rq al n) = Some cl' ->
  fst (Downgrading_on_unavailable c rq al n) = RETRY /\ exists k, needs cl' = Some k /\ k <= al.
Proof.
  unfold Downgrading_on_unavailable.
  destruct (negb (n =? 0)); [cbn; discriminate|].
  destruct (ConsistencyLevel_is_serial c); [cbn; discriminate|].
  destruct (Downgrading_pick_consistency al) as [dd cc] eqn:P. cbn. intros ->.
  apply pick_spec in P. destruct P as [(_ & X & _)|(-> & c0 & k & X & Hn & Hk & _)]; [discriminate|].
  inversion X; subst. split; [reflexivity|]. exists k. split; assumption.
Qed.

Lemma downgrading_fits_write c w rq rc n cl' :
  snd (Downgrading_on_write_timeout c w rq rc n) = Some cl' ->
  fst (Downgrading_on_write_timeout c w rq rc n) = RETRY /\
  ((cl' = c /\ w = WT_BATCH_LOG) \/ (w = WT_UNLOGGED_BATCH /\ exists k, needs cl' = Some k /\ k <= rc)).
Proof.
  unfold Downgrading_on_write_timeout. rewrite py_in_3. unfold_consts.
  destruct (negb (n =? 0)); [cbn; discriminate|].
  destruct ((w =? 0) || (w =? 1) || (w =? 3)).
  { destruct (rc >? 0); cbn; discriminate. }
  destruct (w =? 2) eqn:E2.
  - destruct (Downgrading_pick_consistency rc) as [dd cc] eqn:P. cbn. intros ->.
    apply pick_spec in P. destruct P as [(_ & X & _)|(-> & c0 & k & X & Hn & Hk & _)]; [discriminate|].
    inversion X; subst. split; [reflexivity|]. right. split; [lia|]. exists k. split; assumption.
  - destruct (w =? 4) eqn:E4; cbn; [|discriminate].
    intros X; inversion X; subst. split; [reflexivity|]. left. split; [reflexivity|lia].
Qed.

(* `needs` agrees with Cassandra's blockFor for the fixed-count levels, for every replication factor *)
Lemma needs_block_for cl k rf dcs : needs cl = Some k -> block_for cl rf dcs = k.
Proof.
  unfold needs, block_for. unfold_consts.
  destruct (cl =? 1) eqn:E1; [intros X; inversion X; subst; assert (cl = 1) by lia; subst; reflexivity|].
  destruct (cl =? 2) eqn:E2; [intros X; inversion X; subst; assert (cl = 2) by lia; subst; reflexivity|].
  destruct (cl =? 3) eqn:E3; [intros X; inversion X; subst; assert (cl = 3) by lia; subst; reflexivity|].
  discriminate.
Qed.

(* every decision code is one of the four documented ones *)
Lemma decisions_valid_downgrading c w rq rc d n :
  valid_decision (fst (Downgrading_on_read_timeout c rq rc d n)) = true /\
  valid_decision (fst (Downgrading_on_write_timeout c w rq rc n)) = true /\
  valid_decision (fst (Downgrading_on_unavailable c rq rc n)) = true.
Proof.
  unfold Downgrading_on_read_timeout, Downgrading_on_write_timeout, Downgrading_on_unavailable,
    Downgrading_pick_consistency, valid_decision.
  rewrite py_in_3. unfold_consts.
  repeat split; split_ifs; reflexivity.
Qed.
