(* T-layer for cassandra/segment.py: laws of the GENERATED compute_crc24 and header bit layout
   (Gen/SegmentGen.v, regenerated from the working tree on every run) for C06:
     - compute_crc24 equals the clean reference Model/Crc24.v (fold over the little-endian bytes, 8 bit steps each),
       for ALL data (negative too) and ALL lengths;
     - the result is a 24-bit value;
     - the bit step is GF(2)-linear (xor-homomorphic) and injective, hence so are the byte update and the fold:
       crc(a) xor crc(b) depends only on a xor b, and an error confined to one byte is never mapped to 0;
     - encode_header / decode_header: exact bit layout and round trip. *)
From Coq Require Import ZArith List Bool Lia ZifyBool.
From Verif Require Import PyBase SegmentConsts SegmentGen Crc24 BytesBE.
Import ListNotations.
Local Open Scope Z_scope.

(* ------------------------------------------------------------------ the generated bit step *)
Lemma land_pow2 x k : 0 <= k -> Z.land x (2 ^ k) = if Z.testbit x k then 2 ^ k else 0.
Proof.
  intros Hk. apply Z.bits_inj'. intros i Hi. rewrite Z.land_spec, Z.pow2_bits_eqb by lia.
  destruct (Z.eqb_spec k i) as [->|Hne].
  - rewrite andb_true_r. destruct (Z.testbit x i); [rewrite Z.pow2_bits_true by lia; reflexivity|apply eq_sym, Z.bits_0].
  - rewrite andb_false_r. destruct (Z.testbit x k); [rewrite Z.pow2_bits_false by lia; reflexivity|apply eq_sym, Z.bits_0].
Qed.

Lemma gen_step c :
  (let crc := Z.shiftl c 1 in if negb (Z.land crc 16777216 =? 0) then Z.lxor crc 26693387 else crc) = crc24_step c.
Proof.
  cbv zeta. unfold crc24_step. change 16777216 with (2 ^ 24). rewrite land_pow2 by lia.
  rewrite Z.shiftl_spec by lia. change (24 - 1) with 23. unfold CRC24_POLY.
  destruct (Z.testbit c 23); cbn [negb Z.eqb]; [reflexivity|]. rewrite Z.lxor_0_r. reflexivity.
Qed.

Lemma iter_S {A} n (f : A -> A) x : Nat.iter (S n) f x = f (Nat.iter n f x).
Proof. reflexivity. Qed.

Lemma iter_succ_r {A} n (f : A -> A) x : Nat.iter (S n) f x = Nat.iter n f (f x).
Proof.
  induction n as [|n IH]; [reflexivity|].
  change (Nat.iter (S (S n)) f x) with (f (Nat.iter (S n) f x)). rewrite IH. reflexivity.
Qed.

Lemma loop2_spec : forall xs d l i c, compute_crc24_loop2 xs d l i c = Nat.iter (length xs) crc24_step c.
Proof.
  induction xs as [|x xs IH]; intros d l i c; [reflexivity|].
  cbn [compute_crc24_loop2 length]. rewrite iter_succ_r. rewrite <- gen_step. cbv zeta.
  destruct (negb (Z.land (Z.shiftl c 1) 16777216 =? 0)); apply IH.
Qed.

Lemma crc24_from_cons c b bs : crc24_from c (b :: bs) = crc24_from (crc24_byte c b) bs.
Proof. reflexivity. Qed.

Lemma crc24_from_app c bs cs : crc24_from c (bs ++ cs) = crc24_from (crc24_from c bs) cs.
Proof. unfold crc24_from. apply fold_left_app. Qed.

Lemma crc24_byte_unfold c b : crc24_byte c b = Nat.iter 8 crc24_step (Z.lxor c (Z.shiftl b 16)).
Proof. reflexivity. Qed.

Local Opaque crc24_step crc24_byte.

Lemma loop1_spec : forall xs l c d,
  compute_crc24_loop1 xs l c d = (crc24_from c (le_bytes (length xs) d), Z.shiftr d (8 * Z.of_nat (length xs))).
Proof.
  induction xs as [|x xs IH]; intros l c d.
  - cbn [compute_crc24_loop1 length le_bytes]. change (8 * Z.of_nat 0) with 0. rewrite Z.shiftr_0_r. reflexivity.
  - cbn [compute_crc24_loop1]. cbv zeta. rewrite loop2_spec, IH.
    change (length (x :: xs)) with (S (length xs)). cbn [le_bytes]. rewrite crc24_from_cons, land_255.
    change (length [0; 1; 2; 3; 4; 5; 6; 7]) with 8%nat. rewrite <- crc24_byte_unfold.
    f_equal. rewrite Z.shiftr_shiftr by lia. f_equal. lia.
Qed.

Lemma py_range_length n : length (py_range 0 n 1) = Z.to_nat n.
Proof.
  unfold py_range. cbn [Z.ltb Z.compare]. rewrite map_length, seq_length, Z.div_1_r. f_equal. lia.
Qed.

(* ------------------------------------------------------------------ equality with the reference, all data, all lengths *)
Theorem compute_crc24_ref : forall data len, compute_crc24 data len = crc24_ref (le_bytes (Z.to_nat len) data).
Proof.
  intros data len. unfold compute_crc24. cbv zeta. rewrite loop1_spec, py_range_length. reflexivity.
Qed.

(* ------------------------------------------------------------------ 24-bit range *)
Definition is24 (c : Z) : Prop := 0 <= c < 2 ^ 24.

Lemma testbit_hi_false c k : 0 <= c < 2 ^ k -> forall i, k <= i -> Z.testbit c i = false.
Proof.
  intros Hc i Hi. destruct (Z.eq_dec c 0) as [->|Hn]; [apply Z.bits_0|].
  assert (0 <= k). { destruct (Z_le_dec 0 k); [assumption|]. rewrite Z.pow_neg_r in Hc by lia. lia. }
  apply Z.bits_above_log2; [lia|]. assert (Z.log2 c < k) by (apply Z.log2_lt_pow2; lia). lia.
Qed.

Lemma range_of_bits c k : 0 <= k -> 0 <= c -> (forall i, k <= i -> Z.testbit c i = false) -> c < 2 ^ k.
Proof.
  intros Hk Hc Hb. destruct (Z.eq_dec c 0) as [->|Hn]; [apply pow2_pos; lia|].
  apply Z.log2_lt_pow2; [lia|]. destruct (Z_lt_dec (Z.log2 c) k) as [|Hge]; [assumption|exfalso].
  pose proof (Z.bit_log2 c ltac:(lia)) as H1. rewrite Hb in H1 by lia. discriminate.
Qed.

Local Transparent crc24_step.

Lemma crc24_step_range c : is24 c -> is24 (crc24_step c).
Proof.
  unfold is24. intros Hc. unfold crc24_step.
  assert (Hnn : 0 <= Z.lxor (Z.shiftl c 1) (if Z.testbit c 23 then CRC24_POLY else 0)).
  { apply Z.lxor_nonneg. rewrite Z.shiftl_nonneg. destruct (Z.testbit c 23); unfold CRC24_POLY; lia. }
  split; [exact Hnn|]. apply range_of_bits; [lia|exact Hnn|]. intros i Hi.
  rewrite Z.lxor_spec, Z.shiftl_spec by lia.
  destruct (Z.eq_dec i 24) as [->|Hne].
  - change (24 - 1) with 23. destruct (Z.testbit c 23); [reflexivity|]. rewrite Z.bits_0. reflexivity.
  - rewrite (testbit_hi_false c 24 Hc) by lia.
    destruct (Z.testbit c 23); [|rewrite Z.bits_0; reflexivity].
    rewrite (testbit_hi_false CRC24_POLY 25) by (unfold CRC24_POLY; lia). reflexivity.
Qed.

Lemma iter_range n c : is24 c -> is24 (Nat.iter n crc24_step c).
Proof. intros H. induction n as [|n IH]; [exact H|]. rewrite iter_S. apply crc24_step_range. exact IH. Qed.

Lemma lxor_range24 a b : is24 a -> is24 b -> is24 (Z.lxor a b).
Proof.
  unfold is24. intros Ha Hb. assert (Hnn : 0 <= Z.lxor a b) by (apply Z.lxor_nonneg; lia).
  split; [exact Hnn|]. apply range_of_bits; [lia|exact Hnn|]. intros i Hi.
  rewrite Z.lxor_spec, (testbit_hi_false a 24 Ha), (testbit_hi_false b 24 Hb) by lia. reflexivity.
Qed.

Lemma crc24_byte_range c b : is24 c -> 0 <= b < 256 -> is24 (crc24_byte c b).
Proof.
  intros Hc Hb. rewrite crc24_byte_unfold. apply iter_range. apply lxor_range24; [exact Hc|].
  unfold is24. rewrite Z.shiftl_mul_pow2 by lia. change (2 ^ 16) with 65536. lia.
Qed.

Lemma le_bytes_bytes n d : Forall (fun b => 0 <= b < 256) (le_bytes n d).
Proof. revert d. induction n as [|n IH]; intros d; [constructor|]. cbn [le_bytes]. constructor; [apply mod256_range|apply IH]. Qed.

Lemma crc24_from_range bs : forall c, is24 c -> Forall (fun b => 0 <= b < 256) bs -> is24 (crc24_from c bs).
Proof.
  induction bs as [|b bs IH]; intros c Hc Hb; [exact Hc|]. inversion Hb; subst. rewrite crc24_from_cons.
  apply IH; [apply crc24_byte_range; assumption|assumption].
Qed.

Theorem compute_crc24_range : forall data len, 0 <= compute_crc24 data len < 2 ^ 24.
Proof.
  intros data len. rewrite compute_crc24_ref. apply crc24_from_range; [unfold is24, CRC24_INIT; lia|apply le_bytes_bytes].
Qed.

(* ------------------------------------------------------------------ GF(2) linearity and injectivity *)
Lemma sel_xor (x y : bool) P : (if xorb x y then P else 0) = Z.lxor (if x then P else 0) (if y then P else 0).
Proof. destruct x, y; cbn [xorb]; rewrite ?Z.lxor_0_r, ?Z.lxor_0_l, ?Z.lxor_nilpotent; reflexivity. Qed.

Theorem crc24_step_linear : forall a b, crc24_step (Z.lxor a b) = Z.lxor (crc24_step a) (crc24_step b).
Proof.
  intros a b. unfold crc24_step. rewrite Z.lxor_spec, sel_xor.
  assert (Hs : Z.shiftl (Z.lxor a b) 1 = Z.lxor (Z.shiftl a 1) (Z.shiftl b 1)) by (apply Z.shiftl_lxor).
  rewrite Hs. set (p := Z.shiftl a 1). set (q := Z.shiftl b 1).
  set (r := if Z.testbit a 23 then CRC24_POLY else 0). set (s := if Z.testbit b 23 then CRC24_POLY else 0).
  rewrite !Z.lxor_assoc. f_equal. rewrite <- !Z.lxor_assoc. rewrite (Z.lxor_comm q r). reflexivity.
Qed.

Lemma crc24_step_0 : crc24_step 0 = 0.
Proof. reflexivity. Qed.

(* bit 0 of the result tells whether the polynomial was applied: the step can be undone *)
Theorem crc24_step_injective : forall a b, crc24_step a = crc24_step b -> a = b.
Proof.
  intros a b H.
  assert (Hbit : forall c, Z.testbit (crc24_step c) 0 = Z.testbit c 23).
  { intros c. unfold crc24_step. rewrite Z.lxor_spec, Z.shiftl_spec_low by lia.
    destruct (Z.testbit c 23); reflexivity. }
  assert (Hrec : forall c, c = Z.shiftr (Z.lxor (crc24_step c) (if Z.testbit (crc24_step c) 0 then CRC24_POLY else 0)) 1).
  { intros c. rewrite Hbit. unfold crc24_step. rewrite Z.lxor_assoc, Z.lxor_nilpotent, Z.lxor_0_r.
    rewrite Z.shiftr_shiftl_l by lia. change (1 - 1) with 0. rewrite Z.shiftl_0_r. reflexivity. }
  rewrite (Hrec a), (Hrec b), H. reflexivity.
Qed.

(* from here on the bit step is used only through its laws (keeps unification and Qed fast) *)
Local Opaque crc24_step crc24_byte.

Lemma iter_linear n a b : Nat.iter n crc24_step (Z.lxor a b) = Z.lxor (Nat.iter n crc24_step a) (Nat.iter n crc24_step b).
Proof. induction n as [|n IH]; [reflexivity|]. rewrite !iter_S. rewrite IH. apply crc24_step_linear. Qed.

Lemma iter_injective n a b : Nat.iter n crc24_step a = Nat.iter n crc24_step b -> a = b.
Proof. induction n as [|n IH]; [auto|]. rewrite !iter_S. intros H. apply IH. apply crc24_step_injective. exact H. Qed.

Lemma iter_0 n : Nat.iter n crc24_step 0 = 0.
Proof. induction n as [|n IH]; [reflexivity|]. rewrite iter_S. rewrite IH. apply crc24_step_0. Qed.

(* the byte update is linear in (register, byte) jointly *)
Theorem crc24_byte_linear : forall c1 c2 b1 b2,
  crc24_byte (Z.lxor c1 c2) (Z.lxor b1 b2) = Z.lxor (crc24_byte c1 b1) (crc24_byte c2 b2).
Proof.
  intros c1 c2 b1 b2. rewrite !crc24_byte_unfold. rewrite <- iter_linear. f_equal.
  rewrite Z.shiftl_lxor. rewrite !Z.lxor_assoc. f_equal. rewrite <- !Z.lxor_assoc. f_equal. apply Z.lxor_comm.
Qed.

Theorem crc24_from_linear : forall bs1 bs2 c1 c2, length bs1 = length bs2 ->
  Z.lxor (crc24_from c1 bs1) (crc24_from c2 bs2) = crc24_from (Z.lxor c1 c2) (xor_bytes bs1 bs2).
Proof.
  induction bs1 as [|x bs1 IH]; intros bs2 c1 c2 Hl; destruct bs2 as [|y bs2]; try discriminate; [reflexivity|].
  cbn [xor_bytes]. rewrite !crc24_from_cons.
  rewrite IH by (cbn in Hl; lia). rewrite crc24_byte_linear. reflexivity.
Qed.

(* crc(a) xor crc(b) is the INIT-free register run over a xor b: the CRC difference depends only on the error pattern *)
Corollary crc24_ref_difference : forall bs1 bs2, length bs1 = length bs2 ->
  Z.lxor (crc24_ref bs1) (crc24_ref bs2) = crc24_from 0 (xor_bytes bs1 bs2).
Proof. intros bs1 bs2 Hl. unfold crc24_ref. rewrite crc24_from_linear by exact Hl. rewrite Z.lxor_nilpotent. reflexivity. Qed.

Lemma crc24_byte_zero_inj c : crc24_byte c 0 = 0 -> c = 0.
Proof.
  rewrite crc24_byte_unfold, Z.shiftl_0_l, Z.lxor_0_r. intros H. apply (iter_injective 8). rewrite iter_0. exact H.
Qed.

Lemma crc24_from_zeros n : forall c, c <> 0 -> crc24_from c (repeat 0 n) <> 0.
Proof.
  induction n as [|n IH]; intros c Hc; [exact Hc|]. cbn [repeat]. rewrite crc24_from_cons.
  apply IH. intros H. apply Hc. apply crc24_byte_zero_inj. exact H.
Qed.

Lemma crc24_from_zeros_0 n : crc24_from 0 (repeat 0 n) = 0.
Proof.
  induction n as [|n IH]; [reflexivity|]. cbn [repeat]. rewrite crc24_from_cons.
  replace (crc24_byte 0 0) with 0 by (rewrite crc24_byte_unfold, Z.shiftl_0_l, Z.lxor_0_r, iter_0; reflexivity). exact IH.
Qed.

(* an error pattern confined to one byte (in particular any single-bit flip) never has CRC difference 0 *)
Theorem crc24_one_byte_error_detected : forall k m e, 0 < e < 256 ->
  crc24_from 0 (repeat 0 k ++ [e] ++ repeat 0 m) <> 0.
Proof.
  intros k m e He. rewrite !crc24_from_app, crc24_from_zeros_0, crc24_from_cons. apply crc24_from_zeros.
  rewrite crc24_byte_unfold, Z.lxor_0_l. intros H.
  assert (H0 : Z.shiftl e 16 = 0) by (apply (iter_injective 8); rewrite iter_0; exact H).
  rewrite Z.shiftl_mul_pow2 in H0 by lia. lia.
Qed.

Corollary crc24_ref_one_byte_error : forall bs1 bs2 k m e, length bs1 = length bs2 -> 0 < e < 256 ->
  xor_bytes bs1 bs2 = repeat 0 k ++ [e] ++ repeat 0 m -> crc24_ref bs1 <> crc24_ref bs2.
Proof.
  intros bs1 bs2 k m e Hl He Hx Heq.
  pose proof (crc24_ref_difference bs1 bs2 Hl) as Hd. rewrite Heq, Z.lxor_nilpotent, Hx in Hd.
  symmetry in Hd. exact (crc24_one_byte_error_detected k m e He Hd).
Qed.

(* ------------------------------------------------------------------ header bit layout *)
Ltac Zify.zify_post_hook ::= Z.to_euclidean_division_equations.

Lemma land_17 x : Z.land x 131071 = x mod 2 ^ 17.
Proof. change 131071 with (Z.ones 17). apply Z.land_ones. lia. Qed.

Lemma header_word_lor (c : bool) pl ul (sc : bool) : 0 <= pl < 2 ^ 17 -> 0 <= ul < 2 ^ 17 ->
  (let hd := pl in
   let hd := if c then Z.lor hd (Z.shiftl ul 17) else hd in
   let off := if c then 17 + 17 else 17 in
   if sc then Z.lor hd (Z.shiftl 1 off) else hd) = header_word c pl ul sc.
Proof.
  intros Hpl Hul. cbv zeta. unfold header_word. rewrite !Z.shiftl_mul_pow2 by (destruct c; lia).
  destruct c, sc.
  - rewrite (lor_disjoint_add pl ul 17) by lia. change (17 + 17) with 34.
    rewrite (lor_disjoint_add (pl + ul * 2 ^ 17) 1 34) by lia. lia.
  - rewrite (lor_disjoint_add pl ul 17) by lia. lia.
  - rewrite (lor_disjoint_add pl 1 17) by lia. lia.
  - lia.
Qed.

Theorem encode_header_spec : forall c pl ul sc hl, 0 <= pl <= MAX_PAYLOAD_LENGTH -> 0 <= ul <= MAX_PAYLOAD_LENGTH ->
  encode_header pl ul sc c hl = Ok [(header_word c pl ul sc, hl); (compute_crc24 (header_word c pl ul sc) hl, 3)].
Proof.
  intros c pl ul sc hl Hpl Hul. unfold MAX_PAYLOAD_LENGTH in *. unfold encode_header. cbv zeta.
  destruct (pl >? 131071) eqn:E; [lia|].
  pose proof (header_word_lor c pl ul sc ltac:(lia) ltac:(lia)) as Hw. cbv zeta in Hw.
  destruct c, sc; cbn [app]; rewrite <- Hw; reflexivity.
Qed.

Theorem encode_header_rejects : forall c pl ul sc hl, MAX_PAYLOAD_LENGTH < pl -> encode_header pl ul sc c hl = Raise.
Proof. intros c pl ul sc hl H. unfold MAX_PAYLOAD_LENGTH in H. unfold encode_header. cbv zeta. destruct (pl >? 131071) eqn:E; [reflexivity|lia]. Qed.

Theorem decode_header_spec : forall c hl hd crc,
  decode_header c hl hd crc =
  if crc =? compute_crc24 hd hl
  then Ok (hd mod 2 ^ 17, (if c then (hd / 2 ^ 17) mod 2 ^ 17 else -1),
           Z.testbit hd (if c then 34 else 17))
  else Raise.
Proof.
  intros c hl hd crc. unfold decode_header. cbv zeta. rewrite (Z.eqb_sym crc).
  destruct (compute_crc24 hd hl =? crc); cbn [negb]; [|reflexivity].
  rewrite !land_17, !Z.shiftr_div_pow2 by lia.
  assert (Hb : forall x, (Z.land x 1 =? 1) = Z.testbit x 0).
  { intros x. change 1 with (Z.ones 1) at 1. rewrite Z.land_ones by lia. change (2 ^ 1) with 2.
    rewrite Z.bit0_odd, Zmod_odd. destruct (Z.odd x); reflexivity. }
  destruct c; rewrite Hb; rewrite <- !Z.shiftr_div_pow2 by lia; rewrite ?Z.shiftr_shiftr by lia;
    rewrite Z.shiftr_spec by lia; reflexivity.
Qed.

Theorem header_roundtrip : forall c pl ul sc, 0 <= pl <= MAX_PAYLOAD_LENGTH -> 0 <= ul <= MAX_PAYLOAD_LENGTH ->
  exists hd crc, encode_header pl ul sc c (header_length c) = Ok [(hd, header_length c); (crc, 3)] /\
                 0 <= hd < 2 ^ (8 * header_length c) /\ 0 <= crc < 2 ^ 24 /\
                 decode_header c (header_length c) hd crc = Ok (pl, (if c then ul else -1), sc).
Proof.
  intros c pl ul sc Hpl Hul. eexists. eexists. split; [apply encode_header_spec; assumption|].
  unfold MAX_PAYLOAD_LENGTH in *. split; [|split; [apply compute_crc24_range|]].
  - unfold header_word, header_length. destruct c, sc; lia.
  - rewrite decode_header_spec, Z.eqb_refl. unfold header_word.
    destruct c, sc; repeat f_equal; try lia;
      match goal with |- Z.testbit ?x ?i = _ => rewrite Z.testbit_eqb by lia end; lia.
Qed.

(* a wrong CRC field is always rejected *)
Theorem decode_header_crc_mismatch : forall c hl hd crc, crc <> compute_crc24 hd hl -> decode_header c hl hd crc = Raise.
Proof. intros c hl hd crc H. rewrite decode_header_spec. destruct (crc =? compute_crc24 hd hl) eqn:E; [lia|reflexivity]. Qed.

Ltac Zify.zify_post_hook ::= idtac.

Print Assumptions compute_crc24_ref.
Print Assumptions compute_crc24_range.
Print Assumptions crc24_step_linear.
Print Assumptions crc24_step_injective.
Print Assumptions crc24_from_linear.
Print Assumptions crc24_ref_one_byte_error.
Print Assumptions header_roundtrip.
Print Assumptions decode_header_crc_mismatch.
