(* C34: calendar round trips, 'yyyy-mm-dd', time-of-day fields and strings, time-UUID layout and ordering. *)
From Coq Require Import ZArith List Bool Lia.
From Verif Require Import PyBase UtilTime DecDigits Civil TimeOfDay TimeUUID.
Import ListNotations.
Local Open Scope Z_scope.

(* ------------------------------------------------------------------ decimal digits *)
Lemma take_num_digits : forall k x acc rest,
  take_num k acc (to_digits k x ++ rest) = Some (acc * 10 ^ Z.of_nat k + x mod 10 ^ Z.of_nat k, rest).
Proof.
  induction k as [|k IH]; intros x acc rest.
  - cbn. rewrite Z.mod_1_r. f_equal. f_equal. lia.
  - cbn [to_digits take_num app].
    assert (0 < 10 ^ Z.of_nat k) as HP by (apply Z.pow_pos_nonneg; lia).
    set (P := 10 ^ Z.of_nat k) in *.
    pose proof (Z.mod_pos_bound (x / P) 10 ltac:(lia)) as Hd.
    replace ((48 <=? 48 + (x / P) mod 10) && (48 + (x / P) mod 10 <=? 57)) with true
      by (symmetry; apply andb_true_iff; split; apply Z.leb_le; lia).
    rewrite IH. fold P. f_equal. f_equal.
    rewrite Nat2Z.inj_succ, Z.pow_succ_r by lia. fold P.
    replace (10 * P) with (P * 10) by ring. rewrite (Z.rem_mul_r x P 10) by lia. ring.
Qed.

Lemma take_num_small : forall k x rest, 0 <= x < 10 ^ Z.of_nat k ->
  take_num k 0 (to_digits k x ++ rest) = Some (x, rest).
Proof. intros. rewrite take_num_digits. rewrite Z.mod_small by assumption. f_equal. Qed.

(* ------------------------------------------------------------------ exhaustive checks over finite ranges *)
Lemma allb_spec : forall f p base, allb f p base = true -> forall i, base <= i < base + Zpos p -> f i = true.
Proof.
  intros f. induction p as [q IH|q IH|]; intros base H i Hi; cbn [allb] in H.
  - apply andb_true_iff in H. destruct H as [H H3]. apply andb_true_iff in H. destruct H as [H1 H2].
    destruct (Z.eq_dec i base) as [->|Hne]; [exact H1|].
    destruct (Z_lt_ge_dec i (base + 1 + Zpos q)); [apply (IH _ H2); lia|apply (IH _ H3); lia].
  - apply andb_true_iff in H. destruct H as [H1 H2].
    destruct (Z_lt_ge_dec i (base + Zpos q)); [apply (IH _ H1); lia|apply (IH _ H2); lia].
  - assert (i = base) as -> by lia. exact H.
Qed.

Lemma era1_all : allb era_check1 146097 0 = true.
Proof. vm_compute. reflexivity. Qed.

Lemma era2_all : allb (fun yoe => allb (fun m => allb (fun d => era_check2 yoe m d) 31 1) 12 1) 400 0 = true.
Proof. vm_compute. reflexivity. Qed.

Lemma era1 : forall doe, 0 <= doe < 146097 -> era_check1 doe = true.
Proof. intros doe H. apply (allb_spec era_check1 146097 0 era1_all). lia. Qed.

Lemma era2 : forall yoe m d, 0 <= yoe < 400 -> 1 <= m <= 12 -> 1 <= d <= 31 -> era_check2 yoe m d = true.
Proof.
  intros yoe m d Hy Hm Hd.
  pose proof (allb_spec _ _ _ era2_all yoe ltac:(lia)) as H1. cbv beta in H1.
  pose proof (allb_spec _ _ _ H1 m ltac:(lia)) as H2. cbv beta in H2.
  exact (allb_spec _ _ _ H2 d ltac:(lia)).
Qed.

(* ------------------------------------------------------------------ the calendar *)
Lemma is_leap_shift : forall a e, is_leap (a + 400 * e) = is_leap a.
Proof.
  intros a e. unfold is_leap.
  assert ((a + 400 * e) mod 4 = a mod 4) as -> by (replace (a + 400 * e) with (a + (100 * e) * 4) by ring; apply Z_mod_plus_full).
  assert ((a + 400 * e) mod 100 = a mod 100) as -> by (replace (a + 400 * e) with (a + (4 * e) * 100) by ring; apply Z_mod_plus_full).
  assert ((a + 400 * e) mod 400 = a mod 400) as -> by (replace (a + 400 * e) with (a + e * 400) by ring; apply Z_mod_plus_full).
  reflexivity.
Qed.

Lemma valid_date_shift : forall a e m d, valid_date (a + 400 * e) m d = valid_date a m d.
Proof. intros. unfold valid_date, days_in_month. rewrite is_leap_shift. reflexivity. Qed.

Lemma days_in_month_le : forall y m, days_in_month y m <= 31.
Proof. intros. unfold days_in_month. destruct (m =? 2); [destruct (is_leap y); lia|]. destruct ((m =? 4) || (m =? 6) || (m =? 9) || (m =? 11)); lia. Qed.

Lemma valid_date_bounds : forall y m d, valid_date y m d = true -> 1 <= m <= 12 /\ 1 <= d <= 31 /\ d <= days_in_month y m.
Proof.
  intros y m d H. unfold valid_date in H. repeat (apply andb_true_iff in H; destruct H as [H ?]).
  pose proof (days_in_month_le y m). rewrite ?Z.leb_le in *. lia.
Qed.

Lemma div_mod_era : forall r e k, 0 < k -> 0 <= r < k -> (r + e * k) / k = e /\ (r + e * k) mod k = r.
Proof.
  intros r e k Hk Hr. split.
  - rewrite Z.div_add by lia. rewrite Z.div_small by lia. lia.
  - rewrite Z.mod_add by lia. apply Z.mod_small. lia.
Qed.

Lemma days_of_civil_of_days : forall n, let '(y, m, d) := civil_from_days n in
  days_from_civil y m d = n /\ valid_date y m d = true.
Proof.
  intro n. unfold civil_from_days. set (z := n + 719468).
  pose proof (Z.mod_pos_bound z 146097 ltac:(lia)) as Hb.
  pose proof (era1 _ Hb) as E. unfold era_check1 in E.
  destruct (ymd_of_doe (z mod 146097)) as [[yoe m] d].
  repeat (apply andb_true_iff in E; destruct E as [E ?]).
  rewrite ?Z.leb_le, ?Z.ltb_lt, ?Z.eqb_eq in *.
  set (era := z / 146097) in *.
  split.
  - unfold days_from_civil.
    assert ((if m <=? 2 then yoe + era * 400 + (if m <=? 2 then 1 else 0) - 1
             else yoe + era * 400 + (if m <=? 2 then 1 else 0)) = yoe + era * 400) as -> by (destruct (m <=? 2); lia).
    destruct (div_mod_era yoe era 400 ltac:(lia) ltac:(lia)) as [-> ->].
    match goal with H : doe_of yoe m d = _ |- _ => rewrite H end.
    pose proof (Z.div_mod z 146097 ltac:(lia)). unfold era, z in *. lia.
  - replace (yoe + era * 400 + (if m <=? 2 then 1 else 0)) with (yoe + (if m <=? 2 then 1 else 0) + 400 * era) by ring.
    rewrite valid_date_shift. assumption.
Qed.

Lemma civil_of_days_of_civil : forall y m d, valid_date y m d = true ->
  civil_from_days (days_from_civil y m d) = (y, m, d).
Proof.
  intros y m d V. destruct (valid_date_bounds _ _ _ V) as [Hm [Hd _]].
  unfold days_from_civil. set (c := if m <=? 2 then 1 else 0).
  assert ((if m <=? 2 then y - 1 else y) = y - c) as -> by (unfold c; destruct (m <=? 2); lia).
  set (era := (y - c) / 400). set (yoe := (y - c) mod 400).
  pose proof (Z.mod_pos_bound (y - c) 400 ltac:(lia)) as Hy. fold yoe in Hy.
  pose proof (Z.div_mod (y - c) 400 ltac:(lia)) as Hdm. fold era yoe in Hdm.
  assert (valid_date (yoe + c) m d = true) as V'.
  { rewrite <- (valid_date_shift (yoe + c) era). replace (yoe + c + 400 * era) with y by lia. exact V. }
  pose proof (era2 yoe m d Hy Hm Hd) as E. unfold era_check2 in E. fold c in E. rewrite V' in E. cbn [negb orb] in E.
  apply andb_true_iff in E. destruct E as [E E3]. apply andb_true_iff in E. destruct E as [E1 E2].
  rewrite Z.leb_le in E1. rewrite Z.ltb_lt in E2.
  unfold civil_from_days.
  replace (era * 146097 + doe_of yoe m d - 719468 + 719468) with (doe_of yoe m d + era * 146097) by ring.
  destruct (div_mod_era (doe_of yoe m d) era 146097 ltac:(lia) ltac:(lia)) as [-> ->].
  destruct (ymd_of_doe (doe_of yoe m d)) as [[yoe' m'] d'].
  apply andb_true_iff in E3. destruct E3 as [E3 E5]. apply andb_true_iff in E3. destruct E3 as [E3 E4].
  rewrite Z.eqb_eq in E3, E4, E5. subst yoe' m' d'. fold c. f_equal. f_equal. lia.
Qed.

Lemma year_range : forall n, MIN_DAY <= n <= MAX_DAY -> let '(y, m, d) := civil_from_days n in 1 <= y <= 9999.
Proof.
  intros n Hn. unfold MIN_DAY, MAX_DAY in Hn. unfold civil_from_days. set (z := n + 719468).
  pose proof (Z.mod_pos_bound z 146097 ltac:(lia)) as Hb.
  pose proof (era1 _ Hb) as E. unfold era_check1 in E.
  destruct (ymd_of_doe (z mod 146097)) as [[yoe m] d].
  repeat (apply andb_true_iff in E; destruct E as [E ?]).
  pose proof (Z.div_mod z 146097 ltac:(lia)) as Hdm.
  set (era := z / 146097) in *. set (doe := z mod 146097) in *. set (c := if m <=? 2 then 1 else 0) in *.
  assert (0 <= c <= 1) as Hc by (unfold c; destruct (m <=? 2); lia).
  assert (0 <= era <= 24) as He by (unfold z in *; lia).
  clearbody c era doe.
  repeat match goal with H : (_ || _) = true |- _ => apply orb_true_iff in H; destruct H as [H|H] end;
    rewrite ?Z.leb_le, ?Z.ltb_lt, ?Z.eqb_eq in *; unfold z in *; lia.
Qed.

Lemma parse_print_date : forall y m d, 1 <= y <= 9999 -> valid_date y m d = true ->
  parse_date (print_date y m d) = Some (y, m, d).
Proof.
  intros y m d Hy V. destruct (valid_date_bounds _ _ _ V) as [Hm [Hd _]].
  unfold parse_date, print_date.
  rewrite take_num_small by (cbn; lia). cbn [app expect]. rewrite Z.eqb_refl.
  rewrite take_num_small by (cbn; lia). cbn [app expect]. rewrite Z.eqb_refl.
  rewrite <- (app_nil_r (to_digits 2 d)). rewrite take_num_small by (cbn; lia).
  rewrite V. replace (1 <=? y) with true by (symmetry; apply Z.leb_le; lia). reflexivity.
Qed.

Lemma date_string_roundtrip : forall n, MIN_DAY <= n <= MAX_DAY -> date_of_str (date_str n) = Some n.
Proof.
  intros n Hn. unfold date_of_str, date_str.
  pose proof (year_range n Hn) as Y. pose proof (days_of_civil_of_days n) as D.
  destruct (civil_from_days n) as [[y m] d]. destruct D as [D V].
  rewrite (parse_print_date y m d Y V). rewrite D. reflexivity.
Qed.

(* ------------------------------------------------------------------ time of day *)
Ltac Zify.zify_post_hook ::= Z.to_euclidean_division_equations.

(* Date(datetime): the time of day never moves the date, before or after the epoch *)
Lemma date_from_datetime_day : forall y m d hh mm ss, valid_tod hh mm ss = true ->
  date_from_datetime y m d hh mm ss = days_from_civil y m d.
Proof.
  intros y m d hh mm ss V. unfold valid_tod in V. repeat (apply andb_true_iff in V; destruct V as [V ?]).
  rewrite ?Z.leb_le in *. unfold date_from_datetime, timegm. generalize (days_from_civil y m d). intro n. lia.
Qed.

Lemma date_from_datetime_roundtrip : forall y m d hh mm ss, valid_date y m d = true -> valid_tod hh mm ss = true ->
  civil_from_days (date_from_datetime y m d hh mm ss) = (y, m, d).
Proof. intros. rewrite date_from_datetime_day by assumption. apply civil_of_days_of_civil. assumption. Qed.

Lemma time_fields_ok : forall n, 0 <= n < DAY ->
  of_fields (time_hour n) (time_minute n) (time_second n) (time_nanosecond n) = n /\
  0 <= time_hour n <= 23 /\ 0 <= time_minute n <= 59 /\ 0 <= time_second n <= 59 /\ 0 <= time_nanosecond n <= 999999999.
Proof.
  intros n H. unfold DAY in H. unfold of_fields, time_hour, time_minute, time_second, time_nanosecond. lia.
Qed.

Lemma time_parse_str : forall n, 0 <= n < DAY -> time_parse (time_str n) = Some n.
Proof.
  intros n H. destruct (time_fields_ok n H) as [F [Hh [Hm [Hs Hn]]]].
  unfold time_parse, time_str.
  set (h := time_hour n) in *. set (m := time_minute n) in *. set (s := time_second n) in *. set (ns := time_nanosecond n) in *.
  rewrite take_num_small by (cbn; lia). cbn [app expect]. rewrite Z.eqb_refl.
  rewrite take_num_small by (cbn; lia). cbn [app expect]. rewrite Z.eqb_refl.
  rewrite take_num_small by (cbn; lia). cbn [app expect]. rewrite Z.eqb_refl.
  rewrite <- (app_nil_r (to_digits 9 ns)). rewrite take_num_small by (cbn; lia).
  replace ((h <=? 23) && (m <=? 59) && (s <=? 61)) with true
    by (symmetry; rewrite !andb_true_iff; repeat split; apply Z.leb_le; lia).
  rewrite F. replace ((0 <=? n) && (n <? DAY)) with true
    by (symmetry; rewrite andb_true_iff; split; [apply Z.leb_le|apply Z.ltb_lt]; lia).
  reflexivity.
Qed.

Lemma time_parse_range : forall s n, time_parse s = Some n -> 0 <= n < DAY.
Proof.
  intros s n. unfold time_parse.
  repeat match goal with
         | |- (if ?c then _ else _) = _ -> _ => destruct c eqn:?; try discriminate
         | |- (let (_, _) := ?x in _) = _ -> _ => destruct x
         | |- match ?x with _ => _ end = _ -> _ => destruct x; try discriminate
         end.
  intro E. injection E as <-.
  match goal with H : ((0 <=? _) && _) = true |- _ => apply andb_true_iff in H; destruct H as [H1 H2] end.
  rewrite Z.leb_le in H1. rewrite Z.ltb_lt in H2. split; assumption.
Qed.

(* ------------------------------------------------------------------ time UUIDs *)
Lemma lor_4096 : forall x, 0 <= x < 4096 -> Z.lor 4096 x = 4096 + x.
Proof.
  intros x H. assert (allb (fun x => Z.lor 4096 x =? 4096 + x) 4096 0 = true) as A by (vm_compute; reflexivity).
  apply Z.eqb_eq. apply (allb_spec _ _ _ A). lia.
Qed.
Lemma lor_128 : forall x, 0 <= x < 64 -> Z.lor 128 x = 128 + x.
Proof.
  intros x H. assert (allb (fun x => Z.lor 128 x =? 128 + x) 64 0 = true) as A by (vm_compute; reflexivity).
  apply Z.eqb_eq. apply (allb_spec _ _ _ A). lia.
Qed.

Lemma land_mask : forall a k, 0 <= k -> Z.land a (2 ^ k - 1) = a mod 2 ^ k.
Proof. intros a k H. rewrite <- Z.land_ones by exact H. rewrite Z.ones_equiv. reflexivity. Qed.

Lemma uuid_fields : forall us node clock,
  let i := us * 10 + OFFSET in
  let u := uuid_from_us us node clock in
  f_low u = i mod 2 ^ 32 /\ f_mid u = (i / 2 ^ 32) mod 2 ^ 16 /\ f_hiv u = 4096 + (i / 2 ^ 48) mod 4096 /\
  f_csh u = 128 + (clock / 256) mod 64 /\ f_csl u = clock mod 256 /\ f_node u = node.
Proof.
  intros us node clock i u. unfold u, uuid_from_us. fold i. cbn [f_low f_mid f_hiv f_csh f_csl f_node].
  rewrite !Z.shiftr_div_pow2 by lia.
  change 4294967295 with (2 ^ 32 - 1). change 65535 with (2 ^ 16 - 1). change 4095 with (2 ^ 12 - 1).
  change 63 with (2 ^ 6 - 1). change 255 with (2 ^ 8 - 1).
  rewrite !land_mask by lia.
  rewrite lor_4096 by (apply Z.mod_pos_bound; reflexivity).
  rewrite lor_128 by (apply Z.mod_pos_bound; reflexivity).
  repeat split; reflexivity.
Qed.

Lemma uuid_time_exact : forall us node clock, 0 <= us * 10 + OFFSET < 2 ^ 60 ->
  uuid_time (uuid_from_us us node clock) = us * 10 + OFFSET.
Proof.
  intros us node clock H. destruct (uuid_fields us node clock) as [E1 [E2 [E3 _]]].
  unfold uuid_time. rewrite E1, E2, E3. set (i := us * 10 + OFFSET) in *.
  change (2 ^ 60) with 1152921504606846976 in H. change (2 ^ 48) with 281474976710656.
  change (2 ^ 32) with 4294967296. change (2 ^ 16) with 65536. lia.
Qed.

Lemma decode_exact : forall us node clock, 0 <= us * 10 + OFFSET < 2 ^ 60 ->
  decode_us (uuid_from_us us node clock) = us.
Proof.
  intros us node clock H. unfold decode_us. rewrite uuid_time_exact by exact H.
  replace (us * 10 + OFFSET - OFFSET) with (us * 10) by ring. apply Z.div_mul. lia.
Qed.

Definition byte_ok (b : Z) : Prop := 0 <= b < 256.

Lemma cmp_min : forall l, Forall byte_ok l -> cmp_signed_bytes (repeat 128 (length l)) l <> Gt.
Proof.
  induction l as [|b l IH]; intro F; cbn [length repeat cmp_signed_bytes]; [discriminate|].
  inversion F as [|? ? Hb F']; subst. unfold byte_ok in Hb.
  destruct (signed8 128 ?= signed8 b) eqn:C; [apply IH; exact F'|discriminate|].
  exfalso. apply Z.compare_gt_iff in C. change (signed8 128) with (-128) in C. unfold signed8 in C. destruct (b <? 128) eqn:E; rewrite ?Z.ltb_lt, ?Z.ltb_ge in E; lia.
Qed.

Lemma cmp_max : forall l, Forall byte_ok l -> cmp_signed_bytes l (repeat 127 (length l)) <> Gt.
Proof.
  induction l as [|b l IH]; intro F; cbn [length repeat cmp_signed_bytes]; [discriminate|].
  inversion F as [|? ? Hb F']; subst. unfold byte_ok in Hb.
  destruct (signed8 b ?= signed8 127) eqn:C; [apply IH; exact F'|discriminate|].
  exfalso. apply Z.compare_gt_iff in C. change (signed8 127) with 127 in C. unfold signed8 in C. destruct (b <? 128) eqn:E; rewrite ?Z.ltb_lt, ?Z.ltb_ge in E; lia.
Qed.

Lemma cmp_cons : forall x a y b, cmp_signed_bytes (x :: a) (y :: b) =
  match signed8 x ?= signed8 y with Eq => cmp_signed_bytes a b | c => c end.
Proof. reflexivity. Qed.

Lemma uuid_bounds : forall us node clock, 0 <= node < 2 ^ 48 -> 0 <= clock < 2 ^ 14 ->
  cass_le (min_uuid us) (uuid_from_us us node clock) = true /\ cass_le (uuid_from_us us node clock) (max_uuid us) = true.
Proof.
  intros us node clock Hn Hc.
  destruct (uuid_fields us node clock) as [_ [_ [_ [E4 [E5 E6]]]]].
  assert (forall a b, uuid_time (uuid_from_us us a b) = uuid_time (uuid_from_us us node clock)) as T by reflexivity.
  assert (Forall byte_ok (skipn 1 (lsb_bytes (uuid_from_us us node clock)))) as FB.
  { unfold lsb_bytes. cbn [skipn]. rewrite E5, E6.
    repeat constructor; apply Z.mod_pos_bound; reflexivity. }
  pose proof (Z.mod_pos_bound (clock / 256) 64 ltac:(lia)) as Hq.
  unfold cass_le, cass_compare, min_uuid, max_uuid. rewrite (T 141289400074368 128), (T 140185576636287 16255), !Z.compare_refl. split.
  - assert (lsb_bytes (uuid_from_us us 141289400074368 128) = repeat 128 (length (lsb_bytes (uuid_from_us us node clock)))) as -> by reflexivity.
    pose proof (cmp_min (lsb_bytes (uuid_from_us us node clock))) as M.
    destruct (cmp_signed_bytes _ _); try reflexivity. exfalso. apply M; [|reflexivity].
    unfold lsb_bytes in *. cbn [skipn] in FB. constructor; [|exact FB]. rewrite E4. unfold byte_ok. lia.
  - assert (lsb_bytes (uuid_from_us us 140185576636287 16255) = 191 :: repeat 127 (length (skipn 1 (lsb_bytes (uuid_from_us us node clock))))) as -> by reflexivity.
    assert (lsb_bytes (uuid_from_us us node clock) = f_csh (uuid_from_us us node clock) :: skipn 1 (lsb_bytes (uuid_from_us us node clock))) as EL by reflexivity.
    set (rest := skipn 1 (lsb_bytes (uuid_from_us us node clock))) in *. rewrite EL, cmp_cons, E4.
    set (q := (clock / 256) mod 64) in *.
    assert (signed8 (128 + q) = q - 128) as -> by (unfold signed8; destruct (128 + q <? 128) eqn:E; rewrite ?Z.ltb_lt, ?Z.ltb_ge in E; lia).
    change (signed8 191) with (-65).
    destruct (q - 128 ?= -65) eqn:C.
    + destruct (cmp_signed_bytes rest (repeat 127 (length rest))) eqn:CC; [reflexivity|reflexivity|].
      exfalso. exact (cmp_max rest FB CC).
    + reflexivity.
    + apply Z.compare_gt_iff in C. lia.
Qed.

(* ------------------------------------------------------------------ Time(int) range: over the TRANSLATED _from_timestamp *)
Lemma time_accepts_range : forall n, time_accepts n = true <-> 0 <= n < DAY.
Proof.
  intro n. unfold time_accepts, time_from_timestamp, DAY.
  destruct (n <? 0) eqn:E1; destruct (n >=? 86400000000000) eqn:E2; cbn [orb andb negb];
    rewrite ?Z.ltb_lt, ?Z.ltb_ge in E1; rewrite ?Z.geb_le in E2; rewrite ?Z.geb_leb, ?Z.leb_gt in E2;
    (split; [intro H; try discriminate H; lia | intro H; try reflexivity; lia]).
Qed.

Lemma time_value_id : forall n v, time_value n = Some v -> v = n.
Proof.
  intros n v. unfold time_value, time_from_timestamp.
  destruct (n <? 0); destruct (n >=? 86400000000000); cbn [orb andb negb]; intro H; try discriminate H; injection H as <-; reflexivity.
Qed.
