(* C02: the model's encoders against the independent specification (CassandraSpecInt.v / CassandraSpec.v). *)
From Coq Require Import ZArith List Bool Lia.
From Verif Require Import PyBase MarshalModel Utf8Model CqlType CqlCodec CassandraSpecInt CassandraSpec
  Marshal_proofs Vint_proofs Utf8_proofs C01_proofs.
Import ListNotations.
Local Open Scope Z_scope.

(* ------------------------------------------------------------------ fixed-width integers *)
Lemma spec_be_S : forall n u, spec_be (S n) u = spec_be n (u / 256) ++ [u mod 256].
Proof.
  induction n; intros.
  - cbn [spec_be app]. change (8 * Z.of_nat 0) with 0. rewrite Z.shiftr_0_r. reflexivity.
  - change (spec_be (S (S n)) u) with (Z.shiftr u (8 * Z.of_nat (S n)) mod 256 :: spec_be (S n) u).
    rewrite IHn.
    change (spec_be (S n) (u / 256)) with (Z.shiftr (u / 256) (8 * Z.of_nat n) mod 256 :: spec_be n (u / 256)).
    cbn [app]. f_equal. f_equal. rewrite !Z.shiftr_div_pow2 by lia.
    rewrite Z.div_div by (try lia; apply Z.pow_pos_nonneg; lia). f_equal.
    replace (8 * Z.of_nat (S n)) with (8 + 8 * Z.of_nat n) by lia. rewrite Z.pow_add_r by lia. reflexivity.
Qed.

Lemma be_bytes_spec_be : forall n u, be_bytes n u = spec_be n u.
Proof.
  induction n; intros; [reflexivity|]. rewrite be_bytes_S, spec_be_S, IHn. reflexivity.
Qed.

Definition int_range (n : nat) (signed : bool) (z : Z) : bool :=
  let bits := 8 * Z.of_nat n in
  if signed then in_z (- 2 ^ (bits - 1)) (2 ^ (bits - 1)) z else in_z 0 (2 ^ bits) z.

Lemma pack_int_exact : forall n s z, pack_int n s z = if int_range n s z then Some (spec_be n z) else None.
Proof.
  intros. unfold pack_int, int_range, in_z. rewrite be_bytes_spec_be. destruct s; reflexivity.
Qed.

(* ------------------------------------------------------------------ text *)
Lemma utf8_enc1_some_iff : forall c, 0 <= c < 1114112 -> (scalar_cp c = true <-> exists b, utf8_enc1 c = Some b).
Proof.
  intros c Hc. unfold scalar_cp, utf8_enc1, in_z.
  destruct (c <? 0) eqn:A; [apply Z.ltb_lt in A; lia|].
  destruct (0 <=? c) eqn:A0; [|apply Z.leb_gt in A0; lia].
  destruct (c <? 1114112) eqn:A1; [|apply Z.ltb_ge in A1; lia]. cbn [andb].
  destruct (c <? 128) eqn:B1.
  { assert (S : is_surrogate c = false) by (unfold is_surrogate; apply Z.ltb_lt in B1; destruct (55296 <=? c) eqn:X; [apply Z.leb_le in X; lia | reflexivity]).
    rewrite S. split; eauto. }
  destruct (c <? 2048) eqn:B2.
  { assert (S : is_surrogate c = false) by (unfold is_surrogate; apply Z.ltb_lt in B2; destruct (55296 <=? c) eqn:X; [apply Z.leb_le in X; lia | reflexivity]).
    rewrite S. split; eauto. }
  destruct (c <? 65536) eqn:B3.
  { destruct (is_surrogate c); cbn [negb]; split; eauto; try discriminate. intros [b Hb]. discriminate. }
  assert (S : is_surrogate c = false) by (unfold is_surrogate; apply Z.ltb_ge in B3; destruct (c <=? 57343) eqn:X; [apply Z.leb_le in X; lia | apply andb_false_r]).
  rewrite S. split; eauto.
Qed.

Lemma utf8_enc1_none : forall c, 0 <= c < 1114112 -> (utf8_enc1 c = None <-> scalar_cp c = false).
Proof.
  intros c Hc. destruct (utf8_enc1_some_iff c Hc) as [I1 I2]. split; intros H.
  - destruct (scalar_cp c) eqn:S; [|reflexivity]. destruct (I1 eq_refl) as [b Hb]. congruence.
  - destruct (utf8_enc1 c) eqn:E; [|reflexivity]. rewrite I2 in H by eauto. discriminate.
Qed.

Lemma utf8_encode_none_iff : forall cps, forallb (in_z 0 1114112) cps = true ->
  (utf8_encode cps = None <-> forallb scalar_cp cps = false).
Proof.
  induction cps as [|c r IH]; intros K; [cbn; split; discriminate|].
  cbn [forallb] in *. apply andb_true_iff in K. destruct K as [Kc Kr]. apply in_z_iff in Kc.
  specialize (IH Kr). destruct (utf8_enc1_none c Kc) as [N1 N2]. cbn [utf8_encode]. split; intros H.
  - destruct (utf8_enc1 c) eqn:E.
    + destruct (utf8_encode r) eqn:Er; [discriminate|]. rewrite (proj1 IH eq_refl). apply andb_false_r.
    + rewrite (N1 eq_refl). reflexivity.
  - apply andb_false_iff in H. destruct H as [H | H].
    + rewrite (N2 H). reflexivity.
    + rewrite (proj2 IH H). destruct (utf8_enc1 c); reflexivity.
Qed.

Lemma utf8_encode_exact : forall cps, forallb (in_z 0 1114112) cps = true ->
  utf8_encode cps = if forallb scalar_cp cps then Some (spec_utf8 cps) else None.
Proof.
  intros cps K. destruct (utf8_encode_none_iff cps K) as [I1 I2]. unfold spec_utf8.
  destruct (utf8_encode cps) eqn:E; destruct (forallb scalar_cp cps) eqn:F; try reflexivity.
  - specialize (I2 eq_refl). discriminate.
  - specialize (I1 eq_refl). discriminate.
Qed.

(* ------------------------------------------------------------------ scalars: exact or refused *)
Definition proved_scalar (s : scalar) : bool :=
  match s with SVarint | SDecimal | SDuration => false | _ => true end.

Lemma scalar_exact : forall s v, proved_scalar s = true -> kind_scalar s v = true ->
  ser_scalar s v = if range_scalar s v then Some (spec_scalar s v) else None.
Proof.
  intros s v P K.
  destruct s; try discriminate P; destruct v; try discriminate K;
    cbn [ser_scalar range_scalar spec_scalar]; try reflexivity; try (rewrite pack_int_exact; reflexivity).
  - (* date *) rewrite pack_int_exact. unfold int_range, in_z. change (2 ^ (8 * Z.of_nat 4)) with (2 ^ 31 + 2 ^ 31). change 2147483648 with (2 ^ 31).
    destruct (- 2 ^ 31 <=? z) eqn:A; destruct (z <? 2 ^ 31) eqn:B; destruct (0 <=? z + 2 ^ 31) eqn:C; destruct (z + 2 ^ 31 <? 2 ^ 31 + 2 ^ 31) eqn:D;
      try reflexivity; exfalso;
      try (apply Z.leb_le in A); try (apply Z.leb_gt in A); try (apply Z.ltb_lt in B); try (apply Z.ltb_ge in B);
      try (apply Z.leb_le in C); try (apply Z.leb_gt in C); try (apply Z.ltb_lt in D); try (apply Z.ltb_ge in D); lia.
  - (* text *) cbn [kind_scalar] in K. apply utf8_encode_exact. assumption.
  - (* time *) rewrite pack_int_exact. unfold int_range, in_z. change (2 ^ (8 * Z.of_nat 8 - 1)) with (2 ^ 63).
    destruct ((0 <=? z) && (z <? DAY_NANOS)) eqn:A; [|reflexivity].
    apply andb_true_iff in A. destruct A as [A0 A]. apply Z.leb_le in A0. apply Z.ltb_lt in A.
    unfold DAY_NANOS in A. assert (H63 : 2 ^ 63 = 9223372036854775808) by reflexivity.
    destruct (- 2 ^ 63 <=? z) eqn:B; [|apply Z.leb_gt in B; lia].
    destruct (z <? 2 ^ 63) eqn:C; [reflexivity|]. apply Z.ltb_ge in C. lia.
Qed.

(* ------------------------------------------------------------------ null elements *)
Lemma null_element_exact : forall pv ser, enc_elem pv ser VNull = if 3 <=? pv then Some (spec_elem pv (fun _ => []) VNull) else None.
Proof.
  intros. cbn [enc_elem spec_elem]. unfold pack_len, spec_len, spec_lenw, lenw. rewrite pack_int_exact.
  destruct (3 <=? pv); reflexivity.
Qed.

(* ------------------------------------------------------------------ no two values share an encoding *)
Lemma encoding_injective : forall pv t v1 v2 bs,
  wf_type t = true -> py_repr t v1 = true -> py_repr t v2 = true -> v1 <> VNull -> v2 <> VNull ->
  to_binary pv t v1 = Some bs -> to_binary pv t v2 = Some bs -> norm t v1 = norm t v2.
Proof.
  intros pv t v1 v2 bs W Y1 Y2 N1 N2 H1 H2.
  pose proof (roundtrip_to_from pv t v1 bs W Y1 N1 H1) as R1.
  pose proof (roundtrip_to_from pv t v2 bs W Y2 N2 H2) as R2.
  rewrite R1 in R2. inversion R2. reflexivity.
Qed.

(* ------------------------------------------------------------------ the calendar day of an instant (util.Date of a datetime) *)
Lemma date_of_instant : forall d tod, 0 <= tod < 86400 -> date_days_of_seconds (86400 * d + tod) = d.
Proof. intros d tod H. unfold date_days_of_seconds. symmetry. apply Z.div_unique with (r := tod); lia. Qed.

Lemma date_day_contains : forall secs, 86400 * date_days_of_seconds secs <= secs < 86400 * (date_days_of_seconds secs + 1).
Proof.
  intros. unfold date_days_of_seconds. pose proof (Z.div_mod secs 86400 ltac:(lia)). pose proof (Z.mod_pos_bound secs 86400 ltac:(lia)). lia.
Qed.
