(* BRIDGE between the source-translated marshal codecs (Gen/MarshalGen.v, regenerated from cassandra/marshal.py on
   every run) and the hand-written model Model/MarshalModel.v that the C01/C02 theorems are stated about:

       forall input,  Gen.f input  =  MarshalModel.f input      (res/option reading: Ok <-> Some, Raise <-> None,
                                                                 Fuel never)

   so that everything proved about MarshalModel holds of the code that is actually in the working tree.  A semantic
   change to marshal.py breaks a lemma here (a proof obligation), not silently the model.
   Names clash on purpose (same function names in both files): everything from the hand model is qualified. *)
From Coq Require Import ZArith List Bool Lia ZifyBool.
From Verif Require Import PyBase JavaBigInteger VIntCoding MarshalGen BytesBE Marshal_varint Marshal_vint Marshal_vints.
From Verif Require MarshalModel CassandraSpecInt Marshal_proofs Vint_proofs MarshalGen_proofs.
Import ListNotations.
Local Open Scope Z_scope.

Module M := MarshalModel.

(* ------------------------------------------------------------------ the two digit representations agree *)
Lemma model_le_bytes n u : M.le_bytes n u = rev (be_bytes n u).
Proof.
  revert u. induction n as [|n IH]; intros u; [reflexivity|].
  cbn [M.le_bytes]. rewrite be_bytes_snoc, rev_app_distr. cbn [rev app]. rewrite IH, shiftr_8. reflexivity.
Qed.

Lemma model_be_bytes n u : M.be_bytes n u = be_bytes n u.
Proof. unfold M.be_bytes. rewrite model_le_bytes. apply rev_involutive. Qed.

Lemma pow256_pow2 (k : nat) : 256 ^ Z.of_nat k = 2 ^ (8 * Z.of_nat k).
Proof. symmetry. apply Marshal_proofs.pow256. Qed.

Lemma model_be_val bs a : py_be_acc bs a = a * 256 ^ Z.of_nat (length bs) + M.be_val bs.
Proof.
  revert a. induction bs as [|b bs IH]; intros a.
  - cbn. unfold M.be_val. cbn. lia.
  - cbn [py_be_acc length]. rewrite IH, Marshal_proofs.be_val_cons, Marshal_proofs.pow256_S. ring.
Qed.

(* ------------------------------------------------------------------ varint_pack *)
Lemma model_digits big : 0 < big -> exists k : nat, exact_bytes (S k) big /\
  M.le_digits (M.digits_fuel big) big = rev (be_bytes (S k) big) /\
  (S k < S (Z.to_nat (Z.log2 (Z.abs big) + 9)))%nat.
Proof.
  intros Hb. destruct (Marshal_proofs.digits_exist big Hb) as (k & Hr & Hf). exists k.
  rewrite !pow256_pow2 in Hr.
  split; [|split].
  - unfold exact_bytes. split; [lia|]. intros _. replace (8 * Z.of_nat (S k) - 8) with (8 * Z.of_nat k) by lia. lia.
  - rewrite (Marshal_proofs.le_digits_le_bytes k) by (rewrite ?pow256_pow2; assumption). apply model_le_bytes.
  - unfold M.digits_fuel in Hf. rewrite Z.abs_eq by lia. pose proof (Z.log2_nonneg big). lia.
Qed.

Theorem bridge_varint_pack : forall z, varint_pack z = Ok (M.varint_pack z).
Proof.
  intros z. unfold varint_pack, M.varint_pack. cbv zeta.
  destruct (z =? 0) eqn:E0; [reflexivity|].
  destruct (z <? 0) eqn:Eneg.
  - unfold bit_length. rewrite Z.shiftl_1_l.
    set (bl := py_bit_length (Z.abs z - 1) / 8 + 1).
    set (big := 2 ^ (bl * 8) + z).
    assert (Hbig : 0 < big).
    { assert (Hbl : bl = java_byteLength z).
      { unfold bl, java_byteLength, java_bitLength. rewrite Eneg, py_bit_length_nbits.
        replace (Z.abs (Z.abs z - 1)) with (- z - 1) by lia. reflexivity. }
      pose proof (java_byteLength_range z) as HR. cbv zeta in HR. rewrite <- Hbl in HR. destruct HR as [H1 [Hlo _]].
      assert (H2 : 2 ^ (bl * 8) = 2 * 2 ^ (8 * bl - 1)).
      { replace (bl * 8) with (1 + (8 * bl - 1)) by lia. rewrite pow2_add by lia. reflexivity. }
      pose proof (pow2_pos (8 * bl - 1) ltac:(lia)). unfold big. lia. }
    destruct (model_digits big Hbig) as (k & Hex & Hd & Hf).
    rewrite (varint_loop1_spec (S k)) by assumption. cbn [bind app]. rewrite Hd. reflexivity.
  - assert (Hz : 0 < z) by lia.
    destruct (model_digits z Hz) as (k & Hex & Hd & Hf).
    rewrite (varint_loop2_spec (S k)) by assumption. cbn [bind app]. rewrite Hd.
    rewrite be_bytes_head. cbn [rev]. rewrite py_index_last. cbn [bind]. rewrite last_last.
    set (t := Z.shiftr z (8 * Z.of_nat k) mod 256).
    pose proof (mod256_range (Z.shiftr z (8 * Z.of_nat k))) as Ht. fold t in Ht.
    rewrite land_128 by exact Ht.
    destruct (t <? 128) eqn:E1; destruct (128 <=? t) eqn:E2; try lia; cbn [negb].
    + reflexivity.
    + rewrite py_byte_check_ok by lia. reflexivity.
Qed.

(* consequence for C02: the hand model's varint encoder IS BigInteger.toByteArray, for every integer *)
Corollary model_varint_pack_java : forall z, M.varint_pack z = java_toByteArray z.
Proof.
  intros z. pose proof (bridge_varint_pack z) as H. rewrite varint_pack_spec in H. congruence.
Qed.

Lemma spec_be_be_bytes n u : CassandraSpecInt.spec_be n u = be_bytes n u.
Proof. induction n as [|n IH]; [reflexivity|]. cbn [CassandraSpecInt.spec_be be_bytes]. f_equal; try exact IH. Qed.

Corollary model_varint_pack_spec : forall z, M.varint_pack z = CassandraSpecInt.spec_varint z.
Proof.
  intros z. rewrite model_varint_pack_java. unfold CassandraSpecInt.spec_varint, java_toByteArray.
  symmetry. apply spec_be_be_bytes.
Qed.

(* ------------------------------------------------------------------ varint_unpack *)
Theorem bridge_varint_unpack : forall bs, Forall is_byte bs ->
  res_to_option (varint_unpack bs) = M.varint_unpack bs.
Proof.
  intros bs Hb. destruct bs as [|b0 rest]; [reflexivity|].
  unfold varint_unpack, M.varint_unpack, py_be_to_int. cbn [bind]. rewrite py_index_head. cbn [bind].
  inversion Hb as [|? ? Hb0 _]; subst. unfold is_byte in Hb0. rewrite land_128 by exact Hb0.
  rewrite model_be_val. unfold M.len. rewrite Z.shiftl_1_l.
  replace (Z.of_nat (length (b0 :: rest)) * 8) with (8 * Z.of_nat (length (b0 :: rest))) by lia.
  destruct (b0 <? 128) eqn:E1; destruct (128 <=? b0) eqn:E2; try lia; cbn [negb res_to_option]; f_equal; lia.
Qed.

(* ------------------------------------------------------------------ zig-zag: the same expressions *)
Theorem bridge_encode_zig_zag : forall n, encode_zig_zag n = M.encode_zig_zag n.
Proof. reflexivity. Qed.
Theorem bridge_decode_zig_zag : forall n, decode_zig_zag n = M.decode_zig_zag n.
Proof. reflexivity. Qed.

(* ------------------------------------------------------------------ uvint_pack *)
Lemma stop_unique NB (k n : nat) :
  (forall i, 0 <= i < 0 + Z.of_nat k -> more NB i = true) -> more NB (0 + Z.of_nat k) = false ->
  (forall i, 0 <= i < 0 + Z.of_nat n -> more NB i = true) -> more NB (0 + Z.of_nat n) = false -> k = n.
Proof.
  intros Ak Xk An Xn. destruct (lt_eq_lt_dec k n) as [[Hlt|Heq]|Hgt]; [exfalso|exact Heq|exfalso].
  - specialize (An (0 + Z.of_nat k) ltac:(lia)). congruence.
  - specialize (Ak (0 + Z.of_nat n) ltac:(lia)). congruence.
Qed.

Lemma model_loop v : 0 < v ->
  exists k : nat, M.vint_loop (Z.to_nat (nbits v)) 0 (nbits v) v [] = (Z.of_nat k, Z.shiftr v (8 * Z.of_nat k), be_bytes k v) /\
    (forall i, 0 <= i < 0 + Z.of_nat k -> more (nbits v) i = true) /\ more (nbits v) (0 + Z.of_nat k) = false.
Proof.
  intros Hv. pose proof (nbits_nonneg v) as Hnb.
  destruct (Vint_proofs.vint_loop_inv (Z.to_nat (nbits v)) 0 (nbits v) v []) as (k & E & X & A); [lia|].
  exists k. split; [|split].
  - rewrite E, app_nil_r, model_be_bytes, pow256_pow2, Z.shiftr_div_pow2 by lia. reflexivity.
  - intros i Hi. unfold more. specialize (A (Z.to_nat i) ltac:(lia)). rewrite Z2Nat.id in A by lia. lia.
  - unfold more. lia.
Qed.

Lemma uvint_bytes_small v : 0 <= v < 128 -> uvint_bytes v = [v].
Proof.
  intros Hv. unfold uvint_bytes, vint_first_byte. cbv zeta. rewrite vint_extra_small by lia. change (Z.to_nat 0) with 0%nat.
  cbn [be_bytes]. change (8 * 0) with 0. rewrite Z.shiftr_0_r. unfold vint_prefix. change (256 - 2 ^ (8 - 0)) with 0. reflexivity.
Qed.

Theorem model_uvint_pack_spec : forall v, M.uvint_pack v = uvint_encode v.
Proof.
  intros v. unfold M.uvint_pack, uvint_encode.
  destruct (v <? 0) eqn:Eneg; [destruct ((0 <=? v) && (v <? 2 ^ 64)) eqn:E; [lia|reflexivity]|].
  destruct (v <? 128) eqn:Esm.
  { destruct ((0 <=? v) && (v <? 2 ^ 64)) eqn:E; [|lia]. rewrite uvint_bytes_small by lia. reflexivity. }
  rewrite py_bit_length_nbits, Z.abs_eq by lia.
  destruct (model_loop v ltac:(lia)) as (k & E & Ak & Xk). rewrite E.
  destruct ((0 <=? v) && (v <? 2 ^ 64)) eqn:Er.
  - destruct (vint_extra_char v ltac:(lia)) as (n & Hn & Hn8 & Hlt & Hge).
    destruct (more_in_range v n ltac:(lia) Hn8 ltac:(lia) Hlt Hge) as [An Xn].
    assert (k = n) by (apply (stop_unique (nbits v)); assumption). subst k.
    destruct (8 <? Z.of_nat n) eqn:E8; [lia|].
    destruct (first_byte_assembly v n ltac:(lia) Hn Hn8 Hlt) as [Hfb Hrange]. cbv zeta in Hfb, Hrange.
    destruct (high_bits_small v n ltac:(lia) Hn8 ltac:(lia) Hlt) as [Ha _].
    assert (Hnn : 0 <= Z.lor (Z.shiftr v (8 * Z.of_nat n)) (Z.shiftl (Z.shiftr 255 (8 - Z.of_nat n)) (8 - Z.of_nat n))).
    { apply Z.lor_nonneg. split; [exact Ha|]. apply Z.shiftl_nonneg. apply Z.shiftr_nonneg. lia. }
    rewrite Z.abs_eq in Hfb by exact Hnn. rewrite Hfb. unfold uvint_bytes. rewrite Hn, Nat2Z.id. reflexivity.
  - destruct (more_too_big v ltac:(lia)) as (Am & Xm & Hm8 & _). cbv zeta in *.
    assert (k = Z.to_nat ((nbits v + 7) / 8)) by (apply (stop_unique (nbits v)); assumption). subst k.
    destruct (8 <? Z.of_nat (Z.to_nat ((nbits v + 7) / 8))) eqn:E8; [reflexivity|lia].
Qed.

Theorem bridge_uvint_pack : forall v, res_to_option (uvint_pack v) = M.uvint_pack v.
Proof. intros v. rewrite uvint_pack_matches_spec, model_uvint_pack_spec. reflexivity. Qed.

(* ------------------------------------------------------------------ vints_pack *)
Theorem model_vints_pack_spec : forall vals, M.vints_pack vals = vints_encode vals.
Proof.
  induction vals as [|x vals IH]; [reflexivity|]. cbn [M.vints_pack vints_encode].
  rewrite model_uvint_pack_spec, IH. change (M.encode_zig_zag x) with (encode_zig_zag x).
  destruct (in_int64b x) eqn:E.
  - apply in_int64b_spec in E. destruct (zigzag_roundtrip_spec x E) as (Henc & Hu & _).
    unfold uvint_encode. unfold in_uint64 in Hu. destruct ((0 <=? encode_zig_zag x) && (encode_zig_zag x <? 2 ^ 64)) eqn:Er; [|lia].
    unfold vint_bytes. rewrite <- Henc. destruct (vints_encode vals); reflexivity.
  - assert (Hx : ~ in_int64 x) by (intros Hc; apply in_int64b_spec in Hc; congruence).
    pose proof (zigzag_out_of_range x Hx) as Hbig.
    unfold uvint_encode. destruct ((0 <=? encode_zig_zag x) && (encode_zig_zag x <? 2 ^ 64)) eqn:Er; [lia|reflexivity].
Qed.

Theorem bridge_vints_pack : forall vals, res_to_option (vints_pack vals) = M.vints_pack vals.
Proof. intros vals. rewrite vints_pack_matches_spec, model_vints_pack_spec. reflexivity. Qed.

(* ------------------------------------------------------------------ uvint_unpack, on EVERY byte string *)
Lemma model_extra_range b : 0 <= b < 256 -> 0 <= M.vint_extra b <= 8.
Proof.
  intros Hb.
  assert (H : ((0 <=? M.vint_extra b) && (M.vint_extra b <=? 8)) = true).
  { apply (byte_forall (fun b => (0 <=? M.vint_extra b) && (M.vint_extra b <=? 8))); [vm_compute; reflexivity|exact Hb]. }
  lia.
Qed.

Lemma unpack_loop_general : forall (k : nat) pre rest fb ne acc, Forall is_byte rest ->
  uvint_unpack_loop1 (map (fun j => Z.of_nat (length pre) + Z.of_nat j) (seq 0 k)) (pre ++ rest) fb ne acc
  = match M.read_be k acc rest with Some (v, _) => Ok v | None => Raise end.
Proof.
  induction k as [|k IH]; intros pre rest fb ne acc Hb; [reflexivity|].
  cbn [seq map uvint_unpack_loop1 M.read_be].
  replace (Z.of_nat (length pre) + Z.of_nat 0) with (Z.of_nat (length pre)) by lia.
  destruct rest as [|b r].
  - rewrite app_nil_r. rewrite py_index_out by lia. reflexivity.
  - inversion Hb as [|? ? Hx Hb']; subst. rewrite py_index_app_mid. cbn [bind]. rewrite shl8_lor_byte by exact Hx.
    rewrite <- seq_shift, map_map.
    specialize (IH (pre ++ [b]) r fb ne (acc * 256 + b) Hb').
    rewrite <- app_assoc in IH. cbn [app] in IH. rewrite <- IH. f_equal.
    apply map_ext. intros j. rewrite app_length. cbn [length]. lia.
Qed.

Theorem bridge_uvint_unpack : forall bs, Forall is_byte bs ->
  res_to_option (uvint_unpack bs) = option_map (fun r => (fst (fst r), snd (fst r))) (M.uvint_read bs).
Proof.
  intros bs Hb. destruct bs as [|first r]; [reflexivity|].
  inversion Hb as [|? ? Hf Hr]; subst. unfold is_byte in Hf.
  unfold uvint_unpack, M.uvint_read. rewrite py_index_head. cbn [bind].
  destruct (Z.land first 128 =? 0); [reflexivity|].
  change (8 - py_bit_length (Z.land (Z.lnot first) 255)) with (M.vint_extra first).
  pose proof (model_extra_range first Hf) as He. set (extra := M.vint_extra first) in *.
  replace (extra + 1) with (1 + Z.of_nat (Z.to_nat extra)) at 1 by lia. rewrite py_range_up.
  pose proof (unpack_loop_general (Z.to_nat extra) [first] r first extra (Z.land first (Z.shiftr 255 extra)) Hr) as Hl.
  cbn [length app] in Hl. change (Z.of_nat 1) with 1 in Hl. rewrite Hl.
  destruct (M.read_be (Z.to_nat extra) (Z.land first (Z.shiftr 255 extra)) r) as [[v r']|]; reflexivity.
Qed.

(* ------------------------------------------------------------------ vints_unpack, on EVERY byte string *)
Lemma inner_general : forall (k : nat) pre rest values fb ne acc fuel, Forall is_byte rest ->
  (k < fuel)%nat -> pre <> [] ->
  vints_unpack_loop2 fuel (pre ++ rest) values fb ne (Z.of_nat (length pre) - 1 + Z.of_nat k) (Z.of_nat (length pre) - 1) acc
  = match M.read_be k acc rest with Some (v, _) => Ok (Z.of_nat (length pre) - 1 + Z.of_nat k, v) | None => Raise end.
Proof.
  induction k as [|k IH]; intros pre rest values fb ne acc fuel Hb Hf Hpre;
    (destruct fuel as [|fuel]; [lia|]); cbn [vints_unpack_loop2 M.read_be].
  - replace (Z.of_nat (length pre) - 1 + Z.of_nat 0) with (Z.of_nat (length pre) - 1) by lia.
    rewrite Z.ltb_irrefl. reflexivity.
  - destruct (Z.of_nat (length pre) - 1 <? Z.of_nat (length pre) - 1 + Z.of_nat (S k)) eqn:E; [|lia].
    replace (Z.of_nat (length pre) - 1 + 1) with (Z.of_nat (length pre)) by lia.
    destruct rest as [|b r].
    + rewrite app_nil_r. rewrite py_index_out by lia. reflexivity.
    + inversion Hb as [|? ? Hx Hb']; subst. rewrite py_index_app_mid. cbn [bind]. rewrite shl8_lor_byte by exact Hx.
      specialize (IH (pre ++ [b]) r values fb ne (acc * 256 + b) fuel Hb' ltac:(lia)
                     ltac:(intros Hc; apply app_eq_nil in Hc; destruct Hc; discriminate)).
      rewrite <- app_assoc in IH. cbn [app] in IH. rewrite app_length in IH. cbn [length] in IH.
      replace (Z.of_nat (length pre + 1) - 1 + Z.of_nat k) with (Z.of_nat (length pre) - 1 + Z.of_nat (S k)) in IH by lia.
      replace (Z.of_nat (length pre + 1) - 1) with (Z.of_nat (length pre)) in IH by lia.
      exact IH.
Qed.

Lemma read_be_split : forall (k : nat) acc r v r', M.read_be k acc r = Some (v, r') ->
  exists p, r = p ++ r' /\ length p = k.
Proof.
  induction k as [|k IH]; intros acc r v r' H; cbn [M.read_be] in H.
  - inversion H; subst. exists []. split; reflexivity.
  - destruct r as [|b r0]; [discriminate|]. destruct (IH _ _ _ _ H) as (p & Hp & Hl).
    exists (b :: p). subst. split; [reflexivity|cbn [length]; lia].
Qed.

Definition vals_of (r : res (Z * list Z)) : option (list Z) := match r with Ok (_, vs) => Some vs | _ => None end.

Lemma outer_general : forall (fm : nat) rest pre acc fg, Forall is_byte rest ->
  (length rest <= fm)%nat -> (length rest < fg)%nat ->
  vals_of (vints_unpack_loop1 fg (pre ++ rest) (Z.of_nat (length pre)) acc)
  = option_map (app acc) (M.vints_unpack_loop fm rest).
Proof.
  induction fm as [|fm IH]; intros rest pre acc fg Hb Hm Hg; (destruct fg as [|fg]; [lia|]).
  - destruct rest; [|cbn [length] in Hm; lia]. cbn [vints_unpack_loop1 M.vints_unpack_loop].
    rewrite app_nil_r, Z.ltb_irrefl. cbn. rewrite app_nil_r. reflexivity.
  - destruct rest as [|first r].
    { cbn [vints_unpack_loop1 M.vints_unpack_loop]. rewrite app_nil_r, Z.ltb_irrefl. cbn. rewrite app_nil_r. reflexivity. }
    inversion Hb as [|? ? Hf Hr]; subst. unfold is_byte in Hf. cbn [length] in Hm, Hg.
    cbn [vints_unpack_loop1 M.vints_unpack_loop].
    destruct (Z.of_nat (length pre) <? Z.of_nat (length (pre ++ first :: r))) eqn:E;
      [|rewrite app_length in E; cbn [length] in E; lia].
    rewrite py_index_app_mid. cbn [bind]. cbv zeta. unfold M.uvint_read.
    destruct (Z.land first 128 =? 0).
    + specialize (IH r (pre ++ [first]) (acc ++ [decode_zig_zag first]) fg Hr ltac:(lia) ltac:(lia)).
      rewrite <- app_assoc in IH. cbn [app] in IH. rewrite app_length in IH. cbn [length] in IH.
      replace (Z.of_nat (length pre) + 1) with (Z.of_nat (length pre + 1)) by lia. rewrite IH.
      change (M.decode_zig_zag first) with (decode_zig_zag first).
      destruct (M.vints_unpack_loop fm r); cbn [option_map]; [rewrite <- app_assoc; reflexivity|reflexivity].
    + change (8 - py_bit_length (Z.land (Z.lnot first) 255)) with (M.vint_extra first).
      pose proof (model_extra_range first Hf) as He. set (extra := M.vint_extra first) in *.
      pose proof (inner_general (Z.to_nat extra) (pre ++ [first]) r acc first extra (Z.land first (Z.shiftr 255 extra)) 9%nat Hr
                    ltac:(lia) ltac:(intros Hc; apply app_eq_nil in Hc; destruct Hc; discriminate)) as Hin.
      rewrite app_length in Hin. cbn [length] in Hin. rewrite <- app_assoc in Hin. cbn [app] in Hin.
      replace (Z.of_nat (length pre + 1) - 1 + Z.of_nat (Z.to_nat extra)) with (Z.of_nat (length pre) + extra) in Hin by lia.
      replace (Z.of_nat (length pre + 1) - 1) with (Z.of_nat (length pre)) in Hin by lia.
      rewrite Hin.
      destruct (M.read_be (Z.to_nat extra) (Z.land first (Z.shiftr 255 extra)) r) as [[v r']|] eqn:Erd; [|reflexivity].
      cbn [bind]. destruct (read_be_split _ _ _ _ _ Erd) as (p & Hp & Hl). subst r.
      assert (Hr' : Forall is_byte r') by (apply Forall_app in Hr; tauto).
      rewrite app_length in Hm, Hg.
      specialize (IH r' (pre ++ first :: p) (acc ++ [decode_zig_zag v]) fg Hr' ltac:(lia) ltac:(lia)).
      rewrite <- app_assoc in IH. cbn [app] in IH. rewrite app_length in IH. cbn [length] in IH.
      replace (Z.of_nat (length pre) + extra + 1) with (Z.of_nat (length pre + S (length p))) by lia. rewrite IH.
      change (M.decode_zig_zag v) with (decode_zig_zag v).
      destruct (M.vints_unpack_loop fm r'); cbn [option_map]; [rewrite <- app_assoc; reflexivity|reflexivity].
Qed.

Theorem bridge_vints_unpack : forall bs, Forall is_byte bs -> res_to_option (vints_unpack bs) = M.vints_unpack bs.
Proof.
  intros bs Hb. unfold vints_unpack, M.vints_unpack. cbv zeta.
  pose proof (outer_general (length bs) bs [] [] (S (length bs)) Hb ltac:(lia) ltac:(lia)) as H.
  change ([] ++ bs) with bs in H. change (Z.of_nat (length (@nil Z))) with 0 in H.
  assert (Hid : forall o : option (list Z), option_map (app []) o = o) by (intros [l|]; reflexivity).
  rewrite Hid in H. rewrite <- H.
  destruct (vints_unpack_loop1 (S (length bs)) bs 0 []) as [[n vs]| |]; reflexivity.
Qed.

(* Fuel is never the outcome of any generated codec *)
Theorem vints_unpack_total : forall bs, Forall is_byte bs -> vints_unpack bs <> Fuel.
Proof.
  intros bs Hb Hc. unfold vints_unpack in Hc. cbv zeta in Hc.
  destruct (vints_unpack_loop1 (S (length bs)) bs 0 []) as [[n vs]| |] eqn:E; cbn [bind] in Hc; try discriminate.
  (* the loop itself cannot run out of fuel: each iteration consumes at least one byte *)
  clear Hc.
  assert (G : forall (fg : nat) (rest pre acc : list Z), Forall is_byte rest -> (length rest < fg)%nat ->
              vints_unpack_loop1 fg (pre ++ rest) (Z.of_nat (length pre)) acc <> Fuel).
  { induction fg as [|fg IH]; intros rest pre acc0 Hr Hg; [lia|].
    cbn [vints_unpack_loop1]. destruct (Z.of_nat (length pre) <? Z.of_nat (length (pre ++ rest))) eqn:E1; [|discriminate].
    destruct rest as [|first r]; [rewrite app_nil_r in E1; lia|].
    inversion Hr as [|? ? Hf Hr0]; subst. unfold is_byte in Hf. cbn [length] in Hg.
    rewrite py_index_app_mid. cbn [bind]. cbv zeta.
    destruct (Z.land first 128 =? 0).
    - specialize (IH r (pre ++ [first]) (acc0 ++ [decode_zig_zag first]) Hr0 ltac:(lia)).
      rewrite <- app_assoc in IH. cbn [app] in IH. rewrite app_length in IH. cbn [length] in IH.
      replace (Z.of_nat (length pre) + 1) with (Z.of_nat (length pre + 1)) by lia. exact IH.
    - change (8 - py_bit_length (Z.land (Z.lnot first) 255)) with (M.vint_extra first).
      pose proof (model_extra_range first Hf) as He. set (extra := M.vint_extra first) in *.
      pose proof (inner_general (Z.to_nat extra) (pre ++ [first]) r acc0 first extra (Z.land first (Z.shiftr 255 extra)) 9%nat Hr0
                    ltac:(lia) ltac:(intros Hc; apply app_eq_nil in Hc; destruct Hc; discriminate)) as Hin.
      rewrite app_length in Hin. cbn [length] in Hin. rewrite <- app_assoc in Hin. cbn [app] in Hin.
      replace (Z.of_nat (length pre + 1) - 1 + Z.of_nat (Z.to_nat extra)) with (Z.of_nat (length pre) + extra) in Hin by lia.
      replace (Z.of_nat (length pre + 1) - 1) with (Z.of_nat (length pre)) in Hin by lia.
      rewrite Hin.
      destruct (M.read_be (Z.to_nat extra) (Z.land first (Z.shiftr 255 extra)) r) as [[v r']|] eqn:Erd; [|discriminate].
      cbn [bind]. destruct (read_be_split _ _ _ _ _ Erd) as (p & Hp & Hl). subst r.
      assert (Hr' : Forall is_byte r') by (apply Forall_app in Hr0; tauto).
      rewrite app_length in Hg.
      specialize (IH r' (pre ++ first :: p) (acc0 ++ [decode_zig_zag v]) Hr' ltac:(lia)).
      rewrite <- app_assoc in IH. cbn [app] in IH. rewrite app_length in IH. cbn [length] in IH.
      replace (Z.of_nat (length pre) + extra + 1) with (Z.of_nat (length pre + S (length p))) by lia. exact IH. }
  exact (G (S (length bs)) bs [] [] Hb ltac:(lia) E).
Qed.

(* ------------------------------------------------------------------ the two independent VIntCoding specs agree *)
Lemma mask_form n : 0 <= n <= 8 -> 255 - Z.shiftr 255 n = (2 ^ n - 1) * 2 ^ (8 - n).
Proof. intros H. enum8 H; reflexivity. Qed.

Theorem spec_uvint_uvint_bytes : forall v, 0 <= v < 2 ^ 64 -> CassandraSpecInt.spec_uvint v = uvint_bytes v.
Proof.
  intros v Hv. unfold CassandraSpecInt.spec_uvint. cbv zeta.
  assert (Hsz : CassandraSpecInt.spec_uvint_size v = vint_extra v + 1).
  { rewrite <- (MarshalGen_proofs.java_vint_size_eq v Hv). unfold CassandraSpecInt.spec_uvint_size, java_vint_size, CassandraSpecInt.bitlen.
    assert (Hl : 0 < Z.lor v 1).
    { assert (0 <= Z.lor v 1) by (apply Z.lor_nonneg; lia).
      destruct (Z.eq_dec (Z.lor v 1) 0) as [E|]; [apply Z.lor_eq_0_iff in E; lia|lia]. }
    destruct (Z.lor v 1 <=? 0) eqn:E; [lia|]. rewrite Z.shiftr_div_pow2 by lia. change (2 ^ 6) with 64.
    f_equal. lia. }
  rewrite Hsz. destruct (vint_extra_char v ltac:(lia)) as (n & Hn & Hn8 & Hlt & Hge). rewrite Hn.
  destruct (Z.of_nat n + 1 =? 1) eqn:E1.
  - assert (n = O) by lia. subst n. specialize (Hlt ltac:(lia)). change (2 ^ (7 * (Z.of_nat 0 + 1))) with 128 in Hlt.
    rewrite uvint_bytes_small by lia. reflexivity.
  - replace (Z.to_nat (Z.of_nat n + 1)) with (S n) by lia. rewrite spec_be_be_bytes, be_bytes_head.
    replace (Z.of_nat n + 1 - 1) with (Z.of_nat n) by lia.
    destruct (high_bits_small v n ltac:(lia) Hn8 ltac:(lia) Hlt) as [Ha Hb].
    destruct (prefix_form (Z.of_nat n) ltac:(lia)) as (_ & Hpf & _).
    assert (Hpk : 0 < 2 ^ (8 - Z.of_nat n)) by (apply pow2_pos; lia).
    assert (Hle : 2 ^ (8 - Z.of_nat n) <= 2 ^ 8) by (apply pow2_le; lia). change (2 ^ 8) with 256 in Hle.
    rewrite (Z.mod_small (Z.shiftr v (8 * Z.of_nat n))) by lia.
    rewrite mask_form by lia. rewrite lor_disjoint_add by lia.
    unfold uvint_bytes, vint_first_byte. cbv zeta. rewrite Hn, Nat2Z.id, <- Hpf. f_equal. lia.
Qed.

Print Assumptions bridge_varint_pack.
Print Assumptions spec_uvint_uvint_bytes.
Print Assumptions bridge_varint_unpack.
Print Assumptions bridge_uvint_pack.
Print Assumptions bridge_uvint_unpack.
Print Assumptions bridge_vints_pack.
Print Assumptions bridge_vints_unpack.
Print Assumptions model_varint_pack_spec.
Print Assumptions model_uvint_pack_spec.
Print Assumptions model_vints_pack_spec.
