(* C02: to_binary = spec_result through arbitrary type trees (induction over types), using the bridge lemmas of the
   source-translated marshal layer for varint / vint / uvint. *)
From Coq Require Import ZArith List Bool Lia.
From Verif Require Import PyBase MarshalModel Utf8Model CqlType CqlCodec CassandraSpecInt CassandraSpec
  Marshal_proofs Vint_proofs Utf8_proofs C01_proofs C02_proofs.
From Verif Require VIntCoding MarshalBridge MarshalGen_proofs Marshal_vint.
Import ListNotations.
Local Open Scope Z_scope.

(* ------------------------------------------------------------------ marshal level, through the bridge *)
Lemma uvint_pack_exact : forall v, uvint_pack v = if (0 <=? v) && (v <? 2 ^ 64) then Some (spec_uvint v) else None.
Proof.
  intros v. rewrite MarshalBridge.model_uvint_pack_spec. unfold VIntCoding.uvint_encode.
  destruct ((0 <=? v) && (v <? 2 ^ 64)) eqn:E; [|reflexivity].
  apply andb_true_iff in E. destruct E as [A B]. apply Z.leb_le in A. apply Z.ltb_lt in B.
  rewrite MarshalBridge.spec_uvint_uvint_bytes by lia. reflexivity.
Qed.

Lemma vint_bytes_spec : forall x, int64 x -> VIntCoding.vint_bytes x = spec_vint x.
Proof.
  intros x Hx. unfold VIntCoding.vint_bytes, spec_vint.
  destruct (Marshal_vint.zigzag_roundtrip_spec x Hx) as (Henc & _).
  rewrite <- Henc. change (MarshalGen.encode_zig_zag x) with (encode_zig_zag x).
  rewrite (encode_zig_zag_spec x Hx). pose proof (spec_zigzag_range x Hx).
  rewrite MarshalBridge.spec_uvint_uvint_bytes by lia. reflexivity.
Qed.

Lemma in_int64b_in_z : forall x, VIntCoding.in_int64b x = in_z (- 2 ^ 63) (2 ^ 63) x.
Proof. reflexivity. Qed.

Lemma duration_exact : forall m d n,
  vints_pack [m; d; n] =
  if in_z (- 2 ^ 63) (2 ^ 63) m && in_z (- 2 ^ 63) (2 ^ 63) d && in_z (- 2 ^ 63) (2 ^ 63) n
  then Some (spec_vint m ++ spec_vint d ++ spec_vint n) else None.
Proof.
  intros. rewrite MarshalBridge.model_vints_pack_spec. cbn [VIntCoding.vints_encode]. change VIntCoding.in_int64b with (in_z (- 2 ^ 63) (2 ^ 63)).
  destruct (in_z (- 2 ^ 63) (2 ^ 63) m) eqn:A; cbn [andb]; [|reflexivity].
  destruct (in_z (- 2 ^ 63) (2 ^ 63) d) eqn:B; cbn [andb]; [|reflexivity].
  destruct (in_z (- 2 ^ 63) (2 ^ 63) n) eqn:C; cbn [andb]; [|reflexivity].
  apply in_z_iff in A. apply in_z_iff in B. apply in_z_iff in C.
  rewrite !vint_bytes_spec by (unfold int64; lia). rewrite app_nil_r. reflexivity.
Qed.

Lemma scalar_exact_all : forall s v, kind_scalar s v = true ->
  ser_scalar s v = if range_scalar s v then Some (spec_scalar s v) else None.
Proof.
  intros s v K. destruct (proved_scalar s) eqn:P; [apply scalar_exact; assumption|].
  destruct s; try discriminate P; destruct v; try discriminate K; cbn [ser_scalar range_scalar spec_scalar].
  - (* decimal *) rewrite pack_int_exact. unfold int_range. change (2 ^ (8 * Z.of_nat 4 - 1)) with (2 ^ 31).
    destruct (in_z (- 2 ^ 31) (2 ^ 31) scale); cbn [obind]; [|reflexivity].
    rewrite MarshalBridge.model_varint_pack_spec. reflexivity.
  - (* varint *) rewrite MarshalBridge.model_varint_pack_spec. reflexivity.
  - (* duration *) apply duration_exact.
Qed.

(* ------------------------------------------------------------------ length fields *)
Lemma pack_len_exact : forall pv z, 0 <= z ->
  pack_len pv z = if z <? len_limit pv then Some (spec_len pv z) else None.
Proof.
  intros pv z Hz. unfold pack_len, spec_len, spec_lenw, lenw, len_limit. rewrite pack_int_exact. unfold int_range, in_z.
  destruct (3 <=? pv).
  - change (2 ^ (8 * Z.of_nat 4 - 1)) with (2 ^ 31).
    destruct (- 2 ^ 31 <=? z) eqn:A; [reflexivity|]. apply Z.leb_gt in A. lia.
  - change (2 ^ (8 * Z.of_nat 2)) with (2 ^ 16).
    destruct (0 <=? z) eqn:A; [reflexivity|]. apply Z.leb_gt in A. lia.
Qed.

Lemma pack_len_null : forall pv, pack_len pv (-1) = if 3 <=? pv then Some (spec_len pv (-1)) else None.
Proof.
  intros. unfold pack_len, spec_len, spec_lenw, lenw. rewrite pack_int_exact. destruct (3 <=? pv); reflexivity.
Qed.

(* ------------------------------------------------------------------ one element *)
Definition EX (ser : value -> option (list Z)) (rng : value -> bool) (enc : value -> list Z) (v : value) : Prop :=
  v <> VNull -> ser v = if rng v then Some (enc v) else None.

Lemma elem_exact : forall pv ser rng enc v, EX ser rng enc v ->
  enc_elem pv ser v = if elem_ok pv (len_limit pv) rng enc v then Some (spec_elem pv enc v) else None.
Proof.
  intros pv ser rng enc v H. destruct (value_eq_null v) as [E | E].
  - subst. cbn [enc_elem elem_ok spec_elem]. apply pack_len_null.
  - rewrite enc_elem_nonnull by assumption. rewrite (H E).
    assert (A : elem_ok pv (len_limit pv) rng enc v = rng v && (len (enc v) <? len_limit pv)) by (destruct v; try reflexivity; congruence).
    assert (B : spec_elem pv enc v = spec_len pv (len (enc v)) ++ enc v) by (destruct v; try reflexivity; congruence).
    rewrite A, B. destruct (rng v); cbn [obind andb]; [|reflexivity].
    rewrite pack_len_exact by apply len_nonneg. destruct (len (enc v) <? len_limit pv); reflexivity.
Qed.

Lemma items_exact : forall pv ser rng enc vs, Forall (EX ser rng enc) vs ->
  enc_items pv ser vs = if forallb (elem_ok pv (len_limit pv) rng enc) vs then Some (flat_map (spec_elem pv enc) vs) else None.
Proof.
  induction vs as [|v r IH]; intros F; [reflexivity|]. inversion F as [|? ? Hv Hr]; subst.
  cbn [enc_items forallb flat_map]. rewrite (elem_exact pv ser rng enc v Hv), (IH Hr).
  destruct (elem_ok pv (len_limit pv) rng enc v); cbn [obind andb]; [|reflexivity].
  destruct (forallb (elem_ok pv (len_limit pv) rng enc) r); reflexivity.
Qed.

Lemma coll_exact : forall pv ser rng enc vs, Forall (EX ser rng enc) vs ->
  enc_coll pv ser vs =
  if (len vs <? len_limit pv) && forallb (elem_ok pv (len_limit pv) rng enc) vs
  then Some (spec_len pv (len vs) ++ flat_map (spec_elem pv enc) vs) else None.
Proof.
  intros. unfold enc_coll. rewrite pack_len_exact by apply len_nonneg. rewrite (items_exact pv ser rng enc vs H).
  destruct (len vs <? len_limit pv); cbn [obind andb]; [|reflexivity].
  destruct (forallb (elem_ok pv (len_limit pv) rng enc) vs); reflexivity.
Qed.

Lemma pairs_exact : forall pv sk rk ek sv rv ev kvs,
  Forall (fun kv => EX sk rk ek (fst kv) /\ EX sv rv ev (snd kv)) kvs ->
  enc_pairs pv sk sv kvs =
  if forallb (fun kv => elem_ok pv (len_limit pv) rk ek (fst kv) && elem_ok pv (len_limit pv) rv ev (snd kv)) kvs
  then Some (flat_map (fun kv => spec_elem pv ek (fst kv) ++ spec_elem pv ev (snd kv)) kvs) else None.
Proof.
  induction kvs as [|[k x] r IH]; intros F; [reflexivity|]. inversion F as [|? ? Hkv Hr]; subst. destruct Hkv as [Hk Hx].
  cbn [enc_pairs forallb flat_map fst snd] in *. rewrite (elem_exact pv sk rk ek k Hk), (elem_exact pv sv rv ev x Hx), (IH Hr).
  destruct (elem_ok pv (len_limit pv) rk ek k); cbn [obind andb]; [|reflexivity].
  destruct (elem_ok pv (len_limit pv) rv ev x); cbn [obind andb]; [|reflexivity].
  destruct (forallb _ r); cbn [obind]; [|reflexivity]. rewrite <- app_assoc. reflexivity.
Qed.

Lemma map_exact : forall pv sk rk ek sv rv ev kvs,
  Forall (fun kv => EX sk rk ek (fst kv) /\ EX sv rv ev (snd kv)) kvs ->
  enc_map pv sk sv kvs =
  if (len kvs <? len_limit pv) &&
     forallb (fun kv => elem_ok pv (len_limit pv) rk ek (fst kv) && elem_ok pv (len_limit pv) rv ev (snd kv)) kvs
  then Some (spec_len pv (len kvs) ++ flat_map (fun kv => spec_elem pv ek (fst kv) ++ spec_elem pv ev (snd kv)) kvs) else None.
Proof.
  intros. unfold enc_map. rewrite pack_len_exact by apply len_nonneg. rewrite (pairs_exact _ _ _ _ _ _ _ _ H).
  destruct (len kvs <? len_limit pv); cbn [obind andb]; [|reflexivity].
  destruct (forallb _ kvs); reflexivity.
Qed.

(* ------------------------------------------------------------------ tuples / UDTs *)
Definition gen_ok (rng : cqltype -> value -> bool) (enc : cqltype -> value -> list Z) : list cqltype -> list value -> bool :=
  fix go (ts : list cqltype) (vs : list value) {struct ts} : bool :=
    match ts, vs with
    | t1 :: ts', v1 :: vs' => elem_ok 3 (2 ^ 31) (rng t1) (enc t1) v1 && go ts' vs'
    | _, _ => true
    end.
Definition gen_enc (enc : cqltype -> value -> list Z) : list cqltype -> list value -> list Z :=
  fix go (ts : list cqltype) (vs : list value) {struct ts} : list Z :=
    match ts, vs with
    | t1 :: ts', v1 :: vs' => spec_elem 3 (enc t1) v1 ++ go ts' vs'
    | _, _ => []
    end.
Definition gen_kind (k : cqltype -> value -> bool) : list cqltype -> list value -> bool :=
  fix go (ts : list cqltype) (vs : list value) {struct ts} : bool :=
    match ts, vs with
    | t1 :: ts', v1 :: vs' => kind_elem (k t1) v1 && go ts' vs'
    | _, _ => true
    end.

Fixpoint EXs (ser : cqltype -> value -> option (list Z)) (rng : cqltype -> value -> bool) (enc : cqltype -> value -> list Z)
         (ts : list cqltype) (vs : list value) : Prop :=
  match ts, vs with
  | t :: ts', v :: vs' => EX (ser t) (rng t) (enc t) v /\ EXs ser rng enc ts' vs'
  | _, _ => True
  end.

Lemma tuple_exact : forall ser rng enc ts vs, EXs ser rng enc ts vs ->
  enc_tuple ser ts vs = if gen_ok rng enc ts vs then Some (gen_enc enc ts vs) else None.
Proof.
  intros ser rng enc. induction ts as [|t ts IH]; intros vs H; [destruct vs; reflexivity|].
  destruct vs as [|v vs]; [reflexivity|]. cbn [EXs] in H. destruct H as [Hv Hr].
  cbn [enc_tuple gen_ok gen_enc]. rewrite (elem_exact 3 (ser t) (rng t) (enc t) v Hv), (IH vs Hr).
  change (len_limit 3) with (2 ^ 31).
  destruct (elem_ok 3 (2 ^ 31) (rng t) (enc t) v); cbn [obind andb]; [|reflexivity].
  destruct (gen_ok rng enc ts vs); reflexivity.
Qed.

Lemma udt_as_tuple : forall ser (ts : list cqltype) (vs : list value), length vs = length ts -> enc_udt ser ts vs = enc_tuple ser ts vs.
Proof.
  intros ser. induction ts as [|t ts IH]; intros vs L; destruct vs as [|v vs]; try reflexivity; try (cbn in L; discriminate).
  cbn [enc_udt enc_tuple]. rewrite IH by (cbn in L; lia). reflexivity.
Qed.

(* ------------------------------------------------------------------ vectors *)
Lemma vec_exact : forall (ser : value -> option (list Z)) (rng : value -> bool) (enc : value -> list Z) fixed vs,
  Forall (fun x => x <> VNull /\ ser x = if rng x then Some (enc x) else None) vs ->
  enc_vec ser fixed vs =
  if forallb (fun x => negb (is_null x) && rng x && (fixed || (len (enc x) <? 2 ^ 64))) vs
  then Some (flat_map (spec_vec_elem fixed enc) vs) else None.
Proof.
  intros ser rng enc fixed. induction vs as [|v r IH]; intros F; [reflexivity|].
  inversion F as [|? ? Hv Hr]; subst. destruct Hv as [Hn Hv].
  cbn [enc_vec forallb flat_map]. rewrite Hv, (IH Hr).
  assert (N : is_null v = false) by (destruct v; try reflexivity; congruence). rewrite N. cbn [negb andb].
  destruct (rng v); cbn [obind andb]; [|reflexivity]. unfold spec_vec_elem.
  destruct fixed; cbn [orb obind].
  - destruct (forallb _ r); reflexivity.
  - rewrite uvint_pack_exact. pose proof (len_nonneg _ (enc v)).
    destruct (0 <=? len (enc v)) eqn:A; [|apply Z.leb_gt in A; lia]. cbn [andb].
    destruct (len (enc v) <? 2 ^ 64); cbn [obind]; [|reflexivity].
    destruct (forallb _ r); cbn [obind]; [|reflexivity]. rewrite <- app_assoc. reflexivity.
Qed.

(* ------------------------------------------------------------------ the main induction *)
Definition EXP (t : cqltype) : Prop :=
  forall pv v, kind t v = true -> v <> VNull ->
    serialize pv t v = if in_range pv t v then Some (spec_enc pv t v) else None.

Lemma kind_elem_EX : forall t pv v, EXP t -> kind_elem (kind t) v = true ->
  EX (serialize pv t) (in_range pv t) (spec_enc pv t) v.
Proof.
  intros t pv v P K Hn. apply P; [|assumption]. destruct v; try exact K. congruence.
Qed.

Lemma EXs_of : forall pv ts vs, Forall EXP ts -> gen_kind kind ts vs = true ->
  EXs (serialize pv) (in_range pv) (spec_enc pv) ts vs.
Proof.
  intros pv. induction ts as [|t ts IH]; intros vs F K; [exact I|].
  destruct vs as [|v vs]; [exact I|]. cbn [EXs]. cbn [gen_kind] in K. apply andb_true_iff in K. destruct K as [K1 K2].
  inversion F as [|? ? Pt Pr]; subst. split; [exact (kind_elem_EX t pv v Pt K1) | exact (IH vs Pr K2)].
Qed.

Lemma kind_nonnull : forall t, kind t VNull = false.
Proof.
  induction t using cqltype_ind'; try reflexivity; try (destruct s; reflexivity); cbn [kind]; assumption.
Qed.

Theorem exact_all : forall t, EXP t.
Proof.
  induction t using cqltype_ind'; unfold EXP; intros pv v K Hn.
  - (* scalar *) cbn [serialize in_range spec_enc kind] in *. apply scalar_exact_all. assumption.
  - (* list *)
    destruct v; cbn [kind] in K; try discriminate. cbn [serialize in_range spec_enc].
    apply (coll_exact pv (serialize (inner pv) t) (in_range (spec_inner pv) t) (spec_enc (spec_inner pv) t)).
    eapply forallb_Forall; [|exact K]. intros x Hx. apply kind_elem_EX; assumption.
  - (* set *)
    destruct v; cbn [kind] in K; try discriminate. cbn [serialize in_range spec_enc].
    apply (coll_exact pv (serialize (inner pv) t) (in_range (spec_inner pv) t) (spec_enc (spec_inner pv) t)).
    eapply forallb_Forall; [|exact K]. intros x Hx. apply kind_elem_EX; assumption.
  - (* map *)
    destruct v; cbn [kind] in K; try discriminate. cbn [serialize in_range spec_enc].
    apply (map_exact pv (serialize (inner pv) t1) (in_range (spec_inner pv) t1) (spec_enc (spec_inner pv) t1)
                        (serialize (inner pv) t2) (in_range (spec_inner pv) t2) (spec_enc (spec_inner pv) t2)).
    eapply forallb_Forall; [|exact K]. intros x Hx. apply andb_true_iff in Hx. destruct Hx.
    split; apply kind_elem_EX; assumption.
  - (* tuple *)
    destruct v; cbn [kind] in K; try discriminate. rewrite serialize_tuple.
    change (in_range pv (TTuple ts) (VSeq vs)) with
      ((length vs <=? length ts)%nat && gen_ok (in_range (spec_inner pv)) (spec_enc (spec_inner pv)) ts vs).
    change (spec_enc pv (TTuple ts) (VSeq vs)) with (gen_enc (spec_enc (spec_inner pv)) ts vs).
    change (gen_kind kind ts vs = true) in K.
    destruct (length ts <? length vs)%nat eqn:L.
    + apply Nat.ltb_lt in L. destruct (length vs <=? length ts)%nat eqn:L'; [apply Nat.leb_le in L'; lia | reflexivity].
    + apply Nat.ltb_ge in L. destruct (length vs <=? length ts)%nat eqn:L'; [|apply Nat.leb_gt in L'; lia]. cbn [andb].
      apply (tuple_exact (serialize (inner pv)) (in_range (spec_inner pv)) (spec_enc (spec_inner pv))).
      apply EXs_of; assumption.
  - (* udt *)
    destruct v; cbn [kind] in K; try discriminate. rewrite serialize_udt.
    change (in_range pv (TUdt ts) (VSeq vs)) with
      ((length vs =? length ts)%nat && gen_ok (in_range (spec_inner pv)) (spec_enc (spec_inner pv)) ts vs).
    change (spec_enc pv (TUdt ts) (VSeq vs)) with (gen_enc (spec_enc (spec_inner pv)) ts vs).
    change ((length vs =? length ts)%nat && gen_kind kind ts vs = true) in K.
    apply andb_true_iff in K. destruct K as [L K]. rewrite L. cbn [andb]. apply Nat.eqb_eq in L.
    rewrite udt_as_tuple by assumption.
    apply (tuple_exact (serialize (inner pv)) (in_range (spec_inner pv)) (spec_enc (spec_inner pv))).
    apply EXs_of; assumption.
  - (* vector *)
    destruct v; cbn [kind] in K; try discriminate. cbn [serialize in_range spec_enc].
    rewrite (Z.eqb_sym (len vs) n).
    destruct (n =? len vs); cbn [andb]; [|reflexivity].
    replace (is_some (serial_size t)) with (match serial_size t with Some _ => true | None => false end) by (destruct (serial_size t); reflexivity).
    apply (vec_exact (serialize pv t) (in_range pv t) (spec_enc pv t)).
    eapply forallb_Forall; [|exact K]. intros x Hx.
    assert (Xn : x <> VNull) by (intro C; subst; rewrite kind_nonnull in Hx; discriminate).
    split; [assumption | apply IHt; assumption].
  - (* frozen *)
    cbn [kind] in K. cbn [serialize in_range spec_enc].
    assert (N : is_null v = false) by (destruct v; try reflexivity; congruence). rewrite N. cbn [negb andb].
    assert (W : wrap_to (serialize pv t) v = serialize pv t v) by (destruct v; try reflexivity; congruence).
    rewrite W. apply IHt; assumption.
  - (* reversed *)
    cbn [kind] in K. cbn [serialize in_range spec_enc].
    assert (N : is_null v = false) by (destruct v; try reflexivity; congruence). rewrite N. cbn [negb andb].
    assert (W : wrap_to (serialize pv t) v = serialize pv t v) by (destruct v; try reflexivity; congruence).
    rewrite W. apply IHt; assumption.
Qed.

Theorem full_statement : forall pv t v, kind t v = true -> v <> VNull -> to_binary pv t v = spec_result pv t v.
Proof.
  intros pv t v K Hn. rewrite to_binary_nonnull by assumption. unfold spec_result. apply exact_all; assumption.
Qed.

(* every encoding in the image of the specification decodes to the value *)
Theorem decodes_spec_image : forall pv t v,
  wf_type t = true -> kind t v = true -> in_range pv t v = true -> py_repr t v = true -> v <> VNull ->
  from_binary pv t (spec_enc pv t v) = Some (norm t v).
Proof.
  intros pv t v W K R Y Hn. apply roundtrip_to_from; auto.
  rewrite (full_statement pv t v K Hn). unfold spec_result. rewrite R. reflexivity.
Qed.
