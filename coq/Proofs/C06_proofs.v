(* Lemmas for C06 (Model/Segment.v): one segment round-trips, a strict prefix of a segment asks for more bytes,
   the process_io_buffer loop in checksumming mode delivers exactly the frames sent under any segmentation and chunking. *)
From Coq Require Import ZArith List Bool Lia.
From Verif Require Import Crc Stream Segment Crc_proofs C05_proofs Seg_bytes.
Import ListNotations.
Local Open Scope Z_scope.

Lemma skipn_plus_exact : forall (n m : nat) (a b : list Z), length a = n -> skipn (n + m) (a ++ b) = skipn m b.
Proof.
  intros n m a b H. rewrite skipn_app, skipn_all2 by lia. simpl. f_equal. lia.
Qed.

Lemma blen_length : forall (l : list Z) (n : nat), length l = n -> blen l = Z.of_nat n.
Proof. intros. unfold blen. congruence. Qed.

Section Codec.
  Variable compression : bool.
  Variable compress : list Z -> list Z.
  Variable decompress : list Z -> Z -> list Z.
  Hypothesis decompress_compress : forall x, decompress (compress x) (blen x) = x.
  Hypothesis compress_bytes : forall x, Forall byte_ok x -> Forall byte_ok (compress x).

  Notation parse_seg := (parse_seg compression decompress).
  Notation encode_segment := (encode_segment compression compress).
  Notation encode_header := (encode_header compression).
  Notation encoded_payload := (encoded_payload compression compress).
  Notation cloop := (cloop compression decompress).
  Notation cfeed := (cfeed compression decompress).
  Notation run_cfeed := (run_cfeed compression decompress).

  Definition hlc : nat := if compression then 8%nat else 6%nat.
  Definition seg_ok (p : list Z) : Prop := Forall byte_ok p /\ blen p <= MAX_PAYLOAD_LENGTH.
  Definition ulen_of (ul : Z) : Z := if compression then ul else -1.

  Lemma encode_header_length : forall pl ul sc, length (encode_header pl ul sc) = hlc.
  Proof.
    intros. unfold encode_header, hlc, header_length. rewrite app_length, !le_bytes_length.
    destruct compression; reflexivity.
  Qed.

  Definition seg_body (ul : Z) (enc : list Z) : list Z :=
    if compression && (0 <? ulen_of ul) then decompress enc (ulen_of ul) else enc.

  (* _process_segment_buffer on a buffer that starts with a well-formed header *)
  Lemma parse_seg_header : forall pl ul sc rest,
    0 <= pl <= MAX_PAYLOAD_LENGTH -> 0 <= ul <= MAX_PAYLOAD_LENGTH ->
    parse_seg (encode_header pl ul sc ++ rest) =
      if blen rest <? pl + 4 then SNeed
      else let enc := firstn (Z.to_nat pl) rest in
           if negb (compute_crc32 enc CRC32_INITIAL =? le_val (firstn 4 (skipn (Z.to_nat pl) rest))) then SBad
           else SOk (seg_body ul enc) (skipn (Z.to_nat pl + 4) rest).
  Proof.
    intros pl ul sc rest Hpl Hul. unfold MAX_PAYLOAD_LENGTH in Hpl, Hul.
    pose proof (encode_header_length pl ul sc) as Hlen.
    pose proof (blen_nonneg rest) as Hr.
    unfold Segment.parse_seg. cbv zeta.
    unfold header_length_with_crc, header_length, CRC24_LENGTH, CRC32_LENGTH.
    rewrite blen_app, (blen_length _ _ Hlen).
    unfold Segment.encode_header in *. unfold header_length in *. unfold hlc in *. unfold seg_body, ulen_of.
    destruct compression.
    - (* 5-byte header *)
      destruct (header_compressed pl ul sc Hpl Hul) as (Hhd & Hpl' & Hul'). cbv zeta in Hhd, Hpl', Hul'.
      set (hd := header_data true pl ul sc) in *.
      change (Z.to_nat 5) with 5%nat in *. change (Z.to_nat (5 + 3)) with 8%nat.
      change (Z.of_nat 8) with 8.
      assert (E0 : 8 + blen rest <? 5 + 3 = false) by lia. rewrite E0.
      rewrite <- app_assoc. rewrite (firstn_exact 5) by apply le_bytes_length.
      rewrite (skipn_exact 5) by apply le_bytes_length.
      rewrite (firstn_exact 3) by apply le_bytes_length.
      rewrite le_val_le_bytes by exact Hhd.
      rewrite le_val_le_bytes by (pose proof (crc24_range hd 5) as Hc; change (256 ^ Z.of_nat 3) with (2 ^ 24); exact Hc).
      rewrite Z.eqb_refl. change (negb true) with false. cbv iota.
      rewrite Hpl', Hul'.
      assert (E1 : ul <? 0 = false) by lia. rewrite E1.
      replace (8 + blen rest <? 5 + 3 + pl + 4) with (blen rest <? pl + 4) by lia.
      destruct (blen rest <? pl + 4); [reflexivity|].
      rewrite app_assoc.
      assert (Hl8 : length (le_bytes 5 hd ++ le_bytes 3 (compute_crc24 hd 5)) = 8%nat) by (rewrite app_length, !le_bytes_length; reflexivity).
      rewrite (skipn_exact 8) by exact Hl8.
      rewrite (skipn_plus_exact 8) by exact Hl8.
      replace (8 + Z.to_nat pl + 4)%nat with (8 + (Z.to_nat pl + 4))%nat by lia.
      rewrite (skipn_plus_exact 8) by exact Hl8.
      reflexivity.
    - (* 3-byte header *)
      destruct (header_plain pl ul sc Hpl) as (Hhd & Hpl'). cbv zeta in Hhd, Hpl'.
      set (hd := header_data false pl ul sc) in *.
      change (Z.to_nat 3) with 3%nat in *. change (Z.to_nat (3 + 3)) with 6%nat.
      change (Z.of_nat 6) with 6.
      assert (E0 : 6 + blen rest <? 3 + 3 = false) by lia. rewrite E0.
      rewrite <- app_assoc. rewrite (firstn_exact 3) by apply le_bytes_length.
      rewrite (skipn_exact 3) by apply le_bytes_length.
      rewrite (firstn_exact 3) by apply le_bytes_length.
      rewrite le_val_le_bytes by exact Hhd.
      rewrite le_val_le_bytes by (pose proof (crc24_range hd 3) as Hc; change (256 ^ Z.of_nat 3) with (2 ^ 24); exact Hc).
      rewrite Z.eqb_refl. change (negb true) with false. cbv iota.
      rewrite Hpl'.
      change (-1 <? 0) with true. cbv iota.
      replace (6 + blen rest <? 3 + 3 + pl + 4) with (blen rest <? pl + 4) by lia.
      destruct (blen rest <? pl + 4); [reflexivity|].
      rewrite app_assoc.
      assert (Hl6 : length (le_bytes 3 hd ++ le_bytes 3 (compute_crc24 hd 3)) = 6%nat) by (rewrite app_length, !le_bytes_length; reflexivity).
      rewrite (skipn_exact 6) by exact Hl6.
      rewrite (skipn_plus_exact 6) by exact Hl6.
      replace (6 + Z.to_nat pl + 4)%nat with (6 + (Z.to_nat pl + 4))%nat by lia.
      rewrite (skipn_plus_exact 6) by exact Hl6.
      reflexivity.
  Qed.

  (* what _encode_segment puts on the wire *)
  Lemma encoded_payload_facts : forall p, seg_ok p ->
    let '(enc, ul) := encoded_payload p in
    Forall byte_ok enc /\ 0 <= blen enc <= MAX_PAYLOAD_LENGTH /\ 0 <= ul <= MAX_PAYLOAD_LENGTH /\ seg_body ul enc = p.
  Proof.
    intros p [Hb Hl]. pose proof (blen_nonneg p) as Hn. unfold Segment.encoded_payload, seg_body, ulen_of.
    destruct compression.
    - destruct (blen p <=? blen (compress p)) eqn:E.
      + repeat split; auto; unfold MAX_PAYLOAD_LENGTH in *; lia.
      + pose proof (blen_nonneg (compress p)) as Hc. repeat split; auto; try lia.
        simpl andb. assert (E1 : 0 <? blen p = true) by lia. rewrite E1. apply decompress_compress.
    - repeat split; auto; lia.
  Qed.

  Lemma encode_segment_shape : forall p sc,
    let '(enc, ul) := encoded_payload p in
    encode_segment p sc = encode_header (blen enc) ul sc ++ enc ++ le_bytes 4 (compute_crc32 enc CRC32_INITIAL).
  Proof. intros. unfold Segment.encode_segment. destruct (encoded_payload p). reflexivity. Qed.

  Lemma encode_segment_length : forall p sc,
    length (encode_segment p sc) = (hlc + length (fst (encoded_payload p)) + 4)%nat.
  Proof.
    intros. pose proof (encode_segment_shape p sc) as H. destruct (encoded_payload p) as [enc ul]. rewrite H.
    rewrite !app_length, encode_header_length, le_bytes_length. simpl. lia.
  Qed.

  Lemma crc32_fits : forall enc, Forall byte_ok enc -> 0 <= compute_crc32 enc CRC32_INITIAL < 256 ^ Z.of_nat 4.
  Proof. intros. change (256 ^ Z.of_nat 4) with (2 ^ 32). apply crc32_range; [exact crc32_initial_range|assumption]. Qed.

  (* a whole segment followed by anything: consumed, payload recovered *)
  Lemma parse_seg_enc : forall p sc rest, seg_ok p -> parse_seg (encode_segment p sc ++ rest) = SOk p rest.
  Proof.
    intros p sc rest Hok. pose proof (encoded_payload_facts p Hok) as Hf. pose proof (encode_segment_shape p sc) as Hs.
    destruct (encoded_payload p) as [enc ul]. destruct Hf as (Hb & Hl & Hu & Hbody). rewrite Hs.
    rewrite <- app_assoc. rewrite parse_seg_header by assumption.
    rewrite <- app_assoc. rewrite !blen_app. rewrite (blen_length _ _ (le_bytes_length 4 _)).
    pose proof (blen_nonneg rest) as Hr.
    change (Z.of_nat 4) with 4.
    assert (E : blen enc + (4 + blen rest) <? blen enc + 4 = false) by lia. rewrite E. cbv zeta.
    replace (Z.to_nat (blen enc)) with (length enc) by (unfold blen; symmetry; apply Nat2Z.id).
    rewrite (firstn_exact (length enc)) by reflexivity.
    rewrite (skipn_exact (length enc)) by reflexivity.
    rewrite (firstn_exact 4) by apply le_bytes_length.
    rewrite le_val_le_bytes by (apply crc32_fits; assumption).
    rewrite Z.eqb_refl. change (negb true) with false. cbv iota.
    rewrite Hbody. f_equal.
    rewrite app_assoc. apply skipn_exact. rewrite app_length, le_bytes_length. reflexivity.
  Qed.

  (* fewer bytes than the segment: nothing is consumed, nothing is reported *)
  Lemma parse_seg_prefix : forall p sc q r, seg_ok p -> q ++ r = encode_segment p sc -> r <> [] -> parse_seg q = SNeed.
  Proof.
    intros p sc q r Hok Hq Hr. pose proof (encoded_payload_facts p Hok) as Hf. pose proof (encode_segment_shape p sc) as Hs.
    destruct (encoded_payload p) as [enc ul]. destruct Hf as (Hb & Hl & Hu & Hbody). rewrite Hs in Hq.
    assert (Hrl : (0 < length r)%nat) by (destruct r; [congruence|simpl; lia]).
    destruct (Nat.lt_ge_cases (length q) hlc) as [Hlt|Hge].
    - (* not even the header *)
      unfold Segment.parse_seg. cbv zeta. unfold header_length_with_crc, header_length, CRC24_LENGTH.
      assert (E : blen q <? (if compression then 5 else 3) + 3 = true).
      { apply Z.ltb_lt. unfold blen, hlc in *. destruct compression; lia. }
      rewrite E. reflexivity.
    - apply app_eq_app in Hq. destruct Hq as [l [[Hq1 Hq2]|[Hq1 Hq2]]].
      + (* q = header ++ l *)
        subst q. rewrite parse_seg_header by assumption.
        assert (Hlen : (length l + length r = length enc + 4)%nat).
        { apply (f_equal (@length Z)) in Hq2. rewrite !app_length, le_bytes_length in Hq2. lia. }
        assert (E : blen l <? blen enc + 4 = true) by (apply Z.ltb_lt; unfold blen; lia). rewrite E. reflexivity.
      + (* header = q ++ l with l = [] *)
        assert (l = []).
        { apply (f_equal (@length Z)) in Hq1. rewrite app_length, encode_header_length in Hq1. destruct l; [reflexivity|simpl in Hq1; lia]. }
        subst l. rewrite app_nil_r in Hq1. subst q. rewrite <- (app_nil_r (encode_header _ _ _)).
        rewrite parse_seg_header by assumption.
        assert (E : blen (@nil Z) <? blen enc + 4 = true) by (apply Z.ltb_lt; unfold blen; simpl; lia). rewrite E. reflexivity.
  Qed.

  Lemma encode_segment_nonempty : forall p sc, encode_segment p sc <> [].
  Proof.
    intros p sc H. apply (f_equal (@length Z)) in H. rewrite encode_segment_length in H. simpl in H. lia.
  Qed.

  (* ------------------------------------------------------------------ the loop on valid streams *)
  Definition seg := (list Z * bool)%type.
  Definition encseg (s : seg) : list Z := encode_segment (fst s) (snd s).
  Definition wire (segs : list seg) : list Z := concat (map encseg segs).
  Definition payloads (segs : list seg) : list Z := concat (map (@fst (list Z) bool) segs).
  Definition segs_ok (segs : list seg) : Prop := Forall (fun s : seg => seg_ok (fst s)) segs.
  Definition frames_bytes (fs : list frame) : list Z := concat (map enc fs).

  Definition partial (tail : list Z) : Prop :=
    tail = [] \/ exists p sc r, seg_ok p /\ tail ++ r = encode_segment p sc /\ r <> [] /\ tail <> [].

  Lemma parse1_valid_prefix : forall fs x y, Forall wf fs -> x ++ y = frames_bytes fs ->
    parse1 x = NeedMore \/
    exists d h b fs' x', fs = (d, h, b) :: fs' /\ parse1 x = Frame h b x' /\ x' ++ y = frames_bytes fs'.
  Proof.
    intros fs x y Hwf H. destruct fs as [|[[d h] b] fs'].
    - unfold frames_bytes in H. simpl in H. apply app_eq_nil in H. destruct H as [-> _]. left. reflexivity.
    - inversion Hwf; subst.
      assert (Hp : parse1 (x ++ y) = Frame h b (frames_bytes fs')).
      { rewrite H. unfold frames_bytes. simpl. apply parse1_enc. assumption. }
      destruct (parse1 x) eqn:E.
      + left. reflexivity.
      + rewrite (parse1_app_bad _ y _ E) in Hp. discriminate.
      + rewrite (parse1_app_frame _ y _ _ _ E) in Hp. inversion Hp; subst.
        right. exists d, h, b, fs', rest. auto.
  Qed.

  Lemma parse_all_valid_prefix : forall fs x y, Forall wf fs -> x ++ y = frames_bytes fs ->
    exists done rem x', parse_all x = (Live x', map deliver done) /\ fs = done ++ rem /\
                        x' ++ y = frames_bytes rem /\ parse1 x' = NeedMore.
  Proof.
    induction fs as [|f fs IH]; intros x y Hwf H.
    - destruct (parse1_valid_prefix [] x y Hwf H) as [E|(d & h & b & fs' & x' & E & _)]; [|discriminate].
      exists [], [], x. rewrite (parse_all_needmore _ E). auto.
    - destruct (parse1_valid_prefix (f :: fs) x y Hwf H) as [E|(d & h & b & fs' & x' & E1 & E2 & E3)].
      + exists [], (f :: fs), x. rewrite (parse_all_needmore _ E). auto.
      + inversion E1; subst. inversion Hwf; subst.
        destruct (IH x' y H3 E3) as (done & rem & x'' & A & B & C & D).
        exists ((d, h, b) :: done), rem, x''. rewrite (parse_all_frame _ _ _ _ E2), A. subst. auto.
  Qed.

  Lemma cloop_cons : forall f io fb c, io <> [] ->
    cloop (S f) io fb c =
      match parse_seg io with
      | SNeed => (CLive io fb false, [])
      | SBad => (CDead, [Defunct R_CRC])
      | SOk payload rest =>
        let fb1 := fb ++ payload in
        match parse1 fb1 with
        | NeedMore => cloop f rest fb1 true
        | Bad r => (CDead, [Defunct r])
        | Frame h body fb2 => let '(st, evs) := cloop f rest fb2 true in (st, Deliver h body :: evs)
        end
      end.
  Proof. intros f io fb c H. destruct io; [congruence|reflexivity]. Qed.

  Lemma cloop_nil : forall f fb c,
    cloop (S f) [] fb c =
      if c then match parse_all fb with (Live fb', evs) => (CLive [] fb' true, evs) | (Dead, evs) => (CDead, evs) end
      else (CLive [] fb false, []).
  Proof. reflexivity. Qed.

  Lemma cloop_inv : forall segs fuel tail fb c fs y,
    segs_ok segs -> partial tail -> Forall wf fs ->
    fb ++ payloads segs ++ y = frames_bytes fs ->
    (length (wire segs ++ tail) < fuel)%nat ->
    exists done rem fb' c',
      cloop fuel (wire segs ++ tail) fb c = (CLive tail fb' c', map deliver done) /\
      fs = done ++ rem /\ fb' ++ y = frames_bytes rem /\
      (tail = [] -> (segs <> [] \/ c = true) -> parse1 fb' = NeedMore /\ c' = true) /\
      (tail = [] -> segs = [] -> c = false -> fb' = fb /\ c' = false /\ done = []) /\
      (tail <> [] -> c' = false).
  Proof.
    induction segs as [|[p sc] segs IH]; intros fuel tail fb c fs y Hok Hpart Hwf Hbytes Hfuel.
    - unfold wire, payloads in *. simpl in *.
      destruct fuel as [|f]; [lia|].
      destruct Hpart as [->|(p & sc & r & Hp & Hr1 & Hr2 & Hr3)].
      + rewrite cloop_nil. destruct c.
        * destruct (parse_all_valid_prefix fs fb y Hwf Hbytes) as (done & rem & x' & A & B & C & D).
          rewrite A. exists done, rem, x', true. repeat split; auto; intros; try discriminate; congruence.
        * exists [], fs, fb, false. repeat split; auto; intros; try congruence;
            match goal with H : _ \/ _ |- _ => destruct H; congruence end.
      + rewrite cloop_cons by assumption. rewrite (parse_seg_prefix p sc tail r Hp Hr1 Hr2).
        exists [], fs, fb, false. repeat split; auto; intros; congruence.
    - inversion Hok; subst. simpl in H1.
      assert (Hio : wire (@cons seg (p, sc) segs) ++ tail = encode_segment p sc ++ (wire segs ++ tail)).
      { unfold wire. simpl. unfold encseg at 1. simpl. rewrite app_assoc. reflexivity. }
      rewrite Hio in Hfuel |- *.
      destruct fuel as [|f]; [lia|].
      assert (Hne : encode_segment p sc ++ (wire segs ++ tail) <> []).
      { intro E. apply app_eq_nil in E. destruct E as [E _]. eapply encode_segment_nonempty; exact E. }
      rewrite cloop_cons by assumption. rewrite parse_seg_enc by assumption. cbv zeta.
      assert (Hb' : (fb ++ p) ++ (payloads segs ++ y) = frames_bytes fs).
      { rewrite <- Hbytes. unfold payloads. simpl. rewrite <- !app_assoc. reflexivity. }
      assert (Hf' : (length (wire segs ++ tail) < f)%nat).
      { rewrite app_length in Hfuel. pose proof (encode_segment_length p sc). unfold hlc in *. destruct compression; lia. }
      destruct (parse1_valid_prefix fs (fb ++ p) _ Hwf Hb') as [E|(d & h & b & fs' & x' & E1 & E2 & E3)].
      + rewrite E.
        destruct (IH f tail (fb ++ p) true fs y H2 Hpart Hwf) as (done & rem & fb' & c' & A & B & C & D1 & D2 & D3).
        { rewrite <- app_assoc. rewrite <- app_assoc in Hb'. exact Hb'. }
        { exact Hf'. }
        exists done, rem, fb', c'. repeat split; auto; intros; try discriminate.
        * apply D1; auto.
        * apply D1; auto.
      + rewrite E2. subst fs. assert (Hwf' : Forall wf fs') by (inversion Hwf; assumption).
        destruct (IH f tail x' true fs' y H2 Hpart Hwf') as (done & rem & fb' & c' & A & B & C & D1 & D2 & D3).
        { exact E3. }
        { exact Hf'. }
        rewrite A. exists ((d, h, b) :: done), rem, fb', c'. subst fs'. repeat split; auto; intros; try discriminate.
        * apply D1; auto.
        * apply D1; auto.
  Qed.

  Lemma wire_cons : forall s segs, wire (s :: segs) = encseg s ++ wire segs.
  Proof. reflexivity. Qed.

  Lemma wire_app : forall a b, wire (a ++ b) = wire a ++ wire b.
  Proof. intros. unfold wire. rewrite map_app, concat_app. reflexivity. Qed.

  Lemma payloads_app : forall a b, payloads (a ++ b) = payloads a ++ payloads b.
  Proof. intros. unfold payloads. rewrite map_app, concat_app. reflexivity. Qed.

  Definition head_partial (tail : list Z) (segs : list seg) : Prop :=
    tail = [] \/ exists p sc segs' r, segs = (p, sc) :: segs' /\ seg_ok p /\ tail ++ r = encode_segment p sc /\ r <> [] /\ tail <> [].

  Lemma head_partial_partial : forall tail segs, head_partial tail segs -> partial tail.
  Proof.
    intros tail segs [->|(p & sc & segs' & r & _ & A & B & C & D)]; [left; reflexivity|].
    right. exists p, sc, r. auto.
  Qed.

  Lemma wire_split : forall segs q x, segs_ok segs -> q ++ x = wire segs ->
    exists s1 s2 tail, segs = s1 ++ s2 /\ q = wire s1 ++ tail /\ tail ++ x = wire s2 /\ head_partial tail s2.
  Proof.
    induction segs as [|[p sc] segs IH]; intros q x Hok H.
    - unfold wire in H. simpl in H. apply app_eq_nil in H. destruct H as [-> ->].
      exists [], [], []. repeat split; auto. left. reflexivity.
    - inversion Hok; subst. simpl in H2. rewrite wire_cons in H. unfold encseg in H. simpl in H.
      assert (Hcase : (exists l, q = encode_segment p sc ++ l /\ wire segs = l ++ x) \/
                      (exists l, l <> [] /\ encode_segment p sc = q ++ l /\ x = l ++ wire segs)).
      { apply app_eq_app in H. destruct H as [l [[A B]|[A B]]].
        - left. exists l. auto.
        - destruct l as [|z l].
          + left. exists []. rewrite app_nil_r in A. simpl in B. subst. rewrite app_nil_r. auto.
          + right. exists (z :: l). repeat split; auto. discriminate. }
      destruct Hcase as [(l & A & B)|(l & Hl & A & B)].
      + destruct (IH l x H3 (eq_sym B)) as (s1 & s2 & tail & E1 & E2 & E3 & E4).
        exists ((p, sc) :: s1), s2, tail. subst. repeat split; auto.
        unfold wire. cbn [map concat]. unfold encseg at 2. cbn [fst snd]. apply app_assoc.
      + exists [], ((p, sc) :: segs), q. repeat split; auto.
        destruct q as [|z q]; [left; reflexivity|]. right.
        exists p, sc, segs, l. repeat split; auto; try (symmetry; assumption); try (destruct H2; assumption); discriminate.
  Qed.

  Definition G (st : cstate) (segs : list seg) (fs : list frame) (future : list Z) : Prop :=
    exists tail fb c, st = CLive tail fb c /\ tail ++ future = wire segs /\ fb ++ payloads segs = frames_bytes fs /\
      (tail = [] -> c = true -> parse1 fb = NeedMore) /\ (tail = [] -> c = false -> fb = []) /\ head_partial tail segs.

  Lemma frames_bytes_nonempty : forall f fs, Forall wf (f :: fs) -> parse1 (frames_bytes (f :: fs)) <> NeedMore.
  Proof.
    intros [[d h] b] fs H. inversion H; subst. unfold frames_bytes. simpl. rewrite parse1_enc by assumption. discriminate.
  Qed.

  Lemma run_cfeed_cons : forall st c cs,
    run_cfeed st (c :: cs) = let '(st1, e1) := cfeed st c in let '(st2, e2) := run_cfeed st1 cs in (st2, e1 ++ e2).
  Proof. reflexivity. Qed.

  Lemma cfeed_live : forall io fb c chunk, cfeed (CLive io fb c) chunk = cloop (S (length (io ++ chunk))) (io ++ chunk) fb c.
  Proof. reflexivity. Qed.

  Lemma run_inv : forall chunks st segs fs, segs_ok segs -> Forall wf fs -> G st segs fs (concat chunks) ->
    exists c, run_cfeed st chunks = (CLive [] [] c, map deliver fs).
  Proof.
    induction chunks as [|c0 cs IH]; intros st segs fs Hok Hwf (tail & fb & c & -> & Hw & Hb & Hc1 & Hc2 & Hp).
    - simpl in *. rewrite app_nil_r in Hw.
      assert (Ht : tail = []).
      { destruct Hp as [Ht|(p & sc & segs' & r & E & _ & A & B & _)]; [assumption|exfalso].
        assert (Hw' : tail = encode_segment p sc ++ wire segs') by (rewrite Hw, E; reflexivity).
        apply (f_equal (@length Z)) in Hw'. apply (f_equal (@length Z)) in A. rewrite !app_length in *.
        destruct r; [congruence|simpl in A; lia]. }
      assert (Hw2 : wire segs = []) by (rewrite <- Hw; exact Ht).
      assert (Hs : segs = []).
      { destruct segs as [|[p sc] segs]; [reflexivity|exfalso].
        assert (Hw' : encode_segment p sc ++ wire segs = []) by exact Hw2.
        apply app_eq_nil in Hw'. destruct Hw' as [E _]. eapply encode_segment_nonempty; exact E. }
      subst segs. unfold payloads in Hb. simpl in Hb. rewrite app_nil_r in Hb.
      assert (Hfs : fs = []).
      { destruct fs as [|f fs]; [reflexivity|exfalso]. destruct c.
        - specialize (Hc1 Ht eq_refl). rewrite Hb in Hc1. eapply frames_bytes_nonempty; eassumption.
        - specialize (Hc2 Ht eq_refl). pose proof (frames_bytes_nonempty f fs Hwf) as Hn.
          rewrite <- Hb, Hc2 in Hn. apply Hn. reflexivity. }
      subst fs. unfold frames_bytes in Hb. simpl in Hb. rewrite Ht, Hb. exists c. reflexivity.
    - simpl concat in Hw. rewrite app_assoc in Hw.
      destruct (wire_split segs (tail ++ c0) (concat cs) Hok Hw) as (s1 & s2 & tail' & E1 & E2 & E3 & E4).
      subst segs. rewrite payloads_app in Hb.
      assert (Hok1 : segs_ok s1) by (unfold segs_ok in *; apply Forall_app in Hok; tauto).
      assert (Hok2 : segs_ok s2) by (unfold segs_ok in *; apply Forall_app in Hok; tauto).
      destruct (cloop_inv s1 (S (length (tail ++ c0))) tail' fb c fs (payloads s2) Hok1 (head_partial_partial _ _ E4) Hwf)
        as (done & rem & fb' & c' & A & B & C & D1 & D2 & D3).
      { exact Hb. }
      { rewrite E2. lia. }
      rewrite <- E2 in A. rewrite run_cfeed_cons, cfeed_live, A.
      assert (Hwf' : Forall wf rem) by (subst fs; apply Forall_app in Hwf; tauto).
      destruct (IH (CLive tail' fb' c') s2 rem Hok2 Hwf') as (cf & Hrun).
      { exists tail', fb', c'. repeat split; auto.
        - intros Ht Hc. destruct s1 as [|s0 s1'].
          + destruct c.
            * apply D1; auto.
            * destruct (D2 Ht eq_refl eq_refl) as (_ & F & _). congruence.
          + apply D1; auto. left. discriminate.
        - intros Ht Hc. destruct s1 as [|s0 s1'].
          + destruct c.
            * destruct (D1 Ht (or_intror eq_refl)) as (_ & F). congruence.
            * destruct (D2 Ht eq_refl eq_refl) as (F & _ & _). subst fb'.
              apply Hc2; [|reflexivity]. subst tail'. unfold wire in E2. simpl in E2.
              apply app_eq_nil in E2. tauto.
          + assert (Hne : s0 :: s1' <> []) by discriminate.
            destruct (D1 Ht (or_introl Hne)) as (_ & F). congruence. }
      rewrite Hrun. exists cf. subst fs. rewrite map_app. reflexivity.
  Qed.

  Theorem roundtrip : forall (segs : list seg) (fs : list frame) (chunks : list (list Z)),
    segs_ok segs -> Forall wf fs -> payloads segs = frames_bytes fs -> concat chunks = wire segs ->
    exists c, run_cfeed (cinit) chunks = (CLive [] [] c, map deliver fs).
  Proof.
    intros segs fs chunks Hok Hwf Hp Hc. apply (run_inv chunks cinit segs fs Hok Hwf).
    exists [], [], false. repeat split; auto. left. reflexivity.
  Qed.
End Codec.

(* ------------------------------------------------------------------ the driver's own encoder: SegmentCodec.encode *)
Lemma In_firstn : forall (n : nat) (l : list Z) x, In x (firstn n l) -> In x l.
Proof. induction n; intros l x H; [destruct H|]. destruct l; [destruct H|]. destruct H; [left; assumption|right; apply IHn; assumption]. Qed.

Lemma Forall_firstn_ok : forall (P : Z -> Prop) n (l : list Z), Forall P l -> Forall P (firstn n l).
Proof. intros P n l H. rewrite Forall_forall in *. intros x Hx. apply H. eapply In_firstn. exact Hx. Qed.

Lemma In_skipn : forall (n : nat) (l : list Z) x, In x (skipn n l) -> In x l.
Proof. induction n; intros l x H; [exact H|]. destruct l; [destruct H|]. right. apply IHn. exact H. Qed.

Lemma Forall_skipn_ok : forall (P : Z -> Prop) n (l : list Z), Forall P l -> Forall P (skipn n l).
Proof. intros P n l H. rewrite Forall_forall in *. intros x Hx. apply H. eapply In_skipn. exact Hx. Qed.

Lemma split_payloads_S : forall f msg, split_payloads (S f) msg =
  if blen msg <=? MAX_PAYLOAD_LENGTH then [msg]
  else firstn (Z.to_nat MAX_PAYLOAD_LENGTH) msg :: split_payloads f (skipn (Z.to_nat MAX_PAYLOAD_LENGTH) msg).
Proof. reflexivity. Qed.

Lemma split_payloads_concat : forall fuel msg, concat (split_payloads fuel msg) = msg.
Proof.
  induction fuel; intros msg.
  - change (split_payloads 0 msg) with [msg]. cbn [concat]. apply app_nil_r.
  - rewrite split_payloads_S. destruct (blen msg <=? MAX_PAYLOAD_LENGTH).
    + cbn [concat]. apply app_nil_r.
    + cbn [concat]. rewrite IHfuel. apply firstn_skipn.
Qed.

Lemma split_payloads_ok : forall fuel msg, (length msg <= fuel)%nat -> Forall byte_ok msg ->
  Forall (fun p => Forall byte_ok p /\ blen p <= MAX_PAYLOAD_LENGTH) (split_payloads fuel msg).
Proof.
  induction fuel; intros msg Hl Hb.
  - change (split_payloads 0 msg) with [msg]. constructor; [|constructor]. split; [assumption|]. unfold blen, MAX_PAYLOAD_LENGTH. lia.
  - rewrite split_payloads_S. destruct (blen msg <=? MAX_PAYLOAD_LENGTH) eqn:E.
    + constructor; [|constructor]. split; [assumption|lia].
    + constructor.
      * split; [apply Forall_firstn_ok; assumption|]. unfold blen. rewrite firstn_length. unfold MAX_PAYLOAD_LENGTH. lia.
      * apply IHfuel; [|apply Forall_skipn_ok; assumption]. rewrite skipn_length.
        unfold blen, MAX_PAYLOAD_LENGTH in *. lia.
Qed.

Section Messages.
  Variable compression : bool.
  Variable compress : list Z -> list Z.
  Variable decompress : list Z -> Z -> list Z.
  Hypothesis decompress_compress : forall x, decompress (compress x) (blen x) = x.
  Hypothesis compress_bytes : forall x, Forall byte_ok x -> Forall byte_ok (compress x).

  Definition msg_segs (msg : list Z) : list seg :=
    let ps := split_payloads (length msg) msg in
    let sc := match ps with [_] => true | _ => false end in
    map (fun p => (p, sc)) ps.

  Lemma encode_wire : forall msg, encode compression compress msg = wire compression compress (msg_segs msg).
  Proof.
    intros. unfold encode, msg_segs, wire. cbv zeta. rewrite map_map. reflexivity.
  Qed.

  Lemma msg_segs_payloads : forall msg, payloads (msg_segs msg) = msg.
  Proof.
    intros. unfold payloads, msg_segs. cbv zeta. rewrite map_map. cbn [fst]. rewrite map_id. apply split_payloads_concat.
  Qed.

  Lemma msg_segs_ok : forall msg, Forall byte_ok msg -> segs_ok (msg_segs msg).
  Proof.
    intros msg H. unfold segs_ok, msg_segs. cbv zeta. rewrite Forall_map. cbn [fst].
    apply (split_payloads_ok (length msg) msg); [lia|assumption].
  Qed.

  Definition all_segs (fs : list frame) : list seg := concat (map (fun f => msg_segs (enc f)) fs).

  Lemma all_segs_wire : forall fs,
    wire compression compress (all_segs fs) = concat (map (fun f => encode compression compress (enc f)) fs).
  Proof.
    induction fs as [|f fs IH]; [reflexivity|]. unfold all_segs in *. cbn [map concat].
    rewrite wire_app, IH, encode_wire. reflexivity.
  Qed.

  Lemma all_segs_payloads : forall fs, payloads (all_segs fs) = frames_bytes fs.
  Proof.
    induction fs as [|f fs IH]; [reflexivity|]. unfold all_segs, frames_bytes in *. cbn [map concat].
    rewrite payloads_app, IH, msg_segs_payloads. reflexivity.
  Qed.

  Lemma all_segs_ok : forall fs, Forall (fun f => Forall byte_ok (enc f)) fs -> segs_ok (all_segs fs).
  Proof.
    induction fs as [|f fs IH]; intros H; [constructor|]. inversion H; subst. unfold all_segs, segs_ok in *. cbn [map concat].
    apply Forall_app. split; [apply msg_segs_ok; assumption|apply IH; assumption].
  Qed.

  Theorem roundtrip_messages : forall (fs : list frame) (chunks : list (list Z)),
    Forall wf fs -> Forall (fun f => Forall byte_ok (enc f)) fs ->
    concat chunks = concat (map (fun f => encode compression compress (enc f)) fs) ->
    exists c, run_cfeed compression decompress (cinit) chunks = (CLive [] [] c, map deliver fs).
  Proof.
    intros fs chunks Hwf Hb Hc.
    apply (roundtrip compression compress decompress decompress_compress compress_bytes (all_segs fs) fs chunks).
    - apply all_segs_ok. assumption.
    - assumption.
    - apply all_segs_payloads.
    - rewrite all_segs_wire. assumption.
  Qed.
End Messages.
