(* Lemmas for C06 (Model/Segment.v): one segment round-trips, a strict prefix of a segment asks for more bytes,
   the process_io_buffer loop in checksumming mode delivers exactly the frames sent under any segmentation and chunking. *)
From Coq Require Import ZArith List Bool Lia.
From Verif Require Import Crc Stream Segment Crc_proofs C05_proofs Seg_bytes.
Import ListNotations.
Local Open Scope Z_scope.

Lemma skipn_plus_exact : forall (n m : nat) (a b : list Z), length a = n -> skipn (n + m) (a ++ b) = skipn m b.
Proof.
  intros n m a b H. rewrite skipn_app, skipn_all2 by lia. simpl. f_equal. lia.
Qed.

Lemma blen_length : forall (l : list Z) (n : nat), length l = n -> blen l = Z.of_nat n.
Proof. intros. unfold blen. congruence. Qed.

Section Codec.
  Variable compression : bool.
  Variable compress : list Z -> list Z.
  Variable decompress : list Z -> Z -> list Z.
  Hypothesis decompress_compress : forall x, decompress (compress x) (blen x) = x.
  Hypothesis compress_bytes : forall x, Forall byte_ok x -> Forall byte_ok (compress x).

  Notation parse_seg := (parse_seg compression decompress).
  Notation encode_segment := (encode_segment compression compress).
  Notation encode_header := (encode_header compression).
  Notation encoded_payload := (encoded_payload compression compress).
  Notation cloop := (cloop compression decompress).
  Notation cfeed := (cfeed compression decompress).
  Notation run_cfeed := (run_cfeed compression decompress).

  Definition hlc : nat := if compression then 8%nat else 6%nat.
  Definition seg_ok (p : list Z) : Prop := Forall byte_ok p /\ blen p <= MAX_PAYLOAD_LENGTH.
  Definition ulen_of (ul : Z) : Z := if compression then ul else -1.

  Lemma encode_header_length : forall pl ul sc, length (encode_header pl ul sc) = hlc.
  Proof.
    intros. unfold encode_header, hlc, header_length. rewrite app_length, !le_bytes_length.
    destruct compression; reflexivity.
  Qed.

  Definition seg_body (ul : Z) (enc : list Z) : list Z :=
    if compression && (0 <? ulen_of ul) then decompress enc (ulen_of ul) else enc.

  (* _process_segment_buffer on a buffer that starts with a well-formed header *)
  Lemma parse_seg_header : forall pl ul sc rest,
    0 <= pl <= MAX_PAYLOAD_LENGTH -> 0 <= ul <= MAX_PAYLOAD_LENGTH ->
    parse_seg (encode_header pl ul sc ++ rest) =
      if blen rest <? pl + 4 then SNeed
      else let enc := firstn (Z.to_nat pl) rest in
           if negb (compute_crc32 enc CRC32_INITIAL =? le_val (firstn 4 (skipn (Z.to_nat pl) rest))) then SBad
           else SOk (seg_body ul enc) (skipn (Z.to_nat pl + 4) rest).
  Proof.
    intros pl ul sc rest Hpl Hul. unfold MAX_PAYLOAD_LENGTH in Hpl, Hul.
    pose proof (encode_header_length pl ul sc) as Hlen.
    pose proof (blen_nonneg rest) as Hr.
    unfold Segment.parse_seg. cbv zeta.
    unfold header_length_with_crc, header_length, CRC24_LENGTH, CRC32_LENGTH.
    rewrite blen_app, (blen_length _ _ Hlen).
    unfold Segment.encode_header in *. unfold header_length in *. unfold hlc in *. unfold seg_body, ulen_of.
    destruct compression.
    - (* 5-byte header *)
      destruct (header_compressed pl ul sc Hpl Hul) as (Hhd & Hpl' & Hul'). cbv zeta in Hhd, Hpl', Hul'.
      set (hd := header_data true pl ul sc) in *.
      change (Z.to_nat 5) with 5%nat in *. change (Z.to_nat (5 + 3)) with 8%nat.
      change (Z.of_nat 8) with 8.
      assert (E0 : 8 + blen rest <? 5 + 3 = false) by lia. rewrite E0.
      rewrite <- app_assoc. rewrite (firstn_exact 5) by apply le_bytes_length.
      rewrite (skipn_exact 5) by apply le_bytes_length.
      rewrite (firstn_exact 3) by apply le_bytes_length.
      rewrite le_val_le_bytes by exact Hhd.
      rewrite le_val_le_bytes by (pose proof (crc24_range hd 5) as Hc; change (256 ^ Z.of_nat 3) with (2 ^ 24); exact Hc).
      rewrite Z.eqb_refl. change (negb true) with false. cbv iota.
      rewrite Hpl', Hul'.
      assert (E1 : ul <? 0 = false) by lia. rewrite E1.
      replace (8 + blen rest <? 5 + 3 + pl + 4) with (blen rest <? pl + 4) by lia.
      destruct (blen rest <? pl + 4); [reflexivity|].
      rewrite app_assoc.
      assert (Hl8 : length (le_bytes 5 hd ++ le_bytes 3 (compute_crc24 hd 5)) = 8%nat) by (rewrite app_length, !le_bytes_length; reflexivity).
      rewrite (skipn_exact 8) by exact Hl8.
      rewrite (skipn_plus_exact 8) by exact Hl8.
      replace (8 + Z.to_nat pl + 4)%nat with (8 + (Z.to_nat pl + 4))%nat by lia.
      rewrite (skipn_plus_exact 8) by exact Hl8.
      reflexivity.
    - (* 3-byte header *)
      destruct (header_plain pl ul sc Hpl) as (Hhd & Hpl'). cbv zeta in Hhd, Hpl'.
      set (hd := header_data false pl ul sc) in *.
      change (Z.to_nat 3) with 3%nat in *. change (Z.to_nat (3 + 3)) with 6%nat.
      change (Z.of_nat 6) with 6.
      assert (E0 : 6 + blen rest <? 3 + 3 = false) by lia. rewrite E0.
      rewrite <- app_assoc. rewrite (firstn_exact 3) by apply le_bytes_length.
      rewrite (skipn_exact 3) by apply le_bytes_length.
      rewrite (firstn_exact 3) by apply le_bytes_length.
      rewrite le_val_le_bytes by exact Hhd.
      rewrite le_val_le_bytes by (pose proof (crc24_range hd 3) as Hc; change (256 ^ Z.of_nat 3) with (2 ^ 24); exact Hc).
      rewrite Z.eqb_refl. change (negb true) with false. cbv iota.
      rewrite Hpl'.
      change (-1 <? 0) with true. cbv iota.
      replace (6 + blen rest <? 3 + 3 + pl + 4) with (blen rest <? pl + 4) by lia.
      destruct (blen rest <? pl + 4); [reflexivity|].
      rewrite app_assoc.
      assert (Hl6 : length (le_bytes 3 hd ++ le_bytes 3 (compute_crc24 hd 3)) = 6%nat) by (rewrite app_length, !le_bytes_length; reflexivity).
      rewrite (skipn_exact 6) by exact Hl6.
      rewrite (skipn_plus_exact 6) by exact Hl6.
      replace (6 + Z.to_nat pl + 4)%nat with (6 + (Z.to_nat pl + 4))%nat by lia.
      rewrite (skipn_plus_exact 6) by exact Hl6.
      reflexivity.
  Qed.

  (* what _encode_segment puts on the wire *)
  Lemma encoded_payload_facts : forall p, seg_ok p ->
    let '(enc, ul) := encoded_payload p in
    Forall byte_ok enc /\ 0 <= blen enc <= MAX_PAYLOAD_LENGTH /\ 0 <= ul <= MAX_PAYLOAD_LENGTH /\ seg_body ul enc = p.
  Proof.
    intros p [Hb Hl]. pose proof (blen_nonneg p) as Hn. unfold Segment.encoded_payload, seg_body, ulen_of.
    destruct compression.
    - destruct (blen p <=? blen (compress p)) eqn:E.
      + repeat split; auto; unfold MAX_PAYLOAD_LENGTH in *; lia.
      + pose proof (blen_nonneg (compress p)) as Hc. repeat split; auto; try lia.
        simpl andb. assert (E1 : 0 <? blen p = true) by lia. rewrite E1. apply decompress_compress.
    - repeat split; auto; lia.
  Qed.

  Lemma encode_segment_shape : forall p sc,
    let '(enc, ul) := encoded_payload p in
    encode_segment p sc = encode_header (blen enc) ul sc ++ enc ++ le_bytes 4 (compute_crc32 enc CRC32_INITIAL).
  Proof. intros. unfold Segment.encode_segment. destruct (encoded_payload p). reflexivity. Qed.

  Lemma encode_segment_length : forall p sc,
    length (encode_segment p sc) = (hlc + length (fst (encoded_payload p)) + 4)%nat.
  Proof.
    intros. pose proof (encode_segment_shape p sc) as H. destruct (encoded_payload p) as [enc ul]. rewrite H.
    rewrite !app_length, encode_header_length, le_bytes_length. simpl. lia.
  Qed.

  Lemma crc32_fits : forall enc, Forall byte_ok enc -> 0 <= compute_crc32 enc CRC32_INITIAL < 256 ^ Z.of_nat 4.
  Proof. intros. change (256 ^ Z.of_nat 4) with (2 ^ 32). apply crc32_range; [exact crc32_initial_range|assumption]. Qed.

  (* a whole segment followed by anything: consumed, payload recovered *)
  Lemma parse_seg_enc : forall p sc rest, seg_ok p -> parse_seg (encode_segment p sc ++ rest) = SOk p rest.
  Proof.
    intros p sc rest Hok. pose proof (encoded_payload_facts p Hok) as Hf. pose proof (encode_segment_shape p sc) as Hs.
    destruct (encoded_payload p) as [enc ul]. destruct Hf as (Hb & Hl & Hu & Hbody). rewrite Hs.
    rewrite <- app_assoc. rewrite parse_seg_header by assumption.
    rewrite <- app_assoc. rewrite !blen_app. rewrite (blen_length _ _ (le_bytes_length 4 _)).
    pose proof (blen_nonneg rest) as Hr.
    change (Z.of_nat 4) with 4.
    assert (E : blen enc + (4 + blen rest) <? blen enc + 4 = false) by lia. rewrite E. cbv zeta.
    replace (Z.to_nat (blen enc)) with (length enc) by (unfold blen; symmetry; apply Nat2Z.id).
    rewrite (firstn_exact (length enc)) by reflexivity.
    rewrite (skipn_exact (length enc)) by reflexivity.
    rewrite (firstn_exact 4) by apply le_bytes_length.
    rewrite le_val_le_bytes by (apply crc32_fits; assumption).
    rewrite Z.eqb_refl. change (negb true) with false. cbv iota.
    rewrite Hbody. f_equal.
    rewrite app_assoc. apply skipn_exact. rewrite app_length, le_bytes_length. reflexivity.
  Qed.

  (* fewer bytes than the segment: nothing is consumed, nothing is reported *)
  Lemma parse_seg_prefix : forall p sc q r, seg_ok p -> q ++ r = encode_segment p sc -> r <> [] -> parse_seg q = SNeed.
  Proof.
    intros p sc q r Hok Hq Hr. pose proof (encoded_payload_facts p Hok) as Hf. pose proof (encode_segment_shape p sc) as Hs.
    destruct (encoded_payload p) as [enc ul]. destruct Hf as (Hb & Hl & Hu & Hbody). rewrite Hs in Hq.
    assert (Hrl : (0 < length r)%nat) by (destruct r; [congruence|simpl; lia]).
    destruct (Nat.lt_ge_cases (length q) hlc) as [Hlt|Hge].
    - (* not even the header *)
      unfold Segment.parse_seg. cbv zeta. unfold header_length_with_crc, header_length, CRC24_LENGTH.
      assert (E : blen q <? (if compression then 5 else 3) + 3 = true).
      { apply Z.ltb_lt. unfold blen, hlc in *. destruct compression; lia. }
      rewrite E. reflexivity.
    - apply app_eq_app in Hq. destruct Hq as [l [[Hq1 Hq2]|[Hq1 Hq2]]].
      + (* q = header ++ l *)
        subst q. rewrite parse_seg_header by assumption.
        assert (Hlen : (length l + length r = length enc + 4)%nat).
        { apply (f_equal (@length Z)) in Hq2. rewrite !app_length, le_bytes_length in Hq2. lia. }
        assert (E : blen l <? blen enc + 4 = true) by (apply Z.ltb_lt; unfold blen; lia). rewrite E. reflexivity.
      + (* header = q ++ l with l = [] *)
        assert (l = []).
        { apply (f_equal (@length Z)) in Hq1. rewrite app_length, encode_header_length in Hq1. destruct l; [reflexivity|simpl in Hq1; lia]. }
        subst l. rewrite app_nil_r in Hq1. subst q. rewrite <- (app_nil_r (encode_header _ _ _)).
        rewrite parse_seg_header by assumption.
        assert (E : blen (@nil Z) <? blen enc + 4 = true) by (apply Z.ltb_lt; unfold blen; simpl; lia). rewrite E. reflexivity.
  Qed.

  Lemma encode_segment_nonempty : forall p sc, encode_segment p sc <> [].
  Proof.
    intros p sc H. apply (f_equal (@length Z)) in H. rewrite encode_segment_length in H. simpl in H. lia.
  Qed.
End Codec.
